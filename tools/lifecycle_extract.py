#!/usr/bin/env python3
# C12 translator: clang AST (JSON) of /repo -> life-cycle programs in the mini language of
# coq/Cxx/C12_Defs.v.  For every class with raw-pointer data members found in the given files:
# one program per constructor = member initialisers ; constructor body ; destructor body.
# For given functions: the body, tracking local raw-pointer variables.
# Anything the translator does not understand that mentions a tracked pointer becomes SRead
# (a read of its value); assignments it cannot classify become "POther".
import json, os, re, subprocess, sys, hashlib


def clang_ast(repo, build, src_text, filt, cache_dir):
    os.makedirs(cache_dir, exist_ok=True)
    tu = os.path.join(cache_dir, "tu_%s.cpp" % hashlib.sha1((src_text + filt).encode()).hexdigest()[:12])
    open(tu, "w").write(src_text)
    cmd = ["clang++", "-std=c++11", "-fsyntax-only", "-fopenmp", "-DCMI_VERIF", "-Wno-everything",
           "-I" + os.path.join(repo, "src"), "-I" + os.path.join(build, "src"), "-I" + os.path.join(build, "include"),
           "-I/usr/lib/x86_64-linux-gnu/openmpi/include", "-I/usr/lib/x86_64-linux-gnu/openmpi/include/openmpi",
           "-I/usr/include/hdf5/serial", "-Xclang", "-ast-dump=json", "-Xclang", "-ast-dump-filter=" + filt, tu]
    p = subprocess.run(cmd, stdout=subprocess.PIPE, stderr=subprocess.PIPE, universal_newlines=True, timeout=600)
    if p.returncode != 0:
        raise RuntimeError("clang failed on %s: %s" % (filt, p.stderr[-2000:]))
    dec = json.JSONDecoder()
    txt = p.stdout
    i, objs = 0, []
    while i < len(txt):
        while i < len(txt) and txt[i] in " \n\r\t":
            i += 1
        if i >= len(txt):
            break
        o, j = dec.raw_decode(txt, i)
        objs.append(o)
        i = j
    return objs


def is_raw_ptr(qt):
    qt = qt.strip()
    return qt.endswith("*") and "(" not in qt and "[" not in qt


def strip(e):
    """skip wrappers"""
    while e.get("kind") in ("ImplicitCastExpr", "ParenExpr", "ExprWithCleanups", "CXXFunctionalCastExpr", "CStyleCastExpr",
                            "CXXStaticCastExpr", "MaterializeTemporaryExpr", "CXXBindTemporaryExpr", "ConstantExpr", "CXXReinterpretCastExpr") and e.get("inner"):
        e = e["inner"][-1]
    return e


class Tr:
    def __init__(self, tracked_kind):
        self.names = []          # pointer names (index = pointer number)
        self.kind = tracked_kind  # "member" or "local"
        self.ids = {}            # decl id -> index

    def idx(self, name, declid=None):
        key = declid or name
        if key not in self.ids:
            self.ids[key] = len(self.names)
            self.names.append(name)
        return self.ids[key]

    def ref(self, e):
        """index of the tracked pointer an expression denotes, or None"""
        e = strip(e)
        k = e.get("kind")
        if k == "MemberExpr" and self.kind == "member":
            base = strip(e["inner"][0]) if e.get("inner") else {}
            if base.get("kind") == "CXXThisExpr":
                d = e.get("referencedMemberDecl")
                if d in self.ids:
                    return self.ids[d]
        if k == "DeclRefExpr" and self.kind == "local":
            d = e.get("referencedDecl", {}).get("id")
            if d in self.ids:
                return self.ids[d]
        return None

    def is_null(self, e):
        e = strip(e)
        return e.get("kind") in ("CXXNullPtrLiteralExpr", "GNUNullExpr") or (e.get("kind") == "IntegerLiteral" and e.get("value") == "0")

    def reads(self, e, out):
        """all tracked pointers mentioned in an expression (pre-order), as SRead"""
        if not isinstance(e, dict):
            return
        r = self.ref(e) if e.get("kind") in ("MemberExpr", "DeclRefExpr", "ImplicitCastExpr", "ParenExpr") else None
        if r is not None:
            out.append(("read", r))
            return
        if e.get("kind") == "LambdaExpr":
            return
        if e.get("kind") == "CallExpr" and e.get("inner"):
            callee = strip(e["inner"][0])
            rd = callee.get("referencedDecl", {}) if callee.get("kind") == "DeclRefExpr" else {}
            if rd.get("kind") == "FunctionDecl" and rd.get("name"):
                for i, a in enumerate(e["inner"][1:]):
                    p = self.ref(a)
                    if p is not None:
                        # the tracked pointer itself is handed to a function: what the function does with it is looked up
                        # later (resolve_calls): read; plus delete / reset when the callee deletes that parameter
                        out.append(("call", rd["name"], i, p))
                    else:
                        self.reads(a, out)
                return
        for c in e.get("inner", []) or []:
            self.reads(c, out)

    def pexp(self, e, pre):
        """classify the right-hand side of an assignment / initialiser; reads needed first go to pre"""
        e0 = strip(e)
        if self.is_null(e0):
            return "PNull"
        if e0.get("kind") == "CXXNewExpr":
            self.reads(e0, pre)
            return "PNew"
        r = self.ref(e0)
        if r is not None:
            return "(PCopy %d)" % r
        self.reads(e0, pre)
        return "POther"

    # statements -> list of ops (nested python structure)
    def stmt(self, s):
        k = s.get("kind")
        inner = s.get("inner", []) or []
        if k in ("CompoundStmt", "CXXTryStmt", "CXXCatchStmt", "CapturedStmt", "AttributedStmt", "LabelStmt", "CaseStmt", "DefaultStmt"):
            out = []
            for c in inner:
                out += self.stmt(c)
            return out
        if k == "CapturedDecl":
            out = []
            for c in inner:
                if c.get("kind", "").endswith("Stmt"):
                    out += self.stmt(c)
            return out
        if k and k.startswith("OMP") and k.endswith("Directive"):
            body = []
            for c in inner:
                body += self.stmt(c)
            return [("loop", body)] if body else []
        if k == "DeclStmt":
            out = []
            for d in inner:
                if d.get("kind") == "VarDecl":
                    qt = d.get("type", {}).get("qualType", "")
                    init = [c for c in d.get("inner", []) or [] if "Comment" not in c.get("kind", "")]
                    if self.kind == "local" and is_raw_ptr(qt):
                        p = self.idx(d.get("name"), d.get("id"))
                        if init:
                            pre = []
                            e = self.pexp(init[-1], pre)
                            out += pre + [("assign", p, e)]
                        else:
                            out.append(("decl", p))
                    else:
                        for c in init:
                            self.reads(c, out)
            return out
        if k == "IfStmt":
            parts = [c for c in inner]
            cond, rest = parts[0], parts[1:]
            if s.get("hasVar") or s.get("hasInit"):
                pre = []
                for c in parts[:-2 if s.get("hasElse") else -1]:
                    self.reads(c, pre)
                cond = parts[-3 if s.get("hasElse") else -2]
                rest = parts[-2:] if s.get("hasElse") else parts[-1:]
            thn = self.stmt(rest[0]) if rest else []
            els = self.stmt(rest[1]) if len(rest) > 1 else []
            c0 = strip(cond)
            neg = False
            if c0.get("kind") == "UnaryOperator" and c0.get("opcode") == "!":
                neg = True
                c0 = strip(c0["inner"][0])
            p = None
            if c0.get("kind") == "BinaryOperator" and c0.get("opcode") in ("!=", "=="):
                a, b = c0["inner"]
                if self.is_null(b) and self.ref(a) is not None:
                    p = self.ref(a)
                elif self.is_null(a) and self.ref(b) is not None:
                    p = self.ref(b)
                if p is not None and c0.get("opcode") == "==":
                    neg = not neg
            elif self.ref(c0) is not None:
                p = self.ref(c0)
            if p is not None:
                return [("ifptr", p, els, thn)] if neg else [("ifptr", p, thn, els)]
            pre = []
            self.reads(cond, pre)
            return pre + [("if", thn, els)]
        if k in ("ForStmt", "WhileStmt", "DoStmt", "CXXForRangeStmt"):
            pre, body = [], []
            for c in inner[:-1]:
                if c.get("kind", "").endswith("Stmt") and c.get("kind") != "DeclStmt":
                    body += self.stmt(c)
                elif c.get("kind") == "DeclStmt":
                    pre += self.stmt(c)
                else:
                    self.reads(c, body)
            body = self.stmt(inner[-1]) + body if inner else body
            # condition/increment reads are inside the loop (and once before it)
            return pre + [("loop", body)]
        if k == "SwitchStmt":
            pre = []
            self.reads(inner[0], pre)
            body = self.stmt(inner[-1])
            return pre + [("loop", [("if", body, [])])]
        if k == "ReturnStmt" or k == "BreakStmt" or k == "ContinueStmt" or k == "NullStmt":
            out = []
            for c in inner:
                self.reads(c, out)
            return out
        # expressions used as statements
        return self.expr_stmt(s)

    def expr_stmt(self, e):
        e0 = strip(e)
        k = e0.get("kind")
        if k == "BinaryOperator" and e0.get("opcode") == "=":
            lhs, rhs = e0["inner"]
            p = self.ref(lhs)
            if p is not None:
                pre = []
                v = self.pexp(rhs, pre)
                return pre + [("assign", p, v)]
        if k == "CXXDeleteExpr":
            p = self.ref(e0["inner"][0]) if e0.get("inner") else None
            if p is not None:
                return [("delete", p)]
        if k == "LambdaExpr":
            return []
        out = []
        self.reads(e0, out)
        return out


def callee_effects(objs, fname):
    """for every definition of function fname in objs: {param index: (deleted, by_reference, reset_to_null)}"""
    res = {}
    def visit(o):
        if o.get("kind") == "FunctionDecl" and o.get("name") == fname:
            body = [x for x in o.get("inner", []) or [] if x.get("kind") == "CompoundStmt"]
            params = [x for x in o.get("inner", []) or [] if x.get("kind") == "ParmVarDecl"]
            if body:
                for i, pv in enumerate(params):
                    qt = pv.get("type", {}).get("qualType", "")
                    if "*" not in qt:
                        continue
                    st = {"del": False, "reset": False}
                    def scan(e):
                        if not isinstance(e, dict):
                            return
                        if e.get("kind") == "CXXDeleteExpr" and e.get("inner"):
                            t = strip(e["inner"][0])
                            if t.get("kind") == "DeclRefExpr" and t.get("referencedDecl", {}).get("id") == pv.get("id"):
                                st["del"] = True
                        if e.get("kind") == "BinaryOperator" and e.get("opcode") == "=" and st["del"]:
                            l, r = e["inner"]
                            l, r = strip(l), strip(r)
                            if l.get("kind") == "DeclRefExpr" and l.get("referencedDecl", {}).get("id") == pv.get("id") and \
                               r.get("kind") in ("CXXNullPtrLiteralExpr", "GNUNullExpr"):
                                st["reset"] = True
                        for c in e.get("inner", []) or []:
                            scan(c)
                    scan(body[0])
                    if st["del"]:
                        byref = qt.rstrip().endswith("&")
                        old = res.get(i)
                        # several definitions (overloads / template instances): keep the most dangerous reading
                        new = (True, byref, st["reset"] and byref)
                        res[i] = new if old is None else (True, old[1] and new[1], old[2] and new[2])
        for c in o.get("inner", []) or []:
            if isinstance(c, dict):
                visit(c)
    for o in objs:
        visit(o)
    return res


def resolve_calls(ops, resolver):
    """replace ("call", f, i, p) by the read of p plus the effect the callee has on its i-th parameter"""
    out = []
    for o in ops:
        t = o[0]
        if t == "call":
            out.append(("read", o[3]))
            eff = resolver(o[1]).get(o[2]) if resolver else None
            if eff:
                out.append(("delete", o[3]))
                if eff[2]:
                    out.append(("assign", o[3], "PNull"))
        elif t == "ifptr":
            out.append((t, o[1], resolve_calls(o[2], resolver), resolve_calls(o[3], resolver)))
        elif t == "if":
            out.append((t, resolve_calls(o[1], resolver), resolve_calls(o[2], resolver)))
        elif t == "loop":
            out.append((t, resolve_calls(o[1], resolver)))
        else:
            out.append(o)
    return out


def to_coq(ops):
    if not ops:
        return "SSkip"
    def one(o):
        t = o[0]
        if t == "read":
            return "(SRead %d)" % o[1]
        if t == "decl":
            return "(SDeclUninit %d)" % o[1]
        if t == "assign":
            return "(SAssign %d %s)" % (o[1], o[2])
        if t == "delete":
            return "(SDelete %d)" % o[1]
        if t == "ifptr":
            return "(SIfPtr %d %s %s)" % (o[1], to_coq(o[2]), to_coq(o[3]))
        if t == "if":
            return "(SIf %s %s)" % (to_coq(o[1]), to_coq(o[2]))
        if t == "loop":
            return "(SLoop %s)" % to_coq(o[1])
        raise ValueError(o)
    r = one(ops[-1])
    for o in reversed(ops[:-1]):
        r = "(SSeq %s %s)" % (one(o), r)
    return r


def relevant(ops):
    """drop statements that mention no tracked pointer at all (keeps programs small)"""
    out = []
    for o in ops:
        if o[0] == "ifptr":
            out.append((o[0], o[1], relevant(o[2]), relevant(o[3])))
        elif o[0] == "if":
            a, b = relevant(o[1]), relevant(o[2])
            if a or b:
                out.append(("if", a, b))
        elif o[0] == "loop":
            a = relevant(o[1])
            if a:
                out.append(("loop", a))
        else:
            out.append(o)
    return out


def class_programs(objs, clsname, resolver=None):
    # out-of-line constructor / destructor definitions appear as top-level declarations
    ool_ctors = [o for o in objs if o.get("kind") == "CXXConstructorDecl" and o.get("name") == clsname
                 and any(x.get("kind") == "CompoundStmt" for x in o.get("inner", []) or [])]
    ool_dtors = [o for o in objs if o.get("kind") == "CXXDestructorDecl" and o.get("name") == "~" + clsname
                 and any(x.get("kind") == "CompoundStmt" for x in o.get("inner", []) or [])]
    """programs for one class definition"""
    progs = []
    cands = []
    def find(o, depth=0):
        if o.get("kind") == "CXXRecordDecl" and o.get("name") == clsname and o.get("completeDefinition"):
            cands.append(o)
            return
        if depth < 3 and o.get("kind") in ("ClassTemplateDecl", "NamespaceDecl", "LinkageSpecDecl"):
            for c in o.get("inner", []) or []:
                find(c, depth + 1)
    for o in objs:
        find(o)
    seen = set()
    for o in cands:
        if o.get("id") in seen:
            continue
        seen.add(o.get("id"))
        fields = [c for c in o.get("inner", []) if c.get("kind") == "FieldDecl" and is_raw_ptr(c.get("type", {}).get("qualType", ""))]
        if not fields:
            return []
        dtor = [c for c in o["inner"] if c.get("kind") == "CXXDestructorDecl" and any(x.get("kind") == "CompoundStmt" for x in c.get("inner", []) or [])] + ool_dtors
        ctors = [c for c in o["inner"] if c.get("kind") == "CXXConstructorDecl" and not c.get("isImplicit")
                 and any(x.get("kind") == "CompoundStmt" for x in c.get("inner", []) or [])] + ool_ctors
        for ci, ct in enumerate(ctors):
            tr = Tr("member")
            for f in fields:
                tr.idx(f["name"], f["id"])
            inits = [x for x in ct.get("inner", []) if x.get("kind") == "CXXCtorInitializer"]
            if any("anyInit" not in x and "baseInit" not in x for x in inits):
                continue      # delegating constructor: covered by its target
            ops = []
            inited = set()
            for f in fields:       # default member initialisers
                dm = [c for c in f.get("inner", []) or [] if "Comment" not in c.get("kind", "")]
                if dm:
                    pre = []
                    ops += pre + [("assign", tr.ids[f["id"]], tr.pexp(dm[-1], pre))]
                    inited.add(f["id"])
            for x in inits:
                a = x.get("anyInit")
                if a and a.get("id") in tr.ids:
                    pre = []
                    v = tr.pexp(x["inner"][0], pre) if x.get("inner") else "POther"
                    ops += pre + [("assign", tr.ids[a["id"]], v)]
                    inited.add(a["id"])
                else:
                    for c in x.get("inner", []) or []:
                        tr.reads(c, ops)
            ops = [("decl", tr.ids[f["id"]]) for f in fields if f["id"] not in inited] + ops
            body = [x for x in ct["inner"] if x.get("kind") == "CompoundStmt"][0]
            ops += tr.stmt(body)
            if dtor:
                ops += tr.stmt([x for x in dtor[0]["inner"] if x.get("kind") == "CompoundStmt"][0])
            sig = ct.get("type", {}).get("qualType", "")
            progs.append(dict(name="%s::ctor%d" % (clsname, ci), where="%s %s" % (clsname, sig[:80]), ptrs=list(tr.names), ops=relevant(resolve_calls(ops, resolver))))
    return progs


def function_programs(objs, fname, qual=None, resolver=None):
    progs = []
    def visit(o, cls=None):
        k = o.get("kind")
        if k in ("CXXMethodDecl", "FunctionDecl") and o.get("name") == fname:
            body = [x for x in o.get("inner", []) or [] if x.get("kind") == "CompoundStmt"]
            if body:
                tr = Tr("local")
                ops = tr.stmt(body[0])
                progs.append(dict(name="%s%s" % ((qual + "::") if qual else "", fname), where=fname, ptrs=list(tr.names), ops=relevant(resolve_calls(ops, resolver))))
        for c in o.get("inner", []) or []:
            if c.get("kind") in ("CXXRecordDecl", "CXXMethodDecl", "FunctionDecl", "NamespaceDecl"):
                visit(c)
    for o in objs:
        visit(o)
    return progs


CLASS_SOURCES = ["LiveOutputManager.hpp", "TrackerManager.hpp", "ThreadSafeVector.hpp", "MemorySpace.hpp", "Task.hpp", "TaskQueue.hpp",
                 "TaskBasedIonizationSimulation.hpp", "PhotonBuffer.hpp", "Scheduler.hpp", "DensitySubGridCreator.hpp", "DensitySubGrid.hpp",
                 "HydroDensitySubGrid.hpp", "DistributedPhotonSource.hpp", "RestartManager.hpp", "ParameterFile.hpp", "YAMLDictionary.hpp",
                 "SurfaceDensityCalculator.hpp", "SurfaceDensityIonizedCalculator.hpp", "DensityPDFCalculator.hpp", "VelocityPDFCalculator.hpp",
                 "TimeLogger.hpp", "MemoryLogger.hpp", "CommandLineParser.hpp", "AlveliusTurbulenceForcing.hpp", "PhotonPacketStatistics.hpp"]
FUNCTIONS = [("TaskBasedRadiationHydrodynamicsSimulation.cpp", "do_simulation", "TaskBasedRadiationHydrodynamicsSimulation"),
             ("CMacIonize.cpp", "main", None)]


PTR_MEMBER = re.compile(r"^\s+[A-Za-z_:<> ]+\*\s*_[a-z_A-Z0-9]+;", re.M)


def discover(repo):
    """every header of /repo/src that declares a raw-pointer data member (plus the anchor list)"""
    src = os.path.join(repo, "src")
    hs = set(h for h in CLASS_SOURCES if os.path.exists(os.path.join(src, h)))
    for f in sorted(os.listdir(src)):
        if f.endswith(".hpp") and PTR_MEMBER.search(open(os.path.join(src, f), errors="replace").read()):
            hs.add(f)
    return sorted(hs)


def extract(repo, build, cache_dir, jobs=16):
    from concurrent.futures import ThreadPoolExecutor
    notes = []
    src = os.path.join(repo, "src")
    work = []          # (kind, tu text, filter, extra)
    for h in discover(repo):
        txt = open(os.path.join(src, h), errors="replace").read()
        names = sorted(set(re.findall(r"^\s*(?:template\s*<[^>]*>\s*)?class\s+(\w+)\s*(?::[^;{]*)?\{", txt, re.M)))
        cpp = os.path.join(src, h[:-4] + ".cpp")
        tu = '#include "%s"\n' % (cpp if os.path.exists(cpp) else h)
        for n in names:
            work.append(("class", tu, n, None))
    for (f, fn, q) in FUNCTIONS:
        path = os.path.join(src, f)
        if os.path.exists(path):
            work.append(("func", '#include "%s"\n' % path, fn, q))
        else:
            notes.append("missing " + f)

    def job(w):
        kind, tu, filt, q = w
        try:
            objs = clang_ast(repo, build, tu, filt, cache_dir)
        except Exception as e:
            return [], ["clang failed for %s: %s" % (filt, str(e)[-300:])]
        memo = {}
        def resolver(fname):
            if fname not in memo:
                try:
                    memo[fname] = callee_effects(clang_ast(repo, build, tu, fname, cache_dir), fname)
                except Exception:
                    memo[fname] = {}
            return memo[fname]
        try:
            return (class_programs(objs, filt, resolver) if kind == "class" else function_programs(objs, filt, q, resolver)), []
        except Exception as e:
            return [], ["translator failed for %s: %r" % (filt, e)]

    progs = []
    with ThreadPoolExecutor(max_workers=jobs) as ex:
        for pr, nt in ex.map(job, work):
            progs += pr
            notes += nt
    # stable order and unique names
    progs.sort(key=lambda p: p["name"])
    return progs, notes


def emit_coq(progs):
    out = ["(* GENERATED by tools/lifecycle_extract.py from the clang AST of /repo -- do not edit *)",
           "From Coq Require Import List String.", "From CMI Require Import Cxx.C12_Defs.", "Import ListNotations.", "Open Scope string_scope.", ""]
    names = []
    for i, p in enumerate(progs):
        out.append("(* %s : pointers %s *)" % (p["where"].replace("(*", "( *").replace("*)", "* )"), ", ".join("%d=%s" % (k, n) for k, n in enumerate(p["ptrs"]))))
        out.append("Definition prog_%d : stmt := %s." % (i, to_coq(p["ops"])))
        names.append('("%s", %d, prog_%d)' % (p["name"], len(p["ptrs"]), i))
    out.append("")
    out.append("Definition gen_programs : list (string * nat * stmt) := [" + ";\n  ".join(names) + "].")
    return "\n".join(out) + "\n"


if __name__ == "__main__":
    repo, build, cache = sys.argv[1], sys.argv[2], sys.argv[3]
    progs, notes = extract(repo, build, cache)
    for p in progs:
        print(p["name"], p["ptrs"])
        print("   ", to_coq(p["ops"])[:400])
    print(notes)
