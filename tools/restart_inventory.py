#!/usr/bin/env python3
# C09 restart inventory: clang AST (JSON) of /repo -> for every class on the task-based RHD restart path
#   * the token structure of its writer  (write_restart_file / write_restart_info / static factory writer)
#   * the token structure of its reader  (constructor / method / static factory function taking RestartReader &)
#   * its data members with: referenced by the writer? restored (assigned / initialised from the stream) by the reader?
#     and, for members the reader sets WITHOUT the stream, the expression it uses (and the normal constructor's one)
# plus the dump block and the restart path of TaskBasedRadiationHydrodynamicsSimulation::do_simulation.
# Token structure:  ("prim", cxx_type, target) | ("call", class, target) | ("dispatch", base, target)
#                   | ("loop", [tokens]) | ("if", cond_text, [then], [else])
# Loops with a literal trip count are unrolled (so `for (i<12) write(x[i])` matches twelve explicit reads).
# Anything that touches the stream and is not understood becomes ("unknown", text): the Coq checker rejects it.
import json, os, re, sys, subprocess
sys.path.insert(0, os.path.dirname(os.path.abspath(__file__)))
import lifecycle_extract as LX

TOP_FILE = "TaskBasedRadiationHydrodynamicsSimulation.cpp"
TOP_CLASS = "TaskBasedRadiationHydrodynamicsSimulation"
WRITER_NAMES = ("write_restart_file", "write_restart_info")
READER_METHODS = ("restart", "read_restart_info")
# legacy (non task-based) classes: not on the inventoried path, fetched only if something reaches them
SKIP_PREFETCH = ("DensityGrid", "CartesianDensityGrid", "StatisticsLogger", "DensityGridFactory", "RestartManager", "iterator")
WRAP = ("ImplicitCastExpr", "ParenExpr", "ExprWithCleanups", "CXXFunctionalCastExpr", "CStyleCastExpr", "CXXStaticCastExpr",
        "MaterializeTemporaryExpr", "CXXBindTemporaryExpr", "ConstantExpr", "CXXReinterpretCastExpr")


def strip(e):
    while e.get("kind") in WRAP and e.get("inner"):
        e = e["inner"][-1]
    return e


def qt(e, desugar=True):
    t = e.get("type", {})
    return (t.get("desugaredQualType") if desugar and t.get("desugaredQualType") else t.get("qualType", "")) or ""


def clean_type(s):
    s = re.sub(r"\b(const|volatile|class|struct)\b", "", s)
    s = s.replace("&", "").strip()
    s = re.sub(r"\s+", " ", s)
    s = re.sub(r"\s*\*\s*$", "", s).strip()
    return s


def is_stream_type(s):
    return "RestartWriter" in s or "RestartReader" in s


def is_stream(e):
    e = strip(e)
    if e.get("kind") == "UnaryOperator" and e.get("opcode") == "*":
        e = strip(e["inner"][0])
    return e.get("kind") == "DeclRefExpr" and is_stream_type(qt(e, False))


def children(e):
    return [c for c in (e.get("inner") or []) if isinstance(c, dict)]


class Src:
    """source text by offset (for qualifiers of static calls and for rendering expressions)"""
    def __init__(self):
        self.cache = {}

    def text(self, path, b, e):
        if path not in self.cache:
            self.cache[path] = open(path, "rb").read()
        return self.cache[path][b:e].decode("utf8", "replace")


SRC = Src()


def rng_text(e, path):
    r = e.get("range", {})
    b, en = r.get("begin", {}), r.get("end", {})
    if "expansionLoc" in b:
        b = b["expansionLoc"]
    if "expansionLoc" in en:
        en = en["expansionLoc"]
    if "offset" not in b or "offset" not in en:
        return ""
    t = SRC.text(path, b["offset"], en["offset"] + en.get("tokLen", 1))
    return re.sub(r"\s+", " ", t).strip()


class Extractor:
    def __init__(self, path, toplevel=False):
        self.path = path            # file the declaration lives in (for source text)
        self.toplevel = toplevel
        self.members_ref = set()    # writer: members referenced
        self.restored = set()       # reader: members assigned / initialised from the stream
        self.set_exprs = {}         # reader: member -> [expression text] for assignments without the stream
        self.touched = set()        # reader: members mentioned at all
        self.tainted = set()        # local variable ids initialised from the stream
        self.notes = []

    # ---- helpers -------------------------------------------------------
    def member_of_this(self, e):
        e = strip(e)
        if e.get("kind") == "MemberExpr" and children(e):
            b = strip(children(e)[0])
            # members of anonymous unions / structs are reached through unnamed MemberExprs
            while b.get("kind") == "MemberExpr" and not b.get("name") and children(b):
                b = strip(children(b)[0])
            if b.get("kind") == "CXXThisExpr":
                return e.get("name")
        return None

    def root(self, e):
        """root data member (or local variable) an lvalue / object expression denotes"""
        e = strip(e)
        k = e.get("kind")
        m = self.member_of_this(e)
        if m:
            return ("member", m)
        if k == "DeclRefExpr":
            rd = e.get("referencedDecl", {})
            if rd.get("kind") in ("VarDecl", "ParmVarDecl"):
                return ("local", rd.get("name"), rd.get("id"))
            return None
        if k in ("ArraySubscriptExpr", "MemberExpr", "UnaryOperator", "CXXMemberCallExpr") and children(e):
            return self.root(children(e)[0])
        if k == "CXXOperatorCallExpr" and len(children(e)) >= 2:
            return self.root(children(e)[1])
        if k in ("CXXNewExpr", "CXXConstructExpr", "InitListExpr", "CXXTemporaryObjectExpr"):
            return None
        for c in children(e):
            r = self.root(c)
            if r:
                return r
        return None

    def tname(self, r):
        if r is None:
            return ""
        if r[0] == "member":
            return r[1]
        return r[1] if self.toplevel else ""

    def all_members(self, e, out):
        if not isinstance(e, dict):
            return
        m = self.member_of_this(e) if e.get("kind") == "MemberExpr" else None
        if m:
            out.add(m)
        for c in children(e):
            self.all_members(c, out)

    def has_taint(self, e):
        if not isinstance(e, dict):
            return False
        if e.get("kind") == "DeclRefExpr" and e.get("referencedDecl", {}).get("id") in self.tainted:
            return True
        return any(self.has_taint(c) for c in children(e))

    def class_of(self, e, arrow=False):
        t = clean_type(qt(e))
        return t

    # ---- expression level ------------------------------------------------
    def expr(self, e, target=None):
        """tokens produced by evaluating an expression, in evaluation (source) order"""
        if not isinstance(e, dict):
            return []
        k = e.get("kind")
        if k in ("LambdaExpr",) or "Comment" in (k or ""):
            return []
        ch = children(e)
        if k in ("CXXMemberCallExpr",) and ch and strip(ch[0]).get("kind") == "MemberExpr":
            me = strip(ch[0])
            name = me.get("name")
            base = children(me)[0] if children(me) else {}
            args = ch[1:]
            if name == "write" and is_stream(base) and len(args) == 1:
                r = self.root(args[0])
                self.all_members(args[0], self.members_ref)
                return [("prim", clean_type(qt(args[0])), self.tname(r))]
            if name == "read" and is_stream(base) and not args:
                return [("prim", clean_type(qt(e)), self.tname(target))]
            if any(is_stream(a) for a in args):
                r = self.root(base)
                self.all_members(base, self.members_ref)
                cls = self.class_of(base)
                tgt = self.tname(r)
                # a call on `this` (possibly cast to a base class) is a direct, qualified call
                direct = strip(base).get("kind") == "CXXThisExpr"
                return [("call" if direct else "vcall", cls, tgt if not direct else "")]
        if k == "CallExpr" and ch and any(is_stream(a) for a in ch[1:]):
            callee = strip(ch[0])
            text = rng_text(callee, self.path)
            m = re.match(r"^\s*([A-Za-z_][A-Za-z_0-9]*)\s*::\s*([A-Za-z_][A-Za-z_0-9]*)", text)
            other = [a for a in ch[1:] if not is_stream(a) and clean_type(qt(a)) not in ("Log",)]
            r = self.root(other[0]) if other else target
            for a in other:
                self.all_members(a, self.members_ref)
            if m:
                return [("call", m.group(1), self.tname(r))]
            return [("unknown", "call " + text, "")]
        if k in ("CXXConstructExpr", "CXXTemporaryObjectExpr") and any(is_stream(a) for a in ch):
            return [("call", clean_type(qt(e)), self.tname(target))]
        if k == "CXXNewExpr":
            out = []
            for c in ch:
                out += self.expr(c, target)
            return out
        if k == "BinaryOperator" and e.get("opcode") == "=" and len(ch) == 2:
            return self.assign(ch[0], ch[1])
        if k == "CXXOperatorCallExpr" and len(ch) == 3 and strip(ch[0]).get("kind") == "DeclRefExpr" and strip(ch[0]).get("referencedDecl", {}).get("name") == "operator=":
            return self.assign(ch[1], ch[2])
        if k in ("CallExpr", "CXXMemberCallExpr", "CXXOperatorCallExpr", "CXXConstructExpr", "CXXTemporaryObjectExpr") and any(is_stream(a) for a in ch[1:] if k != "CXXConstructExpr") :
            return [("unknown", "stream passed to: " + rng_text(e, self.path)[:120], "")]
        if k == "CXXMemberCallExpr" and ch and strip(ch[0]).get("kind") == "MemberExpr" and children(strip(ch[0])) and is_stream(children(strip(ch[0]))[0]):
            return [("unknown", "stream method: " + rng_text(e, self.path)[:120], "")]
        out = []
        for c in ch:
            out += self.expr(c, target)
        return out

    def assign(self, lhs, rhs):
        r = self.root(lhs)
        toks = self.expr(rhs, r)
        lt = self.expr(lhs, None)
        if r and r[0] == "member":
            self.touched.add(r[1])
            if toks or self.has_taint(rhs):
                self.restored.add(r[1])
            else:
                self.set_exprs.setdefault(r[1], []).append(rng_text(rhs, self.path))
        if r and r[0] == "local" and toks:
            self.tainted.add(r[2])
        return lt + toks

    # ---- statement level ---------------------------------------------------
    def literal_trip_count(self, s):
        """for (T i = 0; i < N; ++i) with integer literals -> N ; else None"""
        ch = s.get("inner") or []
        if s.get("kind") != "ForStmt" or len(ch) < 5:
            return None
        init, cond, inc = ch[0], ch[2], ch[3]
        try:
            vd = [d for d in children(init) if d.get("kind") == "VarDecl"]
            if len(vd) != 1:
                return None
            iv = strip([c for c in children(vd[0])][-1])
            if iv.get("kind") != "IntegerLiteral" or iv.get("value") != "0":
                return None
            c0 = strip(cond)
            if c0.get("kind") != "BinaryOperator" or c0.get("opcode") != "<":
                return None
            a, b = children(c0)
            if strip(a).get("kind") != "DeclRefExpr" or strip(a)["referencedDecl"]["id"] != vd[0]["id"]:
                return None
            if strip(b).get("kind") != "IntegerLiteral":
                return None
            i0 = strip(inc)
            if i0.get("kind") != "UnaryOperator" or i0.get("opcode") != "++":
                return None
            return int(strip(b)["value"])
        except Exception:
            return None

    def stmts(self, s):
        if not isinstance(s, dict):
            return []
        k = s.get("kind") or ""
        ch = s.get("inner") or []
        if "Comment" in k:
            return []
        if k in ("CompoundStmt", "CXXTryStmt", "CXXCatchStmt", "CapturedStmt", "AttributedStmt", "LabelStmt", "CaseStmt", "DefaultStmt", "CapturedDecl") or (k.startswith("OMP") and k.endswith("Directive")):
            out = []
            for c in ch:
                if isinstance(c, dict) and (c.get("kind", "").endswith("Stmt") or c.get("kind", "").endswith("Expr") or c.get("kind", "").endswith("Operator")
                                            or c.get("kind", "").endswith("Directive") or c.get("kind") in ("CapturedDecl", "ExprWithCleanups")):
                    out += self.stmts(c)
            return out
        if k == "DeclStmt":
            out = []
            for d in ch:
                if d.get("kind") == "VarDecl":
                    init = [c for c in children(d) if "Comment" not in c.get("kind", "")]
                    r = ("local", d.get("name"), d.get("id"))
                    for c in init:
                        t = self.expr(c, r)
                        if t or self.has_taint(c):
                            self.tainted.add(d.get("id"))
                        out += t
            return out
        if k == "IfStmt":
            parts = [c for c in ch if isinstance(c, dict)]
            cond = parts[0]
            thn = self.stmts(parts[1]) if len(parts) > 1 else []
            els = self.stmts(parts[2]) if len(parts) > 2 else []
            pre = self.expr(cond, None)
            ctext = rng_text(cond, self.path)
            self.all_members(cond, self.members_ref)
            if self.toplevel:
                # we are on the restart path / inside the dump block: conditions on the reader itself are decided
                pos = re.search(r"restart_reader\s*!=\s*nullptr|was_found\(\s*\"restart\"\s*\)", ctext)
                neg = re.search(r"restart_reader\s*==\s*nullptr", ctext)
                if (pos or neg) and "&&" not in ctext and "||" not in ctext:
                    return pre + (thn if pos else els)
                if neg and "||" not in ctext:      # a conjunction containing restart_reader == nullptr is false
                    return pre + els
            if not thn and not els:
                return pre
            return pre + [("if", ctext, thn, els)]
        if k in ("ForStmt", "WhileStmt", "DoStmt", "CXXForRangeStmt"):
            n = self.literal_trip_count(s)
            body = self.stmts(ch[-1]) if ch else []
            hdr = []
            for c in ch[:-1]:
                if isinstance(c, dict) and c.get("kind"):
                    hdr += self.stmts(c) if c.get("kind") == "DeclStmt" else self.expr(c, None)
                    self.all_members(c, self.members_ref)
            if hdr:
                return [("unknown", "stream used in a loop header", "")]
            if not body:
                return []
            if n is not None and n <= 64:
                return body * n
            return [("loop", body)]
        if k == "ReturnStmt":
            out = []
            for c in ch:
                out += self.expr(c, None)
            return out
        if k in ("BreakStmt", "ContinueStmt", "NullStmt"):
            return []
        if k == "SwitchStmt":
            t = []
            for c in ch:
                t += self.stmts(c)
            return [("unknown", "switch around stream use", "")] if t else []
        return self.expr(s, None)


# ----------------------------------------------------------------------------
def template_key(name, args):
    return name + ("<" + ",".join(args) + ">" if args is not None else "")


def normalise_class_name(t, defaults):
    """'CoordinateVector<>' -> 'CoordinateVector<double>' using the template's default arguments"""
    m = re.match(r"^([A-Za-z_][A-Za-z_0-9:]*)\s*<\s*(.*)>\s*$", t)
    if not m:
        return t
    name, args = m.group(1), m.group(2).strip()
    if args == "" and name in defaults:
        args = defaults[name]
    args = ",".join(a.strip() for a in args.split(","))
    return "%s<%s>" % (name, args)


class Inventory:
    def __init__(self, repo, build, cache):
        self.repo, self.build, self.cache = repo, build, cache
        self.src = os.path.join(repo, "src")
        self.tu = '#include "%s"\n' % os.path.join(self.src, TOP_FILE)
        self.classes = {}      # key -> dict
        self.defaults = {}     # template name -> default argument text
        self.notes = []
        self.asts = {}

    def ast(self, filt):
        if filt not in self.asts:
            self.asts[filt] = LX.clang_ast(self.repo, self.build, self.tu, filt, self.cache)
        return self.asts[filt]

    def prefetch(self, jobs=16):
        """one clang run per class name that may be needed (headers with restart support), in parallel"""
        from concurrent.futures import ThreadPoolExecutor
        names = {"do_simulation"}
        for f in sorted(os.listdir(self.src)):
            if not f.endswith(".hpp"):
                continue
            txt = open(os.path.join(self.src, f), errors="replace").read()
            if re.search(r"write_restart_file\s*\(\s*RestartWriter|write_restart_info\s*\(\s*RestartWriter", txt):
                for n in re.findall(r"^\s*(?:template\s*<[^>]*>\s*)?class\s+(\w+)\s*(?::[^;{]*)?\{", txt, re.M):
                    names.add(n)
        names -= set(SKIP_PREFETCH)

        def job(n):
            try:
                return n, LX.clang_ast(self.repo, self.build, self.tu, n, self.cache)
            except Exception as e:
                return n, None
        with ThreadPoolExecutor(max_workers=jobs) as ex:
            for n, objs in ex.map(job, sorted(names)):
                if objs is not None:
                    self.asts[n] = objs

    def file_of(self, decl, default):
        loc = decl.get("loc", {})
        for l in (loc, loc.get("expansionLoc", {}), decl.get("range", {}).get("begin", {})):
            if l.get("file"):
                return l["file"]
        return default

    def records(self, base):
        """all complete definitions of class `base`: [(key, record decl, file)]"""
        objs = self.ast(base)
        out = []
        guess = os.path.join(self.src, base + ".hpp")

        def visit(o, depth=0):
            k = o.get("kind")
            if k == "ClassTemplateDecl" and o.get("name") == base:
                for c in children(o):
                    if c.get("kind") == "TemplateTypeParmDecl" and c.get("defaultArg"):
                        self.defaults[base] = clean_type(c["defaultArg"].get("type", {}).get("desugaredQualType") or c["defaultArg"].get("type", {}).get("qualType", ""))
                    if c.get("kind") == "ClassTemplateSpecializationDecl" and c.get("name") == base and c.get("completeDefinition"):
                        args = [clean_type(a.get("type", {}).get("desugaredQualType") or a.get("type", {}).get("qualType", "")) for a in children(c) if a.get("kind") == "TemplateArgument"]
                        out.append((template_key(base, args), c, guess))
                return
            if k == "CXXRecordDecl" and o.get("name") == base and o.get("completeDefinition"):
                out.append((base, o, guess))
                return
            if depth < 3 and k in ("NamespaceDecl", "LinkageSpecDecl"):
                for c in children(o):
                    visit(c, depth + 1)
        for o in objs:
            visit(o)
        seen, res = set(), []
        for key, rec, f in out:
            if rec.get("id") in seen:
                continue
            seen.add(rec.get("id"))
            res.append((key, rec, f if os.path.exists(f) else None))
        return res

    def load(self, key):
        """inventory one class (key = canonical class name incl. template arguments)"""
        key = normalise_class_name(key, self.defaults)
        if key in self.classes:
            return key
        base = key.split("<")[0]
        recs = self.records(base)
        key = normalise_class_name(key, self.defaults)
        if key in self.classes:
            return key
        rec = [r for r in recs if normalise_class_name(r[0], self.defaults) == key]
        info = dict(name=key, writer=None, reader=None, members=[], bases=[], written=set(), restored=set(), set_exprs={}, ctor_exprs={}, reader_kind=None, file=None)
        self.classes[key] = info
        if not rec:
            self.notes.append("class %s: no complete definition found in the AST" % key)
            return key
        _, r, path = rec[0]
        if path is None:
            # find the header by grep
            for f in sorted(os.listdir(self.src)):
                if f.endswith(".hpp") and re.search(r"\bclass\s+%s\b[^;]*\{" % re.escape(base), open(os.path.join(self.src, f), errors="replace").read()):
                    path = os.path.join(self.src, f)
                    break
        info["file"] = path
        info["bases"] = [normalise_class_name(clean_type(b.get("type", {}).get("desugaredQualType") or b.get("type", {}).get("qualType", "")), self.defaults) for b in r.get("bases", [])]
        fields = [c for c in children(r) if c.get("kind") == "FieldDecl"]
        info["members"] = [(f["name"], f.get("type", {}).get("qualType", "")) for f in fields if f.get("name")]

        def has_body(d):
            return any(x.get("kind") == "CompoundStmt" for x in children(d))

        def parm_types(d):
            return [p.get("type", {}).get("qualType", "") for p in children(d) if p.get("kind") == "ParmVarDecl"]
        methods = [c for c in children(r) if c.get("kind") in ("CXXMethodDecl", "CXXConstructorDecl") and has_body(c) and not c.get("isImplicit")]
        # instantiated member templates / out-of-line definitions are not used by the restart code
        writers = [m for m in methods if m.get("kind") == "CXXMethodDecl" and m.get("name") in WRITER_NAMES and any("RestartWriter" in t for t in parm_types(m))]
        readers = [m for m in methods if any("RestartReader" in t for t in parm_types(m)) and (m.get("kind") == "CXXConstructorDecl" or m.get("name") in READER_METHODS)]
        if writers:
            ex = Extractor(path)
            info["writer"] = ex.stmts([x for x in children(writers[0]) if x.get("kind") == "CompoundStmt"][0])
            info["written"] = ex.members_ref
            info["writer_static"] = writers[0].get("storageClass") == "static"
        if readers:
            rd = readers[0]
            ex = Extractor(path)
            toks = []
            info["reader_kind"] = "constructor" if rd.get("kind") == "CXXConstructorDecl" else ("static function" if rd.get("storageClass") == "static" else "method")
            for x in children(rd):
                if x.get("kind") == "CXXCtorInitializer":
                    a = x.get("anyInit")
                    if a:
                        tgt = ("member", a.get("name"))
                        t = []
                        for c in children(x):
                            t += ex.expr(c, tgt)
                        if t or any(ex.has_taint(c) for c in children(x)):
                            ex.restored.add(a.get("name"))
                            ex.touched.add(a.get("name"))
                        elif children(x) and rng_text(children(x)[0], path) not in ("",) and not _is_implicit_init(x):
                            ex.touched.add(a.get("name"))
                            ex.set_exprs.setdefault(a.get("name"), []).append(rng_text(children(x)[0], path))
                        toks += t
                    else:   # base class initialiser
                        for c in children(x):
                            t = ex.expr(c, None)
                            toks += [("call", tk[1], "") if tk[0] == "call" else tk for tk in t]
            toks += ex.stmts([x for x in children(rd) if x.get("kind") == "CompoundStmt"][0])
            info["reader"] = toks
            info["restored"] = ex.restored
            info["set_exprs"] = {k2: [x for x in v if x != base] for k2, v in ex.set_exprs.items()}
            # the normal constructors' expressions for the members the reader sets without the stream
            others = [m for m in methods if m.get("kind") == "CXXConstructorDecl" and m is not rd and not any("RestartReader" in t for t in parm_types(m))]
            for m in others:
                pt = parm_types(m)
                if len(pt) == 1 and clean_type(pt[0]) == base:      # copy constructor
                    continue
                ex2 = Extractor(path)
                for x in children(m):
                    if x.get("kind") == "CXXCtorInitializer" and x.get("anyInit") and children(x) and not _is_implicit_init(x):
                        info["ctor_exprs"].setdefault(x["anyInit"]["name"], []).append(rng_text(children(x)[0], path))
                ex2.stmts([x for x in children(m) if x.get("kind") == "CompoundStmt"][0])
                for k2, v in ex2.set_exprs.items():
                    info["ctor_exprs"].setdefault(k2, []).extend(v)
            info["ctor_exprs"] = {k2: [x for x in v if x != base] for k2, v in info["ctor_exprs"].items()}
        return key

    # ---- closure over nested components + dispatch resolution ----------------
    def resolve(self, toks, owner):
        out = []
        for t in toks:
            if t[0] in ("call", "vcall"):
                key = self.load(t[1])
                out.append((t[0], key, t[2]))
            elif t[0] == "loop":
                out.append(("loop", self.resolve(t[1], owner)))
            elif t[0] == "if":
                out.append(("if", t[1], self.resolve(t[2], owner), self.resolve(t[3], owner)))
            else:
                out.append(t)
        return out

    def close(self, roots):
        """load every class reachable from the given token lists"""
        done = set()
        work = list(roots)
        while work:
            toks = work.pop()
            toks[:] = self.resolve(toks, None)
            for t in _walk(toks):
                if t[0] in ("call", "vcall") and t[1] not in done:
                    done.add(t[1])
                    c = self.classes[t[1]]
                    for side in ("writer", "reader"):
                        if c[side] is not None:
                            work.append(c[side])
                    for b in c["bases"]:
                        pass


def _is_implicit_init(x):
    ch = children(x)
    if not ch:
        return True
    r = ch[0].get("range", {})
    b, e = r.get("begin", {}), r.get("end", {})
    return not b or ("offset" not in b and "expansionLoc" not in b)


def _walk(toks):
    for t in toks:
        yield t
        if t[0] == "loop":
            yield from _walk(t[1])
        elif t[0] == "if":
            yield from _walk(t[2])
            yield from _walk(t[3])


def typeid_chain(toks):
    """reader side of a factory:  if (tag == typeid(A).name()) return new A(r); else if ... -> dispatch over [A, ...]"""
    classes = []
    cur = toks
    while len(cur) == 1 and cur[0][0] == "if" and "typeid" in cur[0][1]:
        thn, els = cur[0][2], cur[0][3]
        if len(thn) != 1 or thn[0][0] not in ("call", "vcall"):
            return None
        classes.append(thn[0][1])
        cur = els
    if cur or not classes:
        return None
    return classes


def extract(repo, build, cache):
    inv = Inventory(repo, build, cache)
    inv.prefetch()
    path = os.path.join(inv.src, TOP_FILE)
    objs = inv.ast("do_simulation")
    fn = None
    for o in objs:
        if o.get("kind") in ("CXXMethodDecl", "FunctionDecl") and o.get("name") == "do_simulation" and any(x.get("kind") == "CompoundStmt" for x in children(o)):
            fn = o
    if fn is None:
        raise RuntimeError("do_simulation not found in the AST")
    body = [x for x in children(fn) if x.get("kind") == "CompoundStmt"][0]
    # the dump block = the compound statement that declares the RestartWriter *
    blocks = []

    def find_block(s):
        if not isinstance(s, dict):
            return
        if s.get("kind") == "CompoundStmt":
            for c in children(s):
                if c.get("kind") == "DeclStmt" and any(d.get("kind") == "VarDecl" and "RestartWriter" in d.get("type", {}).get("qualType", "") for d in children(c)):
                    blocks.append(s)
        for c in children(s):
            find_block(c)
    find_block(body)
    if len(blocks) != 1:
        inv.notes.append("expected exactly one dump block in do_simulation, found %d" % len(blocks))
    exw = Extractor(path, toplevel=True)
    top_w = exw.stmts(blocks[0]) if blocks else []
    # drop the token produced by the declaration `RestartWriter *w = restart_manager.get_restart_writer(log)` (none: no stream arg)
    exr = Extractor(path, toplevel=True)
    top_r = exr.stmts(body)
    # the reader path also traverses the dump block (it is the same function): remove everything from the dump block
    top_r = _remove_writer_tokens(top_r)
    inv.close([top_w, top_r])
    # --- dispatch: virtual calls on a base class with restartable subclasses; typeid chains of factories
    subclasses = {}
    for k, c in inv.classes.items():
        for b in c["bases"]:
            subclasses.setdefault(b, []).append(k)
    dispatch = {}     # base -> dict(writer=[classes], reader=[classes])

    def all_subclasses_with_writer(base):
        # every class in /repo/src deriving from base that overrides write_restart_file
        res = []
        for f in sorted(os.listdir(inv.src)):
            if not f.endswith(".hpp"):
                continue
            txt = open(os.path.join(inv.src, f), errors="replace").read()
            for m in re.finditer(r"\bclass\s+(\w+)\s*:\s*public\s+%s\b" % re.escape(base), txt):
                if re.search(r"\bwrite_restart_file\s*\(\s*RestartWriter", txt):
                    res.append(m.group(1))
        return sorted(set(res))

    def fix_side(toks, side):
        out = []
        for t in toks:
            if t[0] == "vcall":
                subs = all_subclasses_with_writer(t[1]) if side == "writer" else []
                if subs:
                    dispatch.setdefault(t[1], {}).setdefault("writer", subs)
                    out.append(("dispatch", t[1], t[2]))
                else:
                    out.append(("call", t[1], t[2]))
            elif t[0] == "loop":
                out.append(("loop", fix_side(t[1], side)))
            elif t[0] == "if":
                ch = typeid_chain([t]) if side == "reader" else None
                if ch:
                    out.append(("dispatch?", ch, ""))
                else:
                    out.append(("if", t[1], fix_side(t[2], side), fix_side(t[3], side)))
            else:
                out.append(t)
        return out

    # iterate to a fixed point: dispatch discovery may load new classes
    for _ in range(4):
        for k in list(inv.classes):
            c = inv.classes[k]
            if c["writer"] is not None:
                c["writer"] = fix_side(c["writer"], "writer")
            if c["reader"] is not None:
                c["reader"] = fix_side(c["reader"], "reader")
        top_w = fix_side(top_w, "writer")
        top_r = fix_side(top_r, "reader")
        new = []
        for b, d in dispatch.items():
            for k in d.get("writer", []):
                if k not in inv.classes:
                    inv.load(k)
                    new.append(k)
        for k in new:
            c = inv.classes[k]
            inv.close([x for x in (c["writer"], c["reader"]) if x is not None])
        if not new:
            break
    # resolve dispatch? of factories: base = the common base of the chain's classes that has a writer-side dispatch
    def resolve_dq(toks, fn_class):
        out = []
        for t in toks:
            if t[0] == "dispatch?":
                base = None
                for b in dispatch:
                    if all(b in inv.classes.get(k, {}).get("bases", []) for k in t[1]):
                        base = b
                if base is None:
                    out.append(("unknown", "typeid chain over %s without a matching virtual writer" % ",".join(t[1]), ""))
                else:
                    dispatch[base]["reader"] = sorted(t[1])
                    out.append(("dispatch", base, ""))
            elif t[0] == "loop":
                out.append(("loop", resolve_dq(t[1], fn_class)))
            elif t[0] == "if":
                out.append(("if", t[1], resolve_dq(t[2], fn_class), resolve_dq(t[3], fn_class)))
            else:
                out.append(t)
        return out
    for k, c in inv.classes.items():
        if c["reader"] is not None:
            c["reader"] = resolve_dq(c["reader"], k)
    top_r = resolve_dq(top_r, None)
    # factory writers name their dispatch target after the object, factory readers return it: targets are not comparable there
    for k, c in inv.classes.items():
        if c.get("writer_static"):
            c["writer"] = _drop_dispatch_targets(c["writer"])
            if c["reader"] is not None:
                c["reader"] = _drop_dispatch_targets(c["reader"])
    return dict(classes=inv.classes, top_writer=top_w, top_reader=top_r, dispatch=dispatch, notes=inv.notes, defaults=inv.defaults)


def _drop_dispatch_targets(toks):
    out = []
    for t in toks:
        if t[0] == "dispatch":
            out.append(("dispatch", t[1], ""))
        elif t[0] == "loop":
            out.append(("loop", _drop_dispatch_targets(t[1])))
        elif t[0] == "if":
            out.append(("if", t[1], _drop_dispatch_targets(t[2]), _drop_dispatch_targets(t[3])))
        else:
            out.append(t)
    return out


def _remove_writer_tokens(toks):
    """the restart path is extracted from the whole function body: drop the dump block's tokens (they are the writer's)"""
    out = []
    for t in toks:
        if t[0] == "loop":
            b = _remove_writer_tokens(t[1])
            if b:
                out.append(("loop", b))
        elif t[0] == "if":
            if "write_restart_file()" in t[1]:
                continue
            a, b = _remove_writer_tokens(t[2]), _remove_writer_tokens(t[3])
            if a or b:
                out.append(("if", t[1], a, b))
        else:
            out.append(t)
    return out


def show(toks, ind=0):
    out = []
    for t in toks:
        if t[0] == "loop":
            out.append(" " * ind + "LOOP {")
            out += show(t[1], ind + 2)
            out.append(" " * ind + "}")
        elif t[0] == "if":
            out.append(" " * ind + "IF (%s) {" % t[1])
            out += show(t[2], ind + 2)
            if t[3]:
                out.append(" " * ind + "} ELSE {")
                out += show(t[3], ind + 2)
            out.append(" " * ind + "}")
        else:
            out.append(" " * ind + "%s %s -> %s" % (t[0].upper(), t[1], t[2]))
    return out


def norm_ws(t):
    return re.sub(r"\s+", "", t or "")


def prim_types(r):
    ts = set()
    lists = [r["top_writer"], r["top_reader"]]
    for c in r["classes"].values():
        lists += [c["writer"] or [], c["reader"] or []]
    for l in lists:
        for t in _walk(l):
            if t[0] == "prim":
                ts.add(t[1])
    return sorted(ts)


def probe_source(types):
    """C++ program printing sizeof and the codec category of every primitive type the restart code writes / reads"""
    out = ["#include <cstdio>", "#include <cstdint>", "#include <string>", "#include <map>", "#include <ios>", "#include <type_traits>", "#include <sys/time.h>",
           "#include \"Timer.hpp\"", "#include \"RestartWriter.hpp\"", "#include \"RestartReader.hpp\"",
           "template <typename T> const char *kind() {",
           "  return std::is_same<T, bool>::value ? \"bool\" : std::is_integral<T>::value ? \"int\" : std::is_floating_point<T>::value ? \"float\" :",
           "         std::is_same<T, std::string>::value ? \"string\" : std::is_same<T, std::map<std::string, std::string>>::value ? \"map\" : \"raw\"; }",
           "template <typename T> void probe(const char *n) { printf(\"%s|%zu|%s|%d\\n\", n, sizeof(T), kind<T>(), (int)std::is_signed<T>::value); }",
           "int main() {", "  probe<size_t>(\"size_t\");"]
    for t in types:
        out.append("  probe< %s >(\"%s\");" % (t, t))
    out += ["  return 0;", "}"]
    return "\n".join(out) + "\n"


def parse_probe(text):
    sizes = {}
    for l in text.splitlines():
        f = l.split("|")
        if len(f) == 4:
            sizes[f[0]] = (f[2], int(f[1]), int(f[3]))
    return sizes


def coq_str(t):
    return '"' + t.replace('"', '""') + '"'


def coq_ty(cxx, sizes):
    if cxx not in sizes:
        return None
    kind, size, _ = sizes[cxx]
    if kind == "bool":
        return "TBool" if size == 1 else None
    if kind == "int":
        return "(TInt %d)" % size
    if kind == "float":
        return "TDouble" if size == 8 else None
    if kind == "string":
        return "TString"
    if kind == "map":
        return "TMap"
    return "(TRaw %d)" % size


def check_table(r, table):
    """committed derived/transient table against the regenerated inventory -> (coq rows, problems, info)"""
    rows, problems, info = [], [], []
    for e in table.get("members", []):
        c = r["classes"].get(e["class"])
        if c is None or e["member"] not in [m for m, _ in c["members"]]:
            info.append("table entry %s::%s: no such member in the inventory (stale entry)" % (e["class"], e["member"]))
            continue
        if e["member"] in c["written"] and e["member"] in c["restored"]:
            info.append("table entry %s::%s is unused: the member is dumped and restored now" % (e["class"], e["member"]))
            continue
        if e["category"] == "transient":
            rows.append((e["class"], e["member"], "CTransient"))
            continue
        same = bool(e.get("same_because"))
        if "restart_expr" in e or "ctor_expr" in e:
            rs = [norm_ws(x) for x in c["set_exprs"].get(e["member"], [])]
            cs = [norm_ws(x) for x in c["ctor_exprs"].get(e["member"], [])]
            if norm_ws(e.get("restart_expr")) not in rs:
                problems.append("derived member %s::%s: the restart constructor no longer computes it as `%s` (now: %s) -- re-audit harness/c09/derived_transient.json"
                                % (e["class"], e["member"], e.get("restart_expr"), c["set_exprs"].get(e["member"])))
            if norm_ws(e.get("ctor_expr")) not in cs:
                problems.append("derived member %s::%s: the normal constructor no longer computes it as `%s` (now: %s) -- re-audit harness/c09/derived_transient.json"
                                % (e["class"], e["member"], e.get("ctor_expr"), c["ctor_exprs"].get(e["member"])))
            same = same or norm_ws(e.get("restart_expr")) == norm_ws(e.get("ctor_expr"))
        rows.append((e["class"], e["member"], "(CDerived %s)" % ("true" if same else "false")))
    return rows, problems, info


def emit_coq(r, sizes, table):
    """-> (text of coq/Cxx/C09_Gen.v, meta)"""
    conds = {}
    pairs = {}
    for pr in table.get("condition_pairs", []):
        pairs[norm_ws(pr["reader"])] = norm_ws(pr["writer"])
    cond_texts = []

    def cond_id(text):
        k = norm_ws(text)
        k = pairs.get(k, k)
        if k not in conds:
            conds[k] = len(conds)
            cond_texts.append(text)
        return conds[k]
    unknown_types = set()
    sign_notes = []

    def toks(l):
        out = []
        for t in l:
            if t[0] == "prim":
                ty = coq_ty(t[1], sizes)
                if ty is None:
                    unknown_types.add(t[1])
                    out.append("KUnknown %s" % coq_str("type " + t[1]))
                else:
                    out.append("KPrim %s %s" % (ty, coq_str(t[2])))
            elif t[0] == "call":
                out.append("KCall %s %s" % (coq_str(t[1]), coq_str(t[2])))
            elif t[0] == "dispatch":
                out.append("KDispatch %s %s" % (coq_str(t[1]), coq_str(t[2])))
            elif t[0] == "loop":
                out.append("KLoop %s" % toks(t[1]))
            elif t[0] == "if":
                out.append("KIf %d %s %s" % (cond_id(t[1]), toks(t[2]), toks(t[3])))
            else:
                out.append("KUnknown %s" % coq_str(str(t[1])[:200]))
        return "[" + "; ".join(out) + "]"
    rows, problems, info = check_table(r, table)
    lines = ["(* GENERATED by tools/restart_inventory.py from the clang AST of /repo -- do not edit *)",
             "From Coq Require Import List String.", "From CMI Require Import Cxx.C09_Defs.", "Import ListNotations.", "Open Scope string_scope.", ""]
    lines.append("(* sizeof on this platform (printed by a program compiled with the repository's compiler):")
    for t in sorted(sizes):
        lines.append("     %-60s %2d bytes  %s" % (t, sizes[t][1], sizes[t][0]))
    lines.append("*)")
    lines.append("Definition gen_size_t_width : nat := %d." % sizes.get("size_t", ("int", 8, 0))[1])
    lines.append("")
    names = []
    emitted = []
    for i, k in enumerate(sorted(r["classes"])):
        c = r["classes"][k]
        if c["reader"] is None and not c["writer"]:
            continue       # abstract base with the 'not supported' stub
        w = toks(c["writer"]) if c["writer"] is not None else '[KUnknown "no writer"]'
        rd = toks(c["reader"]) if c["reader"] is not None else '[KUnknown "no reader"]'
        mem = "[" + "; ".join("(%s, %s, %s)" % (coq_str(m), "true" if m in c["written"] else "false", "true" if m in c["restored"] else "false") for m, _ in c["members"]) + "]"
        lines.append("(* %s : reader is a %s *)" % (k.replace("(*", "( *").replace("*)", "* )"), c["reader_kind"]))
        lines.append("Definition class_%d : class_inv := mkClass %s\n  %s\n  %s\n  %s." % (i, coq_str(k), w, rd, mem))
        names.append("class_%d" % i)
        emitted.append(k)
    lines.append("")
    tw, tr = toks(r["top_writer"]), toks(r["top_reader"])
    lines.append("(* conditions: " + " | ".join("%d = %s" % (i, t.replace("(*", "( *").replace("*)", "* )")) for i, t in enumerate(cond_texts)) + " *)")
    disp = "[" + "; ".join("(%s, [%s], [%s])" % (coq_str(b), "; ".join(coq_str(x) for x in sorted(d.get("writer", []))), "; ".join(coq_str(x) for x in sorted(d.get("reader", []))))
                            for b, d in sorted(r["dispatch"].items())) + "]"
    tab = "[" + "; ".join("(%s, %s, %s)" % (coq_str(a), coq_str(b), c) for a, b, c in rows) + "]"
    lines.append("Definition gen_inventory : inventory := mkInv\n  [%s]\n  %s\n  %s\n  %s\n  %s." % ("; ".join(names), tw, tr, disp, tab))
    # same-width integer types of different signedness on the two sides (harmless for the bytes; reported as a note)
    def flat(l):
        return [t for t in _walk(l) if t[0] == "prim"]
    pairs_l = [(r["top_writer"], r["top_reader"], "do_simulation")] + [(c["writer"] or [], c["reader"] or [], k) for k, c in r["classes"].items()]
    for a, b, where in pairs_l:
        fa, fb = flat(a), flat(b)
        if len(fa) == len(fb):
            for x, y in zip(fa, fb):
                if x[1] != y[1] and coq_ty(x[1], sizes) == coq_ty(y[1], sizes):
                    sign_notes.append("%s: `%s` is written as %s and read as %s (same width, other signedness)" % (where, x[2] or y[2], x[1], y[1]))
    nmembers = sum(len(r["classes"][k]["members"]) for k in emitted)
    meta = dict(classes=emitted, nclasses=len(emitted), nmembers=nmembers, table_rows=len(rows), problems=problems, info=info,
                unknown_types=sorted(unknown_types), sign_notes=sign_notes, ndispatch=len(r["dispatch"]))
    return "\n".join(lines) + "\n", meta


if __name__ == "__main__":
    repo, build, cache = sys.argv[1], sys.argv[2], sys.argv[3]
    r = extract(repo, build, cache)
    print("== TOP writer")
    print("\n".join(show(r["top_writer"])))
    print("== TOP reader")
    print("\n".join(show(r["top_reader"])))
    for k in sorted(r["classes"]):
        c = r["classes"][k]
        print("==== class", k, "bases", c["bases"], "reader:", c["reader_kind"])
        print("-- writer")
        print("\n".join(show(c["writer"] or [])) if c["writer"] is not None else "   NONE")
        print("-- reader")
        print("\n".join(show(c["reader"] or [])) if c["reader"] is not None else "   NONE")
        for (m, t) in c["members"]:
            print("   member %-34s %-40s written=%d restored=%d set=%s ctor=%s" % (m, t[:40], m in c["written"], m in c["restored"], c["set_exprs"].get(m), c["ctor_exprs"].get(m)))
    print("dispatch", r["dispatch"])
    print("notes", r["notes"])
