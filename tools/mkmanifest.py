#!/usr/bin/env python3
# regenerates /verif/MANIFEST.json from the table below (kept here so the manifest stays valid)
import json, os
V = os.path.dirname(os.path.dirname(os.path.abspath(__file__)))

import sys, glob, importlib
sys.path.insert(0, os.path.join(V, "lib")); sys.path.insert(0, os.path.join(V, "props"))
# every props/cNN.py that defines CLAIM = dict(cat=, design=, text=, note=, technique=) is a claimed check
# only checks the coordinator has reviewed, run on the unchanged tree and mutation-tested are registered
ACCEPTED = ["C01", "C02", "C03", "C04", "C05", "C06", "C07", "C08", "C09", "C10", "C11", "C13", "C12", "C14", "C15", "C16", "C17", "C18", "C19", "C20"]
CLAIMED = {}
for f in sorted(glob.glob(os.path.join(V, "props", "c[0-9][0-9].py"))):
    mod = importlib.import_module(os.path.basename(f)[:-3])
    if getattr(mod, "CLAIM", None) and os.path.basename(f)[:-3].upper() in ACCEPTED:
        CLAIMED[os.path.basename(f)[:-3].upper()] = mod.CLAIM

# reasons for properties that are deliberately not claimed (others get the "not yet built" reason)
NOT_APPLICABLE = {
}

props = [json.loads(l) for l in open(os.path.join(V, "properties.jsonl"))]
checks, na = [], []
for p in props:
    i = p["id"]
    if i in CLAIMED:
        c = CLAIMED[i]
        checks.append({
            "property_id": i,
            "quick_cmd": "./check %s --tier quick" % i,
            "thorough_cmd": "./check %s --tier thorough" % i,
            "evidence_file": "/verif/evidence/%s.json" % i,
            "replay_cmd_template": "./check %s --replay {path}" % i,
            "engine": "coq+correspondence",
            "level_claimed": {"category": c["cat"], "text": c["text"], "design_ref": c["design"]},
            "level_note": c["note"],
            "technique": c["technique"],
        })
    else:
        na.append({"property_id": i, "reason": NOT_APPLICABLE.get(i, "not yet claimed: the Coq model and its tie to the code for this property are not built yet (see DESIGN.md §3 for the plan); no check is registered so nothing is asserted")})

m = {
 "version": 1,
 "setup_cmd": "./check --setup",
 "hooks": {"guard": "CMI_VERIF", "enable": "harnesses and the scratch cmake build under /verif/build/repo compile /repo/src with -DCMI_VERIF",
           "baseline_off_cmd": "./check --baseline", "source_commits": ["c91ddc4", "fc385fc", "39e3b0d", "e1d8e8b", "8e045df", "92c395a", "b39714b"], "add_only": True},
 "engines": [
   {"name": "coq", "path": "coq/", "serves_properties": sorted(CLAIMED), "kind_free_text": "Coq 8.16.1 development: Cxx/<id>_Defs.v executable models, Cxx/<id>_Proofs.v, Props/Properties_<id>.v statements + Print Assumptions, Extract/ extraction"},
   {"name": "check", "path": "check", "serves_properties": sorted(CLAIMED), "kind_free_text": "driver: regenerate -> full .vo build -> extraction -> C++ harness against /repo/src -> differential correspondence -> search-on-break -> evidence"},
 ],
 "checks": checks,
 "not_applicable": na,
 "notes": "All checks rebuild their harness from /repo's working tree on every run. known_findings.json lists genuine defects (known/fixed).",
}
json.dump(m, open(os.path.join(V, "MANIFEST.json"), "w"), indent=1)
print("MANIFEST.json: %d checks, %d not claimed" % (len(checks), len(na)))
