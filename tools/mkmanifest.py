#!/usr/bin/env python3
# regenerates /verif/MANIFEST.json from the table below (kept here so the manifest stays valid)
import json, os
V = os.path.dirname(os.path.dirname(os.path.abspath(__file__)))

CLAIMED = {
 "C19": dict(cat="proof", design="§3 C19, Appendix A.1",
   text="Coq theorems (no axioms) over a Z model of TimeLine::advance/constructor/restart for every state satisfying the invariant and EVERY history of requests: "
        "step is a power of two in [min,max], not larger than requested, divides the remaining time, is the largest such, time strictly increases, never exceeds the end, "
        "a run that ends lands exactly on the end and its steps sum to the interval, stops only when the request is below the minimum, no division by zero, loops terminate. "
        "The model is tied to src/TimeLine.hpp by bit-exact differential execution (extracted model vs. real class) on generated histories on every run.",
   note="Trusted: Coq kernel; extraction (ExtrOcamlBasic, ExtrOCamlFloats, ExtrOCamlInt63) + OCaml for the correspondence only; the premise that A*2^k > request is monotone in k "
        "is decided per request by mono_check (soundness proved) rather than proved for all doubles; the end time is reproduced up to the rounding of fl(A*2^63+start).",
   technique="Coq proof by induction over request histories + extracted-model differential correspondence"),
}

NOT_APPLICABLE = {
}

props = [json.loads(l) for l in open(os.path.join(V, "properties.jsonl"))]
checks, na = [], []
for p in props:
    i = p["id"]
    if i in CLAIMED:
        c = CLAIMED[i]
        checks.append({
            "property_id": i,
            "quick_cmd": "./check %s --tier quick" % i,
            "thorough_cmd": "./check %s --tier thorough" % i,
            "evidence_file": "/verif/evidence/%s.json" % i,
            "replay_cmd_template": "./check %s --replay {path}" % i,
            "engine": "coq+correspondence",
            "level_claimed": {"category": c["cat"], "text": c["text"], "design_ref": c["design"]},
            "level_note": c["note"],
            "technique": c["technique"],
        })
    else:
        na.append({"property_id": i, "reason": NOT_APPLICABLE.get(i, "not yet claimed: the Coq model and its tie to the code for this property are not built yet (see DESIGN.md §3 for the plan); no check is registered so nothing is asserted")})

m = {
 "version": 1,
 "setup_cmd": "./check --setup",
 "hooks": {"guard": "CMI_VERIF", "enable": "harnesses and the scratch cmake build under /verif/build/repo compile /repo/src with -DCMI_VERIF",
           "baseline_off_cmd": "./check --baseline", "source_commits": [], "add_only": True},
 "engines": [
   {"name": "coq", "path": "coq/", "serves_properties": sorted(CLAIMED), "kind_free_text": "Coq 8.16.1 development: Cxx/<id>_Defs.v executable models, Cxx/<id>_Proofs.v, Props/Properties_<id>.v statements + Print Assumptions, Extract/ extraction"},
   {"name": "check", "path": "check", "serves_properties": sorted(CLAIMED), "kind_free_text": "driver: regenerate -> full .vo build -> extraction -> C++ harness against /repo/src -> differential correspondence -> search-on-break -> evidence"},
 ],
 "checks": checks,
 "not_applicable": na,
 "notes": "All checks rebuild their harness from /repo's working tree on every run. known_findings.json lists genuine defects (known/fixed).",
}
json.dump(m, open(os.path.join(V, "MANIFEST.json"), "w"), indent=1)
print("MANIFEST.json: %d checks, %d not claimed" % (len(checks), len(na)))
