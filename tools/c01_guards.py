#!/usr/bin/env python3
"""C01 translator: regenerates, from the current source text of the two task-based simulations, the two
conditions of the photon worker loop that the termination protocol depends on, as Gallina functions:

  gen_loop_<sim> flag has_task          <-  while (<cond>) { if (current_index == NO_TASK) { premature_launch... } ... }
  gen_term_<sim> empty done nreq        <-  if (<cond>) { global_run_flag = false; ... }
  gen_reads_<sim>                       <-  order in which the termination test reads the shared state
                                            (0 = buffers->is_empty(), 1 = num_photon_done)

coq/Cxx/C01_GenProofs.v proves that these are the guards of the model (so that the proved model is the model of
THIS source); if the proof breaks, search() looks for a valuation on which the regenerated guard and the model's
guard differ, which names the model state in which the implementation misbehaves.
"""
import re, itertools

SIMS = {"ion": "src/TaskBasedIonizationSimulation.cpp", "rhd": "src/TaskBasedRadiationHydrodynamicsSimulation.cpp"}


class Untranslatable(Exception):
    pass


def strip(text):
    text = re.sub(r"/\*.*?\*/", " ", text, flags=re.S)
    text = re.sub(r"//[^\n]*", " ", text)
    # guarded instrumentation is not part of the program
    out, depth = [], 0
    for line in text.split("\n"):
        st = line.strip()
        if st.startswith("#ifdef CMI_VERIF"):
            depth += 1
            continue
        if depth and st.startswith("#if"):
            depth += 1
            continue
        if depth and st.startswith("#endif"):
            depth -= 1
            continue
        if depth == 0:
            out.append(line)
    return "\n".join(out)


def balanced(text, open_pos):
    assert text[open_pos] == "("
    d = 0
    for i in range(open_pos, len(text)):
        if text[i] == "(":
            d += 1
        elif text[i] == ")":
            d -= 1
            if d == 0:
                return text[open_pos + 1:i], i
    raise Untranslatable("unbalanced parentheses")


def conditions(text):
    """(loop condition, termination condition) of the worker loop that contains premature_launch.execute()"""
    text = strip(text)
    anchors = [m.start() for m in re.finditer(r"premature_launch\s*\.\s*execute\s*\(\s*\)\s*;", text)]
    if len(anchors) != 1:
        raise Untranslatable("expected exactly one premature_launch.execute() call, found %d" % len(anchors))
    a = anchors[0]
    loops = [m for m in re.finditer(r"\b(while|for)\s*\(", text[:a])]
    # innermost enclosing loop: the last 'while (' before the anchor whose body is still open at the anchor
    loop_cond = None
    for m in reversed(loops):
        cond, close = balanced(text, m.end() - 1)
        rest = text[close + 1:a]
        if rest.count("{") > rest.count("}"):
            if m.group(1) != "while":
                raise Untranslatable("worker loop is not a while loop")
            loop_cond = cond
            break
    if loop_cond is None:
        raise Untranslatable("worker loop not found")
    clears = [m.start() for m in re.finditer(r"global_run_flag\s*=\s*false\s*;", text[a:])]
    if len(clears) != 1:
        raise Untranslatable("expected exactly one 'global_run_flag = false' after the premature launch, found %d" % len(clears))
    c = a + clears[0]
    ifs = [m for m in re.finditer(r"\bif\s*\(", text[a:c])]
    if not ifs:
        raise Untranslatable("no if in front of the flag reset")
    m = ifs[-1]
    term_cond, close = balanced(text, a + m.end() - 1)
    between = text[close + 1:c]
    if between.strip() != "{":
        raise Untranslatable("flag reset is not the first statement of the guarded block: %r" % between.strip()[:80])
    return " ".join(loop_cond.split()), " ".join(term_cond.split())


TOK = re.compile(r"\s*(\|\||&&|==|!=|<=|>=|->|[A-Za-z_][A-Za-z_0-9]*|\d+|[!<>()+*.\-/%])")


def tokens(s):
    out, i = [], 0
    while i < len(s):
        m = TOK.match(s, i)
        if not m:
            if s[i:].strip() == "":
                break
            raise Untranslatable("cannot tokenise %r" % s[i:i + 20])
        out.append(m.group(1))
        i = m.end()
    return out


class Parser:
    """C++ expression subset -> typed AST  ('b'|'n', node)"""

    def __init__(self, toks):
        self.t, self.i = toks, 0

    def peek(self):
        return self.t[self.i] if self.i < len(self.t) else None

    def eat(self, x=None):
        tok = self.peek()
        if x is not None and tok != x:
            raise Untranslatable("expected %r, got %r" % (x, tok))
        self.i += 1
        return tok

    def parse(self):
        e = self.p_or()
        if self.peek() is not None:
            raise Untranslatable("trailing tokens: %r" % self.t[self.i:])
        return e

    def p_or(self):
        e = self.p_and()
        while self.peek() == "||":
            self.eat()
            e = ("or", e, self.p_and())
        return e

    def p_and(self):
        e = self.p_cmp()
        while self.peek() == "&&":
            self.eat()
            e = ("and", e, self.p_cmp())
        return e

    def p_cmp(self):
        e = self.p_add()
        if self.peek() in ("==", "!=", "<", ">", "<=", ">="):
            op = self.eat()
            r = self.p_add()
            return ("cmp", op, e, r)
        return e

    def p_add(self):
        e = self.p_mul()
        while self.peek() == "+":
            self.eat()
            e = ("add", e, self.p_mul())
        if self.peek() in ("-", "/", "%"):
            raise Untranslatable("operator %r is outside the translated subset" % self.peek())
        return e

    def p_mul(self):
        e = self.p_un()
        while self.peek() == "*":
            self.eat()
            e = ("mul", e, self.p_un())
        return e

    def p_un(self):
        if self.peek() == "!":
            self.eat()
            return ("not", self.p_un())
        return self.p_atom()

    def p_atom(self):
        tok = self.peek()
        if tok == "(":
            self.eat()
            e = self.p_or()
            self.eat(")")
            return e
        if tok is None:
            raise Untranslatable("unexpected end of expression")
        if tok.isdigit():
            self.eat()
            return ("num", int(tok))
        if re.match(r"[A-Za-z_]", tok):
            name = self.eat()
            while self.peek() in ("->", "."):
                name += self.eat()
                name += self.eat()
            if self.peek() == "(":
                self.eat()
                self.eat(")")
                name += "()"
            return ("id", name)
        raise Untranslatable("unexpected token %r" % tok)


IDS = {
    "global_run_flag": ("b", "flag"),
    "_buffers->is_empty()": ("b", "empty"), "buffers->is_empty()": ("b", "empty"),
    "num_photon_done.value()": ("n", "done"),
    "_number_of_photons": ("n", "nreq"), "numphoton": ("n", "nreq"),
}


def typed(e):
    """-> (type, gallina text, python text, reads)"""
    k = e[0]
    if k == "id":
        if e[1] not in IDS:
            raise Untranslatable("unknown operand %r" % e[1])
        ty, v = IDS[e[1]]
        return ty, v, v, [v]
    if k == "num":
        return "n", str(e[1]), str(e[1]), []
    if k in ("or", "and"):
        a, b = typed(e[1]), typed(e[2])
        if a[0] != "b" or b[0] != "b":
            raise Untranslatable("non-boolean operand of %s" % k)
        g = "(%s %s %s)" % (a[1], "||" if k == "or" else "&&", b[1])
        p = "(%s %s %s)" % (a[2], k, b[2])
        return "b", g, p, a[3] + b[3]
    if k == "not":
        a = typed(e[1])
        if a[0] != "b":
            raise Untranslatable("non-boolean operand of !")
        return "b", "(negb %s)" % a[1], "(not %s)" % a[2], a[3]
    if k in ("add", "mul"):
        a, b = typed(e[1]), typed(e[2])
        if a[0] != "n" or b[0] != "n":
            raise Untranslatable("non-numeric operand of %s" % k)
        o = "+" if k == "add" else "*"
        return "n", "(%s %s %s)" % (a[1], o, b[1]), "(%s %s %s)" % (a[2], o, b[2]), a[3] + b[3]
    if k == "cmp":
        op, l, r = e[1], e[2], e[3]
        # current_index == / != NO_TASK
        names = {x[1] for x in (l, r) if x[0] == "id"}
        if names == {"current_index", "NO_TASK"}:
            if op == "!=":
                return "b", "has", "has", ["has"]
            if op == "==":
                return "b", "(negb has)", "(not has)", ["has"]
            raise Untranslatable("ordering comparison with NO_TASK")
        a, b = typed(l), typed(r)
        if a[0] != b[0]:
            raise Untranslatable("comparison of different types")
        if a[0] == "b":
            if op == "==":
                return "b", "(Bool.eqb %s %s)" % (a[1], b[1]), "(%s == %s)" % (a[2], b[2]), a[3] + b[3]
            if op == "!=":
                return "b", "(negb (Bool.eqb %s %s))" % (a[1], b[1]), "(%s != %s)" % (a[2], b[2]), a[3] + b[3]
            raise Untranslatable("ordering comparison of booleans")
        G = {"==": "(%s =? %s)", "!=": "(negb (%s =? %s))", "<": "(%s <? %s)", "<=": "(%s <=? %s)", ">": "(%s <? %s)", ">=": "(%s <=? %s)"}
        x, y = (a, b) if op in ("==", "!=", "<", "<=") else (b, a)
        return "b", G[op] % (x[1], y[1]), "(%s %s %s)" % (a[2], op, b[2]), a[3] + b[3]
    raise Untranslatable("node %r" % (k,))


def translate_cond(text):
    ty, g, p, reads = typed(Parser(tokens(text)).parse())
    if ty != "b":
        raise Untranslatable("condition is not boolean")
    return g, p, reads


def extract(repo):
    """-> dict sim -> {loop_src, term_src, loop_g, term_g, loop_py, term_py, reads} ; raises Untranslatable"""
    res = {}
    for sim, rel in SIMS.items():
        src = open("%s/%s" % (repo, rel)).read()
        lc, tc = conditions(src)
        lg, lp, lr = translate_cond(lc)
        tg, tp, tr = translate_cond(tc)
        if not set(lr) <= {"flag", "has"}:
            raise Untranslatable("%s: loop condition reads %r" % (sim, lr))
        if not set(tr) <= {"empty", "done", "nreq"}:
            raise Untranslatable("%s: termination test reads %r" % (sim, tr))
        order = []
        for r in tr:
            c = {"empty": 0, "done": 1}.get(r)
            if c is not None and c not in order:
                order.append(c)
        res[sim] = {"file": rel, "loop_src": lc, "term_src": tc, "loop_g": lg, "term_g": tg, "loop_py": lp, "term_py": tp, "reads": order}
    return res


def emit_coq(res, error=None):
    L = ["(* GENERATED by tools/c01_guards.py from the current source -- do not edit *)",
         "From Coq Require Import Bool Arith List.", "Import ListNotations.", "Local Open Scope nat_scope.", "Local Open Scope bool_scope.", ""]
    if error is not None:
        L.append("(* translation failed: %s *)" % error.replace("*)", "* )"))
        L.append("Definition gen_translated : bool := false.")
        for sim in SIMS:
            L.append("Definition gen_loop_%s (flag has : bool) : bool := false." % sim)
            L.append("Definition gen_term_%s (empty : bool) (done nreq : nat) : bool := false." % sim)
            L.append("Definition gen_reads_%s : list nat := []." % sim)
        return "\n".join(L) + "\n"
    L.append("Definition gen_translated : bool := true.")
    for sim in SIMS:
        r = res[sim]
        L.append("(* %s: while (%s) *)" % (r["file"], r["loop_src"]))
        L.append("Definition gen_loop_%s (flag has : bool) : bool := %s." % (sim, r["loop_g"]))
        L.append("(* %s: if (%s) { global_run_flag = false; *)" % (r["file"], r["term_src"]))
        L.append("Definition gen_term_%s (empty : bool) (done nreq : nat) : bool := %s." % (sim, r["term_g"]))
        L.append("Definition gen_reads_%s : list nat := [%s]." % (sim, "; ".join(map(str, r["reads"]))))
        L.append("")
    return "\n".join(L) + "\n"


def search(res):
    """valuations on which a regenerated guard differs from the guard of the model (small scope: booleans x 0..6)"""
    found = []
    for sim, r in res.items():
        for flag, has in itertools.product((False, True), repeat=2):
            v = bool(eval(r["loop_py"], {}, {"flag": flag, "has": has}))
            if v != (flag or has):
                found.append({"sim": sim, "guard": "loop", "source": r["loop_src"], "flag": flag, "thread_holds_fetched_task": has,
                              "implementation_continues": v, "model_continues": flag or has})
        for empty in (False, True):
            for done in range(7):
                for nreq in range(7):
                    v = bool(eval(r["term_py"], {}, {"empty": empty, "done": done, "nreq": nreq}))
                    m = empty and done == nreq
                    if v != m:
                        found.append({"sim": sim, "guard": "termination", "source": r["term_src"], "buffers_empty": empty, "done": done, "requested": nreq,
                                      "implementation_clears_flag": v, "model_clears_flag": m})
    return found


if __name__ == "__main__":
    import sys, json
    r = extract(sys.argv[1] if len(sys.argv) > 1 else "/repo")
    print(emit_coq(r))
    print(json.dumps(search(r)[:3], indent=1))
