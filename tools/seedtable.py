#!/usr/bin/env python3
"""regenerates the table of seeded changes in DESIGN.md (between the SEEDED-TABLE markers) from seeded/*/*/meta.json"""
import os, json, re, glob
V = os.path.dirname(os.path.dirname(os.path.abspath(__file__)))
rows = []
for mp in sorted(glob.glob(os.path.join(V, "seeded", "*", "*", "meta.json"))):
    m = json.load(open(mp))
    pid, k = mp.split(os.sep)[-3], mp.split(os.sep)[-2]
    c = m.get("coordinator_confirmation", {})
    files = ", ".join(os.path.basename(f) for f in m.get("files", []))[:80]
    det = []
    for name, d in sorted(c.get("checks", {}).items()):
        if d["exit"] == 1 and d["violation_lines"]:
            det.append("**%s**%s (%ds)" % (name, " (no‑failing‑input)" if d["no_failing_input"] else "", d["seconds"]))
        else:
            det.append("%s: missed (exit %d)" % (name, d["exit"]))
    demo_ok = c.get("demo_before") and c.get("demo_after") and c["demo_before"]["exit"] == 0 and c["demo_after"]["exit"] != 0
    conf = "%s; demo %s" % (c.get("pinned_suite", "suite not run"), "0→%s" % c["demo_after"]["exit"] if demo_ok else ("see note" if c else "not run"))
    first = ""
    for name, d in sorted(c.get("checks", {}).items()):
        if d.get("first"):
            first = re.sub(r"^\[[^\]]*\]\s*violation:\s*", "", d["first"][0])[:160].replace("|", "/")
            break
    rows.append("| %s/%s | `%s` | %s | %s | %s | %s |" % (pid, k, files, (m.get("summary") or "")[:220].replace("|", "/"), conf, "; ".join(det) or "—", first))
table = "| id | file | change | confirmed (pinned suite; demo exit before→after) | detected by (quick tier) | first report |\n|---|---|---|---|---|---|\n" + "\n".join(rows) + "\n"
p = os.path.join(V, "DESIGN.md")
s = open(p).read()
a, b = "<!-- SEEDED-TABLE-BEGIN -->", "<!-- SEEDED-TABLE-END -->"
if a in s:
    s = s[:s.index(a) + len(a)] + "\n" + table + s[s.index(b):]
    open(p, "w").write(s)
print(table)
