#!/usr/bin/env python3
"""Confirm one seeded change and run the registered checks against it.

  tools/seedtest.py <ID> <k> [--checks C02,C03] [--skip-suite] [--skip-demo]

Takes the deliverables of a seeding sub-agent (/var/tmp/seed/<ID>/out/<k>/{patch.diff,demo/,meta.json}), and in a scratch
clone of /repo (/var/tmp/seedrun/repo; never /repo itself, because other checks run against /repo concurrently):
  1. applies the patch, builds the pinned test suite with the guard OFF and runs it (must be 55/55),
  2. runs the sub-agent's demonstration before and after the patch (exit codes / last lines recorded),
  3. runs `CMI_REPO=<clone> ./check <ID> --tier quick` (and the checks named with --checks) and records exit code and
     VIOLATION lines,
  4. restores the clone,
and stores patch.diff, demo/, meta.json (+ our confirmation and detection record) under /verif/seeded/<ID>/<k>/.
"""
import os, sys, json, shutil, subprocess, re, time

V = os.path.dirname(os.path.dirname(os.path.abspath(__file__)))
CLONE = os.environ.get("SEED_CLONE", "/var/tmp/seedrun/repo")


def sh(cmd, cwd=None, timeout=7200, env=None):
    e = dict(os.environ)
    if env:
        e.update(env)
    try:
        p = subprocess.run(cmd, cwd=cwd, shell=isinstance(cmd, str), stdout=subprocess.PIPE, stderr=subprocess.STDOUT, timeout=timeout, env=e)
        return p.returncode, p.stdout.decode(errors="replace")
    except subprocess.TimeoutExpired as ex:
        return 124, (ex.stdout or b"").decode(errors="replace") + "\nTIMEOUT"


def suite():
    b = os.path.join(CLONE, "_build")
    if not os.path.exists(os.path.join(b, "build.ninja")):
        rc, out = sh(["cmake", "-G", "Ninja", "-S", CLONE, "-B", b, "-DCMAKE_BUILD_TYPE=RelWithDebInfo",
                      "-DCMAKE_CXX_FLAGS_RELWITHDEBINFO=-O2 -g -DNDEBUG -Wno-error"])
    sh(["ninja", "-k", "0", "-j12"], cwd=b)
    sh(["ninja", "-k", "0", "-j12", "buildTests"], cwd=b)
    rc, out = sh(["ctest", "-j8", "--timeout", "900"], cwd=b)
    passed = set(re.findall(r"Test\s+#\d+:\s+(\S+)\s+\.+\s+Passed", out))
    want = set(x.split("::")[0] for x in json.load(open("/root/.vp/BASELINE.json"))["stable_pass"])
    return sorted(want - passed), len(want & passed)


def demo(ddir):
    names = ["run.sh", "run_demo.sh", "build_and_run.sh", "run_binary.sh"] + sorted(f for f in os.listdir(ddir) if f.endswith(".sh"))
    for name in names:
        f = os.path.join(ddir, name)
        if os.path.exists(f):
            rc, out = sh(["bash", f, CLONE], cwd=ddir, timeout=3600)
            return {"script": name, "exit": rc, "tail": out.strip().splitlines()[-6:]}
    return None


def main():
    pid, k = sys.argv[1], sys.argv[2]
    checks = [pid]
    if "--checks" in sys.argv:
        checks = sys.argv[sys.argv.index("--checks") + 1].split(",")
    rnd = sys.argv[sys.argv.index("--round") + 1] if "--round" in sys.argv else "1"
    src = "/var/tmp/seed/%s/out%s/%s" % (pid, "" if rnd == "1" else rnd, k)
    dst = os.path.join(V, "seeded", pid, k if rnd == "1" else "r%s_%s" % (rnd, k))
    try:
        old_conf = json.load(open(os.path.join(dst, "meta.json"))).get("coordinator_confirmation", {})
    except Exception:
        old_conf = {}
    if os.path.exists(src):
        os.makedirs(os.path.dirname(dst), exist_ok=True)
        if os.path.exists(dst):
            shutil.rmtree(dst)
        shutil.copytree(src, dst, ignore=shutil.ignore_patterns("*.o", "*.hdf5", "_build", "work*", "*.bin"))
    meta_p = os.path.join(dst, "meta.json")
    try:
        meta = json.load(open(meta_p))
    except Exception:
        meta = {"property": pid}
    patch = os.path.join(dst, "patch.diff")
    sh("git checkout -q -- . && git clean -fdq -e _build", cwd=CLONE)
    sh("git fetch -q /repo && git reset -q --hard FETCH_HEAD", cwd=CLONE)
    conf = {"base_commit": sh("git rev-parse --short HEAD", cwd=CLONE)[1].strip(), "date": time.strftime("%Y-%m-%d %H:%M")}
    ddir = os.path.join(dst, "demo")
    if "--skip-demo" not in sys.argv and os.path.isdir(ddir):
        if "--skip-suite" not in sys.argv:
            suite()  # demos use <clone>/_build headers / binary
        conf["demo_before"] = demo(ddir)
    rc, out = sh(["git", "apply", patch], cwd=CLONE)
    conf["applies"] = (rc == 0)
    if rc != 0:
        conf["apply_error"] = out[-400:]
    else:
        if "--skip-suite" not in sys.argv:
            missing, n = suite()
            conf["pinned_suite"] = "%d/55 pass" % n
            conf["pinned_missing"] = missing
        if "--skip-demo" not in sys.argv and os.path.isdir(ddir):
            conf["demo_after"] = demo(ddir)
        det = {}
        for c in checks:
            t0 = time.time()
            ev = os.path.join(V, "evidence", c + ".json")
            saved = open(ev).read() if os.path.exists(ev) else None
            rc, out = sh(["./check", c, "--tier", "quick"], cwd=V, env={"CMI_REPO": CLONE}, timeout=5400)
            if saved is not None:      # the evidence file must describe the unchanged tree
                open(ev, "w").write(saved)
            viol = [l for l in out.splitlines() if l.startswith("VIOLATION")]
            what = [l for l in out.splitlines() if "violation:" in l][:3]
            det[c] = {"exit": rc, "violation_lines": len(viol), "no_failing_input": bool(viol) and all("no-failing-input-found" in l for l in viol),
                      "first": [w[:400] for w in what], "seconds": int(time.time() - t0)}
        conf["checks"] = det
        conf["detected"] = any(d["exit"] == 1 and d["violation_lines"] > 0 for d in det.values())
    sh("git checkout -q -- . && git clean -fdq -e _build", cwd=CLONE)
    old = meta.get("coordinator_confirmation", {}) or old_conf
    for k in ("demo_before", "demo_after", "pinned_suite", "pinned_missing"):      # a re-run with --skip-demo / --skip-suite keeps the recorded results
        if k not in conf and k in old:
            conf[k] = old[k]
    meta["coordinator_confirmation"] = conf
    json.dump(meta, open(meta_p, "w"), indent=1)
    print(json.dumps(conf, indent=1))


if __name__ == "__main__":
    main()
