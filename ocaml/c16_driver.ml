(* C16 model driver: same line protocol as harness/c16/grids_harness.cpp (AMR, Morton, Cartesian parts) *)
open C16_model

let rec pos_of_int64 (n : Int64.t) : positive =
  if Int64.equal n 1L then XH
  else
    let h = Int64.shift_right_logical n 1 in
    if Int64.equal (Int64.logand n 1L) 1L then XI (pos_of_int64 h) else XO (pos_of_int64 h)

(* unsigned interpretation *)
let z_of_u64 (n : Int64.t) : z = if Int64.equal n 0L then Z0 else Zpos (pos_of_int64 n)
let z_of_int (i : int) : z = if i = 0 then Z0 else if i > 0 then Zpos (pos_of_int64 (Int64.of_int i)) else Zneg (pos_of_int64 (Int64.of_int (-i)))

let rec pos_to_int64 = function
  | XH -> 1L
  | XO p -> Int64.shift_left (pos_to_int64 p) 1
  | XI p -> Int64.logor (Int64.shift_left (pos_to_int64 p) 1) 1L

let z_to_u64 = function Z0 -> 0L | Zpos p -> pos_to_int64 p | Zneg _ -> failwith "neg"
let z_to_int = function Z0 -> 0 | Zpos p -> Int64.to_int (pos_to_int64 p) | Zneg p -> -Int64.to_int (pos_to_int64 p)
let u64s z = Printf.sprintf "%Lu" (z_to_u64 z)
let rec nat_of_int i = if i <= 0 then O else S (nat_of_int (i - 1))
let hexd (f : float) = Printf.sprintf "%016Lx" (Int64.bits_of_float f)

(* lattice integer -> double: v * 2^e, exact *)
let lat e v = hexd (ldexp (float_of_int v) e)

let lat_bits = 10

type amr = { mutable g : grid; mutable e : int; (* block side = 2^e *) mutable off : int * int * int; mutable n : int * int * int }

let () =
  let amr = ref None in
  let cart = ref None in
  (try
     while true do
       let line = input_line stdin in
       let f = String.split_on_char ' ' (String.trim line) in
       match f with
       | [ "G"; nx; ny; nz; l0; e; ax; ay; az ] ->
           let nx = int_of_string nx and ny = int_of_string ny and nz = int_of_string nz in
           let e = int_of_string e in
           let ax = int_of_string ax and ay = int_of_string ay and az = int_of_string az in
           let s = 1 lsl lat_bits in
           let u = uniform (nat_of_int (int_of_string l0)) in
           let g =
             { gbox = { bax = z_of_int ax; bay = z_of_int ay; baz = z_of_int az; bsx = z_of_int (nx * s); bsy = z_of_int (ny * s); bsz = z_of_int (nz * s) };
               gnx = z_of_int nx; gny = z_of_int ny; gnz = z_of_int nz; blk = (fun _ _ _ -> u) }
           in
           amr := Some { g; e = e - lat_bits; off = (ax, ay, az); n = (nx, ny, nz) };
           Printf.printf "G %d %s\n" (nx * ny * nz * z_to_int (ncells u)) (u64s (grid_first_key g))
       | [ "R"; key ] -> (
           match !amr with
           | None -> print_endline "R nogrid"
           | Some a -> (
               match grid_refine a.g (z_of_u64 (Int64.of_string ("0u" ^ key))) with
               | None -> print_endline "R invalid"
               | Some (g', nk) ->
                   a.g <- g';
                   Printf.printf "R %s %d\n" (u64s nk) (List.length (gleaves g'))))
       | [ "E" ] -> (
           match !amr with
           | None -> print_endline "E nogrid"
           | Some a ->
               let cells = gleaves a.g in
               let n = List.length cells in
               let keys = grid_enumerate (nat_of_int (n + 2)) a.g in
               Printf.printf "E %d\n" (List.length keys);
               let vsum = ref 0 in
               List.iter
                 (fun k ->
                   match grid_cell_of_key a.g k with
                   | None -> Printf.printf "c %s nocell\n" (u64s k)
                   | Some ((t, b), lev) ->
                       let i v = z_to_int v in
                       let vol = i (volume b) in
                       vsum := !vsum + vol;
                       let mid = { vx = z_of_int (i b.bax + (i b.bsx / 2)); vy = z_of_int (i b.bay + (i b.bsy / 2)); vz = z_of_int (i b.baz + (i b.bsz / 2)) } in
                       Printf.printf "c %s %d %s %s %s %s %s %s %s %s %s\n" (u64s k) (i lev) (lat a.e (i b.bax)) (lat a.e (i b.bay)) (lat a.e (i b.baz))
                         (lat a.e (i b.bsx)) (lat a.e (i b.bsy)) (lat a.e (i b.bsz))
                         (lat (3 * a.e) vol) (u64s (grid_get_key a.g mid)) (match t with Leaf -> "1" | _ -> "0"))
                 keys;
               Printf.printf "S %s\n" (lat (3 * a.e) !vsum))
       | [ "K"; x; y; z ] -> (
           match !amr with
           | None -> print_endline "K nogrid"
           | Some a -> (
               let ax, ay, az = a.off in
               let p = { vx = z_of_int (ax + int_of_string x); vy = z_of_int (ay + int_of_string y); vz = z_of_int (az + int_of_string z) } in
               let k = grid_get_key a.g p in
               match grid_cell_of_key a.g k with
               | None -> Printf.printf "K %s nocell\n" (u64s k)
               | Some ((_, b), lev) ->
                   let i v = z_to_int v in
                   Printf.printf "K %s %d %s %s %s %s %s %s\n" (u64s k) (i lev) (lat a.e (i b.bax)) (lat a.e (i b.bay)) (lat a.e (i b.baz)) (lat a.e (i b.bsx))
                     (lat a.e (i b.bsy)) (lat a.e (i b.bsz))))
       | [ "Z"; x; y; z ] ->
           let k = morton (z_of_int (int_of_string x)) (z_of_int (int_of_string y)) (z_of_int (int_of_string z)) in
           let (dx, dy), dz = demorton (nat_of_int 21) k in
           Printf.printf "Z %s # inv=%d,%d,%d\n" (u64s k) (z_to_int dx) (z_to_int dy) (z_to_int dz)
       | [ "C"; nx; ny; nz; px; py; pz; e; ax; ay; az ] ->
           let b s = s = "1" in
           let cg = { cnx = z_of_int (int_of_string nx); cny = z_of_int (int_of_string ny); cnz = z_of_int (int_of_string nz); cpx = b px; cpy = b py; cpz = b pz } in
           cart := Some (cg, int_of_string e - 4, (int_of_string ax, int_of_string ay, int_of_string az));
           Printf.printf "C %d\n" (int_of_string nx * int_of_string ny * int_of_string nz)
       | [ "L"; l ] -> (
           match !cart with
           | None -> print_endline "L nogrid"
           | Some (cg, _, _) ->
               let (ix, iy), iz = indices cg.cny cg.cnz (z_of_int (int_of_string l)) in
               Printf.printf "L %d %d %d %d\n" (z_to_int ix) (z_to_int iy) (z_to_int iz) (z_to_int (long_index cg.cny cg.cnz ix iy iz)))
       | [ "I"; ix; iy; iz ] -> (
           match !cart with
           | None -> print_endline "I nogrid"
           | Some (cg, _, _) ->
               Printf.printf "I %d\n" (z_to_int (long_index cg.cny cg.cnz (z_of_int (int_of_string ix)) (z_of_int (int_of_string iy)) (z_of_int (int_of_string iz)))))
       | [ "P"; x; y; z ] -> (
           match !cart with
           | None -> print_endline "P nogrid"
           | Some (cg, e, (ax, ay, az)) ->
               let m = z_of_int 16 in
               let ci s = cell_index m (z_of_int (int_of_string s)) in
               let ix = ci x and iy = ci y and iz = ci z in
               let lo a i = lat e (a + z_to_int (cell_lo m i)) in
               Printf.printf "P %d %d %d %d %s %s %s %s %s %s\n" (z_to_int ix) (z_to_int iy) (z_to_int iz) (z_to_int (long_index cg.cny cg.cnz ix iy iz)) (lo ax ix) (lo ay iy)
                 (lo az iz) (lat e 16) (lat e 16) (lat e 16))
       | [ "N"; l ] -> (
           match !cart with
           | None -> print_endline "N nogrid"
           | Some (cg, _, _) ->
               let ns = neighbours cg (z_of_int (int_of_string l)) in
               print_endline ("N " ^ String.concat " " (List.map (function None -> "-1" | Some j -> string_of_int (z_to_int j)) ns)))
       | [ "W"; ix; iy; iz ] -> (
           match !cart with
           | None -> print_endline "W nogrid"
           | Some (cg, _, _) ->
               let w n p i = wrap_axis n p (z_of_int (int_of_string i)) in
               let (fx, jx), sx = w cg.cnx cg.cpx ix and (fy, jy), sy = w cg.cny cg.cpy iy and (fz, jz), sz = w cg.cnz cg.cpz iz in
               Printf.printf "W %d %d %d %d %d %d %d\n" (if fx && fy && fz then 1 else 0) (z_to_int jx) (z_to_int jy) (z_to_int jz) (z_to_int sx) (z_to_int sy) (z_to_int sz))
       | [ "" ] -> ()
       | _ -> print_endline ("? " ^ line)
     done
   with End_of_file -> ())
