(* C19 model driver: same line protocol as harness/c19/timeline_harness.cpp *)
open C19_model

let rec z_of_int64u (n : Int64.t) : z =
  (* unsigned interpretation *)
  if Int64.equal n 0L then Z0
  else
    let rec pos (n : Int64.t) : positive =
      if Int64.equal n 1L then XH
      else
        let h = Int64.shift_right_logical n 1 in
        if Int64.equal (Int64.logand n 1L) 1L then XI (pos h) else XO (pos h)
    in
    Zpos (pos n)

let rec pos_to_int64 = function
  | XH -> 1L
  | XO p -> Int64.shift_left (pos_to_int64 p) 1
  | XI p -> Int64.logor (Int64.shift_left (pos_to_int64 p) 1) 1L

let z_to_u64 = function Z0 -> 0L | Zpos p -> pos_to_int64 p | Zneg _ -> failwith "neg"
let u64s z = Printf.sprintf "%Lu" (z_to_u64 z)
let fl_of_hex s = Float64.of_float (Int64.float_of_bits (Scanf.sscanf s "%Lx" (fun x -> x)))
let hex_of_fl f = Printf.sprintf "%016Lx" (Int64.bits_of_float (Float64.to_float f))

let () =
  let st = ref None in
  let ended = ref false in
  (try
     while true do
       let line = input_line stdin in
       match String.split_on_char ' ' (String.trim line) with
       | [ "C"; s; e; mn; mx ] -> (
           match f_construct (fl_of_hex s) (fl_of_hex e) (fl_of_hex mn) (fl_of_hex mx) with
           | None -> print_endline "C diverges"; st := None
           | Some ((t, a), b) ->
               st := Some (t, a, b);
               ended := false;
               Printf.printf "C %s %s %s %s %s\n" (u64s t.tmin) (u64s t.tmax) (u64s t.cur) (hex_of_fl a) (hex_of_fl b))
       | [ "A"; r ] when !ended -> print_endline "A skipped"
       | [ "A"; r ] -> (
           match !st with
           | None -> print_endline "A nostate"
           | Some (t, a, b) -> (
               let req = fl_of_hex r in
               let mono = mono_check (f_gt a req) in
               match f_advance a b t req with
               | None -> print_endline "A diverges"
               | Some ((((ret, act), now), ts), t') ->
                   st := Some (t', a, b);
                   let moved = not (t'.cur = t.cur) in
                   if not ret then ended := true;
                   let first = match halve_gt (f_gt a req) fUEL t.tmax with Some x -> x | None -> Z0 in
                   let br = if not moved then (if first = Z0 then "a" else "m") else if not ret then "e" else if first = ts then "s" else "d" in
                   Printf.printf "A %d %s %s %s %s # mono=%b br=%s\n" (if ret then 1 else 0) (hex_of_fl act) (hex_of_fl now)
                     (if moved then u64s ts else "0") (u64s t'.cur) mono br))
       | [ "R" ] -> (
           match !st with
           | None -> print_endline "R nostate"
           | Some (t, a, b) -> (
               let za = z_of_int64u (Int64.bits_of_float (Float64.to_float a)) in
               let zb = z_of_int64u (Int64.bits_of_float (Float64.to_float b)) in
               let w = write_tl t za zb in
               Printf.printf "R %d" (8 * List.length w);
               List.iter (fun z -> Printf.printf " %016Lx" (z_to_u64 z)) w;
               print_newline ();
               match read_tl w with
               | Some ((t', a'), b') ->
                   st := Some (t', Float64.of_float (Int64.float_of_bits (z_to_u64 a')), Float64.of_float (Int64.float_of_bits (z_to_u64 b')))
               | None -> print_endline "R readfail"))
       | [ "" ] -> ()
       | _ -> print_endline ("? " ^ line)
     done
   with End_of_file -> ())
