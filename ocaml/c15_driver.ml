(* C15 checker driver.  Reads, line by line, the text of one or more problems:
     G                          start of a problem
     g <x> <y> <z>              real generator position (three binary64 bit patterns, 16 hex digits each; input order)
     x <emin>                   every real coordinate of this problem is an integer multiple of 2^emin (hint, checked)
     s <sx> <sy> <sz>           real box sides (binary64 bit patterns)
     <V> B/R/W/F ...            lines printed by harness/c15/voronoi_harness.cpp for variant V = N1, copied verbatim
     K <i> <eps> <6 ints> <6 certs> <m> (<k> <cert>)*m     certificate for cell i (untrusted; produced by the Python finder);
                                eps = 0: exact (check_cell), eps > 0: relaxed targets (check_cell_eps); answer "K i eps verdict"
     T <i> <k> <x> <y> <z>      claimed witness: rational point of P_i strictly closer to generator k
     L <q> <idx> <x> <y> <z>    get_index returned idx for the query position (binary64 bit patterns)
     S <i> <flags>              per reported face of cell i (real neighbours only, in F order) 1 = genuine facet
     E                          end of problem: runs the neighbour symmetry check
   and calls the functions extracted from coq/Cxx/C15_Defs.v.  Integers are signed hex ("-1f"), rationals "num/den",
   a cert is "-" (empty) or "D|idx:l,idx:l,..." (common denominator D > 0, multipliers l >= 0).
   The only computations done here are conversions: bit pattern -> exact rational, mantissa of a double in [1,2) -> integer,
   text -> Coq data.  All verdicts come from the extracted functions. *)
open C15_model

let rec pos_of_int (n : int) : positive =
  if n = 1 then XH else if n land 1 = 1 then XI (pos_of_int (n lsr 1)) else XO (pos_of_int (n lsr 1))
let z_of_int (n : int) : z = if n = 0 then Z0 else if n > 0 then Zpos (pos_of_int n) else Zneg (pos_of_int (-n))
let rec nat_of_int (n : int) : nat = if n <= 0 then O else S (nat_of_int (n - 1))
let n_of_int (n : int) : n = if n = 0 then N0 else Npos (pos_of_int n)

(* hex string (no sign) -> list of bits, most significant first *)
let bits_of_hex (s : string) : bool list =
  let l = ref [] in
  String.iter (fun c ->
      let v = match c with
        | '0' .. '9' -> Char.code c - 48
        | 'a' .. 'f' -> Char.code c - 87
        | 'A' .. 'F' -> Char.code c - 55
        | _ -> failwith ("bad hex digit in " ^ s) in
      l := (v land 1 = 1) :: (v land 2 = 2) :: (v land 4 = 4) :: (v land 8 = 8) :: !l) s;
  List.rev !l                      (* now most significant first *)
let rec drop_zeros = function false :: r -> drop_zeros r | l -> l
(* most-significant-first bits (leading one) -> positive *)
let pos_of_bits (l : bool list) : positive =
  match l with
  | true :: r -> List.fold_left (fun acc b -> if b then XI acc else XO acc) XH r
  | _ -> failwith "pos_of_bits"
let z_of_hex (s : string) : z =
  let neg = String.length s > 0 && s.[0] = '-' in
  let body = if neg then String.sub s 1 (String.length s - 1) else s in
  match drop_zeros (bits_of_hex body) with
  | [] -> Z0
  | l -> if neg then Zneg (pos_of_bits l) else Zpos (pos_of_bits l)
let q_of_z (a : z) : q = { qnum = a; qden = XH }
let q_of_str (s : string) : q =
  match String.split_on_char '/' s with
  | [ a ] -> q_of_z (z_of_hex a)
  | [ a; b ] -> (match z_of_hex b with Zpos p -> { qnum = z_of_hex a; qden = p } | _ -> failwith "denominator")
  | _ -> failwith "rational"
let rec shift_pos (p : positive) (k : int) : positive = if k <= 0 then p else shift_pos (XO p) (k - 1)

(* exact value of a binary64 bit pattern (finite numbers only) in units of 2^emin, as an integer-valued rational.
   emin is a hint given on the "x" line of the problem; it is CHECKED here: the conversion fails unless the double is an
   exact integer multiple of 2^emin.  Scaling every coordinate of a problem by the same power of two changes neither
   which generator is nearest nor the slack test (both sides scale by 2^(-2 emin)). *)
let emin = ref (-1074)
let q_of_double_bits (s : string) : q =
  let b = Scanf.sscanf s "%Lx" (fun x -> x) in
  let neg = Int64.compare b 0L < 0 in
  let e = Int64.to_int (Int64.logand (Int64.shift_right_logical b 52) 0x7ffL) in
  let f = Int64.to_int (Int64.logand b 0xfffffffffffffL) in
  if e = 0x7ff then failwith "non-finite double";
  let m, ex = if e = 0 then (f, -1074) else (f lor (1 lsl 52), e - 1075) in
  if m = 0 then q_of_z Z0
  else begin
    let sh = ex - !emin in
    let m, sh =
      if sh >= 0 then (m, sh)
      else begin
        let k = - sh in
        if k >= 62 || m land ((1 lsl k) - 1) <> 0 then failwith "double is not a multiple of 2^emin";
        (m lsr k, 0)
      end in
    let num = shift_pos (pos_of_int m) sh in
    { qnum = (if neg then Zneg num else Zpos num); qden = XH }
  end
(* integer (r-1)*2^52 of a double r in [1,2); None when r is outside [1,2) *)
let mant_of_bits (s : string) : int option =
  let b = Scanf.sscanf s "%Lx" (fun x -> x) in
  if Int64.equal (Int64.shift_right_logical b 52) 0x3ffL then Some (Int64.to_int (Int64.logand b 0xfffffffffffffL)) else None

let cert_of_str (s : string) : cert =
  if s = "-" then (q_of_z (Zpos XH), [])
  else
    match String.split_on_char '|' s with
    | [ d; items ] ->
        (q_of_str d,
         List.map (fun tok ->
             match String.split_on_char ':' tok with
             | [ i; l ] -> (nat_of_int (int_of_string i), q_of_str l)
             | _ -> failwith "cert token") (String.split_on_char ',' items))
    | _ -> failwith "cert"

let pt_of_ints a b c = { px = q_of_z (z_of_int a); py = q_of_z (z_of_int b); pz = q_of_z (z_of_int c) }

(* state of the current problem *)
let real_gens : pt list ref = ref []           (* reversed while reading *)
let real_sides : q list ref = ref []
let res_gens : (int * pt) list ref = ref []      (* (index, point) reversed *)
let res_ok = ref true
let res_box : box option ref = ref None
let box_ints : (int array * int array) option ref = ref None
let res_ints : (int, int array) Hashtbl.t = Hashtbl.create 64
let faces : (int, int list) Hashtbl.t = Hashtbl.create 64     (* cell -> real neighbours, reversed *)
let sflags : (int, string) Hashtbl.t = Hashtbl.create 64
let ncell = ref 0

let reset () =
  real_gens := []; real_sides := []; res_gens := []; res_ok := true; res_box := None; box_ints := None;
  Hashtbl.reset faces; Hashtbl.reset res_ints; Hashtbl.reset sflags; ncell := 0

let gens_list () = List.rev_map snd !res_gens
let ngbs i = List.rev (try Hashtbl.find faces i with Not_found -> [])
let max_index = 0xfffffff5

let () =
  try
    while true do
      let line = String.trim (input_line stdin) in
      (try
         match String.split_on_char ' ' line with
         | [ "G" ] -> reset ()
         | [ "x"; e ] -> emin := int_of_string e
         | [ "g"; x; y; z ] -> real_gens := { px = q_of_double_bits x; py = q_of_double_bits y; pz = q_of_double_bits z } :: !real_gens
         | [ "s"; x; y; z ] -> real_sides := [ q_of_double_bits x; q_of_double_bits y; q_of_double_bits z ]
         | _ :: "B" :: w when List.length w = 9 ->
             let a = Array.of_list (List.map mant_of_bits w) in
             (match (a.(0), a.(1), a.(2), a.(6), a.(7), a.(8)) with
              | Some l0, Some l1, Some l2, Some h0, Some h1, Some h2 ->
                  res_box := Some { blo = pt_of_ints l0 l1 l2; bhi = pt_of_ints h0 h1 h2 };
                  box_ints := Some ([| l0; l1; l2 |], [| h0; h1; h2 |])
              | _ -> res_ok := false; print_endline "B out-of-range")
         | [ _; "R"; i; x; y; z ] ->
             (match (mant_of_bits x, mant_of_bits y, mant_of_bits z) with
              | Some a, Some b, Some c ->
                  res_gens := (int_of_string i, pt_of_ints a b c) :: !res_gens; incr ncell;
                  Hashtbl.replace res_ints (int_of_string i) [| a; b; c |]
              | _ -> res_ok := false; Printf.printf "R %s out-of-range\n" i)
         | _ :: "W" :: i :: w when List.length w = 6 ->
             (* the six mirror images the class uses must be the exact reflections of generator i in the planes of the box *)
             (match (!box_ints, Hashtbl.find_opt res_ints (int_of_string i)) with
              | Some (lo, hi), Some g ->
                  let ok = ref true in
                  List.iteri (fun k s ->
                      let a = k / 2 in
                      let wall = if k land 1 = 0 then lo.(a) else hi.(a) in
                      match mant_of_bits s with
                      | Some c -> if c <> 2 * wall - g.(a) then ok := false
                      | None -> ok := false) w;
                  Printf.printf "W %s %d\n" i (if !ok then 1 else 0)
              | _ -> Printf.printf "W %s 0\n" i)
         | [ _; "F"; i; ngb; _; _; _; _; _ ] ->
             let i = int_of_string i and j = int_of_string ngb in
             if j < max_index then Hashtbl.replace faces i (j :: (try Hashtbl.find faces i with Not_found -> []))
         | "K" :: i :: epss :: rest ->
             let i = int_of_string i in
             (match (rest, !res_box) with
              | lx :: ly :: lz :: hx :: hy :: hz :: c1 :: c2 :: c3 :: c4 :: c5 :: c6 :: _m :: kc, Some b when !res_ok ->
                  let zq s = q_of_z (z_of_hex s) in
                  let tbl = Hashtbl.create 16 in
                  let rec fill = function
                    | k :: c :: r -> Hashtbl.replace tbl (int_of_string k) (cert_of_str c); fill r
                    | [] -> ()
                    | _ -> failwith "odd k-cert list" in
                  fill kc;
                  let n = !ncell in
                  let rec mk k = if k >= n then [] else (Hashtbl.find_opt tbl k) :: mk (k + 1) in
                  let cc = { cc_lo = { px = zq lx; py = zq ly; pz = zq lz }; cc_hi = { px = zq hx; py = zq hy; pz = zq hz };
                             cc_bb = List.map cert_of_str [ c1; c2; c3; c4; c5; c6 ]; cc_k = mk 0 } in
                  let eps = q_of_str epss in
                  let exact = (match eps.qnum with Z0 -> true | _ -> false) in
                  let ok = if exact then check_cell (gens_list ()) b (nat_of_int i) (List.map nat_of_int (ngbs i)) cc
                    else check_cell_eps eps (gens_list ()) b (nat_of_int i) (List.map nat_of_int (ngbs i)) cc in
                  Printf.printf "K %d %s %d\n" i (if exact then "exact" else "eps") (if ok then 1 else 0)
              | _ -> Printf.printf "K %d - 0\n" i)
         | [ "T"; i; k; x; y; z ] ->
             (match !res_box with
              | Some b when !res_ok ->
                  let i = int_of_string i and k = int_of_string k in
                  let ok = witness_check (gens_list ()) b (nat_of_int i) (List.map nat_of_int (ngbs i)) (nat_of_int k)
                      { px = q_of_str x; py = q_of_str y; pz = q_of_str z } in
                  Printf.printf "T %d %d %d\n" i k (if ok then 1 else 0)
              | _ -> Printf.printf "T %s %s 0\n" i k)
         | [ "L"; q; idx; x; y; z ] ->
             let gens = List.rev !real_gens in
             let p = { px = q_of_double_bits x; py = q_of_double_bits y; pz = q_of_double_bits z } in
             let i = nat_of_int (int_of_string idx) in
             if int_of_string idx >= List.length gens then Printf.printf "L %s FAIL\n" q
             else if nearest_check gens i p then Printf.printf "L %s exact\n" q
             else begin
               (* slack: d_i^2 <= (1 + 2^-49) d_k^2 + 2^-47 |sides|^2 *)
               let l2 = List.fold_left (fun acc s -> qplus acc (qmult s s)) (q_of_z Z0) !real_sides in
               let er = { qnum = Zpos XH; qden = shift_pos XH 49 } and ea = qmult { qnum = Zpos XH; qden = shift_pos XH 47 } l2 in
               if nearest_check_slack er ea gens i p then Printf.printf "L %s slack\n" q else Printf.printf "L %s FAIL\n" q
             end
         | [ "S"; i; fl ] -> Hashtbl.replace sflags (int_of_string i) fl
         | [ "E" ] ->
             let n = !ncell in
             let rec mk i =
               if i >= n then []
               else
                 let ng = ngbs i in
                 let fl = try Hashtbl.find sflags i with Not_found -> "" in
                 let l = List.mapi (fun k j -> (n_of_int j, k < String.length fl && fl.[k] = '1')) ng in
                 l :: mk (i + 1) in
             Printf.printf "S %d\n" (if neighbour_symmetric_check (mk 0) then 1 else 0)
         | [ "" ] -> ()
         | _ -> ()
       with Failure m -> Printf.printf "? %s (%s)\n" line m | Not_found -> Printf.printf "? %s\n" line)
    done
  with End_of_file -> ()
