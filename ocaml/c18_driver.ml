(* C18 model driver: same line protocol as harness/c18/atomic_harness.cpp.
   pow / exp / log10 of the float instance are the C library's (OCaml's ** , exp, log10 call libm). *)
open C18_model

let f64 (x : float) = Float64.of_float x
let fl (x : Float64.t) : float = Float64.to_float x
let o0 : Float64.t ops =
  fops (fun a b -> f64 (Float.pow (fl a) (fl b))) (fun a -> f64 (Float.exp (fl a))) (fun a -> f64 (Float.log10 (fl a)))

(* decimal -> binary64 conversion is a pure function of the constant: memoised (the extracted
   conversion works on unary/binary inductive integers and is slow for long mantissas) *)
module DH = Hashtbl.Make (struct
  type t = dec
  let equal (a : dec) (b : dec) = a = b
  let hash (d : dec) = Hashtbl.hash_param 300 600 d
end)
let dec_memo : Float64.t DH.t = DH.create 4096
let o : Float64.t ops =
  { o0 with o_dec = (fun d -> match DH.find_opt dec_memo d with Some v -> v | None -> let v = o0.o_dec d in DH.add dec_memo d v; v) }

let rec nat_of_int n = if n <= 0 then O else S (nat_of_int (n - 1))
let rec int_of_nat = function O -> 0 | S n -> 1 + int_of_nat n
let fl_of_hex s = f64 (Int64.float_of_bits (Scanf.sscanf s "%Lx" (fun x -> x)))
let hex x = Printf.sprintf "%016Lx" (Int64.bits_of_float (fl x))
let hexo = function Some x -> hex x | None -> "undefined"
let ion_of_int i = List.nth all_ions i
let ctkind_of_int = function 0 -> CT_rec_H | 1 -> CT_ion_H | _ -> CT_rec_He

(* caches of prepared tables: what the C++ constructors compute once *)
let prep_ion_c = Hashtbl.create 16
let get_prep_ion i = match Hashtbl.find_opt prep_ion_c i with Some p -> p | None -> let p = prep_ion o (ion_of_int i) in Hashtbl.add prep_ion_c i p; p
let prep_sel_c = Hashtbl.create 64
let get_prep_sel key =
  match Hashtbl.find_opt prep_sel_c key with
  | Some p -> p
  | None ->
      let z, n, s = key in
      let p = match resolve (nat_of_int z) (nat_of_int n) (nat_of_int s) with Some sel -> Some (prep_sel o sel) | None -> None in
      Hashtbl.add prep_sel_c key p; p
let rec_prep_c = Hashtbl.create 16
let get_rec_prep i = match Hashtbl.find_opt rec_prep_c i with Some p -> p | None -> let p = rec_prep o (ion_of_int i) in Hashtbl.add rec_prep_c i p; p
let rr_prep_c = Hashtbl.create 64
let get_rr_prep key =
  match Hashtbl.find_opt rr_prep_c key with
  | Some p -> p
  | None -> let z, n = key in let p = rr_prep o (rr_kind (nat_of_int z) (nat_of_int n)) in Hashtbl.add rr_prep_c key p; p

(* which branch of get_cross_section_verner one shell takes (coverage tag only) *)
let branch (p : Float64.t prepS) e =
  let is_ = int_of_nat p.ps_is and nout = int_of_nat p.ps_nout and nint = int_of_nat p.ps_nint in
  if o.o_lt e p.ps_A.pa_Eth then "b"
  else if is_ > nout then "o"
  else if is_ < nout && is_ > nint && o.o_lt e p.ps_einn then "g"
  else if is_ <= nint || o.o_le p.ps_einn e then "A"
  else "B"

(* spectrum tables, filled from "T" lines *)
let tabs : (string, Float64.t list) Hashtbl.t = Hashtbl.create 16
let cdfs : (string, Float64.t list list) Hashtbl.t = Hashtbl.create 4
let get_tab k = try Hashtbl.find tabs k with Not_found -> []
let get_cdfs k = try List.rev (Hashtbl.find cdfs k) with Not_found -> []

let dump_tables () =
  let seen = Hashtbl.create 2048 in
  List.iter
    (fun ((z, n), s) ->
      if not (Hashtbl.mem seen (z, n, s)) then begin
        Hashtbl.add seen (z, n, s) ();
        match findA z n s with
        | Some r ->
            let p = prep_A o r in
            Printf.printf "KA %d %d %d %s %s %s %s %s %s %s\n" (int_of_nat z) (int_of_nat n) (int_of_nat s) (hex p.pa_Plconst) (hex p.pa_Eth)
              (hex p.pa_E0inv) (hex p.pa_s0) (hex p.pa_yainv) (hex p.pa_P) (hex p.pa_yw2)
        | None -> ()
      end)
    all_A_keys;
  let seenb = Hashtbl.create 256 in
  List.iter
    (fun (z, n) ->
      if not (Hashtbl.mem seenb (z, n)) then begin
        Hashtbl.add seenb (z, n) ();
        match findB z n with
        | Some r ->
            let p = prep_B o r in
            Printf.printf "KB %d %d %s %s %s %s %s %s %s\n" (int_of_nat z) (int_of_nat n) (hex p.pb_E0inv) (hex p.pb_s0) (hex p.pb_yainv) (hex p.pb_P)
              (hex p.pb_yw2) (hex p.pb_y0) (hex p.pb_y12)
        | None -> ()
      end)
    all_B_keys;
  let seenc = Hashtbl.create 64 in
  List.iter
    (fun n ->
      if not (Hashtbl.mem seenc n) then begin
        Hashtbl.add seenc n ();
        match findC n with
        | Some r ->
            Printf.printf "KC %d %s %s\n" (int_of_nat n) (hex (f64 (float_of_int (int_of_nat r.rc_Ninn)))) (hex (f64 (float_of_int (int_of_nat r.rc_Ntot))))
        | None -> ()
      end)
    all_C_keys;
  for c = 0 to 1 do
    for i = 1 to 30 do
      for j = 1 to i do
        Printf.printf "KR %d %d %d %s\n" c i j (hex (o.o_dec (tab3 gen_rrec (nat_of_int c) (nat_of_int (i - 1)) (nat_of_int (j - 1)))))
      done
    done
  done;
  for c = 0 to 3 do
    for i = 1 to 30 do
      for j = 1 to i do
        let v = o.o_dec (tab3 gen_rnew (nat_of_int c) (nat_of_int (i - 1)) (nat_of_int (j - 1))) in
        Printf.printf "KN %d %d %d %s\n" c i j (hex (if c >= 2 then inv_nz o v else v))
      done
    done
  done;
  for c = 0 to 2 do
    for j = 1 to 13 do
      Printf.printf "KF %d %d %s\n" c j (hex (o.o_dec (tab2 gen_fe (nat_of_int c) (nat_of_int (j - 1)))))
    done
  done;
  print_endline "K end"

let () =
  try
    while true do
      let line = input_line stdin in
      match String.split_on_char ' ' (String.trim line) with
      | [ "K" ] -> dump_tables ()
      | [ "X"; i; e ] ->
          let e = fl_of_hex e in
          let ps = get_prep_ion (int_of_string i) in
          let tag = String.concat "" (List.map (function Some p -> branch p e | None -> "?") ps) in
          Printf.printf "X %s # br=%s\n" (hexo (xsec_ion_prepped o ps e)) tag
      | [ "V"; z; n; s; e ] -> (
          let e = fl_of_hex e in
          match get_prep_sel (int_of_string z, int_of_string n, int_of_string s) with
          | None -> print_endline "V undefined"
          | Some p -> Printf.printf "V %s # br=%s\n" (hexo (xsec_prepped o p e)) (branch p e))
      | [ "R"; i; t ] ->
          let i = int_of_string i in
          Printf.printf "R %s\n" (hex (rec_prepped o (ion_of_int i) (get_rec_prep i) (fl_of_hex t)))
      | [ "W"; z; n; t ] -> Printf.printf "W %s\n" (hex (rr_eval o (get_rr_prep (int_of_string z, int_of_string n)) (fl_of_hex t)))
      | [ "C"; kd; i; t ] -> Printf.printf "C %s\n" (hexo (ct_rate o (ctkind_of_int (int_of_string kd)) (ion_of_int (int_of_string i)) (fl_of_hex t)))
      | "L" :: n :: rest ->
          let n = int_of_string n in
          let arr = List.filteri (fun i _ -> i < n) rest in
          let x = fl_of_hex (List.nth rest n) in
          Printf.printf "L %s\n" (match locate_in o x (List.map fl_of_hex arr) with Some j -> string_of_int (int_of_nat j) | None -> "diverges")
      | [ "P"; _ ] -> print_endline "P ok"
      | "T" :: [ "end" ] -> ()
      | "T" :: kd :: name :: _ :: vals ->
          let v = List.map fl_of_hex vals in
          if name = "cdf" && (kd = "H" || kd = "E") then begin
            (* rows arrive in order after freq/temp; a new "freq" line resets *)
            let old = try Hashtbl.find cdfs kd with Not_found -> [] in
            Hashtbl.replace cdfs kd (v :: old)
          end
          else begin
            if name = "freq" then Hashtbl.remove cdfs kd;
            Hashtbl.replace tabs (kd ^ name) v
          end
      | [ "TAB"; _ ] -> ()
      | "MCDF" :: kd :: _ :: ws ->
          (* the constructor's "make cumulative" + "normalize" on the masked bin values *)
          let c = masked_cdf o (List.map fl_of_hex ws) in
          Printf.printf "T %s cdf %d %s\n" kd (List.length c) (String.concat " " (List.map hex c))
      | [ "CHK"; kd ] ->
          (* table conditions the range theorems need, decided by the extracted checkers *)
          let si = strictly_increasing o and wi = weakly_increasing o in
          let ok =
            match kd with
            | "P" -> wi (get_tab "Pcdf") && si (get_tab "Plogfreq") && wi (get_tab "Plogcdf")
            | "Q" -> wi (get_tab "Qcdf") && si (get_tab "Qfreq")
            | "M" | "N" ->
                (* masked spectrum: the range theorem also needs the table to start at 0 *)
                let c = get_tab (kd ^ "cdf") in
                wi c && si (get_tab (kd ^ "freq")) && (match c with c0 :: _ -> not (o.o_lt c0 (zero o)) && not (o.o_lt (zero o) c0) | [] -> false)
            | _ -> si (get_tab (kd ^ "freq")) && si (get_tab (kd ^ "temp")) && List.for_all wi (get_cdfs kd)
          in
          Printf.printf "CHK %s %b\n" kd ok
      | [ "S"; kd; t; x ] ->
          let t = fl_of_hex t and x = fl_of_hex x in
          let r =
            match kd with
            | "P" -> sample_planck o (get_tab "Pcdf") (get_tab "Plogcdf") (get_tab "Plogfreq") x
            | "Q" -> sample_linear o (get_tab "Qfreq") (get_tab "Qcdf") x
            | "M" | "N" -> sample_linear o (get_tab (kd ^ "freq")) (get_tab (kd ^ "cdf")) x
            | _ -> sample_lyman o gen_lyman_clamps (get_tab (kd ^ "freq")) (get_tab (kd ^ "temp")) (get_cdfs kd) t x
          in
          Printf.printf "S %s\n" (hexo r)
      | [ "" ] -> ()
      | _ -> print_endline ("? " ^ line)
    done
  with End_of_file -> ()
