(* C05 model driver.
   argv: d1_pinned d8_pinned (0/1)
   input lines (hex bit patterns):  H|E gamma rhoL uLx uLy uLz PL rhoR uRx uRy uRz PR nx ny nz vx vy vz [flag rs us ps]
   output: m px py pz e [# branch] *)
open C05_model

let fl s = Float64.of_float (Int64.float_of_bits (Scanf.sscanf s "%Lx" (fun x -> x)))
let hx f = Printf.sprintf "%016Lx" (Int64.bits_of_float (Float64.to_float f))
let pw a b = Float64.of_float (Float.pow (Float64.to_float a) (Float64.to_float b))
let cst _ _ = Float64.of_float 0.0
let rec int_of_pos = function XH -> 1 | XO p -> 2 * int_of_pos p | XI p -> 2 * int_of_pos p + 1
let int_of_z = function Z0 -> 0 | Zpos p -> int_of_pos p | Zneg p -> - (int_of_pos p)
let z_of_int i = if i = 0 then Z0 else if i = 1 then Zpos XH else if i = -1 then Zneg XH else failwith "flag"

let () =
  let d1 = Sys.argv.(1) = "1" and d8 = Sys.argv.(2) = "1" in
  try
    while true do
      let line = input_line stdin in
      let w = Array.of_list (List.filter (fun s -> s <> "") (String.split_on_char ' ' (String.trim line))) in
      if Array.length w >= 18 then begin
        let g = fl w.(1) in
        let c = f_consts pw cst g in
        let v i = ((fl w.(i), fl w.(i + 1)), fl w.(i + 2)) in
        let rhoL = fl w.(2) and uL = v 3 and pL = fl w.(6) and rhoR = fl w.(7) and uR = v 8 and pR = fl w.(11) in
        let n = v 12 and vf = v 15 in
        let out ((m, ((px, py), pz)), e) tag =
          Printf.printf "%s %s %s %s %s # %s\n" (hx m) (hx px) (hx py) (hx pz) (hx e) tag in
        if w.(0) = "H" then begin
          let f, b = f_hllc pw cst c d1 d8 rhoL uL pL rhoR uR pR n vf in
          out f (Printf.sprintf "br=%d" (int_of_z b))
        end else begin
          let star = if Array.length w >= 22 then (((z_of_int (int_of_string w.(18)), fl w.(19)), fl w.(20)), fl w.(21))
                     else (((Z0, fl "0"), fl "0"), fl "0") in
          let f = f_exact pw cst c d1 star rhoL uL pL rhoR uR pR n vf in
          out f "exact"
        end
      end else print_endline ("? " ^ line)
    done
  with End_of_file -> ()
