(* C10 model driver.
   argv.(1) = "cells": the line protocol of harness/c04/cellops_harness.cpp, all eight ops (F B G H S P U R)
   argv.(1) = "decl" : prints the declared read/write sets of Cxx/C10_Defs.v:  name accumulates | reads | writes
   argv.(1) = "step" : whole steps of the binary64 model on a layout, one test per line, ';'-separated groups
       nx ny nz sx sy sz px py pz bkind gamma maxv ; dx dy dz dxinv(3) A(3) invvol ; dt_1 .. dt_n ; cons[5] prim[5] of cell 0 ; cell 1 ; ...
     (cells in global id order; doubles as hex) -> one line: cons[5] prim[5] of every cell after the n steps *)
open C10_model

let fl s = Float64.of_float (Int64.float_of_bits (Scanf.sscanf s "%Lx" (fun x -> x)))
let hx f = Printf.sprintf "%016Lx" (Int64.bits_of_float (Float64.to_float f))
let pw a b = Float64.of_float (Float.pow (Float64.to_float a) (Float64.to_float b))
let cst _ _ = Float64.of_float 0.0
let dblmax = Float64.of_float max_float
let f0 = Float64.of_float 0.0
let rec pos_of_int n = if n = 1 then XH else if n land 1 = 0 then XO (pos_of_int (n lsr 1)) else XI (pos_of_int (n lsr 1))
let z_of_int n = if n = 0 then Z0 else if n > 0 then Zpos (pos_of_int n) else Zneg (pos_of_int (-n))
let rec int_of_pos = function XH -> 1 | XO p -> 2 * int_of_pos p | XI p -> 2 * int_of_pos p + 1
let int_of_z = function Z0 -> 0 | Zpos p -> int_of_pos p | Zneg p -> - (int_of_pos p)
let toks s = List.filter (fun x -> x <> "") (String.split_on_char ' ' (String.trim s))
let zi s = z_of_int (int_of_string s)
let pcf = Float64.of_float (1.38064852e-23 /. 1.672621898e-27)

let load (t : string array) : Float64.t cell * (Float64.t * Float64.t) =
  let k = ref 0 in
  let nx () = let v = fl t.(!k) in incr k; v in
  let r5 () = let a = nx () in let b = nx () in let c = nx () in let d = nx () in let e = nx () in { c0 = a; c1 = b; c2 = c; c3 = d; c4 = e } in
  let v3 () = let a = nx () in let b = nx () in let c = nx () in ((a, b), c) in
  let prim = r5 () in let cons = r5 () in let dcons = r5 () in
  let g0 = v3 () in let g1 = v3 () in let g2 = v3 () in let g3 = v3 () in let g4 = v3 () in
  let grav = v3 () in let eterm = nx () in
  let p2 () = let a = nx () in let b = nx () in (a, b) in
  let l0 = p2 () in let l1 = p2 () in let l2 = p2 () in let l3 = p2 () in let l4 = p2 () in
  let tt = nx () in let xh = nx () in
  ({ prim; cons; dcons; grad = { gr0 = g0; gr1 = g1; gr2 = g2; gr3 = g3; gr4 = g4 }; grav; eterm;
     lims = { lm0 = l0; lm1 = l1; lm2 = l2; lm3 = l3; lm4 = l4 } }, (tt, xh))

let dump (c, (tt, xh)) =
  let b = Buffer.create 1024 in
  let put x = Buffer.add_string b (hx x); Buffer.add_char b ' ' in
  let p5 w = put w.c0; put w.c1; put w.c2; put w.c3; put w.c4 in
  let p3 ((x, y), z) = put x; put y; put z in
  let pp (x, y) = put x; put y in
  p5 c.prim; p5 c.cons; p5 c.dcons;
  p3 c.grad.gr0; p3 c.grad.gr1; p3 c.grad.gr2; p3 c.grad.gr3; p3 c.grad.gr4;
  p3 c.grav; put c.eterm;
  pp c.lims.lm0; pp c.lims.lm1; pp c.lims.lm2; pp c.lims.lm3; pp c.lims.lm4;
  put tt; put xh;
  Buffer.contents b

let cells_main () =
  try
    while true do
      let line = input_line stdin in
      let grp = Array.of_list (String.split_on_char ';' line) in
      let h = Array.of_list (toks grp.(0)) in
      let n = int_of_string h.(0) in
      let gamma = fl h.(1) and maxv = fl h.(2) in
      let cells = Array.init n (fun i -> load (Array.of_list (toks grp.(1 + i)))) in
      let ok = ref true in
      let set l c = cells.(l) <- (c, snd cells.(l)) in
      let get l = fst cells.(l) in
      for g = 1 + n to Array.length grp - 1 do
        let t = Array.of_list (toks grp.(g)) in
        if Array.length t > 0 then begin
          match t.(0) with
          | "F" ->
            let i = zi t.(1) and l = int_of_string t.(2) and r = int_of_string t.(3) in
            let f = f_pair_flux pw cst gamma i (get l) (get r) (fl t.(4)) (fl t.(5)) (fl t.(6)) in
            set l (f_bump pw cst (get l) false f);
            set r (f_bump pw cst (get r) true f)
          | "B" ->
            let k = zi t.(1) and i = zi t.(2) and l = int_of_string t.(3) in
            let f = f_ghost_flux pw cst gamma k i (get l) (fl t.(4)) (fl t.(5)) (fl t.(6)) in
            set l (f_bump pw cst (get l) false f)
          | "G" ->
            let i = zi t.(1) and l = int_of_string t.(2) and r = int_of_string t.(3) in
            let pl = (get l).prim and pr = (get r).prim in
            let dw = f_grad_inc pw cst pl pr (fl t.(4)) in
            set l (f_bump_grad pw cst (get l) i true dw pr);
            set r (f_bump_grad pw cst (get r) i false dw pl)
          | "H" ->
            let k = zi t.(1) and i = zi t.(2) and l = int_of_string t.(3) in
            let dxinv = fl t.(4) in
            let pl = (get l).prim in
            let pr = f_ghost_prim pw cst k i (f_orientation pw cst dxinv) pl in
            let dw = f_grad_inc pw cst pl pr dxinv in
            set l (f_bump_grad pw cst (get l) i true dw pr)
          | "S" ->
            let l = int_of_string t.(1) in
            set l (f_slope_limit pw cst dblmax ((fl t.(2), fl t.(3)), fl t.(4)) (get l))
          | "P" ->
            let l = int_of_string t.(1) in
            set l (f_predict pw cst gamma (fl t.(2)) (get l))
          | "U" ->
            let l = int_of_string t.(1) in
            set l (f_update pw cst dblmax (get l) (fl t.(2)))
          | "R" ->
            let l = int_of_string t.(1) in
            let (tt, xh) = snd cells.(l) in
            set l (f_setprim pw cst gamma maxv pcf tt xh (get l) (fl t.(2)))
          | _ -> ok := false
        end
      done;
      if !ok then print_endline (String.concat "" (Array.to_list (Array.map dump cells))) else print_endline "?"
    done
  with End_of_file -> ()

let decl_main () =
  List.iter (fun d ->
      Printf.printf "%d %b |%s |%s\n" (int_of_z d.od_name) d.od_accumulates
        (String.concat "" (List.map (fun z -> " " ^ string_of_int (int_of_z z)) d.od_reads))
        (String.concat "" (List.map (fun z -> " " ^ string_of_int (int_of_z z)) d.od_writes))) f_declared

let step_main () =
  try
    while true do
      let line = input_line stdin in
      let grp = Array.of_list (String.split_on_char ';' line) in
      let h = Array.of_list (toks grp.(0)) in
      let iv k = int_of_string h.(k) in
      let lay = { nx = z_of_int (iv 0); ny = z_of_int (iv 1); nz = z_of_int (iv 2); sx = z_of_int (iv 3); sy = z_of_int (iv 4); sz = z_of_int (iv 5);
                  px = (iv 6 <> 0); py = (iv 7 <> 0); pz = (iv 8 <> 0) } in
      let bkind = zi h.(9) and gamma = fl h.(10) and maxv = fl h.(11) in
      let g = Array.of_list (List.map fl (toks grp.(1))) in
      let v3 k = ((g.(k), g.(k + 1)), g.(k + 2)) in
      let dts = List.map fl (toks grp.(2)) in
      let ncell = iv 0 * iv 1 * iv 2 * iv 3 * iv 4 * iv 5 in
      let vz3 = ((f0, f0), f0) in
      let r = (dblmax, Float64.of_float (-. max_float)) in
      let arr = Array.init ncell (fun i ->
          let t = Array.of_list (List.map fl (toks grp.(3 + i))) in
          { prim = { c0 = t.(5); c1 = t.(6); c2 = t.(7); c3 = t.(8); c4 = t.(9) };
            cons = { c0 = t.(0); c1 = t.(1); c2 = t.(2); c3 = t.(3); c4 = t.(4) };
            dcons = { c0 = f0; c1 = f0; c2 = f0; c3 = f0; c4 = f0 };
            grad = { gr0 = vz3; gr1 = vz3; gr2 = vz3; gr3 = vz3; gr4 = vz3 }; grav = vz3; eterm = f0;
            lims = { lm0 = r; lm1 = r; lm2 = r; lm3 = r; lm4 = r } }) in
      let cur = ref arr in
      List.iter (fun dt ->
          let a = !cur in
          let st z = a.(int_of_z z) in
          let p = { p_gamma = gamma; p_bkind = bkind; p_dx = v3 0; p_dxinv = v3 3; p_A = v3 6; p_invvol = g.(9); p_dt = dt;
                    p_halfdt = Float64.mul (Float64.of_float 0.5) dt; p_maxv = maxv; p_pcf = pcf; p_T = f0; p_xH = f0 } in
          let st' = f_step_layout pw cst dblmax gamma p lay st in
          cur := Array.init ncell (fun i -> st' (z_of_int i))) dts;
      let b = Buffer.create 4096 in
      Array.iter (fun c ->
          List.iter (fun x -> Buffer.add_string b (hx x); Buffer.add_char b ' ')
            [c.cons.c0; c.cons.c1; c.cons.c2; c.cons.c3; c.cons.c4; c.prim.c0; c.prim.c1; c.prim.c2; c.prim.c3; c.prim.c4]) !cur;
      print_endline (Buffer.contents b)
    done
  with End_of_file -> ()

let () = match Sys.argv.(1) with "cells" -> cells_main () | "decl" -> decl_main () | _ -> step_main ()
