(* C14 model driver.  input:  M n chunks prefix   (prefix < 0: no extra dump)
   output: one line:  nb nr nops | Main Back0 .. Back(M+1)   each  "-" | "C<id>" | "I"  *)
open C14_model

let rec n_of_int i : n = if i = 0 then N0 else Npos (pos_of_int i)
and pos_of_int i = if i = 1 then XH else if i land 1 = 1 then XI (pos_of_int (i lsr 1)) else XO (pos_of_int (i lsr 1))
let rec int_of_pos = function XH -> 1 | XO p -> 2 * int_of_pos p | XI p -> 2 * int_of_pos p + 1
let int_of_n = function N0 -> 0 | Npos p -> int_of_pos p
let rec nat_of_int i = if i = 0 then O else S (nat_of_int (i - 1))
let rec int_of_nat = function O -> 0 | S k -> 1 + int_of_nat k
let rec length_ = function [] -> 0 | _ :: r -> 1 + length_ r

let show = function
  | None -> "-"
  | Some f -> if f.fcomplete then Printf.sprintf "C%d" (int_of_n f.fid) else "I"

let () =
  try
    while true do
      let line = input_line stdin in
      match List.filter (fun s -> s <> "") (String.split_on_char ' ' (String.trim line)) with
      | [ m; n; c; k ] -> (
          let m = int_of_string m and n = int_of_string n and c = int_of_string c and k = int_of_string k in
          match run_dumps start_fixed (n_of_int m) (nat_of_int c) (nat_of_int n) with
          | None -> print_endline "FAIL"
          | Some (f, mg) -> (
              let ops, mg' = dump_ops start_fixed (n_of_int m) mg (n_of_int (n + 1)) (nat_of_int c) in
              let nops = length_ ops in
              let res = if k < 0 then Some f else exec_all f (firstn (nat_of_int k) ops) in
              match res with
              | None -> print_endline "FAIL"
              | Some f' ->
                  let l = listing f' (nat_of_int (m + 2)) in
                  Printf.printf "%d %d %d | %s\n" (int_of_n mg.nbackups) (int_of_n mg.nrestarts) nops
                    (String.concat " " (List.map show l))))
      | _ -> ()
    done
  with End_of_file -> ()
