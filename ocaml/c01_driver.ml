(* C01 trace validator: replays the events of one real photon iteration as labels of the extracted
   model (coq/Cxx/C01_Defs.v).  Events are logged by the real threads AFTER the operation they describe,
   so the order of two events of different threads in the trace can differ from the order of the operations.
   The validator therefore looks for an interleaving that (a) keeps every thread's own order, (b) prefers
   the logged order, (c) is a run of the model with equal observables: a command that is not enabled is
   deferred (together with the later commands of its thread) and retried after every other step.  If some
   command can never be executed the trace is NOT a run of the model. *)
open C01_model

let ngb_tbl : (int * int, int) Hashtbl.t = Hashtbl.create 64
let ngb sg d = match Hashtbl.find_opt ngb_tbl (sg, d) with Some n when n >= 0 -> Some n | _ -> None

let cap = ref 200 and nthr = ref 1 and nreq = ref 0 and reemit = ref false
let srcs : task list ref = ref []
let nlabels = ref 0
let ndeferred = ref 0
let hist : (string, int) Hashtbl.t = Hashtbl.create 16
let bump k = Hashtbl.replace hist k (1 + (try Hashtbl.find hist k with Not_found -> 0))

let rec take n l = if n <= 0 then [] else match l with [] -> [] | x :: r -> x :: take (n - 1) r
let rec drop n l = if n <= 0 then l else match l with [] -> [] | _ :: r -> drop (n - 1) r

let pc_name = function
  | PStart -> "Start" | PHead None -> "Head(-)" | PHead (Some _) -> "Head(task)" | PIdle -> "Idle" | PIdleFetch -> "IdleFetch"
  | PInner None -> "Inner(-)" | PInner (Some _) -> "Inner(task)" | PEnq _ -> "Enq" | PFetchInner -> "FetchInner" | PCheck1 -> "Check1"
  | PCheck2 _ -> "Check2" | PElse -> "Else" | PExit -> "Exit"

let show_task (q, k) = match k with
  | TSrcD (a, c) -> Printf.sprintf "q%d:D(%d,%d)" q a c | TSrcC (a, c) -> Printf.sprintf "q%d:C(%d,%d)" q a c
  | TFlush b -> Printf.sprintf "q%d:F(%d)" q b | TTrav (a, ps) -> Printf.sprintf "q%d:V(%d,%d)" q a (List.length ps)
  | TReemit (a, ps) -> Printf.sprintf "q%d:R(%d,%d)" q a (List.length ps)

let describe (s : st) =
  Printf.sprintf "[queue: %s] [subgrid locks: %s] [block locks: %s] [pcs: %s] [done %d flag %b]"
    (String.concat " " (List.map show_task (take 16 s.queue)))
    (String.concat "," (List.map string_of_int s.slocks)) (String.concat "," (List.map string_of_int s.blocks))
    (String.concat " " (List.map pc_name s.thr)) s.done0 s.flag

let stp (s : st) name l : st option =
  match step !cap !nthr !nreq !reemit ngb true s l with
  | Some s' -> incr nlabels; bump name; Some s'
  | None -> None

let ( >>= ) o f = match o with Some x -> f x | None -> None

let task_matches ty sg size (k : task) =
  match ty, k with
  | "D", TSrcD (s, c) -> s = sg && c = size
  | "C", TSrcC (b, c) -> b = sg && c = size
  | "F", TFlush b -> b = sg
  | "V", TTrav (s, ps) -> s = sg && List.length ps = size
  | "R", TReemit (s, ps) -> s = sg && List.length ps = size
  | _ -> false

let find_entry_in (s : st) ty sg size shared_only (want : int option) =
  let rec go i = function
    | [] -> None
    | (q, k) :: r ->
        if task_matches ty sg size k && ((not shared_only) || q = 0) && (match want with Some w -> q = w | None -> true) then Some i else go (i + 1) r
  in go 0 s.queue
(* the log names the queue the fetched task was added to: take the entry of that queue when there is one (two tasks for the same
   subgrid with the same number of packets can wait in different queues at the same time) *)
let find_entry_hint (s : st) ty sg size shared_only (hint : int) =
  match (if hint >= 0 then find_entry_in s ty sg size shared_only (Some (hint + 1)) else None) with
  | Some i -> Some i
  | None -> find_entry_in s ty sg size shared_only None
let find_entry (s : st) ty sg size shared_only = find_entry_in s ty sg size shared_only None

let qsel_of (qs : int list) = fun n -> (match List.nth_opt qs n with Some q when q >= 0 -> q | _ -> 9999)
let thr_pc (s : st) t = List.nth s.thr t
let held s t = match thr_pc s t with PInner (Some k) -> Some k | PHead (Some k) -> Some k | _ -> None

let rec enq_all s t = match thr_pc s t with PEnq _ -> (match stp s "Enq" (LEnq t) with Some s' -> enq_all s' t | None -> s) | _ -> s
let rec enq_until s t ty sg size =
  if find_entry s ty sg size false <> None then s
  else match thr_pc s t with PEnq (_ :: _) -> (match stp s "Enq" (LEnq t) with Some s' -> enq_until s' t ty sg size | None -> s) | _ -> s

(* one command: Some state = executed;  None = not (yet) possible *)
let exec (s : st) (w : string list) : st option =
  let i = int_of_string in
  match w with
  | "FETCH" :: t :: kind :: ty :: sg :: size :: hint ->
      let t = i t and kind = i kind and sg = i sg and size = i size in
      let hint = (match hint with [ h ] -> i h | _ -> -1) in
      let s = if kind = 1 && thr_pc s t = PIdle then (match stp s "PrematureSkip" (LPrematureSkip t) with Some s' -> s' | None -> s) else s in
      find_entry_hint s ty sg size (kind = 0) hint >>= fun e -> stp s ("Fetch" ^ ty) (LFetch (t, e))
  | [ "FETCHNONE"; t; kind ] ->
      let t = i t and kind = i kind in
      let s = if kind = 1 && thr_pc s t = PIdle then (match stp s "PrematureSkip" (LPrematureSkip t) with Some s' -> s' | None -> s) else s in
      stp s "FetchNone" (LFetchNone t)
  | [ "PREM"; t; sg; d; size ] ->
      let t = i t and sg = i sg and d = i d and size = i size in
      if List.length (aget s.active (sg, d)) <> size then None else stp s "Premature" (LPremature (t, sg, d, 9999))
  | [ "HEAD"; t; expect ] ->
      let t = i t in
      stp s "Head" (LHead t) >>= fun s' ->
      let exited = (thr_pc s' t = PExit) in
      if exited = (expect = "exit") then Some s' else None
  | [ "CHECK"; t; expect ] ->
      let t = i t in
      stp s "Inner" (LInner t) >>= fun s1 -> stp s1 "Check1" (LCheck1 t) >>= fun s2 -> stp s2 "Check2" (LCheck2 t) >>= fun s3 ->
      let cleared = (thr_pc s3 t = PHead None) in
      if cleared = (expect = "clear") then Some s3 else None
  | [ "RUND"; t; q ] ->
      stp s "RunD" (LRun (i t, { r_term = []; r_outs = []; r_dest = []; r_qsel = qsel_of [ i q ] }))
  | "RUNC" :: t :: nd :: rest ->
      let t = i t and nd = i nd in
      let rest = List.map i rest in
      stp s "RunC" (LRun (t, { r_term = []; r_outs = []; r_dest = take nd rest; r_qsel = qsel_of (drop (nd + 1) rest) }))
  | [ "RUNF"; t ] -> stp s "RunF" (LRun (i t, { r_term = []; r_outs = []; r_dest = []; r_qsel = (fun _ -> 9999) }))
  | "RUNT" :: t :: dn :: rest -> (
      let t = i t and dn = i dn in
      let rest = List.map i rest in
      let stored = take 27 rest in
      let qs = drop 28 rest in
      match held s t with
      | Some (TTrav (_, ps)) when List.length ps = dn + List.fold_left ( + ) 0 stored ->
          let term = take dn ps in
          let remaining = ref (drop dn ps) in
          let outs = List.concat (List.mapi (fun d n -> if n > 0 then (let x = take n !remaining in remaining := drop n !remaining; [ (d, x) ]) else []) stored) in
          stp s "RunT" (LRun (t, { r_term = term; r_outs = outs; r_dest = []; r_qsel = qsel_of qs }))
      | _ -> None)
  | [ "RUNR"; t; dropped; kept; q ] -> (
      let t = i t and dropped = i dropped and kept = i kept in
      match held s t with
      | Some (TReemit (_, ps)) when List.length ps = dropped + kept ->
          stp s "RunR" (LRun (t, { r_term = take dropped ps; r_outs = [ (0, drop dropped ps) ]; r_dest = []; r_qsel = qsel_of [ i q ] }))
      | _ -> None)
  | [ "ENQALL"; t ] -> Some (enq_all s (i t))
  | [ "ENQUNTIL"; t; ty; sg; size ] -> Some (enq_until s (i t) ty (i sg) (i size))
  | [ "ENQN"; t; n ] ->
      let rec go s n = if n <= 0 then s else (match thr_pc s (i t) with PEnq (_ :: _) -> (match stp s "Enq" (LEnq (i t)) with Some s' -> go s' (n - 1) | None -> s) | _ -> s) in
      Some (go s (i n))
  | [ "EXPECT_CREATED"; t; n ] -> (match thr_pc s (i t) with PEnq l when List.length l = i n -> Some s | _ -> None)
  | _ -> None

let thread_of w = match w with
  | ("FETCH" | "FETCHNONE" | "PREM" | "HEAD" | "CHECK" | "RUND" | "RUNC" | "RUNF" | "RUNT" | "RUNR" | "ENQALL" | "ENQUNTIL" | "ENQN" | "EXPECT_CREATED") :: t :: _ -> int_of_string t
  | _ -> -1

let () =
  let state : st option ref = ref None in
  let pending : (int, (int * string list) Queue.t) Hashtbl.t = Hashtbl.create 16 in
  let errors = ref [] in
  let lineno = ref 0 in
  let pq t = match Hashtbl.find_opt pending t with Some q -> q | None -> let q = Queue.create () in Hashtbl.replace pending t q; q in
  let rec retry () =
    let progress = ref false in
    Hashtbl.iter (fun _ q ->
        let continue = ref true in
        while !continue && not (Queue.is_empty q) do
          let (_, w) = Queue.peek q in
          match !state with
          | Some s -> (match exec s w with Some s' -> state := Some s'; ignore (Queue.pop q); progress := true | None -> continue := false)
          | None -> continue := false
        done) pending;
    if !progress then retry () in
  (try
     while true do
       let line = input_line stdin in
       incr lineno;
       let w = List.filter (fun s -> s <> "") (String.split_on_char ' ' (String.trim line)) in
       (match w with
        | [ "INIT"; c; n; r; re ] -> cap := int_of_string c; nthr := int_of_string n; nreq := int_of_string r; reemit := (re = "1")
        | "NGB" :: sg :: rest -> List.iteri (fun d n -> Hashtbl.replace ngb_tbl (int_of_string sg, d) (int_of_string n)) rest
        | [ "SRC"; "D"; sg; cnt ] -> srcs := !srcs @ [ TSrcD (int_of_string sg, int_of_string cnt) ]
        | [ "SRC"; "C"; b; cnt ] -> srcs := !srcs @ [ TSrcC (int_of_string b, int_of_string cnt) ]
        | [ "START" ] ->
            let crem = List.fold_left (fun a k -> match k with TSrcC (_, c) -> a + c | _ -> a) 0 !srcs in
            state := Some (init !nthr !srcs crem)
        | [] -> ()
        | [ "END"; dn ] ->
            retry ();
            (match !state with
             | Some s ->
                 Hashtbl.iter (fun t q -> if not (Queue.is_empty q) then begin
                     let (ln, w) = Queue.peek q in
                     errors := Printf.sprintf "line %d: command '%s' of thread %d can never be executed: no interleaving of the logged events is a run of the model; model state %s"
                         ln (String.concat " " w) t (describe s) :: !errors end) pending;
                 if !errors = [] then begin
                   if s.done0 <> int_of_string dn then errors := Printf.sprintf "done counter at iteration end: model %d, real %s" s.done0 dn :: !errors;
                   if s.queue <> [] || s.active <> [] || s.local <> [] || s.slocks <> [] || s.blocks <> [] then
                     errors := Printf.sprintf "model state at iteration end is not clean: %s" (describe s) :: !errors;
                   if List.length s.term <> !nreq then errors := Printf.sprintf "terminated %d of %d requested packets" (List.length s.term) !nreq :: !errors;
                   if List.exists (fun p -> p <> PExit) s.thr then errors := Printf.sprintf "not every thread has left the loop in the model: %s" (describe s) :: !errors
                 end
             | None -> errors := "no START" :: !errors)
        | _ ->
            let t = thread_of w in
            if t < 0 then errors := Printf.sprintf "line %d: unknown command %s" !lineno line :: !errors
            else begin
              let q = pq t in
              if not (Queue.is_empty q) then (Queue.push (!lineno, w) q; incr ndeferred)
              else (match !state with
                  | Some s -> (match exec s w with
                      | Some s' -> state := Some s'; retry ()
                      | None ->
                          (match Sys.getenv_opt "C01_DEBUG_LINE" with
                           | Some l when int_of_string l = !lineno || (int_of_string l < 0 && !ndeferred < - (int_of_string l)) -> Printf.printf "DEBUG line %d '%s' deferred in state %s\n" !lineno (String.concat " " w) (describe s)
                           | _ -> ());
                          Queue.push (!lineno, w) q; incr ndeferred)
                  | None -> errors := "command before START" :: !errors)
            end)
     done
   with End_of_file -> ());
  List.iter (fun e -> Printf.printf "ERR %s\n" e) (List.rev !errors);
  Printf.printf "STATS labels=%d errors=%d deferred=%d" !nlabels (List.length !errors) !ndeferred;
  Hashtbl.iter (fun k v -> Printf.printf " %s=%d" k v) hist;
  print_newline ()
