(* C01: what the model's append_active (coq/Cxx/C01_Defs.v) predicts for one MemorySpace::add_photons call, with packet identities *)
open C01_model
let () =
  try
    while true do
      let w = List.filter (fun s -> s <> "") (String.split_on_char ' ' (String.trim (input_line stdin))) in
      match w with
      | [ "A"; cap; cur; n ] ->
          let cap = int_of_string cap and cur = int_of_string cur and n = int_of_string n in
          let ngb sg d = if sg = 0 && d = 1 then Some 7 else None in
          let ids a k = List.init k (fun i -> a + i) in
          let s0 = init 1 [] 0 in
          let s1 = { s0 with active = [ ((0, 1), ids 0 cur) ] } in
          let (s2, ks) = append_active cap ngb s1 0 1 (ids 1000 n) in
          let act = aget s2.active (0, 1) in
          let pr l = String.concat "" (List.map (fun x -> " " ^ string_of_int x) l) in
          (match ks with
           | [] -> Printf.printf "A %d %d | SAME | TARGET%s | NEWBUF | meta - -\n" cur n (pr act)
           | [ TTrav (_, full) ] -> Printf.printf "A %d %d | NEW | TARGET%s | NEWBUF%s | meta 17 5\n" cur n (pr full) (pr act)
           | _ -> Printf.printf "A %d %d | UNEXPECTED\n" cur n)
      | _ -> ()
    done
  with End_of_file -> ()
