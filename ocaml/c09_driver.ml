(* C09 model driver: same line protocol as harness/c09/codec_harness.cpp (E / D / Z) plus
   F <n bits> <side bits>  -> cell_size, inv_ctor, inv_restart as bit patterns (defect D3) *)
open C09_model

let byte_of_int (i : int) : byte = (Obj.magic (i land 255) : byte)   (* constant constructors X00..Xff are numbered in order *)
let int_of_byte (b : byte) : int = (Obj.magic b : int)
let rec nat_of_int i = if i <= 0 then O else S (nat_of_int (i - 1))

let bytes_of_hex (h : string) : byte list =
  let n = String.length h / 2 in
  List.init n (fun i -> byte_of_int (int_of_string ("0x" ^ String.sub h (2 * i) 2)))

let hex_of_bytes (l : byte list) : string = String.concat "" (List.map (fun b -> Printf.sprintf "%02x" (int_of_byte b)) l)

(* big endian hex value of 2w digits <-> N through the model's own little endian functions *)
let n_of_hexval (h : string) : n = le_decode (List.rev (bytes_of_hex (if String.length h mod 2 = 1 then "0" ^ h else h)))
let hexval_of_n (w : int) (x : n) : string = hex_of_bytes (List.rev (le_encode (nat_of_int w) x))

let szw = nat_of_int 8

let split_colon tok =
  match String.index_opt tok ':' with
  | Some i -> (String.sub tok 0 i, String.sub tok (i + 1) (String.length tok - i - 1))
  | None -> (tok, "")

let ty_of_string = function
  | "b" -> TBool
  | "d" -> TDouble
  | "s" -> TString
  | "m" -> TMap
  | t when String.length t > 1 && t.[0] = 'i' -> TInt (nat_of_int (int_of_string (String.sub t 1 (String.length t - 1))))
  | t when String.length t > 1 && t.[0] = 'r' -> TRaw (nat_of_int (int_of_string (String.sub t 1 (String.length t - 1))))
  | t -> failwith ("type " ^ t)

let val_of_token tok : ty * val0 =
  let t, v = split_colon tok in
  match ty_of_string t with
  | TBool -> (TBool, VBool (v = "1"))
  | TInt w -> (TInt w, VInt (n_of_hexval v))
  | TDouble -> (TDouble, VDouble (n_of_hexval v))
  | TRaw k -> (TRaw k, VRaw (bytes_of_hex v))
  | TString -> (TString, VString (bytes_of_hex v))
  | TMap ->
      let kvs = if v = "" then [] else String.split_on_char ',' v in
      (* the real harness fills a std::map: same insertion semantics as the model's minsert, applied here through
         the model itself would be circular -- the generator only produces key-sorted unique maps for E lines *)
      ( TMap,
        VMap
          (List.map
             (fun kv ->
               match String.index_opt kv '=' with
               | Some i -> (bytes_of_hex (String.sub kv 0 i), bytes_of_hex (String.sub kv (i + 1) (String.length kv - i - 1)))
               | None -> (bytes_of_hex kv, []))
             kvs) )

let rec int_of_nat = function O -> 0 | S n -> 1 + int_of_nat n

let token_of_val (t : ty) (v : val0) : string =
  match (t, v) with
  | TBool, VBool b -> if b then "b:1" else "b:0"
  | TInt w, VInt x -> Printf.sprintf "i%d:%s" (int_of_nat w) (hexval_of_n (int_of_nat w) x)
  | TDouble, VDouble x -> "d:" ^ hexval_of_n 8 x
  | TRaw k, VRaw l -> Printf.sprintf "r%d:%s" (int_of_nat k) (hex_of_bytes l)
  | TString, VString s -> "s:" ^ hex_of_bytes s
  | TMap, VMap m -> "m:" ^ String.concat "," (List.map (fun (k, v) -> hex_of_bytes k ^ "=" ^ hex_of_bytes v) m)
  | _ -> "?"

let fl_of_hex s = Float64.of_float (Int64.float_of_bits (Scanf.sscanf s "%Lx" (fun x -> x)))
let hex_of_fl f = Printf.sprintf "%016Lx" (Int64.bits_of_float (Float64.to_float f))

let () =
  try
    while true do
      let line = input_line stdin in
      match List.filter (fun s -> s <> "") (String.split_on_char ' ' (String.trim line)) with
      | "E" :: toks ->
          let ts = List.map val_of_token toks in
          Printf.printf "E %s\n" (hex_of_bytes (encode_stream szw ts))
      | "D" :: h :: tys -> (
          let tys = List.map ty_of_string tys in
          let bs = if h = "-" then [] else bytes_of_hex h in
          match decode_stream szw tys bs with
          | Some (vs, _) -> Printf.printf "D%s\n" (String.concat "" (List.map2 (fun t v -> " " ^ token_of_val t v) tys vs))
          | None -> print_endline "D none")
      | [ "Z" ] -> Printf.printf "Z %d\n" (int_of_nat szw)
      | [ "F"; n; side ] ->
          let n = fl_of_hex n and side = fl_of_hex side in
          Printf.printf "F %s %s %s %d\n" (hex_of_fl (cell_size n side)) (hex_of_fl (inv_ctor n side)) (hex_of_fl (inv_restart n side))
            (if inv_differs n side then 1 else 0)
      | _ -> print_endline "?"
    done
  with End_of_file -> ()
