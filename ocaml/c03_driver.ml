(* C03 model driver: same line protocol as harness/c03/wiring.cpp
   input line:  nx ny nz px py pz cx cy cz w0 lv[0..N-1] u [lv2[0..N-1] if u = 1] *)
open C03_model

let rec pos_of_int n = if n = 1 then XH else if n land 1 = 1 then XI (pos_of_int (n lsr 1)) else XO (pos_of_int (n lsr 1))
let z_of_int n = if n = 0 then Z0 else if n > 0 then Zpos (pos_of_int n) else Zneg (pos_of_int (-n))
let rec int_of_pos = function XH -> 1 | XO p -> 2 * int_of_pos p | XI p -> 2 * int_of_pos p + 1
let int_of_z = function Z0 -> 0 | Zpos p -> int_of_pos p | Zneg p -> - (int_of_pos p)

let dump l lv w0 tag =
  let n = int_of_z (nsub l) in
  let t = int_of_z (total l lv) in
  let origs = originals l lv in
  Printf.printf "%s N %d T %d NO %d\n" tag n t (List.length origs);
  let ngbs = all_ngbs l lv in
  List.iteri (fun s arr ->
      Printf.printf "S %d O %d :" s (int_of_z (original_of l lv (z_of_int s)));
      List.iter (fun v -> Printf.printf " %d" (int_of_z v)) arr;
      print_newline ()) ngbs;
  for i = 0 to n - 1 do
    match get_copies l lv (z_of_int i) with
    | None -> Printf.printf "C %d none 0\n" i
    | Some (a, b) -> Printf.printf "C %d %d %d\n" i (int_of_z a) (int_of_z b)
  done;
  let cs = calls l lv in
  let w s = let s = int_of_z s in z_of_int (w0 + s * (s + 3)) in
  let h s = let s = int_of_z s in z_of_int (2 * (w0 + s * (s + 3)) + 1) in
  let fw = apply_fold cs w and fh = apply_fold cs h in
  let line name f = print_string name; for s = 0 to t - 1 do Printf.printf " %d" (f s) done; print_newline () in
  line "F" (fun s -> int_of_z (fw (z_of_int s)));
  line "H" (fun s -> int_of_z (fh (z_of_int s)));
  (* push: state = provenance index, counters = the folded ones *)
  let (st, cw) = apply_push cs ((fun s -> s), fw) in
  let (_, ch) = apply_push cs ((fun s -> s), fh) in
  let prov s = int_of_z (st (z_of_int s)) in
  line "PX" (fun s -> w0 + 2 * prov s + 1);
  line "PN" (fun s -> w0 + 3 * prov s + 2);
  line "PT" (fun s -> 5 * prov s + 7);
  line "PJ" (fun s -> int_of_z (cw (z_of_int s)));
  line "PH" (fun s -> int_of_z (ch (z_of_int s)))

let () =
  try
    while true do
      let line = input_line stdin in
      let toks = List.filter (fun s -> s <> "") (String.split_on_char ' ' (String.trim line)) in
      let a = Array.of_list (List.map int_of_string toks) in
      if Array.length a >= 10 then begin
        let nx = a.(0) and ny = a.(1) and nz = a.(2) in
        let n = nx * ny * nz in
        let l = { nx = z_of_int nx; ny = z_of_int ny; nz = z_of_int nz; px = a.(3) <> 0; py = a.(4) <> 0; pz = a.(5) <> 0;
                  cx = z_of_int a.(6); cy = z_of_int a.(7); cz = z_of_int a.(8) } in
        let w0 = a.(9) in
        let lv = List.init n (fun i -> z_of_int a.(10 + i)) in
        Printf.printf "CASE %d %d %d %d %d %d %d %d %d %d\n" nx ny nz a.(3) a.(4) a.(5) a.(6) a.(7) a.(8) w0;
        dump l lv w0 "A";
        let u = if Array.length a > 10 + n then a.(10 + n) else 0 in
        if u <> 0 then begin
          let lv2 = List.init n (fun i -> z_of_int a.(11 + n + i)) in
          dump l lv2 (w0 + 1) "U"
        end;
        flush stdout
      end
    done
  with End_of_file -> ()
