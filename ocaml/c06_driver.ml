(* C06 model driver: same line protocol as harness/c06/ionization_harness.cpp.
   argv: d6_pinned d6t_pinned d9_pinned (0/1)  <harness exe>
   The harness exe is started as the ORACLE process: it answers the questions that are
   parameters of the model (rates at a temperature: R; the cooling/heating balance of the
   temperature loop: OT/B/F).  pow/exp/log are OCaml's Float.pow/exp/log (glibc libm). *)
open C06_model

let fl_of_hex s = Float64.of_float (Int64.float_of_bits (Scanf.sscanf s "%Lx" (fun x -> x)))
let hex_of_fl f = Printf.sprintf "%016Lx" (Int64.bits_of_float (Float64.to_float f))
let tf = Float64.to_float
let ff = Float64.of_float
let ops = oF (fun x y -> ff (Float.pow (tf x) (tf y))) (fun x -> ff (Float.exp (tf x))) (fun x -> ff (Float.log (tf x)))

let rec int_of_nat = function O -> 0 | S n -> 1 + int_of_nat n
let rec nat_of_int n = if n <= 0 then O else S (nat_of_int (n - 1))

let ion_index = function
  | H_n -> 0 | He_n -> 1 | C_p1 -> 2 | C_p2 -> 3 | N_n -> 4 | N_p1 -> 5 | N_p2 -> 6 | O_n -> 7 | O_p1 -> 8
  | Ne_n -> 9 | Ne_p1 -> 10 | S_p1 -> 11 | S_p2 -> 12 | S_p3 -> 13

let oracle_in = ref stdin
let oracle_out = ref stdout
let have_oracle = ref false

let ask (q : string) : string list =
  if not !have_oracle then failwith "no oracle";
  output_string !oracle_out (q ^ "\n");
  flush !oracle_out;
  let l = input_line !oracle_in in
  String.split_on_char ' ' (String.trim l)

exception Oracle_abort

(* rates at temperature T from the real classes *)
let rates_at (t : string) : Float64.t rates =
  match ask ("R " ^ t) with
  | "R" :: rest when List.length rest = 56 ->
      let a = Array.of_list (List.map fl_of_hex rest) in
      { alpha = (fun i -> a.(ion_index i)); ctrH = (fun i -> a.(14 + ion_index i));
        ctrHe = (fun i -> a.(28 + ion_index i)); ctiH = (fun i -> a.(42 + ion_index i)) }
  | _ -> raise Oracle_abort

let join l = String.concat " " l
let zero = ff 0.0

let () =
  let d6 = Sys.argv.(1) = "1" and d6t = Sys.argv.(2) = "1" and d9 = Sys.argv.(3) = "1" in
  if Array.length Sys.argv > 4 then begin
    let (i, o) = Unix.open_process_args Sys.argv.(4) [| Sys.argv.(4) |] in
    oracle_in := i; oracle_out := o; have_oracle := true
  end;
  let k x = ops.cst x in
  (try
     while true do
       let line = input_line stdin in
       let w = String.split_on_char ' ' (String.trim line) in
       (match w with
       | [ "H"; a; j; n ] ->
           let a = fl_of_hex a and j = fl_of_hex j and n = fl_of_hex n in
           let r = hyd ops d9 a j n in
           let br =
             if not (ops.ltb1 (k K0) j && ops.ltb1 (k K0) n) then "dark"
             else
               let bb = hyd_bb ops a j n in
               let fl = Float64.eq r (k K1em14) in
               if ops.ltb1 bb (k K1em10) then (if fl then "series_floor" else "series")
               else if fl then "exact_floor" else "exact" in
           Printf.printf "H %s # br=%s\n" (hex_of_fl r) br
       | [ "E"; a; ahe; jh; jhe; n; ab; t ] -> (
           let a = fl_of_hex a and ahe = fl_of_hex ahe and jh = fl_of_hex jh and jhe = fl_of_hex jhe
           and n = fl_of_hex n and ab = fl_of_hex ab and t = fl_of_hex t in
           match hhe ops a ahe jh jhe n ab t with
           | HheAbort -> print_endline "E ABORT # br=abort"
           | HheOk (h0, he0, ni) ->
               let weak = ops.ltb1 jh (k K1em20) in
               let che = hhe_che ops ahe jhe n in
               Printf.printf "E %s %s # niter=%d br=%s%s\n" (hex_of_fl h0) (hex_of_fl he0) (int_of_nat ni)
                 (if weak then "weak" else "loop")
                 (if Float64.eq che zero then "_che0" else ""))
       | "M" :: t :: rest when List.length rest = 16 -> (
           try
             let r = rates_at t in
             let v = Array.of_list (List.map fl_of_hex rest) in
             let j i = let x = ion_index i in if x >= 2 then v.(x - 2) else zero in
             let out = metals ops r j v.(12) v.(13) v.(14) v.(15) (fun _ -> zero) in
             Printf.printf "M %s\n" (join (List.map (fun i -> hex_of_fl (out i)) metal_ions))
           with Oracle_abort -> print_endline "M ABORT")
       | "C" :: rest when List.length rest = 21 -> (
           try
             let v = Array.of_list (List.map fl_of_hex rest) in
             let t = List.nth rest 19 in
             let r = rates_at t in
             let mean i = v.(2 + ion_index i) in
             match cell ops d6 d9 r v.(0) v.(1) mean v.(16) v.(17) v.(18) v.(19) v.(20) with
             | CellAbort -> print_endline "C ABORT # br=abort"
             | CellOk (fr, hh, hhe_) ->
                 let jh = ops.mul0 v.(0) v.(2) in
                 let lit = (if d6 then ops.ltb1 (k K0) jh else ops.leb1 (k K1em20) jh) && ops.ltb1 (k K0) v.(18) in
                 let br =
                   if lit then
                     (if Float64.eq v.(20) zero then "lit_H" else if ops.ltb1 jh (k K1em20) then "lit_weak" else "lit_HHe")
                     ^ (if Float64.eq (cell_ne ops v.(18) v.(20) (fr H_n) (fr He_n)) zero then "_ne0" else "")
                   else if ops.ltb1 (k K0) v.(18) then "dark"
                   else "vacuum" in
                 Printf.printf "C %s %s %s # br=%s\n" (join (List.map (fun i -> hex_of_fl (fr i)) all_ions)) (hex_of_fl hh)
                   (hex_of_fl hhe_) br
           with Oracle_abort -> print_endline "C ABORT # br=oracle")
       | "T" :: rest when List.length rest = 35 -> (
           try
             let v = Array.of_list (List.map fl_of_hex rest) in
             (match ask ("OT " ^ join rest) with [ "OT"; "ok" ] -> () | _ -> failwith "oracle setup");
             let r8 = rates_at (hex_of_fl (k K8000)) in
             let ncalls = ref 0 in
             let bal () crfac t =
               incr ncalls;
               match ask ("B " ^ hex_of_fl t ^ " " ^ hex_of_fl crfac) with
               | [ "B"; h0; he0; g; l ] -> ((((fl_of_hex h0, fl_of_hex he0), fl_of_hex g), fl_of_hex l), ())
               | _ -> raise Oracle_abort in
             let eps = v.(0) and maxit = nat_of_int (int_of_float (tf v.(1))) and crfac = v.(3) and crlim = v.(4)
             and tmin = v.(6) and ahe = v.(7) and jfac = v.(13) and hfac = v.(14) in
             let mean i = v.(15 + i) in
             match
               calc_temperature ops d6t bal eps tmin maxit crfac crlim (r8.alpha H_n) (r8.alpha He_n) ahe jfac hfac (mean 0) (mean 1)
                 v.(29) v.(30) v.(31) v.(32) v.(33) ()
             with
             | TAbort -> print_endline "T ABORT # br=abort_pre"
             | TOk (tt, h0, he0, zm, early, hh, hhe_, (), ni) ->
                 let fr =
                   if zm then Array.make 14 zero
                   else
                     match ask "F" with
                     | "F" :: f when List.length f = 14 -> Array.of_list (List.map fl_of_hex f)
                     | _ -> failwith "oracle F" in
                 fr.(0) <- h0;
                 fr.(1) <- he0;
                 let n = int_of_nat ni in
                 let br =
                   if early then "early"
                   else if Float64.eq tt (k K500) then "neutral500"
                   else if Float64.eq tt (k K30000) then "cap30000"
                   else if n >= int_of_nat maxit then "maxit"
                   else "converged" in
                 Printf.printf "T %s %s %s %s # niter=%d calls=%d br=%s%s\n" (hex_of_fl tt)
                   (join (Array.to_list (Array.map hex_of_fl fr)))
                   (hex_of_fl hh) (hex_of_fl hhe_) n !ncalls br (if zm then "_zm" else "")
           with Oracle_abort -> print_endline "T ABORT # br=abort_oracle")
       | [ "" ] -> ()
       | _ -> print_endline ("? " ^ line));
       flush stdout
     done
   with End_of_file -> ())
