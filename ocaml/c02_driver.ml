(* C02 model driver: same line protocol as harness/c02/interact_harness.cpp; runs the extracted
   binary64 instance of the Coq model of DensitySubGrid::interact *)
open C02_model

let rec pos_of_int (n : int) : positive =
  if n = 1 then XH else if n land 1 = 1 then XI (pos_of_int (n lsr 1)) else XO (pos_of_int (n lsr 1))

let z_of_int (n : int) : z = if n = 0 then Z0 else if n > 0 then Zpos (pos_of_int n) else Zneg (pos_of_int (-n))

let rec int_of_pos = function XH -> 1 | XO p -> 2 * int_of_pos p | XI p -> (2 * int_of_pos p) + 1
let int_of_z = function Z0 -> 0 | Zpos p -> int_of_pos p | Zneg p -> -int_of_pos p
let fl_of_hex s = Float64.of_float (Int64.float_of_bits (Scanf.sscanf s "%Lx" (fun x -> x)))
let bits f = Int64.bits_of_float (Float64.to_float f)
let hex_of_fl f = Printf.sprintf "%016Lx" (bits f)

let rec take n l = if n = 0 then [] else match l with [] -> [] | x :: r -> x :: take (n - 1) r
let rec drop n l = if n = 0 then l else match l with [] -> [] | _ :: r -> drop (n - 1) r

let () =
  let blk = ref None in
  let cells = ref [||] in
  let ncell = ref 0 in
  let j0 = ref (Float64.of_float 0.) in
  try
    while true do
      let line = input_line stdin in
      match String.split_on_char ' ' (String.trim line) with
      | "B" :: ax :: ay :: az :: sx :: sy :: sz :: nx :: ny :: nz :: [] ->
          let n = { ix = z_of_int (int_of_string nx); iy = z_of_int (int_of_string ny); iz = z_of_int (int_of_string nz) } in
          let b =
            f_make_block
              { vx = fl_of_hex ax; vy = fl_of_hex ay; vz = fl_of_hex az }
              { vx = fl_of_hex sx; vy = fl_of_hex sy; vz = fl_of_hex sz }
              n
          in
          blk := Some b;
          ncell := int_of_string nx * int_of_string ny * int_of_string nz;
          cells := Array.make !ncell { c_n = Float64.of_float 0.; c_xH = Float64.of_float 0.; c_xHe = Float64.of_float 0. };
          j0 := Float64.of_float 0.;
          Printf.printf "B %d\n" !ncell
      | "F" :: rest ->
          let r = ref rest in
          let i = ref 0 in
          while !i < !ncell do
            (match !r with
            | a :: b :: c :: tl ->
                !cells.(!i) <- { c_n = fl_of_hex a; c_xH = fl_of_hex b; c_xHe = fl_of_hex c };
                r := tl
            | _ -> failwith "F: too few values");
            incr i
          done;
          Printf.printf "F %d\n" !i
      | [ "I"; v ] ->
          j0 := fl_of_hex v;
          print_endline "I"
      | "P" :: input :: px :: py :: pz :: dx :: dy :: dz :: tau :: w :: en :: sgs -> (
          match !blk with
          | None -> print_endline "R noblock"
          | Some b -> (
              let sigma = List.map fl_of_hex sgs in
              let nions = List.length sigma in
              let ph =
                {
                  p_pos = { vx = fl_of_hex px; vy = fl_of_hex py; vz = fl_of_hex pz };
                  p_dir = { vx = fl_of_hex dx; vy = fl_of_hex dy; vz = fl_of_hex dz };
                  p_tau = fl_of_hex tau;
                  p_sigma = sigma;
                  p_energy = fl_of_hex en;
                  p_weight = fl_of_hex w;
                }
              in
              let cellf (c : z) =
                let i = int_of_z c in
                if i >= 0 && i < !ncell then !cells.(i) else failwith "cell index out of range"
              in
              let inz = z_of_int (int_of_string input) in
              let compat = f_input_compatible ph.p_dir inz in
              match f_interact b cellf ph inz with
              | ErrInput -> Printf.printf "R ErrInput # err=input\n"
              | ErrFuel -> Printf.printf "R ErrFuel # err=fuel\n"
              | ErrMask -> Printf.printf "R ErrMask # err=mask\n"
              | Ok r ->
                  let e0 = { e_J = List.init nions (fun _ -> !j0); e_hH = !j0; e_hHe = !j0 } in
                  let store = f_deposit_all ph (fun _ -> e0) r.r_vis in
                  let buf = Buffer.create 256 in
                  let k = ref 0 in
                  let jb = bits !j0 in
                  for c = 0 to !ncell - 1 do
                    let e = store (z_of_int c) in
                    let changed =
                      List.exists (fun x -> not (Int64.equal (bits x) jb)) e.e_J
                      || (not (Int64.equal (bits e.e_hH) jb))
                      || not (Int64.equal (bits e.e_hHe) jb)
                    in
                    if changed then (
                      incr k;
                      Buffer.add_string buf (Printf.sprintf " %d" c);
                      List.iter (fun x -> Buffer.add_string buf (" " ^ hex_of_fl x)) e.e_J;
                      Buffer.add_string buf (" " ^ hex_of_fl e.e_hH);
                      Buffer.add_string buf (" " ^ hex_of_fl e.e_hHe))
                  done;
                  let nvis = List.length r.r_vis in
                  let nzl = List.length (List.filter (fun (_, l) -> Float64.to_float l = 0.) r.r_vis) in
                  let vis =
                    String.concat "," (List.map (fun (c, l) -> Printf.sprintf "%d:%s" (int_of_z c) (hex_of_fl l)) r.r_vis)
                  in
                  Printf.printf "R %d %s %s %s %s %d%s # visits=%d zerolen=%d compat=%b idx=%d,%d,%d vis=%s\n" (int_of_z r.r_out)
                    (hex_of_fl r.r_pos.vx) (hex_of_fl r.r_pos.vy) (hex_of_fl r.r_pos.vz) (hex_of_fl r.r_tau) !k
                    (Buffer.contents buf) nvis nzl compat
                    (int_of_z r.r_fin.m_idx.ix) (int_of_z r.r_fin.m_idx.iy) (int_of_z r.r_fin.m_idx.iz) vis))
      | [ "" ] -> ()
      | _ -> print_endline ("? " ^ line)
    done
  with End_of_file -> ()
