(* C08 model driver: runs the extracted interleaving model on cases read from stdin and prints,
   per step, the atomic operation performed and the complete shared state, in the same canonical
   text as harness/c08/sched_harness.cpp.

   input (one case):
     case <id>
     cfg <nthr> <psize> <cur0> <nlocks> <nctr> <ntasks> <nq> <poolkind>
     task <k> <d0> <d1>            (-1 = no dependency; the locks passed to set_dependency / set_extra_dependency)
     dedup <0|1>                   (optional; 1 = set_extra_dependency as repaired (default), 0 = pinned commit)
     prog <t> <tok> <tok> ...      (client program of thread t)
     qprog <tok> <tok> ...         (optional: the quiescent pool operations of the master thread, in order)
     sched <t> <t> ...             (explicit schedule prefix; may be repeated)
     tail <cap>                    (then round robin over unfinished threads, at most <cap> steps in total)
     end
   program tokens: g getu=G f<n> l<l> t<l> u<n> i<c> p<c> m<c>:<v> a<c>:<v> A<q>:<k> T<q> Y<q> D<k> U<n>
   (f/u/U take the (n mod len)-th element of the thread's held slots / locks / tasks, newest first;
   they are dropped when the thread holds nothing of that kind)
   "|" in a program = barrier (end of a parallel region): the thread waits there.  Whenever every thread
   is idle and stands at a barrier or at the end of its program, the master thread performs the next
   token of qprog (if any is left) - a serial section - and the barriers are released:
     c = clear()   k<off> = clear_after(off)   n<t>:<cnt> = get_free_elements(cnt), thread t becomes the holder
   A call whose contract (C08_Defs.qpre: clear_after: off <= size and all slots below off held;
   get_free_elements: empty pool, cnt <= size) does not hold in the current state is skipped.  Output:
     q <text> <ok|skipped> H:<held slots of thread 0, newest first>;<thread 1>;...
   followed by the state line. *)
open C08_model

let rec nat_of_int i = if i <= 0 then O else S (nat_of_int (i - 1))
let rec int_of_nat = function O -> 0 | S k -> 1 + int_of_nat k
let rec pos_of_int i = if i = 1 then XH else if i land 1 = 1 then XI (pos_of_int (i lsr 1)) else XO (pos_of_int (i lsr 1))
let n_of_int i : n = if i = 0 then N0 else Npos (pos_of_int i)
let ten = n_of_int 10
let n_of_string (s : string) : n =
  let r = ref N0 in
  String.iter (fun c -> r := N.add (N.mul !r ten) (n_of_int (Char.code c - 48))) s;
  !r
let rec int_of_pos = function XH -> 1 | XO p -> 2 * int_of_pos p | XI p -> 2 * int_of_pos p + 1
let int_of_n = function N0 -> 0 | Npos p -> int_of_pos p
let rec string_of_n (v : n) : string =
  match v with
  | N0 -> "0"
  | _ ->
      let q = N.div v ten and r = int_of_n (N.modulo v ten) in
      (match q with N0 -> "" | _ -> string_of_n q) ^ string_of_int r

let opt_of_int d = if d < 0 then None else Some (nat_of_int d)

type case = {
  mutable k_nthr : int; mutable k_psz : int; mutable k_cur : n; mutable k_nlocks : int; mutable k_nctr : int;
  mutable k_ntasks : int; mutable k_nq : int; mutable k_kind : int;
  mutable k_tasks : (int * int * int) list; mutable k_progs : (int * string list) list;
  mutable k_sched : int list; mutable k_cap : int; mutable k_dedup : bool; mutable k_qprog : string list }

let fresh () = { k_nthr = 0; k_psz = 1; k_cur = N0; k_nlocks = 0; k_nctr = 0; k_ntasks = 0; k_nq = 0; k_kind = 0; k_tasks = []; k_progs = []; k_sched = []; k_cap = 0; k_dedup = true; k_qprog = [] }

let split_colon s = match String.split_on_char ':' s with [ a; b ] -> (a, b) | _ -> failwith ("bad token " ^ s)
let tail s = String.sub s 1 (String.length s - 1)

(* next operation of an idle thread: drops tokens that are not applicable *)
type next = Finished | Barrier of string list | Op of op * string * string list

let rec peek (ts : tstate) (toks : string list) : next =
  match toks with
  | [] -> Finished
  | "|" :: _ -> Barrier toks
  | tok :: rest -> (
      let pick l n = match l with [] -> None | _ -> Some (List.nth l (n mod List.length l)) in
      let a = tail tok in
      let r =
        match tok.[0] with
        | 'g' -> Some (OGet, "get")
        | 'G' -> Some (OGetU, "getu")
        | 'f' -> ( match pick ts.held (int_of_string a) with None -> None | Some i -> Some (OFree i, "free:" ^ string_of_int (int_of_nat i)))
        | 'l' -> Some (OLock (nat_of_int (int_of_string a)), "lock:" ^ a)
        | 't' -> Some (OTryLock (nat_of_int (int_of_string a)), "trylock:" ^ a)
        | 'u' -> ( match pick ts.hlocks (int_of_string a) with None -> None | Some l -> Some (OUnlock l, "unlock:" ^ string_of_int (int_of_nat l)))
        | 'i' -> Some (OPreInc (nat_of_int (int_of_string a)), "preinc:" ^ a)
        | 'p' -> Some (OPostInc (nat_of_int (int_of_string a)), "postinc:" ^ a)
        | 'm' -> let c, v = split_colon a in Some (OMax (nat_of_int (int_of_string c), n_of_string v), "max:" ^ c ^ ":" ^ v)
        | 'a' -> let c, v = split_colon a in Some (OLFAdd (nat_of_int (int_of_string c), n_of_string v), "lfadd:" ^ c ^ ":" ^ v)
        | 'A' -> let q, k = split_colon a in Some (OAddTask (nat_of_int (int_of_string q), nat_of_int (int_of_string k)), "add:" ^ q ^ ":" ^ k)
        | 'T' -> Some (OGetTask (nat_of_int (int_of_string a)), "gettask:" ^ a)
        | 'Y' -> Some (OTryGetTask (nat_of_int (int_of_string a)), "trygettask:" ^ a)
        | 'D' -> Some (OLockDep (nat_of_int (int_of_string a)), "lockdep:" ^ a)
        | 'U' -> ( match pick ts.htasks (int_of_string a) with None -> None | Some k -> Some (OUnlockDep k, "unlockdep:" ^ string_of_int (int_of_nat k)))
        | _ -> failwith ("bad token " ^ tok)
      in
      match r with None -> peek ts rest | Some (o, txt) -> Op (o, txt, rest))

(* a quiescent operation of the master thread *)
let qop_of_token (tok : string) : qop * string =
  let a = tail tok in
  match tok.[0] with
  | 'c' -> (QClear, "clear")
  | 'k' -> (QClearAfter (nat_of_int (int_of_string a)), "clear_after:" ^ a)
  | 'n' -> let t, n = split_colon a in (QGetN (nat_of_int (int_of_string t), nat_of_int (int_of_string n)), "get_free_elements:" ^ t ^ ":" ^ n)
  | _ -> failwith ("bad quiescent token " ^ tok)

let aop_name = function
  | AStart -> "start" | ASkip -> "skip" | ALoad -> "load" | ACasLock -> "cas_lock" | ACasUnlock -> "cas_unlock"
  | APostInc -> "post_increment" | APreInc -> "pre_increment" | APreDec -> "pre_decrement" | AMaxLoad -> "max_load"
  | AMaxCas -> "max_cas" | ALfLoad -> "lf_load" | ALfCas -> "lf_cas"

let obj_name = function
  | BNone -> "-" | BFlag i -> "flag:" ^ string_of_int (int_of_nat i) | BCursor -> "cursor" | BTaken -> "taken"
  | BMaxTaken -> "maxtaken" | BTotal -> "total" | BLock l -> "lock:" ^ string_of_int (int_of_nat l)
  | BQLock q -> "qlock:" ^ string_of_int (int_of_nat q) | BCtr c -> "ctr:" ^ string_of_int (int_of_nat c)
  | BLfc c -> "lfc:" ^ string_of_int (int_of_nat c)
  | BMx c -> "mx:" ^ string_of_int (int_of_nat c)

let ret_name psz = function
  | RUnit -> "-"
  | RNat i -> string_of_int (int_of_nat i)
  | RVal v -> string_of_n v
  | RBool b -> if b then "1" else "0"
  | RTask None -> "none"
  | RTask (Some k) -> string_of_int (int_of_nat k)

let range n = List.init n (fun i -> i)
let bit o = match o with None -> "0" | Some _ -> "1"

let state_line (c : case) (s : sys) : string =
  let b = Buffer.create 128 in
  Buffer.add_string b "= F:";
  List.iter (fun i -> Buffer.add_string b (bit (s.flags (nat_of_int i)))) (range c.k_psz);
  Buffer.add_string b (" C:" ^ string_of_n s.cursor ^ " N:" ^ string_of_n s.taken ^ " M:" ^ string_of_n s.maxtaken ^ " T:" ^ string_of_n s.total);
  Buffer.add_string b " L:";
  List.iter (fun i -> Buffer.add_string b (bit (s.locks (nat_of_int i)))) (range c.k_nlocks);
  Buffer.add_string b " X:";
  Buffer.add_string b (String.concat "," (List.map (fun i -> string_of_n (s.ctr (nat_of_int i))) (range c.k_nctr)));
  Buffer.add_string b " Y:";
  Buffer.add_string b (String.concat "," (List.map (fun i -> string_of_n (s.lfc (nat_of_int i))) (range c.k_nctr)));
  Buffer.add_string b " Z:";
  Buffer.add_string b (String.concat "," (List.map (fun i -> string_of_n (s.mxv (nat_of_int i))) (range c.k_nctr)));
  Buffer.add_string b " Q:";
  Buffer.add_string b
    (String.concat ";"
       (List.map
          (fun i ->
            let q = s.queues (nat_of_int i) in
            bit q.qlk ^ ":" ^ String.concat "," (List.map (fun k -> string_of_int (int_of_nat k)) q.qitems))
          (range c.k_nq)));
  Buffer.add_string b " I:";
  List.iter (fun t -> Buffer.add_string b (match (s.thr (nat_of_int t)).tpc with Idle -> "1" | _ -> "0")) (range c.k_nthr);
  Buffer.contents b

let run_case (id : string) (c : case) =
  let d0 = Array.make (max c.k_ntasks 1) (-1) and d1 = Array.make (max c.k_ntasks 1) (-1) in
  List.iter (fun (k, a, b) -> d0.(k) <- a; d1.(k) <- b) c.k_tasks;
  let look arr k = let k = int_of_nat k in if k < c.k_ntasks then opt_of_int arr.(k) else None in
  let cfg = { nthr = nat_of_int c.k_nthr; psize = nat_of_int c.k_psz; dep0 = look d0; xdep1 = look d1; dedup = c.k_dedup; cur0 = c.k_cur;
              ctr0 = (fun _ -> N0); lfc0 = (fun _ -> N0); mx0 = (fun _ -> N0) } in
  let progs = Array.make (max c.k_nthr 1) [] in
  List.iter (fun (t, p) -> if t < c.k_nthr then progs.(t) <- p) c.k_progs;
  let s = ref (init cfg) in
  let steps = ref 0 in
  let qprog = ref c.k_qprog in
  Printf.printf "case %s\n%s\n" id (state_line c !s);
  (* returns true if thread t made a step *)
  let step_thread t =
    let ts = !s.thr (nat_of_int t) in
    let go o txt =
      if not (wf_choice !s (nat_of_int t) o) then Printf.printf "! contract violated by the client program\n";
      let s', e = step cfg !s (nat_of_int t) o in
      s := s';
      incr steps;
      let name = aop_name e.e_aop in
      let objn = match txt with Some x -> x | None -> obj_name e.e_obj in
      Printf.printf "s %d %s %s %s %s%s\n%s\n" t name objn (string_of_n e.e_before) (string_of_n e.e_after)
        (match e.e_ret with None -> "" | Some (_, r) -> " ret " ^ ret_name c.k_psz r)
        (state_line c s')
    in
    match ts.tpc with
    | Idle -> (
        match peek ts progs.(t) with
        | Finished -> progs.(t) <- []; false
        | Barrier rest -> progs.(t) <- rest; false
        | Op (o, txt, rest) -> progs.(t) <- rest; go o (Some txt); true)
    | _ -> go OGet None; true
  in
  (* serial section: every thread idle and at a barrier or finished *)
  let maybe_serial () =
    if !steps >= c.k_cap then false
    else begin
      let st = List.map (fun t -> let ts = !s.thr (nat_of_int t) in
                                  match ts.tpc with Idle -> peek ts progs.(t) | _ -> Op (OGet, "", [])) (range c.k_nthr) in
      let waiting = List.for_all (fun x -> match x with Op _ -> false | _ -> true) st in
      let at_barrier = List.exists (fun x -> match x with Barrier _ -> true | _ -> false) st in
      if not waiting || not (at_barrier || !qprog <> []) then false
      else begin
        (match !qprog with
         | [] -> ()
         | tok :: rest ->
             qprog := rest;
             let q, txt = qop_of_token tok in
             let ok = qpre_b cfg !s q in
             if ok then s := qexec cfg !s q;
             let hl = String.concat ";" (List.map (fun t -> String.concat "," (List.map (fun i -> string_of_int (int_of_nat i)) (!s.thr (nat_of_int t)).held)) (range c.k_nthr)) in
             Printf.printf "q %s %s H:%s\n%s\n" txt (if ok then "ok" else "skipped") hl (state_line c !s));
        List.iteri (fun t x -> match x with Barrier rest -> progs.(t) <- List.tl rest | Finished -> progs.(t) <- [] | _ -> ()) st;
        true
      end
    end
  in
  List.iter (fun t -> while maybe_serial () do () done; if t >= 0 && t < c.k_nthr && !steps < c.k_cap then ignore (step_thread t)) c.k_sched;
  let progress = ref true in
  while !progress && !steps < c.k_cap do
    progress := false;
    if maybe_serial () then progress := true;
    List.iter (fun t -> if !steps < c.k_cap then if step_thread t then progress := true) (range c.k_nthr)
  done;
  let unfinished =
    List.exists (fun t -> let ts = !s.thr (nat_of_int t) in ts.tpc <> Idle || (match peek ts progs.(t) with Op _ -> true | _ -> false)) (range c.k_nthr) in
  Printf.printf "end %s steps=%d %s\n" id !steps (if unfinished then "capped" else "complete")

let () =
  let c = ref (fresh ()) and id = ref "" in
  try
    while true do
      let line = input_line stdin in
      match List.filter (fun s -> s <> "") (String.split_on_char ' ' (String.trim line)) with
      | [ "case"; i ] -> c := fresh (); id := i
      | [ "cfg"; a; b; cu; d; e; f; g; h ] ->
          let x = !c in
          x.k_nthr <- int_of_string a; x.k_psz <- int_of_string b; x.k_cur <- n_of_string cu; x.k_nlocks <- int_of_string d;
          x.k_nctr <- int_of_string e; x.k_ntasks <- int_of_string f; x.k_nq <- int_of_string g; x.k_kind <- int_of_string h
      | [ "task"; k; a; b ] -> !c.k_tasks <- (int_of_string k, int_of_string a, int_of_string b) :: !c.k_tasks
      | "prog" :: t :: toks -> !c.k_progs <- (int_of_string t, toks) :: !c.k_progs
      | "qprog" :: toks -> !c.k_qprog <- !c.k_qprog @ toks
      | "sched" :: ts -> !c.k_sched <- !c.k_sched @ List.map int_of_string ts
      | [ "dedup"; b ] -> !c.k_dedup <- (b <> "0")
      | [ "tail"; cap ] -> !c.k_cap <- int_of_string cap
      | [ "end" ] -> run_case !id !c
      | _ -> ()
    done
  with End_of_file -> ()
