(* C20 model driver: same line protocol as harness/c20/roundtrip_harness.cpp
   (commands Y G C V S N as there; W <dict> <used> = used-values form of print_contents + its re-parse)
   snapshot orderings (multi-line answers, closed by a line "e"):
     SW sx sy sz bx by bz   the appends of the task based writer: w <position> <subgrid> <cell> <ix> <iy> <iz>
     SR sx sy sz nx ny nz   the stores of the task based reader:  r <ix> <iy> <iz> <cell_index>
     SL nx ny nz            the appends of the legacy writer:     l <position> <long index> <ix> <iy> <iz> *)
open C20_model

let explode s = List.init (String.length s) (String.get s)
let implode l = String.concat "" (List.map (String.make 1) l)

let hex (l : char list) =
  if l = [] then "-" else String.concat "" (List.map (fun c -> Printf.sprintf "%02x" (Char.code c)) l)

let unhex (h : string) : char list =
  if h = "-" then []
  else List.init (String.length h / 2) (fun i -> Char.chr (int_of_string ("0x" ^ String.sub h (2 * i) 2)))

let rec pos_to_int = function XH -> 1 | XO p -> 2 * pos_to_int p | XI p -> (2 * pos_to_int p) + 1
let z_to_int = function Z0 -> 0 | Zpos p -> pos_to_int p | Zneg p -> -pos_to_int p
let rec pos_of_int n = if n <= 1 then XH else if n land 1 = 0 then XO (pos_of_int (n lsr 1)) else XI (pos_of_int (n lsr 1))
let z_of_int n = if n = 0 then Z0 else if n > 0 then Zpos (pos_of_int n) else Zneg (pos_of_int (-n))
let z3 a b c = ((z_of_int (int_of_string a), z_of_int (int_of_string b)), z_of_int (int_of_string c))
let flat tag rows =
  let b = Buffer.create 65536 in
  List.iter
    (fun row ->
      Buffer.add_string b tag;
      List.iter (fun z -> Buffer.add_char b ' '; Buffer.add_string b (string_of_int (z_to_int z))) row;
      Buffer.add_char b '\n')
    rows;
  Buffer.add_string b "e";
  Buffer.contents b
let rec nat_of_int n = if n <= 0 then O else S (nat_of_int (n - 1))
let fl_of_hex s = Float64.of_float (Int64.float_of_bits (Scanf.sscanf s "%Lx" (fun x -> x)))
let hex_of_fl f = Printf.sprintf "%016Lx" (Int64.bits_of_float (Float64.to_float f))

let dump (d : dict) =
  if d = [] then "-" else String.concat "," (List.map (fun (k, v) -> hex k ^ ":" ^ hex v) d)

let undump (s : string) : dict =
  if s = "-" then []
  else
    List.map
      (fun e -> match String.split_on_char ':' e with [ k; v ] -> (unhex k, unhex v) | _ -> failwith "entry")
      (String.split_on_char ',' s)

(* argv(1): "1" = Unit::operator^= of the pinned commit (exponent 0 keeps the factor), "0" = repaired *)
let pz = Array.length Sys.argv < 2 || Sys.argv.(1) = "1"

let () =
  try
    while true do
      let line = input_line stdin in
      let out =
        match String.split_on_char ' ' (String.trim line) with
        | [ "Y"; h ] -> (
            match parse_text (unhex h) with
            | None -> "Y ERR"
            | Some d ->
                let p = print_text d in
                "Y D=" ^ dump d ^ " P=" ^ hex p ^ " R=" ^ (match parse_text p with None -> "ERR" | Some d2 -> dump d2))
        | [ "W"; ds; us ] ->
            let d = undump ds and u = undump us in
            let p = unlines (print_used u d) in
            "W W=" ^ hex p ^ " R="
            ^ (match parse_text p with None -> "ERR" | Some d2 -> dump d2)
            ^ " E=" ^ dump (used_dict u d)
        | [ "G"; h ] -> (
            match f_get_unit pz (unhex h) with
            | None -> "G ERR"
            | Some u -> "G " ^ hex_of_fl u.uval ^ String.concat "" (List.map (fun e -> " " ^ string_of_int (z_to_int e)) u.uexp))
        | [ "C"; q; b; h ] -> (
            let q = nat_of_int (int_of_string q) in
            match f_to_SI pz q (fl_of_hex b) (unhex h) with
            | None -> "C ERR"
            | Some si -> (
                match f_to_unit pz q si (unhex h) with
                | None -> "C ERR"
                | Some x -> "C " ^ hex_of_fl si ^ " " ^ hex_of_fl x))
        | [ "V"; b; f; t ] -> (
            match f_convert pz (fl_of_hex b) (unhex f) (unhex t) with None -> "V ERR" | Some x -> "V " ^ hex_of_fl x)
        | [ "S"; q ] ->
            let qi = int_of_string q in
            if qi < 0 || qi >= List.length si_names then "S ERR" else "S " ^ hex (si_name (nat_of_int qi))
        | [ "N" ] -> "N " ^ string_of_int (List.length si_names)
        | [ "T" ] ->
            (* the model's unit table: names, and whether its internal relations hold *)
            "T " ^ String.concat "," (List.map (fun (n, _) -> implode n) unit_table) ^ " consistent=" ^ string_of_bool table_consistent
        | [ "SW"; sx; sy; sz; bx; by; bz ] -> flat "w" (wr_entries_flat (z3 sx sy sz) (z3 bx by bz))
        | [ "SR"; sx; sy; sz; nx; ny; nz ] -> flat "r" (rd_entries_flat (z3 sx sy sz) (z3 nx ny nz))
        | [ "SL"; nx; ny; nz ] -> flat "l" (lg_wr_entries_flat (z3 nx ny nz))
        | [ "" ] -> ""
        | _ -> "? " ^ line
      in
      print_endline out
    done
  with End_of_file -> ()
