(* C07 model driver (extracted Coq model: c07_model.ml).
   stdin is a sequence of requests:
     M nx ny nz px py pz          print make_graph / make_slots of the model in the canonical form of the harness
     R nsim seed maxthr           announces that a block of harness output follows (graph / t / slots / ... / end);
                                  at "end" the driver prints, for the REAL dumped table:
         wf <0|1>                        wf_check (extracted) on the real table
         po 1 | po 0 edge t1 t2 s | po 0 phase t k s
                                         phases_ordered_find (extracted) on the real table: the first offender
         replay <ok|none|FAIL ...>       the harness' real-primitive run (sched/events lines) replayed through [step]
         sim <runs> <bad> <steps> <hang> <msg>   nsim random schedules (1..maxthr threads) of the interleaving model on
                                         the real table with dynamic monitors (exactly once, parents first, mutual
                                         exclusion on touched subgrids, counter, completion)
         endr *)
open C07_model

let rec nat_of_int i = if i <= 0 then O else S (nat_of_int (i - 1))
let rec int_of_nat = function O -> 0 | S k -> 1 + int_of_nat k
let rec list_length = function [] -> 0 | _ :: r -> 1 + list_length r

let kind_name = function
  | GI -> "GI" | GN -> "GN" | GB -> "GB" | SL -> "SL" | PP -> "PP"
  | FI -> "FI" | FN -> "FN" | FB -> "FB" | UC -> "UC" | UP -> "UP"
let kind_of_name = function
  | "GI" -> GI | "GN" -> GN | "GB" -> GB | "SL" -> SL | "PP" -> PP
  | "FI" -> FI | "FN" -> FN | "FB" -> FB | "UC" -> UC | "UP" -> UP
  | s -> failwith ("kind " ^ s)
let opt_s = function None -> "-" | Some n -> string_of_int (int_of_nat n)
let opt_of_s s = if s = "-" || s = "?" then None else Some (nat_of_int (int_of_string s))

let words line = List.filter (fun s -> s <> "") (String.split_on_char ' ' (String.trim line))

(* SplitMix64 on OCaml's 63-bit ints is awkward; use Int64 *)
let sm_state = ref 0L
let sm_next () =
  sm_state := Int64.add !sm_state 0x9E3779B97F4A7C15L;
  let z = !sm_state in
  let z = Int64.mul (Int64.logxor z (Int64.shift_right_logical z 30)) 0xBF58476D1CE4E5B9L in
  let z = Int64.mul (Int64.logxor z (Int64.shift_right_logical z 27)) 0x94D049BB133111EBL in
  Int64.logxor z (Int64.shift_right_logical z 31)
let below n = Int64.to_int (Int64.unsigned_rem (sm_next ()) (Int64.of_int n))

let print_model nx ny nz px py pz =
  let y = { lnx = nat_of_int nx; lny = nat_of_int ny; lnz = nat_of_int nz; lpx = px <> 0; lpy = py <> 0; lpz = pz <> 0 } in
  let g = make_graph true y in
  Printf.printf "graph %d %d %d %d %d %d %d\n" nx ny nz px py pz (list_length g);
  List.iteri
    (fun i t ->
      Printf.printf "t %d %s %d %s %s %s %s %d%s\n" i (kind_name t.kind) (int_of_nat t.sub0) (opt_s t.other)
        (opt_s t.dir) (opt_s t.dep0) (opt_s t.dep1) (int_of_nat t.parents0)
        (String.concat "" (List.map (fun c -> " " ^ string_of_int (int_of_nat c)) t.children)))
    g;
  List.iteri
    (fun i sl -> Printf.printf "slots %d%s\n" i (String.concat "" (List.map (fun o -> " " ^ opt_s o) sl)))
    (make_slots true y);
  print_endline "end"

(* ---------------------------------------------------------------- real table *)
type itask = { ik : tkind; isub : int; iother : int option; ichildren : int list; ip0 : int }

let pc_name = function
  | LoopHead -> "LoopHead" | Fetch -> "Fetch" | Run _ -> "Run" | Unlock _ -> "Unlock" | Release _ -> "Release"
  | Enq _ -> "Enq" | Inc _ -> "Inc" | Exited -> "Exited"

exception Bad of string

(* monitors over one run of the model; returns number of steps. raises Bad *)
let run_monitored (g : graph) (ig : itask array) (nthr : int) (next_label : state -> label option) (maxsteps : int) =
  let nt = Array.length ig in
  let started = Array.make nt false and stopped = Array.make nt false in
  let parents = Array.make nt [] in
  Array.iteri (fun p t -> List.iter (fun c -> if c >= 0 && c < nt then parents.(c) <- p :: parents.(c)) t.ichildren) ig;
  let s = ref (init g (nat_of_int nthr)) in
  let loglen = ref 0 in
  let steps = ref 0 in
  let fin = ref false in
  while not !fin do
    match next_label !s with
    | None -> fin := true
    | Some l -> (
        Stdlib.incr steps;
        if !steps > maxsteps then raise (Bad "step cap exceeded");
        match step g !s l with
        | None -> raise (Bad "label not enabled")
        | Some s' ->
            let n' = list_length s'.log in
            if n' > !loglen then begin
              (match s'.log with
              | EStart t :: _ ->
                  let t = int_of_nat t in
                  if t >= nt then raise (Bad (Printf.sprintf "start of unknown task %d" t));
                  if started.(t) then raise (Bad (Printf.sprintf "task %d started twice" t));
                  List.iter
                    (fun p -> if not stopped.(p) then raise (Bad (Printf.sprintf "task %d started before parent %d finished" t p)))
                    parents.(t);
                  started.(t) <- true
              | EStop t :: _ ->
                  let t = int_of_nat t in
                  if stopped.(t) then raise (Bad (Printf.sprintf "task %d stopped twice" t));
                  stopped.(t) <- true
              | [] -> ());
              loglen := n'
            end;
            (* mutual exclusion on touched subgrids *)
            let busy = Hashtbl.create 8 in
            List.iter
              (fun p ->
                match p with
                | Run t | Unlock t ->
                    let t = int_of_nat t in
                    let it = ig.(t) in
                    let tou = it.isub :: (match it.iother with Some o when o <> it.isub -> [ o ] | _ -> []) in
                    List.iter
                      (fun x ->
                        (match Hashtbl.find_opt busy x with
                        | Some u -> raise (Bad (Printf.sprintf "tasks %d and %d run at the same time on subgrid %d" u t x))
                        | None -> ());
                        Hashtbl.add busy x t)
                      tou
                | _ -> ())
              s'.pcs;
            s := s')
  done;
  (!s, !steps, started, stopped)

let all_exited (s : state) = List.for_all (fun p -> p = Exited) s.pcs

let check_final (s : state) stopped =
  if not (all_exited s) then raise (Bad "run ended with threads still in the loop");
  Array.iteri (fun t b -> if not b then raise (Bad (Printf.sprintf "all threads left but task %d never ran" t))) stopped;
  if int_of_nat s.ntasks <> 0 then raise (Bad "number_of_tasks not 0 at the end");
  if s.queue <> [] then raise (Bad "queue not empty at the end");
  if s.held <> [] then raise (Bad "a lock is still held at the end")

(* random scheduler: returns None when all threads exited; raises Bad "hang" when nothing can ever move *)
let random_label (g : graph) (s : state) : label option =
  let alive = List.filter (fun (_, p) -> p <> Exited) (List.mapi (fun i p -> (i, p)) s.pcs) in
  if alive = [] then None
  else begin
    let candidates () = List.filter (fun t -> lock_dep s.held (tk g t) <> None) s.queue in
    let quiet = List.for_all (fun (_, p) -> p = LoopHead || p = Fetch) alive in
    if quiet && int_of_nat s.ntasks > 0 && candidates () = [] then raise (Bad "hang");
    let i, p = List.nth alive (below (List.length alive)) in
    match p with
    | Fetch ->
        let c = candidates () in
        if c = [] || below 6 = 0 then Some (L (nat_of_int i, None))
        else Some (L (nat_of_int i, Some (List.nth c (below (List.length c)))))
    | _ -> Some (L (nat_of_int i, None))
  end

let () =
  let cur : (int * string list) list ref = ref [] in
  (* parsed block *)
  let tasks = ref [] and sched = ref None and events = ref None and params = ref (0, 0, 1) in
  let in_block = ref false in
  (try
     while true do
       let line = input_line stdin in
       match words line with
       | [ "M"; nx; ny; nz; px; py; pz ] ->
           print_model (int_of_string nx) (int_of_string ny) (int_of_string nz) (int_of_string px) (int_of_string py)
             (int_of_string pz)
       | [ "R"; nsim; seed; maxthr ] ->
           params := (int_of_string nsim, int_of_string seed, int_of_string maxthr);
           tasks := [];
           sched := None;
           events := None;
           in_block := true
       | "t" :: id :: k :: sub :: other :: dir :: d0 :: d1 :: p0 :: ch when !in_block ->
           ignore id;
           tasks :=
             ( { kind = kind_of_name k; sub0 = nat_of_int (int_of_string sub); other = opt_of_s other; dir = opt_of_s dir;
                 dep0 = opt_of_s d0; dep1 = opt_of_s d1;
                 children = List.map (fun c -> nat_of_int (int_of_string c)) ch; parents0 = nat_of_int (int_of_string p0) },
               { ik = kind_of_name k; isub = int_of_string sub;
                 iother = (if other = "-" then None else Some (int_of_string other));
                 ichildren = List.map int_of_string ch; ip0 = int_of_string p0 } )
             :: !tasks
       | "sched" :: l when !in_block -> sched := Some l
       | "events" :: l when !in_block -> events := Some l
       | [ "end" ] when !in_block ->
           in_block := false;
           let ts = List.rev !tasks in
           let g : graph = List.map Stdlib.fst ts in
           let ig = Array.of_list (List.map Stdlib.snd ts) in
           Printf.printf "wf %d\n" (if wf_check g then 1 else 0);
           (match phases_ordered_find g with
           | None -> print_endline "po 1"
           | Some (PoMissingEdge (a, b, s)) ->
               Printf.printf "po 0 edge %d %d %d\n" (int_of_nat a) (int_of_nat b) (int_of_nat s)
           | Some (PoEmptyPhase (t, k, s)) ->
               Printf.printf "po 0 phase %d %d %d\n" (int_of_nat t) (int_of_nat k) (int_of_nat s));
           (* replay of the real-primitive run *)
           (match (!sched, !events) with
           | Some sc, Some ev -> (
               let labels =
                 List.map
                   (fun w ->
                     match String.split_on_char ':' w with
                     | [ i; "-" ] -> L (nat_of_int (int_of_string i), None)
                     | [ i; t ] -> L (nat_of_int (int_of_string i), Some (nat_of_int (int_of_string t)))
                     | _ -> failwith "label")
                   sc
               in
               let nthr = 1 + List.fold_left (fun m (L (i, _)) -> Stdlib.max m (int_of_nat i)) 0 labels in
               let rest = ref labels in
               let k = ref 0 in
               try
                 let s, _, _, _ =
                   run_monitored g ig nthr
                     (fun _ ->
                       match !rest with
                       | [] -> None
                       | l :: r ->
                           rest := r;
                           Stdlib.incr k;
                           Some l)
                     max_int
                 in
                 let mev =
                   List.rev_map (function EStart t -> "+" ^ string_of_int (int_of_nat t) | EStop t -> "-" ^ string_of_int (int_of_nat t)) s.log
                 in
                 if mev <> ev then Printf.printf "replay FAIL event order differs\n"
                 else
                   Printf.printf "replay ok %d %s %d\n" (List.length labels)
                     (if all_exited s then "exited" else "running")
                     (int_of_nat s.ntasks)
               with Bad m -> Printf.printf "replay FAIL at label %d: %s\n" !k m)
           | _ -> print_endline "replay none");
           (* random schedules of the model on the real table *)
           let nsim, seed, maxthr = !params in
           sm_state := Int64.of_int seed;
           let bad = ref 0 and total = ref 0 and hang = ref 0 and msg = ref "" in
           let cap = 2000 * (Array.length ig + 10) in
           for r = 1 to nsim do
             let nthr = 1 + ((r - 1) mod maxthr) in
             try
               let s, st, _, stopped = run_monitored g ig nthr (random_label g) cap in
               total := !total + st;
               check_final s stopped
             with Bad m ->
               if m = "hang" then Stdlib.incr hang
               else begin
                 Stdlib.incr bad;
                 if !msg = "" then msg := Printf.sprintf "threads=%d run=%d: %s" nthr r m
               end
           done;
           Printf.printf "sim %d %d %d %d %s\n" nsim !bad !total !hang !msg;
           print_endline "endr";
           ignore cur
       | _ -> ()
     done
   with End_of_file -> ());
  flush stdout
