(* C11 model driver (binary64 instance of coq/Cxx/C11_Defs.v).
   argv.(1): clamp variant, 1 = fan bases guarded by std::max(0., .), 0 = unguarded
   input lines (doubles as 16 hex digits of the bit pattern):
     S gamma rhoL uL PL rhoR uR PR dxdt   -> flag rho u P # code Pstar ustar guess gbranch nnewton nbrent hit   (or "# vac")
     W gamma rhoL uL PL rhoR uR PR        -> W code Pstar ustar l1 l2 contact r1 r2 shockL shockR gbranch nnewton nbrent hit
                                             V lhead ltail rtail rhead      (vacuum generation / vacuum input)
     P gamma rhoL uL PL rhoR uR PR Plow Phigh -> guess f(Plow) f(Phigh) f'(Plow) f'(Phigh) | b nbrent hit   (or "| ERR") *)
open C11_model

let fl s = Float64.of_float (Int64.float_of_bits (Scanf.sscanf s "%Lx" (fun x -> x)))
let hx f = Printf.sprintf "%016Lx" (Int64.bits_of_float (Float64.to_float f))
let pw a b = Float64.of_float (Float.pow (Float64.to_float a) (Float64.to_float b))
let rec int_of_pos = function XH -> 1 | XO p -> 2 * int_of_pos p | XI p -> 2 * int_of_pos p + 1
let int_of_z = function Z0 -> 0 | Zpos p -> int_of_pos p | Zneg p -> - (int_of_pos p)
(* decimal constant m * 10^e, correctly rounded (strtod) *)
let cst m e = Float64.of_float (float_of_string (Printf.sprintf "%de%d" (int_of_z m) (int_of_z e)))
let rec nat_of_int n acc = if n = 0 then acc else nat_of_int (n - 1) (S acc)
let bfuel = nat_of_int 10000 O      (* while (itcount < 1e4 ...) *)
let nfuel = nat_of_int 100000 O     (* the Newton loop has no bound in the source; out of fuel is reported as code 98 *)
let b01 b = if b then 1 else 0

let star_txt st =
  Printf.sprintf "%d %s %s %s %d %d %d %d" (int_of_z st.st_code) (hx st.st_P) (hx st.st_u) (hx st.st_guess)
    (int_of_z st.st_guess_branch) (int_of_z st.st_newton) (int_of_z st.st_brent) (b01 st.st_brent_bound_hit)

let clamp = Array.length Sys.argv > 1 && Sys.argv.(1) = "1"

let () =
  try
    while true do
      let line = input_line stdin in
      let w = Array.of_list (List.filter (fun s -> s <> "") (String.split_on_char ' ' (String.trim line))) in
      let n = Array.length w in
      if n >= 8 then begin
        let c = f_xconsts pw cst (fl w.(1)) in
        let rhoL = fl w.(2) and uL = fl w.(3) and pL = fl w.(4) and rhoR = fl w.(5) and uR = fl w.(6) and pR = fl w.(7) in
        match w.(0) with
        | "S" when n >= 9 ->
          let ((((flag, r), u), p), st) = f_solve pw cst c clamp nfuel bfuel rhoL uL pL rhoR uR pR (fl w.(8)) in
          Printf.printf "%d %s %s %s # %s\n" (int_of_z flag) (hx r) (hx u) (hx p)
            (match st with None -> "vac" | Some st -> star_txt st)
        | "W" ->
          let (_, st) = f_solve pw cst c clamp nfuel bfuel rhoL uL pL rhoR uR pR (fl "0") in
          (match st with
           | None ->
             let (((a, b), c2), d) = f_vacgen pw cst c rhoL uL pL rhoR uR pR in
             Printf.printf "V %s %s %s %s\n" (hx a) (hx b) (hx c2) (hx d)
           | Some st ->
             let (((((l1, l2), us), r1), r2), (shl, shr)) = f_waves pw cst c st rhoL uL pL rhoR uR pR in
             Printf.printf "W %d %s %s %s %s %s %s %s %d %d %d %d %d %d\n" (int_of_z st.st_code) (hx st.st_P) (hx st.st_u)
               (hx l1) (hx l2) (hx us) (hx r1) (hx r2) (b01 shl) (b01 shr)
               (int_of_z st.st_guess_branch) (int_of_z st.st_newton) (int_of_z st.st_brent) (b01 st.st_brent_bound_hit))
        | "P" when n >= 10 ->
          let (((((g, f1), f2), d1), d2), br) = f_probe pw cst c bfuel rhoL uL pL rhoR uR pR (fl w.(8)) (fl w.(9)) in
          Printf.printf "%s %s %s %s %s | %s\n" (hx g) (hx f1) (hx f2) (hx d1) (hx d2)
            (match br with None -> "ERR" | Some ((b, nb), hit) -> Printf.sprintf "%s %d %d" (hx b) (int_of_z nb) (b01 hit))
        | _ -> print_endline ("? " ^ line)
      end else print_endline ("? " ^ line)
    done
  with End_of_file -> ()
