(* C17 model driver: same line protocol as harness/c17/exact_harness.cpp.
   After " #" the model adds what the real code cannot show: ideal/fixed-width agreement and the class of the input. *)
open C17_model

let z_of_int64u (n : Int64.t) : z =
  if Int64.equal n 0L then Z0
  else
    let rec pos (n : Int64.t) : positive =
      if Int64.equal n 1L then XH
      else
        let h = Int64.shift_right_logical n 1 in
        if Int64.equal (Int64.logand n 1L) 1L then XI (pos h) else XO (pos h)
    in
    Zpos (pos n)

let rec pos_to_int64 = function
  | XH -> 1L
  | XO p -> Int64.shift_left (pos_to_int64 p) 1
  | XI p -> Int64.logor (Int64.shift_left (pos_to_int64 p) 1) 1L

let z_to_int = function Z0 -> 0 | Zpos p -> Int64.to_int (pos_to_int64 p) | Zneg p -> - (Int64.to_int (pos_to_int64 p))
let z_to_u64 = function Z0 -> 0L | Zpos p -> pos_to_int64 p | Zneg _ -> failwith "neg"
let hex s = z_of_int64u (Scanf.sscanf s "%Lx" (fun x -> x))
let pt_of l i = { px = List.nth l (3 * i); py = List.nth l (3 * i + 1); pz = List.nth l (3 * i + 2) }

let () =
  try
    while true do
      let line = input_line stdin in
      match String.split_on_char ' ' (String.trim line) with
      | "O" :: ws when List.length ws = 12 ->
          let l = List.map hex ws in
          let a = pt_of l 0 and b = pt_of l 1 and c = pt_of l 2 and d = pt_of l 3 in
          let ex = orient3d_exact a b c d in
          let f = orient3d_filter a b c d in
          let ad = adaptive_of f (fun () -> ex) in (* = orient3d_adaptive a b c d, without evaluating the determinant twice *)
          let ideal = sign_of (orient_mant orient_det a b c d) in
          let inr = pt_in_rangeb a && pt_in_rangeb b && pt_in_rangeb c && pt_in_rangeb d in
          let dec, fv = match f with Some s -> (1, z_to_int s) | None -> (0, 0) in
          Printf.printf "O %d %d %d %d # ideal=%d inrange=%b\n" (z_to_int ex) (z_to_int ad) dec fv (z_to_int ideal) inr
      | "I" :: ws when List.length ws = 15 ->
          let l = List.map hex ws in
          let a = pt_of l 0 and b = pt_of l 1 and c = pt_of l 2 and d = pt_of l 3 and e = pt_of l 4 in
          let ex = insphere_exact a b c d e in
          let f = insphere_filter_dec a b c d e in
          let ad = adaptive_of f (fun () -> ex) in (* = insphere_adaptive a b c d e *)
          let ideal = sign_of (insphere_mant insphere_det a b c d e) in
          let inr = pt_in_rangeb a && pt_in_rangeb b && pt_in_rangeb c && pt_in_rangeb d && pt_in_rangeb e in
          let dec, fv = match f with Some s -> (1, z_to_int s) | None -> (0, 0) in
          Printf.printf "I %d %d %d %d # ideal=%d inrange=%b\n" (z_to_int ex) (z_to_int ad) dec fv (z_to_int ideal) inr
      | [ "M"; w ] -> Printf.printf "M %Lu\n" (z_to_u64 (get_mantissa (hex w)))
      | [ "" ] -> ()
      | _ -> print_endline ("? " ^ line)
    done
  with End_of_file -> ()
