(* C03 trace model driver: same line protocol as harness/c03/trace_harness.cpp; runs the extracted binary64 instance of
   Cxx/C03_TraceDefs.v (f_trace_packet without copies, f_trace_copies with copies) with the neighbour tables of the
   wiring model of Cxx/C03_Defs.v and the output->input table regenerated from the code (Cxx/C03_Gen.v).
   Extra lines (not printed by the harness, stripped by props/c03.py before the comparison) start with '#':
     #V <n> {sub:cell:length}*n     the update_intensity_counters calls of the whole trace in program order *)
open C03t_model

let rec pos_of_int (n : int) : positive =
  if n = 1 then XH else if n land 1 = 1 then XI (pos_of_int (n lsr 1)) else XO (pos_of_int (n lsr 1))

let z_of_int (n : int) : z = if n = 0 then Z0 else if n > 0 then Zpos (pos_of_int n) else Zneg (pos_of_int (-n))
let rec int_of_pos = function XH -> 1 | XO p -> 2 * int_of_pos p | XI p -> (2 * int_of_pos p) + 1
let int_of_z = function Z0 -> 0 | Zpos p -> int_of_pos p | Zneg p -> -int_of_pos p
let rec nat_of_int n = if n <= 0 then O else S (nat_of_int (n - 1))
let fl_of_hex s = Float64.of_float (Int64.float_of_bits (Scanf.sscanf s "%Lx" (fun x -> x)))
let bits f = Int64.bits_of_float (Float64.to_float f)
let hex_of_fl f = Printf.sprintf "%016Lx" (bits f)
let zero = Float64.of_float 0.
let maxcalls = 1200
let fuelshown = 64

type grid = {
  lay : layout;
  anchor : Float64.t vec;
  sides : Float64.t vec;
  ng : int array; (* global cells per axis *)
  mg : int array; (* subgrids per axis *)
  cg : int array; (* cells per subgrid per axis *)
  mutable cells : Float64.t cellc array; (* global order *)
  mutable lv : z list option;
}

let () =
  let grid = ref None in
  let buf = Buffer.create 65536 in
  let scratch = Buffer.create 1024 in
  let fuel = nat_of_int maxcalls in
  try
    while true do
      let line = input_line stdin in
      (match String.split_on_char ' ' (String.trim line) with
      | [ "G"; ax; ay; az; sx; sy; sz; nx; ny; nz; mx; my; mz; px; py; pz ] ->
          let n = Array.map int_of_string [| nx; ny; nz |] in
          let m = Array.map int_of_string [| mx; my; mz |] in
          let c = Array.init 3 (fun i -> n.(i) / m.(i)) in
          let lay =
            {
              nx = z_of_int m.(0);
              ny = z_of_int m.(1);
              nz = z_of_int m.(2);
              px = px <> "0";
              py = py <> "0";
              pz = pz <> "0";
              cx = z_of_int c.(0);
              cy = z_of_int c.(1);
              cz = z_of_int c.(2);
            }
          in
          let g =
            {
              lay;
              anchor = { vx = fl_of_hex ax; vy = fl_of_hex ay; vz = fl_of_hex az };
              sides = { vx = fl_of_hex sx; vy = fl_of_hex sy; vz = fl_of_hex sz };
              ng = n;
              mg = m;
              cg = c;
              cells = Array.make (n.(0) * n.(1) * n.(2)) { c_n = zero; c_xH = zero; c_xHe = zero };
              lv = None;
            }
          in
          grid := Some g;
          Printf.printf "G %d %d\n" (int_of_z (nsub lay)) (c.(0) * c.(1) * c.(2))
      | "F" :: rest -> (
          match !grid with
          | None -> print_endline "F nogrid"
          | Some g ->
              let r = ref rest in
              let nc = Array.length g.cells in
              for i = 0 to nc - 1 do
                match !r with
                | a :: b :: c :: tl ->
                    g.cells.(i) <- { c_n = fl_of_hex a; c_xH = fl_of_hex b; c_xHe = fl_of_hex c };
                    r := tl
                | _ -> failwith "F: too few values"
              done;
              Printf.printf "F %d\n" nc)
      | "C" :: rest -> (
          match !grid with
          | None -> print_endline "C nogrid"
          | Some g ->
              let lv = List.map (fun x -> z_of_int (int_of_string x)) (List.filter (fun x -> x <> "") rest) in
              g.lv <- Some lv;
              Printf.printf "C %d\n" (int_of_z (total g.lay lv)))
      | "P" :: sel :: px :: py :: pz :: dx :: dy :: dz :: tau :: w :: en :: sgs -> (
          match !grid with
          | None -> print_endline "T nogrid"
          | Some g ->
              let sigma = List.map fl_of_hex sgs in
              let nions = List.length sigma in
              let ph =
                {
                  p_pos = { vx = fl_of_hex px; vy = fl_of_hex py; vz = fl_of_hex pz };
                  p_dir = { vx = fl_of_hex dx; vy = fl_of_hex dy; vz = fl_of_hex dz };
                  p_tau = fl_of_hex tau;
                  p_sigma = sigma;
                  p_energy = fl_of_hex en;
                  p_weight = fl_of_hex w;
                }
              in
              (* contents of cell [cell] (one index within the subgrid) of ORIGINAL subgrid [sub]: global cell order *)
              let c = g.cg and n = g.ng and m = g.mg in
              let cellf (sub : z) (cell : z) =
                let s = int_of_z sub and l = int_of_z cell in
                let jx = s / (m.(1) * m.(2)) and jy = s / m.(2) mod m.(1) and jz = s mod m.(2) in
                let lx = l / (c.(1) * c.(2)) and ly = l / c.(2) mod c.(1) and lz = l mod c.(2) in
                let gc = ((((jx * c.(0)) + lx) * n.(1)) + (jy * c.(1)) + ly) * n.(2) + (jz * c.(2)) + lz in
                if s >= 0 && l >= 0 && gc >= 0 && gc < Array.length g.cells then g.cells.(gc)
                else failwith "cell index out of range"
              in
              let sel = int_of_string sel in
              let start = f_locate g.lay g.anchor g.sides ph.p_pos in
              let ns = int_of_z (nsub g.lay) in
              let s0 = int_of_z start in
              let tr =
                if s0 < 0 || s0 >= ns then { tr_end = EErr; tr_steps = []; tr_pos = ph.p_pos; tr_tau = ph.p_tau }
                else
                  match g.lv with
                  | None -> f_trace_packet g.lay g.anchor g.sides gen_out_to_in cellf fuel ph
                  | Some lv ->
                      let l = int_of_z (List.nth lv s0) in
                      let ncop = (1 lsl l) - 1 in
                      let sub =
                        if sel > 0 && ncop > 0 then z_of_int (int_of_z (first_copy g.lay lv start) + ((sel - 1) mod ncop))
                        else start
                      in
                      f_trace_copies g.lay lv g.anchor g.sides gen_out_to_in cellf fuel sub ph
              in
              Buffer.clear buf;
              let e = match tr.tr_end with EAbsorbed -> "absorbed" | EEscaped -> "escaped" | EFuel -> "fuel" | EErr -> "err" in
              Buffer.add_string buf
                (Printf.sprintf "T %s %d %s %s %s %s\n" e (List.length tr.tr_steps) (hex_of_fl tr.tr_pos.vx) (hex_of_fl tr.tr_pos.vy)
                   (hex_of_fl tr.tr_pos.vz) (hex_of_fl tr.tr_tau));
              (* estimators: deposit the visits of every call, in program order, into a store keyed by (subgrid, cell) *)
              let store : (int * int, Float64.t est) Hashtbl.t = Hashtbl.create 64 in
              let e0 = { e_J = List.init nions (fun _ -> zero); e_hH = zero; e_hHe = zero } in
              let vis = Buffer.create 256 in
              let nvis = ref 0 in
              let ncall = ref 0 in
              let isfuel = tr.tr_end = EFuel in
              List.iter
                (fun st ->
                  let r = st.ts_res in
                  let sub = int_of_z st.ts_sub in
                  let show = (not isfuel) || !ncall < fuelshown in
                  incr ncall;
                  let buf = if show then buf else scratch in
                  Buffer.clear scratch;
                  Buffer.add_string buf
                    (Printf.sprintf "S %d %d %s %s %s %s" sub (int_of_z st.ts_in) (hex_of_fl st.ts_ppos.vx) (hex_of_fl st.ts_ppos.vy)
                       (hex_of_fl st.ts_ppos.vz) (hex_of_fl st.ts_ptau));
                  (match st.ts_start with
                  | Some (p1, i0) ->
                      Buffer.add_string buf
                        (Printf.sprintf " %s %s %s %d %d %d" (hex_of_fl p1.vx) (hex_of_fl p1.vy) (hex_of_fl p1.vz) (int_of_z i0.ix)
                           (int_of_z i0.iy) (int_of_z i0.iz))
                  | None -> Buffer.add_string buf " none");
                  Buffer.add_string buf
                    (Printf.sprintf " %d %s %s %s %s\n" (int_of_z r.r_out) (hex_of_fl r.r_pos.vx) (hex_of_fl r.r_pos.vy)
                       (hex_of_fl r.r_pos.vz) (hex_of_fl r.r_tau));
                  let cur (cz : z) = match Hashtbl.find_opt store (sub, int_of_z cz) with Some x -> x | None -> e0 in
                  let st' = f_deposit_all ph cur r.r_vis in
                  let touched = List.sort_uniq compare (List.map (fun (cz, _) -> int_of_z cz) r.r_vis) in
                  let upd = List.map (fun ci -> (ci, st' (z_of_int ci))) touched in
                  List.iter (fun (ci, x) -> Hashtbl.replace store (sub, ci) x) upd;
                  List.iter
                    (fun (cz, l) ->
                      incr nvis;
                      Buffer.add_string vis (Printf.sprintf " %d:%d:%s" sub (int_of_z cz) (hex_of_fl l)))
                    r.r_vis)
                tr.tr_steps;
              let zb = bits zero in
              let changed x =
                List.exists (fun v -> not (Int64.equal (bits v) zb)) x.e_J
                || (not (Int64.equal (bits x.e_hH) zb))
                || not (Int64.equal (bits x.e_hHe) zb)
              in
              let all = Hashtbl.fold (fun k x acc -> if changed x then (k, x) :: acc else acc) store [] in
              let all = List.sort (fun (a, _) (b, _) -> compare a b) all in
              Buffer.add_string buf (Printf.sprintf "E %d" (List.length all));
              List.iter
                (fun ((s, ci), x) ->
                  Buffer.add_string buf (Printf.sprintf " %d %d" s ci);
                  List.iter (fun v -> Buffer.add_string buf (" " ^ hex_of_fl v)) x.e_J;
                  Buffer.add_string buf (" " ^ hex_of_fl x.e_hH);
                  Buffer.add_string buf (" " ^ hex_of_fl x.e_hHe))
                all;
              Buffer.add_string buf (Printf.sprintf "\n#V %d%s\n" !nvis (Buffer.contents vis));
              print_string (Buffer.contents buf))
      | [ "" ] -> ()
      | _ -> print_endline ("? " ^ line))
    done
  with End_of_file -> ()
