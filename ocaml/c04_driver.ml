(* C04 model driver.
   argv.(1) = "faces": input lines
       L nx ny nz sx sy sz px py pz           -> the visits of the model (same text as harness/c04/faces_harness.cpp, incl. the
                                                   expected geometry codes: distance +h / -h for the negative side, area, slots), END
       K nx ny nz sx sy sz px py pz ; v ; v…  -> CHECK true|false   (faces_once_check on the given visits,
                                                   v = "P a s l t r" or "Q a sgn s l")
   argv.(1) = "cells": the line protocol of harness/c04/cellops_harness.cpp (ops F B U R are modelled; a line with another
       op is answered by "?"); after the cell fields "# tags": which limiter / clamp / branch was taken (coverage only) *)
open C04_model

let fl s = Float64.of_float (Int64.float_of_bits (Scanf.sscanf s "%Lx" (fun x -> x)))
let hx f = Printf.sprintf "%016Lx" (Int64.bits_of_float (Float64.to_float f))
let pw a b = Float64.of_float (Float.pow (Float64.to_float a) (Float64.to_float b))
let cst _ _ = Float64.of_float 0.0
let dblmax = Float64.of_float max_float
let rec pos_of_int n = if n = 1 then XH else if n land 1 = 0 then XO (pos_of_int (n lsr 1)) else XI (pos_of_int (n lsr 1))
let z_of_int n = if n = 0 then Z0 else if n > 0 then Zpos (pos_of_int n) else Zneg (pos_of_int (-n))
let rec int_of_pos = function XH -> 1 | XO p -> 2 * int_of_pos p | XI p -> 2 * int_of_pos p + 1
let int_of_z = function Z0 -> 0 | Zpos p -> int_of_pos p | Zneg p -> - (int_of_pos p)
let toks s = List.filter (fun x -> x <> "") (String.split_on_char ' ' (String.trim s))
let zi s = z_of_int (int_of_string s)

let layout_of w =
  match List.map int_of_string w with
  | [nx; ny; nz; sx; sy; sz; px; py; pz] ->
    { nx = z_of_int nx; ny = z_of_int ny; nz = z_of_int nz; sx = z_of_int sx; sy = z_of_int sy; sz = z_of_int sz;
      px = (px <> 0); py = (py <> 0); pz = (pz <> 0) }, (nx * ny * nz, sx * sy * sz)
  | _ -> failwith "layout"

let print_visit up v =
  match v with
  | VPair (a, s, l, t, r) -> Printf.printf "%s %d %d %d %d %d 0 0 0\n" (if up then "P" else "p") (int_of_z a) (int_of_z s) (int_of_z l) (int_of_z t) (int_of_z r)
  | VGhost (a, sg, s, l) -> Printf.printf "%s %d %d %d %d %d 0 0\n" (if up then "Q" else "q") (int_of_z a) (int_of_z sg) (int_of_z s) (int_of_z l) (if int_of_z sg < 0 then 1 else 0)

let faces_main () =
  try
    while true do
      let line = input_line stdin in
      let grp = String.split_on_char ';' line in
      match toks (List.hd grp) with
      | "L" :: w ->
        let lay, (nc, ns) = layout_of w in
        let vs = global_visits lay in
        (* phase order of a step: gradient sweeps, slope limiter, prediction, flux sweeps, conserved update, primitive update *)
        List.iter (print_visit false) vs;
        let cellwise tag = for s = 0 to ns - 1 do for i = 0 to nc - 1 do Printf.printf "%s %d %d\n" tag s i done done in
        cellwise "S"; cellwise "E";
        List.iter (print_visit true) vs;
        cellwise "R";
        print_endline "END"
      | "K" :: w ->
        let lay, _ = layout_of w in
        let vs = List.filter_map (fun g ->
            match toks g with
            | [("P" | "p"); a; s; l; t; r] -> Some (VPair (zi a, zi s, zi l, zi t, zi r))
            | [("Q" | "q"); a; sg; s; l] -> Some (VGhost (zi a, zi sg, zi s, zi l))
            | [] -> None
            | _ -> failwith "visit") (List.tl grp) in
        Printf.printf "CHECK %b\n" (faces_once_check lay (List.map (gface lay) vs))
      | _ -> print_endline ("? " ^ line)
    done
  with End_of_file -> ()

(* ---- cells ---- *)
let nf = 46
let load (t : string array) : Float64.t cell * (Float64.t * Float64.t) =
  let k = ref 0 in
  let nx () = let v = fl t.(!k) in incr k; v in
  let r5 () = let a = nx () in let b = nx () in let c = nx () in let d = nx () in let e = nx () in { c0 = a; c1 = b; c2 = c; c3 = d; c4 = e } in
  let v3 () = let a = nx () in let b = nx () in let c = nx () in ((a, b), c) in
  let prim = r5 () in let cons = r5 () in let dcons = r5 () in
  let g0 = v3 () in let g1 = v3 () in let g2 = v3 () in let g3 = v3 () in let g4 = v3 () in
  let grav = v3 () in let eterm = nx () in
  let p2 () = let a = nx () in let b = nx () in (a, b) in
  let l0 = p2 () in let l1 = p2 () in let l2 = p2 () in let l3 = p2 () in let l4 = p2 () in
  let tt = nx () in let xh = nx () in
  ({ prim; cons; dcons; grad = { gr0 = g0; gr1 = g1; gr2 = g2; gr3 = g3; gr4 = g4 }; grav; eterm;
     lims = { lm0 = l0; lm1 = l1; lm2 = l2; lm3 = l3; lm4 = l4 } }, (tt, xh))

let dump (c, (tt, xh)) =
  let b = Buffer.create 1024 in
  let put x = Buffer.add_string b (hx x); Buffer.add_char b ' ' in
  let p5 w = put w.c0; put w.c1; put w.c2; put w.c3; put w.c4 in
  let p3 ((x, y), z) = put x; put y; put z in
  let pp (x, y) = put x; put y in
  p5 c.prim; p5 c.cons; p5 c.dcons;
  p3 c.grad.gr0; p3 c.grad.gr1; p3 c.grad.gr2; p3 c.grad.gr3; p3 c.grad.gr4;
  p3 c.grav; put c.eterm;
  pp c.lims.lm0; pp c.lims.lm1; pp c.lims.lm2; pp c.lims.lm3; pp c.lims.lm4;
  put tt; put xh;
  Buffer.contents b

let cells_main () =
  try
    while true do
      let line = input_line stdin in
      let grp = Array.of_list (String.split_on_char ';' line) in
      let h = Array.of_list (toks grp.(0)) in
      let n = int_of_string h.(0) in
      let gamma = fl h.(1) and maxv = fl h.(2) in
      let cells = Array.init n (fun i -> load (Array.of_list (toks grp.(1 + i)))) in
      let ok = ref true in
      let tags = ref [] in
      let tag t = tags := t :: !tags in
      let lt a b = Float64.to_float a < Float64.to_float b in
      for g = 1 + n to Array.length grp - 1 do
        let t = Array.of_list (toks grp.(g)) in
        if Array.length t > 0 then begin
          match t.(0) with
          | "F" ->
            let i = zi t.(1) and l = int_of_string t.(2) and r = int_of_string t.(3) in
            let (f, ff) = f_pair_flux pw cst gamma i (fst cells.(l)) (fst cells.(r)) (fl t.(4)) (fl t.(5)) (fl t.(6)) in
            tag (if lt ff (Float64.of_float 1.0) then "Fff<1" else if Float64.to_float f.c0 = 0.0 then "Fzero" else "Fff=1");
            cells.(l) <- (f_bump pw cst (fst cells.(l)) false f, snd cells.(l));
            cells.(r) <- (f_bump pw cst (fst cells.(r)) true f, snd cells.(r))
          | "B" ->
            let k = zi t.(1) and i = zi t.(2) and l = int_of_string t.(3) in
            let (f, ff) = f_ghost_flux pw cst gamma k i (fst cells.(l)) (fl t.(4)) (fl t.(5)) (fl t.(6)) in
            tag ("B" ^ t.(1) ^ (if lt ff (Float64.of_float 1.0) then "ff<1" else "ff=1"));
            cells.(l) <- (f_bump pw cst (fst cells.(l)) false f, snd cells.(l))
          | "U" ->
            let l = int_of_string t.(1) in
            let c = fst cells.(l) in
            let dtf = Float64.to_float (fl t.(2)) in
            let q0 = Float64.to_float c.cons.c0 +. Float64.to_float c.dcons.c0 *. dtf in
            let c' = f_update pw cst dblmax c (fl t.(2)) in
            tag (if q0 < 0.0 then "UclampM" else if Float64.to_float c'.cons.c4 = 0.0 && Float64.to_float c.cons.c4 <> 0.0 then "UclampE" else "Uplain");
            cells.(l) <- (c', snd cells.(l))
          | "R" ->
            let l = int_of_string t.(1) in
            let (tt, xh) = snd cells.(l) in
            (* _pressure_conversion_factor = k / m_H as computed by the Hydro constructor *)
            let pcf = Float64.of_float (1.38064852e-23 /. 1.672621898e-27) in
            let c' = f_setprim pw cst gamma maxv pcf tt xh (fst cells.(l)) (fl t.(2)) in
            tag (if not (Float64.to_float (fst cells.(l)).cons.c0 > 0.0) then "Rempty" else if Float64.to_float maxv < 1e90 then "Rvlim" else "Rplain");
            cells.(l) <- (c', snd cells.(l))
          | _ -> ok := false
        end
      done;
      if !ok then print_endline (String.concat "" (Array.to_list (Array.map dump cells)) ^ "# " ^ String.concat " " (List.rev !tags)) else print_endline "?"
    done
  with End_of_file -> ()

let () = if Sys.argv.(1) = "faces" then faces_main () else cells_main ()
