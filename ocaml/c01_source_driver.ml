(* C01 source-side model driver: reads the model inputs the harness printed (SRC n c, DRAWS) and prints what the model
   predicts for TOTALS / NBATCH / TASKS / DONE / CONT in the harness' format *)
open C01_source_model

let ints l = List.map int_of_string (List.filter (fun s -> s <> "") l)
let pr tag l = print_string tag; List.iter (fun x -> Printf.printf " %d" x) l; print_newline ()

let () =
  let srcs = ref [] and cap = ref 1 and ncont = ref 0 and nblocks = ref 1 and n = ref 0 in
  try
    while true do
      let w = String.split_on_char ' ' (String.trim (input_line stdin)) in
      match w with
      | "CASE" :: r -> (match ints r with
          | [ _; _; _; nn; c; nc; nb; _ ] -> srcs := []; n := nn; cap := c; ncont := nc; nblocks := nb; print_endline (String.concat " " w)
          | _ -> print_endline "BADCASE")
      | [ "SRC"; a; b ] -> srcs := !srcs @ [ (int_of_string a, int_of_string b) ]; print_endline (String.concat " " w)
      | [ "WRAP" ] -> (match num_overhead !n !srcs with None -> print_endline "WRAP" | Some k -> Printf.printf "NOWRAP %d\n" k)
      | "DRAWS" :: r ->
          let draws = ints r in
          print_endline (String.concat " " w);
          (match num_overhead !n !srcs with
           | None -> print_endline "WRAP"
           | Some k when k <> List.length draws -> Printf.printf "OVERHEAD %d\n" k
           | Some _ ->
               let tot = totals !srcs draws in
               pr "TOTALS" tot;
               pr "NBATCH" (List.map (fun t -> batches t !cap) tot);
               (match rr_loop (!n + 1) !cap !n 0 (List.map (fun _ -> 0) tot) tot with
                | Some ((ts, dn), ds) ->
                    print_string "TASKS"; List.iter (fun (i, k) -> Printf.printf " %d %d" i k) ts; print_newline ();
                    Printf.printf "DONE %d" ds; List.iter (fun x -> Printf.printf " %d" x) dn;
                    let extra = List.fold_left ( + ) 0 (List.map2 (fun d t -> fst (get_batch d t !cap)) dn tot) in
                    Printf.printf " EXTRA %d\n" extra
                | None -> print_endline "TASKS out-of-fuel");
               print_string "CONT"; List.iter (fun (b, k) -> Printf.printf " %d %d" b k) (cont_tasks !ncont !cap !nblocks); print_newline ())
      | _ -> ()
    done
  with End_of_file -> ()
