(* C13 model driver: same line protocol as harness/c13/rng_harness.cpp (without the "G" lines).
   Model numerators n (0 <= n < 2^48) are printed as the bit pattern of the double n * 2^-48
   (exact: n < 2^53 and the scaling is by a power of two). Text after " #" is coverage tagging. *)
open C13_model

let rec pos_of_int (n : int) : positive =
  if n = 1 then XH else if n land 1 = 1 then XI (pos_of_int (n lsr 1)) else XO (pos_of_int (n lsr 1))

let z_of_int (n : int) : z = if n = 0 then Z0 else if n > 0 then Zpos (pos_of_int n) else Zneg (pos_of_int (-n))

(* decimal string of a 64-bit signed integer (int_fast32_t seed) -> Z *)
let z_of_seed (s : string) : z =
  let n = Int64.of_string s in
  let rec pos (n : Int64.t) : positive =
    if Int64.equal n 1L then XH
    else
      let h = Int64.shift_right_logical n 1 in
      if Int64.equal (Int64.logand n 1L) 1L then XI (pos h) else XO (pos h)
  in
  if Int64.equal n 0L then Z0
  else if Int64.compare n 0L > 0 then Zpos (pos n)
  else if Int64.equal n Int64.min_int then Zneg (XO (pos (Int64.shift_right_logical n 1)))
  else Zneg (pos (Int64.neg n))

let rec int_of_pos = function XH -> 1 | XO p -> 2 * int_of_pos p | XI p -> (2 * int_of_pos p) + 1
let int_of_z = function Z0 -> 0 | Zpos p -> int_of_pos p | Zneg p -> -int_of_pos p

let two48 = 281474976710656.0
let hex_of_numer (z : z) : string = Printf.sprintf "%016Lx" (Int64.bits_of_float (float_of_int (int_of_z z) /. two48))

(* bit pattern -> numerator; None when the double is not an integer multiple of 2^-48 below 2^53 *)
let numer_of_hex (s : string) : z option =
  let d = Int64.float_of_bits (Scanf.sscanf s "%Lx" (fun x -> x)) in
  let v = d *. two48 in
  if Float.is_integer v && Float.abs v < 9007199254740992.0 then Some (z_of_int (int_of_float v)) else None

let state_string (s : rg) : string =
  String.concat " " (List.map hex_of_numer s.xdbl)
  ^ Printf.sprintf " %s %d %d %d %d" (hex_of_numer s.carry) (int_of_z s.ir) (int_of_z s.jr) (int_of_z s.ir_old) (int_of_z s.pr)

let word_string = function
  | Wd n -> hex_of_numer n
  | Wu v -> Printf.sprintf "%016x" (int_of_z v)

let () =
  let st = ref (set_seed (z_of_int 42)) in
  let nwf = ref 0 in
  let chk s = if not (wfb s) then incr nwf in
  print_endline "Z 8 8 8";
  (try
     while true do
       let line = input_line stdin in
       match String.split_on_char ' ' (String.trim line) with
       | [ "S"; seed ] ->
           let z = z_of_seed seed in
           st := set_seed z;
           chk !st;
           Printf.printf "S %s # idx=%d\n" (state_string !st) (int_of_z (seed_index z))
       | [ "E"; seed ] ->
           (* re-seeding a used generator: the model's set_seed does not depend on the old state *)
           let z = z_of_seed seed in
           st := set_seed z;
           chk !st;
           Printf.printf "E %s # idx=%d\n" (state_string !st) (int_of_z (seed_index z))
       | "X" :: rest when List.length rest = 17 ->
           let a = Array.of_list rest in
           let ok = ref true in
           let num i = match numer_of_hex a.(i) with Some z -> z | None -> ok := false; Z0 in
           let xs = List.init 12 num in
           let c = num 12 in
           let iz i = z_of_int (int_of_string a.(i)) in
           st := { xdbl = xs; carry = c; ir = iz 13; jr = iz 14; ir_old = iz 15; pr = iz 16 };
           if not !ok then print_endline "X not-a-multiple-of-2^-48"
           else Printf.printf "X %s # wf=%b\n" (state_string !st) (wfb !st)
       | [ op; n ] when op = "D" || op = "I" ->
           let n = int_of_string n in
           let buf = Buffer.create 1024 in
           let refills = Buffer.create 16 in
           for _ = 1 to n do
             let before = !st in
             let v, s' = if op = "D" then next before else next_integer before in
             st := s';
             chk s';
             (* a refill happened iff the draw wrapped onto ir_old *)
             if int_of_z before.ir_old <> int_of_z s'.ir_old || (int_of_z before.ir + 1) mod 12 = int_of_z before.ir_old then
               Buffer.add_string refills (Printf.sprintf "%d," (int_of_z before.ir_old));
             Buffer.add_char buf ' ';
             Buffer.add_string buf (if op = "D" then hex_of_numer v else string_of_int (int_of_z v))
           done;
           Printf.printf "%s%s # refills=%s notwf=%d\n" op (Buffer.contents buf) (Buffer.contents refills) !nwf
       | [ "R" ] ->
           let ws = dump !st in
           Printf.printf "B %s\n" (state_string !st);
           Printf.printf "R %d %s\n" (8 * List.length ws) (String.concat " " (List.map word_string ws));
           (match restore ws with
            | Some s' -> st := s'
            | None -> print_endline "R readfail");
           Printf.printf "T %s\n" (state_string !st)
       | [ "T" ] -> Printf.printf "T %s\n" (state_string !st)
       | [ "" ] -> ()
       | _ -> print_endline ("? " ^ line)
     done
   with End_of_file -> ())
