(* C16 (traversal clauses) model driver: same line protocol as harness/c16/interact_harness.cpp; runs the extracted
   binary64 instances of the Coq models of CartesianDensityGrid::interact and AMRDensityGrid::interact
   (coq/Cxx/C16_InteractDefs.v).  Glue only: parsing, the tree construction from the refinement keys (with the
   extracted C16_Defs.uniform / refine), the nblock / level decomposition of the AMRDensityGrid constructor. *)
open C16i_model

let rec pos_of_int (n : int) : positive =
  if n = 1 then XH else if n land 1 = 1 then XI (pos_of_int (n lsr 1)) else XO (pos_of_int (n lsr 1))

let z_of_int (n : int) : z = if n = 0 then Z0 else if n > 0 then Zpos (pos_of_int n) else Zneg (pos_of_int (-n))
let rec int_of_pos = function XH -> 1 | XO p -> 2 * int_of_pos p | XI p -> (2 * int_of_pos p) + 1
let int_of_z = function Z0 -> 0 | Zpos p -> int_of_pos p | Zneg p -> -int_of_pos p
let fl_of_hex s = Float64.of_float (Int64.float_of_bits (Scanf.sscanf s "%Lx" (fun x -> x)))
let bits f = Int64.bits_of_float (Float64.to_float f)
let hex_of_fl f = Printf.sprintf "%016Lx" (bits f)
let rec nat_of_int n acc = if n = 0 then acc else nat_of_int (n - 1) (S acc)
let fuel = nat_of_int 200000 O
let vec3 a b c = { vx = fl_of_hex a; vy = fl_of_hex b; vz = fl_of_hex c }
let ivec3 a b c = { ix = z_of_int a; iy = z_of_int b; iz = z_of_int c }
let zero_cell = { c_n = Float64.of_float 0.; c_xH = Float64.of_float 0.; c_xHe = Float64.of_float 0. }

let photon_of = function
  | [ px; py; pz; dx; dy; dz; tau; sH; sHe; w; j0 ] ->
      ( { lp_pos = vec3 px py pz; lp_dir = vec3 dx dy dz; lp_sH = fl_of_hex sH; lp_sHe = fl_of_hex sHe; lp_w = fl_of_hex w },
        fl_of_hex tau,
        fl_of_hex j0 )
  | _ -> failwith "photon: 11 values expected"

let rec largest_odd n = if n land 1 = 0 then largest_odd (n lsr 1) else n

(* key -> (block indices, child numbers root first) *)
let unkey (key : int) =
  let block = key lsr 32 in
  let b = ((block land 0x3ff00000) lsr 20, (block land 0x000ffc00) lsr 10, block land 0x3ff) in
  (b, key land 0xffffffff)

let () =
  let cg = ref None in
  let ccells = ref [||] in
  let fl = ref (true, true, true) in
  let abox = ref (vec3 "0" "0" "0", vec3 "0" "0" "0") in
  let an = ref (1, 1, 1) in
  let aper = ref { bx = false; by_ = false; bz = false } in
  let akeys = ref [] in
  let ag = ref None in
  let aleaves = ref [||] in
  let acells : (int, Float64.t cellc) Hashtbl.t = Hashtbl.create 64 in
  try
    while true do
      let line = input_line stdin in
      match String.split_on_char ' ' (String.trim line) with
      | [ "CG"; ax; ay; az; sx; sy; sz; nx; ny; nz; px; py; pz ] ->
          let n = ivec3 (int_of_string nx) (int_of_string ny) (int_of_string nz) in
          let per = { bx = px <> "0"; by_ = py <> "0"; bz = pz <> "0" } in
          cg := Some (f_make_cgrid (vec3 ax ay az) (vec3 sx sy sz) n per);
          let nc = int_of_string nx * int_of_string ny * int_of_string nz in
          ccells := Array.make nc zero_cell;
          Printf.printf "CG %d\n" nc
      | "CD" :: rest ->
          let r = ref rest in
          Array.iteri
            (fun i _ ->
              match !r with
              | a :: b :: c :: tl ->
                  !ccells.(i) <- { c_n = fl_of_hex a; c_xH = fl_of_hex b; c_xHe = fl_of_hex c };
                  r := tl
              | _ -> failwith "CD: too few values")
            !ccells;
          Printf.printf "CD %d\n" (Array.length !ccells)
      | "CP" :: vals -> (
          match !cg with
          | None -> print_endline "CR nogrid"
          | Some g -> (
              let ph, tau, j0 = photon_of vals in
              let nc = Array.length !ccells in
              let cellf (c : z) =
                let i = int_of_z c in
                if i >= 0 && i < nc then !ccells.(i) else zero_cell
              in
              match f_cart_interact fuel g cellf ph tau with
              | CErrFuel -> print_endline "CR ErrFuel # err=fuel"
              | CErrLeaves -> print_endline "CR ErrLeaves # err=leaves"
              | COk r ->
                  let visited = List.sort_uniq compare (List.map (fun (c, _) -> int_of_z c) r.cr_vis) in
                  let buf = Buffer.create 256 in
                  let k = ref 0 in
                  List.iter
                    (fun c ->
                      let j = f_cart_J cellf ph j0 r.cr_vis (z_of_int c) in
                      if not (Int64.equal (bits j) (bits j0)) then (
                        incr k;
                        Buffer.add_string buf (Printf.sprintf " %d %s" c (hex_of_fl j))))
                    visited;
                  let vis = String.concat "," (List.map (fun (c, l) -> Printf.sprintf "%d:%s" (int_of_z c) (hex_of_fl l)) r.cr_vis) in
                  let f = r.cr_fin in
                  Printf.printf "CR %s %s %s %s %d%s # visits=%d idx=%d,%d,%d tau=%s vis=%s\n"
                    (match r.cr_cell with None -> "END" | Some c -> string_of_int (int_of_z c))
                    (hex_of_fl r.cr_pos.vx) (hex_of_fl r.cr_pos.vy) (hex_of_fl r.cr_pos.vz) !k (Buffer.contents buf)
                    (List.length r.cr_vis) (int_of_z f.cs_idx.ix) (int_of_z f.cs_idx.iy) (int_of_z f.cs_idx.iz) (hex_of_fl f.cs_tau) vis))
      | [ "AF"; a; b; c ] ->
          fl := (a <> "0", b <> "0", c <> "0");
          print_endline "AF"
      | [ "AG"; ax; ay; az; sx; sy; sz; nx; ny; nz; px; py; pz ] ->
          abox := (vec3 ax ay az, vec3 sx sy sz);
          an := (int_of_string nx, int_of_string ny, int_of_string nz);
          aper := { bx = px <> "0"; by_ = py <> "0"; bz = pz <> "0" };
          akeys := [];
          print_endline "AG"
      | [ "AR"; key ] ->
          akeys := int_of_string key :: !akeys;
          print_endline "AR"
      | [ "AI" ] ->
          (* AMRDensityGrid constructor: nblock = ncell / (smallest common power of two), level = its exponent *)
          let nx, ny, nz = !an in
          let p2 n = n / largest_odd n in
          let pw = min (p2 nx) (min (p2 ny) (p2 nz)) in
          let bxn, byn, bzn = (nx / pw, ny / pw, nz / pw) in
          let level = ref 0 in
          let q = ref pw in
          while !q > 1 do
            q := !q lsr 1;
            incr level
          done;
          let blocks : (int * int * int, tree) Hashtbl.t = Hashtbl.create 16 in
          for i = 0 to bxn - 1 do
            for j = 0 to byn - 1 do
              for k = 0 to bzn - 1 do
                Hashtbl.replace blocks (i, j, k) (uniform (nat_of_int !level O))
              done
            done
          done;
          (* apply the refinement set until nothing changes (a key only exists once its parent was refined) *)
          let pending = ref (List.rev !akeys) in
          let progress = ref true in
          while !progress && !pending <> [] do
            progress := false;
            pending :=
              List.filter
                (fun key ->
                  let b, ck = unkey key in
                  match Hashtbl.find_opt blocks b with
                  | None -> true
                  | Some t -> (
                      match refine t (z_of_int ck) with
                      | Some (t', _) ->
                          Hashtbl.replace blocks b t';
                          progress := true;
                          false
                      | None -> true))
                !pending
          done;
          let blk x y z =
            match Hashtbl.find_opt blocks (int_of_z x, int_of_z y, int_of_z z) with Some t -> t | None -> Leaf
          in
          let a, s = !abox in
          let g = { ag_anchor = a; ag_sides = s; ag_n = ivec3 bxn byn bzn; ag_per = !aper; ag_blk = blk } in
          ag := Some g;
          let ls = ref [] in
          Hashtbl.iter
            (fun (i, j, k) t ->
              List.iter
                (fun p ->
                  let r = (ivec3 i j k, List.rev p) in
                  ls := (int_of_z (cref_key r), r) :: !ls)
                (leaves t))
            blocks;
          aleaves := Array.of_list (List.sort compare !ls);
          Hashtbl.reset acells;
          Printf.printf "AI %d%s%s\n" (Array.length !aleaves)
            (String.concat "" (Array.to_list (Array.map (fun (k, _) -> " " ^ string_of_int k) !aleaves)))
            (if !pending <> [] then " # unapplied=" ^ string_of_int (List.length !pending) else "")
      | "AD" :: rest ->
          let r = ref rest in
          Array.iter
            (fun (key, _) ->
              match !r with
              | a :: b :: c :: tl ->
                  Hashtbl.replace acells key { c_n = fl_of_hex a; c_xH = fl_of_hex b; c_xHe = fl_of_hex c };
                  r := tl
              | _ -> failwith "AD: too few values")
            !aleaves;
          Printf.printf "AD %d\n" (Array.length !aleaves)
      | "AP" :: vals -> (
          match !ag with
          | None -> print_endline "AQ nogrid"
          | Some g -> (
              let ph, tau, j0 = photon_of vals in
              let cellf (r : cref) = match Hashtbl.find_opt acells (int_of_z (cref_key r)) with Some c -> c | None -> zero_cell in
              let fa, fb, fc = !fl in
              match f_amr_interact fa fb fc fuel g cellf ph tau with
              | AErrFuel -> print_endline "AQ ErrFuel # err=fuel"
              | AOk r ->
                  let keyed = List.map (fun (c, l) -> (int_of_z (cref_key c), c, l)) r.ar_vis in
                  let visited = List.sort_uniq compare (List.map (fun (k, _, _) -> k) keyed) in
                  let buf = Buffer.create 256 in
                  let k = ref 0 in
                  List.iter
                    (fun key ->
                      let j =
                        List.fold_left (fun j (k2, c, l) -> if k2 = key then f_deposit_J ph (cellf c) j l else j) j0 keyed
                      in
                      if not (Int64.equal (bits j) (bits j0)) then (
                        incr k;
                        Buffer.add_string buf (Printf.sprintf " %d %s" key (hex_of_fl j))))
                    visited;
                  let vis = String.concat "," (List.map (fun (k2, _, l) -> Printf.sprintf "%d:%s" k2 (hex_of_fl l)) keyed) in
                  Printf.printf "AQ %s %s %s %s %d%s # visits=%d tau=%s vis=%s\n"
                    (match r.ar_cell with None -> "END" | Some c -> string_of_int (int_of_z (cref_key c)))
                    (hex_of_fl r.ar_pos.vx) (hex_of_fl r.ar_pos.vy) (hex_of_fl r.ar_pos.vz) !k (Buffer.contents buf)
                    (List.length r.ar_vis) (hex_of_fl r.ar_fin.as_tau) vis))
      | [ "" ] -> ()
      | _ -> print_endline ("? " ^ line)
    done
  with End_of_file -> ()
