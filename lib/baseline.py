# ./check --baseline : the repository's pinned suite with the guard OFF (plain /repo/_build)
import os, sys, json, re
import vf

def main():
    b = os.path.join(vf.REPO, "_build")
    if not os.path.exists(os.path.join(b, "build.ninja")):
        rc, out = vf.sh(["cmake", "-G", "Ninja", "-S", vf.REPO, "-B", b, "-DCMAKE_BUILD_TYPE=RelWithDebInfo",
                         "-DCMAKE_CXX_FLAGS_RELWITHDEBINFO=-O2 -g -DNDEBUG -Wno-error"], timeout=900)
        print(out[-1500:])
    rc, out = vf.sh(["ninja", "-k", "0", "-j%d" % vf.NCPU], cwd=b, timeout=7200)
    rc, out = vf.sh(["ninja", "-k", "0", "-j%d" % vf.NCPU, "buildTests"], cwd=b, timeout=7200)
    rc, out = vf.sh(["ctest", "-j8", "--timeout", "900"], cwd=b, timeout=7200)
    passed = set(re.findall(r"Test\s+#\d+:\s+(\S+)\s+\.+\s+Passed", out))
    base = json.load(open("/root/.vp/BASELINE.json"))["stable_pass"] if os.path.exists("/root/.vp/BASELINE.json") else []
    want = set(x.split("::")[0] for x in base)
    missing = sorted(want - passed)
    print("baseline (guard off): %d passed, %d of %d pinned tests pass, missing=%s" % (len(passed), len(want & passed), len(want), missing))
    return 0 if not missing else 1

if __name__ == "__main__":
    sys.exit(main())
