# ./check --setup : build everything the checks share, offline, from files on disk
import os, sys, glob
import vf

def main():
    ok, out = vf.repo_configure()
    if not ok:
        print(out[-3000:]); print("setup: cmake configure of /repo failed"); return 1
    # regenerate all generated Coq inputs (each property module may define regenerate())
    import importlib
    for f in sorted(glob.glob(os.path.join(vf.VERIF, "props", "c[0-9][0-9].py"))):
        m = importlib.import_module(os.path.basename(f)[:-3])
        if hasattr(m, "regenerate"):
            try:
                m.regenerate()
            except Exception as e:
                print("setup: regenerate of %s failed: %r" % (f, e))
    vf.coq_makefile()
    ok, out = vf.coq_make([], timeout=3000)
    print(out[-2000:])
    print("setup: coq build", "OK" if ok else "FAILED (checks will report it)")
    return 0

if __name__ == "__main__":
    sys.exit(main())
