# Common machinery for the CMacIonize Coq verification checks.
# Every check:  regenerate -> prove (full .vo build) -> correspond -> search-on-break
#               -> known findings -> evidence.
import os, sys, json, time, subprocess, shutil, re, fcntl, hashlib, tempfile, atexit

VERIF = os.path.dirname(os.path.dirname(os.path.abspath(__file__)))
REPO = os.environ.get("CMI_REPO", "/repo")
COQ = os.path.join(VERIF, "coq")
BUILD = os.path.join(VERIF, "build")          # git-ignored; rebuilt by setup / on demand
# cmake/ninja build dir of the repo under test with hooks on (one per repo path, so mutation worktrees do not thrash it)
REPOBUILD = os.path.join(BUILD, "repo" if REPO == "/repo" else "repo_" + hashlib.sha256(REPO.encode()).hexdigest()[:10])
GUARD = "CMI_VERIF"
NCPU = os.cpu_count() or 4

FORBIDDEN = re.compile(
    r"\b(Admitted|admit|Axiom|Axioms|Parameter|Parameters|Conjecture|Conjectures|Hypothesis|Hypotheses|Variable|Variables)\b"
    r"|Unset\s+Guard|bypass_check|type-in-type|impredicative-set|Admit\s+Obligations|Unset\s+Universe\s+Checking|Unset\s+Positivity")


def sh(cmd, cwd=None, timeout=None, env=None, input=None, drop_stderr=False):
    """run a command, return (rc, stdout+stderr). rc=124 on timeout."""
    e = dict(os.environ)
    if env:
        e.update(env)
    try:
        p = subprocess.run(cmd, cwd=cwd, shell=isinstance(cmd, str), stdout=subprocess.PIPE,
                           stderr=(subprocess.DEVNULL if drop_stderr else subprocess.STDOUT), timeout=timeout, env=e, input=input,
                           universal_newlines=True, errors="replace")
        return p.returncode, p.stdout
    except subprocess.TimeoutExpired as ex:
        out = ex.stdout or ""
        if isinstance(out, bytes):
            out = out.decode("utf8", "replace")
        return 124, out + "\n[timeout after %ss]" % timeout


class Lock:
    def __init__(self, name):
        os.makedirs(BUILD, exist_ok=True)
        self.path = os.path.join(BUILD, name + ".lock")

    def __enter__(self):
        self.f = open(self.path, "w")
        fcntl.flock(self.f, fcntl.LOCK_EX)
        return self

    def __exit__(self, *a):
        fcntl.flock(self.f, fcntl.LOCK_UN)
        self.f.close()


# ----------------------------------------------------------------------------
# SplitMix64: the single PRNG every generator derives from
class SplitMix64:
    M = (1 << 64) - 1

    def __init__(self, seed):
        self.s = seed & self.M

    def next(self):
        self.s = (self.s + 0x9E3779B97F4A7C15) & self.M
        z = self.s
        z = ((z ^ (z >> 30)) * 0xBF58476D1CE4E5B9) & self.M
        z = ((z ^ (z >> 27)) * 0x94D049BB133111EB) & self.M
        return z ^ (z >> 31)

    def below(self, n):
        return self.next() % n

    def uniform(self):
        return (self.next() >> 11) / float(1 << 53)

    def choice(self, xs):
        return xs[self.below(len(xs))]

    def fork(self, tag):
        h = int(hashlib.sha256(("%d/%s" % (self.s, tag)).encode()).hexdigest()[:16], 16)
        return SplitMix64(h)


def dbl_bits(x):
    import struct
    return struct.unpack("<Q", struct.pack("<d", x))[0]


def bits_dbl(b):
    import struct
    return struct.unpack("<d", struct.pack("<Q", b & ((1 << 64) - 1)))[0]


# ----------------------------------------------------------------------------
# Coq side
def coq_makefile():
    with Lock("coq"):
        cp = os.path.join(COQ, "_CoqProject")
        files = []
        for d in ("Common", "Cxx", "Props"):
            dd = os.path.join(COQ, d)
            if os.path.isdir(dd):
                for f in sorted(os.listdir(dd)):
                    if f.endswith(".v"):
                        files.append(d + "/" + f)
        txt = "-Q . CMI\n-arg -w -arg -notation-overridden,-deprecated-hint-without-locality,-deprecated-instance-without-locality,-ambiguous-paths,-deprecated-hint-rewrite-without-locality\n" + "\n".join(files) + "\n"
        old = open(cp).read() if os.path.exists(cp) else None
        if old != txt or not os.path.exists(os.path.join(COQ, "Makefile")):
            open(cp, "w").write(txt)
            rc, out = sh("coq_makefile -f _CoqProject -o Makefile", cwd=COQ, timeout=120)
            if rc != 0:
                raise RuntimeError("coq_makefile failed: " + out)


def coq_make(targets, timeout=1500):
    """full .vo build of the given targets (never -vos). returns (ok, log)"""
    coq_makefile()
    with Lock("coq"):
        rc, out = sh(["timeout", str(timeout), "make", "-k", "-j%d" % NCPU] + targets, cwd=COQ, timeout=timeout + 30)
    return rc == 0, out


def write_if_changed(path, txt):
    old = open(path).read() if os.path.exists(path) else None
    if old != txt:
        os.makedirs(os.path.dirname(path), exist_ok=True)
        open(path, "w").write(txt)
        return True
    return False


def coq_forbidden_scan():
    """scan every .v of the development for declared axioms / switched-off checks.
    Variable/Hypothesis are allowed only inside a Section (checked structurally)."""
    bad = []
    for root, _, fs in os.walk(COQ):
        for f in fs:
            if not f.endswith(".v"):
                continue
            p = os.path.join(root, f)
            depth = 0
            incomment = 0
            for ln, line in enumerate(open(p, errors="replace"), 1):
                # strip comments (nesting aware, line granular is enough for our style)
                s = ""
                i = 0
                while i < len(line):
                    if line.startswith("(*", i):
                        incomment += 1
                        i += 2
                    elif line.startswith("*)", i) and incomment > 0:
                        incomment -= 1
                        i += 2
                    else:
                        if incomment == 0:
                            s += line[i]
                        i += 1
                if re.match(r"\s*(Section|Module\s+Type)\b", s):
                    depth += 1
                if re.match(r"\s*End\b", s) and depth > 0:
                    depth -= 1
                for m in FORBIDDEN.finditer(s):
                    w = m.group(0)
                    if w in ("Variable", "Variables", "Hypothesis", "Hypotheses") and depth > 0:
                        continue
                    bad.append("%s:%d: %s" % (os.path.relpath(p, VERIF), ln, w))
    return bad


def coq_props(pid, timeout=900):
    """Build Props/Properties_<pid>.vo (and deps) from scratch-consistent sources, then
    re-run coqc on the property file to collect every Print Assumptions block.
    returns dict(ok, theorems=[names], axioms=sorted list, log, per_theorem)"""
    tgt = "Props/Properties_%s.vo" % pid
    ok, log = coq_make([tgt], timeout=timeout)
    res = {"ok": ok, "log": log, "theorems": [], "axioms": [], "per_theorem": {}, "failed_files": []}
    src = os.path.join(COQ, "Props", "Properties_%s.v" % pid)
    txt = open(src).read()
    res["theorems"] = re.findall(r"^\s*(?:Theorem|Corollary)\s+([A-Za-z0-9_']+)", txt, re.M)
    if not ok:
        res["failed_files"] = sorted(set(re.findall(r'File "\./([^"]+)"', log)))
        return res
    with Lock("coq"):
        rc, out = sh(["timeout", "600", "coqc", "-Q", ".", "CMI", "-w", "none", "Props/Properties_%s.v" % pid], cwd=COQ, timeout=630)
    if rc != 0:
        res["ok"] = False
        res["log"] += "\n" + out
        return res
    # parse Print Assumptions output: sequence of blocks
    printed = re.findall(r"^\s*Print\s+Assumptions\s+([A-Za-z0-9_']+)", txt, re.M)
    blocks = re.split(r"(?m)^(?=Closed under the global context|Axioms:)", out)
    blocks = [b for b in blocks if b.startswith("Closed under") or b.startswith("Axioms:")]
    allax = set()
    for name, b in zip(printed, blocks):
        ax = []
        if b.startswith("Axioms:"):
            for l in b.splitlines()[1:]:
                m = re.match(r"^([A-Za-z_][A-Za-z0-9_'.]*)\s*(:|$)", l)
                if m:
                    ax.append(m.group(1))
        res["per_theorem"][name] = ax
        allax.update(ax)
    res["axioms"] = sorted(allax)
    res["n_printed"] = len(printed)
    res["n_blocks"] = len(blocks)
    if len(printed) != len(blocks) or set(printed) != set(res["theorems"]):
        res["ok"] = False
        res["log"] += "\nPrint Assumptions bookkeeping mismatch: theorems=%s printed=%s blocks=%d" % (res["theorems"], printed, len(blocks))
    return res


def coq_extract(pid, outdir, timeout=600):
    """run Extract/Extract_<pid>.v with cwd=outdir so the extracted .ml/.mli land there"""
    deps = ["Cxx/" + f[:-2] + ".vo" for f in sorted(os.listdir(os.path.join(COQ, "Cxx"))) if f.startswith(pid + "_") and f.endswith(".v")]
    ok, log = coq_make(deps, timeout=timeout)  # ensures deps are built
    if not ok:
        return False, log
    os.makedirs(outdir, exist_ok=True)
    rc, out = sh(["timeout", str(timeout), "coqc", "-Q", COQ, "CMI", "-w", "none", "-o", os.path.join(outdir, "Extract_%s.vo" % pid),
                  os.path.join(COQ, "Extract", "Extract_%s.v" % pid)], cwd=outdir, timeout=timeout + 30)
    return rc == 0, log + out


def ocaml_build(outdir, modules, driver_src, exe, floats=False, timeout=600):
    """modules: extracted module base names (in outdir) in dependency order"""
    shutil.copy(driver_src, os.path.join(outdir, os.path.basename(driver_src)))
    files = []
    for m in modules:
        files += [m + ".mli", m + ".ml"]
    files.append(os.path.basename(driver_src))
    cmd = ["ocamlfind", "ocamlopt", "-O3" if False else "-inline", "100", "-w", "-a"]
    if floats:
        cmd += ["-thread", "-rectypes", "-package", "coq-core.kernel", "-linkpkg"]
    else:
        cmd += ["-package", "str", "-linkpkg"]
    cmd += files + ["-o", exe]
    rc, out = sh(cmd, cwd=outdir, timeout=timeout)
    return rc == 0, out


# ----------------------------------------------------------------------------
# C++ side
def repo_configure():
    """cmake configure of /repo (hooks on) into build/repo; redone when CMake inputs change"""
    with Lock("repo"):
        stamp = os.path.join(REPOBUILD, ".verif_stamp")
        h = hashlib.sha256()
        for rel in ("CMakeLists.txt", "src/CMakeLists.txt", "src/Configuration.hpp.in", "src/ConfigurationInfo.cpp.in"):
            p = os.path.join(REPO, rel)
            if os.path.exists(p):
                h.update(open(p, "rb").read())
        h.update(REPO.encode())
        hv = h.hexdigest()
        if os.path.exists(stamp) and open(stamp).read() == hv and os.path.exists(os.path.join(REPOBUILD, "build.ninja")):
            return True, ""
        shutil.rmtree(REPOBUILD, ignore_errors=True)
        os.makedirs(REPOBUILD)
        rc, out = sh(["cmake", "-G", "Ninja", "-S", REPO, "-B", REPOBUILD, "-DCMAKE_BUILD_TYPE=RelWithDebInfo",
                      "-DCMAKE_CXX_FLAGS=-D%s" % GUARD,
                      "-DCMAKE_CXX_FLAGS_RELWITHDEBINFO=-O2 -g -DNDEBUG -Wno-error"], timeout=600)
        if rc == 0:
            open(stamp, "w").write(hv)
        return rc == 0, out


def repo_ninja(targets, timeout=1500):
    ok, out = repo_configure()
    if not ok:
        return False, out
    with Lock("repo"):
        rc, out2 = sh(["ninja", "-j%d" % NCPU] + targets, cwd=REPOBUILD, timeout=timeout)
    return rc == 0, out + out2


def cxx_flags(openmp=True, opt="-O1"):
    f = ["-std=c++11", opt, "-g0", "-D" + GUARD, "-Wno-deprecated-declarations",
         "-I" + os.path.join(REPO, "src"), "-I" + os.path.join(REPOBUILD, "src"), "-I" + os.path.join(REPOBUILD, "include"),
         "-I/usr/lib/x86_64-linux-gnu/openmpi/include", "-I/usr/lib/x86_64-linux-gnu/openmpi/include/openmpi",
         "-I/usr/include/hdf5/serial", "-I" + os.path.join(VERIF, "harness")]
    if openmp:
        f.append("-fopenmp")
    return f


def cxx_build(src, exe, extra=None, libs=False, openmp=True, opt="-O1", timeout=900):
    ok, out = repo_configure()
    if not ok:
        return False, out
    cmd = ["g++"] + cxx_flags(openmp, opt) + (extra or []) + [src, "-o", exe]
    if libs:
        ok, out = repo_ninja(["SharedEngine"])
        if not ok:
            return False, out
        cmd += [os.path.join(REPOBUILD, "lib", "libSharedEngine.a"), "-lhdf5_serial", "-lmpi_cxx", "-lmpi", "-lcrypto"]
    rc, out = sh(cmd, timeout=timeout)
    return rc == 0, out


# ----------------------------------------------------------------------------
class Check:
    def __init__(self, pid, tier, seed, level):
        self.pid, self.tier, self.seed, self.level = pid, tier, seed, level
        self.t0 = time.time()
        self.rng = SplitMix64(seed)
        self.scratch = tempfile.mkdtemp(prefix="cmi_verif.%s." % pid, dir="/var/tmp")
        atexit.register(lambda: shutil.rmtree(self.scratch, ignore_errors=True))
        self.violations = []      # dicts: key, what, replay, no_input
        self.coverage = {"samples": []}
        self.assumptions = []
        self.notes = []
        self.breaks = []          # names of proof obligations / correspondences that no longer check
        os.makedirs(os.path.join(VERIF, "evidence"), exist_ok=True)
        os.makedirs(os.path.join(VERIF, "replays"), exist_ok=True)

    @property
    def quick(self):
        return self.tier == "quick"

    def log(self, *a):
        print("[%s %6.1fs]" % (self.pid, time.time() - self.t0), *a, flush=True)

    # -- proof step -----------------------------------------------------------
    def prove(self, extra_obligations=0, extra_discharged=0, timeout=900):
        bad = coq_forbidden_scan()
        r = coq_props(self.pid, timeout=timeout)
        self.proof = r
        n = len(r["theorems"])
        cov = self.coverage
        cov["obligations"] = n + extra_obligations
        cov["discharged"] = (n if r["ok"] else 0) + extra_discharged
        cov["checker_cmd"] = "cd /verif/coq && coq_makefile -f _CoqProject -o Makefile && make -k -j16 Props/Properties_%s.vo  (Coq 8.16.1, full .vo build) ; coqc Props/Properties_%s.v for Print Assumptions" % (self.pid, self.pid)
        cov["theorems"] = r["theorems"]
        tb = ["Coq 8.16.1 kernel (coqc, vm_compute; no native_compute)"]
        prim = {"abs", "add", "div", "eqb", "float", "leb", "ltb", "mul", "opp", "sqrt", "sub", "compare", "classify", "of_uint63", "normfr_mantissa",
                "frshiftexp", "ldshiftexp", "next_up", "next_down", "int", "lsl", "lsr", "land", "lor", "lxor", "addc", "subc", "mulc", "diveucl", "addmuldiv",
                "PrimFloat.float", "Uint63.int"}
        tb += [("primitive of Coq's native binary64/int63 (kernel, not an axiom): " if a in prim else "axiom (standard library): ") + a for a in r["axioms"]]
        cov["trusted_base"] = tb
        cov["axioms_per_theorem"] = r["per_theorem"]
        if bad:
            self.breaks.append("forbidden tokens in the Coq development: " + "; ".join(bad[:10]))
        if not r["ok"]:
            tail = "\n".join(r["log"].splitlines()[-40:])
            self.breaks.append("proof obligations of Props/Properties_%s.v no longer check (files: %s)\n%s" % (self.pid, ",".join(r["failed_files"]), tail))
        self.log("proof:", "OK" if (r["ok"] and not bad) else "BROKEN", "theorems=%d" % n, "axioms=%s" % r["axioms"])
        if r["ok"] and not getattr(self, "quick", True) and os.environ.get("CMI_NO_COQCHK", "") != "1":
            # thorough tier: re-check the compiled property file and everything it depends on with the independent checker
            with Lock("coqchk"):
                rc, out = sh(["timeout", "1200", "coqchk", "-silent", "-o", "-Q", ".", "CMI", "CMI.Props.Properties_%s" % self.pid], cwd=COQ, timeout=1260)
            cov["coqchk"] = {"exit": rc, "tail": " ".join(out.split())[-600:]}
            if rc == 124:
                # the independent checker re-checks every library the file depends on (Flocq, Interval, Coquelicot: tens of minutes);
                # running out of time is not a rejection
                self.notes.append("coqchk did not finish within 1200 s for Props/Properties_%s.vo (large library dependencies); coqc's own kernel check stands" % self.pid)
            elif rc != 0:
                self.breaks.append("coqchk rejects Props/Properties_%s.vo:\n%s" % (self.pid, out[-1500:]))
            self.log("coqchk:", "OK" if rc == 0 else "not finished (time limit)" if rc == 124 else "FAILED (%d)" % rc)
        return r["ok"] and not bad

    # -- violations -----------------------------------------------------------
    def violation(self, what, replay, key=None, no_input=False):
        self.violations.append({"what": what, "replay": replay, "key": key or {}, "no_input": no_input})

    def finish(self):
        known = []
        kf_path = os.path.join(VERIF, "known_findings.json")
        if os.path.exists(kf_path):
            known = [k for k in json.load(open(kf_path)) if k.get("property") == self.pid and k.get("status") == "known"]
        out_lines = []
        nviol = 0
        printed_known = set()
        for i, v in enumerate(self.violations):
            hit = None
            for k in known:
                m = k.get("match", {})
                if m and all(v["key"].get(a) == b for a, b in m.items()):
                    hit = k
                    break
            if hit is not None and not v["no_input"]:
                if hit["what"] not in printed_known:
                    out_lines.append("KNOWN-FINDING: property=%s %s" % (self.pid, hit["what"]))
                    printed_known.add(hit["what"])
                continue
            nviol += 1
            rp = os.path.join(VERIF, "replays", "%s_%s_%d_%d.json" % (self.pid, self.tier, self.seed, i))
            json.dump({"property": self.pid, "what": v["what"], "key": v["key"], "replay": v["replay"],
                       "no_failing_input_found": v["no_input"], "seed": self.seed, "tier": self.tier}, open(rp, "w"), indent=1, default=str)
            out_lines.append("VIOLATION property=%s replay=%s%s" % (self.pid, rp, " no-failing-input-found" if v["no_input"] else ""))
            self.log("violation:", v["what"][:2000])
        cov = self.coverage
        cov.setdefault("evaluations", 0)
        cov.setdefault("distinct_nontrivial", 0)
        cov.setdefault("rule", "")
        cov["breaks"] = [b[:3000] for b in self.breaks]
        cov["known_findings_reported"] = sorted(printed_known)
        ev = {"property_id": self.pid, "tier": self.tier, "seed": self.seed, "level": self.level,
              "coverage": cov, "assumptions": self.assumptions, "wall_s": round(time.time() - self.t0, 2),
              "violations": nviol, "notes": self.notes}
        json.dump(ev, open(os.path.join(VERIF, "evidence", "%s.json" % self.pid), "w"), indent=1, default=str)
        for l in out_lines:
            print(l, flush=True)
        self.log("done: violations=%d wall=%.1fs" % (nviol, time.time() - self.t0))
        return 1 if nviol else 0

    def resolve_breaks_without_input(self):
        """called after the search-on-break: every break that did not lead to a concrete failing input
        is still reported, naming what no longer checks"""
        # a violation that matches a listed KNOWN finding explains nothing new: it must not hide a broken proof / correspondence
        known = []
        kf_path = os.path.join(VERIF, "known_findings.json")
        if os.path.exists(kf_path):
            known = [k.get("match", {}) for k in json.load(open(kf_path)) if k.get("property") == self.pid and k.get("status") == "known"]
        def is_known(v):
            return any(m and all(v["key"].get(a) == b for a, b in m.items()) for m in known)
        if self.breaks and not any((not v["no_input"]) and not is_known(v) for v in self.violations):
            self.violation("broken without a failing input: " + " || ".join(b[:1500] for b in self.breaks),
                           {"no_longer_checks": self.breaks}, key={"kind": "break"}, no_input=True)


def run_lines(exe, text, timeout=600, cwd=None, env=None):
    rc, out = sh([exe] if isinstance(exe, str) else exe, input=text, timeout=timeout, cwd=cwd, env=env, drop_stderr=True)
    return rc, out.splitlines()


def first_diff(a, b):
    n = min(len(a), len(b))
    for i in range(n):
        if a[i] != b[i]:
            return i
    return n if len(a) != len(b) else -1
