(* C06  Ionization and thermal balance always return a physical state.
   Only statements, each closed by [exact] of a lemma of Cxx/C06_Proofs.v.
   [OR] = the real-number instance of the one model of Cxx/C06_Defs.v, [OF pw ex lg] = its binary64
   instance (pw/ex/lg = libm pow/exp/log, arbitrary here).  The boolean arguments select the pinned (true)
   or repaired (false) variant of the sites of defects D6/D9. *)
From Coq Require Import Reals List Bool.
From Coq Require Floats.
From CMI Require Import Cxx.C06_Defs Cxx.C06_Proofs.
Local Open Scope R_scope.
Set Warnings "-inexact-float".

(* ---- hydrogen-only gas, exact branch (2/aa >= 1e-10, aa = J / (2 n alpha)), over R ----------------------
   the returned neutral fraction solves  n alpha (1-x)^2 = J x,  lies in (0,1)  and is the smaller root
   x = 1/(1 + aa(1 + sqrt(2/aa+1)));  the 1e-14 floor is never active in this branch. *)
Theorem C06_h_only_solves_balance : forall d9 a j n, 0 < a -> 0 < j -> 0 < n -> 1e-10 <= 2 / aa_of a j n ->
  let x := hyd R OR d9 a j n in
  n * a * ((1 - x) * (1 - x)) = j * x /\ 0 < x < 1 /\ x = xroot (aa_of a j n).
Proof. exact h_only_solves_balance_lem. Qed.
Print Assumptions C06_h_only_solves_balance.

(* strictly decreasing in J and increasing in n*alpha (the result depends on J/(n alpha) only) inside the exact
   branch; weakly so inside the series branch (floor).  PARTIAL: not across the seam between the two branches
   (next theorem), and over R only (binary64: C06_h_only_float_refuted). *)
Theorem C06_h_only_monotone_partial : forall d9 a1 j1 n1 a2 j2 n2,
  0 < a1 -> 0 < j1 -> 0 < n1 -> 0 < a2 -> 0 < j2 -> 0 < n2 ->
  (1e-10 <= 2 / aa_of a1 j1 n1 -> 1e-10 <= 2 / aa_of a2 j2 n2 ->
   j1 / (n1 * a1) < j2 / (n2 * a2) -> hyd R OR d9 a2 j2 n2 < hyd R OR d9 a1 j1 n1) /\
  (2 / aa_of a1 j1 n1 < 1e-10 -> 2 / aa_of a2 j2 n2 < 1e-10 ->
   j1 / (n1 * a1) <= j2 / (n2 * a2) -> hyd R OR d9 a2 j2 n2 <= hyd R OR d9 a1 j1 n1).
Proof.
  intros; split; intros;
    [eapply h_only_monotone_exact_lem | eapply h_only_monotone_series_lem]; eassumption.
Qed.
Print Assumptions C06_h_only_monotone_partial.

(* the seam at 2/aa = 1e-10 (J/(n alpha) = 4e10): the series value 1/C lies above the exact root ~ 1/(C+2), so the
   function is NOT monotone there, already over R (relative size 5e-11; tolerated by the check's 1e-9). *)
Theorem C06_h_only_monotone_seam_refuted : forall d9,
  exists j1 j2, 0 < j1 < j2 /\ hyd R OR d9 1 j1 1 < hyd R OR d9 1 j2 1.
Proof. exact h_only_seam_lem. Qed.
Print Assumptions C06_h_only_monotone_seam_refuted.

(* series branch above the floor: x = n alpha / J and the balance equation holds up to the relative defect 2x *)
Theorem C06_h_only_series_defect : forall d9 a j n, 0 < a -> 0 < j -> 0 < n -> 2 / aa_of a j n < 1e-10 ->
  1e-14 <= n * a / j ->
  let x := hyd R OR d9 a j n in
  x = n * a / j /\ Rabs (n * a * ((1 - x) * (1 - x)) - j * x) <= (2 * x) * (j * x).
Proof. exact h_only_series_defect_lem. Qed.
Print Assumptions C06_h_only_series_defect.

(* all real inputs with a positive recombination rate (zero/negative flux or density included) *)
Theorem C06_h_only_range : forall d9 a j n, 0 < a -> 1e-14 <= hyd R OR d9 a j n <= 1.
Proof. exact h_only_range_lem. Qed.
Print Assumptions C06_h_only_range.

(* D9: the pinned expression 1 + aa(1-cc) and the repaired 1/(1 + aa(1+cc)) are the same real function ... *)
Theorem C06_d9_variants_equal : forall a j n, 0 < a -> hyd R OR true a j n = hyd R OR false a j n.
Proof. exact d9_variants_equal_lem. Qed.
Print Assumptions C06_d9_variants_equal.

(* ---- coolants (C, N, O, Ne, S), over R ---------------------------------------------------------------------
   for recombination rates > 0, charge-transfer rates >= 0, estimators >= 0, densities >= 0 and ne > 0 every stored
   ionic fraction is in [0,1] and the tracked stages of one element sum to <= 1.  ne > 0 is NOT guaranteed by the
   pinned caller (next two theorems). *)
Theorem C06_metal_fractions_bounded : forall (Rt : rates R) (j : ion -> R) ne nh0 nhe0 nhp,
  rates_ok Rt -> (forall i, 0 <= j i) -> 0 < ne -> 0 <= nh0 -> 0 <= nhe0 -> 0 <= nhp ->
  forall old, let f := metals R OR Rt j ne nh0 nhe0 nhp old in
  (forall i, In i metal_ions -> 0 <= f i <= 1) /\
  f C_p1 + f C_p2 <= 1 /\ f N_n + f N_p1 + f N_p2 <= 1 /\ f O_n + f O_p1 <= 1 /\
  f Ne_n + f Ne_p1 <= 1 /\ f S_p1 + f S_p2 + f S_p3 <= 1.
Proof. exact metal_fractions_bounded_lem. Qed.
Print Assumptions C06_metal_fractions_bounded.

(* weak field: for jH < 1e-20 the H/He function returns h0 = he0 = 1 without iterating, and then the electron
   density the caller computes is exactly 0 *)
Theorem C06_weak_field_ne_zero : forall alphaH alphaHe jH jHe nH AHe T,
  jH < 1e-20 ->
  hhe R OR alphaH alphaHe jH jHe nH AHe T = HheOk 1 1 0 /\ cell_ne R OR nH AHe 1 1 = 0.
Proof. exact weak_field_ne_zero_lem. Qed.
Print Assumptions C06_weak_field_ne_zero.

(* ---- coupled H/He loop ----------------------------------------------------------------------------------------
   one iteration, over R: from 0 < h0 <= 1, he0 <= 1, helium present, C_He >= 0 and a positive C_H of this iteration
   the new values satisfy 0 < h0' < 1, 0 < he0' <= 1 (also after the averaging of iterations > 10).
   PARTIAL w.r.t. the property: C_H > 0 is a hypothesis (it can fail for AHe >= 0.8 with hard spectra: the sweep of
   the real function finds h0 > 1 / NaN there) and convergence within 20 iterations is explored, not proved. *)
Theorem C06_hhe_step_bounded_partial : forall ch1 ch2 che AHe T niter h0 he0,
  0 <= che -> 0 < AHe -> 0 < h0 <= 1 -> he0 <= 1 ->
  0 < hhe_ch R OR ch1 ch2 AHe T h0 (if Rltb 0 he0 then he0 else 0) ->
  let '(h0', h0old', he0', he0old') := hhe_step R OR ch1 ch2 che AHe T niter h0 he0 in
  0 < h0' < 1 /\ 0 < he0' <= 1 /\ h0old' = h0 /\ 0 <= he0old' <= 1.
Proof. exact hhe_step_bounded_lem. Qed.
Print Assumptions C06_hhe_step_bounded_partial.

(* any scalar type: the fuel of the model is not observable (21 iterations suffice: the 21st aborts), and a
   non-abort result reports at most 20 iterations *)
Theorem C06_hhe_fuel_irrelevant : forall (F : Type) (OPS : ops F) extra fuel ch1 ch2 che AHe T niter h0 h0old he0 he0old,
  (niter + fuel = 21)%nat ->
  hhe_loop F OPS (fuel + extra) ch1 ch2 che AHe T niter h0 h0old he0 he0old =
  hhe_loop F OPS fuel ch1 ch2 che AHe T niter h0 h0old he0 he0old.
Proof. exact hhe_loop_fuel. Qed.
Print Assumptions C06_hhe_fuel_irrelevant.

Theorem C06_hhe_at_most_20_iterations : forall (F : Type) (OPS : ops F) fuel ch1 ch2 che AHe T niter h0 h0old he0 he0old a b k,
  (niter <= 20)%nat ->
  hhe_loop F OPS fuel ch1 ch2 che AHe T niter h0 h0old he0 he0old = HheOk a b k -> (k <= 20)%nat.
Proof. exact hhe_loop_niter. Qed.
Print Assumptions C06_hhe_at_most_20_iterations.

(* ---- temperature iteration, for EVERY cooling/heating oracle [bal] ----------------------------------------
   over R: at most maxit iterations (3 oracle calls each); the returned temperature is 500 K or lies in
   [T_min, 30000], provided T_min <= 30000 and (T_min <= 4000 or at least one iteration is executed:
   eps < 1 and maxit >= 1; otherwise the start value max(T,8000 if T <= 4000) is returned unchanged). *)
Theorem C06_temperature_in_bounds : forall (M : Type) (bal : M -> R -> R -> (R * R * R * R) * M)
    d6t eps tmin maxit crfac_cfg crlim aH8 aHe8 AHe jfac hfac mH mHe hH hHe n Ti crf m0 T h0 he0 zm early gH gHe m k,
  calc_temperature R OR d6t M bal eps tmin maxit crfac_cfg crlim aH8 aHe8 AHe jfac hfac mH mHe hH hHe n Ti crf m0
    = TOk T h0 he0 zm early gH gHe m k ->
  tmin <= 30000 -> (tmin <= 4000 \/ (eps < 1 /\ (1 <= maxit)%nat)) ->
  (k <= maxit)%nat /\ (T = 500 \/ tmin <= T <= 30000).
Proof. exact temperature_in_bounds_lem. Qed.
Print Assumptions C06_temperature_in_bounds.

(* any scalar type: calculate_temperature aborts only if the H/He loop of the cosmic-ray pre-check (8000 K) aborts *)
Theorem C06_temperature_abort_only_from_precheck : forall (F : Type) (OPS : ops F) (M : Type) (bal : M -> F -> F -> (F * F * F * F) * M)
    d6t eps tmin maxit crfac_cfg crlim aH8 aHe8 AHe jfac hfac mH mHe hH hHe n Ti crf m0,
  calc_temperature F OPS d6t M bal eps tmin maxit crfac_cfg crlim aH8 aHe8 AHe jfac hfac mH mHe hH hHe n Ti crf m0 = TAbort ->
  hhe F OPS aH8 aHe8 (mul OPS jfac mH) (mul OPS jfac mHe) n AHe (cst OPS K8000) = HheAbort.
Proof. exact calc_temperature_abort. Qed.
Print Assumptions C06_temperature_abort_only_from_precheck.
(* ================= binary64 statements (PrimFloat) ================= *)
Import Floats.

(* binary64, ALL doubles (NaN, infinities, negative, zero rate): the result is a number (not NaN) and >= 1e-14:
   std::max(1e-14, NaN) = 1e-14.  PARTIAL: the bound <= 1 is proved over R only (C06_h_only_range). *)
Theorem C06_h_only_floor_partial : forall pw ex lg d9 a j n,
  let r := hyd PrimFloat.float (OF pw ex lg) d9 a j n in
  PrimFloat.leb (fcst K1em14) r = true /\ PrimFloat.eqb r r = true.
Proof. exact h_only_floor_lem. Qed.
Print Assumptions C06_h_only_floor_partial.

(* ... but in binary64 the pinned one is dominated by cancellation: alpha = n = 1, J = 1e8, 1e9, 1e10 (roots 1e-8,
   1e-9, 1e-10) give < 7e-9, > 2e-8 (larger although J is larger) and the floor 1e-14.  Replayed on the real code. *)
Theorem C06_h_only_float_refuted : forall pw ex lg,
  let f := fun j => hyd PrimFloat.float (OF pw ex lg) true 1%float j 1%float in
  PrimFloat.ltb (f 1e8%float) (f 1e9%float) = true
  /\ PrimFloat.ltb (f 1e8%float) 7e-9%float = true
  /\ PrimFloat.ltb 2e-8%float (f 1e9%float) = true
  /\ PrimFloat.eqb (f 1e10%float) 1e-14%float = true.
Proof. exact h_only_cancellation_lem. Qed.
Print Assumptions C06_h_only_float_refuted.

(* the repaired expression on the same inputs: monotone and within 3e-8 relative of the roots *)
Theorem C06_h_only_float_repaired : forall pw ex lg,
  let f := fun j => hyd PrimFloat.float (OF pw ex lg) false 1%float j 1%float in
  PrimFloat.ltb (f 1e9%float) (f 1e8%float) = true
  /\ PrimFloat.ltb 0.99999997e-8%float (f 1e8%float) = true /\ PrimFloat.ltb (f 1e8%float) 0.99999999e-8%float = true
  /\ PrimFloat.ltb 0.999999997e-9%float (f 1e9%float) = true /\ PrimFloat.ltb (f 1e9%float) 0.999999999e-9%float = true
  /\ PrimFloat.ltb 0.9999999997e-10%float (f 1e10%float) = true /\ PrimFloat.ltb (f 1e10%float) 0.9999999999e-10%float = true.
Proof. exact h_only_repaired_lem. Qed.
Print Assumptions C06_h_only_float_repaired.

(* D6, binary64 model of calculate_ionization_state, pinned variant: a cell with finite positive data and
   0 < jH = 1e-22 < 1e-20 (n = 1e8, T = 8000, AHe = 0.1) gets h0 = he0 = 1 and NaN for C+, C++, Ne+, Ne++.
   Replayed on the real class by the check. *)
Theorem C06_metal_fractions_refuted : forall pw ex lg,
  PrimFloat.ltb 0%float (PrimFloat.mul 1%float (w_mean H_n)) = true /\
  PrimFloat.ltb (PrimFloat.mul 1%float (w_mean H_n)) 1e-20%float = true /\
  match cell PrimFloat.float (OF pw ex lg) true true w_rates 1%float 1%float w_mean 0%float 0%float 1e8%float 8000%float 0.1%float with
  | CellOk fr _ _ => PrimFloat.eqb (fr H_n) 1%float = true /\ PrimFloat.eqb (fr He_n) 1%float = true /\
                     is_nan (fr C_p1) = true /\ is_nan (fr C_p2) = true /\ is_nan (fr Ne_n) = true /\ is_nan (fr Ne_p1) = true
  | CellAbort => False
  end.
Proof. exact weak_field_nan_lem. Qed.
Print Assumptions C06_metal_fractions_refuted.

(* the repaired variant (jH >= 1e-20 required for the ionized branch) on the same cell: all 14 fractions in [0,1] *)
Theorem C06_weak_field_repaired : forall pw ex lg,
  match cell PrimFloat.float (OF pw ex lg) false true w_rates 1%float 1%float w_mean 0%float 0%float 1e8%float 8000%float 0.1%float with
  | CellOk fr _ _ => forall i, PrimFloat.leb 0%float (fr i) = true /\ PrimFloat.leb (fr i) 1%float = true
  | CellAbort => False
  end.
Proof. exact weak_field_fixed_lem. Qed.
Print Assumptions C06_weak_field_repaired.

(* binary64, every oracle (it may return NaN or infinities), all doubles as inputs: the returned temperature is a
   number <= 30000; it is 500, 30000, not below T_min, or no iteration was executed *)
Theorem C06_temperature_float : forall pw ex lg (M : Type)
    (bal : M -> PrimFloat.float -> PrimFloat.float -> (PrimFloat.float * PrimFloat.float * PrimFloat.float * PrimFloat.float) * M)
    d6t eps tmin maxit crfac_cfg crlim aH8 aHe8 AHe jfac hfac mH mHe hH hHe n Ti crf m0 T h0 he0 zm early gH gHe m k,
  calc_temperature PrimFloat.float (OF pw ex lg) d6t M bal eps tmin maxit crfac_cfg crlim aH8 aHe8 AHe jfac hfac mH mHe hH hHe n Ti crf m0
    = TOk T h0 he0 zm early gH gHe m k ->
  (k <= maxit)%nat /\ PrimFloat.leb T 30000%float = true /\ PrimFloat.eqb T T = true /\
  (T = 500%float \/ T = 30000%float \/ PrimFloat.ltb T tmin = false \/ k = 0%nat).
Proof. exact temperature_float_lem. Qed.
Print Assumptions C06_temperature_float.

