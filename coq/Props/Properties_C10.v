(* C10  Hydro results do not depend on the subgrid layout or on the order in which threads execute the operations of a phase.
   Statements only; proofs in Cxx/C10_Proofs.v (uses C04_Faces.faces_once).  Real-number instance of the model of one step
   (Cxx/C10_Defs.v step_with / step_layout; per-operation models in C04_FluxDefs.v and C10_Defs.v); [riemann] is ANY function.
   Not here: that the task graph lets a cell's operations run only in phase order (C07: task tables / parents-first), and that one
   thread has exactly one schedule (C07) -- with both, "any run of the task-based executor" is "some order inside each phase". *)
From Coq Require Import Reals ZArith List Permutation.
From CMI Require Import Common.Scalar Cxx.C05_Defs Cxx.C04_Defs Cxx.C04_FluxDefs Cxx.C04_Faces Cxx.C10_Defs Cxx.C10_Proofs.

(* abstract: operations that only ADD increments to cells (acc commutative) and compute what they add from a view of the cells that
   adding does not change, give the same final state in every order *)
Theorem C10_accumulate_phase_order_irrelevant : forall (C M V : Type) (acc : C -> M -> C) (view : C -> V),
  (forall c a b, acc (acc c a) b = acc (acc c b) a) -> (forall c a, view (acc c a) = view c) ->
  forall ops ops' : list (aop M V), Permutation ops ops' -> forall st : cstate C,
  run_aops C M V acc view ops st = run_aops C M V acc view ops' st.
Proof. exact run_aops_perm. Qed.
Print Assumptions C10_accumulate_phase_order_irrelevant.

(* abstract: rewriting every cell of a duplicate-free list from its own fields gives the same state in every order *)
Theorem C10_cellwise_phase_order_irrelevant : forall (C : Type) (h : C -> C) (cells cells' : list Z),
  NoDup cells -> Permutation cells cells' -> forall st : cstate C, map_phase C h cells st = map_phase C h cells' st.
Proof. exact map_phase_perm. Qed.
Print Assumptions C10_cellwise_phase_order_irrelevant.

(* the flux operations read only primitives, conserved variables and gradients of their cells (not the accumulators they add to) *)
Theorem C10_flux_reads_declared_fields : forall eps gfloor dblmax riemann gamma dt a (L Rr : cell R) dx A,
  pair_flux R (ROps eps gfloor) riemann gamma a (fcell eps gfloor dblmax (fview L)) (fcell eps gfloor dblmax (fview Rr)) dx A dt =
  pair_flux R (ROps eps gfloor) riemann gamma a L Rr dx A dt.
Proof. exact pair_flux_view. Qed.
Print Assumptions C10_flux_reads_declared_fields.

(* the flux phase (sums into the delta accumulators) and the gradient phase (sums into the gradients, min/max into the limiter
   bounds; reads only primitives) are accumulate phases: any order of the faces gives the same state *)
Theorem C10_flux_phase_commutes : forall eps gfloor (dblmax : R) riemann gamma bkind dxs As dt fs fs' (st : state R), Permutation fs fs' ->
  flux_phase R (ROps eps gfloor) riemann gamma bkind dxs As dt fs st = flux_phase R (ROps eps gfloor) riemann gamma bkind dxs As dt fs' st.
Proof. exact flux_phase_perm. Qed.
Print Assumptions C10_flux_phase_commutes.

Theorem C10_gradient_phase_commutes : forall eps gfloor bkind dxinvs fs fs' (st : state R), Permutation fs fs' ->
  grad_phase R (ROps eps gfloor) bkind dxinvs fs st = grad_phase R (ROps eps gfloor) bkind dxinvs fs' st.
Proof. exact grad_phase_perm. Qed.
Print Assumptions C10_gradient_phase_commutes.

(* slope limiter, prediction, conserved update, primitive update read and write only their own cell, and only the declared fields *)
Theorem C10_cellwise_ops_respect_declared_sets : forall eps gfloor dblmax dx g hdt maxv pcf T xH invvol (c c' : cell R),
  (prim R c = prim R c' -> grad R c = grad R c' -> lims R c = lims R c' ->
     grad R (slope_limit R (ROps eps gfloor) dblmax dx c) = grad R (slope_limit R (ROps eps gfloor) dblmax dx c'))
  /\ prim R (slope_limit R (ROps eps gfloor) dblmax dx c) = prim R c /\ cons R (slope_limit R (ROps eps gfloor) dblmax dx c) = cons R c
  /\ dcons R (slope_limit R (ROps eps gfloor) dblmax dx c) = dcons R c /\ lims R (slope_limit R (ROps eps gfloor) dblmax dx c) = lims R c
  /\ (prim R c = prim R c' -> grad R c = grad R c' -> grav R c = grav R c' ->
        prim R (predict R (ROps eps gfloor) g hdt c) = prim R (predict R (ROps eps gfloor) g hdt c'))
  /\ cons R (predict R (ROps eps gfloor) g hdt c) = cons R c /\ dcons R (predict R (ROps eps gfloor) g hdt c) = dcons R c
  /\ grad R (predict R (ROps eps gfloor) g hdt c) = grad R c /\ lims R (predict R (ROps eps gfloor) g hdt c) = lims R c
  /\ (cons R c = cons R c' -> dcons R c = dcons R c' -> grav R c = grav R c' -> eterm R c = eterm R c' -> prim R c = prim R c' ->
        update_conserved R (ROps eps gfloor) dblmax c hdt = update_conserved R (ROps eps gfloor) dblmax c' hdt)
  /\ prim R (update_conserved R (ROps eps gfloor) dblmax c hdt) = prim R c
  /\ (cons R c = cons R c' ->
        prim R (set_primitive R (ROps eps gfloor) g maxv pcf T xH c invvol) = prim R (set_primitive R (ROps eps gfloor) g maxv pcf T xH c' invvol))
  /\ cons R (set_primitive R (ROps eps gfloor) g maxv pcf T xH c invvol) = cons R c
  /\ dcons R (set_primitive R (ROps eps gfloor) g maxv pcf T xH c invvol) = dcons R c
  /\ grad R (set_primitive R (ROps eps gfloor) g maxv pcf T xH c invvol) = grad R c.
Proof.
  intros.
  destruct (slope_limit_rw eps gfloor dblmax dx c c') as (A1 & A2 & A3 & A4 & _ & _ & A7).
  destruct (predict_rw eps gfloor g hdt c c') as (B1 & B2 & B3 & B4 & _ & _ & B7).
  destruct (update_conserved_rw eps gfloor dblmax hdt c c') as (C1 & C2 & _).
  destruct (set_primitive_rw eps gfloor g maxv pcf T xH invvol c c') as (D1 & D2 & D3 & D4 & _).
  repeat split; assumption.
Qed.
Print Assumptions C10_cellwise_ops_respect_declared_sets.

(* the declared read/write table (compared with the observed behaviour of the real operations on every run) is consistent:
   no accumulating operation reads a field that operations of its phase write *)
Theorem C10_declared_sets_consistent : declared_ok = true.
Proof. exact declared_sets_ok. Qed.
Print Assumptions C10_declared_sets_consistent.

(* phase_commutes: inside every one of the phases of a step (gradient sweeps, slope limiter, prediction, flux sweeps, conserved
   update, primitive update) any execution order gives the same cell states *)
Theorem C10_phase_commutes : forall eps gfloor dblmax riemann (P : params R) fg fg' c1 c1' c2 c2' ff ff' c3 c3' c4 c4' (st : state R),
  Permutation fg fg' -> Permutation ff ff' ->
  NoDup c1 -> Permutation c1 c1' -> NoDup c2 -> Permutation c2 c2' -> NoDup c3 -> Permutation c3 c3' -> NoDup c4 -> Permutation c4 c4' ->
  step_with R (ROps eps gfloor) dblmax riemann P fg c1 c2 ff c3 c4 st = step_with R (ROps eps gfloor) dblmax riemann P fg' c1' c2' ff' c3' c4' st.
Proof. exact phase_commutes. Qed.
Print Assumptions C10_phase_commutes.

(* layout_independent: the sweeps of two subgrid layouts of the same global grid give the same cell states after one step *)
Theorem C10_layout_independent : forall eps gfloor dblmax riemann (P : params R) L1 L2 (st : state R),
  wf_layout L1 -> wf_layout L2 -> same_grid L1 L2 ->
  step_layout R (ROps eps gfloor) dblmax riemann P L1 st = step_layout R (ROps eps gfloor) dblmax riemann P L2 st.
Proof. exact layout_independent. Qed.
Print Assumptions C10_layout_independent.

(* ... equal to the plain sequential execution of the sweeps on the undivided grid *)
Theorem C10_equals_sequential_reference : forall eps gfloor dblmax riemann (P : params R) L (st : state R), wf_layout L ->
  step_layout R (ROps eps gfloor) dblmax riemann P L st = step_layout R (ROps eps gfloor) dblmax riemann P (undivided L) st.
Proof. exact equals_sequential_reference. Qed.
Print Assumptions C10_equals_sequential_reference.

(* ... and so does every schedule that runs the operations of any layout's sweeps phase by phase in any order *)
Theorem C10_schedule_independent : forall eps gfloor dblmax riemann (P : params R) L fg ff c1 c2 c3 c4 (st : state R), wf_layout L ->
  let cells := range (NX L * NY L * NZ L) in
  Permutation (global_faces L) fg -> Permutation (global_faces L) ff ->
  Permutation cells c1 -> Permutation cells c2 -> Permutation cells c3 -> Permutation cells c4 ->
  step_with R (ROps eps gfloor) dblmax riemann P fg c1 c2 ff c3 c4 st = step_layout R (ROps eps gfloor) dblmax riemann P (undivided L) st.
Proof. exact schedule_independent. Qed.
Print Assumptions C10_schedule_independent.
