(* C20  Parameter files, units and snapshots round-trip.
   Only statements, each closed by [exact] of a lemma of Cxx/C20_Proofs.v.
   Models: Cxx/C20_Defs.v (YAMLDictionary parser/printer, Unit/UnitConverter, snapshot index),
           Cxx/C20_SnapDefs.v (cell orderings of the HDF5 snapshot writer and of the snapshot reader; lemmas in Cxx/C20_SnapProofs.v).

   Vocabulary (Cxx/C20_Proofs.v):
     entry = (groups, name, value); its key is  g1:g2:..:name  (join_key), dict_of es the std::map content.
     wf_name  s : non-empty, no ':' '#' LF, first and last byte not blank/tab.
     wf_value s : non-empty, no '#' LF, first and last byte not blank/tab.
     wf_entries es : every component of every key is a wf_name, every value a wf_value, and the keys are
                     strictly increasing in std::string order (byte-wise, unsigned) -- i.e. es is the content
                     of a std::map.  No bound on the nesting depth; a name may be both a group and a value. *)
From Coq Require String.
From Coq Require Import List Ascii ZArith Reals QArith Qabs Floats Sorted.
Import String.StringSyntax.
From CMI Require Import Cxx.C20_Defs Cxx.C20_Proofs Cxx.C20_SnapDefs Cxx.C20_SnapProofs.
Import ListNotations.

(* Printing a dictionary and parsing the printed lines gives the dictionary back.  The printer's pop loop
   (DESIGN O3) leaves stale group names on its stack when the nesting drops by >= 2 levels; the proof shows
   that this only re-prints group headers (invariant [inv]: a stale entry never matches a later key, by
   contiguity of common prefixes in the sorted map). *)
Theorem C20_parse_print_roundtrip : forall es, wf_entries es -> parse (print (dict_of es)) = Some (dict_of es).
Proof. exact parse_print_roundtrip. Qed.
Print Assumptions C20_parse_print_roundtrip.

(* the same on the text: lines joined with LF by the stream, split again by std::getline *)
Theorem C20_parse_print_roundtrip_text : forall es, wf_entries es ->
  parse_text (print_text (dict_of es)) = Some (dict_of es).
Proof. exact parse_print_roundtrip_text. Qed.
Print Assumptions C20_parse_print_roundtrip_text.

(* used-values dump ("name: used value # (value in the file)"): it re-parses to the same keys, each with its
   used value ("value not used" for keys never queried), provided the used values are well-formed values *)
Theorem C20_used_values_reparse : forall u es, wf_entries es ->
  Forall (fun e => wf_value (used_val u (e_key e))) es ->
  parse (print_used u (dict_of es)) = Some (used_dict u (dict_of es)).
Proof. exact used_values_reparse. Qed.
Print Assumptions C20_used_values_reparse.

(* the hypotheses are satisfiable, by a dictionary on which the pop loop does leave a stale entry *)
Theorem C20_wf_satisfiable_with_stale_pop : wf_entries o3_entries /\
  fst (print_entry None [S_ "a"; S_ "b"; S_ "c"] (e_key (nth 1 o3_entries ([], [], [])), []))
    = [S_ "a"; S_ "b"; S_ "d"; S_ "e"; S_ "f"].
Proof. exact (conj o3_entries_wf o3_stale_stack). Qed.
Print Assumptions C20_wf_satisfiable_with_stale_pop.

(* exhaustive small-scope evaluation of the executable model (not needed for the theorems above; it was the
   counterexample search that preceded the proof): every dictionary of <= 3 keys out of the 30 keys with
   1..4 components over the names "a", "b!" round-trips through print_text / parse_text *)
Theorem C20_small_scope_roundtrip : all_sub (sorted_keys [S_ "a"; S_ "b!"] 4) 3 [] = true.
Proof. exact small_scope_roundtrip. Qed.
Print Assumptions C20_small_scope_roundtrip.

(* ---- units, over R ---- *)
(* to SI and back (and back and to SI) is the identity for a non-zero factor *)
Theorem C20_unit_si_roundtrip : forall (u : unit_ R) (x : R), uval u <> 0%R ->
  Rfrom_si u (Rto_si u x) = x /\ Rto_si u (Rfrom_si u x) = x.
Proof. exact unit_si_roundtrip. Qed.
Print Assumptions C20_unit_si_roundtrip.

(* a product of units converts like its parts applied one after the other *)
Theorem C20_unit_product_converts : forall (u v : unit_ R) (x : R), Rto_si (Rumul u v) x = Rto_si v (Rto_si u x).
Proof. exact unit_product_converts. Qed.
Print Assumptions C20_unit_product_converts.

(* compound unit strings (token lists of get_unit): the unit of the concatenation is the product *)
Theorem C20_unit_compound_product : forall single pinned ts1 ts2 u1 u2,
  eval_tokens R Rmult Rdiv 1%R single pinned ts1 = Some u1 -> eval_tokens R Rmult Rdiv 1%R single pinned ts2 = Some u2 ->
  eval_tokens R Rmult Rdiv 1%R single pinned (ts1 ++ ts2) = Some (Rumul u1 u2).
Proof. exact unit_compound_product. Qed.
Print Assumptions C20_unit_compound_product.

(* Unit::operator^= exists in two variants selected by a boolean: [true] = pinned commit (exponent 0 keeps the
   scale factor, DESIGN O2), [false] = repaired code (hooks/c20_fix_unit_pow_zero.patch). *)

(* both variants: exponents add as long as no exponent involved is 0 *)
Theorem C20_unit_pow_add : forall pinned (u : unit_ R) (a b : Z), uval u <> 0%R -> a <> 0%Z -> b <> 0%Z -> (a + b)%Z <> 0%Z ->
  Rupow pinned u (a + b) = Rumul (Rupow pinned u a) (Rupow pinned u b).
Proof. exact unit_pow_add. Qed.
Print Assumptions C20_unit_pow_add.

(* both variants: u^0 is dimensionless *)
Theorem C20_unit_pow_zero_dimensionless : forall pinned (u : unit_ R), Forall (fun e => e = 0%Z) (uexp (Rupow pinned u 0)).
Proof. exact unit_pow_zero_dimensionless. Qed.
Print Assumptions C20_unit_pow_zero_dimensionless.

(* repaired variant: u^0 is the dimensionless unit with factor 1, and exponents add for ALL integers *)
Theorem C20_unit_pow_zero_repaired : forall u : unit_ R,
  uval (Rupow false u 0) = 1%R /\ Forall (fun e => e = 0%Z) (uexp (Rupow false u 0)).
Proof. exact unit_pow_zero_repaired. Qed.
Print Assumptions C20_unit_pow_zero_repaired.

Theorem C20_unit_pow_add_repaired : forall (u : unit_ R) (a b : Z), uval u <> 0%R ->
  Rupow false u (a + b) = Rumul (Rupow false u a) (Rupow false u b).
Proof. exact unit_pow_add_repaired. Qed.
Print Assumptions C20_unit_pow_add_repaired.

(* pinned variant: "u^0 has factor 1" is REFUTED, witness cm = 1/100 m *)
Theorem C20_unit_pow_zero_refuted : exists u : unit_ R, uval u <> 0%R /\ uval (Rupow true u 0) <> 1%R.
Proof. exact unit_pow_zero_refuted. Qed.
Print Assumptions C20_unit_pow_zero_refuted.

(* pinned variant: "exponents add" is REFUTED through exponent 0: cm^1 * cm^-1 = 1 but cm^(1-1) has factor 1/100 *)
Theorem C20_unit_pow_add_refuted : exists (u : unit_ R) (a b : Z), uval u <> 0%R /\
  uval (Rupow true u (a + b)) <> uval (Rumul (Rupow true u a) (Rupow true u b)).
Proof. exact unit_pow_add_refuted. Qed.
Print Assumptions C20_unit_pow_add_refuted.

(* the same witness on the binary64 model that is compared with the real UnitConverter on every run *)
Theorem C20_float_pow_zero_witness :
  f_get_unit true (S_ "cm^0") = Some (mkUnit 0x1.47ae147ae147bp-7%float [0; 0; 0; 0; 0; 0]%Z) /\
  f_to_SI true 12 1%float (S_ "m cm^0") = Some 0x1.47ae147ae147bp-7%float.
Proof. exact float_pow_zero_witness. Qed.
Print Assumptions C20_float_pow_zero_witness.

Theorem C20_float_pow_zero_repaired :
  f_get_unit false (S_ "cm^0") = Some (mkUnit 1%float [0; 0; 0; 0; 0; 0]%Z) /\
  f_to_SI false 12 1%float (S_ "m cm^0") = Some 1%float.
Proof. exact float_pow_zero_repaired. Qed.
Print Assumptions C20_float_pow_zero_repaired.

(* cross-quantity conversions of try_conversion invert each other *)
Theorem C20_photon_energy_frequency_inverse : forall (h c : R) (ue uf : unit_ R) (x : R),
  h <> 0%R -> uval ue <> 0%R -> uval uf <> 0%R -> uexp ue = exps_energy -> uexp uf = exps_frequency ->
  exists y, try_conversion R Rmult Rdiv 1%R h c x ue uf = Some y /\ try_conversion R Rmult Rdiv 1%R h c y uf ue = Some x.
Proof. exact photon_energy_frequency_inverse. Qed.
Print Assumptions C20_photon_energy_frequency_inverse.

Theorem C20_photon_wavelength_frequency_inverse : forall (h c : R) (ul uf : unit_ R) (x : R),
  c <> 0%R -> x <> 0%R -> uval ul <> 0%R -> uval uf <> 0%R -> uexp ul = exps_length -> uexp uf = exps_frequency ->
  exists y, try_conversion R Rmult Rdiv 1%R h c x ul uf = Some y /\ try_conversion R Rmult Rdiv 1%R h c y uf ul = Some x.
Proof. exact photon_wavelength_frequency_inverse. Qed.
Print Assumptions C20_photon_wavelength_frequency_inverse.

(* the built-in table (binary64 values as the compiler rounds the literals) agrees with itself within 1 ulp:
   kpc = 1000 pc, Gyr = 1000 Myr, Myr = 1e6 yr, Gyr = 1e9 yr, km = 1000 m, m = 100 cm, kg = 1000 g,
   J = 1e7 erg, bar = 1e5 Pa, m = 1e10 angstrom *)
Theorem C20_unit_table_consistent : table_consistent = true.
Proof. exact unit_table_consistent. Qed.
Print Assumptions C20_unit_table_consistent.

(* ---- snapshot reader (Cartesian): for every grid size n and every cell i, both index computations
   (filling the grid from the stored coordinates, looking a cell midpoint up) return i; exact arithmetic *)
Theorem C20_snapshot_index_inverse : forall (n i : Z) (anchor side : Q),
  (0 <= i < n)%Z -> ~ (side == 0)%Q ->
  snap_lookup_index n anchor side (cell_mid n i anchor side) = i /\
  snap_fill_index n side (cell_mid n i anchor side - anchor)%Q = i.
Proof. exact snapshot_index_inverse. Qed.
Print Assumptions C20_snapshot_index_inverse.

(* ---- snapshot write -> read (Cxx/C20_SnapDefs.v).  Vocabulary:
     S = number of subgrids per axis, B = cells per subgrid per axis (triples, all components >= 1: pos3), N = mul3 S B
     wr_entries S B   : the appends of GadgetDensityGridWriter::write(grid_creator, ..) in execution order (subgrid loop,
                        blocks of 10000 cells, running block_offset): (position in the dataset, (subgrid, cell in subgrid))
     rd_entries S N   : the stores of CMacIonizeSnapshotDensityFunction::initialize(), branch "TaskBased", in execution
                        order (six nested loops): ((ix, iy, iz), cell_index); numblock = N / S as in the code
     snapshot_file S B f : dataset content after the writer ran on a grid with cell values f (stores executed in order)
     rd_grid S N file : _cartesian_grid after initialize();  rd_value .. pos : operator() for a position
     sub_position / three_index / global_cell : DensitySubGridCreator::create_subgrid, DensitySubGrid::get_three_index,
                        and the cell of the whole grid that cell c of subgrid g is;  sub_mid : its midpoint as the grid computes it *)

(* the writer puts cell c of subgrid g at position g * (cells per subgrid) + c, for every layout *)
Theorem C20_snapshot_writer_positions : forall S B p g c, pos3 S -> pos3 B ->
  In (p, (g, c)) (wr_entries S B) <-> (0 <= g < prod3 S /\ 0 <= c < prod3 B /\ p = g * prod3 B + c)%Z.
Proof. exact in_wr_entries. Qed.
Print Assumptions C20_snapshot_writer_positions.

(* .. which is a bijection between (subgrid, cell) and the positions 0 .. ncell-1 *)
Theorem C20_snapshot_writer_bijective : forall S B, pos3 S -> pos3 B ->
  (forall p, (0 <= p < prod3 S * prod3 B)%Z <-> exists g c, In (p, (g, c)) (wr_entries S B)) /\
  (forall p g c g' c', In (p, (g, c)) (wr_entries S B) -> In (p, (g', c')) (wr_entries S B) -> g = g' /\ c = c') /\
  (forall p p' g c, In (p, (g, c)) (wr_entries S B) -> In (p', (g, c)) (wr_entries S B) -> p = p').
Proof. exact wr_positions_bijective. Qed.
Print Assumptions C20_snapshot_writer_bijective.

Theorem C20_snapshot_file_content : forall (V : Type) S B (f : Z3 -> V) g c, pos3 S -> pos3 B ->
  (0 <= g < prod3 S)%Z -> (0 <= c < prod3 B)%Z ->
  snapshot_file S B f (g * prod3 B + c)%Z = Some (f (global_cell S B g c)).
Proof. exact snapshot_file_content. Qed.
Print Assumptions C20_snapshot_file_content.

(* the stores of the reader are exactly (target, index) for the block positions si and cells-in-block ci of the loops *)
Theorem C20_snapshot_reader_entries : forall S N t src,
  In (t, src) (rd_entries S N) <->
  exists si ci, in3 si S /\ in3 ci (div3 N S) /\ t = rd_target S N si ci /\ src = rd_cell_index S N si ci.
Proof. exact in_rd_entries. Qed.
Print Assumptions C20_snapshot_reader_entries.

(* the reader's linear index of (block, cell in block) is the position at which the writer put that cell: for ALL
   block counts and cells per block >= 1, cubic or not *)
Theorem C20_snapshot_reader_index_is_writer_position : forall S B si ci, pos3 S -> pos3 B -> in3 si S -> in3 ci B ->
  let N := mul3 S B in
  let g := rd_subgrid_index S si in
  let c := one_index B ci in
  rd_cell_index S N si ci = (g * prod3 B + c)%Z /\
  In (rd_cell_index S N si ci, (g, c)) (wr_entries S B) /\
  global_cell S B g c = rd_target S N si ci /\
  sub_position S g = si /\ three_index B c = ci /\
  (0 <= rd_cell_index S N si ci < prod3 N)%Z.
Proof. exact reader_index_is_writer_position. Qed.
Print Assumptions C20_snapshot_reader_index_is_writer_position.

(* the reader's stores hit every cell of the grid exactly once and use every position of the datasets exactly once *)
Theorem C20_snapshot_reader_bijective : forall S B, pos3 S -> pos3 B ->
  let N := mul3 S B in
  (forall t, in3 t N <-> exists src, In (t, src) (rd_entries S N)) /\
  (forall src, (0 <= src < prod3 N)%Z <-> exists t, In (t, src) (rd_entries S N)) /\
  (forall t src src', In (t, src) (rd_entries S N) -> In (t, src') (rd_entries S N) -> src = src') /\
  (forall t t' src, In (t, src) (rd_entries S N) -> In (t', src) (rd_entries S N) -> t = t').
Proof. exact rd_entries_bijective. Qed.
Print Assumptions C20_snapshot_reader_bijective.

(* read back = written: the two index maps composed with an arbitrary field f *)
Theorem C20_snapshot_grid_roundtrip : forall (V : Type) S B (f : Z3 -> V) t, pos3 S -> pos3 B ->
  in3 t (mul3 S B) -> rd_grid S (mul3 S B) (snapshot_file S B f) t = Some (f t).
Proof. exact snapshot_grid_roundtrip. Qed.
Print Assumptions C20_snapshot_grid_roundtrip.

(* the midpoint the grid computes for cell i of subgrid g is the midpoint of cell g*b+i of the box (cell_mid of
   C20_snapshot_index_inverse), and operator() looks that cell up for it (exact arithmetic) *)
Theorem C20_snapshot_subgrid_midpoint : forall s b g i anchor side, (1 <= s)%Z -> (1 <= b)%Z ->
  (sub_mid s b g i anchor side == cell_mid (s * b) (g * b + i) anchor side)%Q.
Proof. exact sub_mid_is_cell_mid. Qed.
Print Assumptions C20_snapshot_subgrid_midpoint.

Theorem C20_snapshot_midpoint_lookup_is_cell : forall S B g c anchor side, pos3 S -> pos3 B -> nonzero3 side ->
  (0 <= g < prod3 S)%Z -> (0 <= c < prod3 B)%Z ->
  lookup_cell (mul3 S B) anchor side (sub_mid3 S B g c anchor side) = global_cell S B g c /\
  in3 (global_cell S B g c) (mul3 S B).
Proof. exact midpoint_lookup_is_cell. Qed.
Print Assumptions C20_snapshot_midpoint_lookup_is_cell.

(* the whole chain: a grid on the same geometry initialised from the snapshot gets, in the cell at the position of
   cell c of subgrid g, the value that cell had when the snapshot was written *)
Theorem C20_snapshot_roundtrip : forall (V : Type) S B (f : Z3 -> V) anchor side g c, pos3 S -> pos3 B -> nonzero3 side ->
  (0 <= g < prod3 S)%Z -> (0 <= c < prod3 B)%Z ->
  rd_value S (mul3 S B) anchor side (snapshot_file S B f) (sub_mid3 S B g c anchor side) = Some (f (global_cell S B g c)).
Proof. exact snapshot_roundtrip. Qed.
Print Assumptions C20_snapshot_roundtrip.

(* legacy pair: write(DensityGrid &) stores long index order plus coordinates; the "Cartesian" branch places each entry
   by its stored coordinate; every cell of an N grid reads back its own value *)
Theorem C20_snapshot_legacy_roundtrip : forall (V : Type) N (f : Z3 -> V) anchor side t, pos3 N -> nonzero3 side -> in3 t N ->
  lg_rd_value N anchor side (prod3 N) (lg_file N anchor side f) (cart_mid3 N t anchor side) = Some (f t).
Proof. exact legacy_snapshot_roundtrip. Qed.
Print Assumptions C20_snapshot_legacy_roundtrip.

(* the hypothesis "same anchor and sides" is needed: with the box known only to the printed precision of the used
   values (6 significant digits, what the /Parameters block of a snapshot holds in the pinned tree) the reader looks up
   ANOTHER cell.  REFUTES "read back on the same geometry" for the real chain; witness replayed on the real code by the
   probe snapshot_box_precision of props/c20.py; repaired by hooks/c20_fix_snapshot_box_precision.patch *)
Theorem C20_snapshot_printed_precision_box_refuted :
  exists (n i : Z) (anchor side anchor' side' : Q),
    (0 <= i < n)%Z /\ ~ (side == 0)%Q /\ ~ (side' == 0)%Q /\
    (Qabs (anchor' - anchor) <= (5 # 1000000) * Qabs anchor)%Q /\
    (Qabs (side' - side) <= (5 # 1000000) * Qabs side)%Q /\
    snap_lookup_index n anchor' side' (cell_mid n i anchor side) <> i.
Proof. exact snapshot_printed_precision_box_refuted. Qed.
Print Assumptions C20_snapshot_printed_precision_box_refuted.
