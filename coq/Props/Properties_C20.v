(* C20  Parameter files, units and snapshots round-trip.
   Only statements, each closed by [exact] of a lemma of Cxx/C20_Proofs.v.
   Models: Cxx/C20_Defs.v (YAMLDictionary parser/printer, Unit/UnitConverter, snapshot index).

   Vocabulary (Cxx/C20_Proofs.v):
     entry = (groups, name, value); its key is  g1:g2:..:name  (join_key), dict_of es the std::map content.
     wf_name  s : non-empty, no ':' '#' LF, first and last byte not blank/tab.
     wf_value s : non-empty, no '#' LF, first and last byte not blank/tab.
     wf_entries es : every component of every key is a wf_name, every value a wf_value, and the keys are
                     strictly increasing in std::string order (byte-wise, unsigned) -- i.e. es is the content
                     of a std::map.  No bound on the nesting depth; a name may be both a group and a value. *)
From Coq Require String.
From Coq Require Import List Ascii ZArith Reals QArith Floats Sorted.
Import String.StringSyntax.
From CMI Require Import Cxx.C20_Defs Cxx.C20_Proofs.
Import ListNotations.

(* Printing a dictionary and parsing the printed lines gives the dictionary back.  The printer's pop loop
   (DESIGN O3) leaves stale group names on its stack when the nesting drops by >= 2 levels; the proof shows
   that this only re-prints group headers (invariant [inv]: a stale entry never matches a later key, by
   contiguity of common prefixes in the sorted map). *)
Theorem C20_parse_print_roundtrip : forall es, wf_entries es -> parse (print (dict_of es)) = Some (dict_of es).
Proof. exact parse_print_roundtrip. Qed.
Print Assumptions C20_parse_print_roundtrip.

(* the same on the text: lines joined with LF by the stream, split again by std::getline *)
Theorem C20_parse_print_roundtrip_text : forall es, wf_entries es ->
  parse_text (print_text (dict_of es)) = Some (dict_of es).
Proof. exact parse_print_roundtrip_text. Qed.
Print Assumptions C20_parse_print_roundtrip_text.

(* used-values dump ("name: used value # (value in the file)"): it re-parses to the same keys, each with its
   used value ("value not used" for keys never queried), provided the used values are well-formed values *)
Theorem C20_used_values_reparse : forall u es, wf_entries es ->
  Forall (fun e => wf_value (used_val u (e_key e))) es ->
  parse (print_used u (dict_of es)) = Some (used_dict u (dict_of es)).
Proof. exact used_values_reparse. Qed.
Print Assumptions C20_used_values_reparse.

(* the hypotheses are satisfiable, by a dictionary on which the pop loop does leave a stale entry *)
Theorem C20_wf_satisfiable_with_stale_pop : wf_entries o3_entries /\
  fst (print_entry None [S_ "a"; S_ "b"; S_ "c"] (e_key (nth 1 o3_entries ([], [], [])), []))
    = [S_ "a"; S_ "b"; S_ "d"; S_ "e"; S_ "f"].
Proof. exact (conj o3_entries_wf o3_stale_stack). Qed.
Print Assumptions C20_wf_satisfiable_with_stale_pop.

(* exhaustive small-scope evaluation of the executable model (not needed for the theorems above; it was the
   counterexample search that preceded the proof): every dictionary of <= 3 keys out of the 30 keys with
   1..4 components over the names "a", "b!" round-trips through print_text / parse_text *)
Theorem C20_small_scope_roundtrip : all_sub (sorted_keys [S_ "a"; S_ "b!"] 4) 3 [] = true.
Proof. exact small_scope_roundtrip. Qed.
Print Assumptions C20_small_scope_roundtrip.

(* ---- units, over R ---- *)
(* to SI and back (and back and to SI) is the identity for a non-zero factor *)
Theorem C20_unit_si_roundtrip : forall (u : unit_ R) (x : R), uval u <> 0%R ->
  Rfrom_si u (Rto_si u x) = x /\ Rto_si u (Rfrom_si u x) = x.
Proof. exact unit_si_roundtrip. Qed.
Print Assumptions C20_unit_si_roundtrip.

(* a product of units converts like its parts applied one after the other *)
Theorem C20_unit_product_converts : forall (u v : unit_ R) (x : R), Rto_si (Rumul u v) x = Rto_si v (Rto_si u x).
Proof. exact unit_product_converts. Qed.
Print Assumptions C20_unit_product_converts.

(* compound unit strings (token lists of get_unit): the unit of the concatenation is the product *)
Theorem C20_unit_compound_product : forall single pinned ts1 ts2 u1 u2,
  eval_tokens R Rmult Rdiv 1%R single pinned ts1 = Some u1 -> eval_tokens R Rmult Rdiv 1%R single pinned ts2 = Some u2 ->
  eval_tokens R Rmult Rdiv 1%R single pinned (ts1 ++ ts2) = Some (Rumul u1 u2).
Proof. exact unit_compound_product. Qed.
Print Assumptions C20_unit_compound_product.

(* Unit::operator^= exists in two variants selected by a boolean: [true] = pinned commit (exponent 0 keeps the
   scale factor, DESIGN O2), [false] = repaired code (hooks/c20_fix_unit_pow_zero.patch). *)

(* both variants: exponents add as long as no exponent involved is 0 *)
Theorem C20_unit_pow_add : forall pinned (u : unit_ R) (a b : Z), uval u <> 0%R -> a <> 0%Z -> b <> 0%Z -> (a + b)%Z <> 0%Z ->
  Rupow pinned u (a + b) = Rumul (Rupow pinned u a) (Rupow pinned u b).
Proof. exact unit_pow_add. Qed.
Print Assumptions C20_unit_pow_add.

(* both variants: u^0 is dimensionless *)
Theorem C20_unit_pow_zero_dimensionless : forall pinned (u : unit_ R), Forall (fun e => e = 0%Z) (uexp (Rupow pinned u 0)).
Proof. exact unit_pow_zero_dimensionless. Qed.
Print Assumptions C20_unit_pow_zero_dimensionless.

(* repaired variant: u^0 is the dimensionless unit with factor 1, and exponents add for ALL integers *)
Theorem C20_unit_pow_zero_repaired : forall u : unit_ R,
  uval (Rupow false u 0) = 1%R /\ Forall (fun e => e = 0%Z) (uexp (Rupow false u 0)).
Proof. exact unit_pow_zero_repaired. Qed.
Print Assumptions C20_unit_pow_zero_repaired.

Theorem C20_unit_pow_add_repaired : forall (u : unit_ R) (a b : Z), uval u <> 0%R ->
  Rupow false u (a + b) = Rumul (Rupow false u a) (Rupow false u b).
Proof. exact unit_pow_add_repaired. Qed.
Print Assumptions C20_unit_pow_add_repaired.

(* pinned variant: "u^0 has factor 1" is REFUTED, witness cm = 1/100 m *)
Theorem C20_unit_pow_zero_refuted : exists u : unit_ R, uval u <> 0%R /\ uval (Rupow true u 0) <> 1%R.
Proof. exact unit_pow_zero_refuted. Qed.
Print Assumptions C20_unit_pow_zero_refuted.

(* pinned variant: "exponents add" is REFUTED through exponent 0: cm^1 * cm^-1 = 1 but cm^(1-1) has factor 1/100 *)
Theorem C20_unit_pow_add_refuted : exists (u : unit_ R) (a b : Z), uval u <> 0%R /\
  uval (Rupow true u (a + b)) <> uval (Rumul (Rupow true u a) (Rupow true u b)).
Proof. exact unit_pow_add_refuted. Qed.
Print Assumptions C20_unit_pow_add_refuted.

(* the same witness on the binary64 model that is compared with the real UnitConverter on every run *)
Theorem C20_float_pow_zero_witness :
  f_get_unit true (S_ "cm^0") = Some (mkUnit 0x1.47ae147ae147bp-7%float [0; 0; 0; 0; 0; 0]%Z) /\
  f_to_SI true 12 1%float (S_ "m cm^0") = Some 0x1.47ae147ae147bp-7%float.
Proof. exact float_pow_zero_witness. Qed.
Print Assumptions C20_float_pow_zero_witness.

Theorem C20_float_pow_zero_repaired :
  f_get_unit false (S_ "cm^0") = Some (mkUnit 1%float [0; 0; 0; 0; 0; 0]%Z) /\
  f_to_SI false 12 1%float (S_ "m cm^0") = Some 1%float.
Proof. exact float_pow_zero_repaired. Qed.
Print Assumptions C20_float_pow_zero_repaired.

(* cross-quantity conversions of try_conversion invert each other *)
Theorem C20_photon_energy_frequency_inverse : forall (h c : R) (ue uf : unit_ R) (x : R),
  h <> 0%R -> uval ue <> 0%R -> uval uf <> 0%R -> uexp ue = exps_energy -> uexp uf = exps_frequency ->
  exists y, try_conversion R Rmult Rdiv 1%R h c x ue uf = Some y /\ try_conversion R Rmult Rdiv 1%R h c y uf ue = Some x.
Proof. exact photon_energy_frequency_inverse. Qed.
Print Assumptions C20_photon_energy_frequency_inverse.

Theorem C20_photon_wavelength_frequency_inverse : forall (h c : R) (ul uf : unit_ R) (x : R),
  c <> 0%R -> x <> 0%R -> uval ul <> 0%R -> uval uf <> 0%R -> uexp ul = exps_length -> uexp uf = exps_frequency ->
  exists y, try_conversion R Rmult Rdiv 1%R h c x ul uf = Some y /\ try_conversion R Rmult Rdiv 1%R h c y uf ul = Some x.
Proof. exact photon_wavelength_frequency_inverse. Qed.
Print Assumptions C20_photon_wavelength_frequency_inverse.

(* the built-in table (binary64 values as the compiler rounds the literals) agrees with itself within 1 ulp:
   kpc = 1000 pc, Gyr = 1000 Myr, Myr = 1e6 yr, Gyr = 1e9 yr, km = 1000 m, m = 100 cm, kg = 1000 g,
   J = 1e7 erg, bar = 1e5 Pa, m = 1e10 angstrom *)
Theorem C20_unit_table_consistent : table_consistent = true.
Proof. exact unit_table_consistent. Qed.
Print Assumptions C20_unit_table_consistent.

(* ---- snapshot reader (Cartesian): for every grid size n and every cell i, both index computations
   (filling the grid from the stored coordinates, looking a cell midpoint up) return i; exact arithmetic *)
Theorem C20_snapshot_index_inverse : forall (n i : Z) (anchor side : Q),
  (0 <= i < n)%Z -> ~ (side == 0)%Q ->
  snap_lookup_index n anchor side (cell_mid n i anchor side) = i /\
  snap_fill_index n side (cell_mid n i anchor side - anchor)%Q = i.
Proof. exact snapshot_index_inverse. Qed.
Print Assumptions C20_snapshot_index_inverse.
