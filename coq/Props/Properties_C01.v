(* C01  Every photon packet launched in an iteration terminates exactly once.
   Statements only; proofs in Cxx/C01_Proofs.v.  The model (Cxx/C01_Defs.v) is an interleaving
   semantics of one iteration's parallel region: any number of threads NTHR >= 1, any buffer size
   CAP >= 1, any neighbour function (any layout / periodicity / copies), diffuse field on or off,
   any list of source tasks whose counts sum to the requested number NREQ, and ANY schedule
   (list of labels).  fixed_loop = true is the worker loop as repaired; false the pinned commit. *)
From Coq Require Import List Arith Bool Permutation.
From CMI Require Import Cxx.C01_Defs Cxx.C01_Proofs Cxx.C01_Gen Cxx.C01_GenProofs Cxx.C01_SourceDefs Cxx.C01_SourceProofs.
Import ListNotations.

(* In every reachable state every packet created so far is in exactly one place -- an active
   buffer of a subgrid, a thread-local continuous-source buffer, the buffer of exactly one queued or
   fetched task, or terminated -- (no loss, no duplication), the done counter equals the number of
   terminated packets, and created + still-to-be-created = requested. *)
Theorem C01_packets_accounted : forall CAP NTHR NREQ reemit ngb, 0 < CAP -> forall srcs crem s,
  init_ok NREQ srcs crem -> 0 < NTHR -> reachable CAP NTHR NREQ reemit ngb srcs crem s ->
  Permutation (packets s) (seq 0 (fresh s)) /\ NoDup (packets s) /\ done s = length (term s) /\ fresh s + pending s = NREQ.
Proof. exact packets_accounted. Qed.
Print Assumptions C01_packets_accounted.

(* The run flag is cleared only when all requested packets have terminated, each exactly once:
   requested = terminated. *)
Theorem C01_flag_cleared_only_when_all_done : forall CAP NTHR NREQ reemit ngb, 0 < CAP -> forall srcs crem s,
  init_ok NREQ srcs crem -> 0 < NTHR -> reachable CAP NTHR NREQ reemit ngb srcs crem s ->
  flag s = false -> Permutation (term s) (seq 0 NREQ) /\ done s = NREQ.
Proof. exact flag_cleared_only_when_all_done. Qed.
Print Assumptions C01_flag_cleared_only_when_all_done.

(* Tasks whose dependency is held (fetched or running) by different threads never share a dependency: two traversal tasks of one subgrid (or two
   source/flush tasks of one continuous block) are never in progress at the same time. *)
Theorem C01_mutual_exclusion : forall CAP NTHR NREQ reemit ngb, 0 < CAP -> forall srcs crem s,
  init_ok NREQ srcs crem -> 0 < NTHR -> reachable CAP NTHR NREQ reemit ngb srcs crem s ->
  NoDup (sdeps (locked s)) /\ NoDup (bdeps (locked s)).
Proof. exact mutual_exclusion. Qed.
Print Assumptions C01_mutual_exclusion.

(* When every thread has left the loop (repaired loop): no queue entry, no active or thread-local
   buffer, no held lock is left behind, and the terminated packets are exactly the requested ones. *)
Theorem C01_clean_at_exit : forall CAP NTHR NREQ reemit ngb, 0 < CAP -> forall srcs crem s,
  init_ok NREQ srcs crem -> 0 < NTHR -> reachable CAP NTHR NREQ reemit ngb srcs crem s ->
  Forall (fun p => p = PExit) (thr s) ->
  queue s = [] /\ active s = [] /\ local s = [] /\ slocks s = [] /\ blocks s = []
  /\ Permutation (term s) (seq 0 NREQ) /\ done s = NREQ /\ flag s = false.
Proof. exact clean_at_exit. Qed.
Print Assumptions C01_clean_at_exit.

(* The invariant behind the four theorems is inductive over single steps (used by the trace validator: every
   event of a real run must be an enabled step of this model). *)
Theorem C01_invariant_inductive : forall CAP NTHR NREQ reemit ngb s l s',
  0 < CAP -> Inv NTHR NREQ s -> step CAP NTHR NREQ reemit ngb true s l = Some s' -> Inv NTHR NREQ s'.
Proof. intros CAP NTHR NREQ reemit ngb s l s' HC HI HS. eapply trans_inv; [exact HC|exact HI|eapply step_trans; exact HS]. Qed.
Print Assumptions C01_invariant_inductive.

(* Defect O7 of the pinned commit: with the loop condition "while (global_run_flag)" a thread that fetched a task
   in the else branch leaves with it when the flag has been cleared meanwhile: both threads have exited, all
   packets are done, and the dependency of block 1 is still locked (so the next iteration's source task of that
   block can never start).  Concrete schedule, 2 threads. *)
Theorem C01_pinned_loop_refuted :
  exists s, o7_final false = Some s /\ thr s = [PExit; PExit] /\ blocks s = [1] /\ done s = 2.
Proof. exact pinned_loop_refuted. Qed.
Print Assumptions C01_pinned_loop_refuted.

(* The same schedule on the repaired loop: the thread keeps the task and will run it (premises of the theorems
   above are satisfiable: this is a reachable state of a well-formed initial state). *)
Theorem C01_repaired_loop_same_schedule :
  (exists s, o7_final true = Some s /\ thr s = [PInner (Some (TFlush 1)); PExit]) /\ init_ok 2 [TSrcC 0 2] 2.
Proof. exact (conj repaired_loop_same_schedule o7_init_ok). Qed.
Print Assumptions C01_repaired_loop_same_schedule.

(* Tie to the source: the transition function with the loop condition and the termination test REGENERATED from
   src/TaskBasedIonizationSimulation.cpp and src/TaskBasedRadiationHydrodynamicsSimulation.cpp (C01_Gen.v, written by
   tools/c01_guards.py on every run) is the transition function all theorems above are about. *)
Theorem C01_source_guards_are_model_guards : forall CAP NTHR NREQ reemit ngb s l,
  step_g CAP NTHR reemit ngb gen_loop_ion (fun e d => gen_term_ion e d NREQ) s l = step CAP NTHR NREQ reemit ngb true s l
  /\ step_g CAP NTHR reemit ngb gen_loop_rhd (fun e d => gen_term_rhd e d NREQ) s l = step CAP NTHR NREQ reemit ngb true s l.
Proof. exact generated_step_is_model. Qed.
Print Assumptions C01_source_guards_are_model_guards.

Theorem C01_source_termination_test_read_order :
  gen_translated = true /\ gen_reads_ion = [0; 1] /\ gen_reads_rhd = [0; 1].
Proof. exact (conj gen_translated_ok gen_reads_ok). Qed.
Print Assumptions C01_source_termination_test_read_order.

(* ---- source side: the requested number is split exactly (C01_SourceDefs.v models DistributedPhotonSource and the
   "photon source tasks" loops; inputs: per source (floor(N*weight), number of subgrid copies + 1) and the random draws
   that place the remainder packets) ---- *)
(* constructor: one entry per source copy; the entries add up to the floors plus the remainder packets *)
Theorem C01_source_totals_sum : forall ss draws,
  Forall (fun s => 1 <= snd s) ss -> Forall (fun d => d < length ss) draws ->
  sum (totals ss draws) = sum (map fst ss) + length draws /\ length (totals ss draws) = sum (map snd ss).
Proof. exact totals_sum. Qed.
Print Assumptions C01_source_totals_sum.

(* ... hence exactly the requested number N, provided the floors do not exceed N (otherwise the size_t subtraction
   that computes the number of remainder packets wraps: C01_source_overhead_wraps) *)
Theorem C01_source_totals_exact : forall N ss draws k,
  Forall (fun s => 1 <= snd s) ss -> Forall (fun d => d < length ss) draws ->
  num_overhead N ss = Some k -> length draws = k -> sum (totals ss draws) = N.
Proof. exact totals_exact. Qed.
Print Assumptions C01_source_totals_exact.

Theorem C01_source_overhead_wraps : forall N ss, N < sum (map fst ss) -> num_overhead N ss = None.
Proof. exact num_overhead_wraps. Qed.
Print Assumptions C01_source_overhead_wraps.

(* the round-robin batch loop terminates and hands out every packet of every source copy exactly once, in batches of
   1..cap packets (final number_done vector = totals) *)
Theorem C01_source_batches : forall cap, 1 <= cap -> forall fuel dn tot done_sum,
  Forall2 le dn tot -> done_sum = sum dn -> sum tot - sum dn < fuel ->
  exists ts, rr_loop fuel cap (sum tot) done_sum dn tot = Some (ts, tot, sum tot)
    /\ sum (map snd ts) = sum tot - sum dn /\ sizes_ok cap ts.
Proof. exact rr_loop_spec. Qed.
Print Assumptions C01_source_batches.

Theorem C01_continuous_batches : forall n b nblocks, 1 <= b -> 1 <= nblocks ->
  sum (map snd (cont_tasks n b nblocks)) = n /\ sizes_ok b (cont_tasks n b nblocks)
  /\ Forall (fun e => fst e < nblocks) (cont_tasks n b nblocks).
Proof. exact cont_tasks_spec. Qed.
Print Assumptions C01_continuous_batches.

(* the source tasks queued for one iteration carry exactly the requested number of packets: this is the premise
   (counts of the source tasks sum to NREQ) of the invariant theorems above *)
Theorem C01_source_tasks_carry_request : forall cap ndiscrete ncont nblocks tot,
  1 <= cap -> 1 <= nblocks -> sum tot = ndiscrete ->
  exists l, all_source_sizes cap ndiscrete ncont nblocks tot = Some l
    /\ sum l = ndiscrete + ncont /\ Forall (fun k => 1 <= k <= cap) l.
Proof. exact all_source_sizes_spec. Qed.
Print Assumptions C01_source_tasks_carry_request.
