(* C09  A stopped and restarted run continues exactly.
   Only statements, each closed by [exact] of a lemma of Cxx/C09_Proofs.v.
   The regenerated inventory (Cxx/C09_Gen.v) is evaluated against these theorems' premises by the driver
   (inventory_ok / report by vm_compute on every run); it is deliberately not required here, so that a change of
   /repo that breaks the inventory is reported by name instead of breaking the proof build. *)
From Coq Require Import List NArith Bool String Strings.Byte Floats.
From CMI Require Import Cxx.C09_Defs Cxx.C09_Proofs.
Import ListNotations.
Local Open Scope N_scope.

(* Every typed value RestartWriter::write<T> can be given (bool, integers of any width, doubles as bit patterns,
   trivially copyable structs, strings WITHOUT an embedded NUL, string maps in key order) is read back unchanged by
   RestartReader::read<T>, and exactly its bytes are consumed -- for every sizeof(size_t). *)
Theorem C09_codec_roundtrip : forall szw t v rest,
  wf szw t v -> decode szw t (encode szw t v ++ rest) = Some (v, rest).
Proof. exact codec_roundtrip. Qed.
Print Assumptions C09_codec_roundtrip.

(* If the reader asks for the same type sequence the writer used, it gets exactly the written values and consumes
   exactly the written bytes. *)
Theorem C09_stream_roundtrip : forall szw ts rest,
  Forall (fun tv => wf szw (fst tv) (snd tv)) ts ->
  decode_stream szw (map fst ts) (encode_stream szw ts ++ rest) = Some (map snd ts, rest).
Proof. exact stream_roundtrip. Qed.
Print Assumptions C09_stream_roundtrip.

(* write -> read -> write yields identical bytes *)
Theorem C09_rewrite_identical : forall szw ts vs r,
  Forall (fun tv => wf szw (fst tv) (snd tv)) ts ->
  decode_stream szw (map fst ts) (encode_stream szw ts) = Some (vs, r) ->
  r = [] /\ encode_stream szw (combine (map fst ts) vs) = encode_stream szw ts.
Proof. exact rewrite_identical. Qed.
Print Assumptions C09_rewrite_identical.

(* Soundness of the inventory checker: if `symmetric` accepts an inventory (every class's writer and reader structure
   and the dump / restart sequences of do_simulation are equal token by token -- type, target, nesting -- and every
   factory restores exactly the classes that can be written), then for EVERY oracle (loop trip counts, optional
   components present or not, dynamic classes) the restart path asks for exactly the type sequence the dump wrote. *)
Theorem C09_inventory_symmetric_sound : forall inv, symmetric inv = true ->
  forall fuel o, restart_types inv fuel o = dump_types inv fuel o.
Proof. exact inventory_symmetric_sound. Qed.
Print Assumptions C09_inventory_symmetric_sound.

(* ... hence the restarted program reads back exactly the values that were dumped. *)
Theorem C09_restart_reads_what_was_dumped : forall szw inv, symmetric inv = true ->
  forall fuel o tys o' ts rest,
    dump_types inv fuel o = Some (tys, o') ->
    map fst ts = tys ->
    Forall (fun tv => wf szw (fst tv) (snd tv)) ts ->
    exists rtys, restart_types inv fuel o = Some (rtys, o')
                 /\ decode_stream szw rtys (encode_stream szw ts ++ rest) = Some (map snd ts, rest).
Proof. exact restart_reads_what_was_dumped. Qed.
Print Assumptions C09_restart_reads_what_was_dumped.

(* Every data member the checker passes is dumped and restored, or is listed in the committed table as transient or as
   derived by the same expression. *)
Theorem C09_members_accounted : forall inv, members_ok inv = true ->
  forall c m w r, In c (i_classes inv) -> In (m, w, r) (c_members c) ->
    (w = true /\ r = true) \/ (exists k, find_cat (i_table inv) (c_name c) m = Some k /\ k <> CDerived false).
Proof. exact members_accounted. Qed.
Print Assumptions C09_members_accounted.

(* Continuation, for an arbitrary step function over persisted x derived x transient state: if the restart
   recomputes the derived members by the SAME function as the normal construction, the derived members stay that
   function of the persisted ones, and transient members are reset before use, then stopping after ANY k <= N steps,
   dumping, restoring and running the remaining N-k steps ends in the same persisted and derived state. *)
Theorem C09_continuation : forall (P D T : Type) (step : P -> D -> T -> P * D * T) (f g : P -> D) (t0 : T),
  (forall p, g p = f p) ->
  (forall p t, snd (fst (step p (f p) t)) = f (fst (fst (step p (f p) t)))) ->
  (forall p d t t', fst (step p d t) = fst (step p d t')) ->
  forall N k s0, good P D T f s0 -> (k <= N)%nat ->
    pd P D T (run P D T step N s0)
    = pd P D T (run P D T step (N - k) (restore P D T g t0 (dump P D T (run P D T step k s0)))).
Proof. exact continuation. Qed.
Print Assumptions C09_continuation.

(* ... and any chain of stop/restart cycles k1, k2, ... followed by m more steps equals the uninterrupted run. *)
Theorem C09_restart_chain : forall (P D T : Type) (step : P -> D -> T -> P * D * T) (f g : P -> D) (t0 : T),
  (forall p, g p = f p) ->
  (forall p t, snd (fst (step p (f p) t)) = f (fst (fst (step p (f p) t)))) ->
  (forall p d t t', fst (step p d t) = fst (step p d t')) ->
  forall ks m s0, good P D T f s0 ->
    pd P D T (run P D T step m (run_chain P D T step g t0 ks s0))
    = pd P D T (run P D T step (list_sum ks + m) s0).
Proof. exact restart_chain. Qed.
Print Assumptions C09_restart_chain.

(* REFUTED for the pinned code (defect D3): DensitySubGrid's restart constructor recomputes _inv_cell_size as
   1./_cell_size while the normal constructor uses ncell/side; the two differ in binary64 (9 cells on 10 m). *)
Theorem C09_inv_cell_size_refuted : exists n side : float, inv_ctor n side <> inv_restart n side.
Proof. exact inv_cell_size_refuted. Qed.
Print Assumptions C09_inv_cell_size_refuted.

(* ... and then the continuation fails: with these two expressions as f and g one step after a restart already gives
   another persisted state than the uninterrupted run. *)
Theorem C09_continuation_without_same_f_refuted :
  exists p0, let s0 := (p0, toy_f p0, tt) in
             dump _ _ _ (run _ _ _ toy_step 1 s0)
             <> dump _ _ _ (run _ _ _ toy_step 1 (restore _ _ _ toy_g tt (dump _ _ _ s0))).
Proof. exact continuation_needs_same_f. Qed.
Print Assumptions C09_continuation_without_same_f_refuted.
