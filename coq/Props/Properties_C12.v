(* C12  Complete runs end normally without touching invalid or uninitialised memory.
   What is carried by theorems: the life cycle of owning raw pointers (claimed at level "other":
   bounds, container internals and uninitialised scalars are only observed with valgrind/sanitizers).
   gen_programs is REGENERATED from the clang AST of /repo on every run. *)
From Coq Require Import List String Bool.
From CMI Require Import Cxx.C12_Defs Cxx.C12_Proofs Cxx.C12_Gen Cxx.C12_GenProofs.
Import ListNotations.

(* Soundness of the analysis: a program accepted by the checker cannot read, test or delete an
   uninitialised or freed pointer, whatever the uninterpreted conditions (configuration flags,
   optional components on or off) evaluate to and however often loops iterate. *)
Theorem C12_analysis_sound : forall np st, prog_safe np st = true ->
  forall o, exec st cinit o -> o <> Err.
Proof. exact prog_safe_sound. Qed.
Print Assumptions C12_analysis_sound.

(* Every constructor;destructor pair of every class of /repo/src with raw-pointer members, and the
   bodies of do_simulation and main, as they are in the tree now, are accepted by the checker. *)
Theorem C12_all_lifecycles_safe :
  forall n np st, In (n, np, st) gen_programs -> forall o, exec st cinit o -> o <> Err.
Proof. exact all_lifecycles_safe. Qed.
Print Assumptions C12_all_lifecycles_safe.

(* The constructor of the pinned commit's LiveOutputManager (one of four optional calculators not
   initialised, all four tested and deleted by the destructor) is rejected, and for a reason:
   there IS an execution that goes wrong. *)
Theorem C12_pinned_live_output_manager_refuted :
  prog_safe 4 pinned_live_output_manager = false /\ exec pinned_live_output_manager cinit Err.
Proof. exact pinned_lom_refuted. Qed.
Print Assumptions C12_pinned_live_output_manager_refuted.
