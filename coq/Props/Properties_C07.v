(* C07  Hydro task graph: every task once, in order, conflict-free, terminates.
   Only statements, each closed by [exact] of a lemma of Cxx/C07_Proofs.v / Cxx/C07_Phases.v / Cxx/C07_GraphGen.v / Cxx/C07_Graph.v.

   Model (Cxx/C07_Defs.v): [step g s (L i pick)] is one access of worker thread i to shared data in the worker loop
   of the hydro step (control points LoopHead / Fetch / Run / Unlock / Release k / Enq k / Inc k, in the order of the
   code); [exec g (init g n) sched] is the state after an ARBITRARY schedule [sched] (which thread moves, which
   queued lockable task a fetch returns or that it returns none) of n threads; [log] is the ghost sequence of
   start/stop events (newest first).  [wf g] is the well-formedness of a task graph, decided by [wf_check]. *)
From Coq Require Import Arith List Bool PeanoNat.
From CMI Require Import Cxx.C07_Defs Cxx.C07_Base Cxx.C07_Proofs Cxx.C07_Phases Cxx.C07_GraphGen Cxx.C07_Graph.
Import ListNotations.

(* No task is started or stopped twice; when every thread has left the loop every task has been started and stopped. *)
Theorem C07_exactly_once : forall g n sched, wf g -> 1 <= n ->
  let s := exec g (init g n) sched in
  NoDup (log s) /\ (all_exited s -> forall t, t < length g -> In (EStart t) (log s) /\ In (EStop t) (log s)).
Proof. exact exactly_once. Qed.
Print Assumptions C07_exactly_once.

(* Whenever a task c is started, every task p that has c as a child was stopped before. *)
Theorem C07_parents_first : forall g n sched, wf g -> 1 <= n ->
  let s := exec g (init g n) sched in
  forall l1 l2 c p, log s = l1 ++ EStart c :: l2 -> p < length g -> In c (children (tk g p)) -> In (EStop p) l2.
Proof. exact parents_first. Qed.
Print Assumptions C07_parents_first.

(* Two threads between a successful lock_dependency and unlock_dependency never share a lock, hence (locks cover
   the touched subgrids) never touch the same subgrid. *)
Theorem C07_mutual_exclusion : forall g n sched, wf g -> 1 <= n ->
  let s := exec g (init g n) sched in
  forall i j t u, i <> j -> holds (pcf s i) = Some t -> holds (pcf s j) = Some u ->
    (forall a, In a (locks (tk g t)) -> ~ In a (locks (tk g u))) /\
    (forall x, In x (touches (tk g t)) -> ~ In x (touches (tk g u))).
Proof. exact mutual_exclusion. Qed.
Print Assumptions C07_mutual_exclusion.

(* number_of_tasks: exact accounting (queued + in the loop body - queued-but-not-yet-counted); with no thread in the
   loop body it is 0 exactly when every task has finished; it is 0 when all threads have left; neither it nor a
   parent counter is ever decremented at 0.  (It CAN be 0 transiently while a thread sits between add_task and
   pre_increment: see C07_early_exit_possible.) *)
Theorem C07_counter_exact : forall g n sched, wf g -> 1 <= n ->
  let s := exec g (init g n) sched in
  ntasks s + count_pc at_incb (pcs s) = length (queue s) + count_pc activeb (pcs s)
  /\ (quiet s -> (ntasks s = 0 <-> forall t, t < length g -> In (EStop t) (log s)))
  /\ (all_exited s -> ntasks s = 0)
  /\ (forall i t k, nth_error (pcs s) i = Some (Release t k) ->
        (nth_error (children (tk g t)) k = None -> 1 <= ntasks s) /\
        (forall c, nth_error (children (tk g t)) k = Some c -> 1 <= nth c (cnt s) 0)).
Proof. exact counter_exact. Qed.
Print Assumptions C07_counter_exact.

(* Deadlock freedom: while some thread is still in the loop, some thread can strictly decrease the measure with one
   step of its own, or with two (the first being the loop head test or a fetch returning NO_TASK). *)
Theorem C07_progress : forall g n sched, wf g -> 1 <= n ->
  let s := exec g (init g n) sched in
  ~ all_exited s ->
  exists i, (exists p s', step g s (L i p) = Some s' /\ mu g s' < mu g s)
         \/ (exists s1 p s', step g s (L i None) = Some s1 /\ mu g s1 <= mu g s /\
                             step g s1 (L i p) = Some s' /\ mu g s' < mu g s).
Proof. exact progress_reach. Qed.
Print Assumptions C07_progress.

(* Every step other than "loop head sees work" and "fetch returns NO_TASK" strictly decreases the measure mu, those
   two leave it unchanged; mu starts at sum_t (3 children(t) + 4) + n.  Hence at most that many non-idle steps:
   termination under weak fairness of the threads.  Termination against a scheduler that starves a thread that
   could move is not a property of a spin loop and is NOT claimed. *)
Theorem C07_bounded_work : forall g n sched, wf g -> 1 <= n ->
  let s := exec g (init g n) sched in
  (forall l s', step g s l = Some s' -> mu g s' < mu g s \/ (mu g s' = mu g s /\ idle s l = true))
  /\ mu g (init g n) = sumn (full g) (length g) + n.
Proof. intros g n sched W N1 s. split. exact (bounded_work g n sched W N1). exact (mu_init g n). Qed.
Print Assumptions C07_bounded_work.

(* Consecutive steps: when all threads have left, queues and locks are empty, so rewriting the counters and
   refilling the queue (reset_hydro_tasks + the loop after it) gives exactly the initial state again. *)
Theorem C07_reset_reestablishes_init : forall g n sched, wf g -> 1 <= n ->
  let s := exec g (init g n) sched in all_exited s -> next_step g n s = init g n.
Proof. exact reset_reestablishes_init. Qed.
Print Assumptions C07_reset_reestablishes_init.

Theorem C07_wf_check_sound : forall g, wf_check g = true -> wf g.
Proof. exact wf_check_sound. Qed.
Print Assumptions C07_wf_check_sound.

(* The task graph built by make_hydro_tasks/set_dependencies/reset_hydro_tasks of the repaired code ([make_graph true])
   is well formed for EVERY layout - any number >= 1 of subgrids per axis, every periodicity, including periodic axes with
   one or two subgrids.  Hence all theorems above apply to every hydro step of the code.  Proof (Cxx/C07_GraphGen.v):
   closed form of the sequential task numbering (C07_make_graph_numbering), mutual in-range neighbours
   (C07_neighbours_mutual), and counting of the 23 edges per subgrid over slot references: the counters 0/7/1/1|2/7/1 of
   reset_hydro_tasks are exactly the in-degrees, <= 7 children, edges go up in phase, locks cover the touched subgrids. *)
Theorem C07_make_graph_wf : forall Y, 1 <= lnx Y -> 1 <= lny Y -> 1 <= lnz Y -> wf (make_graph true Y).
Proof. exact make_graph_wf. Qed.
Print Assumptions C07_make_graph_wf.

(* Every layout: the locks of a task are EXACTLY the locks of the subgrids it touches, and a pair task of a subgrid with
   itself (one subgrid on a periodic axis - the layouts of defect D2) has exactly one lock, that of its subgrid. *)
Theorem C07_make_graph_locks_exact : forall Y, 1 <= lnx Y -> 1 <= lny Y -> 1 <= lnz Y ->
  forall t, t < length (make_graph true Y) ->
    (forall x, In x (locks (tk (make_graph true Y) t)) <-> In x (touches (tk (make_graph true Y) t))) /\
    (other (tk (make_graph true Y) t) = Some (sub (tk (make_graph true Y) t)) ->
     locks (tk (make_graph true Y) t) = [sub (tk (make_graph true Y) t)]).
Proof. exact make_graph_locks_exact. Qed.
Print Assumptions C07_make_graph_locks_exact.

(* SEMANTIC ordering of the hydro step.  Phases ([rk g t] = rank_of (kind ..)): 0 gradient sweeps (GI GN GB) -> 1 slope
   limiter (SL) -> 2 primitive prediction (PP) -> 3 flux sweeps (FI FN FB) -> 4 conserved update (UC) -> 5 primitive
   update (UP).  [phases_ordered g]: for every subgrid s and tasks t1, t2 of the table that both touch s ([touches]:
   Task::_subgrid and, for pair tasks, Task::_buffer) with t2 in the phase directly after t1, t2 is a DIRECT child of t1
   (po_next), and every phase has a task that touches s (po_chain).  It holds for the graph the code builds, for EVERY
   layout and periodicity (from the closed form of C07_GraphGen.v: the 23-edge template of set_dependencies is exactly
   the set of slot pairs of consecutive phases, and a pair task is seen from its neighbour through the negative-side
   slot).  A missing or misdirected edge of set_dependencies that keeps the parent counts (so [wf] still holds and
   nothing hangs) falsifies it. *)
Theorem C07_phases_ordered : forall Y, 1 <= lnx Y -> 1 <= lny Y -> 1 <= lnz Y -> phases_ordered (make_graph true Y).
Proof. exact make_graph_phases. Qed.
Print Assumptions C07_phases_ordered.

(* ... hence, in EVERY run (any number of threads, any schedule) a task that touches subgrid x is never started before
   every task of an EARLIER phase that touches x has stopped (log is newest first: the stop lies before the start). *)
Theorem C07_phases_ordered_in_every_run : forall g n sched, wf g -> phases_ordered g -> 1 <= n ->
  forall l1 l2 t1 t2 x,
    log (exec g (init g n) sched) = l1 ++ EStart t2 :: l2 -> t1 < length g -> t2 < length g ->
    In x (touches (tk g t1)) -> In x (touches (tk g t2)) -> rk g t1 < rk g t2 -> In (EStop t1) l2.
Proof. exact phases_in_every_run. Qed.
Print Assumptions C07_phases_ordered_in_every_run.

(* the executable check evaluated on every dumped REAL task table ([phases_ordered_find] returns the first offender) *)
Theorem C07_phases_ordered_check_sound : forall g, phases_ordered_check g = true -> phases_ordered g.
Proof. exact phases_ordered_check_sound. Qed.
Print Assumptions C07_phases_ordered_check_sound.

(* Closed form of the sequential numbering (tasks.get_free_element() hands out consecutive indices): [base Y i] = number of
   tasks of the subgrids before i, [num Y (j, s)] = base Y j + number of slots < s of subgrid j that hold a task.  Every
   task number is num of exactly the slot it was created for, the slot table (set_hydro_task) holds num, the task has
   the fields given by make_hydro_tasks for that slot, and its children are the edges [EN Y] of set_dependencies. *)
Theorem C07_make_graph_numbering : forall Y, 1 <= lnx Y -> 1 <= lny Y -> 1 <= lnz Y ->
  length (make_graph true Y) = base Y (nsub Y) /\
  (forall t, t < length (make_graph true Y) -> exists j s, j < nsub Y /\ present Y j s = true /\ t = num Y (j, s)) /\
  (forall j s, j < nsub Y -> present Y j s = true ->
     num Y (j, s) < length (make_graph true Y) /\
     ht (make_slots true Y) j s = Some (num Y (j, s)) /\
     let t := tk (make_graph true Y) (num Y (j, s)) in
     nth s (slot_tasks true Y j) None = Some (setch t []) /\
     forall c, In c (children t) <-> In (num Y (j, s), c) (EN Y)).
Proof. exact make_graph_numbering. Qed.
Print Assumptions C07_make_graph_numbering.

(* Face neighbours of DensitySubGridCreator::create_subgrid (d = 0 2 4: x+ y+ z+, d + 1: the opposite face) are mutual
   and in range, for every layout and periodicity (div/mod index arithmetic with periodic wrap). *)
Theorem C07_neighbours_mutual : forall Y, 1 <= lnx Y -> 1 <= lny Y -> 1 <= lnz Y ->
  forall i j d, i < nsub Y -> j < nsub Y -> In d [0; 2; 4] -> (nb Y i d = Some j <-> nb Y j (S d) = Some i).
Proof. exact nb_mutual. Qed.
Print Assumptions C07_neighbours_mutual.

Theorem C07_neighbours_in_range : forall Y, 1 <= lnx Y -> 1 <= lny Y -> 1 <= lnz Y ->
  forall i j d, i < nsub Y -> d < 6 -> nb Y i d = Some j -> j < nsub Y.
Proof. exact nb_in_range. Qed.
Print Assumptions C07_neighbours_in_range.

(* Cross-check by evaluation in the kernel, independent of the general proof: the boolean [wf_check] - the checker that
   the run-time tie evaluates on the dumped REAL task tables - accepts make_graph true for all 512 layouts with 1..4
   subgrids per axis and all periodicities (so the checker is not stricter than what the code builds). *)
Theorem C07_wf_check_accepts_upto_4 : check_upto 4 = true.
Proof. exact check_upto_bound. Qed.
Print Assumptions C07_wf_check_accepts_upto_4.

(* A pair task of a subgrid with itself (one subgrid on a periodic axis) has exactly one lock, the lock of the only
   subgrid it touches, which every other task of that subgrid also takes (all layouts up to 3 x 3 x 3): it is covered
   by C07_mutual_exclusion.  The former D2 witness: task 1 of 1 x 2 x 2 periodic in x. *)
Theorem C07_self_pair_single_lock :
  forallb (fun Y => self_pairs_ok (make_graph true Y)) (layouts_upto 3) = true
  /\ (let t := tk (make_graph true (mkLayout 1 2 2 true false false)) 1 in
      kind t = GN /\ sub t = 0 /\ other t = Some 0 /\ dep0 t = Some 0 /\ dep1 t = None /\ locks t = [0] /\ touches t = [0; 0]
      /\ locks (tk (make_graph true (mkLayout 1 2 2 true false false)) 0) = [0]).
Proof. split. exact self_pairs_single_lock. exact D2_witness_fixed_task. Qed.
Print Assumptions C07_self_pair_single_lock.

(* REFUTED for the pinned commit ([make_graph false]: set_extra_dependency stored the pointer unconditionally): with one
   subgrid on a periodic axis the graph is not well formed (defect D2, fixed in the repository) ... *)
Theorem C07_self_neighbour_refuted : exists Y, 1 <= lnx Y /\ 1 <= lny Y /\ 1 <= lnz Y /\ ~ wf (make_graph false Y).
Proof. exact self_neighbour_refuted. Qed.
Print Assumptions C07_self_neighbour_refuted.

(* ... and for 1 x 2 x 2 periodic in x the pair task 1 (x-neighbour gradient sweep of subgrid 0: both locks are
   the lock of subgrid 0) is never started, for any number of threads and any schedule: the step cannot complete. *)
Theorem C07_self_neighbour_never_completes : forall n sched,
  ~ In (EStart 1) (log (exec (make_graph false (mkLayout 1 2 2 true false false))
                             (init (make_graph false (mkLayout 1 2 2 true false false)) n) sched)).
Proof. exact self_neighbour_never_completes. Qed.
Print Assumptions C07_self_neighbour_never_completes.

(* Observation (no violation of C07): a thread can leave the loop while tasks are still unfinished, because a child
   is queued (add_task) before it is counted (pre_increment).  1 x 1 x 1, two threads: thread 1 exits with
   number_of_tasks = 0 while the flux tasks 10..15 and the updates 16, 17 have not run; thread 0 finishes alone. *)
Theorem C07_early_exit_possible :
  let g := make_graph true (mkLayout 1 1 1 false false false) in
  let s := exec g (init g 2) early_sched in
  wf g /\ nth 1 (pcs s) Exited = Exited /\ nth 0 (pcs s) Exited = Inc 8 0 /\ ntasks s = 0
  /\ stoppedb s 9 = true /\ stoppedb s 10 = false /\ stoppedb s 17 = false.
Proof. exact early_exit_possible. Qed.
Print Assumptions C07_early_exit_possible.

Theorem C07_early_exit_still_completes :
  let g := make_graph true (mkLayout 1 1 1 false false false) in
  let s := exec g (init g 2) (early_sched ++ finish_sched) in
  pcs s = [Exited; Exited] /\ forallb (stoppedb s) (seq 0 (length g)) = true /\ length (log s) = 36.
Proof. exact early_exit_still_completes. Qed.
Print Assumptions C07_early_exit_still_completes.
