(* C16  Every position maps to one cell (AMR, Morton, Cartesian; search structures partial; Voronoi excluded).
   Only statements, each closed by [exact] of a lemma of Cxx/C16_Proofs.v.

   Vocabulary (Cxx/C16_Defs.v, Cxx/C16_Proofs.v):
     tree           an AMR block after any refinement history (C16_amr_trees_are_histories)
     leaves t       its single cells in depth first order, each named by the child numbers on the way down
     code p         the key of cell p: child number of level l in bits [3l,3l+3), one marker bit above
     box_of_path    the box a cell was created with;  inbox p b: position p lies in the half open box b
     okbox n b      every side of b is a positive multiple of 2^n lattice units (halving n times is exact)
     grid, gleaves  nx x ny x nz blocks (any counts 1..1024, odd ones included), all cells in loop order
     gcode          64 bit key: (ix<<20 + iy<<10 + iz) << 32 + code *)
From Coq Require Import ZArith List Bool.
From CMI Require Import Cxx.C16_Defs Cxx.C16_Proofs.
Import ListNotations.
Local Open Scope Z_scope.

(* ---- A. one AMR block ----------------------------------------------------------------------- *)

(* get_first_key / get_next_key visit every single cell exactly once, in depth first order, and then
   return the sentinel: the loop "key = first; while (key != max) key = next(key)" produces exactly the
   list of cell keys, whatever the fuel above the number of cells *)
Theorem C16_amr_enumeration : forall t fuel,
  (length (leaves t) < fuel)%nat -> enumerate fuel t = map code (leaves t).
Proof. exact enumerate_leaves. Qed.
Print Assumptions C16_amr_enumeration.

(* one step of it, at any level of the recursion (low = the key bits of the levels above) *)
Theorem C16_amr_next_key : forall t level low, 0 <= level -> 0 <= low < P8 level ->
  forall l1 p l2, leaves t = l1 ++ p :: l2 ->
  next_key t (low + P8 level * code p) level =
  match l2 with [] => MAXKEY32 | p' :: _ => low + P8 level * code p' end.
Proof. exact next_key_spec. Qed.
Print Assumptions C16_amr_next_key.

(* no key is produced twice *)
Theorem C16_amr_keys_distinct : forall t, NoDup (map code (leaves t)).
Proof. exact keys_NoDup. Qed.
Print Assumptions C16_amr_keys_distinct.

Theorem C16_amr_number_of_cells : forall t, ncells t = Z.of_nat (length (leaves t)).
Proof. exact ncells_leaves. Qed.
Print Assumptions C16_amr_number_of_cells.

(* get_key(position): for every position of the block the descent ends in a single cell, returns its key,
   and the box of that cell contains the position *)
Theorem C16_amr_position_to_key : forall t level p b n,
  0 <= level -> (depth t <= n)%nat -> okbox n b -> inbox p b ->
  exists q, In q (leaves t) /\ get_key t level p b = P8 level * code q /\ inbox p (box_of_path b q).
Proof. exact get_key_spec. Qed.
Print Assumptions C16_amr_position_to_key.

(* ... and it is the only cell whose box contains the position *)
Theorem C16_amr_cells_disjoint : forall t p b n q1 q2,
  (depth t <= n)%nat -> okbox n b -> In q1 (leaves t) -> In q2 (leaves t) ->
  inbox p (box_of_path b q1) -> inbox p (box_of_path b q2) -> q1 = q2.
Proof. exact leaf_boxes_disjoint. Qed.
Print Assumptions C16_amr_cells_disjoint.

(* operator[](key): the key of a cell leads back to that cell, with its box and level *)
Theorem C16_amr_key_to_cell : forall t q b level, In q (leaves t) ->
  cell_of_key t (code q) b level = Some (Leaf, box_of_path b q, level + Z.of_nat (length q)).
Proof. exact cell_of_key_spec. Qed.
Print Assumptions C16_amr_key_to_cell.

(* the cell volumes add up to the volume of the block *)
Theorem C16_amr_volumes : forall t b n, (depth t <= n)%nat -> okbox n b ->
  zsum (map (fun q => volume (box_of_path b q)) (leaves t)) = volume b.
Proof. exact volume_sum. Qed.
Print Assumptions C16_amr_volumes.

(* refine(key of a cell) succeeds, returns the key of the first child, and replaces exactly that cell by
   its eight children *)
Theorem C16_amr_refine : forall t q, In q (leaves t) ->
  exists t', refine t (code q) = Some (t', code (q ++ [0])) /\
    forall r, In r (leaves t') <-> (In r (leaves t) /\ r <> q) \/ (exists d, 0 <= d < 8 /\ r = q ++ [d]).
Proof. exact refine_spec. Qed.
Print Assumptions C16_amr_refine.

Theorem C16_amr_refine_only_cells : forall t k t' k', refine t k = Some (t', k') ->
  exists q, In q (leaves t) /\ k = code q.
Proof. exact refine_some_is_leaf. Qed.
Print Assumptions C16_amr_refine_only_cells.

(* every tree is reached from a single cell by a sequence of refinements, so the theorems above, which
   quantify over all trees, hold after any refinement history (and the histories reach every tree) *)
Theorem C16_amr_trees_are_histories : forall t, exists ks, refine_seq Leaf ks = Some t.
Proof. exact every_tree_is_a_refinement_history. Qed.
Print Assumptions C16_amr_trees_are_histories.

(* width: up to depth 10 (the deepest level with 1 << 3*level defined for int and the cell part inside the
   low 32 bits) every cell key is below 2^31, hence different from the sentinel 0xffffffff *)
Theorem C16_amr_key_width : forall t p, In p (leaves t) -> (depth t <= 10)%nat -> 1 <= code p < 2 ^ 31.
Proof. exact key_width. Qed.
Print Assumptions C16_amr_key_width.

(* ---- A. the grid of blocks ------------------------------------------------------------------ *)

(* block index and cell part are recovered from a key; a key is below 2^62 *)
Theorem C16_grid_key_fields : forall ix iy iz cell,
  0 <= ix < 1024 -> 0 <= iy < 1024 -> 0 <= iz < 1024 -> 0 <= cell < 2 ^ 32 ->
  key_block (full_key ix iy iz cell) = (ix, iy, iz) /\ cell_key (full_key ix iy iz cell) = cell.
Proof. exact key_block_full. Qed.
Print Assumptions C16_grid_key_fields.

Theorem C16_grid_key_width : forall g c, wfgrid g -> In c (gleaves g) -> 0 <= gcode c < 2 ^ 62.
Proof. exact gcode_bound. Qed.
Print Assumptions C16_grid_key_width.

(* AMRGrid::get_first_key / get_next_key enumerate all cells of all blocks once, blocks in loop order *)
Theorem C16_grid_enumeration : forall g fuel, wfgrid g ->
  (length (gleaves g) < fuel)%nat -> grid_enumerate fuel g = map gcode (gleaves g).
Proof. exact grid_enumerate_leaves. Qed.
Print Assumptions C16_grid_enumeration.

Theorem C16_grid_keys_distinct : forall g, wfgrid g -> NoDup (map gcode (gleaves g)).
Proof. exact grid_keys_NoDup. Qed.
Print Assumptions C16_grid_keys_distinct.

(* AMRGrid::get_key(position): every position of the half open box lies in a cell, the key returned is the
   key of that cell, and no other cell contains the position *)
Theorem C16_grid_position_to_key : forall g n p, wfgrid g -> wfgeom g n -> inbox p (gbox g) ->
  exists c, In c (gleaves g) /\ grid_get_key g p = gcode c /\ inbox p (gcell_box g c).
Proof. exact grid_get_key_spec. Qed.
Print Assumptions C16_grid_position_to_key.

Theorem C16_grid_cells_disjoint : forall g n p c1 c2, wfgrid g -> wfgeom g n ->
  In c1 (gleaves g) -> In c2 (gleaves g) -> inbox p (gcell_box g c1) -> inbox p (gcell_box g c2) -> c1 = c2.
Proof. exact grid_cells_disjoint. Qed.
Print Assumptions C16_grid_cells_disjoint.

Theorem C16_grid_volumes : forall g n, wfgrid g -> wfgeom g n ->
  zsum (map (fun c => volume (gcell_box g c)) (gleaves g)) = volume (gbox g).
Proof. exact grid_volume_sum. Qed.
Print Assumptions C16_grid_volumes.

Theorem C16_grid_key_to_cell : forall g c, wfgrid g -> In c (gleaves g) ->
  grid_cell_of_key g (gcode c) = Some (Leaf, gcell_box g c, Z.of_nat (length (snd c))).
Proof. exact grid_cell_of_key_spec. Qed.
Print Assumptions C16_grid_key_to_cell.

Theorem C16_grid_refine : forall g c, wfgrid g -> In c (gleaves g) -> (length (snd c) < 10)%nat ->
  exists g', grid_refine g (gcode c) = Some (g', gcode (fst c, snd c ++ [0])) /\
    gbox g' = gbox g /\ gnx g' = gnx g /\ gny g' = gny g /\ gnz g' = gnz g /\
    forall c', In c' (gleaves g') <->
               (In c' (gleaves g) /\ c' <> c) \/ (exists d, 0 <= d < 8 /\ c' = (fst c, snd c ++ [d])).
Proof. exact grid_refine_spec. Qed.
Print Assumptions C16_grid_refine.

(* ---- B. Morton keys -------------------------------------------------------------------------- *)

Theorem C16_morton_inverse : forall x y z, 0 <= x < 2 ^ 21 -> 0 <= y < 2 ^ 21 -> 0 <= z < 2 ^ 21 ->
  demorton 21 (morton x y z) = (x, y, z).
Proof. exact demorton_morton. Qed.
Print Assumptions C16_morton_inverse.

Theorem C16_morton_injective : forall x y z x' y' z',
  0 <= x < 2 ^ 21 -> 0 <= y < 2 ^ 21 -> 0 <= z < 2 ^ 21 ->
  0 <= x' < 2 ^ 21 -> 0 <= y' < 2 ^ 21 -> 0 <= z' < 2 ^ 21 ->
  morton x y z = morton x' y' z' -> (x, y, z) = (x', y', z').
Proof. exact morton_injective. Qed.
Print Assumptions C16_morton_injective.

Theorem C16_morton_width : forall x y z, 0 <= x < 2 ^ 21 -> 0 <= y < 2 ^ 21 -> 0 <= z < 2 ^ 21 ->
  0 <= morton x y z < 2 ^ 63.
Proof. exact morton_width. Qed.
Print Assumptions C16_morton_width.

(* the three top key bits are the octant of the top coordinate bits *)
Theorem C16_morton_octant : forall x y z, 0 <= x < 2 ^ 21 -> 0 <= y < 2 ^ 21 -> 0 <= z < 2 ^ 21 ->
  morton x y z / 2 ^ 60 = 4 * (x / 2 ^ 20) + 2 * (y / 2 ^ 20) + z / 2 ^ 20.
Proof. exact morton_octant. Qed.
Print Assumptions C16_morton_octant.

(* ---- C. Cartesian grid ------------------------------------------------------------------------ *)

Theorem C16_cartesian_indices_of_long : forall ny nz ix iy iz, 0 <= ix -> 0 <= iy < ny -> 0 <= iz < nz ->
  indices ny nz (long_index ny nz ix iy iz) = (ix, iy, iz).
Proof. exact indices_long. Qed.
Print Assumptions C16_cartesian_indices_of_long.

Theorem C16_cartesian_long_of_indices : forall nx ny nz l, 0 < ny -> 0 < nz -> 0 <= l < nx * ny * nz ->
  let '(ix, iy, iz) := indices ny nz l in
  0 <= ix < nx /\ 0 <= iy < ny /\ 0 <= iz < nz /\ long_index ny nz ix iy iz = l.
Proof. exact long_indices. Qed.
Print Assumptions C16_cartesian_long_of_indices.

(* the loop over the long index visits every index triple of the grid exactly once *)
Theorem C16_cartesian_enumeration : forall nx ny nz, 0 < nx -> 0 < ny -> 0 < nz ->
  NoDup (map (indices ny nz) (zrange (nx * ny * nz))) /\
  forall ix iy iz, (0 <= ix < nx /\ 0 <= iy < ny /\ 0 <= iz < nz) <->
                   In (ix, iy, iz) (map (indices ny nz) (zrange (nx * ny * nz))).
Proof. exact cartesian_enumeration. Qed.
Print Assumptions C16_cartesian_enumeration.

(* get_cell_indices on one axis (cell side m lattice units, n cells): the cell returned contains the
   position and is the only one *)
Theorem C16_cartesian_containing_cell : forall m n k, 0 < m -> 0 <= k < n * m ->
  0 <= cell_index m k < n /\ cell_lo m (cell_index m k) <= k < cell_hi m (cell_index m k) /\
  forall i, cell_lo m i <= k < cell_hi m i -> i = cell_index m k.
Proof. exact cell_index_contains. Qed.
Print Assumptions C16_cartesian_containing_cell.

Theorem C16_cartesian_volumes : forall nx ny nz mx my mz, 0 <= nx -> 0 <= ny -> 0 <= nz ->
  zsum (map (fun _ => mx * my * mz) (zrange (nx * ny * nz))) = (nx * mx) * (ny * my) * (nz * mz).
Proof. exact cartesian_volume. Qed.
Print Assumptions C16_cartesian_volumes.

(* get_neighbours: neighbour relations are mutual, through opposite faces of the same axis, for every
   combination of periodicity flags and every cell count (1 included) *)
Theorem C16_cartesian_neighbours_mutual : forall g l l' a high,
  wfc g -> (a < 3)%nat -> 0 <= l < ctotal g -> neighbour g l a high = Some l' ->
  0 <= l' < ctotal g /\ neighbour g l' a (negb high) = Some l.
Proof. exact neighbours_mutual. Qed.
Print Assumptions C16_cartesian_neighbours_mutual.

(* is_inside: periodic wrap of an index one step outside = index modulo n, position moved by one box side *)
Theorem C16_cartesian_periodic_wrap : forall n per i, 0 < n -> -1 <= i <= n ->
  let '(inside, j, shift) := wrap_axis n per i in
  (per = true -> inside = true /\ 0 <= j < n /\ j = i mod n /\ i + shift * n = j) /\
  (per = false -> j = i /\ shift = 0 /\ (inside = true <-> 0 <= i < n)).
Proof. exact wrap_axis_spec. Qed.
Print Assumptions C16_cartesian_periodic_wrap.

(* ---- D. search structures (partial) ----------------------------------------------------------- *)

(* PARTIAL.  Octree::get_ngbs / get_ngbs_sphere as a depth first walk that skips closed nodes: it returns the
   brute force answer, in order, on every tree on which the opening criterion is sound (prune_ok: a closed
   node has no hit below it).  Missing for the full statement: that the tree built by add_position /
   collapse / set_auxiliaries satisfies prune_ok for binary64 distances (one axis of the geometric fact is
   C16_search_axis_distance_partial), that the child / sibling pointers realise this walk, the moving bound of
   get_closest_ngb, and all of PointLocations.  Those are covered by correspondence with brute force only. *)
Theorem C16_search_pruning_partial : forall (P B : Type) (hit : P -> bool) (open : B -> bool) (t : @stree P B),
  prune_ok hit open t -> search hit open t = brute hit t.
Proof. exact (@search_is_brute). Qed.
Print Assumptions C16_search_pruning_partial.

Theorem C16_search_axis_distance_partial : forall a s v p, 0 <= s -> a <= p <= a + s ->
  Z.abs (axis_dist a s v) <= Z.abs (v - p).
Proof. exact axis_dist_lower. Qed.
Print Assumptions C16_search_axis_distance_partial.
