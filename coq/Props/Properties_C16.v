(* C16  Every position maps to one cell (AMR, Morton, Cartesian; search structures partial; Voronoi excluded).
   Only statements, each closed by [exact] of a lemma of Cxx/C16_Proofs.v.

   Vocabulary (Cxx/C16_Defs.v, Cxx/C16_Proofs.v):
     tree           an AMR block after any refinement history (C16_amr_trees_are_histories)
     leaves t       its single cells in depth first order, each named by the child numbers on the way down
     code p         the key of cell p: child number of level l in bits [3l,3l+3), one marker bit above
     box_of_path    the box a cell was created with;  inbox p b: position p lies in the half open box b
     okbox n b      every side of b is a positive multiple of 2^n lattice units (halving n times is exact)
     grid, gleaves  nx x ny x nz blocks (any counts 1..1024, odd ones included), all cells in loop order
     gcode          64 bit key: (ix<<20 + iy<<10 + iz) << 32 + code *)
From Coq Require Import ZArith List Bool.
From CMI Require Import Cxx.C16_Defs Cxx.C16_Proofs.
Import ListNotations.
Local Open Scope Z_scope.

(* ---- A. one AMR block ----------------------------------------------------------------------- *)

(* get_first_key / get_next_key visit every single cell exactly once, in depth first order, and then
   return the sentinel: the loop "key = first; while (key != max) key = next(key)" produces exactly the
   list of cell keys, whatever the fuel above the number of cells *)
Theorem C16_amr_enumeration : forall t fuel,
  (length (leaves t) < fuel)%nat -> enumerate fuel t = map code (leaves t).
Proof. exact enumerate_leaves. Qed.
Print Assumptions C16_amr_enumeration.

(* one step of it, at any level of the recursion (low = the key bits of the levels above) *)
Theorem C16_amr_next_key : forall t level low, 0 <= level -> 0 <= low < P8 level ->
  forall l1 p l2, leaves t = l1 ++ p :: l2 ->
  next_key t (low + P8 level * code p) level =
  match l2 with [] => MAXKEY32 | p' :: _ => low + P8 level * code p' end.
Proof. exact next_key_spec. Qed.
Print Assumptions C16_amr_next_key.

(* no key is produced twice *)
Theorem C16_amr_keys_distinct : forall t, NoDup (map code (leaves t)).
Proof. exact keys_NoDup. Qed.
Print Assumptions C16_amr_keys_distinct.

Theorem C16_amr_number_of_cells : forall t, ncells t = Z.of_nat (length (leaves t)).
Proof. exact ncells_leaves. Qed.
Print Assumptions C16_amr_number_of_cells.

(* get_key(position): for every position of the block the descent ends in a single cell, returns its key,
   and the box of that cell contains the position *)
Theorem C16_amr_position_to_key : forall t level p b n,
  0 <= level -> (depth t <= n)%nat -> okbox n b -> inbox p b ->
  exists q, In q (leaves t) /\ get_key t level p b = P8 level * code q /\ inbox p (box_of_path b q).
Proof. exact get_key_spec. Qed.
Print Assumptions C16_amr_position_to_key.

(* ... and it is the only cell whose box contains the position *)
Theorem C16_amr_cells_disjoint : forall t p b n q1 q2,
  (depth t <= n)%nat -> okbox n b -> In q1 (leaves t) -> In q2 (leaves t) ->
  inbox p (box_of_path b q1) -> inbox p (box_of_path b q2) -> q1 = q2.
Proof. exact leaf_boxes_disjoint. Qed.
Print Assumptions C16_amr_cells_disjoint.

(* operator[](key): the key of a cell leads back to that cell, with its box and level *)
Theorem C16_amr_key_to_cell : forall t q b level, In q (leaves t) ->
  cell_of_key t (code q) b level = Some (Leaf, box_of_path b q, level + Z.of_nat (length q)).
Proof. exact cell_of_key_spec. Qed.
Print Assumptions C16_amr_key_to_cell.

(* the cell volumes add up to the volume of the block *)
Theorem C16_amr_volumes : forall t b n, (depth t <= n)%nat -> okbox n b ->
  zsum (map (fun q => volume (box_of_path b q)) (leaves t)) = volume b.
Proof. exact volume_sum. Qed.
Print Assumptions C16_amr_volumes.

(* refine(key of a cell) succeeds, returns the key of the first child, and replaces exactly that cell by
   its eight children *)
Theorem C16_amr_refine : forall t q, In q (leaves t) ->
  exists t', refine t (code q) = Some (t', code (q ++ [0])) /\
    forall r, In r (leaves t') <-> (In r (leaves t) /\ r <> q) \/ (exists d, 0 <= d < 8 /\ r = q ++ [d]).
Proof. exact refine_spec. Qed.
Print Assumptions C16_amr_refine.

Theorem C16_amr_refine_only_cells : forall t k t' k', refine t k = Some (t', k') ->
  exists q, In q (leaves t) /\ k = code q.
Proof. exact refine_some_is_leaf. Qed.
Print Assumptions C16_amr_refine_only_cells.

(* every tree is reached from a single cell by a sequence of refinements, so the theorems above, which
   quantify over all trees, hold after any refinement history (and the histories reach every tree) *)
Theorem C16_amr_trees_are_histories : forall t, exists ks, refine_seq Leaf ks = Some t.
Proof. exact every_tree_is_a_refinement_history. Qed.
Print Assumptions C16_amr_trees_are_histories.

(* width: up to depth 10 (the deepest level with 1 << 3*level defined for int and the cell part inside the
   low 32 bits) every cell key is below 2^31, hence different from the sentinel 0xffffffff *)
Theorem C16_amr_key_width : forall t p, In p (leaves t) -> (depth t <= 10)%nat -> 1 <= code p < 2 ^ 31.
Proof. exact key_width. Qed.
Print Assumptions C16_amr_key_width.

(* ---- A. the grid of blocks ------------------------------------------------------------------ *)

(* block index and cell part are recovered from a key; a key is below 2^62 *)
Theorem C16_grid_key_fields : forall ix iy iz cell,
  0 <= ix < 1024 -> 0 <= iy < 1024 -> 0 <= iz < 1024 -> 0 <= cell < 2 ^ 32 ->
  key_block (full_key ix iy iz cell) = (ix, iy, iz) /\ cell_key (full_key ix iy iz cell) = cell.
Proof. exact key_block_full. Qed.
Print Assumptions C16_grid_key_fields.

Theorem C16_grid_key_width : forall g c, wfgrid g -> In c (gleaves g) -> 0 <= gcode c < 2 ^ 62.
Proof. exact gcode_bound. Qed.
Print Assumptions C16_grid_key_width.

(* AMRGrid::get_first_key / get_next_key enumerate all cells of all blocks once, blocks in loop order *)
Theorem C16_grid_enumeration : forall g fuel, wfgrid g ->
  (length (gleaves g) < fuel)%nat -> grid_enumerate fuel g = map gcode (gleaves g).
Proof. exact grid_enumerate_leaves. Qed.
Print Assumptions C16_grid_enumeration.

Theorem C16_grid_keys_distinct : forall g, wfgrid g -> NoDup (map gcode (gleaves g)).
Proof. exact grid_keys_NoDup. Qed.
Print Assumptions C16_grid_keys_distinct.

(* AMRGrid::get_key(position): every position of the half open box lies in a cell, the key returned is the
   key of that cell, and no other cell contains the position *)
Theorem C16_grid_position_to_key : forall g n p, wfgrid g -> wfgeom g n -> inbox p (gbox g) ->
  exists c, In c (gleaves g) /\ grid_get_key g p = gcode c /\ inbox p (gcell_box g c).
Proof. exact grid_get_key_spec. Qed.
Print Assumptions C16_grid_position_to_key.

Theorem C16_grid_cells_disjoint : forall g n p c1 c2, wfgrid g -> wfgeom g n ->
  In c1 (gleaves g) -> In c2 (gleaves g) -> inbox p (gcell_box g c1) -> inbox p (gcell_box g c2) -> c1 = c2.
Proof. exact grid_cells_disjoint. Qed.
Print Assumptions C16_grid_cells_disjoint.

Theorem C16_grid_volumes : forall g n, wfgrid g -> wfgeom g n ->
  zsum (map (fun c => volume (gcell_box g c)) (gleaves g)) = volume (gbox g).
Proof. exact grid_volume_sum. Qed.
Print Assumptions C16_grid_volumes.

Theorem C16_grid_key_to_cell : forall g c, wfgrid g -> In c (gleaves g) ->
  grid_cell_of_key g (gcode c) = Some (Leaf, gcell_box g c, Z.of_nat (length (snd c))).
Proof. exact grid_cell_of_key_spec. Qed.
Print Assumptions C16_grid_key_to_cell.

Theorem C16_grid_refine : forall g c, wfgrid g -> In c (gleaves g) -> (length (snd c) < 10)%nat ->
  exists g', grid_refine g (gcode c) = Some (g', gcode (fst c, snd c ++ [0])) /\
    gbox g' = gbox g /\ gnx g' = gnx g /\ gny g' = gny g /\ gnz g' = gnz g /\
    forall c', In c' (gleaves g') <->
               (In c' (gleaves g) /\ c' <> c) \/ (exists d, 0 <= d < 8 /\ c' = (fst c, snd c ++ [d])).
Proof. exact grid_refine_spec. Qed.
Print Assumptions C16_grid_refine.

(* ---- B. Morton keys -------------------------------------------------------------------------- *)

Theorem C16_morton_inverse : forall x y z, 0 <= x < 2 ^ 21 -> 0 <= y < 2 ^ 21 -> 0 <= z < 2 ^ 21 ->
  demorton 21 (morton x y z) = (x, y, z).
Proof. exact demorton_morton. Qed.
Print Assumptions C16_morton_inverse.

Theorem C16_morton_injective : forall x y z x' y' z',
  0 <= x < 2 ^ 21 -> 0 <= y < 2 ^ 21 -> 0 <= z < 2 ^ 21 ->
  0 <= x' < 2 ^ 21 -> 0 <= y' < 2 ^ 21 -> 0 <= z' < 2 ^ 21 ->
  morton x y z = morton x' y' z' -> (x, y, z) = (x', y', z').
Proof. exact morton_injective. Qed.
Print Assumptions C16_morton_injective.

Theorem C16_morton_width : forall x y z, 0 <= x < 2 ^ 21 -> 0 <= y < 2 ^ 21 -> 0 <= z < 2 ^ 21 ->
  0 <= morton x y z < 2 ^ 63.
Proof. exact morton_width. Qed.
Print Assumptions C16_morton_width.

(* the three top key bits are the octant of the top coordinate bits *)
Theorem C16_morton_octant : forall x y z, 0 <= x < 2 ^ 21 -> 0 <= y < 2 ^ 21 -> 0 <= z < 2 ^ 21 ->
  morton x y z / 2 ^ 60 = 4 * (x / 2 ^ 20) + 2 * (y / 2 ^ 20) + z / 2 ^ 20.
Proof. exact morton_octant. Qed.
Print Assumptions C16_morton_octant.

(* ---- C. Cartesian grid ------------------------------------------------------------------------ *)

Theorem C16_cartesian_indices_of_long : forall ny nz ix iy iz, 0 <= ix -> 0 <= iy < ny -> 0 <= iz < nz ->
  indices ny nz (long_index ny nz ix iy iz) = (ix, iy, iz).
Proof. exact indices_long. Qed.
Print Assumptions C16_cartesian_indices_of_long.

Theorem C16_cartesian_long_of_indices : forall nx ny nz l, 0 < ny -> 0 < nz -> 0 <= l < nx * ny * nz ->
  let '(ix, iy, iz) := indices ny nz l in
  0 <= ix < nx /\ 0 <= iy < ny /\ 0 <= iz < nz /\ long_index ny nz ix iy iz = l.
Proof. exact long_indices. Qed.
Print Assumptions C16_cartesian_long_of_indices.

(* the loop over the long index visits every index triple of the grid exactly once *)
Theorem C16_cartesian_enumeration : forall nx ny nz, 0 < nx -> 0 < ny -> 0 < nz ->
  NoDup (map (indices ny nz) (zrange (nx * ny * nz))) /\
  forall ix iy iz, (0 <= ix < nx /\ 0 <= iy < ny /\ 0 <= iz < nz) <->
                   In (ix, iy, iz) (map (indices ny nz) (zrange (nx * ny * nz))).
Proof. exact cartesian_enumeration. Qed.
Print Assumptions C16_cartesian_enumeration.

(* get_cell_indices on one axis (cell side m lattice units, n cells): the cell returned contains the
   position and is the only one *)
Theorem C16_cartesian_containing_cell : forall m n k, 0 < m -> 0 <= k < n * m ->
  0 <= cell_index m k < n /\ cell_lo m (cell_index m k) <= k < cell_hi m (cell_index m k) /\
  forall i, cell_lo m i <= k < cell_hi m i -> i = cell_index m k.
Proof. exact cell_index_contains. Qed.
Print Assumptions C16_cartesian_containing_cell.

Theorem C16_cartesian_volumes : forall nx ny nz mx my mz, 0 <= nx -> 0 <= ny -> 0 <= nz ->
  zsum (map (fun _ => mx * my * mz) (zrange (nx * ny * nz))) = (nx * mx) * (ny * my) * (nz * mz).
Proof. exact cartesian_volume. Qed.
Print Assumptions C16_cartesian_volumes.

(* get_neighbours: neighbour relations are mutual, through opposite faces of the same axis, for every
   combination of periodicity flags and every cell count (1 included) *)
Theorem C16_cartesian_neighbours_mutual : forall g l l' a high,
  wfc g -> (a < 3)%nat -> 0 <= l < ctotal g -> neighbour g l a high = Some l' ->
  0 <= l' < ctotal g /\ neighbour g l' a (negb high) = Some l.
Proof. exact neighbours_mutual. Qed.
Print Assumptions C16_cartesian_neighbours_mutual.

(* is_inside: periodic wrap of an index one step outside = index modulo n, position moved by one box side *)
Theorem C16_cartesian_periodic_wrap : forall n per i, 0 < n -> -1 <= i <= n ->
  let '(inside, j, shift) := wrap_axis n per i in
  (per = true -> inside = true /\ 0 <= j < n /\ j = i mod n /\ i + shift * n = j) /\
  (per = false -> j = i /\ shift = 0 /\ (inside = true <-> 0 <= i < n)).
Proof. exact wrap_axis_spec. Qed.
Print Assumptions C16_cartesian_periodic_wrap.

(* ---- D. search structures (partial) ----------------------------------------------------------- *)

(* PARTIAL.  Octree::get_ngbs / get_ngbs_sphere as a depth first walk that skips closed nodes: it returns the
   brute force answer, in order, on every tree on which the opening criterion is sound (prune_ok: a closed
   node has no hit below it).  Missing for the full statement: that the tree built by add_position /
   collapse / set_auxiliaries satisfies prune_ok for binary64 distances (one axis of the geometric fact is
   C16_search_axis_distance_partial), that the child / sibling pointers realise this walk, the moving bound of
   get_closest_ngb, and all of PointLocations.  Those are covered by correspondence with brute force only. *)
Theorem C16_search_pruning_partial : forall (P B : Type) (hit : P -> bool) (open : B -> bool) (t : @stree P B),
  prune_ok hit open t -> search hit open t = brute hit t.
Proof. exact (@search_is_brute). Qed.
Print Assumptions C16_search_pruning_partial.

Theorem C16_search_axis_distance_partial : forall a s v p, 0 <= s -> a <= p <= a + s ->
  Z.abs (axis_dist a s v) <= Z.abs (v - p).
Proof. exact axis_dist_lower. Qed.
Print Assumptions C16_search_axis_distance_partial.

(* ==== F. legacy photon traversal: CartesianDensityGrid::interact and AMRDensityGrid::interact ================
   Vocabulary (Cxx/C16_InteractDefs.v: the models, written once over a scalar type; Cxx/C16_InteractCart.v,
   Cxx/C16_InteractAMR.v: proofs for the real-number instance ROps; Cxx/C16_InteractExamples.v: binary64 runs):
     cart_interact ROps fuel g cells ph target   the model of CartesianDensityGrid::interact (fuel = loop bound)
     amr_interact ROps sqrt (1/2) true true true fuel g cells ph target
                                                 the model of the REPAIRED AMRDensityGrid::interact (the three
                                                 flags false = the pinned code, see the _refuted theorems)
     cr_cell / ar_cell   the returned iterator (None = end()), cr_pos / ar_pos the photon position after the call,
     cr_vis / ar_vis     the update_integrals calls (cell, length) in program order, cr_fin / ar_fin the loop state
     cgood / agood       premises: box sides > 0, cell / block counts >= 1, start inside the half open box,
                         non-negative densities, fractions and cross sections, target > 0, some direction
                         component d_j <> 0 with cell size_j < DBL_MAX |d_j| (AMR: unit direction)
     lkappa cells ph c   the opacity n (sigma_H x_H + sigma_He x_He) of cell c;  sumlen / sumtau: sums over visits
     shift_ok per W      W is an integer number of box periods per axis, 0 on every non-periodic axis
     in_cell j p / in_tbox (box_of .. c) p   p lies in the CLOSED box of cell j / of the AMR cell c
     ray d p0 s          the point p0 + s d of the straight line;  shifted p W = p + W * box sides *)
From Coq Require Import Reals Floats.
From CMI Require Import Cxx.C02_Defs Cxx.C02_Proofs Cxx.C16_InteractDefs Cxx.C16_InteractCart Cxx.C16_InteractAMR
  Cxx.C16_InteractExamples.
Local Open Scope R_scope.

(* (a) the credited lengths are non-negative and the photon ends at start + (their sum) * direction, moved by
   whole box sides along periodic axes only *)
Theorem C16_cart_path_sum : forall anchor sides n per cells ph target, cgood anchor sides n cells ph target ->
  forall fuel r, cart_interact ROps fuel (make_cgrid ROps anchor sides n per) cells ph target = COk r ->
  Forall (fun v => 0 <= snd v) (cr_vis r) /\
  exists W, shift_ok per W /\
    forall a, vg a (cr_pos r) = vg a (lp_pos ph) + sumlen (cr_vis r) * vg a (lp_dir ph) + IZR (W a) * vg a sides.
Proof. exact cart_path_thm. Qed.
Print Assumptions C16_cart_path_sum.

(* (a) every cell is credited the length of the ray inside it: visit k covers the parameter interval
   [s0, s0 + len], s0 = sum of the earlier lengths, and that whole piece of the straight line (modulo box
   periods) lies in the closed box of the credited cell, which is a cell of the grid *)
Theorem C16_cart_segments_in_cells : forall anchor sides n per cells ph target, cgood anchor sides n cells ph target ->
  forall fuel r k c len, cart_interact ROps fuel (make_cgrid ROps anchor sides n per) cells ph target = COk r ->
  nth_error (cr_vis r) k = Some (c, len) ->
  exists j w, in_range n j /\ clong (make_cgrid ROps anchor sides n per) j = c /\ shift_ok per w /\
    forall s, sumlen (firstn k (cr_vis r)) <= s <= sumlen (firstn k (cr_vis r)) + len ->
              in_cell anchor sides n j (shifted sides (ray (lp_dir ph) (lp_pos ph) s) w).
Proof. exact cart_segments_thm. Qed.
Print Assumptions C16_cart_segments_in_cells.

(* (b) optical depth used = sum of opacity * length: the target when a cell is returned, target - (what is
   left) >= ... <= target when end() is returned *)
Theorem C16_cart_tau_sum : forall anchor sides n per cells ph target, cgood anchor sides n cells ph target ->
  forall fuel r, cart_interact ROps fuel (make_cgrid ROps anchor sides n per) cells ph target = COk r ->
  sumtau (lkappa cells ph) (cr_vis r) <= target /\
  (cr_cell r <> None -> sumtau (lkappa cells ph) (cr_vis r) = target) /\
  (cr_cell r = None -> 0 <= cs_tau (cr_fin r) /\ sumtau (lkappa cells ph) (cr_vis r) = target - cs_tau (cr_fin r)).
Proof. exact cart_tau_thm. Qed.
Print Assumptions C16_cart_tau_sum.

(* (c) absorbed: the target is reached, the returned cell is the cell of the last visit, a cell of the grid, and
   its closed box contains the final position: exactly when the target was reached before the wall of the cell
   (cs_tau < 0), up to box periods when it was reached exactly on a (periodic) wall *)
Theorem C16_cart_absorbed_in_returned_cell : forall anchor sides n per cells ph target, cgood anchor sides n cells ph target ->
  forall fuel r c, cart_interact ROps fuel (make_cgrid ROps anchor sides n per) cells ph target = COk r -> cr_cell r = Some c ->
  sumtau (lkappa cells ph) (cr_vis r) = target /\ cs_tau (cr_fin r) <= 0 /\
  (exists pre len, cr_vis r = pre ++ [(c, len)]) /\
  exists j wl, in_range n j /\ clong (make_cgrid ROps anchor sides n per) j = c /\ shift_ok per wl /\
    in_cell anchor sides n j (shifted sides (cr_pos r) wl) /\
    (cs_tau (cr_fin r) < 0 -> forall a, wl a = 0%Z).
Proof. exact cart_absorbed_thm. Qed.
Print Assumptions C16_cart_absorbed_in_returned_cell.

(* (c) escaped: end() is returned only with the photon ON an open face of the box, moving outward, the index one
   step outside the grid through that face, and the target not exceeded *)
Theorem C16_cart_escaped_through_open_face : forall anchor sides n per cells ph target, cgood anchor sides n cells ph target ->
  forall fuel r, cart_interact ROps fuel (make_cgrid ROps anchor sides n per) cells ph target = COk r -> cr_cell r = None ->
  0 <= cs_tau (cr_fin r) /\ sumtau (lkappa cells ph) (cr_vis r) = target - cs_tau (cr_fin r) /\
  exists a, bg a per = false /\
    ((ig a (cs_idx (cr_fin r)) = (-1)%Z /\ vg a (cr_pos r) = vg a anchor /\ vg a (lp_dir ph) < 0) \/
     (ig a (cs_idx (cr_fin r)) = ig a n /\ vg a (cr_pos r) = vg a anchor + vg a sides /\ 0 < vg a (lp_dir ph))).
Proof. exact cart_escaped_thm. Qed.
Print Assumptions C16_cart_escaped_through_open_face.

(* (d) the final position lies in the closed box on every axis ... *)
Theorem C16_cart_final_position_in_box : forall anchor sides n per cells ph target, cgood anchor sides n cells ph target ->
  forall fuel r, cart_interact ROps fuel (make_cgrid ROps anchor sides n per) cells ph target = COk r ->
  forall a, vg a anchor <= vg a (cr_pos r) <= vg a anchor + vg a sides.
Proof. exact cart_in_box_thm. Qed.
Print Assumptions C16_cart_final_position_in_box.

(* (d) ... and the position is NOT moved along an axis whose faces the straight line does not reach *)
Theorem C16_cart_no_spurious_wrap : forall anchor sides n per cells ph target, cgood anchor sides n cells ph target ->
  forall fuel r a, cart_interact ROps fuel (make_cgrid ROps anchor sides n per) cells ph target = COk r ->
  (forall s, 0 <= s <= sumlen (cr_vis r) -> vg a anchor < vg a (lp_pos ph) + s * vg a (lp_dir ph) < vg a anchor + vg a sides) ->
  vg a (cr_pos r) = vg a (lp_pos ph) + sumlen (cr_vis r) * vg a (lp_dir ph).
Proof. exact cart_no_spurious_wrap_thm. Qed.
Print Assumptions C16_cart_no_spurious_wrap.

(* the "Photon leaves the system immediately" error is unreachable for a start inside the box *)
Theorem C16_cart_no_leave_error : forall anchor sides n per cells ph target, cgood anchor sides n cells ph target ->
  forall fuel, cart_interact ROps fuel (make_cgrid ROps anchor sides n per) cells ph target <> CErrLeaves.
Proof. exact cart_no_leave_error_thm. Qed.
Print Assumptions C16_cart_no_leave_error.

(* PARTIAL (termination): with open boundaries nx + ny + nz + 1 passes through the loop suffice.  With periodic
   boundaries no bound exists: a photon in a periodic box of zero opacity never stops (the real loop does not
   return either); the other theorems hold for every fuel for which the model returns *)
Theorem C16_cart_fuel_suffices_partial : forall anchor sides n per cells ph target, cgood anchor sides n cells ph target ->
  forall fuel, (forall a, bg a per = false) -> (Z.to_nat (ix n + iy n + iz n + 1) <= fuel)%nat ->
  exists r, cart_interact ROps fuel (make_cgrid ROps anchor sides n per) cells ph target = COk r.
Proof. exact cart_fuel_suffices_thm. Qed.
Print Assumptions C16_cart_fuel_suffices_partial.

(* why the bound is partial: one cell, periodic in x, zero density, photon along +x: the loop of the (binary64) model
   does not end for ANY fuel; the real loop does not return either (not run by the check: it would hang) *)
Theorem C16_cart_periodic_vacuum_never_ends : forall fuel,
  f_cart_interact fuel cg_ring (fun _ => vacuum_cell) ph_centre 1%float = CErrFuel.
Proof. exact cart_periodic_vacuum_never_ends_thm. Qed.
Print Assumptions C16_cart_periodic_vacuum_never_ends.

(* update_integrals on the hydrogen mean intensity: + weight * sigma_H * (length credited to the cell); cells of
   zero density are not touched *)
Theorem C16_cart_J_exact : forall (cells : Z -> cellc R) (ph : lphoton R) (vis : list (Z * R)) (j0 : R) (c : Z),
  cart_J ROps cells ph j0 vis c =
  if Rltb 0 (c_n (cells c)) then j0 + len_in c vis * lp_w ph * lp_sH ph else j0.
Proof. exact cart_J_exact_thm. Qed.
Print Assumptions C16_cart_J_exact.

Theorem C16_cart_premises_satisfiable :
  cgood (mkV 0 0 0) (mkV 1 1 1) (mkI 8 8 8) (fun _ => mkC 1 1 0) (mkLP (mkV (1 / 2) (1 / 2) (1 / 2)) (mkV 1 0 0) 1 0 1) (1 / 4).
Proof. exact cgood_example. Qed.
Print Assumptions C16_cart_premises_satisfiable.

(* binary64 run of the seeded-regression input: absorbed in an outermost cell while heading outward *)
Theorem C16_cart_example_absorbed_in_outermost_cell :
  exists r, f_cart_interact fuel100 cg_open (fun _ => one_cell) (ph_of (mkV 0.9375 0.5 0.5) (mkV 1 0 0))%float 0.03125%float = COk r /\
            cr_cell r = Some 484%Z /\ cr_pos r = (mkV 0.96875 0.5 0.5)%float /\ cr_vis r = [(484%Z, 0.03125%float)].
Proof. exact f_cart_absorbed_in_outermost_cell. Qed.
Print Assumptions C16_cart_example_absorbed_in_outermost_cell.

(* ---- AMR: the repaired code, EVERY tree (= every refinement history), every block count ---- *)

(* set_ngbs: the pointer stored for direction (a, high) of a valid cell: none exactly at an open box face; else a
   valid cell of the same or a coarser level (single if coarser) that touches the face (one box period away when
   the face is a periodic box face) and covers the cell's extent on the other two axes *)
Theorem C16_amr_neighbour_pointers : forall g : agrid R,
  (forall a, 0 < vg a (ag_sides g)) -> (forall a, (1 <= ig a (ag_n g))%Z) ->
  forall rp b a high, valid g (b, rp) -> ngb_spec g (b, rp) a high (ngb_rp g b rp (az a) high).
Proof. exact ngb_rp_spec. Qed.
Print Assumptions C16_amr_neighbour_pointers.

(* get_cell_index: a position in the half open box is located in a single cell whose closed box contains it *)
Theorem C16_amr_locate_containing_cell : forall g : agrid R,
  (forall a, 0 < vg a (ag_sides g)) -> (forall a, (1 <= ig a (ag_n g))%Z) ->
  forall q, (forall a, vg a (ag_anchor g) <= vg a q < vg a (ag_anchor g) + vg a (ag_sides g)) ->
  okleaf g (amr_locate ROps (1 / 2) g q) /\ in_tbox (box_of ROps (1 / 2) g (amr_locate ROps (1 / 2) g q)) q.
Proof. exact amr_locate_spec. Qed.
Print Assumptions C16_amr_locate_containing_cell.

Theorem C16_amr_path_sum : forall g cells ph target, agood g cells ph target ->
  forall fuel r, amr_interact ROps R_sqrt.sqrt (1 / 2) true true true fuel g cells ph target = AOk r ->
  Forall (fun v => 0 <= snd v) (ar_vis r) /\
  exists W, ashift_ok g W /\
    forall a, vg a (ar_pos r) = vg a (lp_pos ph) + sumlenA (ar_vis r) * vg a (lp_dir ph) + IZR (W a) * vg a (ag_sides g).
Proof. exact amr_path_thm. Qed.
Print Assumptions C16_amr_path_sum.

Theorem C16_amr_segments_in_cells : forall g cells ph target, agood g cells ph target ->
  forall fuel r k c len, amr_interact ROps R_sqrt.sqrt (1 / 2) true true true fuel g cells ph target = AOk r ->
  nth_error (ar_vis r) k = Some (c, len) ->
  okleaf g c /\ exists w, ashift_ok g w /\
    forall s, sumlenA (firstn k (ar_vis r)) <= s <= sumlenA (firstn k (ar_vis r)) + len ->
              in_tbox (box_of ROps (1 / 2) g c) (ashifted g (aray (lp_dir ph) (lp_pos ph) s) w).
Proof. exact amr_segments_thm. Qed.
Print Assumptions C16_amr_segments_in_cells.

Theorem C16_amr_tau_sum : forall g cells ph target, agood g cells ph target ->
  forall fuel r, amr_interact ROps R_sqrt.sqrt (1 / 2) true true true fuel g cells ph target = AOk r ->
  sumtauA (lkappaA cells ph) (ar_vis r) <= target /\
  (ar_cell r <> None -> sumtauA (lkappaA cells ph) (ar_vis r) = target) /\
  (ar_cell r = None -> 0 <= as_tau (ar_fin r) /\ sumtauA (lkappaA cells ph) (ar_vis r) = target - as_tau (ar_fin r)).
Proof. exact amr_tau_thm. Qed.
Print Assumptions C16_amr_tau_sum.

Theorem C16_amr_absorbed_in_returned_cell : forall g cells ph target, agood g cells ph target ->
  forall fuel r c, amr_interact ROps R_sqrt.sqrt (1 / 2) true true true fuel g cells ph target = AOk r -> ar_cell r = Some c ->
  sumtauA (lkappaA cells ph) (ar_vis r) = target /\ as_tau (ar_fin r) <= 0 /\
  (exists pre len, ar_vis r = pre ++ [(c, len)]) /\ okleaf g c /\
  exists wl, ashift_ok g wl /\ in_tbox (box_of ROps (1 / 2) g c) (ashifted g (ar_pos r) wl) /\
    (as_tau (ar_fin r) < 0 -> forall a, wl a = 0%Z).
Proof. exact amr_absorbed_thm. Qed.
Print Assumptions C16_amr_absorbed_in_returned_cell.

Theorem C16_amr_escaped_through_open_face : forall g cells ph target, agood g cells ph target ->
  forall fuel r, amr_interact ROps R_sqrt.sqrt (1 / 2) true true true fuel g cells ph target = AOk r -> ar_cell r = None ->
  0 <= as_tau (ar_fin r) /\ sumtauA (lkappaA cells ph) (ar_vis r) = target - as_tau (ar_fin r) /\
  exists a, bg a (ag_per g) = false /\
    ((vg a (ar_pos r) = vg a (ag_anchor g) /\ vg a (lp_dir ph) < 0) \/
     (vg a (ar_pos r) = vg a (ag_anchor g) + vg a (ag_sides g) /\ 0 < vg a (lp_dir ph))).
Proof. exact amr_escaped_thm. Qed.
Print Assumptions C16_amr_escaped_through_open_face.

Theorem C16_amr_final_position_in_box : forall g cells ph target, agood g cells ph target ->
  forall fuel r, amr_interact ROps R_sqrt.sqrt (1 / 2) true true true fuel g cells ph target = AOk r ->
  forall a, vg a (ag_anchor g) <= vg a (ar_pos r) <= vg a (ag_anchor g) + vg a (ag_sides g).
Proof. exact amr_in_box_thm. Qed.
Print Assumptions C16_amr_final_position_in_box.

Theorem C16_amr_premises_satisfiable : forall blk : Z -> Z -> Z -> C16_Defs.tree,
  agood (mkAG (mkV 0 0 0) (mkV 1 1 1) (mkI 2 2 2) (mkBV true false true) blk) (fun _ => mkC 1 1 0)
        (mkLP (mkV (1 / 2) (1 / 2) (1 / 2)) (mkV 1 0 0) 1 0 1) (1 / 4).
Proof. exact agood_example. Qed.
Print Assumptions C16_amr_premises_satisfiable.

(* REFUTED for the PINNED AMRDensityGrid::interact (faithful model, flags false; binary64 witnesses, replayed on
   the real class by props/c16_interact.py on every run).
   A: absorbed in an outermost cell while heading for its open face: end() although the target was reached at
      x = 0.75 inside the only cell (optical depth left < 0, path 0.25 credited) *)
Theorem C16_amr_absorbed_reported_escaped_refuted :
  exists r, f_amr_interact false false false fuel100 (ag_one (mkBV false false false)) (fun _ => one_cell) ph_centre 0.25%float = AOk r /\
            ar_cell r = None /\ ar_pos r = (mkV 0.75 0.5 0.5)%float /\ ar_vis r = [(the_cell, 0.25%float)] /\
            PrimFloat.ltb (as_tau (ar_fin r)) 0%float = true.
Proof. exact amr_absorbed_reported_escaped_refuted_thm. Qed.
Print Assumptions C16_amr_absorbed_reported_escaped_refuted.

(* B: one cell along a periodic axis: the loop does not end for ANY number of iterations *)
Theorem C16_amr_periodic_single_cell_hang_refuted : forall fuel,
  f_amr_interact false false false fuel (ag_one (mkBV true false false)) (fun _ => one_cell) ph_centre 0.75%float = AErrFuel.
Proof. exact amr_periodic_single_cell_hang_refuted_thm. Qed.
Print Assumptions C16_amr_periodic_single_cell_hang_refuted.

(* C: crossing a periodic face into a finer region: the far child [0.5,1]x[0,0.5]^2 is entered, credited and
   returned; the final position (0.25,0.25,0.25) is not in it (defects A and B repaired, C not) *)
Theorem C16_amr_periodic_wrong_child_refuted :
  exists r, f_amr_interact true true false fuel100 ag_two (fun _ => one_cell) (ph_of (mkV 1.5 0.25 0.25) (mkV 1 0 0))%float 0.75%float = AOk r /\
            ar_cell r = Some far_child /\ ar_pos r = (mkV 0.25 0.25 0.25)%float /\
            ar_vis r = [(right_block, 0.5%float); (far_child, 0.25%float)] /\
            f_box_of ag_two far_child = mkTB (mkV 0.5 0 0)%float (mkV 0.5 0.5 0.5)%float.
Proof. exact amr_periodic_wrong_child_refuted_thm. Qed.
Print Assumptions C16_amr_periodic_wrong_child_refuted.

(* the same three inputs on the repaired code *)
Theorem C16_amr_examples_fixed :
  (exists r, f_amr_interact true true true fuel100 (ag_one (mkBV false false false)) (fun _ => one_cell) ph_centre 0.25%float = AOk r /\
             ar_cell r = Some the_cell /\ ar_pos r = (mkV 0.75 0.5 0.5)%float /\ ar_vis r = [(the_cell, 0.25%float)]) /\
  (exists r, f_amr_interact true true true fuel100 (ag_one (mkBV true false false)) (fun _ => one_cell) ph_centre 0.75%float = AOk r /\
             ar_cell r = Some the_cell /\ ar_pos r = (mkV 0.25 0.5 0.5)%float /\ ar_vis r = [(the_cell, 0.5%float); (the_cell, 0.25%float)]) /\
  (exists r, f_amr_interact true true true fuel100 ag_two (fun _ => one_cell) (ph_of (mkV 1.5 0.25 0.25) (mkV 1 0 0))%float 0.75%float = AOk r /\
             ar_cell r = Some near_child /\ ar_pos r = (mkV 0.25 0.25 0.25)%float /\
             ar_vis r = [(right_block, 0.5%float); (near_child, 0.25%float)] /\
             f_box_of ag_two near_child = mkTB (mkV 0 0 0)%float (mkV 0.5 0.5 0.5)%float).
Proof. exact (conj f_amr_absorbed_in_outermost_cell_fixed (conj f_amr_periodic_single_cell_fixed f_amr_periodic_child_fixed)). Qed.
Print Assumptions C16_amr_examples_fixed.
