(* C15  Voronoi grids are valid tessellations: specification over exact rationals and soundness of the per-cell certificate
   checker that is run (extracted) on the output of the real NewVoronoiGrid.  Proofs are in Cxx/C15_Proofs.v. *)
From Coq Require Import QArith List Bool NArith.
From CMI Require Import Cxx.C15_Defs Cxx.C15_Proofs.
Import ListNotations.
Open Scope Q_scope.

(* ---- specification: properties of the Voronoi cells of ANY generator list ------------------------------------------ *)
Theorem C15_closer_is_linear : forall gi gk x, closer gi gk x <-> dot (bis_a gi gk) x <= bis_b gi gk.
Proof. exact closer_lin. Qed.
Print Assumptions C15_closer_is_linear.

Theorem C15_cells_cover_box : forall gens B x, gens <> [] -> in_box B x -> exists i, (i < length gens)%nat /\ vcell gens B i x.
Proof. exact cells_cover_box. Qed.
Print Assumptions C15_cells_cover_box.

Theorem C15_cells_overlap_only_on_bisector : forall gens B i j x, (i < length gens)%nat -> (j < length gens)%nat ->
  vcell gens B i x -> vcell gens B j x -> on_bisector (gen gens i) (gen gens j) x.
Proof. exact cells_overlap_on_bisector. Qed.
Print Assumptions C15_cells_overlap_only_on_bisector.

Theorem C15_cell_interiors_disjoint : forall gens B i j x, (i < length gens)%nat ->
  strictly_closer (gen gens i) (gen gens j) x -> ~ vcell gens B j x.
Proof. exact cell_interiors_disjoint. Qed.
Print Assumptions C15_cell_interiors_disjoint.

Theorem C15_generator_in_own_cell : forall gens B i, in_box B (gen gens i) -> vcell gens B i (gen gens i).
Proof. exact generator_in_own_cell. Qed.
Print Assumptions C15_generator_in_own_cell.

Theorem C15_generator_not_in_other_cell : forall gens B i k, ~ peq (gen gens i) (gen gens k) -> (i < length gens)%nat -> ~ vcell gens B k (gen gens i).
Proof. exact generator_not_in_other_cell. Qed.
Print Assumptions C15_generator_not_in_other_cell.

Theorem C15_cell_convex : forall gens B i x y t, 0 <= t <= 1 -> vcell gens B i x -> vcell gens B i y -> vcell gens B i (lerp t x y).
Proof. exact cell_convex. Qed.
Print Assumptions C15_cell_convex.

Theorem C15_face_same_from_both_sides : forall gens B i j x, (vcell gens B i x /\ vcell gens B j x) <-> (vcell gens B j x /\ vcell gens B i x).
Proof. exact face_same_from_both_sides. Qed.
Print Assumptions C15_face_same_from_both_sides.

Theorem C15_face_normals_opposite : forall gi gj, peq (bis_a gj gi) (pscale (-1) (bis_a gi gj)) /\ bis_b gj gi == - bis_b gi gj.
Proof. exact face_normals_opposite. Qed.
Print Assumptions C15_face_normals_opposite.

Theorem C15_face_plane_symmetric : forall gi gj x, on_bisector gi gj x <-> on_bisector gj gi x.
Proof. exact face_plane_symmetric. Qed.
Print Assumptions C15_face_plane_symmetric.

(* ---- every position is assigned to the cell of its nearest generator: the executable check is exact ------------------ *)
Theorem C15_nearest_check_iff : forall gens i x,
  nearest_check gens i x = true <-> (forall k, (k < length gens)%nat -> closer (gen gens i) (gen gens k) x).
Proof. exact nearest_check_iff. Qed.
Print Assumptions C15_nearest_check_iff.

Theorem C15_nearest_check_in_cell : forall gens B i x, in_box B x -> (nearest_check gens i x = true <-> vcell gens B i x).
Proof. exact nearest_check_in_cell. Qed.
Print Assumptions C15_nearest_check_in_cell.

Theorem C15_nearest_check_slack_iff : forall er ea gens i x,
  nearest_check_slack er ea gens i x = true <->
  (forall k, (k < length gens)%nat -> dist2 x (gen gens i) <= (1 + er) * dist2 x (gen gens k) + ea).
Proof. exact nearest_check_slack_iff. Qed.
Print Assumptions C15_nearest_check_slack_iff.

Theorem C15_nearest_check_slack_zero : forall gens i x, nearest_check_slack 0 0 gens i x = true <-> nearest_check gens i x = true.
Proof. exact nearest_check_slack_zero. Qed.
Print Assumptions C15_nearest_check_slack_zero.

(* ---- the certificate checker ------------------------------------------------------------------------------------------- *)
Theorem C15_farkas_sound : forall cs ct t y, farkas_check cs ct t = true -> sat cs y -> sat1 t y.
Proof. exact farkas_sound. Qed.
Print Assumptions C15_farkas_sound.

Theorem C15_check_cell_sound : forall gens B i Ni cc, check_cell gens B i Ni cc = true ->
  forall x, in_box B x -> (forall j, In j Ni -> closer (gen gens i) (gen gens j) x) ->
  forall k, (k < length gens)%nat -> closer (gen gens i) (gen gens k) x.
Proof. exact check_cell_sound. Qed.
Print Assumptions C15_check_cell_sound.

Theorem C15_check_cell_eps_sound : forall eps gens B i Ni cc, check_cell_eps eps gens B i Ni cc = true ->
  forall x, in_box B x -> (forall j, In j Ni -> closer (gen gens i) (gen gens j) x) ->
  forall k, (k < length gens)%nat -> dist2 x (gen gens i) <= dist2 x (gen gens k) + eps * dist2 (gen gens k) (gen gens i).
Proof. exact check_cell_eps_sound. Qed.
Print Assumptions C15_check_cell_eps_sound.

Theorem C15_vcell_in_pcell : forall gens B i Ni x, (forall j, In j Ni -> (j < length gens)%nat) -> vcell gens B i x -> pcell gens B i Ni x.
Proof. exact vcell_in_pcell. Qed.
Print Assumptions C15_vcell_in_pcell.

Theorem C15_check_cell_exact : forall gens B i Ni cc, (forall j, In j Ni -> (j < length gens)%nat) -> check_cell gens B i Ni cc = true ->
  forall x, pcell gens B i Ni x <-> vcell gens B i x.
Proof. exact check_cell_exact. Qed.
Print Assumptions C15_check_cell_exact.

Theorem C15_witness_check_sound : forall gens B i Ni k x, witness_check gens B i Ni k x = true ->
  pcell gens B i Ni x /\ strictly_closer (gen gens k) (gen gens i) x.
Proof. exact witness_check_sound. Qed.
Print Assumptions C15_witness_check_sound.

Theorem C15_witness_refutes_cell : forall gens B i Ni k x cc, (k < length gens)%nat ->
  witness_check gens B i Ni k x = true -> check_cell gens B i Ni cc = false.
Proof. exact witness_refutes_cell. Qed.
Print Assumptions C15_witness_refutes_cell.

Theorem C15_neighbour_symmetric_check_iff : forall F, neighbour_symmetric_check F = true <-> faces_symmetric F.
Proof. exact neighbour_symmetric_check_iff. Qed.
Print Assumptions C15_neighbour_symmetric_check_iff.

(* ---- the hypotheses are satisfiable (concrete instances, by computation) ------------------------------------------------ *)
Theorem C15_example_four_generators :
  check_cell ex4_gens ex4_box 0 [1; 2; 3]%nat ex4_cc0 = true /\ check_cell ex4_gens ex4_box 1 [0; 2; 3]%nat ex4_cc1 = true /\
  check_cell ex4_gens ex4_box 2 [0; 1; 3]%nat ex4_cc2 = true /\ check_cell ex4_gens ex4_box 3 [0; 1; 2]%nat ex4_cc3 = true /\
  witness_check ex4_gens ex4_box 0 [1; 2]%nat 3 (mkpt (1213 # 140) (773 # 140) 16) = true.
Proof. exact (conj ex4_check_cell0 (conj ex4_check_cell1 (conj ex4_check_cell2 (conj ex4_check_cell3 ex4_witness)))). Qed.
Print Assumptions C15_example_four_generators.

Theorem C15_example_seven_generators :
  check_cell ex7_gens ex7_box 0 [1; 2; 5; 6]%nat ex7_cc0 = true /\ check_cell ex7_gens ex7_box 3 [4; 6]%nat ex7_cc3 = true /\
  check_cell ex7_gens ex7_box 6 [0; 2; 3; 4]%nat ex7_cc6 = true.
Proof. exact (conj ex7_check_cell0 (conj ex7_check_cell3 ex7_check_cell6)). Qed.
Print Assumptions C15_example_seven_generators.
