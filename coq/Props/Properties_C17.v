(* C17  Orientation and in-sphere tests return the exact sign.
   Only statements, each closed by [exact] of a lemma of Cxx/C17_*.v.
   Points are triples of 64 bit patterns of doubles; [coordR bits] = 1 + mantissa/2^52 is the
   real value of a pattern in [1,2).
   Status: (i) exact = sign of the real determinant, (ii) no overflow of the 256/278 bit types, (iii) permutations
   (transpositions and all 24/120 permutations), (iv) result = Z.sgn, (v) filter soundness are all proved for ALL
   inputs (in range where the header requires it); nothing is partial.  The model (C17_Defs.v) is tied to
   src/ExactGeometricTests.hpp by the correspondence run of props/c17.py. *)
From Coq Require Import ZArith List Bool Reals Permutation.
From Flocq Require Import Core BinarySingleNaN.
Require Flocq.IEEE754.PrimFloat.
From CMI Require Import Cxx.C17_Defs Cxx.C17_Proofs Cxx.C17_Real Cxx.C17_Filter Cxx.C17_FilterB Cxx.C17_FilterSound.
Import ListNotations.
Local Open Scope Z_scope.

(* (iv) the result of the exact functions is Z.sgn of the integer determinant of the mantissas
   (for every bit pattern; in particular it is one of -1, 0, 1) *)
Theorem C17_orient_exact_is_sgn : forall a b c d, orient3d_exact a b c d = Z.sgn (orient_mant orient_det a b c d).
Proof. exact orient3d_exact_sgn. Qed.
Print Assumptions C17_orient_exact_is_sgn.

Theorem C17_insphere_exact_is_sgn : forall a b c d e, insphere_exact a b c d e = Z.sgn (insphere_mant insphere_det a b c d e).
Proof. exact insphere_exact_sgn. Qed.
Print Assumptions C17_insphere_exact_is_sgn.

(* (ii) no overflow: for mantissas in [0,2^52) every intermediate result of the code's operation sequence is below
   2^162 resp. 2^272 in magnitude, which is below the 256 resp. 278 bits of the types used, and therefore the fixed
   width computation (which would drop high bits) equals the computation in Z *)
Theorem C17_no_overflow_orient : forall m0 m1 m2 m3 m4 m5 m6 m7 m8 m9 m10 m11,
  let l := [m0; m1; m2; m3; m4; m5; m6; m7; m8; m9; m10; m11] in
  mant_ok l ->
  Forall (fun v => Z.abs v < 2 ^ BITS_ORIENT) (intermediates (env 0 l) orient_expr)
  /\ BITS_ORIENT < W_ORIENT
  /\ orient_det_fixed m0 m1 m2 m3 m4 m5 m6 m7 m8 m9 m10 m11 = orient_det m0 m1 m2 m3 m4 m5 m6 m7 m8 m9 m10 m11.
Proof. exact orient_no_overflow. Qed.
Print Assumptions C17_no_overflow_orient.

Theorem C17_no_overflow_insphere : forall m0 m1 m2 m3 m4 m5 m6 m7 m8 m9 m10 m11 m12 m13 m14,
  let l := [m0; m1; m2; m3; m4; m5; m6; m7; m8; m9; m10; m11; m12; m13; m14] in
  mant_ok l ->
  Forall (fun v => Z.abs v < 2 ^ BITS_INSPHERE) (intermediates (env 0 l) insphere_expr)
  /\ BITS_INSPHERE < W_INSPHERE
  /\ insphere_det_fixed m0 m1 m2 m3 m4 m5 m6 m7 m8 m9 m10 m11 m12 m13 m14 = insphere_det m0 m1 m2 m3 m4 m5 m6 m7 m8 m9 m10 m11 m12 m13 m14.
Proof. exact insphere_no_overflow. Qed.
Print Assumptions C17_no_overflow_insphere.

(* (i) the exact functions return the sign of the real determinant of the coordinates
   (orientR = |a-d; b-d; c-d| = the 4x4 determinant with a column of ones; insphereR = |p-e, |p-e|^2| = the 5x5 one) *)
Theorem C17_orient_exact_is_real_sign : forall a b c d,
  sgn_is (orientR (coordR (px a)) (coordR (py a)) (coordR (pz a)) (coordR (px b)) (coordR (py b)) (coordR (pz b))
                  (coordR (px c)) (coordR (py c)) (coordR (pz c)) (coordR (px d)) (coordR (py d)) (coordR (pz d)))
         (orient3d_exact a b c d).
Proof. exact orient_exact_is_real_sign. Qed.
Print Assumptions C17_orient_exact_is_real_sign.

Theorem C17_insphere_exact_is_real_sign : forall a b c d e,
  sgn_is (insphereR (coordR (px a)) (coordR (py a)) (coordR (pz a)) (coordR (px b)) (coordR (py b)) (coordR (pz b))
                    (coordR (px c)) (coordR (py c)) (coordR (pz c)) (coordR (px d)) (coordR (py d)) (coordR (pz d))
                    (coordR (px e)) (coordR (py e)) (coordR (pz e)))
         (insphere_exact a b c d e).
Proof. exact insphere_exact_is_real_sign. Qed.
Print Assumptions C17_insphere_exact_is_real_sign.

Theorem C17_determinants_homogeneous :
  (forall ax ay az bx by_ bz cx cy cz dx dy dz,
     orientR ax ay az bx by_ bz cx cy cz dx dy dz = det4 ax ay az 1  bx by_ bz 1  cx cy cz 1  dx dy dz 1)%R /\
  (forall ax ay az bx by_ bz cx cy cz dx dy dz ex ey ez,
     insphereR ax ay az bx by_ bz cx cy cz dx dy dz ex ey ez =
     det5 ax ay az (n2 ax ay az) 1  bx by_ bz (n2 bx by_ bz) 1  cx cy cz (n2 cx cy cz) 1
          dx dy dz (n2 dx dy dz) 1  ex ey ez (n2 ex ey ez) 1)%R.
Proof. exact (conj orientR_homogeneous insphereR_homogeneous). Qed.
Print Assumptions C17_determinants_homogeneous.

(* (iii) permutations: the generating transpositions negate; every permutation p of the argument positions
   multiplies the result by its parity *)
Theorem C17_orient_transpositions : forall a b c d,
  orient3d_exact b a c d = - orient3d_exact a b c d /\
  orient3d_exact a c b d = - orient3d_exact a b c d /\
  orient3d_exact a b d c = - orient3d_exact a b c d.
Proof. exact orient_transpositions. Qed.
Print Assumptions C17_orient_transpositions.

Theorem C17_insphere_transpositions : forall a b c d e,
  insphere_exact b a c d e = - insphere_exact a b c d e /\
  insphere_exact a c b d e = - insphere_exact a b c d e /\
  insphere_exact a b d c e = - insphere_exact a b c d e /\
  insphere_exact a b c e d = - insphere_exact a b c d e.
Proof. exact insphere_transpositions. Qed.
Print Assumptions C17_insphere_transpositions.

Theorem C17_orient_permutation_signs : forall a b c d p, Permutation p [0; 1; 2; 3]%nat ->
  let l := permute pt0 [a; b; c; d] p in
  orient3d_exact (nth_pt l 0) (nth_pt l 1) (nth_pt l 2) (nth_pt l 3) = parity p * orient3d_exact a b c d.
Proof. exact orient_perm_any. Qed.
Print Assumptions C17_orient_permutation_signs.

Theorem C17_insphere_permutation_signs : forall a b c d e p, Permutation p [0; 1; 2; 3; 4]%nat ->
  let l := permute pt0 [a; b; c; d; e] p in
  insphere_exact (nth_pt l 0) (nth_pt l 1) (nth_pt l 2) (nth_pt l 3) (nth_pt l 4) = parity p * insphere_exact a b c d e.
Proof. exact insphere_perm_any. Qed.
Print Assumptions C17_insphere_permutation_signs.

(* (v) the floating point filter.
   The double decoded from a bit pattern in [1,2) (PrimFloat value of the model, seen through Flocq's Prim2B) is finite
   and its real value is coordR = 1 + mantissa/2^52: the determinants above are over the values the code works with. *)
Theorem C17_coordR_is_value : forall bits, in_range bits ->
  is_finite (Flocq.IEEE754.PrimFloat.Prim2B (f_of_bits bits)) = true /\
  B2R (Flocq.IEEE754.PrimFloat.Prim2B (f_of_bits bits)) = coordR bits.
Proof. exact coordR_is_value. Qed.
Print Assumptions C17_coordR_is_value.

(* generic running error bound (DESIGN A.6): a tree of -, *, + evaluated with one rounding to nearest (binary64, gradual
   underflow) per node, leaves multiples of 2^lg and no node finer than 2^-1074:  |fl(E) - E| <= ((1+2^-53)^k - 1) |E|_abs *)
Theorem C17_running_error : forall lg rho, (forall i, on_grid lg (rho i)) -> forall e, wf lg e = true ->
  (Rabs (evalF rho e - evalR rho e) <= G (cnt e) * evalA rho e /\ Rabs (evalR rho e) <= evalA rho e)%R.
Proof. exact running_error. Qed.
Print Assumptions C17_running_error.

(* filter soundness, full strength: for all points with coordinates in [1,2), whenever the binary64 filter of
   orient3d_adaptive / insphere_adaptive decides (result < -errbound or result > errbound, evaluated in PrimFloat
   exactly as written in the header), its answer is the result of the exact function; it never answers 0.
   (orient3d and insphere in one statement: each Print Assumptions over the Flocq development costs about 10 s) *)
Theorem C17_filter_sound :
  (forall a b c d s,
     pt_in_range a -> pt_in_range b -> pt_in_range c -> pt_in_range d ->
     orient3d_filter a b c d = Some s -> s = orient3d_exact a b c d) /\
  (forall a b c d e s,
     pt_in_range a -> pt_in_range b -> pt_in_range c -> pt_in_range d -> pt_in_range e ->
     insphere_filter_dec a b c d e = Some s -> s = insphere_exact a b c d e).
Proof. exact (conj orient_filter_sound insphere_filter_sound). Qed.
Print Assumptions C17_filter_sound.

Theorem C17_filter_never_zero : forall re s, filter_decision re = Some s -> s = -1 \/ s = 1.
Proof. exact filter_decision_nonzero. Qed.
Print Assumptions C17_filter_never_zero.

(* the property for the functions that are called by the grid code: sign of the real determinant, 0 exactly when degenerate *)
Theorem C17_adaptive_is_real_sign :
  (forall a b c d,
     pt_in_range a -> pt_in_range b -> pt_in_range c -> pt_in_range d ->
     sgn_is (orientR (coordR (px a)) (coordR (py a)) (coordR (pz a)) (coordR (px b)) (coordR (py b)) (coordR (pz b))
                     (coordR (px c)) (coordR (py c)) (coordR (pz c)) (coordR (px d)) (coordR (py d)) (coordR (pz d)))
            (orient3d_adaptive a b c d)) /\
  (forall a b c d e,
     pt_in_range a -> pt_in_range b -> pt_in_range c -> pt_in_range d -> pt_in_range e ->
     sgn_is (insphereR (coordR (px a)) (coordR (py a)) (coordR (pz a)) (coordR (px b)) (coordR (py b)) (coordR (pz b))
                       (coordR (px c)) (coordR (py c)) (coordR (pz c)) (coordR (px d)) (coordR (py d)) (coordR (pz d))
                       (coordR (px e)) (coordR (py e)) (coordR (pz e)))
            (insphere_adaptive a b c d e)).
Proof. exact (conj orient_adaptive_real_sign insphere_adaptive_real_sign). Qed.
Print Assumptions C17_adaptive_is_real_sign.

(* ... and they change sign under odd permutations of the points and are unchanged under even ones *)
Theorem C17_adaptive_permutation_signs :
  (forall a b c d p,
     pt_in_range a -> pt_in_range b -> pt_in_range c -> pt_in_range d -> Permutation p [0; 1; 2; 3]%nat ->
     let l := permute pt0 [a; b; c; d] p in
     orient3d_adaptive (nth_pt l 0) (nth_pt l 1) (nth_pt l 2) (nth_pt l 3) = parity p * orient3d_adaptive a b c d) /\
  (forall a b c d e p,
     pt_in_range a -> pt_in_range b -> pt_in_range c -> pt_in_range d -> pt_in_range e -> Permutation p [0; 1; 2; 3; 4]%nat ->
     let l := permute pt0 [a; b; c; d; e] p in
     insphere_adaptive (nth_pt l 0) (nth_pt l 1) (nth_pt l 2) (nth_pt l 3) (nth_pt l 4) = parity p * insphere_adaptive a b c d e).
Proof. exact (conj orient_adaptive_perm insphere_adaptive_perm). Qed.
Print Assumptions C17_adaptive_permutation_signs.
