(* C04  A hydro step conserves mass, momentum and energy; states stay physical.
   Statements only; proofs in Cxx/C04_Faces.v (discrete part) and Cxx/C04_Proofs.v (real-number instance of the model).
   RS := ROps eps gfloor is the real-number instance of the scalar record (eps stands for DBL_MIN, gfloor for the floor
   1.00000001 on gamma inside the Riemann solver); [riemann] is ANY function (rhoL uL PL rhoR uR PR normal) -> (m, p, E). *)
From Coq Require Import Reals ZArith List Floats Permutation.
From CMI Require Import Common.Scalar Cxx.C05_Defs Cxx.C04_Defs Cxx.C04_FluxDefs Cxx.C04_Faces Cxx.C04_Proofs.

(* ---- which faces the sweeps visit (Z, all sizes, all 8 periodicity combinations) ---- *)

(* the visits of all internal sweeps, all positive-direction pair sweeps (incl. the periodic wrap pair) and all boundary sweeps
   of ANY layout, mapped to global cell ids, are exactly the face set of the global cell grid, every face once *)
Theorem C04_faces_once : forall L, wf_layout L -> Permutation (global_faces L) (canonical_faces L).
Proof. exact faces_once. Qed.
Print Assumptions C04_faces_once.

(* what the face set is, independently of how the list is generated: no face twice ... *)
Theorem C04_canonical_faces_NoDup : forall L, wf_layout L -> NoDup (canonical_faces L).
Proof. exact canonical_faces_NoDup. Qed.
Print Assumptions C04_canonical_faces_NoDup.

(* ... the interior faces are (cell, next cell along the axis), with the wrap face on a periodic axis ... *)
Theorem C04_canonical_faces_interior : forall L, wf_layout L -> forall a l r,
  In (Interior a l r) (canonical_faces L) <->
  exists X Y W, (0 <= X < NX L /\ 0 <= Y < NY L /\ 0 <= W < NZ L /\ l = gid3 L X Y W /\
    ((a = 0 /\ (X + 1 < NX L /\ r = gid3 L (X + 1) Y W \/ X + 1 = NX L /\ px L = true /\ r = gid3 L 0 Y W)) \/
     (a = 1 /\ (Y + 1 < NY L /\ r = gid3 L X (Y + 1) W \/ Y + 1 = NY L /\ py L = true /\ r = gid3 L X 0 W)) \/
     (a = 2 /\ (W + 1 < NZ L /\ r = gid3 L X Y (W + 1) \/ W + 1 = NZ L /\ pz L = true /\ r = gid3 L X Y 0))))%Z.
Proof. exact canonical_faces_spec_interior. Qed.
Print Assumptions C04_canonical_faces_interior.

(* ... and the boundary faces are the two ends of every non-periodic axis *)
Theorem C04_canonical_faces_boundary : forall L, wf_layout L -> forall a sgn c,
  In (Boundary a sgn c) (canonical_faces L) <->
  exists X Y W, (0 <= X < NX L /\ 0 <= Y < NY L /\ 0 <= W < NZ L /\ c = gid3 L X Y W /\
    ((a = 0 /\ px L = false /\ (sgn = 1 /\ X + 1 = NX L \/ sgn = -1 /\ X = 0)) \/
     (a = 1 /\ py L = false /\ (sgn = 1 /\ Y + 1 = NY L \/ sgn = -1 /\ Y = 0)) \/
     (a = 2 /\ pz L = false /\ (sgn = 1 /\ W + 1 = NZ L \/ sgn = -1 /\ W = 0))))%Z.
Proof. exact canonical_faces_spec_boundary. Qed.
Print Assumptions C04_canonical_faces_boundary.

(* (subgrid, cell index) -> global cell id is a bijection onto the cells of the box *)
Theorem C04_gid_bijective : forall L, wf_layout L ->
  (forall s idx, 0 <= s < sx L * sy L * sz L -> 0 <= idx < nx L * ny L * nz L -> 0 <= gid L s idx < NX L * NY L * NZ L)%Z
  /\ (forall s idx s' idx', 0 <= s < sx L * sy L * sz L -> 0 <= idx < nx L * ny L * nz L -> 0 <= s' < sx L * sy L * sz L ->
        0 <= idx' < nx L * ny L * nz L -> gid L s idx = gid L s' idx' -> s = s' /\ idx = idx')%Z
  /\ (forall c, 0 <= c < NX L * NY L * NZ L -> exists s idx, 0 <= s < sx L * sy L * sz L /\ 0 <= idx < nx L * ny L * nz L /\ gid L s idx = c)%Z.
Proof. intros L H. split; [exact (gid_range L H)|split; [exact (gid_inj L H)|exact (gid_surj L H)]]. Qed.
Print Assumptions C04_gid_bijective.

(* the executable checker run on the face lists logged by the REAL sweeps is sound *)
Theorem C04_faces_once_check_sound : forall L fs, faces_once_check L fs = true -> Permutation fs (canonical_faces L).
Proof. exact faces_once_check_sound. Qed.
Print Assumptions C04_faces_once_check_sound.

(* ---- per-face flux exchange (real-number instance) ---- *)

(* for ANY Riemann function and whatever the flux-limiter factor is, the changes written to the delta accumulators of the two
   cells of a face are opposite component by component, both equal to the (limited) face flux; nothing else is written *)
Theorem C04_face_update_antisymmetric : forall eps gfloor riemann gamma bkind dxs As dt (st : state R) a l r, l <> r ->
  let st' := apply_face R (ROps eps gfloor) riemann gamma bkind dxs As dt st (Interior a l r) in
  (forall k, get5 R k (dcons R (st' l)) - get5 R k (dcons R (st l)) = - (get5 R k (dcons R (st' r)) - get5 R k (dcons R (st r))))%R
  /\ (forall k, get5 R k (dcons R (st' l)) = get5 R k (dcons R (st l)) - get5 R k (face_flux eps gfloor riemann gamma bkind dxs As dt st (Interior a l r)))%R
  /\ same_but_delta (st l) (st' l) /\ same_but_delta (st r) (st' r) /\ (forall j, j <> l -> j <> r -> st' j = st j).
Proof. exact face_update_antisymmetric. Qed.
Print Assumptions C04_face_update_antisymmetric.

(* a flux phase over ANY list of interior faces of a finite cell set (any order, any multiplicity, both sides may even be the
   same cell) keeps the total of each of the five delta accumulators *)
Theorem C04_flux_phase_keeps_delta_totals : forall eps gfloor riemann gamma bkind dxs As dt k cells fs,
  NoDup cells -> Forall (interior_in cells) fs -> forall st : state R,
  total R (ROps eps gfloor) (dproj k) cells (flux_phase R (ROps eps gfloor) riemann gamma bkind dxs As dt fs st) =
  total R (ROps eps gfloor) (dproj k) cells st.
Proof. exact flux_phase_total. Qed.
Print Assumptions C04_flux_phase_keeps_delta_totals.

(* periodic box, ANY layout, no source terms (zero gravity and energy term), delta accumulators zero before the flux phase:
   if no cell is driven below zero mass or energy (no_clamp: the positivity clamp of update_conserved_variables does not fire)
   the totals of mass (k = 0), momentum (k = 1, 2, 3) and energy (k = 4) are unchanged by flux phase + conserved update *)
Theorem C04_periodic_step_conserves : forall eps gfloor dblmax riemann gamma dxs As dt L bkind k (st : state R),
  wf_layout L -> px L = true -> py L = true -> pz L = true ->
  (forall j, In j (all_cells L) -> dcons R (st j) = zero5 R (ROps eps gfloor) /\ no_source eps gfloor (st j)) ->
  (forall j, In j (all_cells L) -> no_clamp dt (flux_phase R (ROps eps gfloor) riemann gamma bkind dxs As dt (global_faces L) st j)) ->
  total R (ROps eps gfloor) (cproj k) (all_cells L)
    (update_phase R (ROps eps gfloor) dblmax dt (flux_phase R (ROps eps gfloor) riemann gamma bkind dxs As dt (global_faces L) st)) =
  total R (ROps eps gfloor) (cproj k) (all_cells L) st.
Proof. exact periodic_step_conserves. Qed.
Print Assumptions C04_periodic_step_conserves.

(* ---- reflecting walls ---- *)

(* the per-face slope limiter is odd *)
Theorem C04_limit_odd : forall eps gfloor m a b d, (limit R (ROps eps gfloor) (- m) (- a) (- b) d = - limit R (ROps eps gfloor) m a b d)%R.
Proof. exact limit_odd. Qed.
Print Assumptions C04_limit_odd.

(* ReflectiveHydroBoundary + reconstruction + limiter + clamp hand the Riemann solver a mirror problem: same density and
   pressure on both sides, velocities mirror images of each other in the wall *)
Theorem C04_reflective_wall_is_mirror : forall eps gfloor i (L : cell R) dx, (0 <= i <= 2)%Z ->
  exists vL, ghost_input R (ROps eps gfloor) 2 i L dx =
    (smax (ROps eps gfloor) (c0 R (prim R L)) 0%R, vL, smax (ROps eps gfloor) (c4 R (prim R L)) 0%R,
     smax (ROps eps gfloor) (c0 R (prim R L)) 0%R, mirror_vec i vL, smax (ROps eps gfloor) (c4 R (prim R L)) 0%R).
Proof. exact reflective_ghost_input. Qed.
Print Assumptions C04_reflective_wall_is_mirror.

(* box with reflecting walls on its non-periodic faces, ANY layout, ANY Riemann function that exchanges no mass and no energy
   between mirror states admitted by [wall_ok]: total mass (k = 0) and energy (k = 4) are unchanged when no clamp fires *)
Theorem C04_reflective_step_conserves_mass_energy : forall eps gfloor dblmax riemann gamma dxs As dt
    (wall_ok : Z -> R -> vec R -> R -> vec R -> Prop) L k (st : state R),
  (forall i rho v P n, (0 <= i <= 2)%Z -> wall_ok i rho v P n ->
     let Fl := riemann rho v P rho (mirror_vec i v) P n in fst (fst Fl) = 0%R /\ snd Fl = 0%R) ->
  wf_layout L -> (k = 0 \/ k = 4)%Z ->
  (forall a sgn c, In (Boundary a sgn c) (canonical_faces L) -> wall_admissible eps gfloor dxs wall_ok (st c) a sgn) ->
  (forall j, In j (all_cells L) -> dcons R (st j) = zero5 R (ROps eps gfloor) /\ no_source eps gfloor (st j)) ->
  (forall j, In j (all_cells L) -> no_clamp dt (flux_phase R (ROps eps gfloor) riemann gamma 2 dxs As dt (global_faces L) st j)) ->
  total R (ROps eps gfloor) (cproj k) (all_cells L)
    (update_phase R (ROps eps gfloor) dblmax dt (flux_phase R (ROps eps gfloor) riemann gamma 2 dxs As dt (global_faces L) st)) =
  total R (ROps eps gfloor) (cproj k) (all_cells L) st.
Proof. exact reflective_step_conserves_mass_energy. Qed.
Print Assumptions C04_reflective_step_conserves_mass_energy.

(* the hypothesis on the Riemann function holds for C05's model of the HLLC solver (the one Hydro uses, face at rest) whenever
   the gas at the wall has positive density and pressure and its velocity towards the wall is below 1.5 sound speeds (and it
   does not recede fast enough to open a vacuum): C05_hllc_mirror_no_mass_energy_flux lifted to solve_for_flux *)
Theorem C04_hllc_wall_mirror : forall gfloor gamma, (1 < gamma)%R -> (gfloor <= gamma)%R ->
  forall i rho v P n, (0 <= i <= 2)%Z -> hllc_wall_ok gfloor gamma i rho v P n ->
  let Fl := hllc_riemann gfloor gamma rho v P rho (mirror_vec i v) P n in fst (fst Fl) = 0%R /\ snd Fl = 0%R.
Proof. exact hllc_wall_mirror. Qed.
Print Assumptions C04_hllc_wall_mirror.

(* ---- physical states ---- *)

(* over the reals: after update_conserved_variables mass and energy are >= 0, after set_primitive_variables density and
   pressure are >= 0, for every input *)
Theorem C04_nonnegative_after_update : forall eps gfloor dblmax dt g maxv pcf T xH (c : cell R) invvol,
  (0 <= c0 R (cons R (update_conserved R (ROps eps gfloor) dblmax c dt)) /\ 0 <= c4 R (cons R (update_conserved R (ROps eps gfloor) dblmax c dt)))%R
  /\ (0 <= c0 R (prim R (set_primitive R (ROps eps gfloor) g maxv pcf T xH c invvol)) /\ 0 <= c4 R (prim R (set_primitive R (ROps eps gfloor) g maxv pcf T xH c invvol)))%R.
Proof. intros. split; [apply update_conserved_nonneg|apply set_primitive_nonneg]. Qed.
Print Assumptions C04_nonnegative_after_update.

(* binary64 (Coq.Floats specification): what leaves the clamps is >= 0 unless it is NaN.  PARTIAL with respect to the property
   text: finiteness is NOT claimed (+infinity passes, overflow is possible by construction) and a NaN passes (next theorem) *)
Theorem C04_nonnegative_after_update_binary64_partial : forall pw cst dblmax g maxv pcf T xH (c : cell float) dt invvol,
  let u := update_conserved float (FOps pw cst) dblmax c dt in
  let p := set_primitive float (FOps pw cst) g maxv pcf T xH c invvol in
  (is_nan (c0 float (cons float u)) = false -> (0 <=? c0 float (cons float u))%float = true) /\
  (is_nan (c4 float (cons float u)) = false -> (0 <=? c4 float (cons float u))%float = true) /\
  (is_nan (c0 float (prim float p)) = false -> (0 <=? c0 float (prim float p))%float = true) /\
  (is_nan (c4 float (prim float p)) = false -> (0 <=? c4 float (prim float p))%float = true).
Proof.
  intros. destruct (f_update_nonneg_or_nan pw cst dblmax c dt) as [A B].
  destruct (f_set_primitive_nonneg_or_nan pw cst g maxv pcf T xH c invvol) as [C D]. repeat split; assumption.
Qed.
Print Assumptions C04_nonnegative_after_update_binary64_partial.

(* std::max(NaN, 0.) is NaN: the clamp does not repair a NaN *)
Theorem C04_clamp_passes_nan : forall pw cst, is_nan (smax (FOps pw cst) nan 0%float) = true.
Proof. exact f_clamp_nan. Qed.
Print Assumptions C04_clamp_passes_nan.
