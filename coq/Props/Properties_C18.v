(* C18  Atomic data and sampled frequencies are physical.
   Only statements, each closed by [exact] of a lemma of Cxx/C18_Proofs*.v.

   [Rops] is the real-number instance of the model of Cxx/C18_Defs.v (the binary64 instance of the
   same definitions is what is run against the C++ classes); tables are those of the regenerated
   Cxx/C18_Gen.v; [ion] ranges over the 14 ions tracked by the default build. *)
From Coq Require Import Reals ZArith List Bool.
From CMI Require Import Cxx.C18_Proofs.
Import ListNotations.
Local Open Scope R_scope.

(* ---- recombination ---------------------------------------------------------------------- *)
(* every rate the balance uses is strictly positive for 10 K <= T <= 1e5 K (Verner part from the
   sign of the regenerated coefficients; ions whose dielectronic polynomial has negative
   coefficients by interval arithmetic on the regenerated numbers) *)
Theorem C18_rec_rate_positive_to_1e5 : forall i T, 10 <= T <= 100000 -> 0 < rec_rate Rops i T.
Proof. exact rec_rate_positive_lemma. Qed.
Print Assumptions C18_rec_rate_positive_to_1e5.

(* ... and non-negative at every temperature (the code clips at zero) *)
Theorem C18_rec_rate_nonneg : forall i T, 0 <= rec_rate Rops i T.
Proof. exact rec_rate_nonneg_lemma. Qed.
Print Assumptions C18_rec_rate_nonneg.

(* the clip is not dead code: the unclipped C2+ expression is negative at 1e9 K *)
Theorem C18_rec_clip_needed : rec_before_scaling Rops C_p2 (Vof C_p2 1000000000) 1000000000 < 0.
Proof. exact rec_clip_needed_C_p2. Qed.
Print Assumptions C18_rec_clip_needed.

(* hydrogen and helium: strictly decreasing in T, for all 0 < T < T' *)
Theorem C18_rec_H_He_decreasing : forall i T T', i = H_n \/ i = He_n -> 0 < T -> T < T' ->
  rec_rate Rops i T' < rec_rate Rops i T.
Proof. exact rec_H_He_decreasing_lemma. Qed.
Print Assumptions C18_rec_H_He_decreasing.

(* ---- cross sections ------------------------------------------------------------------------ *)
(* defined and non-negative for every tracked ion and every photon frequency *)
Theorem C18_xsec_nonneg : forall i e, exists v, xsec_ion Rops i e = Some v /\ 0 <= v.
Proof. exact xsec_nonneg_lemma. Qed.
Print Assumptions C18_xsec_nonneg.

(* zero below the ion's threshold (E_th of its outermost summed shell, in Hz as the code converts it) *)
Theorem C18_xsec_zero_below_threshold : forall i e, e < ion_threshold_Hz i -> xsec_ion Rops i e = Some 0.
Proof. exact xsec_zero_below_threshold_lemma. Qed.
Print Assumptions C18_xsec_zero_below_threshold.

(* each shell contributes nothing below its own threshold, for any resolved (nz, ne, is) *)
Theorem C18_xsec_shell_zero_below : forall s e, e < dec2R (ra_Eth (ss_A s)) * eV_to_Hz Rops -> xsec_sel Rops s e = Some 0.
Proof. exact xsec_shell_zero_below. Qed.
Print Assumptions C18_xsec_shell_zero_below.

(* each tracked shell evaluates 0 or, literally, the Verner & Yakovlev 1995 / Verner et al. 1996
   expression on the raw numbers of its row of the shipped table (E in eV) *)
Theorem C18_xsec_is_published_formula : forall i s E, In (Some s) (ion_sels i) ->
  exists b, ss_B s = Some b /\
  (xsec_sel Rops s (E * eV_to_Hz Rops) = Some 0 \/
   xsec_sel Rops s (E * eV_to_Hz Rops) =
     Some (pub95 E (dec2R (ra_E0 (ss_A s))) (dec2R (ra_s0 (ss_A s))) (dec2R (ra_ya (ss_A s))) (dec2R (ra_P (ss_A s))) (dec2R (ra_yw (ss_A s))) (ra_l (ss_A s))) \/
   xsec_sel Rops s (E * eV_to_Hz Rops) =
     Some (pub96 E (dec2R (rb_E0 b)) (dec2R (rb_s0 b)) (dec2R (rb_ya b)) (dec2R (rb_P b)) (dec2R (rb_yw b)) (dec2R (rb_y0 b)) (dec2R (rb_y1 b)))).
Proof. exact xsec_is_published_lemma. Qed.
Print Assumptions C18_xsec_is_published_formula.

(* std::pow is only ever called with positive bases (so that Rpower is the C function) *)
Theorem C18_xsec_pow_bases_positive :
  (forall r e, rowA_ok r = true -> pa_Eth (prep_A Rops r) <= e ->
     0 < fitA_y Rops (prep_A Rops r) e /\ 0 < fitA_b2 Rops (prep_A Rops r) e) /\
  (forall b e, rowB_ok b = true -> 0 < e ->
     0 < fitB_y Rops (prep_B Rops b) e /\ 0 < fitB_b2 Rops (prep_B Rops b) e).
Proof. exact (conj fitA_bases_pos fitB_bases_pos). Qed.
Print Assumptions C18_xsec_pow_bases_positive.

(* the table conditions used above hold on the regenerated tables, for all 14 ions *)
Theorem C18_tables_satisfy_conditions : forallb ion_ok all_ions = true /\ forallb thr_ok all_ions = true /\ metal_rr_ok = true.
Proof. exact (conj all_ions_ok (conj all_thr_ok metal_rr_ok_true)). Qed.
Print Assumptions C18_tables_satisfy_conditions.

(* the integer sign/order checks on exact decimals are sound *)
Theorem C18_sign_checkers_sound :
  (forall d, dpos d = true -> 0 < dec2R d) /\ (forall d, dnonneg d = true -> 0 <= dec2R d) /\
  (forall d, dnonpos d = true -> dec2R d <= 0) /\ (forall a b, dlt a b = true -> dec2R a < dec2R b) /\
  (forall a b, dle a b = true -> dec2R a <= dec2R b).
Proof. exact (conj dpos_sound (conj dnonneg_sound (conj dnonpos_sound (conj dlt_sound dle_sound)))). Qed.
Print Assumptions C18_sign_checkers_sound.

(* ---- charge transfer ------------------------------------------------------------------------- *)
(* every rate function, every ion, every temperature argument: non-negative whenever defined *)
Theorem C18_ct_rate_nonneg : forall kd i t v, ct_rate Rops kd i t = Some v -> 0 <= v.
Proof. exact ct_rate_nonneg_lemma. Qed.
Print Assumptions C18_ct_rate_nonneg.

(* the 19 reactions of the ionization balance are defined (no abort) and non-negative *)
Theorem C18_ct_balance_nonneg : forall kd i t, In (kd, i) balance_reactions -> exists v, ct_rate Rops kd i t = Some v /\ 0 <= v.
Proof. exact ct_balance_lemma. Qed.
Print Assumptions C18_ct_balance_nonneg.

(* ---- Utilities::locate ---------------------------------------------------------------------- *)
(* for ANY array of length >= 2 and ANY x the loop ends and the result is in [0, length-2] *)
Theorem C18_locate_total : forall gt n, (2 <= n)%nat -> exists j, locate gt n = Some j /\ (S j < n)%nat.
Proof. exact locate_total. Qed.
Print Assumptions C18_locate_total.

(* if x is not above the last element, the index brackets x:  (j = 0 or xarr[j] < x) and x <= xarr[j+1];
   gt j stands for  x > xarr[j] *)
Theorem C18_locate_spec : forall gt n, (2 <= n)%nat -> gt (n - 1)%nat = false ->
  exists j, locate gt n = Some j /\ (S j < n)%nat /\ (j = 0%nat \/ gt j = true) /\ gt (S j) = false.
Proof. exact locate_spec. Qed.
Print Assumptions C18_locate_spec.

(* on a sorted array the bracketing index is unique: it is THE last element smaller than x *)
Theorem C18_locate_unique : forall gt, (forall a b, (a <= b)%nat -> gt b = true -> gt a = true) ->
  forall j j', gt j = true -> gt (S j) = false -> gt j' = true -> gt (S j') = false -> j = j'.
Proof. exact bracket_unique. Qed.
Print Assumptions C18_locate_unique.

(* ---- samplers --------------------------------------------------------------------------------- *)
(* linear inverse CDF (He two-photon continuum): the frequency lies between the bracketing nodes,
   hence inside the table's frequency range *)
Theorem C18_sample_linear_in_range : forall freq cdf x, length freq = length cdf -> (2 <= length cdf)%nat ->
  Rsorted freq -> nth 0 cdf 0 < x <= nth (length cdf - 1) cdf 0 ->
  exists j v, sample_linear Rops freq cdf x = Some v /\ (S j < length cdf)%nat /\
    nth j cdf 0 < x <= nth (S j) cdf 0 /\
    nth j freq 0 <= v <= nth (S j) freq 0 /\
    nth 0 freq 0 <= v <= nth (length freq - 1) freq 0.
Proof. exact sample_linear_range_lemma. Qed.
Print Assumptions C18_sample_linear_in_range.

(* ... and is monotone in the random number *)
Theorem C18_sample_linear_monotone : forall freq cdf x x' v v', length freq = length cdf -> (2 <= length cdf)%nat ->
  Rsorted freq -> Rsorted cdf ->
  nth 0 cdf 0 < x -> x <= x' -> x' <= nth (length cdf - 1) cdf 0 ->
  sample_linear Rops freq cdf x = Some v -> sample_linear Rops freq cdf x' = Some v' -> v <= v'.
Proof. exact sample_linear_monotone_lemma. Qed.
Print Assumptions C18_sample_linear_monotone.

(* masked spectrum: the cumulative table built by the constructor (weights w of the masked bins, all >= 0, not all of the
   first n-1 zero) starts at 0, ends at 1 and is non-decreasing; hence every random number in (0, 1] gives a frequency
   inside the bins *)
Theorem C18_sample_masked_in_range : forall freq w x, length freq = length w -> (2 <= length w)%nat ->
  Rsorted freq -> (forall i, (i < length w)%nat -> 0 <= nth i w 0) ->
  0 < nth (length w - 1) (masked_running Rops 0 w) 0 -> 0 < x <= 1 ->
  nth 0 (masked_cdf Rops w) 0 = 0 /\ nth (length w - 1) (masked_cdf Rops w) 0 = 1 /\ Rsorted (masked_cdf Rops w) /\
  exists v, sample_linear Rops freq (masked_cdf Rops w) x = Some v /\ nth 0 freq 0 <= v <= nth (length freq - 1) freq 0.
Proof. exact sample_masked_range_lemma. Qed.
Print Assumptions C18_sample_masked_in_range.

(* ... which is false of the construction of the pinned commit (entry i of the table included bin i itself, so the table
   started at the weight of the first bin and smaller random numbers were extrapolated below the first bin); repaired in /repo *)
Theorem C18_sample_masked_inclusive_table_refuted : exists freq w x v, length freq = length w /\ (2 <= length w)%nat /\
  Rsorted freq /\ (forall i, (i < length w)%nat -> 0 <= nth i w 0) /\ 0 < x <= 1 /\
  sample_linear Rops freq (masked_cdf_incl Rops w) x = Some v /\ v < nth 0 freq 0.
Proof. exact sample_masked_incl_refuted_lemma. Qed.
Print Assumptions C18_sample_masked_inclusive_table_refuted.

(* Planck: log-log interpolation with the 1e-10 floor of the first bin *)
Theorem C18_sample_planck_in_range : forall cdf logcdf logfreq x, planck_tables cdf logcdf ->
  length logfreq = length cdf -> (2 <= length cdf)%nat -> Rsorted logfreq ->
  1 / 10 ^ 10 <= x -> nth 0 cdf 0 < x <= nth (length cdf - 1) cdf 0 ->
  exists j v, sample_planck Rops cdf logcdf logfreq x = Some v /\ (S j < length cdf)%nat /\
    nth j cdf 0 < x <= nth (S j) cdf 0 /\
    Rpower 10 (nth j logfreq 0) * 3288465385000000 <= v <= Rpower 10 (nth (S j) logfreq 0) * 3288465385000000 /\
    Rpower 10 (nth 0 logfreq 0) * 3288465385000000 <= v <= Rpower 10 (nth (length logfreq - 1) logfreq 0) * 3288465385000000.
Proof. exact sample_planck_range_lemma. Qed.
Print Assumptions C18_sample_planck_in_range.

(* H / He Lyman continua as shipped ([sample_lyman false] = no clamp): inside the frequency table for
   every random number, PROVIDED the cell temperature lies inside the temperature table *)
Theorem C18_sample_lyman_in_range_T_inside_table : forall freq temp cdfs T x, lyman_tables freq temp cdfs ->
  nth 0 temp 0 <= T <= nth (length temp - 1) temp 0 ->
  exists v, sample_lyman Rops false freq temp cdfs T x = Some v /\ nth 0 freq 0 <= v <= nth (length freq - 1) freq 0.
Proof. exact sample_lyman_range_lemma. Qed.
Print Assumptions C18_sample_lyman_in_range_T_inside_table.

(* ... and REFUTED without that proviso (D7): valid tables, 10 K <= T <= 1e9 K, 1e-10 <= x < 1,
   and the sampled frequency is below the lowest tabulated frequency *)
Theorem C18_sample_lyman_in_range_refuted : exists freq temp cdfs T x v, lyman_tables freq temp cdfs /\
  10 <= T <= 1000000000 /\ 1 / 10 ^ 10 <= x < 1 /\
  sample_lyman Rops false freq temp cdfs T x = Some v /\ v < nth 0 freq 0.
Proof. exact sample_lyman_refuted_lemma. Qed.
Print Assumptions C18_sample_lyman_in_range_refuted.

(* the variant with the temperature clamped to the table first ([sample_lyman true], the shape of
   the proposed fix; the regenerated flag gen_lyman_clamps says which variant the source is):
   in range for EVERY temperature and random number *)
Theorem C18_sample_lyman_in_range_when_clamped : forall freq temp cdfs T x, lyman_tables freq temp cdfs ->
  exists v, sample_lyman Rops true freq temp cdfs T x = Some v /\ nth 0 freq 0 <= v <= nth (length freq - 1) freq 0.
Proof. exact sample_lyman_clamped_range_lemma. Qed.
Print Assumptions C18_sample_lyman_in_range_when_clamped.

(* the order checks that are extracted and run on the real spectrum tables are sound *)
Theorem C18_order_checkers_sound :
  (forall l, weakly_increasing Rops l = true -> Rsorted l) /\ (forall l, strictly_increasing Rops l = true -> Rstrict l).
Proof. exact (conj weakly_increasing_sound strictly_increasing_sound). Qed.
Print Assumptions C18_order_checkers_sound.
