From CMI Require Import Cxx.C18_Defs Cxx.C18_Proofs.
Theorem C18_tmp : True. Proof. exact I. Qed.
Print Assumptions C18_tmp.
