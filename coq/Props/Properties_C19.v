(* C19  The simulation time line never overshoots and ends exactly on time.
   Only statements, each closed by [exact] of a lemma of Cxx/C19_Proofs.v. *)
From Coq Require Import ZArith List Bool Sorted.
From CMI Require Import Cxx.C19_Defs Cxx.C19_Proofs.
Import ListNotations.
Local Open Scope Z_scope.

(* One call of advance on a time line that has not reached its end, for ANY request
   (the request enters through gt ts := "A * ts > request" in binary64; good_req says
   gt 0 = false, i.e. the request is not negative, and that gt is monotone): it always
   returns (no division by zero, loops end); a step is a power of two between the
   configured minimum and maximum, not larger than requested, divides the time
   remaining and the whole line, is the largest such step, keeps time <= end;
   has_next is exactly "end not reached"; a stop happens only when the request is
   below the configured minimum, and then the state is unchanged. *)
Theorem C19_advance_step : forall gt s, good_req gt -> Inv s -> cur s < TOP ->
  exists o s', advance gt s = Some (o, s') /\ step_ok gt s o s'.
Proof. exact advance_thm. Qed.
Print Assumptions C19_advance_step.

(* Every history of requests: each element satisfies the step contract w.r.t. the
   state before it (chain), time increases strictly, never exceeds the end, the steps
   taken sum to the time covered, and if the run ends with has_next = false it is
   exactly at the end and the steps sum to the whole remaining interval. *)
Theorem C19_history : forall reqs s0, Forall good_req reqs -> Inv s0 -> cur s0 < TOP ->
  let tr := run reqs s0 in
  chain s0 reqs tr
  /\ Inv (final s0 tr)
  /\ cur (final s0 tr) = cur s0 + zsum (steps tr)
  /\ cur (final s0 tr) <= TOP
  /\ Forall (fun ts => 0 < ts) (steps tr)
  /\ StronglySorted Z.lt (cur s0 :: times tr)
  /\ Forall (fun t => cur s0 < t <= TOP) (times tr)
  /\ (forall ts s', last tr (StopAbs, s0) = (Step ts false, s') ->
        cur s' = TOP /\ zsum (steps tr) = TOP - cur s0 /\ final s0 tr = s').
Proof. exact history_thm. Qed.
Print Assumptions C19_history.

(* The constructor establishes the invariant for all settings (including none). *)
Theorem C19_constructor : forall minpos maxpos gtmin gtmax,
  (minpos = true -> gtmin 0 = false) -> (maxpos = true -> gtmax 0 = false) ->
  exists s, construct minpos maxpos gtmin gtmax = Some s /\ Inv s /\ cur s = 0
    /\ (minpos = true -> gtmin (tmin s) = false \/ tmin s = 1)
    /\ (maxpos = true -> gtmax (tmax s) = false \/ tmax s = tmin s).
Proof. exact construct_thm. Qed.
Print Assumptions C19_constructor.

(* Saved and restored time line is the same time line (same words, same order). *)
Theorem C19_restart_identity : forall s a b, read_tl (write_tl s a b) = Some (s, a, b).
Proof. exact restart_roundtrip. Qed.
Print Assumptions C19_restart_identity.

(* The monotonicity premise is decided by an executable check that the correspondence
   run evaluates on every request it feeds to the real class. *)
Theorem C19_mono_check_sound : forall gt, mono_check gt = true -> mono gt.
Proof. exact mono_check_sound. Qed.
Print Assumptions C19_mono_check_sound.
