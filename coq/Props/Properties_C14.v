(* C14  Restart dumps are rotated safely and the last good dump is never destroyed.
   Only statements, each closed by [exact] of a lemma of Cxx/C14_Proofs.v. *)
From Coq Require Import NArith List Bool.
From CMI Require Import Cxx.C14_Defs Cxx.C14_Proofs.
Import ListNotations.
Local Open Scope N_scope.

(* For every backup count M >= 0, every number of dumps n and every payload size:
   no dump fails; afterwards the directory is EXACTLY: restart.dump = state n (complete),
   restart.i.back = state n-1-i (complete) for i < min(M, n-1), nothing else; and the manager's
   counters are min(M, n-1) and n. *)
Theorem C14_dumps_state : forall M c n,
  exists f m, run_dumps start_fixed M c n = Some (f, m)
    /\ (forall nm, f nm = fs_after M c (N.of_nat n) nm)
    /\ nbackups m = N.min M (N.of_nat n - 1) /\ nrestarts m = N.of_nat n.
Proof. exact dumps_state. Qed.
Print Assumptions C14_dumps_state.

(* With at least one backup configured and at least one dump taken: the process may die
   after ANY prefix of the file-system operations of the next dump (each rename, the truncating
   open, each write, the close) and a complete copy of the previous state n is on disk, as
   restart.dump or as restart.0.back. *)
Theorem C14_crash_keeps_previous : forall M c n k f m,
  1 <= M -> 1 <= n -> agrees f M c n -> mgr_after M n m ->
  exists f', exec_all f (firstn k (fst (dump_ops start_fixed M m (n + 1) c))) = Some f'
    /\ (f' Main = Some (mkFile n (N.of_nat c) true) \/ f' (Back 0) = Some (mkFile n (N.of_nat c) true)).
Proof. exact crash_keeps_previous. Qed.
Print Assumptions C14_crash_keeps_previous.

(* The hypotheses of the crash theorem are what C14_dumps_state establishes (non-vacuity). *)
Theorem C14_dump_step : forall M c n f m, agrees f M c n -> mgr_after M n m ->
  exists f', exec_all f (fst (dump_ops start_fixed M m (n + 1) c)) = Some f'
    /\ agrees f' M c (n + 1) /\ mgr_after M (n + 1) (snd (dump_ops start_fixed M m (n + 1) c)).
Proof. exact dump_step. Qed.
Print Assumptions C14_dump_step.

(* The loop bound of the pinned commit, min(M-1, nb-1) in unsigned arithmetic, makes the very
   first dump fail for two backups (rename of a file that does not exist => abort): defect D5. *)
Theorem C14_wrapping_start_refuted : run_dumps start_wrapping 2 1 1 = None.
Proof. exact wrapping_start_fails. Qed.
Print Assumptions C14_wrapping_start_refuted.
