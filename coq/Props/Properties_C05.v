(* C05  Riemann fluxes respect the symmetries of the Euler equations, vacuum included.
   Statements only; proofs in Cxx/C05_Proofs.v.  R := the real-number instance of the model
   (ROps eps gfloor: eps stands for DBL_MIN, gfloor for the 1.00000001 floor on gamma). *)
From Coq Require Import Reals ZArith Bool Floats.
From CMI Require Import Common.Scalar Cxx.C05_Defs Cxx.C05_Proofs.
Local Open Scope R_scope.

(* Galilean boost, HLLC, every eps, both variants of the repaired sites, all states incl. vacuum:
   adding w to both velocities and to the face velocity maps (m, p, E) to (m, p + m w, E + w.p + |w|^2 m/2) *)
Theorem C05_hllc_boost : forall eps gfloor c d1 d8 rhoL uL PL rhoR uR PR n vface w,
  hllc_flux R (ROps eps gfloor) c d1 d8 rhoL (vadd R (ROps eps gfloor) uL w) PL rhoR (vadd R (ROps eps gfloor) uR w) PR n (vadd R (ROps eps gfloor) vface w) =
  boostT w (hllc_flux R (ROps eps gfloor) c d1 d8 rhoL uL PL rhoR uR PR n vface).
Proof. exact hllc_boost. Qed.
Print Assumptions C05_hllc_boost.

(* Galilean boost, exact solver (flux assembly + vacuum logic; the star state of the 1-D solve depends
   only on velocities relative to the face and enters as [star]) *)
Theorem C05_exact_boost : forall eps gfloor c d1 star rhoL uL PL rhoR uR PR n vface w,
  exact_flux R (ROps eps gfloor) c d1 star rhoL (vadd R (ROps eps gfloor) uL w) PL rhoR (vadd R (ROps eps gfloor) uR w) PR n (vadd R (ROps eps gfloor) vface w) =
  boostT w (exact_flux R (ROps eps gfloor) c d1 star rhoL uL PL rhoR uR PR n vface).
Proof. exact exact_boost. Qed.
Print Assumptions C05_exact_boost.

(* HLLC star region: exchanging the states and reversing the normal negates S* and, away from the tie
   S* = 0, all five components of the interface-frame flux *)
Theorem C05_hllc_antisymmetric : forall gfloor c d8 rhoL uLf PL vL aL rhoLinv PLinv rhoR uRf PR vR aR rhoRinv PRinv n,
  let r  := hllc_star R (ROps 0 gfloor) c d8 rhoL uLf PL vL aL rhoLinv PLinv rhoR uRf PR vR aR rhoRinv PRinv n in
  let r' := hllc_star R (ROps 0 gfloor) c d8 rhoR uRf PR (- vR) aR rhoRinv PRinv rhoL uLf PL (- vL) aL rhoLinv PLinv (vneg n) in
  snd r' = - snd r /\ (snd r <> 0 -> fst r' = fneg (fst r)).
Proof. exact hllc_star_antisym. Qed.
Print Assumptions C05_hllc_antisymmetric.

(* ... and at the tie S* = 0 the two one-sided formulae agree when the outer wave speeds are ordered
   (S_L < 0 < S_R): the flux does not jump when the contact changes direction (repaired star state) *)
Theorem C05_hllc_contact_continuous : forall gfloor c rhoL uLf PL vL SLmvL rhoR uRf PR vR SRmvR n,
  0 < rhoL -> 0 < rhoR -> SLmvL + vL < 0 -> 0 < SRmvR + vR -> SLmvL <> 0 -> SRmvR <> 0 ->
  rhoL * SLmvL - rhoR * SRmvR <> 0 ->
  hllc_sstar R (ROps 0 gfloor) rhoL PL vL SLmvL rhoR PR vR SRmvR = 0 ->
  hllc_side R (ROps 0 gfloor) c false true rhoL uLf PL vL (/ rhoL) SLmvL 0 n =
  hllc_side R (ROps 0 gfloor) c false false rhoR uRf PR vR (/ rhoR) SRmvR 0 n.
Proof. exact hllc_contact_continuous. Qed.
Print Assumptions C05_hllc_contact_continuous.

(* two identical states give the analytic flux of that state *)
Theorem C05_hllc_identical_states : forall gfloor c d8 rho uf P v a n,
  0 < rho -> 0 < P -> 0 < a ->
  fst (hllc_star R (ROps 0 gfloor) c d8 rho uf P v a (/ rho) (/ P) rho uf P v a (/ rho) (/ P) n) =
  (rho * v,
   vadd R (ROps 0 gfloor) (vscale R (ROps 0 gfloor) (rho * v) uf) (vscale R (ROps 0 gfloor) P n),
   rho * v * (P * odgm1 R c * / rho + / 2 * vnorm2 R (ROps 0 gfloor) uf) + P * v).
Proof. exact hllc_identical. Qed.
Print Assumptions C05_hllc_identical_states.

(* mirror-image states approaching at less than 1.5 sound speeds (or receding) exchange no mass and no energy *)
Theorem C05_hllc_mirror_no_mass_energy_flux : forall gfloor c rho uLf uRf P v a n gamma,
  0 < rho -> 0 < P -> 0 < a -> a * a = gamma * P / rho -> 1 < gamma ->
  gp1d2g R c = (gamma + 1) / (2 * gamma) ->
  v < 3 / 2 * a ->
  let F := fst (hllc_star R (ROps 0 gfloor) c false rho uLf P v a (/ rho) (/ P) rho uRf P (- v) a (/ rho) (/ P) n) in
  fst (fst F) = 0 /\ snd F = 0.
Proof. exact hllc_mirror. Qed.
Print Assumptions C05_hllc_mirror_no_mass_energy_flux.

(* the constants the constructor computes are the ones the theorems assume *)
Theorem C05_consts : forall gfloor gamma, gfloor <= gamma -> gamma <> 0 ->
  let k := mk_consts R (ROps 0 gfloor) gamma in
  gam R k = gamma /\ gp1d2g R k = (gamma + 1) / (2 * gamma) /\ tdgm1 R k = 2 / (gamma - 1)
  /\ gm1d2 R k = (gamma - 1) / 2 /\ odgm1 R k = 1 / (gamma - 1).
Proof. exact mk_consts_spec. Qed.
Print Assumptions C05_consts.

(* vacuum on one side: the left-vacuum sampler is the mirror image of the right-vacuum sampler at every
   sampling speed (repaired coefficient) -- shared by both solvers (HLLC samples at speed 0) *)
Theorem C05_vacuum_mirror : forall gfloor c rho u P a dxdt,
  sample_left_vacuum R (ROps 0 gfloor) c false rho (- u) P a (- dxdt) =
  mirror_sample (sample_right_vacuum R (ROps 0 gfloor) c rho u P a dxdt).
Proof. exact vacuum_mirror. Qed.
Print Assumptions C05_vacuum_mirror.

Theorem C05_vacuum_generation_mirror : forall gfloor c rhoL uL PL aL rhoR uR PR aR dxdt,
  (dxdt < uR - tdgm1 R c * aR \/ uL + tdgm1 R c * aL < dxdt) ->
  sample_vacuum_generation R (ROps 0 gfloor) c false rhoR (- uR) PR aR rhoL (- uL) PL aL (- dxdt) =
  mirror_sample (sample_vacuum_generation R (ROps 0 gfloor) c false rhoL uL PL aL rhoR uR PR aR dxdt).
Proof. exact vacuum_generation_mirror. Qed.
Print Assumptions C05_vacuum_generation_mirror.

(* a mirrored sampled state gives the negated flux (all five components, de-boost included) *)
Theorem C05_sample_flux_antisymmetric : forall gfloor c smp uLf uRf vL vR n vface,
  flag_ok smp ->
  flux_from_sample R (ROps 0 gfloor) c (mirror_sample smp) uRf uLf (- vR) (- vL) (vneg n) vface =
  fneg (flux_from_sample R (ROps 0 gfloor) c smp uLf uRf vL vR n vface).
Proof. exact flux_from_sample_mirror. Qed.
Print Assumptions C05_sample_flux_antisymmetric.

(* defect D1 (pinned commit): with 2/(gamma-1) as coefficient the mirror symmetry fails *)
Theorem C05_fan_coefficient_pinned_refuted :
  sample_left_vacuum R (ROps 0 1) consts_gamma2 true 1 (1 / 2) 1 1 0 <>
  mirror_sample (sample_right_vacuum R (ROps 0 1) consts_gamma2 1 (- (1 / 2)) 1 1 0).
Proof. exact fan_coeff_pinned_refuted. Qed.
Print Assumptions C05_fan_coefficient_pinned_refuted.

(* defect D8 (pinned commit), on the binary64 instance: mirror states at Mach 3/8 exchange energy 9/160
   with the pinned star-state correction, and none (|E| < 1e-15, m = 0) with the repaired one *)
Theorem C05_star_correction_pinned_refuted :
  PrimFloat.ltb 0.05%float (snd (f_mirror_flux true)) = true
  /\ PrimFloat.ltb (PrimFloat.abs (snd (f_mirror_flux false))) 1e-15%float = true
  /\ PrimFloat.eqb (fst (fst (f_mirror_flux false))) 0%float = true.
Proof. exact star_correction_pinned_refuted. Qed.
Print Assumptions C05_star_correction_pinned_refuted.

(* KNOWN FINDING (recorded, not repaired): for mirror states colliding at Mach 3 the mass flux is +3 seen from
   either side (antisymmetry would require -3 for the exchanged problem): at S* = 0 with S_L >= 0 the solver
   upwinds the left state in both orientations.  C05_hllc_antisymmetric therefore excludes the tie and
   C05_hllc_contact_continuous covers it only for ordered wave speeds. *)
Theorem C05_hllc_supersonic_tie_refuted :
  PrimFloat.eqb (fst (fst (f_collide false))) 3%float = true /\ PrimFloat.eqb (fst (fst (f_collide true))) 3%float = true.
Proof. exact hllc_supersonic_tie_refuted. Qed.
Print Assumptions C05_hllc_supersonic_tie_refuted.
