(* C11  The exact Riemann solver returns the solution of the Riemann problem.
   Statements only; proofs in Cxx/C11_Proofs.v.  All statements are about the real-number instance RS = ROps 0 1 of the
   model in Cxx/C11_Defs.v (Rpower = std::pow), for every adiabatic index g > 1 (the property asks for (1,2]) and all
   positive densities and pressures.  rconsts g = the constants the constructor computes (C11_constants). *)
From Coq Require Import Reals ZArith Bool.
From CMI Require Import Common.Scalar Cxx.C05_Defs Cxx.C11_Defs Cxx.C11_Proofs Cxx.C11_Examples.
From CMI Require Cxx.C11_Deriv.
Local Open Scope R_scope.

Theorem C11_constants : forall g, 1 < g -> mk_xconsts R RS g = rconsts g.
Proof. exact mk_xconsts_real. Qed.
Print Assumptions C11_constants.

Theorem C11_soundspeed : forall g rho P, 1 < g -> 0 < rho -> 0 < P ->
  let a := soundspeed R RS (rconsts g) (1 / rho) P in 0 < a /\ a * a = g * P / rho.
Proof. exact soundspeed_real. Qed.
Print Assumptions C11_soundspeed.

(* ---- (a) shocks: with ustar = u_K +/- f_K(Pstar), the state the sampler returns behind the shock satisfies all three
   Rankine-Hugoniot conditions (mass, momentum, energy) across the shock moving with the speed the code computes;
   ahead of it the sampler returns the undisturbed state; the shock is supersonic w.r.t. the gas ahead and compressive *)
Theorem C11_sample_on_shock_right : forall g rho u P Ps, 1 < g -> 0 < rho -> 0 < P -> forall xi, P < Ps ->
  let c := rconsts g in
  let a := soundspeed R RS c (1 / rho) P in
  let fK := fb R RS c P (tdgp1 R (cb R c) * (1 / rho)) (gm1dgp1 R (cb R c) * P) (1 / P) (tdgm1 R (cb R c) * a) Ps in
  let S := right_shock_speed R RS c u a (1 / P) Ps in
  let '(r, v, p) := sample_right_shock_wave R RS c rho u P a (1 / P) (u + fK) Ps xi in
  (xi < S -> p = Ps /\ v = u + fK /\ RH_mass rho u r v S /\ RH_momentum rho u P r v p S /\ RH_energy g rho u P r v p S) /\
  (S <= xi -> (r, v, p) = (rho, u, P)) /\ u + a < S /\ rho < right_shock_density R RS c rho (1 / P) Ps.
Proof. exact sample_on_right_shock. Qed.
Print Assumptions C11_sample_on_shock_right.

Theorem C11_sample_on_shock_left : forall g rho u P Ps, 1 < g -> 0 < rho -> 0 < P -> forall xi, P < Ps ->
  let c := rconsts g in
  let a := soundspeed R RS c (1 / rho) P in
  let fK := fb R RS c P (tdgp1 R (cb R c) * (1 / rho)) (gm1dgp1 R (cb R c) * P) (1 / P) (tdgm1 R (cb R c) * a) Ps in
  let S := left_shock_speed R RS c u a (1 / P) Ps in
  let '(r, v, p) := sample_left_shock_wave R RS c rho u P a (1 / P) (u - fK) Ps xi in
  (S < xi -> p = Ps /\ v = u - fK /\ RH_mass rho u r v S /\ RH_momentum rho u P r v p S /\ RH_energy g rho u P r v p S) /\
  (xi <= S -> (r, v, p) = (rho, u, P)) /\ S < u - a /\ rho < left_shock_density R RS c rho (1 / P) Ps.
Proof. exact sample_on_left_shock. Qed.
Print Assumptions C11_sample_on_shock_left.

(* ---- (b) rarefactions: at EVERY sampling speed the state returned has the entropy of the outer state (P/rho^g) and
   carries its Riemann invariant u -/+ 2a/(g-1), with al > 0 the local sound speed (al^2 = g p / r); inside the fan
   x/t = v +/- al; the tail does not overtake the head *)
Theorem C11_sample_on_rarefaction_right : forall clamp g rho u P Ps, 1 < g -> 0 < rho -> 0 < P -> forall xi, 0 < Ps -> Ps <= P ->
  let c := rconsts g in
  let a := soundspeed R RS c (1 / rho) P in
  let fK := fb R RS c P (tdgp1 R (cb R c) * (1 / rho)) (gm1dgp1 R (cb R c) * P) (1 / P) (tdgm1 R (cb R c) * a) Ps in
  let us := u + fK in
  let tail := right_tail_speed R RS c a (1 / P) us Ps in
  let '(r, v, p) := sample_right_rarefaction_wave R RS c clamp rho u P a (1 / P) us Ps xi in
  tail <= u + a /\ 0 < r /\ p / Rpower r g = P / Rpower rho g /\
  exists al, 0 < al /\ al * al = g * p / r /\ v - 2 / (g - 1) * al = u - 2 / (g - 1) * a /\
             (tail <= xi < u + a -> v + al = xi) /\ (xi < tail -> v = us /\ p = Ps) /\ (u + a <= xi -> (r, v, p) = (rho, u, P)).
Proof. exact sample_on_right_rarefaction. Qed.
Print Assumptions C11_sample_on_rarefaction_right.

Theorem C11_sample_on_rarefaction_left : forall clamp g rho u P Ps, 1 < g -> 0 < rho -> 0 < P -> forall xi, 0 < Ps -> Ps <= P ->
  let c := rconsts g in
  let a := soundspeed R RS c (1 / rho) P in
  let fK := fb R RS c P (tdgp1 R (cb R c) * (1 / rho)) (gm1dgp1 R (cb R c) * P) (1 / P) (tdgm1 R (cb R c) * a) Ps in
  let us := u - fK in
  let tail := left_tail_speed R RS c a (1 / P) us Ps in
  let '(r, v, p) := sample_left_rarefaction_wave R RS c clamp rho u P a (1 / P) us Ps xi in
  u - a <= tail /\ 0 < r /\ p / Rpower r g = P / Rpower rho g /\
  exists al, 0 < al /\ al * al = g * p / r /\ v + 2 / (g - 1) * al = u + 2 / (g - 1) * a /\
             (u - a < xi < tail -> v - al = xi) /\ (u - a < xi -> tail <= xi -> v = us /\ p = Ps) /\ (xi <= u - a -> (r, v, p) = (rho, u, P)).
Proof. exact sample_on_left_rarefaction. Qed.
Print Assumptions C11_sample_on_rarefaction_left.

(* continuity in the sampling speed: the expressions used on the two sides of the fan head and of the fan tail agree
   there (the only jumps of the sampled solution are the shocks and the contact) *)
Theorem C11_rarefaction_continuous_right : forall clamp g rho u P Ps, 1 < g -> 0 < rho -> 0 < P -> 0 < Ps -> Ps <= P ->
  let c := rconsts g in
  let a := soundspeed R RS c (1 / rho) P in
  let fK := fb R RS c P (tdgp1 R (cb R c) * (1 / rho)) (gm1dgp1 R (cb R c) * P) (1 / P) (tdgm1 R (cb R c) * a) Ps in
  let us := u + fK in
  let tail := right_tail_speed R RS c a (1 / P) us Ps in
  right_fan R RS c clamp rho u P a (u + a) = (rho, u, P) /\
  right_fan R RS c clamp rho u P a tail = (rho * Rpower (Ps * (1 / P)) (ginv R c), us, Ps).
Proof. exact right_rarefaction_continuous. Qed.
Print Assumptions C11_rarefaction_continuous_right.

Theorem C11_rarefaction_continuous_left : forall clamp g rho u P Ps, 1 < g -> 0 < rho -> 0 < P -> 0 < Ps -> Ps <= P ->
  let c := rconsts g in
  let a := soundspeed R RS c (1 / rho) P in
  let fK := fb R RS c P (tdgp1 R (cb R c) * (1 / rho)) (gm1dgp1 R (cb R c) * P) (1 / P) (tdgm1 R (cb R c) * a) Ps in
  let us := u - fK in
  let tail := left_tail_speed R RS c a (1 / P) us Ps in
  left_fan R RS c clamp rho u P a (u - a) = (rho, u, P) /\
  left_fan R RS c clamp rho u P a tail = (rho * Rpower (Ps * (1 / P)) (ginv R c), us, Ps).
Proof. exact left_rarefaction_continuous. Qed.
Print Assumptions C11_rarefaction_continuous_left.

(* ---- clamp: true = the code with "std::max(0., base)" in the six fan expressions (fix of the NaN at the vacuum front),
   false = the code without; the theorems hold for both.  For clamp = true (the repaired code) the vacuum part of this model
   is literally the model of C05_Defs.v (repaired fan coefficient, guarded bases), for every scalar instance (reals and binary64) *)
Theorem C11_vacuum_model_is_c05 : forall (F : Type) (S : SOps F) (c : xconsts F) rhoL uL PL rhoR uR PR dxdt,
  solve_novac F S c true rhoL uL PL rhoR uR PR dxdt = exact_solve_novac F S (cb F c) false rhoL uL PL rhoR uR PR dxdt.
Proof. exact solve_novac_is_c05. Qed.
Print Assumptions C11_vacuum_model_is_c05.

(* ---- (c) vacuum: the samplers next to vacuum ARE the fan expressions of the
   non-vacuum solver between head and front; at the head they give the undisturbed state; at the front the base of the
   density and pressure powers is 0 (so rho = P = 0 with pow(0, y>0) = 0; Coq's Rpower 0 y is 1, hence the statement
   about the base), positive before it, and the gas velocity equals the front speed *)
Theorem C11_vacuum_joins_fan : forall clamp g rho u P, 1 < g -> 0 < rho -> 0 < P ->
  let c := rconsts g in
  let a := soundspeed R RS c (1 / rho) P in
  (forall xi, sample_right_vacuum R RS c clamp rho u P a xi =
     if Rlt_dec (u - a) xi then
       if Rlt_dec xi (u + 2 / (g - 1) * a) then with_flag R (-1) (left_fan R RS c clamp rho u P a xi) else (0%Z, 0, 0, 0)
     else ((-1)%Z, rho, u, P)) /\
  (forall xi, sample_left_vacuum R RS c clamp rho u P a xi =
     if Rlt_dec xi (u + a) then
       if Rlt_dec (u - 2 / (g - 1) * a) xi then with_flag R 1 (right_fan R RS c clamp rho u P a xi) else (0%Z, 0, 0, 0)
     else (1%Z, rho, u, P)) /\
  left_fan R RS c clamp rho u P a (u - a) = (rho, u, P) /\ right_fan R RS c clamp rho u P a (u + a) = (rho, u, P) /\
  (forall xi, 0 < lfan_base g u a xi -> left_fan R RS c clamp rho u P a xi =
     (rho * Rpower (lfan_base g u a xi) (2 / (g - 1)), 2 / (g + 1) * (a + 1 / 2 * (g - 1) * u + xi), P * Rpower (lfan_base g u a xi) (2 * g / (g - 1)))) /\
  (forall xi, 0 < rfan_base g u a xi -> right_fan R RS c clamp rho u P a xi =
     (rho * Rpower (rfan_base g u a xi) (2 / (g - 1)), 2 / (g + 1) * (- a + 1 / 2 * (g - 1) * u + xi), P * Rpower (rfan_base g u a xi) (2 * g / (g - 1)))) /\
  lfan_base g u a (u + 2 / (g - 1) * a) = 0 /\ rfan_base g u a (u - 2 / (g - 1) * a) = 0 /\
  (forall xi, xi < u + 2 / (g - 1) * a -> 0 < lfan_base g u a xi) /\ (forall xi, u - 2 / (g - 1) * a < xi -> 0 < rfan_base g u a xi) /\
  snd (fst (left_fan R RS c clamp rho u P a (u + 2 / (g - 1) * a))) = u + 2 / (g - 1) * a /\
  snd (fst (right_fan R RS c clamp rho u P a (u - 2 / (g - 1) * a))) = u - 2 / (g - 1) * a.
Proof. exact vacuum_joins_fan. Qed.
Print Assumptions C11_vacuum_joins_fan.

(* vacuum generated between two receding states: left state | left fan | vacuum | right fan | right state *)
Theorem C11_vacuum_generation_cases : forall clamp g rhoL uL PL aL rhoR uR PR aR, 1 < g -> 0 < aL -> 0 < aR ->
  2 / (g - 1) * aL + 2 / (g - 1) * aR <= uR - uL -> forall xi,
  let c := rconsts g in
  sample_vacuum_generation R RS c clamp rhoL uL PL aL rhoR uR PR aR xi =
  if Rlt_dec xi (uL - aL) then ((-1)%Z, rhoL, uL, PL)
  else if Rle_dec xi (uL + 2 / (g - 1) * aL) then
         (if Rlt_dec (uL - aL) xi then with_flag R (-1) (left_fan R RS c clamp rhoL uL PL aL xi) else ((-1)%Z, rhoL, uL, PL))
  else if Rlt_dec xi (uR - 2 / (g - 1) * aR) then (0%Z, 0, 0, 0)
  else if Rlt_dec xi (uR + aR) then with_flag R 1 (right_fan R RS c clamp rhoR uR PR aR xi)
  else (1%Z, rhoR, uR, PR).
Proof. intros. apply vacuum_generation_cases; assumption. Qed.
Print Assumptions C11_vacuum_generation_cases.

(* the tail of a rarefaction tends to the vacuum front as Pstar -> 0 (the non-vacuum solution joins the vacuum one) *)
Theorem C11_tail_tends_to_vacuum_front : forall g rho u P a Ps, 1 < g -> 0 < P -> Ps <= P ->
  let c := rconsts g in
  let fK := fb R RS c P (tdgp1 R (cb R c) * (1 / rho)) (gm1dgp1 R (cb R c) * P) (1 / P) (tdgm1 R (cb R c) * a) Ps in
  left_tail_speed R RS c a (1 / P) (u - fK) Ps = (u + 2 / (g - 1) * a) - (g + 1) / (g - 1) * a * Rpower (Ps * (1 / P)) (1 / 2 * (g - 1) / g) /\
  right_tail_speed R RS c a (1 / P) (u + fK) Ps = (u - 2 / (g - 1) * a) + (g + 1) / (g - 1) * a * Rpower (Ps * (1 / P)) (1 / 2 * (g - 1) / g).
Proof.
  intros g rho u P a Ps Hg HP HPs. cbv zeta. split.
  - exact (left_tail_vs_front g rho u P a Ps Hg HP HPs).
  - exact (right_tail_vs_front g rho u P a Ps Hg HP HPs).
Qed.
Print Assumptions C11_tail_tends_to_vacuum_front.

(* ---- (d) the pressure function: f' as coded is positive, f is strictly increasing on P > 0, its root is unique,
   and the sign of f tells on which side of the root a pressure lies *)
Theorem C11_pressure_function_monotone : forall g PL AL BL aLfac PR AR BR aRfac udiff, 1 < g ->
  0 < PL -> 0 < AL -> 0 < BL -> 0 < aLfac -> 0 < PR -> 0 < AR -> 0 < BR -> 0 < aRfac ->
  let c := rconsts g in
  let f := ff R RS c PL AL BL (1 / PL) aLfac PR AR BR (1 / PR) aRfac udiff in
  (forall rhoLaLinv rhoRaRinv Ps, 0 < rhoLaLinv -> 0 < rhoRaRinv -> 0 < Ps ->
     0 < fprime R RS c PL AL BL (1 / PL) rhoLaLinv PR AR BR (1 / PR) rhoRaRinv Ps) /\
  (forall p1 p2, 0 < p1 -> p1 < p2 -> f p1 < f p2) /\
  (forall p1 p2, 0 < p1 -> 0 < p2 -> f p1 = 0 -> f p2 = 0 -> p1 = p2) /\
  (forall p0 p, 0 < p0 -> 0 < p -> f p0 = 0 -> (f p < 0 <-> p < p0) /\ (0 < f p <-> p0 < p)).
Proof.
  intros g PL AL BL aLfac PR AR BR aRfac udiff Hg H1 H2 H3 H4 H5 H6 H7 H8. cbv zeta.
  split; [| split; [| split]].
  - intros. apply fprime_pos; assumption.
  - apply ff_increasing; assumption.
  - apply ff_root_unique; assumption.
  - apply ff_sign_side; assumption.
Qed.
Print Assumptions C11_pressure_function_monotone.

(* fprimeb as coded IS the derivative of fb (so the Newton step is a Newton step), at every P > 0 except the kink Pstar = P_K,
   with A, B, afac, rhoainv as solve() forms them *)
Theorem C11_fprime_is_derivative : forall g rho P a p, 1 < g -> 0 < rho -> 0 < P -> 0 < a -> a * a = g * P / rho -> 0 < p -> p <> P ->
  let c := rconsts g in
  let A := tdgp1 R (cb R c) * (1 / rho) in
  let B := gm1dgp1 R (cb R c) * P in
  let afac := tdgm1 R (cb R c) * a in
  let rhoainv := 1 / (rho * a) in
  derivable_pt_lim (fun q => fb R RS c P A B (1 / P) afac q) p (fprimeb R RS c P A B (1 / P) rhoainv p).
Proof. intros. apply C11_Deriv.fb_derivable_pt_lim; assumption. Qed.
Print Assumptions C11_fprime_is_derivative.

(* ---- (e) Brent's loop for an ARBITRARY function f (and whatever std::pow computes: RSpw pw is ROps 0 1 with pow := pw):
   every iterate stays in the initial bracket, the final pair (a,b) still has f(a) f(b) <= 0 and |f(b)| <= |f(a)|, and
   unless the bound of 10^4 iterations was hit the loop stops with f(b) = 0 or |a - b| <= 5e-9 (a + b) *)
Theorem C11_brent_brackets : forall pw (f : R -> R) fuel Plow Phigh bs n hit,
  solve_brent R (RSpw pw) f fuel Plow Phigh (f Plow) (f Phigh) = Some (bs, n, hit) ->
  (Rmin Plow Phigh <= ba R bs <= Rmax Plow Phigh /\ Rmin Plow Phigh <= bb R bs <= Rmax Plow Phigh /\
   bfa R bs = f (ba R bs) /\ bfb R bs = f (bb R bs) /\ bfa R bs * bfb R bs <= 0 /\ Rabs (bfb R bs) <= Rabs (bfa R bs)) /\
  (hit = false -> bfb R bs = 0 \/ Rabs (ba R bs - bb R bs) <= tol R (RSpw pw) * (ba R bs + bb R bs)).
Proof. exact solve_brent_spec. Qed.
Print Assumptions C11_brent_brackets.

(* ... hence for continuous f and a bracket of non-negative pressures a root lies within 5e-9 (a + b) of the returned value *)
Theorem C11_brent_root_close : forall pw (f : R -> R) fuel Plow Phigh bs n,
  continuity f -> 0 <= Plow -> 0 <= Phigh ->
  solve_brent R (RSpw pw) f fuel Plow Phigh (f Plow) (f Phigh) = Some (bs, n, false) ->
  exists z, f z = 0 /\ Rmin Plow Phigh <= z <= Rmax Plow Phigh /\ Rmin Plow Phigh <= bb R bs <= Rmax Plow Phigh /\
            Rabs (z - bb R bs) <= tol R (RSpw pw) * (ba R bs + bb R bs).
Proof. exact solve_brent_root_close. Qed.
Print Assumptions C11_brent_root_close.

(* the Newton loop, when it stops, stops with consistent function values and either the step test or f >= 0 *)
Theorem C11_newton_exit : forall pw (f fp : R -> R) fuel Pstar fPstar Pguess fPguess n Ps' fPs' Pg' fPg' n',
  fPstar = f Pstar -> fPguess = f Pguess ->
  newton_loop R (RSpw pw) f fp fuel Pstar fPstar Pguess fPguess n = Some (Ps', fPs', Pg', fPg', n') ->
  fPs' = f Ps' /\ fPg' = f Pg' /\ (Rabs (Ps' - Pg') <= tol R (RSpw pw) * (Ps' + Pg') \/ 0 <= f Pg').
Proof. exact newton_loop_spec. Qed.
Print Assumptions C11_newton_exit.

(* ---- the star state of solve(), for ANY pow function (pw := Rpower is RS; pw := cpow is Rpower with the C value
   pow(0, y > 0) = 0, which matters at the lower end P = 0 of the first Brent bracket): ustar is the mean of the two
   one-sided values, each off by half the residual of the pressure equation; when Brent's method produced Pstar (and the
   iteration bound was not hit) Pstar is bracketed to the stated accuracy.  PARTIAL: when the Newton loop stops on its step
   test (code 2) the model gives no bound on the residual (that needs concavity of f: Newton iterates approach the root
   from the left). *)
Theorem C11_ustar_residual : forall pw g rhoL uL PL rhoR uR PR p,
  let S := RSpw pw in
  let c := rconsts g in
  let aL := soundspeed R S c (1 / rhoL) PL in
  let aR := soundspeed R S c (1 / rhoR) PR in
  let fL := fb R S c PL (tdgp1 R (cb R c) * (1 / rhoL)) (gm1dgp1 R (cb R c) * PL) (1 / PL) (tdgm1 R (cb R c) * aL) p in
  let fR := fb R S c PR (tdgp1 R (cb R c) * (1 / rhoR)) (gm1dgp1 R (cb R c) * PR) (1 / PR) (tdgm1 R (cb R c) * aR) p in
  let ustar := 1 / 2 * ((uL + uR) + (fR - fL)) in
  ustar - (uL - fL) = 1 / 2 * pressure_function_pw pw g rhoL uL PL rhoR uR PR p /\
  (uR + fR) - ustar = 1 / 2 * pressure_function_pw pw g rhoL uL PL rhoR uR PR p.
Proof. exact ustar_residual. Qed.
Print Assumptions C11_ustar_residual.

Theorem C11_star_state_accuracy_partial : forall pw g rhoL uL PL rhoR uR PR nfuel bfuel,
  let S := RSpw pw in
  let c := rconsts g in
  let F := pressure_function_pw pw g rhoL uL PL rhoR uR PR in
  let aL := soundspeed R S c (1 / rhoL) PL in
  let aR := soundspeed R S c (1 / rhoR) PR in
  let fL := fb R S c PL (tdgp1 R (cb R c) * (1 / rhoL)) (gm1dgp1 R (cb R c) * PL) (1 / PL) (tdgm1 R (cb R c) * aL) in
  let fR := fb R S c PR (tdgp1 R (cb R c) * (1 / rhoR)) (gm1dgp1 R (cb R c) * PR) (1 / PR) (tdgm1 R (cb R c) * aR) in
  let st := star_state R S c nfuel bfuel rhoL uL PL rhoR uR PR in
  (st_code R st = 2%Z \/ st_code R st = 3%Z) ->
  st_u R st = 1 / 2 * ((uL + uR) + (fR (st_P R st) - fL (st_P R st))) /\
  (st_code R st = 3%Z -> st_brent_bound_hit R st = false ->
   exists a lo hi, lo <= a <= hi /\ lo <= st_P R st <= hi /\
     F a * F (st_P R st) <= 0 /\ Rabs (F (st_P R st)) <= Rabs (F a) /\
     (F (st_P R st) = 0 \/ Rabs (a - st_P R st) <= tol R S * (a + st_P R st))).
Proof. exact star_state_spec. Qed.
Print Assumptions C11_star_state_accuracy_partial.

(* with the C value of pow at 0 the pressure function at P = 0 is the negated vacuum-generation margin (so the first
   Brent bracket [0, guess] starts with f < 0 exactly when solve() did not branch to vacuum generation), and for P > 0
   it is the function of the monotonicity theorem (pw := Rpower) *)
Theorem C11_pressure_function_at_zero : forall g rhoL uL PL rhoR uR PR, 1 < g -> 0 < PL -> 0 < PR ->
  let c := rconsts g in
  let aL := soundspeed R RS c (1 / rhoL) PL in
  let aR := soundspeed R RS c (1 / rhoR) PR in
  pressure_function_pw cpow g rhoL uL PL rhoR uR PR 0 = (uR - uL) - (2 / (g - 1) * aL + 2 / (g - 1) * aR) /\
  (forall p, 0 < p -> pressure_function_pw cpow g rhoL uL PL rhoR uR PR p = pressure_function_pw Rpower g rhoL uL PL rhoR uR PR p) /\
  (forall x y, 0 < x -> cpow x y = Rpower x y) /\ (forall y, 0 < y -> cpow 0 y = 0) /\ RSpw Rpower = RS.
Proof.
  intros g rhoL uL PL rhoR uR PR Hg H1 H2. cbv zeta. split; [| split; [| split; [| split]]].
  - apply pressure_function_cpow_at_0; assumption.
  - intros. apply pressure_function_cpow_pos; assumption.
  - exact cpow_pos.
  - exact cpow_0.
  - exact RSpw_Rpower.
Qed.
Print Assumptions C11_pressure_function_at_zero.

(* ---- solve(): for non-vacuum input below the vacuum-generation limit the answer is the wave samplers applied to the
   star state, the contact separating left from right; at or beyond the limit it is the vacuum-generation sampler *)
Theorem C11_solve_dispatch : forall clamp g rhoL uL PL rhoR uR PR nf bf xi, 1 < g -> 0 < rhoL -> 0 < PL -> 0 < rhoR -> 0 < PR ->
  let c := rconsts g in
  let aL := soundspeed R RS c (1 / rhoL) PL in
  let aR := soundspeed R RS c (1 / rhoR) PR in
  let st := star_state R RS c nf bf rhoL uL PL rhoR uR PR in
  (uR - uL < 2 / (g - 1) * aL + 2 / (g - 1) * aR ->
   solve R RS c clamp nf bf rhoL uL PL rhoR uR PR xi = (sample_star R RS c clamp st rhoL uL PL rhoR uR PR xi, Some st)) /\
  (2 / (g - 1) * aL + 2 / (g - 1) * aR <= uR - uL ->
   solve R RS c clamp nf bf rhoL uL PL rhoR uR PR xi = (sample_vacuum_generation R RS c clamp rhoL uL PL aL rhoR uR PR aR xi, None)) /\
  ((st_code R st = 2%Z \/ st_code R st = 3%Z) ->
   sample_star R RS c clamp st rhoL uL PL rhoR uR PR xi =
   if Rlt_dec (st_u R st) xi then
     with_flag R 1 (if Rlt_dec PR (st_P R st)
                  then sample_right_shock_wave R RS c rhoR uR PR aR (1 / PR) (st_u R st) (st_P R st) xi
                  else sample_right_rarefaction_wave R RS c clamp rhoR uR PR aR (1 / PR) (st_u R st) (st_P R st) xi)
   else
     with_flag R (-1) (if Rlt_dec PL (st_P R st)
                     then sample_left_shock_wave R RS c rhoL uL PL aL (1 / PL) (st_u R st) (st_P R st) xi
                     else sample_left_rarefaction_wave R RS c clamp rhoL uL PL aL (1 / PL) (st_u R st) (st_P R st) xi)).
Proof.
  intros g rhoL uL PL rhoR uR PR nf bf xi Hg H1 H2 H3 H4. cbv zeta. split; [| split].
  - apply solve_nonvacuum; assumption.
  - apply solve_vacuum_generation; assumption.
  - apply sample_star_dispatch.
Qed.
Print Assumptions C11_solve_dispatch.

(* the hypotheses are satisfiable and the binary64 instance of the model runs: Sod's tube (gamma = 2) yields a star
   state, 0.1 < Pstar < 1, ustar > 0, residual below 1e-7, and the samples left/right/inside are as expected *)
Theorem C11_model_runs_sod : sod_checks true = true /\ sod_checks false = true.
Proof. exact sod_checks_true. Qed.
Print Assumptions C11_model_runs_sod.
