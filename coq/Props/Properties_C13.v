(* C13 *)
From Coq Require Import ZArith List Bool.
From CMI Require Import Cxx.C13_Defs Cxx.C13_Proofs.
Import ListNotations.
Local Open Scope Z_scope.

Theorem C13_restart_identity : forall s, length (xdbl s) = 12%nat -> restore (dump s) = Some s.
Proof. exact restart_roundtrip. Qed.
Print Assumptions C13_restart_identity.
