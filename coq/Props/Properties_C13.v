(* C13  Same seed => same output; the stream of RandomGenerator is RANLUX (ranlxd2).
   Only statements, each closed by [exact] of a lemma of Cxx/C13_Proofs.v / Cxx/C13_Exact.v.
   Numerators: a double d of the class is modelled by the integer d * 2^48 (W = 2^48).
   NOT covered here: "two whole-program runs write byte-identical snapshots" (whole-binary comparison). *)
From Coq Require Import ZArith List Bool.
From CMI Require Import Cxx.C13_Defs Cxx.C13_Proofs Cxx.C13_Exact.
Import ListNotations.
Local Open Scope Z_scope.

(* (a) invariant: set_seed establishes it for EVERY seed (any 64-bit value), every draw keeps it:
   12 words below 2^48, carry 0 or 2^-48, indices in range, jr = ir_old + 7 mod 12, luxury >= 12 *)
Theorem C13_invariant : (forall seed, wf (set_seed seed)) /\ (forall s, wf s -> wf (snd (next s)) /\ pr (snd (next s)) = pr s)
                        /\ (forall seed n, wf (after n (set_seed seed))).
Proof. exact (conj set_seed_wf (conj (fun s H => conj (next_wf s H) (next_pr s H)) (fun seed n => after_wf n _ (set_seed_wf seed)))). Qed.
Print Assumptions C13_invariant.

(* (b) range: for every seed and every stream position the returned numerator is in [0, 2^48), i.e. the double is in
   [0, 1 - 2^-48]: never 1, so log(1-u) is finite; u = 0 is possible, so -log(u) can be +inf but never negative or NaN *)
Theorem C13_range : forall seed n, 0 <= nth_output seed n < W.
Proof. exact range_thm. Qed.
Print Assumptions C13_range.

Theorem C13_integer_range : forall s, wf s -> 0 <= fst (next_integer s) < 2147483648.
Proof. exact integer_range. Qed.
Print Assumptions C13_integer_range.

(* (c) refinement 1: the unrolled block of increment_state is 12 plain loop bodies *)
Theorem C13_block_is_12_steps : forall l, locwf l -> lir l = 0 -> ljr l = 7 -> block l = iter 12 body l.
Proof. exact block_eq. Qed.
Print Assumptions C13_block_is_12_steps.

(* (c) refinement 2: increment_state (three loops, fuel never exhausted) is exactly _pr plain bodies, for every luxury >= 12 *)
Theorem C13_increment_is_pr_steps : forall s, wf s -> ir s = ir_old s ->
  increment_state s = rg_of (iter (Z.to_nat (pr s)) body (loc_of s)) (pr s).
Proof. exact increment_refines. Qed.
Print Assumptions C13_increment_is_pr_steps.

(* (c) refinement 3: one body on the circular buffer is one subtract-with-borrow step (base 2^48, lags 12 and 5) on the
   history read from position ir *)
Theorem C13_body_is_swb : forall l, locinv l -> window (body l) = swb (window l).
Proof. exact body_swb. Qed.
Print Assumptions C13_body_is_swb.

(* (c) refinement 4: the whole stream of get_uniform_random_double after set_seed(seed), for every seed and every length, is
   the six-line reference: shift-register seeding, then repeatedly 397 swb steps and the 12 history values oldest first *)
Theorem C13_stream_is_ranlxd2 : forall n seed, stream n (set_seed seed) = lux_stream 397 n (lux_init seed).
Proof. exact stream_spec. Qed.
Print Assumptions C13_stream_is_ranlxd2.

Theorem C13_stream_refines_from_any_state : forall n s p, wf s -> pr s = Z.of_nat p -> stream n s = lux_stream p n (abs s).
Proof. exact stream_lux. Qed.
Print Assumptions C13_stream_refines_from_any_state.

(* (d) seeds: 0 is 1; only seed mod 2^31 matters; the seed words determine the seed on [1,2^31) *)
Theorem C13_seed_zero_is_one : set_seed 0 = set_seed 1.
Proof. exact seed_zero_is_one. Qed.
Print Assumptions C13_seed_zero_is_one.

Theorem C13_seed_mod_2_31 : forall s1 s2, s1 <> 0 -> s2 <> 0 -> s1 mod 2147483648 = s2 mod 2147483648 -> set_seed s1 = set_seed s2.
Proof. exact seed_mod. Qed.
Print Assumptions C13_seed_mod_2_31.

Theorem C13_seeding_injective : forall s1 s2, 1 <= s1 < 2147483648 -> 1 <= s2 < 2147483648 ->
  xdbl (set_seed s1) = xdbl (set_seed s2) -> s1 = s2.
Proof. exact seeding_injective. Qed.
Print Assumptions C13_seeding_injective.

(* (d) different seeds give different streams, full strength: two seeds in [1,2^31) whose first 24 values agree are equal *)
Theorem C13_streams_differ : forall s1 s2, 1 <= s1 < 2147483648 -> 1 <= s2 < 2147483648 ->
  stream 24 (set_seed s1) = stream 24 (set_seed s2) -> s1 = s2.
Proof. exact streams_differ. Qed.
Print Assumptions C13_streams_differ.

(* (d) the design sketch's "step_injective" is false: the transition on well-formed states is not injective
   ((x[ir], carry) = (5,0) and (4,1) have the same successor); streams_differ does not rely on it *)
Theorem C13_step_injective_refuted : exists l1 l2, locinv l1 /\ locinv l2 /\ l1 <> l2 /\ body l1 = body l2.
Proof. exact step_not_injective. Qed.
Print Assumptions C13_step_injective_refuted.

(* the arithmetic fact behind streams_differ: a swb step multiplies the Marsaglia-Zaman number by W^-1 modulo W^12 - W^5 + 1 *)
Theorem C13_swb_is_lcg : forall st, hwf st -> W * mznum (swb st) = mznum st + MODULUS * zn (fst (swb st)) 11.
Proof. exact mznum_swb. Qed.
Print Assumptions C13_swb_is_lcg.

(* (e) restart: the words read back in the order written give the same object, hence the same continued stream *)
Theorem C13_restart_identity : forall s, length (xdbl s) = 12%nat -> restore (dump s) = Some s.
Proof. exact restart_roundtrip. Qed.
Print Assumptions C13_restart_identity.

Theorem C13_restart_continues : forall s s' n, wf s -> restore (dump s) = Some s' -> s' = s /\ stream n s' = stream n s.
Proof. exact restart_continues. Qed.
Print Assumptions C13_restart_continues.

(* exactness: every value computed by a loop body or a RANLUX_STEP (operands, differences, corrected values) is a numerator of
   magnitude <= 2^48, and such a numerator over 2^48 is a binary64 number: the integer model is the double computation *)
Theorem C13_intermediates_bounded : forall l, locwf l ->
  Forall exact48 (body_ivals l) /\
  (forall i1 i2, i2 = (lir l + 1) mod 12 -> i1 = (ljr l + 1) mod 12 -> i1 <> lir l -> Forall exact48 (rs_ivals (lx l) (pend l) i1 i2)).
Proof. exact (fun l H => conj (body_exact l H) (fun i1 i2 H2 H1 Hne => proj1 (rs_exact l i1 i2 H H2 H1 Hne))). Qed.
Print Assumptions C13_intermediates_bounded.

Theorem C13_exact_in_binary64 : forall l, locwf l ->
  Forall (fun v => b64 (real_of v)) (body_ivals l) /\
  (forall i1 i2, i2 = (lir l + 1) mod 12 -> i1 = (ljr l + 1) mod 12 -> i1 <> lir l ->
     Forall (fun v => b64 (real_of v)) (rs_ivals (lx l) (pend l) i1 i2)).
Proof. exact exact_in_binary64. Qed.
Print Assumptions C13_exact_in_binary64.

Theorem C13_seed_sums_exact : forall m r, reginv r -> (m <= 48)%nat ->
  0 <= fold_left wacc (lfsr m r) 0 < 2 ^ Z.of_nat m /\ 2 ^ Z.of_nat m <= W.
Proof. exact seed_partial_exact. Qed.
Print Assumptions C13_seed_sums_exact.

(* set_seed's loops (circular 31-bit buffer, 12 x 48 inner steps) compute the shift-register spec *)
Theorem C13_seeding_is_lfsr : forall seed, abs (set_seed seed) = lux_init seed.
Proof. exact set_seed_spec. Qed.
Print Assumptions C13_seeding_is_lfsr.

(* the executable well-formedness test the model driver evaluates on every state it visits decides the invariant *)
Theorem C13_wfb_sound : forall s, wfb s = true -> wf s.
Proof. exact wfb_sound. Qed.
Print Assumptions C13_wfb_sound.
