(* C08  Shared scheduler containers never give one slot or task to two owners.
   Only statements, each closed by [exact] of a lemma of Cxx/C08_Proofs.v.
   Model (Cxx/C08_Defs.v): interleaving of the individual atomic operations of AtomicValue,
   LockFree::add, ThreadLock, ThreadSafeVector, Task::(un)lock_dependency and TaskQueue;
   [step cfg s t c] = thread t performs its next atomic operation (c = the operation its client
   starts if t is idle).  [reach cfg s] = s is reachable by SOME schedule, i.e. the theorems hold
   for every number of threads [nthr cfg], every pool size [psize cfg], every task table
   [dep0/xdep1 cfg] (stored through set_dependency / set_extra_dependency; [dedup cfg = true] is the
   code as it is now, [false] the pinned commit), every initial cursor, and every schedule whose clients obey the interface
   contract [wf_choice] (free only a slot you hold, unlock only what you locked). *)
From Coq Require Import NArith ZArith List Bool Arith Permutation.
From CMI Require Import Cxx.C08_Defs Cxx.C08_Proofs Cxx.C08_QProofs.
Import ListNotations.

(* [reach] is exactly: reachable from the initial state by a list of (thread, client choice)
   entries that respects the contract *)
Theorem C08_all_schedules : forall cfg s, reachable_wf cfg s <-> reach cfg s.
Proof. exact reachable_wf_reach. Qed.
Print Assumptions C08_all_schedules.

(* ---- pool of reusable slots (ThreadSafeVector / MemorySpace) ---- *)

(* a slot returned to one requester and not yet freed is not held by any other thread *)
Theorem C08_slot_exclusive : forall cfg s, reach cfg s ->
  forall t1 t2 i, t1 <> t2 -> holds s t1 i -> ~ holds s t2 i.
Proof. exact slot_exclusive. Qed.
Print Assumptions C08_slot_exclusive.

(* the same including requests in flight (flag set, index not yet returned), and never twice to
   the same thread *)
Theorem C08_slot_exclusive_inflight : forall cfg s, reach cfg s ->
  forall t1 t2 i, t1 <> t2 -> ownsT (thr s t1) i -> ~ ownsT (thr s t2) i.
Proof. exact slot_exclusive_inflight. Qed.
Print Assumptions C08_slot_exclusive_inflight.

Theorem C08_slot_held_once : forall cfg s, reach cfg s -> forall t, NoDup (held (thr s t)).
Proof. exact held_once. Qed.
Print Assumptions C08_slot_held_once.

(* the flag of a slot is set exactly while some thread owns the slot: after free_element's
   unlock the slot is free *)
Theorem C08_flag_iff_owned : forall cfg s, reach cfg s ->
  forall i, is_some (flags s i) = true <-> exists t, ownsT (thr s t) i.
Proof. exact flag_iff_owned. Qed.
Print Assumptions C08_flag_iff_owned.

(* a released (or otherwise free) slot becomes available again: a requester that is past the
   "pool full?" test and runs on its own finds a free slot - the cursor may go around the pool
   (a pool that was full) and across the 2^64 wrap of the cursor *)
Theorem C08_released_becomes_available : forall cfg s t i,
  t < nthr cfg -> 0 < psize cfg -> (N.of_nat (psize cfg) <= WORD)%N -> (cursor s < WORD)%N ->
  tpc (thr s t) = G_fetchCur -> i < psize cfg -> flags s i = None ->
  exists k, acquired (solo cfg t k s) t.
Proof. exact released_becomes_available. Qed.
Print Assumptions C08_released_becomes_available.

(* ... and a whole get_free_element_safe on a quiescent pool with a free slot obtains a slot *)
Theorem C08_get_succeeds_when_quiescent : forall cfg s t i,
  reach cfg s -> quiescent cfg s -> t < nthr cfg ->
  0 < psize cfg -> (N.of_nat (psize cfg) < WORD)%N -> (cur0 cfg < WORD)%N ->
  i < psize cfg -> flags s i = None ->
  exists k, acquired (solo cfg t k s) t.
Proof. exact pool_get_succeeds_when_quiescent. Qed.
Print Assumptions C08_get_succeeds_when_quiescent.

(* no operation in progress: occupancy counter = number of slots held = number of flags set *)
Theorem C08_occupancy_exact_when_quiescent : forall cfg s,
  0 < psize cfg -> (N.of_nat (psize cfg) < WORD)%N -> reach cfg s -> quiescent cfg s ->
  N.to_nat (taken s) = count_held cfg s /\ count_held cfg s = count_flags cfg s.
Proof. exact occupancy_exact_when_quiescent. Qed.
Print Assumptions C08_occupancy_exact_when_quiescent.

(* in general the counter exceeds the number of slots held by at most the number of operations
   in flight (modulo 2^64), and is never below it *)
Theorem C08_occupancy_inflight_bound : forall cfg s,
  0 < psize cfg -> reach cfg s ->
  exists d, (0 <= d <= Z.of_nat (inflight cfg s))%Z /\
            Z.of_N (taken s) = ((Z.of_nat (count_held cfg s) + d) mod WZ)%Z.
Proof. exact occupancy_inflight_bound. Qed.
Print Assumptions C08_occupancy_inflight_bound.

(* ---- atomic counters ---- *)

(* AtomicValue pre/post_increment: value = initial + number of completed increments (mod 2^64) *)
Theorem C08_counter_no_lost_update : forall cfg s c, (ctr0 cfg c < WORD)%N -> reach cfg s ->
  ctr s c = ((ctr0 cfg c + total_of (inc_amount c) (hist s)) mod WORD)%N.
Proof. exact counter_no_lost_update. Qed.
Print Assumptions C08_counter_no_lost_update.

(* LockFree::add (load + CAS loop): value = initial + sum of the completed additions (mod 2^64) *)
Theorem C08_lockfree_add_no_lost_update : forall cfg s c, (lfc0 cfg c < WORD)%N -> reach cfg s ->
  lfc s c = ((lfc0 cfg c + total_of (lf_amount c) (hist s)) mod WORD)%N.
Proof. exact lockfree_add_no_lost_update. Qed.
Print Assumptions C08_lockfree_add_no_lost_update.

(* AtomicValue::max (load + CAS loop): the variable is at least every value handed to a completed
   max() call *)
Theorem C08_max_is_max : forall cfg s, reach cfg s ->
  forall e x v r, In e (hist s) -> e_ret e = Some (OMax x v, r) -> (v <= mxv s x)%N.
Proof. exact max_is_max. Qed.
Print Assumptions C08_max_is_max.

(* ---- locks ---- *)

(* a lock - taken by lock/try_lock, as dependency of a task, or in the middle of
   lock_dependency - has one holder at a time *)
Theorem C08_lock_exclusive : forall cfg s, reach cfg s ->
  forall t1 t2 l, t1 <> t2 -> lock_holds cfg s t1 l -> ~ lock_holds cfg s t2 l.
Proof. exact lock_exclusive. Qed.
Print Assumptions C08_lock_exclusive.

(* the lock variable is set exactly while a thread holds the lock, and names that thread *)
Theorem C08_lock_word_iff_held : forall cfg s, reach cfg s ->
  forall l t, locks s l = Some t <-> lock_holds cfg s t l.
Proof. exact lock_word_iff_held. Qed.
Print Assumptions C08_lock_word_iff_held.

(* the queue spin lock: one thread at a time between _queue_lock.lock() and unlock() *)
Theorem C08_queue_cs_exclusive : forall cfg s, reach cfg s ->
  forall t1 t2 q, in_cs (tpc (thr s t1)) = Some q -> in_cs (tpc (thr s t2)) = Some q -> t1 = t2.
Proof. exact queue_cs_exclusive. Qed.
Print Assumptions C08_queue_cs_exclusive.

(* ---- task queues ---- *)

(* contents of the queue + tasks returned by get_task/try_get_task + tasks removed by a thread
   that is about to return them = tasks stored by add_task, as multisets: nothing is lost,
   duplicated or invented, gap closing included *)
Theorem C08_queue_hands_out_once : forall cfg s, reach cfg s ->
  forall q, Permutation (qitems (queues s q) ++ returned s q ++ inflight_out cfg s q) (pushed s q).
Proof. exact queue_hands_out_once. Qed.
Print Assumptions C08_queue_hands_out_once.

(* hence an index is handed out at most as often as it was put in, and only if it was put in *)
Theorem C08_returned_at_most_pushed : forall cfg s, reach cfg s ->
  forall q k, count_occ Nat.eq_dec (returned s q) k <= count_occ Nat.eq_dec (pushed s q) k.
Proof. exact returned_at_most_pushed. Qed.
Print Assumptions C08_returned_at_most_pushed.

Theorem C08_returned_only_if_pushed : forall cfg s, reach cfg s ->
  forall q k, In k (returned s q) -> In k (pushed s q).
Proof. exact returned_only_if_pushed. Qed.
Print Assumptions C08_returned_only_if_pushed.

Theorem C08_queue_exact_when_quiescent : forall cfg s, reach cfg s -> quiescent cfg s ->
  forall q, Permutation (qitems (queues s q) ++ returned s q) (pushed s q).
Proof. exact queue_exact_when_quiescent. Qed.
Print Assumptions C08_queue_exact_when_quiescent.

(* when get_task / try_get_task returns task k to thread t, t owns every lock k declared *)
Theorem C08_handout_owns_all_resources : forall cfg s t c o k,
  reach cfg s -> wf_choice s t c = true ->
  e_ret (snd (step cfg s t c)) = Some (o, RTask (Some k)) ->
  forall l, In l (deps cfg k) -> locks (fst (step cfg s t c)) l = Some t.
Proof. exact handout_owns_all_resources. Qed.
Print Assumptions C08_handout_owns_all_resources.

(* and keeps owning them as long as the task is in its hands *)
Theorem C08_task_held_owns_locks : forall cfg s, reach cfg s ->
  forall t k l, In k (htasks (thr s t)) -> In l (deps cfg k) -> locks s l = Some t.
Proof. exact task_held_owns_locks. Qed.
Print Assumptions C08_task_held_owns_locks.

(* a failed lock attempt (try_lock, or lock_dependency: also when the first lock was taken and
   the second was not) leaves the thread owning no lock beyond its view from before: the first
   lock has been rolled back *)
Theorem C08_rollback_leaves_no_lock : forall cfg s t c o,
  reach cfg s -> wf_choice s t c = true ->
  e_ret (snd (step cfg s t c)) = Some (o, RBool false) ->
  forall l, locks (fst (step cfg s t c)) l = Some t ->
  In l (hlocks (thr s t)) \/ exists k, In k (htasks (thr s t)) /\ In l (deps cfg k).
Proof. exact rollback_leaves_no_lock. Qed.
Print Assumptions C08_rollback_leaves_no_lock.

(* in general: between two operations a thread owns exactly the locks in its view (no leak,
   also after a get_task that returned nothing) *)
Theorem C08_idle_thread_locks_in_view : forall cfg s, reach cfg s ->
  forall t l, tpc (thr s t) = Idle -> locks s l = Some t ->
  In l (hlocks (thr s t)) \/ exists k, In k (htasks (thr s t)) /\ In l (deps cfg k).
Proof. exact idle_thread_locks_in_view. Qed.
Print Assumptions C08_idle_thread_locks_in_view.

(* when none of a task's resources is held by anyone the task can be handed out: a get_task /
   try_get_task that finds the queue unlocked, the queue containing a task whose locks are all free,
   removes a task for its caller when the caller runs on its own.  For the code as it is now
   (set_extra_dependency drops a second dependency equal to the first) no side condition: *)
Theorem C08_free_resources_imply_handout : forall cfg s t q,
  dedup cfg = true -> reach cfg s -> t < nthr cfg ->
  tpc (thr s t) = Q_lock q \/ tpc (thr s t) = Q_trylock q ->
  qlk (queues s q) = None ->
  (exists j, j < length (qitems (queues s q)) /\ all_free cfg s (nth j (qitems (queues s q)) 0)) ->
  eventually_handed cfg s t q.
Proof. exact free_resources_imply_handout_dedup. Qed.
Print Assumptions C08_free_resources_imply_handout.

(* ... the same from the middle of a scan that still has such a task below its position ... *)
Theorem C08_scan_reaches_free_task : forall cfg t q, dedup cfg = true -> t < nthr cfg ->
  forall idx s k, reach cfg s -> tpc (thr s t) = D_try0 (InQ q idx) k ->
  (exists j, j < idx /\ all_free cfg s (nth j (qitems (queues s q)) 0)) ->
  eventually_handed cfg s t q.
Proof. exact scan_reaches_free_task_dedup. Qed.
Print Assumptions C08_scan_reaches_free_task.

(* for any variant: it suffices that the free task's locks are different locks *)
Theorem C08_free_resources_imply_handout_distinct : forall cfg s t q,
  reach cfg s -> t < nthr cfg ->
  tpc (thr s t) = Q_lock q \/ tpc (thr s t) = Q_trylock q ->
  qlk (queues s q) = None ->
  (exists j, j < length (qitems (queues s q)) /\ lockable cfg s (nth j (qitems (queues s q)) 0)) ->
  eventually_handed cfg s t q.
Proof. exact free_resources_imply_handout. Qed.
Print Assumptions C08_free_resources_imply_handout_distinct.

(* ... and the task so removed is what the call returns *)
Theorem C08_handed_is_returned : forall cfg s t q k c, t < nthr cfg -> tpc (thr s t) = Q_unlock q (Some k) ->
  e_ret (snd (step cfg s t c)) = Some (top (thr s t), RTask (Some k)).
Proof. exact handed_is_returned. Qed.
Print Assumptions C08_handed_is_returned.

(* a task that is given the same lock twice (one subgrid on a periodic axis, defect D2):
   as repaired, it has ONE dependency (so it is handed out by the theorems above, with that lock,
   and unlock_dependency releases that one lock) ... *)
Theorem C08_same_lock_twice_is_one_dependency : forall cfg k l, dedup cfg = true ->
  dep0 cfg k = Some l -> xdep1 cfg k = Some l -> deps cfg k = [l].
Proof. exact same_lock_twice_is_one_dependency. Qed.
Print Assumptions C08_same_lock_twice_is_one_dependency.

Theorem C08_dependencies_distinct : forall cfg k, dedup cfg = true -> NoDup (deps cfg k).
Proof. exact deps_nodup. Qed.
Print Assumptions C08_dependencies_distinct.

(* ... while at the pinned commit (second dependency stored as is) such a task was never handed
   out by any queue under any schedule, even with the lock free: the repair was necessary *)
Theorem C08_same_lock_twice_never_returned_pinned : forall cfg s t c o k l, reach cfg s -> wf_choice s t c = true ->
  dedup cfg = false -> dep0 cfg k = Some l -> xdep1 cfg k = Some l ->
  e_ret (snd (step cfg s t c)) <> Some (o, RTask (Some k)).
Proof. exact same_lock_twice_never_returned_pinned. Qed.
Print Assumptions C08_same_lock_twice_never_returned_pinned.

(* ---- the quiescent (non-thread-safe) pool operations: clear, clear_after, get_free_elements ---- *)
(* [reachq cfg s]: reachable by any interleaving of atomic steps of the threads AND, at any moment at
   which no thread has a pool operation in flight ([pool_quiet]; the calls are made by the master thread
   outside the parallel regions), calls of clear() / clear_after(off) / get_free_elements(n) that respect
   the contract of these methods [qpre]: clear_after(off): off <= _size and every slot below off is held
   ("We assume all values before the given offset are in use" - what _number_taken.set(offset) relies on);
   get_free_elements(n): empty pool, n <= _size.  Handles from off onwards are dropped by their holders.
   All statements: any number of threads, any pool size > 0, any schedule, cursor anywhere. *)

Theorem C08_q_all_schedules : forall cfg s, reachable_q cfg s <-> reachq cfg s.
Proof. exact reachable_q_reachq. Qed.
Print Assumptions C08_q_all_schedules.

Theorem C08_q_contract_decided : forall cfg s q, qpre_b cfg s q = true <-> qpre cfg s q.
Proof. exact qpre_b_spec. Qed.
Print Assumptions C08_q_contract_decided.

Theorem C08_q_extends : forall cfg s, reach cfg s -> reachq cfg s.
Proof. exact reach_reachq. Qed.
Print Assumptions C08_q_extends.

(* the pool theorems again, now with the quiescent operations anywhere in the history
   (C08_released_becomes_available has no reachability hypothesis and applies as it stands) *)
Theorem C08_q_slot_exclusive : forall cfg s, 0 < psize cfg -> reachq cfg s ->
  forall t1 t2 i, t1 <> t2 -> holds s t1 i -> ~ holds s t2 i.
Proof. exact q_slot_exclusive. Qed.
Print Assumptions C08_q_slot_exclusive.

Theorem C08_q_slot_exclusive_inflight : forall cfg s, 0 < psize cfg -> reachq cfg s ->
  forall t1 t2 i, t1 <> t2 -> ownsT (thr s t1) i -> ~ ownsT (thr s t2) i.
Proof. exact q_slot_exclusive_inflight. Qed.
Print Assumptions C08_q_slot_exclusive_inflight.

Theorem C08_q_slot_held_once : forall cfg s, 0 < psize cfg -> reachq cfg s -> forall t, NoDup (held (thr s t)).
Proof. exact q_held_once. Qed.
Print Assumptions C08_q_slot_held_once.

Theorem C08_q_flag_iff_owned : forall cfg s, 0 < psize cfg -> reachq cfg s ->
  forall i, is_some (flags s i) = true <-> exists t, ownsT (thr s t) i.
Proof. exact q_flag_iff_owned. Qed.
Print Assumptions C08_q_flag_iff_owned.

Theorem C08_q_occupancy_exact_when_quiescent : forall cfg s,
  0 < psize cfg -> (N.of_nat (psize cfg) < WORD)%N -> reachq cfg s -> quiescent cfg s ->
  N.to_nat (taken s) = count_held cfg s /\ count_held cfg s = count_flags cfg s.
Proof. exact q_occupancy_exact_when_quiescent. Qed.
Print Assumptions C08_q_occupancy_exact_when_quiescent.

(* it suffices that no POOL operation is in flight (threads may be inside lock or queue operations) *)
Theorem C08_q_occupancy_exact_when_pool_quiet : forall cfg s,
  0 < psize cfg -> (N.of_nat (psize cfg) < WORD)%N -> reachq cfg s -> pool_quiet cfg s ->
  N.to_nat (taken s) = count_held cfg s /\ count_held cfg s = count_flags cfg s.
Proof. exact q_occupancy_exact_when_pool_quiet. Qed.
Print Assumptions C08_q_occupancy_exact_when_pool_quiet.

Theorem C08_q_occupancy_inflight_bound : forall cfg s,
  0 < psize cfg -> reachq cfg s ->
  exists d, (0 <= d <= Z.of_nat (inflight cfg s))%Z /\
            Z.of_N (taken s) = ((Z.of_nat (count_held cfg s) + d) mod WZ)%Z.
Proof. exact q_occupancy_inflight_bound. Qed.
Print Assumptions C08_q_occupancy_inflight_bound.

Theorem C08_q_get_succeeds_when_quiescent : forall cfg s t i,
  reachq cfg s -> quiescent cfg s -> t < nthr cfg ->
  0 < psize cfg -> (N.of_nat (psize cfg) < WORD)%N -> (cur0 cfg < WORD)%N ->
  i < psize cfg -> flags s i = None ->
  exists k, acquired (solo cfg t k s) t.
Proof. exact q_get_succeeds_when_quiescent. Qed.
Print Assumptions C08_q_get_succeeds_when_quiescent.

(* a get_free_element_safe on a quiescent pool obtains a slot IFF a slot is free: if none is, it is
   refused (returns _size) however often it is repeated - it does not spin *)
Theorem C08_q_get_succeeds_iff_free : forall cfg s t,
  reachq cfg s -> quiescent cfg s -> t < nthr cfg ->
  0 < psize cfg -> (N.of_nat (psize cfg) < WORD)%N -> (cur0 cfg < WORD)%N ->
  ((exists i, i < psize cfg /\ flags s i = None) <-> exists k, acquired (solo cfg t k s) t).
Proof. exact q_get_succeeds_iff_free. Qed.
Print Assumptions C08_q_get_succeeds_iff_free.

(* what clear_after(off) establishes, from ANY reachable state without a pool operation in flight - the
   cursor anywhere: pool filled to its last slot (cursor = _size), cursor gone around the pool, wrapped
   at 2^64 -: the flags set are exactly the slots below off that were held, with the same holders; every
   slot from off onwards is free and in nobody's view; occupancy counter = slots held = flags set = off;
   cursor = off; no program counter changes; and from a quiescent state a following
   get_free_element_safe obtains a slot iff a slot is free *)
Theorem C08_clear_after_establishes : forall cfg s off,
  0 < psize cfg -> (N.of_nat (psize cfg) < WORD)%N -> reachq cfg s -> qpre cfg s (QClearAfter off) ->
  let s' := qexec cfg s (QClearAfter off) in
  (forall i t, flags s' i = Some t <-> i < off /\ holds s t i) /\
  (forall i, is_some (flags s' i) = true <-> i < off) /\
  (forall i, off <= i -> flags s' i = None /\ forall t, ~ holds s' t i) /\
  (forall t i, holds s' t i <-> holds s t i /\ i < off) /\
  (N.to_nat (taken s') = off /\ count_held cfg s' = off /\ count_flags cfg s' = off) /\
  cursor s' = N.of_nat off /\
  (forall t, tpc (thr s' t) = tpc (thr s t)) /\
  (quiescent cfg s -> quiescent cfg s' /\ forall t, t < nthr cfg ->
     ((exists i, i < psize cfg /\ flags s' i = None) <-> exists k, acquired (solo cfg t k s') t)) /\
  reachq cfg s'.
Proof. exact clear_after_establishes. Qed.
Print Assumptions C08_clear_after_establishes.

(* the contract is necessary: with a free slot below off the counter no longer equals the slots held *)
Theorem C08_clear_after_contract_necessary : exists cfg s off,
  reach cfg s /\ quiescent cfg s /\ off <= psize cfg /\
  N.to_nat (taken (qexec cfg s (QClearAfter off))) <> count_held cfg (qexec cfg s (QClearAfter off)).
Proof. exact clear_after_needs_block_held. Qed.
Print Assumptions C08_clear_after_contract_necessary.

(* the contract at the call site: the block below off stays held as long as no thread is about to free
   one of its slots (hydro tasks are never freed), also across clear_after with an offset >= off *)
Theorem C08_permanent_block_stays_held : forall cfg s t c off,
  (forall i, i < off -> flags s i <> None) ->
  (forall i, i < off -> tpc (thr s t) <> F_cas i) ->
  forall i, i < off -> flags (fst (step cfg s t c)) i <> None.
Proof. exact permanent_block_step. Qed.
Print Assumptions C08_permanent_block_stays_held.

Theorem C08_permanent_block_survives_clear_after : forall cfg s off off',
  (forall i, i < off -> flags s i <> None) -> off <= off' ->
  forall i, i < off -> flags (qexec cfg s (QClearAfter off')) i <> None.
Proof. exact permanent_block_qexec. Qed.
Print Assumptions C08_permanent_block_survives_clear_after.

(* clear(): the pool is as new *)
Theorem C08_clear_establishes : forall cfg s,
  0 < psize cfg -> reachq cfg s -> pool_quiet cfg s ->
  let s' := qexec cfg s QClear in
  (forall i, flags s' i = None) /\ (forall t, held (thr s' t) = []) /\
  taken s' = 0%N /\ cursor s' = 0%N /\ maxtaken s' = 0%N /\ total s' = 0%N /\
  count_held cfg s' = 0 /\ count_flags cfg s' = 0 /\
  (forall t, tpc (thr s' t) = tpc (thr s t)) /\ reachq cfg s'.
Proof. exact clear_establishes. Qed.
Print Assumptions C08_clear_establishes.

(* get_free_elements(n) on an empty pool: the caller holds exactly the block 0 .. n-1 *)
Theorem C08_get_free_elements_establishes : forall cfg s t n,
  0 < psize cfg -> (N.of_nat (psize cfg) < WORD)%N -> reachq cfg s -> qpre cfg s (QGetN t n) ->
  let s' := qexec cfg s (QGetN t n) in
  (forall i t', flags s' i = Some t' <-> i < n /\ t' = t) /\
  (forall i, holds s' t i <-> i < n) /\ (forall t' i, t' <> t -> ~ holds s' t' i) /\
  (N.to_nat (taken s') = n /\ count_held cfg s' = n /\ count_flags cfg s' = n) /\
  cursor s' = N.of_nat n /\ reachq cfg s'.
Proof. exact get_free_elements_establishes. Qed.
Print Assumptions C08_get_free_elements_establishes.
