(* C03  Ray tracing does not depend on the subgrid layout -- layers 1 (direction tables) and 3 (neighbour wiring,
   duplicates, folding) of the design.  Only statements, each closed by [exact] of a lemma of Cxx/C03_Proofs.v.
   gen_* are the tables REGENERATED from src/TravelDirections.hpp / src/DensitySubGrid.hpp on every run
   (Cxx/C03_Gen.v); offset_of_dir / dir_of_offset / mask_decode / ..._spec are the hand-written specification
   (Cxx/C03_Defs.v): a direction index is the encoding of an offset vector in {-1,0,1}^3 in the order of
   enum TravelDirection. *)
From Coq Require Import ZArith List Bool.
From CMI Require Import Cxx.C03_Defs Cxx.C03_Gen Cxx.C03_Proofs.
Import ListNotations.
Local Open Scope Z_scope.

(* ---- layer 1: direction tables ---- *)

(* The enumerator values are exactly the spec's encoding of the offset their names spell; 27 directions;
   the OUTSIDE sentinel is 0xffffffff. *)
Theorem C03_enum_is_offset_encoding :
  gen_named = named_table_spec /\ gen_ndir = NDIR /\ gen_outside = OUTSIDE.
Proof. exact (conj gen_named_ok gen_constants). Qed.
Print Assumptions C03_enum_is_offset_encoding.

(* The encoding is a bijection between 0..26 and {-1,0,1}^3. *)
Theorem C03_offset_encoding_bijective :
  (forall d, 0 <= d < 27 -> dir_of_offset (offset_of_dir d) = d) /\
  (forall o, is_offset o -> 0 <= dir_of_offset o < 27 /\ offset_of_dir (dir_of_offset o) = o).
Proof. exact (conj dir_offset_dir offset_dir_offset). Qed.
Print Assumptions C03_offset_encoding_bijective.

(* output_to_input_direction stays in range, negates the offset vector and is an involution. *)
Theorem C03_out_to_in_involution_negates : forall d, 0 <= d < 27 ->
  0 <= tnth gen_out_to_in d < 27 /\
  offset_of_dir (tnth gen_out_to_in d) = vneg (offset_of_dir d) /\
  tnth gen_out_to_in (tnth gen_out_to_in d) = d.
Proof. exact out_to_in_thm. Qed.
Print Assumptions C03_out_to_in_involution_negates.

(* get_output_direction(mask): all 64 masks decode as the spec says, -1 is returned exactly for the masks with both
   bits of an axis set, decoding inverts the offset encoding, 37 masks are rejected. *)
Theorem C03_mask_decoding :
  length gen_mask = 64%nat /\
  (forall m, 0 <= m < 64 -> tnth gen_mask m = mask_decode m) /\
  (forall m, 0 <= m < 64 -> (tnth gen_mask m = -1 <-> mask_inconsistent m = true)) /\
  (forall o, is_offset o -> tnth gen_mask (mask_encode o) = dir_of_offset o) /\
  length (filter (fun v => v =? -1) gen_mask) = 37%nat.
Proof. exact (check_mask_sound _ gen_mask_checked). Qed.
Print Assumptions C03_mask_decoding.

(* DensitySubGrid::get_output_direction(three_index): every tabulated call returns the model's value, which is
   the direction whose offset classifies the index per axis (below 0 / inside / at or above ncell);
   and the model's mask arithmetic (C++ truncating division) is right for ALL cell counts >= 1 and all indices. *)
Theorem C03_exit_classification :
  Forall (fun e => let '(n1, n2, n3, i, j, k, d) := e in
                   d = exit_dir (n1, n2, n3) (i, j, k) /\ d = dir_of_offset (exit_class (n1, n2, n3) (i, j, k))) gen_exit /\
  (forall n1 n2 n3 i j k, 1 <= n1 -> 1 <= n2 -> 1 <= n3 ->
     exit_dir (n1, n2, n3) (i, j, k) = dir_of_offset (exit_class (n1, n2, n3) (i, j, k))).
Proof. exact (conj (check_exit_sound _ gen_exit_checked) exit_dir_class). Qed.
Print Assumptions C03_exit_classification.

(* is_compatible_output_direction holds exactly when every non-zero offset component has the sign of the direction
   component; is_compatible_input_direction exactly when it has the opposite sign (all 27 sign patterns x 27
   directions x 3 magnitudes); input compatibility = output compatibility of the opposite direction. *)
Theorem C03_compatibility :
  gen_compat = compat_table_spec /\
  (forall d s, 0 <= d < 27 -> is_offset s -> in_compat_spec d s = out_compat_spec (tnth gen_out_to_in d) s).
Proof. exact (conj gen_compat_ok (check_in_out_sound _ gen_in_out_checked)). Qed.
Print Assumptions C03_compatibility.

(* get_start_index / update_photon_position per input direction and axis: offset -1 -> first cell / lower face,
   +1 -> last cell / upper face, 0 -> computed index / coordinate untouched. *)
Theorem C03_entry_class : gen_entry = entry_table_spec.
Proof. exact gen_entry_ok. Qed.
Print Assumptions C03_entry_class.

(* Hand-over: what leaves through output direction d enters the neighbour through output_to_input_direction(d),
   where it is placed on the opposite face/edge/corner: per axis, leaving through the upper side means entering in the
   first cell on the lower face and vice versa; axes not crossed keep index and coordinate. *)
Theorem C03_handover_opposite_side : forall d n, 0 <= d < 27 -> In n [1; 3; 5] ->
  In (n, tnth gen_out_to_in d, entry_index n (vneg (offset_of_dir d)), entry_repos (vneg (offset_of_dir d))) gen_entry.
Proof. exact (check_handover_sound _ _ gen_handover_checked). Qed.
Print Assumptions C03_handover_opposite_side.

(* ---- layer 3: neighbour wiring, all layouts nx,ny,nz >= 1, all periodicity flags ---- *)

(* Slot d of subgrid idx after create_subgrid is the wrapped lattice neighbour in the direction spelled by d;
   it is OUTSIDE exactly when the box ends there on a non-periodic axis; otherwise a valid subgrid index. *)
Theorem C03_neighbour_is_lattice_neighbour : forall L idx d, wfL L -> 0 <= idx < nsub L -> 0 <= d < 27 ->
  let A := pos_of_index L idx in let o := offset_of_dir d in
  coords_ok L A /\ lin L A = idx /\
  subgrid_ngb L idx d = ngb_spec L A o /\
  (subgrid_ngb L idx d = OUTSIDE <-> box_ends L A o = true) /\
  (subgrid_ngb L idx d <> OUTSIDE -> 0 <= subgrid_ngb L idx d < nsub L).
Proof. exact wiring_lattice_thm. Qed.
Print Assumptions C03_neighbour_is_lattice_neighbour.

(* Mutual wiring, with the REAL output_to_input table: if A's neighbour through d is B, then B's neighbour through
   output_to_input_direction(d) is A (also when an axis has 1 or 2 subgrids and B = A or B is on both sides). *)
Theorem C03_wiring_mutual : forall L idx d, wfL L -> 0 <= idx < nsub L -> 0 <= d < 27 ->
  subgrid_ngb L idx d <> OUTSIDE ->
  0 <= subgrid_ngb L idx d < nsub L /\
  subgrid_ngb L (subgrid_ngb L idx d) (tnth gen_out_to_in d) = idx.
Proof. exact wiring_mutual_thm. Qed.
Print Assumptions C03_wiring_mutual.

(* ---- layer 3: duplicates, all level assignments ---- *)

(* create_copies appends 2^level - 1 copies per original, contiguously; every copy index is in range and
   original_of is the inverse of "k-th copy of i". *)
Theorem C03_copy_indices : forall L lv, wf L lv ->
  Z.of_nat (length (all_ngbs L lv)) = total L lv /\
  total L lv = nsub L + zsum (map (fun l => 2 ^ l - 1) lv) /\
  (forall i k, 0 <= i < nsub L -> 1 <= k < 2 ^ lvl lv i ->
     nsub L <= first_copy L lv i + k - 1 < total L lv /\ original_of L lv (first_copy L lv i + k - 1) = i) /\
  (forall c, nsub L <= c < total L lv ->
     0 <= original_of L lv c < nsub L /\
     exists k, 1 <= k < 2 ^ lvl lv (original_of L lv c) /\ c = first_copy L lv (original_of L lv c) + k - 1) /\
  (forall i, 0 <= i < nsub L -> original_of L lv i = i).
Proof. exact copies_structure_thm. Qed.
Print Assumptions C03_copy_indices.

(* Every slot of every subgrid or copy is OUTSIDE or a valid index. *)
Theorem C03_slots_in_range : forall L lv s d, wf L lv -> 0 <= s < total L lv -> 0 <= d < 27 ->
  ngb_at L lv s d = OUTSIDE \/ 0 <= ngb_at L lv s d < total L lv.
Proof. exact slots_in_range_thm. Qed.
Print Assumptions C03_slots_in_range.

(* Every neighbour of a duplicate (or original) is a duplicate or the original of the true geometric neighbour;
   OUTSIDE is preserved. *)
Theorem C03_copy_neighbour_is_copy_of_true_neighbour : forall L lv s d, wf L lv -> 0 <= s < total L lv -> 1 <= d < 27 ->
  let o := original_of L lv s in
  0 <= o < nsub L /\
  (subgrid_ngb L o d = OUTSIDE -> ngb_at L lv s d = OUTSIDE) /\
  (subgrid_ngb L o d <> OUTSIDE ->
     0 <= ngb_at L lv s d < total L lv /\ original_of L lv (ngb_at L lv s d) = subgrid_ngb L o d).
Proof. exact copy_neighbour_thm. Qed.
Print Assumptions C03_copy_neighbour_is_copy_of_true_neighbour.

(* The INSIDE slot of every subgrid and every copy is its own index. *)
Theorem C03_self_slot : forall L lv s, wf L lv -> 0 <= s < total L lv -> ngb_at L lv s 0 = s.
Proof. exact self_slot_thm. Qed.
Print Assumptions C03_self_slot.

(* The loops of update_original_counters / update_copy_properties visit every copy exactly once, in index order,
   each paired with its own original, and visit nothing else. *)
Theorem C03_visits_exactly_once : forall L lv, wf L lv ->
  map snd (calls L lv) = zrange (nsub L) (length (originals L lv)) /\
  NoDup (map snd (calls L lv)) /\
  (forall ic, In ic (calls L lv) -> fst ic = original_of L lv (snd ic) /\ 0 <= fst ic < nsub L) /\
  (forall c, nsub L <= c < total L lv -> In (original_of L lv c, c) (calls L lv)).
Proof. exact calls_exact_thm. Qed.
Print Assumptions C03_visits_exactly_once.

(* Folding: the original ends with its own contribution plus that of each of its copies, once; copies are left
   unchanged; the sum over the originals afterwards is the sum over all subgrids before. *)
Theorem C03_fold_adds_each_copy_once : forall L lv vals, wf L lv ->
  let vals' := fold_counters L lv vals in
  map snd (calls L lv) = zrange (nsub L) (length (originals L lv)) /\
  (forall ic, In ic (calls L lv) -> fst ic = original_of L lv (snd ic)) /\
  (forall i, 0 <= i < nsub L -> vals' i = vals i + zsum (map vals (copies_of L lv i))) /\
  (forall c, nsub L <= c -> vals' c = vals c) /\
  zsum (map vals' (zrange 0 (Z.to_nat (nsub L)))) = zsum (map vals (zrange 0 (Z.to_nat (total L lv)))).
Proof. exact fold_thm. Qed.
Print Assumptions C03_fold_adds_each_copy_once.

(* Pushing: afterwards every copy carries the state of its original and zeroed counters; originals are untouched. *)
Theorem C03_push_reaches_every_copy : forall L lv st cn s, wf L lv -> 0 <= s < total L lv ->
  fst (push_state L lv (st, cn)) s = st (original_of L lv s) /\
  snd (push_state L lv (st, cn)) s = (if s <? nsub L then cn s else 0).
Proof. exact push_thm. Qed.
Print Assumptions C03_push_reaches_every_copy.

(* iterator::get_copies reports exactly the block of copies of an original. *)
Theorem C03_get_copies : forall L lv i, wf L lv -> 0 <= i < nsub L ->
  get_copies L lv i = if 0 <? lvl lv i then Some (first_copy L lv i, 2 ^ lvl lv i - 1) else None.
Proof. exact get_copies_thm. Qed.
Print Assumptions C03_get_copies.
