(* C03  Ray tracing does not depend on the subgrid layout -- all four layers of the design:
     1 direction tables, 3 neighbour wiring / duplicates / folding   (lemmas of Cxx/C03_Proofs.v, no axioms),
     2 hand-over lemma, 4 layout independence                         (lemmas of Cxx/C03_TraceProofs.v, over R).
   Only statements, each closed by [exact] of a lemma.
   gen_* are the tables REGENERATED from src/TravelDirections.hpp / src/DensitySubGrid.hpp on every run
   (Cxx/C03_Gen.v); offset_of_dir / dir_of_offset / mask_decode / ..._spec are the hand-written specification
   (Cxx/C03_Defs.v): a direction index is the encoding of an offset vector in {-1,0,1}^3 in the order of
   enum TravelDirection. *)
From Coq Require Import ZArith List Bool.
From Coq Require Import Reals Floats.
From CMI Require Import Cxx.C03_Defs Cxx.C03_Gen Cxx.C03_Proofs Cxx.C02_Defs Cxx.C02_Proofs Cxx.C03_TraceDefs Cxx.C03_TraceProofs.
Import ListNotations.
Local Open Scope Z_scope.

(* ---- layer 1: direction tables ---- *)

(* The enumerator values are exactly the spec's encoding of the offset their names spell; 27 directions;
   the OUTSIDE sentinel is 0xffffffff. *)
Theorem C03_enum_is_offset_encoding :
  gen_named = named_table_spec /\ gen_ndir = NDIR /\ gen_outside = OUTSIDE.
Proof. exact (conj gen_named_ok gen_constants). Qed.
Print Assumptions C03_enum_is_offset_encoding.

(* The encoding is a bijection between 0..26 and {-1,0,1}^3. *)
Theorem C03_offset_encoding_bijective :
  (forall d, 0 <= d < 27 -> dir_of_offset (offset_of_dir d) = d) /\
  (forall o, is_offset o -> 0 <= dir_of_offset o < 27 /\ offset_of_dir (dir_of_offset o) = o).
Proof. exact (conj dir_offset_dir offset_dir_offset). Qed.
Print Assumptions C03_offset_encoding_bijective.

(* output_to_input_direction stays in range, negates the offset vector and is an involution. *)
Theorem C03_out_to_in_involution_negates : forall d, 0 <= d < 27 ->
  0 <= tnth gen_out_to_in d < 27 /\
  offset_of_dir (tnth gen_out_to_in d) = vneg (offset_of_dir d) /\
  tnth gen_out_to_in (tnth gen_out_to_in d) = d.
Proof. exact out_to_in_thm. Qed.
Print Assumptions C03_out_to_in_involution_negates.

(* get_output_direction(mask): all 64 masks decode as the spec says, -1 is returned exactly for the masks with both
   bits of an axis set, decoding inverts the offset encoding, 37 masks are rejected. *)
Theorem C03_mask_decoding :
  length gen_mask = 64%nat /\
  (forall m, 0 <= m < 64 -> tnth gen_mask m = mask_decode m) /\
  (forall m, 0 <= m < 64 -> (tnth gen_mask m = -1 <-> mask_inconsistent m = true)) /\
  (forall o, is_offset o -> tnth gen_mask (mask_encode o) = dir_of_offset o) /\
  length (filter (fun v => v =? -1) gen_mask) = 37%nat.
Proof. exact (check_mask_sound _ gen_mask_checked). Qed.
Print Assumptions C03_mask_decoding.

(* DensitySubGrid::get_output_direction(three_index): every tabulated call returns the model's value, which is
   the direction whose offset classifies the index per axis (below 0 / inside / at or above ncell);
   and the model's mask arithmetic (C++ truncating division) is right for ALL cell counts >= 1 and all indices. *)
Theorem C03_exit_classification :
  Forall (fun e => let '(n1, n2, n3, i, j, k, d) := e in
                   d = exit_dir (n1, n2, n3) (i, j, k) /\ d = dir_of_offset (exit_class (n1, n2, n3) (i, j, k))) gen_exit /\
  (forall n1 n2 n3 i j k, 1 <= n1 -> 1 <= n2 -> 1 <= n3 ->
     exit_dir (n1, n2, n3) (i, j, k) = dir_of_offset (exit_class (n1, n2, n3) (i, j, k))).
Proof. exact (conj (check_exit_sound _ gen_exit_checked) exit_dir_class). Qed.
Print Assumptions C03_exit_classification.

(* is_compatible_output_direction holds exactly when every non-zero offset component has the sign of the direction
   component; is_compatible_input_direction exactly when it has the opposite sign (all 27 sign patterns x 27
   directions x 3 magnitudes); input compatibility = output compatibility of the opposite direction. *)
Theorem C03_compatibility :
  gen_compat = compat_table_spec /\
  (forall d s, 0 <= d < 27 -> is_offset s -> in_compat_spec d s = out_compat_spec (tnth gen_out_to_in d) s).
Proof. exact (conj gen_compat_ok (check_in_out_sound _ gen_in_out_checked)). Qed.
Print Assumptions C03_compatibility.

(* get_start_index / update_photon_position per input direction and axis: offset -1 -> first cell / lower face,
   +1 -> last cell / upper face, 0 -> computed index / coordinate untouched. *)
Theorem C03_entry_class : gen_entry = entry_table_spec.
Proof. exact gen_entry_ok. Qed.
Print Assumptions C03_entry_class.

(* Hand-over: what leaves through output direction d enters the neighbour through output_to_input_direction(d),
   where it is placed on the opposite face/edge/corner: per axis, leaving through the upper side means entering in the
   first cell on the lower face and vice versa; axes not crossed keep index and coordinate. *)
Theorem C03_handover_opposite_side : forall d n, 0 <= d < 27 -> In n [1; 3; 5] ->
  In (n, tnth gen_out_to_in d, entry_index n (vneg (offset_of_dir d)), entry_repos (vneg (offset_of_dir d))) gen_entry.
Proof. exact (check_handover_sound _ _ gen_handover_checked). Qed.
Print Assumptions C03_handover_opposite_side.

(* ---- layer 3: neighbour wiring, all layouts nx,ny,nz >= 1, all periodicity flags ---- *)

(* Slot d of subgrid idx after create_subgrid is the wrapped lattice neighbour in the direction spelled by d;
   it is OUTSIDE exactly when the box ends there on a non-periodic axis; otherwise a valid subgrid index. *)
Theorem C03_neighbour_is_lattice_neighbour : forall L idx d, wfL L -> 0 <= idx < nsub L -> 0 <= d < 27 ->
  let A := pos_of_index L idx in let o := offset_of_dir d in
  coords_ok L A /\ lin L A = idx /\
  subgrid_ngb L idx d = ngb_spec L A o /\
  (subgrid_ngb L idx d = OUTSIDE <-> box_ends L A o = true) /\
  (subgrid_ngb L idx d <> OUTSIDE -> 0 <= subgrid_ngb L idx d < nsub L).
Proof. exact wiring_lattice_thm. Qed.
Print Assumptions C03_neighbour_is_lattice_neighbour.

(* Mutual wiring, with the REAL output_to_input table: if A's neighbour through d is B, then B's neighbour through
   output_to_input_direction(d) is A (also when an axis has 1 or 2 subgrids and B = A or B is on both sides). *)
Theorem C03_wiring_mutual : forall L idx d, wfL L -> 0 <= idx < nsub L -> 0 <= d < 27 ->
  subgrid_ngb L idx d <> OUTSIDE ->
  0 <= subgrid_ngb L idx d < nsub L /\
  subgrid_ngb L (subgrid_ngb L idx d) (tnth gen_out_to_in d) = idx.
Proof. exact wiring_mutual_thm. Qed.
Print Assumptions C03_wiring_mutual.

(* ---- layer 3: duplicates, all level assignments ---- *)

(* create_copies appends 2^level - 1 copies per original, contiguously; every copy index is in range and
   original_of is the inverse of "k-th copy of i". *)
Theorem C03_copy_indices : forall L lv, wf L lv ->
  Z.of_nat (length (all_ngbs L lv)) = total L lv /\
  total L lv = nsub L + zsum (map (fun l => 2 ^ l - 1) lv) /\
  (forall i k, 0 <= i < nsub L -> 1 <= k < 2 ^ lvl lv i ->
     nsub L <= first_copy L lv i + k - 1 < total L lv /\ original_of L lv (first_copy L lv i + k - 1) = i) /\
  (forall c, nsub L <= c < total L lv ->
     0 <= original_of L lv c < nsub L /\
     exists k, 1 <= k < 2 ^ lvl lv (original_of L lv c) /\ c = first_copy L lv (original_of L lv c) + k - 1) /\
  (forall i, 0 <= i < nsub L -> original_of L lv i = i).
Proof. exact copies_structure_thm. Qed.
Print Assumptions C03_copy_indices.

(* Every slot of every subgrid or copy is OUTSIDE or a valid index. *)
Theorem C03_slots_in_range : forall L lv s d, wf L lv -> 0 <= s < total L lv -> 0 <= d < 27 ->
  ngb_at L lv s d = OUTSIDE \/ 0 <= ngb_at L lv s d < total L lv.
Proof. exact slots_in_range_thm. Qed.
Print Assumptions C03_slots_in_range.

(* Every neighbour of a duplicate (or original) is a duplicate or the original of the true geometric neighbour;
   OUTSIDE is preserved. *)
Theorem C03_copy_neighbour_is_copy_of_true_neighbour : forall L lv s d, wf L lv -> 0 <= s < total L lv -> 1 <= d < 27 ->
  let o := original_of L lv s in
  0 <= o < nsub L /\
  (subgrid_ngb L o d = OUTSIDE -> ngb_at L lv s d = OUTSIDE) /\
  (subgrid_ngb L o d <> OUTSIDE ->
     0 <= ngb_at L lv s d < total L lv /\ original_of L lv (ngb_at L lv s d) = subgrid_ngb L o d).
Proof. exact copy_neighbour_thm. Qed.
Print Assumptions C03_copy_neighbour_is_copy_of_true_neighbour.

(* The INSIDE slot of every subgrid and every copy is its own index. *)
Theorem C03_self_slot : forall L lv s, wf L lv -> 0 <= s < total L lv -> ngb_at L lv s 0 = s.
Proof. exact self_slot_thm. Qed.
Print Assumptions C03_self_slot.

(* The loops of update_original_counters / update_copy_properties visit every copy exactly once, in index order,
   each paired with its own original, and visit nothing else. *)
Theorem C03_visits_exactly_once : forall L lv, wf L lv ->
  map snd (calls L lv) = zrange (nsub L) (length (originals L lv)) /\
  NoDup (map snd (calls L lv)) /\
  (forall ic, In ic (calls L lv) -> fst ic = original_of L lv (snd ic) /\ 0 <= fst ic < nsub L) /\
  (forall c, nsub L <= c < total L lv -> In (original_of L lv c, c) (calls L lv)).
Proof. exact calls_exact_thm. Qed.
Print Assumptions C03_visits_exactly_once.

(* Folding: the original ends with its own contribution plus that of each of its copies, once; copies are left
   unchanged; the sum over the originals afterwards is the sum over all subgrids before. *)
Theorem C03_fold_adds_each_copy_once : forall L lv vals, wf L lv ->
  let vals' := fold_counters L lv vals in
  map snd (calls L lv) = zrange (nsub L) (length (originals L lv)) /\
  (forall ic, In ic (calls L lv) -> fst ic = original_of L lv (snd ic)) /\
  (forall i, 0 <= i < nsub L -> vals' i = vals i + zsum (map vals (copies_of L lv i))) /\
  (forall c, nsub L <= c -> vals' c = vals c) /\
  zsum (map vals' (zrange 0 (Z.to_nat (nsub L)))) = zsum (map vals (zrange 0 (Z.to_nat (total L lv)))).
Proof. exact fold_thm. Qed.
Print Assumptions C03_fold_adds_each_copy_once.

(* Pushing: afterwards every copy carries the state of its original and zeroed counters; originals are untouched. *)
Theorem C03_push_reaches_every_copy : forall L lv st cn s, wf L lv -> 0 <= s < total L lv ->
  fst (push_state L lv (st, cn)) s = st (original_of L lv s) /\
  snd (push_state L lv (st, cn)) s = (if s <? nsub L then cn s else 0).
Proof. exact push_thm. Qed.
Print Assumptions C03_push_reaches_every_copy.

(* iterator::get_copies reports exactly the block of copies of an original. *)
Theorem C03_get_copies : forall L lv i, wf L lv -> 0 <= i < nsub L ->
  get_copies L lv i = if 0 <? lvl lv i then Some (first_copy L lv i, 2 ^ lvl lv i - 1) else None.
Proof. exact get_copies_thm. Qed.
Print Assumptions C03_get_copies.

(* ================================================================================================================
   layers 2 and 4: a packet traced through a grid that is split into subgrids (Cxx/C03_TraceDefs.v: the loop of
   PhotonTraversalTaskContext::execute for one packet around C02's model of DensitySubGrid::interact; geometry of the
   subgrids as DensitySubGridCreator computes it; get_subgrid(position) for the first subgrid).  Real-number instance;
   the binary64 instance of the same definitions is compared bit for bit with the real code on every run.

   traceR L A S gc fuel ph   the trace of source packet ph through layout L of the box (anchor A, sides S) whose global
                             cell I has contents gc I; neighbour table = the wiring model of layer 3 (subgrid_ngb L),
                             output->input table = the REGENERATED table gen_out_to_in of layer 1.
   source_ok L A S gc ph     wfL L; sides > 0; densities, neutral fractions, cross sections >= 0; target optical depth > 0;
                             some direction component d_j <> 0 with cell_size_j / |d_j| < DBL_MAX (C02's premise);
                             the packet starts in the half-open box: A <= position < A + S on every axis (on the upper
                             face get_subgrid returns an index outside the grid).
   same_grid L1 L2           same number of cells of the whole grid and same periodicity flag on every axis.
   tcred L steps C           total length handed to update_intensity_counters, over all interact calls of the trace, for
                             cells that ARE global cell C (subgrid lattice position * cells per subgrid + local index);
                             by C02_estimators_exact every estimator of a cell grows by weight * sigma * this length.
   EFuel                     the trace did not end within the given number of interact calls (the real loop has no bound;
                             C03_termination_transfer: the calls needed are bounded independently of the layout).
   ================================================================================================================ *)
Local Open Scope R_scope.

(* ---- layer 2: the hand-over lemma ----
   For every two consecutive interact calls s1, s2 of a trace [chain (handover_ok ...)]: with o = the direction s1
   returned, off = its offset vector, j1/j2 the lattice positions of the two subgrids:
     s2 runs in get_neighbour(o) of s1's subgrid with input direction output_to_input_direction(o); it receives the
     packet position and the remaining optical depth exactly as s1 left them, and that depth is > 0;
     per axis a:  off_a says how s1's final index left the range (exit_sign);  j2 = j1 + off (mod the number of
     subgrids; without the mod on a non-periodic axis);
       SAME PHYSICAL POINT: start position relative to j2's anchor + j2's anchor
                            = exit position - (number of box periods wrapped: (j1+off) div m, in {-1,0,1}) * box side;
       START CELL [ho_axis]: it is a cell of the subgrid, contains the start point, and
         either its index is the exit index minus off * (cells per subgrid) -- the adjacent cell across the crossed
           plane, resp. the same cell on an axis that is not crossed -- and the ray continues strictly inside the
           half-open cell in its direction of travel,
         or (tie) the axis is not crossed, the direction component is negative and the point lies exactly on a cell
           wall: truncation selects the cell above the wall (index + 1); the first iteration there has length zero
           (this needs that wall to be reached together with the crossed plane: an edge/corner-like event). *)
Theorem C03_handover_same_point_adjacent_cell_same_depth : forall L A S gc ph fuel, source_ok L A S gc ph ->
  tr_end (traceR L A S gc fuel ph) <> EFuel ->
  chain (handover_ok L A S (p_dir ph)) (tr_steps (traceR L A S gc fuel ph)).
Proof. exact trace_handover. Qed.
Print Assumptions C03_handover_same_point_adjacent_cell_same_depth.

(* ---- layer 4: every layout is a chunking of ONE reference march ----
   The reference (rstep/rcond in Cxx/C03_TraceProofs.v) is the loop of interact on the undivided, periodically unfolded
   lattice of global cells: state = position relative to A, unfolded cell index I (cell contents gc (I mod N)), optical
   depth done, visits; it ends when the target is reached or a NON-periodic index leaves [0,N).  ref_reach ... Gf: Gf is
   the final state of that march for the packet.  The trace ends absorbed/escaped as the reference does, with the same
   remaining depth, at the reference position folded back into the box by the period of the last visited cell, and
   credits to every global cell what the reference credits. *)
Theorem C03_trace_refines_reference : forall L A S gc ph fuel, source_ok L A S gc ph ->
  let tr := traceR L A S gc fuel ph in
  tr_end tr <> EFuel ->
  exists Gf, ref_reach L A S gc ph Gf /\
    ((tr_end tr = EAbsorbed /\ p_tau ph <= rs_tau Gf) \/ (tr_end tr = EEscaped /\ rs_tau Gf < p_tau ph)) /\
    tr_tau tr = p_tau ph - rs_tau Gf /\
    (exists Il len rest, rs_vis Gf = (Il, len) :: rest /\
       forall a, vg a (tr_pos tr) - vg a A = vg a (rs_pos Gf) - IZR (ig a Il / NN L a) * vg a S) /\
    (forall C, tcred L (tr_steps tr) C = rcred L (rs_vis Gf) C).
Proof. exact trace_refines_reference. Qed.
Print Assumptions C03_trace_refines_reference.

(* the reference march is deterministic: at most one final state *)
Theorem C03_reference_deterministic : forall csv d target kapg insideg s x y,
  rreach csv d target kapg insideg s x -> rcond target insideg x = false ->
  rreach csv d target kapg insideg s y -> rcond target insideg y = false -> x = y.
Proof. exact rreach_final_unique. Qed.
Print Assumptions C03_reference_deterministic.

(* LAYOUT INDEPENDENCE, full statement: for any two layouts of the same global grid (any numbers of subgrids per axis
   dividing the cell counts, incl. 1 and 2 subgrids on a periodic axis), the same box, the same cell contents and the
   same source packet: the escape/absorption decision, the end position (absorption position, resp. point where the box
   is left), the remaining optical depth and the length credited to EVERY global cell are equal.  No genericity
   condition on the ray: zero direction components, rays inside cell-face planes, rays through cell edges and corners
   and starts on walls are included (in exact arithmetic the only layout dependent event, the tie of layer 2, costs a
   zero-length iteration). *)
Theorem C03_layout_independence : forall L1 L2 A S gc ph fuel1 fuel2,
  source_ok L1 A S gc ph -> wfL L2 -> same_grid L1 L2 ->
  let tr1 := traceR L1 A S gc fuel1 ph in let tr2 := traceR L2 A S gc fuel2 ph in
  tr_end tr1 <> EFuel -> tr_end tr2 <> EFuel ->
  tr_end tr1 = tr_end tr2 /\ tr_pos tr1 = tr_pos tr2 /\ tr_tau tr1 = tr_tau tr2 /\
  forall C, tcred L1 (tr_steps tr1) C = tcred L2 (tr_steps tr2) C.
Proof. exact layout_independence. Qed.
Print Assumptions C03_layout_independence.

(* in particular against the undivided grid (1 x 1 x 1 subgrids holding all cells; with periodic axes it is its own
   neighbour) *)
Theorem C03_split_equals_undivided : forall L A S gc ph fuel1 fuel2, source_ok L A S gc ph ->
  let tr1 := traceR L A S gc fuel1 ph in let tr2 := traceR (undivided L) A S gc fuel2 ph in
  tr_end tr1 <> EFuel -> tr_end tr2 <> EFuel ->
  tr_end tr1 = tr_end tr2 /\ tr_pos tr1 = tr_pos tr2 /\ tr_tau tr1 = tr_tau tr2 /\
  forall C, tcred L (tr_steps tr1) C = tcred (undivided L) (tr_steps tr2) C.
Proof. exact split_equals_undivided. Qed.
Print Assumptions C03_split_equals_undivided.

(* ending at all does not depend on the layout either: if the trace ends in one layout, it ends in every other layout
   of the same grid within n+1 interact calls, n = number of reference steps *)
Theorem C03_termination_transfer : forall L1 L2 A S gc ph fuel1,
  source_ok L1 A S gc ph -> wfL L2 -> same_grid L1 L2 ->
  tr_end (traceR L1 A S gc fuel1 ph) <> EFuel ->
  exists n, forall fuel2, (n < fuel2)%nat -> tr_end (traceR L2 A S gc fuel2 ph) <> EFuel.
Proof. exact termination_transfer. Qed.
Print Assumptions C03_termination_transfer.

(* duplicated subgrids (ties layer 3 to layer 4; every scalar instance, binary64 included): a trace that runs through
   copies -- geometry and cell contents of the original, the copy's own neighbour table -- makes the same interact calls
   with the same results as the trace through the originals; only the subgrid receiving the estimators differs, and it
   is a copy of the right original (folding adds it back exactly once: C03_fold_adds_each_copy_once). *)
Theorem C03_trace_through_copies : forall (T : Type) (Op : Ops T) L lv (A S : vec T) o2i cells, wf L lv ->
  forall fuel sub input ph, (0 <= sub < total L lv)%Z ->
  let t1 := trace Op L A S (original_of L lv) (ngb_at L lv) o2i cells fuel sub input ph in
  let t2 := trace Op L A S (fun s => s) (subgrid_ngb L) o2i cells fuel (original_of L lv sub) input ph in
  tr_end t1 = tr_end t2 /\ tr_pos t1 = tr_pos t2 /\ tr_tau t1 = tr_tau t2 /\
  map (step_to_original L lv) (tr_steps t1) = tr_steps t2.
Proof. exact @trace_copies. Qed.
Print Assumptions C03_trace_through_copies.

(* ---- the premises are satisfiable; an executable instance of the tie ---- *)
Theorem C03_premises_satisfiable : source_ok ex_L ex_A ex_S ex_gc ex_ph /\ same_grid ex_L (undivided ex_L) /\ wfL (undivided ex_L).
Proof. exact (conj ex_source_ok ex_same_grid). Qed.
Print Assumptions C03_premises_satisfiable.

(* binary64, 4 x 2 x 1 cells as 2 x 1 x 1 subgrids, from (1.5,1.5,0.5) along (1,-1,0): the packet reaches the subgrid face
   x = 2 and the cell wall y = 1 together; it is handed over FACE_X_P -> FACE_X_N, starts in the cell above the wall
   (cell 1), makes a zero-length iteration there and continues in cell 0; end, position and remaining depth equal those
   of the undivided grid (all values exactly representable) *)
Theorem C03_example_tie_handover :
  (let t1 := f_trace_packet fx_L (mkV 0 0 0) (mkV 4 2 1) gen_out_to_in fx_cells 10%nat fx_ph in
  let t2 := f_trace_packet (undivided fx_L) (mkV 0 0 0) (mkV 4 2 1) gen_out_to_in fx_cells 10%nat fx_ph in
  tr_end t1 = EEscaped /\ tr_end t2 = EEscaped /\ tr_pos t1 = tr_pos t2 /\ tr_tau t1 = tr_tau t2 /\
  fx_view t1 = [(0%Z, INSIDE, FACE_X_P, [(3%Z, 0.5)]); (1%Z, FACE_X_N, FACE_Y_N, [(1%Z, -0); (0%Z, 1)])] /\
  fx_view t2 = [(0%Z, INSIDE, FACE_Y_N, [(3%Z, 0.5); (4%Z, 1)])])%float.
Proof. exact f_tie_handover. Qed.
Print Assumptions C03_example_tie_handover.
