(* C02  A packet crossing a subgrid deposits exactly its geometric path.
   Only statements, each closed by [exact] of a lemma of Cxx/C02_Proofs.v.

   The model (Cxx/C02_Defs.v) is one transcription of DensitySubGrid::interact over an abstract
   scalar; [ROps] instantiates it with real numbers (these theorems), [FOps] with binary64 (the
   instance that is run against the real code, bit for bit, on every check).

   Common premise [good anchor sides n cells ph input]:
     every cell count >= 1, every box side > 0, input is one of the 27 TravelDirection codes,
     every coordinate the entry classification does not fix starts inside the closed box,
     densities / neutral fractions / the two cross sections that enter the opacity are >= 0,
     target optical depth > 0, and some direction component d_j is non-zero with
     cell_size_j / |d_j| < DBL_MAX (so the DBL_MAX placeholder of a zero component never wins the
     minimum; true for every unit direction and cell sizes below 1e308 / sqrt 3).
   Neither a unit direction nor compatibility of the direction with the entry classification is
   needed.  [start_rel] is the start of the path relative to the anchor after
   update_photon_position (fixed coordinates are put on their plane). *)
From Coq Require Import ZArith List Bool Floats Reals.
From CMI Require Import Cxx.C02_Defs Cxx.C02_Proofs.
Import ListNotations.
Local Open Scope R_scope.

(* --- tables ------------------------------------------------------------------------------- *)
(* For each of the 27 entry codes the switch of update_photon_position, the three if-chains of
   get_x/y/z_index and is_compatible_input_direction agree with each other and with the
   documented meaning of the code (decode). *)
Theorem C02_tables_entry : forall input, (0 <= input < 27)%Z -> entry_tables_ok input.
Proof. exact entry_tables. Qed.
Print Assumptions C02_tables_entry.

(* get_output_direction: for every three_index the mask is one of the 27 table entries, and the
   code returned means exactly "below range / in range / above range" per axis. *)
Theorem C02_tables_exit : forall n i, (forall a, (1 <= ig a n)%Z) ->
  exists o, output_direction n i = Some o /\
            decode o = Some (exit_sign (ix n) (ix i), exit_sign (iy n) (iy i), exit_sign (iz n) (iz i)).
Proof. exact exit_table. Qed.
Print Assumptions C02_tables_exit.

(* --- step lemmas -------------------------------------------------------------------------- *)
(* one coordinate: a move of length len not beyond the wall ahead ends at p + len*d, inside the
   closed cell (the "snap to the wall" branch included) *)
Theorem C02_step_1d : forall l len d lo hi p, lo <= p <= hi -> 0 <= len ->
  l = wall ROps d (1 / d) lo hi p -> (d <> 0 -> len <= l) -> (d = 0 -> len < l) ->
  let p' := newpos1 ROps l len d lo hi p in
  p' = p + len * d /\ lo <= p' <= hi.
Proof. exact newpos_spec. Qed.
Print Assumptions C02_step_1d.

(* three coordinates, an iteration that does not reach the target: invariant kept, the minimum
   wall distance is credited to the active cell, at least one axis attains the minimum, EVERY
   axis attaining it moves one cell in the direction of travel and sits on that wall, the others
   stay strictly before their wall *)
Theorem C02_step_3d_moving :
  forall (b : block R) (d : vec R) (target : R) (od : Z -> R -> R) (kap : Z -> R) (p0 : vec R),
  (forall a, 0 < vg a (b_cs b)) -> (forall c l, od c l = kap c * l) ->
  (exists j, vg j d <> 0 /\ vg j (b_cs b) < RDBLMAX * Rabs (vg j d)) ->
  forall st, Inv b d target kap p0 st -> cond ROps b target st = true -> ~ absorbing b d target od st ->
  let st' := step ROps b d (invdR d) target od st in
  Inv b d target kap p0 st' /\ m_tau st' < target /\
  m_vis st' = (m_cell st, lmin_of ROps (walls ROps b d (invdR d) st)) :: m_vis st /\
  (exists a, moved b d st a) /\
  forall a,
    (moved b d st a -> vg a d <> 0 /\
        ig a (m_idx st') = (ig a (m_idx st) + (if Rltb 0 (vg a d) then 1 else -1))%Z /\
        vg a (m_pos st') = (if Rltb 0 (vg a d) then hi b a st else lo b a st)) /\
    (~ moved b d st a -> ig a (m_idx st') = ig a (m_idx st) /\
        (0 < vg a d -> vg a (m_pos st') < hi b a st) /\ (vg a d < 0 -> lo b a st < vg a (m_pos st')) /\
        (vg a d = 0 -> vg a (m_pos st') = vg a (m_pos st))).
Proof. exact step_moving. Qed.
Print Assumptions C02_step_3d_moving.

(* the iteration that reaches the target: index unchanged, a length 0 < len <= lmin credited *)
Theorem C02_step_3d_absorbing :
  forall (b : block R) (d : vec R) (target : R) (od : Z -> R -> R) (kap : Z -> R) (p0 : vec R),
  (forall c l, od c l = kap c * l) -> (forall c, 0 <= kap c) ->
  (exists j, vg j d <> 0 /\ vg j (b_cs b) < RDBLMAX * Rabs (vg j d)) ->
  forall st, Inv b d target kap p0 st -> cond ROps b target st = true -> absorbing b d target od st ->
  let st' := step ROps b d (invdR d) target od st in
  Inv b d target kap p0 st' /\ target <= m_tau st' /\ m_idx st' = m_idx st /\
  exists len, 0 < len <= lmin_of ROps (walls ROps b d (invdR d) st) /\ m_vis st' = (m_cell st, len) :: m_vis st.
Proof. exact step_absorbing. Qed.
Print Assumptions C02_step_3d_absorbing.

(* --- the march ---------------------------------------------------------------------------- *)
(* march_invariant: in every state the loop passes through (Inv, see Cxx/C02_Proofs.v):
   position inside the closed cell of the current three_index; every index in [-1, n];
   position = start + (sum of credited lengths) * direction; every credited length >= 0;
   while the target is not reached tau_done = sum kappa(cell) * length, once it is reached that
   sum equals the target; active_cell is the one-index of three_index. *)
Theorem C02_march_invariant : forall anchor sides n cells ph input, good anchor sides n cells ph input ->
  forall x,
    reach (make_block ROps anchor sides n) (p_dir ph) (p_tau ph) (optical_depth_of ROps cells ph)
          (start_state anchor sides n ph input) x ->
    Inv (make_block ROps anchor sides n) (p_dir ph) (p_tau ph) (kappa cells ph)
        (m_pos (start_state anchor sides n ph input)) x.
Proof. exact march_invariant_thm. Qed.
Print Assumptions C02_march_invariant.

(* the loop state interact ends in is such a state, the loop condition is false there, and the
   start state is the repositioned start with nothing credited *)
Theorem C02_final_state_reached : forall anchor sides n cells ph input r, good anchor sides n cells ph input ->
  interact ROps (make_block ROps anchor sides n) cells ph input = Ok r ->
  reach (make_block ROps anchor sides n) (p_dir ph) (p_tau ph) (optical_depth_of ROps cells ph)
        (start_state anchor sides n ph input) (r_fin r) /\
  cond ROps (make_block ROps anchor sides n) (p_tau ph) (r_fin r) = false /\
  (forall a, vg a (m_pos (start_state anchor sides n ph input)) = vg a (start_rel anchor sides ph input)) /\
  m_tau (start_state anchor sides n ph input) = 0 /\ m_vis (start_state anchor sides n ph input) = [].
Proof. exact final_reached_thm. Qed.
Print Assumptions C02_final_state_reached.

(* fuel_suffices: with fuel nx+ny+nz+1 the call returns normally (no ErrFuel, ErrInput, ErrMask);
   each iteration that does not reach the target lowers sum over axes of "cells still ahead" *)
Theorem C02_fuel_suffices : forall anchor sides n cells ph input, good anchor sides n cells ph input ->
  exists r, interact ROps (make_block ROps anchor sides n) cells ph input = Ok r.
Proof. exact fuel_suffices_thm. Qed.
Print Assumptions C02_fuel_suffices.

Theorem C02_measure_decreases :
  forall (b : block R) (d : vec R) (target : R) (od : Z -> R -> R) (kap : Z -> R) (p0 : vec R),
  (forall a, 0 < vg a (b_cs b)) -> (forall c l, od c l = kap c * l) ->
  (exists j, vg j d <> 0 /\ vg j (b_cs b) < RDBLMAX * Rabs (vg j d)) ->
  forall st, Inv b d target kap p0 st -> cond ROps b target st = true -> ~ absorbing b d target od st ->
  (measure b d (step ROps b d (invdR d) target od st) <= measure b d st - 1)%Z.
Proof. exact measure_decreases. Qed.
Print Assumptions C02_measure_decreases.

(* final position = start + S*d (+ anchor), S = sum of the credited lengths >= 0, every length
   >= 0, final position inside the closed cell of the final three_index *)
Theorem C02_final_position : forall anchor sides n cells ph input, good anchor sides n cells ph input ->
  forall r, interact ROps (make_block ROps anchor sides n) cells ph input = Ok r ->
  (forall a, vg a (r_pos r) = vg a (start_rel anchor sides ph input) + vg a anchor + sumlen (r_vis r) * vg a (p_dir ph)) /\
  Forall (fun v => 0 <= snd v) (r_vis r) /\ 0 <= sumlen (r_vis r) /\
  (forall a, IZR (ig a (m_idx (r_fin r))) * (vg a sides / IZR (ig a n)) <= vg a (r_pos r) - vg a anchor
             <= (IZR (ig a (m_idx (r_fin r))) + 1) * (vg a sides / IZR (ig a n))).
Proof. exact final_position. Qed.
Print Assumptions C02_final_position.

(* every update_intensity_counters call of the march is made for a cell of the block (the
   one-index of an in-range three_index; by the invariant the cell that contains the position) *)
Theorem C02_visits_are_cells : forall anchor sides n cells ph input, good anchor sides n cells ph input ->
  forall r, interact ROps (make_block ROps anchor sides n) cells ph input = Ok r ->
  Forall (fun v => exists i, is_inside n i = true /\ fst v = one_index n i) (r_vis r).
Proof. exact visits_are_cells. Qed.
Print Assumptions C02_visits_are_cells.

(* path_sum: (sum of credited lengths) * |d| = |end - start|; for a unit direction the sum IS
   the straight-line distance travelled *)
Theorem C02_path_sum : forall anchor sides n cells ph input, good anchor sides n cells ph input ->
  forall r, interact ROps (make_block ROps anchor sides n) cells ph input = Ok r ->
  vnorm (vsub ROps (r_pos r) (vadd ROps (start_rel anchor sides ph input) anchor)) = sumlen (r_vis r) * vnorm (p_dir ph) /\
  (vnorm (p_dir ph) = 1 ->
   vnorm (vsub ROps (r_pos r) (vadd ROps (start_rel anchor sides ph input) anchor)) = sumlen (r_vis r)).
Proof. exact path_sum_thm. Qed.
Print Assumptions C02_path_sum.

(* tau_sum: kappa(cell) = n * (sigma_H * x_H + sigma_He * x_He).  Stopped inside: the credited
   lengths carry exactly the target optical depth (the packet's stored remaining depth is then
   target - tau_done <= 0).  Left the block: the optical depth used up, target - remaining, is
   the sum over the visits of kappa * length, and the remaining depth is > 0. *)
Theorem C02_tau_sum : forall anchor sides n cells ph input, good anchor sides n cells ph input ->
  forall r, interact ROps (make_block ROps anchor sides n) cells ph input = Ok r ->
  (r_out r = INSIDE -> sumtau (kappa cells ph) (r_vis r) = p_tau ph /\ r_tau r <= 0) /\
  (r_out r <> INSIDE -> sumtau (kappa cells ph) (r_vis r) = p_tau ph - r_tau r /\ 0 < r_tau r).
Proof. exact tau_sum_thm. Qed.
Print Assumptions C02_tau_sum.

(* stops_iff_reached: INSIDE is returned exactly when the partial sums reach the target, and then
   the final three_index is a cell of the block; otherwise the sum stays below the target and
   the final three_index is out of range *)
Theorem C02_stops_iff_reached : forall anchor sides n cells ph input, good anchor sides n cells ph input ->
  forall r, interact ROps (make_block ROps anchor sides n) cells ph input = Ok r ->
  (r_out r = INSIDE <-> sumtau (kappa cells ph) (r_vis r) = p_tau ph) /\
  (r_out r = INSIDE -> is_inside n (m_idx (r_fin r)) = true) /\
  (r_out r <> INSIDE -> sumtau (kappa cells ph) (r_vis r) < p_tau ph /\ is_inside n (m_idx (r_fin r)) = false).
Proof. exact stops_iff_thm. Qed.
Print Assumptions C02_stops_iff_reached.

(* estimators_exact: after the update_intensity_counters calls vis (any list), for every cell c,
   with L = total length credited to c: both heating terms grow by w * sigma * L * (nu - nu0),
   every mean intensity by w * sigma_ion * L (arrays of equal length), and a cell that is not in
   the list keeps all its estimators *)
Theorem C02_estimators_exact : forall (ph : photon R) (vis : list (Z * R)) (store : Z -> est R) (c : Z),
  let fin := deposit_all ROps ph store vis c in
  e_hH fin = e_hH (store c) + p_weight ph * nth 0 (p_sigma ph) 0 * len_in c vis * (p_energy ph - IZR 3288000000000000) /\
  e_hHe fin = e_hHe (store c) + p_weight ph * nth 1 (p_sigma ph) 0 * len_in c vis * (p_energy ph - IZR 5948000000000000) /\
  (length (e_J (store c)) = length (p_sigma ph) ->
     e_J fin = map2 Rplus (e_J (store c)) (map (fun s => p_weight ph * s * len_in c vis) (p_sigma ph))) /\
  ((forall v, In v vis -> fst v <> c) -> fin = store c).
Proof. exact estimators_exact_thm. Qed.
Print Assumptions C02_estimators_exact.

(* --- exit geometry ------------------------------------------------------------------------ *)
(* exit_is_geometric.  Extra premise: a coordinate the entry classification does not fix starts
   strictly below the upper plane of the box.  If the packet is not stopped inside, with
   S = total credited length and the straight line start + s*d: per axis either the index left
   the range upward, d > 0 and the line is ON the upper plane at s = S; or downward, d < 0, ON the
   lower plane; or the index is in range and the line has not reached that axis' exit plane at
   s = S.  The final position is start + S*d, some axis left, and the returned code is the table
   entry of exactly that below/in/above pattern. *)
Theorem C02_exit_is_geometric : forall anchor sides n cells ph input, good anchor sides n cells ph input ->
  (forall a, kg a (kinds_of input) = KCompute -> vg a (p_pos ph) - vg a anchor < vg a sides) ->
  forall r, interact ROps (make_block ROps anchor sides n) cells ph input = Ok r -> r_out r <> INSIDE ->
  let S := sumlen (r_vis r) in
  let srel := start_rel anchor sides ph input in
  let d := p_dir ph in let i := m_idx (r_fin r) in
  0 <= S /\
  (forall a,
     (ig a i = ig a n /\ 0 < vg a d /\ vg a srel + S * vg a d = vg a sides) \/
     (ig a i = (-1)%Z /\ vg a d < 0 /\ vg a srel + S * vg a d = 0) \/
     ((0 <= ig a i < ig a n)%Z /\ (0 < vg a d -> vg a srel + S * vg a d < vg a sides) /\
      (vg a d < 0 -> 0 < vg a srel + S * vg a d) /\ 0 <= vg a srel + S * vg a d <= vg a sides)) /\
  (forall a, vg a (r_pos r) = vg a srel + S * vg a d + vg a anchor) /\
  (exists a, ~ (0 <= ig a i < ig a n)%Z) /\
  decode (r_out r) = Some (exit_sign (ix n) (ix i), exit_sign (iy n) (iy i), exit_sign (iz n) (iz i)).
Proof. exact exit_is_geometric_thm. Qed.
Print Assumptions C02_exit_is_geometric.

(* hence S is where the straight line leaves the block: inside the closed box for 0 <= s <= S,
   outside for every s > S *)
Theorem C02_first_exit : forall anchor sides n cells ph input, good anchor sides n cells ph input ->
  (forall a, kg a (kinds_of input) = KCompute -> vg a (p_pos ph) - vg a anchor < vg a sides) ->
  forall r, interact ROps (make_block ROps anchor sides n) cells ph input = Ok r -> r_out r <> INSIDE ->
  let S := sumlen (r_vis r) in
  let srel := start_rel anchor sides ph input in
  let d := p_dir ph in
  (forall s a, 0 <= s <= S -> 0 <= vg a srel + s * vg a d <= vg a sides) /\
  (forall s, S < s -> exists a, vg a srel + s * vg a d < 0 \/ vg a sides < vg a srel + s * vg a d).
Proof. exact first_exit_thm. Qed.
Print Assumptions C02_first_exit.

(* The extra premise is needed: for a start ON the upper plane the claim is false (binary64
   instance, exactly representable values, the same input is replayed on the real code by the
   check: unit block, position (1, 0.5, 0.5), direction (-1, 0, 0), classified INSIDE) *)
Theorem C02_exit_upper_boundary_refuted :
  exists b cells ph r, f_interact b cells ph INSIDE = Ok r /\
    PrimFloat.ltb (vx (p_dir ph)) 0%float = true /\
    PrimFloat.eqb (vx (p_pos ph)) 1%float = true /\ b = fx_block1 /\
    r_out r = FACE_X_P /\ r_vis r = [] /\ r_pos r = p_pos ph.
Proof. exact exit_upper_boundary_refuted_thm. Qed.
Print Assumptions C02_exit_upper_boundary_refuted.

(* --- the premises are satisfiable --------------------------------------------------------- *)
Theorem C02_premises_satisfiable_corner_start : good ex_anchor ex_sides ex_n ex_cells ex_corner CORNER_NNN.
Proof. exact good_corner. Qed.
Print Assumptions C02_premises_satisfiable_corner_start.

Theorem C02_premises_satisfiable_axis_aligned : good ex_anchor ex_sides ex_n ex_cells ex_axis INSIDE.
Proof. exact good_axis_aligned. Qed.
Print Assumptions C02_premises_satisfiable_axis_aligned.

Theorem C02_example_corner_to_corner_target_beyond_total :
  exists r, f_interact fx_block2 fx_cells (mkP (mkV 0 0 0) (mkV fx_r3 fx_r3 fx_r3) 100 [1; 1] 4e15 1)%float CORNER_NNN = Ok r /\
            r_out r = CORNER_PPP /\ map fst (r_vis r) = [0; 7]%Z /\ r_pos r = (mkV 2 2 2)%float /\
            PrimFloat.ltb 0%float (r_tau r) = true.
Proof. exact f_corner_to_corner. Qed.
Print Assumptions C02_example_corner_to_corner_target_beyond_total.

Theorem C02_example_axis_aligned_exact_target :
  exists r, f_interact fx_block2 fx_cells (mkP (mkV 0.5 0.5 0.5) (mkV 1 0 0) 0.25 [1; 1] 4e15 1)%float INSIDE = Ok r /\
            r_out r = INSIDE /\ r_vis r = [(0%Z, 0.5%float)] /\ r_pos r = (mkV 1 0.5 0.5)%float /\ r_tau r = 0%float.
Proof. exact f_axis_aligned_exact_target. Qed.
Print Assumptions C02_example_axis_aligned_exact_target.
