From Coq Require Import ZArith List Extraction ExtrOcamlBasic.
From CMI Require Import Cxx.C03_Defs.
Extraction "c03_model.ml" all_ngbs originals copies_arr get_copies calls apply_fold apply_push total nsub original_of
  dir_of_offset offset_of_dir Z.of_nat Z.to_nat.
