From Coq Require Import QArith List Extraction ExtrOcamlBasic.
From CMI Require Import Cxx.C15_Defs.
Extraction "c15_model.ml" check_cell check_cell_eps nearest_check nearest_check_slack witness_check neighbour_symmetric_check farkas_check.
