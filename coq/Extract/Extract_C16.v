From Coq Require Import ZArith Extraction ExtrOcamlBasic.
From CMI Require Import Cxx.C16_Defs.
Extraction "c16_model.ml" uniform ncells depth grid_first_key grid_next_key grid_enumerate grid_get_key
  grid_cell_of_key grid_refine gleaves gcode gcell_box volume morton demorton long_index indices cell_index
  cell_lo cell_hi neighbours wrap_axis Z.of_nat Z.to_nat.
