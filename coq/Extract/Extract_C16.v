From Coq Require Import ZArith Extraction ExtrOcamlBasic.
From CMI Require Import Cxx.C16_Defs.
Extraction "c16_model.ml" uniform ncells depth grid_first_key grid_next_key grid_enumerate grid_get_key
  grid_cell_of_key grid_refine gleaves gcode gcell_box volume morton demorton long_index indices cell_index
  cell_lo cell_hi neighbours wrap_axis Z.of_nat Z.to_nat.
(* traversal clauses: binary64 instances of the interact models (PrimFloat -> OCaml floats) *)
From Coq Require Import Floats ExtrOCamlFloats ExtrOCamlInt63.
From CMI Require Import Cxx.C02_Defs Cxx.C16_InteractDefs.
Extraction "c16i_model.ml" f_make_cgrid f_cart_interact f_cart_J f_amr_interact f_box_of f_amr_locate f_deposit_J cref_key
  C16_Defs.uniform C16_Defs.refine C16_Defs.leaves C16_Defs.code Z.of_nat Z.to_nat.
