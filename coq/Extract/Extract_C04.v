From Coq Require Import ZArith Floats Extraction ExtrOcamlBasic ExtrOCamlFloats ExtrOCamlInt63.
From CMI Require Import Common.Scalar Cxx.C05_Defs Cxx.C04_Defs Cxx.C04_FluxDefs.
(* binary64 instance; the Riemann solver parameter is C05's model of HLLCRiemannSolver::solve_for_flux (repaired sites, face at rest) *)
Definition f_riemann (pw : float -> float -> float) (cst : Z -> Z -> float) (gamma : float) :=
  let c := mk_consts float (FOps pw cst) gamma in
  fun rhoL uL PL rhoR uR PR n => hllc_flux float (FOps pw cst) c false false rhoL uL PL rhoR uR PR n (vzero float (FOps pw cst)).
Definition f_pair_flux pw cst gamma := pair_flux_ff float (FOps pw cst) (f_riemann pw cst gamma) gamma.
Definition f_ghost_flux pw cst gamma := ghost_flux_ff float (FOps pw cst) (f_riemann pw cst gamma) gamma.
Definition f_bump pw cst := bump float (FOps pw cst).
Definition f_update pw cst dblmax := update_conserved float (FOps pw cst) dblmax.
Definition f_setprim pw cst := set_primitive float (FOps pw cst).
Extraction "c04_model.ml" f_pair_flux f_ghost_flux f_bump f_update f_setprim global_visits gface global_faces canonical_faces faces_once_check.
