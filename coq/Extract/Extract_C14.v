From Coq Require Import NArith List Extraction ExtrOcamlBasic.
From CMI Require Import Cxx.C14_Defs.
Extraction "c14_model.ml" run_dumps dump_ops exec_all start_fixed start_wrapping listing firstn N.of_nat N.to_nat.
