From Coq Require Import NArith List Floats Extraction ExtrOcamlBasic ExtrOCamlFloats ExtrOCamlInt63.
From CMI Require Import Cxx.C09_Defs.
Extraction "c09_model.ml" encode_stream decode_stream le_encode le_decode inv_ctor inv_restart cell_size inv_differs N.of_nat N.to_nat.
