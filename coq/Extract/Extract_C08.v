From Coq Require Import NArith List Extraction ExtrOcamlBasic.
From CMI Require Import Cxx.C08_Defs.
Extraction "c08_model.ml" init step exec wf_choice qexec qpre_b mkConfig deps N.add N.mul N.div N.modulo N.of_nat N.to_nat.
