From Coq Require Import List Arith Extraction ExtrOcamlBasic ExtrOcamlNatInt.
From CMI Require Import Cxx.C01_Defs.
Extraction "c01_model.ml" step init no_buffers aget mkRun append_active.
