From Coq Require Import ZArith Floats Extraction ExtrOcamlBasic ExtrOCamlFloats ExtrOCamlInt63.
From CMI Require Import Cxx.C17_Defs.
Extraction "c17_model.ml" get_mantissa orient3d_exact insphere_exact orient3d_filter insphere_filter_dec
  orient3d_adaptive insphere_adaptive orient_mant insphere_mant orient_det insphere_det orient_det_fixed insphere_det_fixed
  sign_of pt_in_rangeb adaptive_of.
