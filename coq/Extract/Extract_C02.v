From Coq Require Import ZArith Floats Extraction ExtrOcamlBasic ExtrOCamlFloats ExtrOCamlInt63.
From CMI Require Import Cxx.C02_Defs.
Extraction "c02_model.ml" f_make_block f_interact f_deposit_all f_input_compatible FUEL one_index is_inside Z.of_nat Z.to_nat.
