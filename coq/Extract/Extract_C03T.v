From Coq Require Import ZArith List Floats Extraction ExtrOcamlBasic ExtrOCamlFloats ExtrOCamlInt63.
From CMI Require Import Cxx.C02_Defs Cxx.C03_Defs Cxx.C03_Gen Cxx.C03_TraceDefs.
Extraction "c03t_model.ml" f_trace_packet f_trace_copies f_trace f_locate f_sub_block f_deposit_all original_of first_copy
  total nsub pos_of_index subgrid_ngb ngb_at gen_out_to_in Z.of_nat Z.to_nat.
