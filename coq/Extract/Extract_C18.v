From Coq Require Import ZArith Floats Extraction ExtrOcamlBasic ExtrOCamlFloats ExtrOCamlInt63.
From CMI Require Import Cxx.C18_Dec Cxx.C18_Gen Cxx.C18_Defs.
Extraction "c18_model.ml" fops dec2f dec2f_slow all_ions
  findA findB findC prep_A prep_B resolve prep_sel xsec_prepped prep_ion xsec_ion_prepped all_A_keys all_B_keys all_C_keys
  tab3 tab2 gen_rrec gen_rnew gen_fe inv_nz rr_kind rr_prep rr_eval rec_prep rec_prepped
  ct_rate locate_in sample_linear sample_planck sample_lyman gen_lyman_clamps strictly_increasing weakly_increasing masked_cdf.
