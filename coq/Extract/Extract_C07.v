From Coq Require Import Arith List Extraction ExtrOcamlBasic.
From CMI Require Import Cxx.C07_Defs.
Extraction "c07_model.ml" make_graph make_slots wf_check task_ok indeg_list step init exec lock_dep unlock_dep self_neighbour idle mu locks touches tk phases_ordered_find phases_ordered_check.
