From Coq Require Import ZArith Floats Extraction ExtrOcamlBasic ExtrOCamlFloats ExtrOCamlInt63.
From CMI Require Import Cxx.C19_Defs Cxx.C19_Proofs.
Extraction "c19_model.ml" f_construct f_advance f_gt mono_check write_tl read_tl Z.of_nat Z.to_nat.
