From Coq Require Import ZArith Floats Extraction ExtrOcamlBasic ExtrOCamlFloats ExtrOCamlInt63.
From CMI Require Import Common.Scalar Cxx.C05_Defs.
Definition f_consts (pw : float -> float -> float) (cst : Z -> Z -> float) (g : float) := mk_consts float (FOps pw cst) g.
Definition f_hllc (pw : float -> float -> float) (cst : Z -> Z -> float) := hllc_flux_b float (FOps pw cst).
Definition f_exact (pw : float -> float -> float) (cst : Z -> Z -> float) := exact_flux float (FOps pw cst).
Definition f_exact_novac (pw : float -> float -> float) (cst : Z -> Z -> float) := exact_solve_novac float (FOps pw cst).
Extraction "c05_model.ml" f_consts f_hllc f_exact f_exact_novac.
