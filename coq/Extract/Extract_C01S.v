From Coq Require Import List Arith Extraction ExtrOcamlBasic ExtrOcamlNatInt.
From CMI Require Import Cxx.C01_SourceDefs.
Extraction "c01_source_model.ml" totals num_overhead batches get_batch rr_loop cont_tasks all_source_sizes.
