From Coq Require Import ZArith Floats Extraction ExtrOcamlBasic ExtrOCamlFloats ExtrOCamlInt63.
From CMI Require Import Common.Scalar Cxx.C05_Defs Cxx.C11_Defs.
Definition f_xconsts (pw : float -> float -> float) (cst : Z -> Z -> float) (g : float) := mk_xconsts float (FOps pw cst) g.
Definition f_solve (pw : float -> float -> float) (cst : Z -> Z -> float) := solve float (FOps pw cst).
Definition f_waves (pw : float -> float -> float) (cst : Z -> Z -> float) := wave_speeds float (FOps pw cst).
Definition f_vacgen (pw : float -> float -> float) (cst : Z -> Z -> float) := vacgen_speeds float (FOps pw cst).
Definition f_probe (pw : float -> float -> float) (cst : Z -> Z -> float) := probe float (FOps pw cst).
Extraction "c11_model.ml" f_xconsts f_solve f_waves f_vacgen f_probe.
