From Coq Require Import ZArith Extraction ExtrOcamlBasic.
From CMI Require Import Cxx.C13_Defs.
Extraction "c13_model.ml" set_seed seed_index next next_integer dump restore wfb mznum MODULUS abs lux_init lux_next Z.of_nat Z.to_nat.
