From Coq Require Import ZArith Floats Extraction ExtrOcamlBasic ExtrOCamlFloats ExtrOCamlInt63.
From CMI Require Import Common.Scalar Cxx.C05_Defs Cxx.C04_Defs Cxx.C04_FluxDefs Cxx.C10_Defs.
(* binary64 instance of every operation of a step and of the step itself; Riemann parameter := C05's HLLC model *)
Definition f_riemann (pw : float -> float -> float) (cst : Z -> Z -> float) (gamma : float) :=
  let c := mk_consts float (FOps pw cst) gamma in
  fun rhoL uL PL rhoR uR PR n => hllc_flux float (FOps pw cst) c false false rhoL uL PL rhoR uR PR n (vzero float (FOps pw cst)).
Definition f_pair_flux pw cst gamma := pair_flux float (FOps pw cst) (f_riemann pw cst gamma) gamma.
Definition f_ghost_flux pw cst gamma := ghost_flux float (FOps pw cst) (f_riemann pw cst gamma) gamma.
Definition f_bump pw cst := bump float (FOps pw cst).
Definition f_update pw cst dblmax := update_conserved float (FOps pw cst) dblmax.
Definition f_setprim pw cst := set_primitive float (FOps pw cst).
Definition f_grad_inc pw cst := grad_inc float (FOps pw cst).
Definition f_bump_grad pw cst := bump_grad float (FOps pw cst).
Definition f_ghost_prim pw cst := ghost_prim float (FOps pw cst).
Definition f_orientation pw cst := orientation float (FOps pw cst).
Definition f_slope_limit pw cst dblmax := slope_limit float (FOps pw cst) dblmax.
Definition f_predict pw cst := predict float (FOps pw cst).
Definition f_step_layout pw cst dblmax gamma := step_layout float (FOps pw cst) dblmax (f_riemann pw cst gamma).
Definition f_declared := declared.
Extraction "c10_model.ml" f_pair_flux f_ghost_flux f_bump f_update f_setprim f_grad_inc f_bump_grad f_ghost_prim f_orientation
  f_slope_limit f_predict f_step_layout f_declared gid3 NX NY NZ.
