From Coq Require Import ZArith Floats Extraction ExtrOcamlBasic ExtrOcamlString ExtrOCamlFloats ExtrOCamlInt63.
From CMI Require Import Cxx.C20_Defs Cxx.C20_SnapDefs.
Extraction "c20_model.ml" parse_text parse print print_text print_used used_dict unlines getlines
  tokenize f_get_unit f_to_SI f_to_unit f_convert si_name si_names unit_table table_consistent f_unit_val
  Z.of_nat Z.to_nat
  wr_entries_flat rd_entries_flat lg_wr_entries_flat.
