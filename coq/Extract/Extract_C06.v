From Coq Require Import Floats Extraction ExtrOcamlBasic ExtrOCamlFloats ExtrOCamlInt63.
From CMI Require Import Cxx.C06_Defs.
Extraction "c06_model.ml" OF all_ions metal_ions hyd hyd_aa hyd_bb hhe hhe_step hhe_cond hhe_he0 hhe_h0 hhe_ch
  hhe_ch1 hhe_ch2 hhe_che frac2 frac3 metals cell cell_ne calc_temperature t_loop t_body t_cond.
