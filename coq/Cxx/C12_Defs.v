(* C12: life cycle of owning raw pointers.  The programs analysed are REGENERATED from the
   clang AST of /repo on every run (Cxx/C12_Gen.v, written by tools/lifecycle_extract.py):
   constructor ; destructor of every class with raw-pointer members in the anchor files, and
   the body of the task-based do_simulation functions, abstracted to the statements that
   touch tracked pointers. *)
From Coq Require Import List Bool Arith.
Import ListNotations.

Inductive pval := Uninit | Null | Live | Freed.

Inductive pexp :=
| PNull                      (* nullptr / 0 *)
| PNew                       (* new T(...) *)
| POther                     (* any other expression: may be null or a valid pointer *)
| PCopy (q : nat).           (* value of another tracked pointer *)

Inductive stmt :=
| SSkip
| SDeclUninit (p : nat)      (* declared / constructed without initialiser *)
| SAssign (p : nat) (e : pexp)
| SDelete (p : nat)
| SRead (p : nat)            (* the value is read: tested, dereferenced, passed on, compared *)
| SSeq (a b : stmt)
| SIfPtr (p : nat) (a b : stmt)       (* if (p) a else b      -- also  p != nullptr *)
| SIf (a b : stmt)                    (* condition the analysis does not interpret *)
| SLoop (a : stmt).                   (* zero or more iterations *)

(* ---------------- concrete semantics: nondeterministic, big step ---------------- *)
Definition cstate := nat -> pval.
Definition cupd (s : cstate) (p : nat) (v : pval) : cstate := fun q => if Nat.eqb q p then v else s q.

Definition readable (v : pval) : bool := match v with Null | Live => true | _ => false end.

Inductive outcome := Ok (s : cstate) | Err.

Inductive eval_exp : cstate -> pexp -> option pval -> Prop :=     (* None = reading an invalid pointer *)
| ev_null s : eval_exp s PNull (Some Null)
| ev_new s : eval_exp s PNew (Some Live)
| ev_other_null s : eval_exp s POther (Some Null)
| ev_other_live s : eval_exp s POther (Some Live)
| ev_copy_ok s q : readable (s q) = true -> eval_exp s (PCopy q) (Some (s q))
| ev_copy_bad s q : readable (s q) = false -> eval_exp s (PCopy q) None.

Inductive exec : stmt -> cstate -> outcome -> Prop :=
| ex_skip s : exec SSkip s (Ok s)
| ex_decl s p : exec (SDeclUninit p) s (Ok (cupd s p Uninit))
| ex_assign s p e v : eval_exp s e (Some v) -> exec (SAssign p e) s (Ok (cupd s p v))
| ex_assign_err s p e : eval_exp s e None -> exec (SAssign p e) s Err
| ex_delete_live s p : s p = Live -> exec (SDelete p) s (Ok (cupd s p Freed))
| ex_delete_null s p : s p = Null -> exec (SDelete p) s (Ok s)
| ex_delete_err s p : readable (s p) = false -> exec (SDelete p) s Err      (* uninitialised or double delete *)
| ex_read_ok s p : readable (s p) = true -> exec (SRead p) s (Ok s)
| ex_read_err s p : readable (s p) = false -> exec (SRead p) s Err          (* decision on uninitialised / dangling *)
| ex_seq_ok a b s s1 o : exec a s (Ok s1) -> exec b s1 o -> exec (SSeq a b) s o
| ex_seq_err a b s : exec a s Err -> exec (SSeq a b) s Err
| ex_ifptr_live p a b s o : s p = Live -> exec a s o -> exec (SIfPtr p a b) s o
| ex_ifptr_null p a b s o : s p = Null -> exec b s o -> exec (SIfPtr p a b) s o
| ex_ifptr_err p a b s : readable (s p) = false -> exec (SIfPtr p a b) s Err
| ex_if_then a b s o : exec a s o -> exec (SIf a b) s o
| ex_if_else a b s o : exec b s o -> exec (SIf a b) s o
| ex_loop_done a s : exec (SLoop a) s (Ok s)
| ex_loop_step a s s1 o : exec a s (Ok s1) -> exec (SLoop a) s1 o -> exec (SLoop a) s o
| ex_loop_err a s : exec a s Err -> exec (SLoop a) s Err.

(* ---------------- abstract semantics: a set of possible values per pointer ---------------- *)
Record vset := mkV { hasU : bool; hasN : bool; hasL : bool; hasF : bool }.
Definition vbot := mkV false false false false.
Definition vsingle (v : pval) : vset :=
  match v with Uninit => mkV true false false false | Null => mkV false true false false
             | Live => mkV false false true false | Freed => mkV false false false true end.
Definition vjoin (a b : vset) : vset :=
  mkV (hasU a || hasU b) (hasN a || hasN b) (hasL a || hasL b) (hasF a || hasF b).
Definition vleb (a b : vset) : bool :=
  implb (hasU a) (hasU b) && implb (hasN a) (hasN b) && implb (hasL a) (hasL b) && implb (hasF a) (hasF b).
Definition vmem (v : pval) (a : vset) : bool :=
  match v with Uninit => hasU a | Null => hasN a | Live => hasL a | Freed => hasF a end.
Definition vbad (a : vset) : bool := hasU a || hasF a.      (* may hold an unreadable value *)
Definition vempty (a : vset) : bool := negb (hasU a || hasN a || hasL a || hasF a).

Definition vU := vsingle Uninit.
Definition astate := list vset.          (* indexed by pointer number; a missing entry means {Uninit} *)
Definition aget (s : astate) (p : nat) : vset := nth p s vU.
Fixpoint aset (s : astate) (p : nat) (v : vset) : astate :=
  match p, s with
  | O, [] => [v]
  | O, _ :: r => v :: r
  | S p', [] => vU :: aset [] p' v
  | S p', x :: r => x :: aset r p' v
  end.
Fixpoint ajoin (a b : astate) : astate :=
  match a, b with
  | [], _ => map (vjoin vU) b
  | _, [] => map (fun x => vjoin x vU) a
  | x :: r, y :: t => vjoin x y :: ajoin r t
  end.
Fixpoint aleb (a b : astate) : bool :=
  match a, b with
  | [], _ => forallb (vleb vU) b
  | x :: r, [] => vleb x vU && aleb r []
  | x :: r, y :: t => vleb x y && aleb r t
  end.

Definition aeval (s : astate) (e : pexp) : vset * bool :=      (* possible values, may-error *)
  match e with
  | PNull => (vsingle Null, false)
  | PNew => (vsingle Live, false)
  | POther => (mkV false true true false, false)
  | PCopy q => let a := aget s q in (mkV false (hasN a) (hasL a) false, vbad a)
  end.

Section Abs.
  Variable np : nat.           (* number of tracked pointers *)

  (* returns (state after, may an error have happened) *)
  Fixpoint aexec (fuel : nat) (st : stmt) (s : astate) : astate * bool :=
    match st with
    | SSkip => (s, false)
    | SDeclUninit p => (aset s p (vsingle Uninit), false)
    | SAssign p e => let '(v, err) := aeval s e in (aset s p v, err)
    | SDelete p =>
        let a := aget s p in
        (aset s p (mkV false (hasN a) false (hasL a)), vbad a)
    | SRead p => let a := aget s p in (aset s p (mkV false (hasN a) (hasL a) false), vbad a)
    | SSeq a b =>
        let '(s1, e1) := aexec fuel a s in
        let '(s2, e2) := aexec fuel b s1 in
        (s2, e1 || e2)
    | SIfPtr p a b =>
        let v := aget s p in
        let '(sa, ea) := if hasL v then aexec fuel a (aset s p (vsingle Live)) else (s, false) in
        let '(sb, eb) := if hasN v then aexec fuel b (aset s p (vsingle Null)) else (s, false) in
        let res := match hasL v, hasN v with
                   | true, true => ajoin sa sb
                   | true, false => sa
                   | false, true => sb
                   | false, false => s
                   end in
        (res, vbad v || ea || eb)
    | SIf a b =>
        let '(sa, ea) := aexec fuel a s in
        let '(sb, eb) := aexec fuel b s in
        (ajoin sa sb, ea || eb)
    | SLoop a =>
        (* iterate s := s join (body s) until stable; not stable within the fuel => report an error *)
        (fix iter (n : nat) (inv : astate) : astate * bool :=
           match n with
           | O => (inv, true)
           | S n' =>
             let '(s1, e1) := aexec fuel a inv in
             if e1 then (inv, true)
             else if aleb s1 inv then (inv, false)
             else iter n' (ajoin inv s1)
           end) fuel s
    end.
End Abs.

(* a program is safe when the abstract run from "everything uninitialised but never read"
   reports no possible error *)
Definition init_state (np : nat) : astate := [].
Definition prog_safe (np : nat) (st : stmt) : bool := negb (snd (aexec 64 st (init_state np))).
Definition cinit : cstate := fun _ => Uninit.
