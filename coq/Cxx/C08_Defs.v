(* C08: executable small-step model, at ATOMIC-OPERATION granularity, of the shared scheduler
   containers of CMacIonize:
     src/AtomicValue.hpp      load, store, lock (CAS false->true), unlock (CAS true->false),
                              post/pre_increment, the CAS loop of max
     src/LockFree.hpp         LockFree::add (load, CAS loop)
     src/ThreadLock.hpp       try_lock, lock (CAS spin), unlock            (LOCK_ATOMIC variant)
     src/ThreadSafeVector.hpp get_free_element, get_free_element_safe, free_element (with the
                              THREADSAFEVECTOR_STATS counters, which are real atomic operations)
     src/Task.hpp             lock_dependency (two locks, rollback of the first), unlock_dependency
     src/TaskQueue.hpp        add_task, get_task, try_get_task (queue spin lock, scan from the top,
                              gap closing)
   Memory model: C++11 seq_cst atomics = sequentially consistent interleaving.  One model step of
   thread t = the atomic operation thread t is about to perform (its "yield point") followed by
   the thread-local / lock-protected plain code up to its next atomic operation.  The plain
   (non-atomic) accesses to the queue array and its size are therefore executed together with the
   preceding atomic operation of the same thread (they are protected by the queue lock in the
   code; modelled as atomic, not verified).
   Hand model; tie = the real containers run under a deterministic scheduler (yield hook) on the
   same schedule, every step compared (props/c08.py, harness/c08/sched_harness.cpp).
   Flags and locks record WHO set them ([option nat], Some t = set by thread t); the real value is
   [is_some]; nothing in [exec] depends on the identity stored. *)
From Coq Require Import NArith List Bool Arith.
Import ListNotations.

Definition WORD : N := (2 ^ 64)%N.                 (* size_t is 64 bits wide; harness prints sizeof *)
Definition winc (x : N) : N := ((x + 1) mod WORD)%N.
Definition wdec (x : N) : N := ((x + (WORD - 1)) mod WORD)%N.
Definition wadd (x y : N) : N := ((x + y) mod WORD)%N.

Definition upd {A : Type} (m : nat -> A) (k : nat) (v : A) : nat -> A :=
  fun j => if Nat.eqb j k then v else m j.

Definition is_some {A : Type} (o : option A) : bool := match o with Some _ => true | None => false end.
Definition b2n (b : bool) : N := if b then 1%N else 0%N.

(* remove the first occurrence *)
Fixpoint remove1 (x : nat) (l : list nat) : list nat :=
  match l with
  | [] => []
  | y :: r => if Nat.eqb x y then r else y :: remove1 x r
  end.

(* remove position j (gap closing: everything above moves down by one) *)
Fixpoint remove_nth (j : nat) (l : list nat) : list nat :=
  match l, j with
  | [], _ => []
  | _ :: r, O => r
  | y :: r, S j' => y :: remove_nth j' r
  end.

(* ---------------------------------------------------------------------------------------- *)
Record config := mkConfig {
  nthr : nat;                      (* number of threads; any *)
  psize : nat;                     (* size of the pool (ThreadSafeVector::_size); any *)
  dep0 : nat -> option nat;        (* Task::_dependency[0] of task k (lock index): set_dependency *)
  xdep1 : nat -> option nat;       (* the lock handed to set_extra_dependency for task k *)
  dedup : bool;                    (* true: set_extra_dependency as it is now (a second dependency equal to
                                      the first is dropped, fix of D2); false: the pinned commit (stored as is) *)
  cur0 : N;                        (* initial value of the pool cursor (0 in the code; any value
                                      lets the correspondence reach the 2^64 wrap) *)
  ctr0 : nat -> N;                 (* initial values of the AtomicValue counters *)
  lfc0 : nat -> N;                 (* initial values of the LockFree::add targets *)
  mx0 : nat -> N                   (* initial values of the AtomicValue variables used with max() *)
}.

(* Task::_dependency[1] as stored by set_dependency(..); set_extra_dependency(..):
     _dependency[1] = (dependency != _dependency[0]) ? dependency : nullptr; *)
Definition dep1 (cfg : config) (k : nat) : option nat :=
  match xdep1 cfg k with
  | None => None
  | Some l1 =>
    if dedup cfg && (match dep0 cfg k with Some l0 => Nat.eqb l0 l1 | None => false end) then None else Some l1
  end.

(* the locks lock_dependency takes, in order (a null first dependency means: no locks at all) *)
Definition deps (cfg : config) (k : nat) : list nat :=
  match dep0 cfg k with
  | None => []
  | Some l0 => match dep1 cfg k with None => [l0] | Some l1 => [l0; l1] end
  end.

(* client operations = the public interface *)
Inductive op :=
| OGet                             (* ThreadSafeVector::get_free_element_safe / MemorySpace::get_free_buffer *)
| OGetU                            (* ThreadSafeVector::get_free_element (spins while the pool is full) *)
| OFree (i : nat)                  (* free_element(i) *)
| OLock (l : nat) | OTryLock (l : nat) | OUnlock (l : nat)        (* ThreadLock *)
| OPreInc (c : nat) | OPostInc (c : nat) | OMax (c : nat) (v : N) (* AtomicValue<size_t> *)
| OLFAdd (c : nat) (v : N)                                        (* LockFree::add *)
| OAddTask (q k : nat) | OGetTask (q : nat) | OTryGetTask (q : nat)
| OLockDep (k : nat) | OUnlockDep (k : nat).                      (* Task::(un)lock_dependency *)

Inductive ret :=
| RUnit | RNat (n : nat) | RVal (v : N) | RBool (b : bool) | RTask (o : option nat).

(* where lock_dependency was called from: directly by the client, or by the scan of queue q
   standing at index idx (the task examined is _queue[idx-1]) *)
Inductive ctx := Direct | InQ (q idx : nat).

(* program counter = the atomic operation the thread will perform next *)
Inductive pc :=
| Idle
| G_readTaken                                  (* _number_taken.value() < _size ? *)
| G_fetchCur                                   (* _current_index.post_increment() % _size *)
| G_cas (i : nat)                              (* _locks[index].lock() *)
| G_incTaken (i : nat)                         (* _number_taken.pre_increment() *)
| G_maxLoad (i : nat) (nt : N)                 (* _max_number_taken.max(number_taken): load *)
| G_maxCas (i : nat) (nt old new : N)          (*   compare_exchange_strong(old, new) *)
| G_totInc (i : nat)                           (* _total_number_taken.pre_increment() *)
| F_cas (i : nat)                              (* _locks[index].unlock() *)
| F_dec (i : nat)                              (* _number_taken.pre_decrement() *)
| L_cas (l : nat)                              (* ThreadLock::lock: while (!_lock.lock()) *)
| L_try (l : nat)                              (* ThreadLock::try_lock *)
| L_unlock (l : nat)                           (* ThreadLock::unlock *)
| C_preinc (c : nat) | C_postinc (c : nat)
| C_maxLoad (c : nat) (v : N) | C_maxCas (c : nat) (v old new : N)
| C_lfLoad (c : nat) (v : N) | C_lfCas (c : nat) (v old : N)
| QA_lock (q k : nat)                          (* add_task: _queue_lock.lock() *)
| QA_unlock (q : nat)                          (* add_task: _queue_lock.unlock() *)
| Q_lock (q : nat)                             (* get_task: _queue_lock.lock() *)
| Q_trylock (q : nat)                          (* try_get_task: _queue_lock.try_lock() *)
| D_try0 (x : ctx) (k : nat)                   (* lock_dependency: _dependency[0]->try_lock() *)
| D_try1 (x : ctx) (k : nat)                   (*                  _dependency[1]->try_lock() *)
| D_rollback (x : ctx) (k : nat)               (*                  _dependency[0]->unlock() *)
| Q_unlock (q : nat) (res : option nat)        (* get_task: _queue_lock.unlock() *)
| U_dep1 (k : nat)                             (* unlock_dependency: _dependency[1]->unlock() *)
| U_dep0 (k : nat).                            (*                    _dependency[0]->unlock() *)

(* names of the atomic primitives = names of the yield points in AtomicValue.hpp / LockFree.hpp *)
Inductive aop :=
| AStart | ASkip
| ALoad | ACasLock | ACasUnlock | APostInc | APreInc | APreDec | AMaxLoad | AMaxCas | ALfLoad | ALfCas.

Inductive obj :=
| BNone | BFlag (i : nat) | BCursor | BTaken | BMaxTaken | BTotal
| BLock (l : nat) | BQLock (q : nat) | BCtr (c : nat) | BLfc (c : nat) | BMx (c : nat).

Record event := mkEvent {
  e_tid : nat; e_aop : aop; e_obj : obj;
  e_before : N; e_after : N;                   (* value of the atomic variable before / after *)
  e_push : option (nat * nat);                 (* (q, k): this step stored k into queue q *)
  e_take : option (nat * nat);                 (* (q, k): this step removed k from queue q *)
  e_ret : option (op * ret)                    (* this step completed the operation *)
}.

(* per thread: program counter, operation in progress, and the client's view of what it owns *)
Record tstate := mkT {
  tpc : pc; top : op;
  held : list nat;                 (* pool slots returned to this thread and not yet freed *)
  hlocks : list nat;               (* locks taken through ThreadLock::lock / try_lock *)
  htasks : list nat                (* tasks handed to this thread (their dependencies are locked) *)
}.

Record queue := mkQ { qitems : list nat;           (* _queue[0 .. _current_queue_size) *)
                      qlk : option nat }.          (* _queue_lock *)

Record sys := mkSys {
  flags : nat -> option nat;       (* ThreadSafeVector::_locks *)
  cursor : N; taken : N; maxtaken : N; total : N;
  locks : nat -> option nat;       (* the ThreadLocks tasks depend on *)
  ctr : nat -> N; lfc : nat -> N; mxv : nat -> N;
  queues : nat -> queue;
  thr : nat -> tstate;
  hist : list event                (* log, newest first *)
}.

Definition idle0 : tstate := mkT Idle OGet [] [] [].

Definition init (cfg : config) : sys :=
  mkSys (fun _ => None) (cur0 cfg) 0%N 0%N 0%N (fun _ => None) (ctr0 cfg) (lfc0 cfg) (mx0 cfg)
        (fun _ => mkQ [] None) (fun _ => idle0) [].

(* setters *)
Definition set_flags s v := mkSys v (cursor s) (taken s) (maxtaken s) (total s) (locks s) (ctr s) (lfc s) (mxv s) (queues s) (thr s) (hist s).
Definition set_cursor s v := mkSys (flags s) v (taken s) (maxtaken s) (total s) (locks s) (ctr s) (lfc s) (mxv s) (queues s) (thr s) (hist s).
Definition set_taken s v := mkSys (flags s) (cursor s) v (maxtaken s) (total s) (locks s) (ctr s) (lfc s) (mxv s) (queues s) (thr s) (hist s).
Definition set_maxtaken s v := mkSys (flags s) (cursor s) (taken s) v (total s) (locks s) (ctr s) (lfc s) (mxv s) (queues s) (thr s) (hist s).
Definition set_total s v := mkSys (flags s) (cursor s) (taken s) (maxtaken s) v (locks s) (ctr s) (lfc s) (mxv s) (queues s) (thr s) (hist s).
Definition set_locks s v := mkSys (flags s) (cursor s) (taken s) (maxtaken s) (total s) v (ctr s) (lfc s) (mxv s) (queues s) (thr s) (hist s).
Definition set_ctr s v := mkSys (flags s) (cursor s) (taken s) (maxtaken s) (total s) (locks s) v (lfc s) (mxv s) (queues s) (thr s) (hist s).
Definition set_lfc s v := mkSys (flags s) (cursor s) (taken s) (maxtaken s) (total s) (locks s) (ctr s) v (mxv s) (queues s) (thr s) (hist s).
Definition set_mxv s v := mkSys (flags s) (cursor s) (taken s) (maxtaken s) (total s) (locks s) (ctr s) (lfc s) v (queues s) (thr s) (hist s).
Definition set_queues s v := mkSys (flags s) (cursor s) (taken s) (maxtaken s) (total s) (locks s) (ctr s) (lfc s) (mxv s) v (thr s) (hist s).
Definition set_thr s v := mkSys (flags s) (cursor s) (taken s) (maxtaken s) (total s) (locks s) (ctr s) (lfc s) (mxv s) (queues s) v (hist s).
Definition set_hist s v := mkSys (flags s) (cursor s) (taken s) (maxtaken s) (total s) (locks s) (ctr s) (lfc s) (mxv s) (queues s) (thr s) v.

Definition set_items s q l := set_queues s (upd (queues s) q (mkQ l (qlk (queues s q)))).
Definition set_qlk s q o := set_queues s (upd (queues s) q (mkQ (qitems (queues s q)) o)).

(* thread t continues at pc p *)
Definition goto (s : sys) (t : nat) (p : pc) : sys :=
  let ts := thr s t in set_thr s (upd (thr s) t (mkT p (top ts) (held ts) (hlocks ts) (htasks ts))).
(* thread t returns to its client with a new view *)
Definition finish (s : sys) (t : nat) (h hl ht : list nat) : sys :=
  set_thr s (upd (thr s) t (mkT Idle (top (thr s t)) h hl ht)).
Definition finish_same (s : sys) (t : nat) : sys :=
  let ts := thr s t in finish s t (held ts) (hlocks ts) (htasks ts).

Definition ev (t : nat) (a : aop) (o : obj) (b a' : N) : event := mkEvent t a o b a' None None None.
Definition ev_ret (e : event) (o : op) (r : ret) : event :=
  mkEvent (e_tid e) (e_aop e) (e_obj e) (e_before e) (e_after e) (e_push e) (e_take e) (Some (o, r)).
Definition ev_take (e : event) (q k : nat) : event :=
  mkEvent (e_tid e) (e_aop e) (e_obj e) (e_before e) (e_after e) (e_push e) (Some (q, k)) (e_ret e).
Definition ev_push (e : event) (q k : nat) : event :=
  mkEvent (e_tid e) (e_aop e) (e_obj e) (e_before e) (e_after e) (Some (q, k)) (e_take e) (e_ret e).

Section Exec.
  Variable cfg : config.

  (* the scan of get_task standing at index idx, evaluated up to the next atomic operation:
       while (index > 0 && !tasks[_queue[index - 1]].lock_dependency()) --index;
     a task without first dependency is lockable without any atomic operation *)
  Definition scan (s : sys) (t : nat) (q idx : nat) (e : event) : sys * event :=
    match idx with
    | O => (goto s t (Q_unlock q None), e)
    | S j =>
      let k := nth j (qitems (queues s q)) 0 in
      match dep0 cfg k with
      | None => (goto (set_items s q (remove_nth j (qitems (queues s q)))) t (Q_unlock q (Some k)), ev_take e q k)
      | Some _ => (goto s t (D_try0 (InQ q (S j)) k), e)
      end
    end.

  (* lock_dependency of task k returned [ok] *)
  Definition dep_done (s : sys) (t : nat) (x : ctx) (k : nat) (ok : bool) (e : event) : sys * event :=
    match x with
    | Direct =>
      let ts := thr s t in
      (finish s t (held ts) (hlocks ts) (if ok then k :: htasks ts else htasks ts), ev_ret e (top ts) (RBool ok))
    | InQ q idx =>
      if ok then
        (* --index; --_current_queue_size; task = _queue[index]; close the gap *)
        (goto (set_items s q (remove_nth (idx - 1) (qitems (queues s q)))) t (Q_unlock q (Some k)), ev_take e q k)
      else scan s t q (idx - 1) e
    end.

  (* the client starts operation o *)
  Definition start (s : sys) (t : nat) (o : op) : sys * event :=
    let ts := thr s t in
    let s0 := set_thr s (upd (thr s) t (mkT Idle o (held ts) (hlocks ts) (htasks ts))) in
    let e := ev t AStart BNone 0 0 in
    match o with
    | OGet => (goto s0 t G_readTaken, e)
    | OGetU => (goto s0 t G_fetchCur, e)
    | OFree i => (goto s0 t (F_cas i), e)
    | OLock l => (goto s0 t (L_cas l), e)
    | OTryLock l => (goto s0 t (L_try l), e)
    | OUnlock l => (goto s0 t (L_unlock l), e)
    | OPreInc c => (goto s0 t (C_preinc c), e)
    | OPostInc c => (goto s0 t (C_postinc c), e)
    | OMax c v => (goto s0 t (C_maxLoad c v), e)
    | OLFAdd c v => (goto s0 t (C_lfLoad c v), e)
    | OAddTask q k => (goto s0 t (QA_lock q k), e)
    | OGetTask q => (goto s0 t (Q_lock q), e)
    | OTryGetTask q => (goto s0 t (Q_trylock q), e)
    | OLockDep k =>
      match dep0 cfg k with
      | None => (finish s0 t (held ts) (hlocks ts) (k :: htasks ts), ev_ret e o (RBool true))
      | Some _ => (goto s0 t (D_try0 Direct k), e)
      end
    | OUnlockDep k =>
      match dep0 cfg k with
      | None => (finish s0 t (held ts) (hlocks ts) (remove1 k (htasks ts)), ev_ret e o RUnit)
      | Some _ => match dep1 cfg k with
                  | None => (goto s0 t (U_dep0 k), e)
                  | Some _ => (goto s0 t (U_dep1 k), e)
                  end
      end
    end.

  (* one step of thread t; [c] = the operation its client starts if t is idle *)
  Definition exec (s : sys) (t : nat) (c : op) : sys * event :=
    if negb (t <? nthr cfg) then (s, ev t ASkip BNone 0 0) else
    let ts := thr s t in
    let o := top ts in
    match tpc ts with
    | Idle => start s t c
    (* ---- ThreadSafeVector::get_free_element[_safe] ---- *)
    | G_readTaken =>
      let v := taken s in
      let e := ev t ALoad BTaken v v in
      if (v <? N.of_nat (psize cfg))%N then (goto s t G_fetchCur, e)
      else (finish_same s t, ev_ret e o (RNat (psize cfg)))
    | G_fetchCur =>
      let v := cursor s in
      (goto (set_cursor s (winc v)) t (G_cas (N.to_nat (v mod N.of_nat (psize cfg)))), ev t APostInc BCursor v (winc v))
    | G_cas i =>
      match flags s i with
      | None => (goto (set_flags s (upd (flags s) i (Some t))) t (G_incTaken i), ev t ACasLock (BFlag i) 0 1)
      | Some _ => (goto s t G_fetchCur, ev t ACasLock (BFlag i) 1 1)
      end
    | G_incTaken i =>
      let v := taken s in
      (goto (set_taken s (winc v)) t (G_maxLoad i (winc v)), ev t APreInc BTaken v (winc v))
    | G_maxLoad i nt =>
      let v := maxtaken s in
      (goto s t (G_maxCas i nt v (N.max nt v)), ev t AMaxLoad BMaxTaken v v)
    | G_maxCas i nt old new =>
      let v := maxtaken s in
      if (v =? old)%N then (goto (set_maxtaken s new) t (G_totInc i), ev t AMaxCas BMaxTaken v new)
      else (goto s t (G_maxLoad i nt), ev t AMaxCas BMaxTaken v v)
    | G_totInc i =>
      let v := total s in
      (finish (set_total s (winc v)) t (i :: held ts) (hlocks ts) (htasks ts),
       ev_ret (ev t APreInc BTotal v (winc v)) o (RNat i))
    (* ---- ThreadSafeVector::free_element ---- *)
    | F_cas i =>
      let b := b2n (is_some (flags s i)) in
      let s1 := set_flags s (upd (flags s) i None) in
      (set_thr s1 (upd (thr s1) t (mkT (F_dec i) o (remove1 i (held ts)) (hlocks ts) (htasks ts))),
       ev t ACasUnlock (BFlag i) b 0)
    | F_dec i =>
      let v := taken s in
      (finish_same (set_taken s (wdec v)) t, ev_ret (ev t APreDec BTaken v (wdec v)) o RUnit)
    (* ---- ThreadLock ---- *)
    | L_cas l =>
      match locks s l with
      | None => (finish (set_locks s (upd (locks s) l (Some t))) t (held ts) (l :: hlocks ts) (htasks ts),
                 ev_ret (ev t ACasLock (BLock l) 0 1) o RUnit)
      | Some _ => (s, ev t ACasLock (BLock l) 1 1)
      end
    | L_try l =>
      match locks s l with
      | None => (finish (set_locks s (upd (locks s) l (Some t))) t (held ts) (l :: hlocks ts) (htasks ts),
                 ev_ret (ev t ACasLock (BLock l) 0 1) o (RBool true))
      | Some _ => (finish_same s t, ev_ret (ev t ACasLock (BLock l) 1 1) o (RBool false))
      end
    | L_unlock l =>
      let b := b2n (is_some (locks s l)) in
      (finish (set_locks s (upd (locks s) l None)) t (held ts) (remove1 l (hlocks ts)) (htasks ts),
       ev_ret (ev t ACasUnlock (BLock l) b 0) o RUnit)
    (* ---- AtomicValue counters, LockFree::add ---- *)
    | C_preinc c =>
      let v := ctr s c in
      (finish_same (set_ctr s (upd (ctr s) c (winc v))) t, ev_ret (ev t APreInc (BCtr c) v (winc v)) o (RVal (winc v)))
    | C_postinc c =>
      let v := ctr s c in
      (finish_same (set_ctr s (upd (ctr s) c (winc v))) t, ev_ret (ev t APostInc (BCtr c) v (winc v)) o (RVal v))
    | C_maxLoad c x =>
      let v := mxv s c in
      (goto s t (C_maxCas c x v (N.max x v)), ev t AMaxLoad (BMx c) v v)
    | C_maxCas c x old new =>
      let v := mxv s c in
      if (v =? old)%N then (finish_same (set_mxv s (upd (mxv s) c new)) t, ev_ret (ev t AMaxCas (BMx c) v new) o RUnit)
      else (goto s t (C_maxLoad c x), ev t AMaxCas (BMx c) v v)
    | C_lfLoad c x =>
      let v := lfc s c in
      (goto s t (C_lfCas c x v), ev t ALfLoad (BLfc c) v v)
    | C_lfCas c x old =>
      (* compare_exchange_weak(old, old + b): on failure old is reloaded by the primitive itself *)
      let v := lfc s c in
      if (v =? old)%N then (finish_same (set_lfc s (upd (lfc s) c (wadd old x))) t, ev_ret (ev t ALfCas (BLfc c) v (wadd old x)) o RUnit)
      else (goto s t (C_lfCas c x v), ev t ALfCas (BLfc c) v v)
    (* ---- TaskQueue::add_task ---- *)
    | QA_lock q k =>
      match qlk (queues s q) with
      | None =>
        let s1 := set_qlk s q (Some t) in
        (goto (set_items s1 q (qitems (queues s1 q) ++ [k])) t (QA_unlock q), ev_push (ev t ACasLock (BQLock q) 0 1) q k)
      | Some _ => (s, ev t ACasLock (BQLock q) 1 1)
      end
    | QA_unlock q =>
      let b := b2n (is_some (qlk (queues s q))) in
      (finish_same (set_qlk s q None) t, ev_ret (ev t ACasUnlock (BQLock q) b 0) o RUnit)
    (* ---- TaskQueue::get_task / try_get_task ---- *)
    | Q_lock q =>
      match qlk (queues s q) with
      | None => let s1 := set_qlk s q (Some t) in
                scan s1 t q (length (qitems (queues s1 q))) (ev t ACasLock (BQLock q) 0 1)
      | Some _ => (s, ev t ACasLock (BQLock q) 1 1)
      end
    | Q_trylock q =>
      match qlk (queues s q) with
      | None => let s1 := set_qlk s q (Some t) in
                scan s1 t q (length (qitems (queues s1 q))) (ev t ACasLock (BQLock q) 0 1)
      | Some _ => (finish_same s t, ev_ret (ev t ACasLock (BQLock q) 1 1) o (RTask None))
      end
    | Q_unlock q res =>
      let b := b2n (is_some (qlk (queues s q))) in
      (finish (set_qlk s q None) t (held ts) (hlocks ts) (match res with Some k => k :: htasks ts | None => htasks ts end),
       ev_ret (ev t ACasUnlock (BQLock q) b 0) o (RTask res))
    (* ---- Task::lock_dependency ---- *)
    | D_try0 x k =>
      match dep0 cfg k with
      | None => dep_done s t x k true (ev t ASkip BNone 0 0)          (* not reachable *)
      | Some l0 =>
        match locks s l0 with
        | None =>
          let s1 := set_locks s (upd (locks s) l0 (Some t)) in
          let e := ev t ACasLock (BLock l0) 0 1 in
          match dep1 cfg k with
          | None => dep_done s1 t x k true e
          | Some _ => (goto s1 t (D_try1 x k), e)
          end
        | Some _ => dep_done s t x k false (ev t ACasLock (BLock l0) 1 1)
        end
      end
    | D_try1 x k =>
      match dep1 cfg k with
      | None => dep_done s t x k true (ev t ASkip BNone 0 0)          (* not reachable *)
      | Some l1 =>
        match locks s l1 with
        | None => dep_done (set_locks s (upd (locks s) l1 (Some t))) t x k true (ev t ACasLock (BLock l1) 0 1)
        | Some _ => (goto s t (D_rollback x k), ev t ACasLock (BLock l1) 1 1)
        end
      end
    | D_rollback x k =>
      match dep0 cfg k with
      | None => dep_done s t x k false (ev t ASkip BNone 0 0)         (* not reachable *)
      | Some l0 =>
        let b := b2n (is_some (locks s l0)) in
        dep_done (set_locks s (upd (locks s) l0 None)) t x k false (ev t ACasUnlock (BLock l0) b 0)
      end
    (* ---- Task::unlock_dependency ---- *)
    | U_dep1 k =>
      match dep1 cfg k with
      | None => (goto s t (U_dep0 k), ev t ASkip BNone 0 0)           (* not reachable *)
      | Some l1 =>
        let b := b2n (is_some (locks s l1)) in
        let s1 := set_locks s (upd (locks s) l1 None) in
        (* from here on the thread holds only the first dependency: the task leaves its view *)
        (set_thr s1 (upd (thr s1) t (mkT (U_dep0 k) o (held ts) (hlocks ts) (remove1 k (htasks ts)))),
         ev t ACasUnlock (BLock l1) b 0)
      end
    | U_dep0 k =>
      match dep0 cfg k with
      | None => (finish_same s t, ev_ret (ev t ASkip BNone 0 0) o RUnit)  (* not reachable *)
      | Some l0 =>
        let b := b2n (is_some (locks s l0)) in
        let ht := match dep1 cfg k with None => remove1 k (htasks ts) | Some _ => htasks ts end in
        (finish (set_locks s (upd (locks s) l0 None)) t (held ts) (hlocks ts) ht,
         ev_ret (ev t ACasUnlock (BLock l0) b 0) o RUnit)
      end
    end.

  Definition step (s : sys) (t : nat) (c : op) : sys * event :=
    let '(s', e) := exec s t c in (set_hist s' (e :: hist s), e).

  Definition run (sched : list (nat * op)) (s : sys) : sys :=
    fold_left (fun s tc => fst (step s (fst tc) (snd tc))) sched s.

  Definition reachable (s : sys) : Prop := exists sched, s = run sched (init cfg).
End Exec.

(* ---------------------------------------------------------------------------------------- *)
(* Interface contract of the clients (checked when an operation is started): free only a slot you
   were given, unlock only a lock you locked, unlock the dependencies only of a task you were
   handed.  Everything else (which operation, when, by whom) is arbitrary. *)
Definition memb (x : nat) (l : list nat) : bool := existsb (Nat.eqb x) l.

Definition wf_choice (s : sys) (t : nat) (c : op) : bool :=
  match tpc (thr s t) with
  | Idle =>
    match c with
    | OFree i => memb i (held (thr s t))
    | OUnlock l => memb l (hlocks (thr s t))
    | OUnlockDep k => memb k (htasks (thr s t))
    | _ => true
    end
  | _ => true
  end.

Fixpoint wf_sched (cfg : config) (sched : list (nat * op)) (s : sys) : bool :=
  match sched with
  | [] => true
  | tc :: r => wf_choice s (fst tc) (snd tc) && wf_sched cfg r (fst (step cfg s (fst tc) (snd tc)))
  end.

(* states reachable by ANY schedule (any threads, any interleaving of the atomic steps, any client
   operations) that respects the contract *)
Definition reachable_wf (cfg : config) (s : sys) : Prop :=
  exists sched, wf_sched cfg sched (init cfg) = true /\ s = run cfg sched (init cfg).

Inductive reach (cfg : config) : sys -> Prop :=
| reach_init : reach cfg (init cfg)
| reach_step : forall s t c, reach cfg s -> wf_choice s t c = true -> reach cfg (fst (step cfg s t c)).

(* observers used by the statements *)
Definition quiescent (cfg : config) (s : sys) : Prop := forall t, t < nthr cfg -> tpc (thr s t) = Idle.
Definition count_flags (cfg : config) (s : sys) : nat :=
  length (filter (fun i => is_some (flags s i)) (seq 0 (psize cfg))).
Definition count_held (cfg : config) (s : sys) : nat :=
  fold_right (fun t a => length (held (thr s t)) + a) 0 (seq 0 (nthr cfg)).
Definition inflight (cfg : config) (s : sys) : nat :=
  length (filter (fun t => match tpc (thr s t) with Idle => false | _ => true end) (seq 0 (nthr cfg))).

(* ---------------------------------------------------------------------------------------- *)
(* The QUIESCENT pool operations of ThreadSafeVector: clear(), clear_after(offset),
   get_free_elements(size).  "This method is not meant to be thread safe": they are plain loops
   over the slot flags followed by plain stores to the counters, and are called by the master
   thread OUTSIDE every parallel region
     TaskBasedIonizationSimulation.cpp            _tasks->clear()  at the end of an iteration
     TaskBasedRadiationHydrodynamicsSimulation.cpp tasks->clear_after(radiation_task_offset)
                                                  after every radiation step ("remove radiation tasks")
     (get_free_elements has no caller in the tree; it is modelled for completeness)
   so one call = ONE model step, enabled only while no thread has a pool operation in flight
   ([pool_quiet]; in particular in every [quiescent] state = after the barrier that ends a parallel
   region).  Contract of the callers (the precondition the code relies on, [qpre]):
     clear_after(offset): "We assume all values before the given offset are in use" - the slots
       [0, offset) are exactly the permanently held ones (the hydro tasks, created first from the
       empty pool and never freed): every flag below offset is set, offset <= _size; that is what
       _number_taken.set(offset) assumes.  Every handle >= offset is dropped by its holder
       (the radiation tasks are forgotten), which the model expresses by removing these slots from
       the client views [held].
     clear(): every handle is dropped.
     get_free_elements(size): the pool is empty and size <= _size; the caller (thread t) becomes
       the holder of slots 0 .. size-1.
   [qexec] itself is total: it performs the assignments of the code whatever the state, so the
   correspondence also runs it outside the contract. *)
Definition wofnat (n : nat) : N := (N.of_nat n mod WORD)%N.       (* a size_t argument *)

Inductive qop :=
| QClear                           (* ThreadSafeVector::clear() *)
| QClearAfter (off : nat)          (* ThreadSafeVector::clear_after(offset) *)
| QGetN (t n : nat).               (* ThreadSafeVector::get_free_elements(size), called by thread t *)

(*  for (i = offset; i < _size; ++i) _locks[i].unlock();
    _number_taken.set(offset); _current_index.set(offset);
    _max_number_taken.set(offset); _total_number_taken.set(offset);
    clear() is the same sequence with offset = 0 (and a fresh element array) *)
Definition pool_reset (cfg : config) (s : sys) (off : nat) : sys :=
  mkSys (fun i => if (off <=? i) && (i <? psize cfg) then None else flags s i)
        (wofnat off) (wofnat off) (wofnat off) (wofnat off)
        (locks s) (ctr s) (lfc s) (mxv s) (queues s)
        (fun t => let ts := thr s t in
                  mkT (tpc ts) (top ts) (filter (fun i => i <? off) (held ts)) (hlocks ts) (htasks ts))
        (hist s).

(*  for (i = 0; i < size; ++i) _locks[i].lock();          (the result of the CAS is ignored)
    _current_index.set(size); _number_taken.set(size);
    _max_number_taken.max(_number_taken.value()); _total_number_taken.pre_add(size); *)
Definition pool_take_block (cfg : config) (s : sys) (t n : nat) : sys :=
  mkSys (fun i => if i <? n then match flags s i with None => Some t | Some x => Some x end else flags s i)
        (wofnat n) (wofnat n) (N.max (wofnat n) (maxtaken s)) (wadd (total s) (wofnat n))
        (locks s) (ctr s) (lfc s) (mxv s) (queues s)
        (fun t' => let ts := thr s t' in
                   if Nat.eqb t' t then mkT (tpc ts) (top ts) (rev (seq 0 n) ++ held ts) (hlocks ts) (htasks ts) else ts)
        (hist s).

Definition qexec (cfg : config) (s : sys) (q : qop) : sys :=
  match q with
  | QClear => pool_reset cfg s 0
  | QClearAfter off => pool_reset cfg s off
  | QGetN t n => pool_take_block cfg s t n
  end.

(* no pool operation in flight *)
Definition pool_pc (p : pc) : bool :=
  match p with
  | G_readTaken | G_fetchCur | G_cas _ | G_incTaken _ | G_maxLoad _ _ | G_maxCas _ _ _ _ | G_totInc _
  | F_cas _ | F_dec _ => true
  | _ => false
  end.
Definition pool_quiet (cfg : config) (s : sys) : Prop :=
  forall t, t < nthr cfg -> pool_pc (tpc (thr s t)) = false.

(* the contract of the callers *)
Definition qpre (cfg : config) (s : sys) (q : qop) : Prop :=
  pool_quiet cfg s /\
  match q with
  | QClear => True
  | QClearAfter off => off <= psize cfg /\ forall i, i < off -> flags s i <> None
  | QGetN t n => t < nthr cfg /\ n <= psize cfg /\ forall i, i < psize cfg -> flags s i = None
  end.

(* the same, decided (used by the drivers of the correspondence to place the calls) *)
Definition qpre_b (cfg : config) (s : sys) (q : qop) : bool :=
  forallb (fun t => negb (pool_pc (tpc (thr s t)))) (seq 0 (nthr cfg)) &&
  match q with
  | QClear => true
  | QClearAfter off => (off <=? psize cfg) && forallb (fun i => is_some (flags s i)) (seq 0 off)
  | QGetN t n => (t <? nthr cfg) && (n <=? psize cfg) && forallb (fun i => negb (is_some (flags s i))) (seq 0 (psize cfg))
  end.

(* reachability with the quiescent operations: any interleaving of atomic steps of the threads, and,
   at any moment at which no pool operation is in flight, a call of clear / clear_after /
   get_free_elements that respects the contract *)
Inductive reachq (cfg : config) : sys -> Prop :=
| rq_init : reachq cfg (init cfg)
| rq_step : forall s t c, reachq cfg s -> wf_choice s t c = true -> reachq cfg (fst (step cfg s t c))
| rq_quiet : forall s q, reachq cfg s -> qpre cfg s q -> reachq cfg (qexec cfg s q).

(* ... as schedules: lists of thread steps and quiescent calls *)
Inductive act := AStep (t : nat) (c : op) | AQuiet (q : qop).
Definition qstep (cfg : config) (s : sys) (a : act) : sys :=
  match a with AStep t c => fst (step cfg s t c) | AQuiet q => qexec cfg s q end.
Definition act_ok (cfg : config) (s : sys) (a : act) : bool :=
  match a with AStep t c => wf_choice s t c | AQuiet q => qpre_b cfg s q end.
Fixpoint wf_acts (cfg : config) (l : list act) (s : sys) : bool :=
  match l with
  | [] => true
  | a :: r => act_ok cfg s a && wf_acts cfg r (qstep cfg s a)
  end.
Definition runq (cfg : config) (l : list act) (s : sys) : sys := fold_left (qstep cfg) l s.
Definition reachable_q (cfg : config) (s : sys) : Prop :=
  exists l, wf_acts cfg l (init cfg) = true /\ s = runq cfg l (init cfg).
