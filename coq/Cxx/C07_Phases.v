(* C07: the phase order of the hydro step holds in EVERY run of the interleaving model.
   phases_ordered g (C07_Base) links, per subgrid, the tasks of consecutive phases by direct child edges; with
   C07_parents_first this gives: a task touching subgrid x never starts before every task of an EARLIER phase that
   touches x has stopped - for every number of threads and every schedule. *)
From Coq Require Import Arith List Bool PeanoNat Lia.
From CMI Require Import Cxx.C07_Defs Cxx.C07_Base Cxx.C07_Proofs.
Import ListNotations.

(* what one step does to the event log *)
Lemma step_log : forall g s l s', step g s l = Some s' ->
  log s' = log s \/ (exists t, log s' = EStart t :: log s) \/
  (exists i t, log s' = EStop t :: log s /\ nth_error (pcs s) i = Some (Run t)).
Proof.
  intros g s [i pick] s' H. unfold step in H.
  destruct (nth_error (pcs s) i) as [p|] eqn:E; [|discriminate].
  destruct p.
  - inversion H; subst; auto.
  - destruct pick as [t|].
    + destruct (memb t (queue s)); [|discriminate].
      destruct (lock_dep (held s) (tk g t)); [|discriminate]. inversion H; subst. right; left. exists t. reflexivity.
    + inversion H; subst; auto.
  - inversion H; subst. right; right. exists i, t. auto.
  - inversion H; subst; auto.
  - destruct (nth_error (children (tk g t)) k); inversion H; subst; auto.
  - inversion H; subst; auto.
  - inversion H; subst; auto.
  - discriminate.
Qed.

(* in the log (newest first) the stop of a task is preceded (further down) by its start *)
Lemma stop_after_start : forall g n sched, wf g -> 1 <= n ->
  forall a b t, log (exec g (init g n) sched) = a ++ EStop t :: b -> In (EStart t) b.
Proof.
  intros g n sched W Hn. induction sched using rev_ind; intros a b t H.
  - simpl in H. destruct a; discriminate.
  - rewrite exec_app in H. pose proof (exec_inv g n sched W Hn) as I.
    destruct (step g (exec g (init g n) sched) x) as [s'|] eqn:E; [|eapply IHsched; eauto].
    destruct (step_log _ _ _ _ E) as [L|[[u L]|[i [u [L R]]]]]; rewrite L in H.
    + eapply IHsched; eauto.
    + destruct a as [|e a]; simpl in H; inversion H. eapply IHsched; eauto.
    + destruct a as [|e a]; simpl in H; inversion H; subst.
      * pose proof (i_pc _ _ I i) as P. unfold pcf in P.
        destruct (nth_error_nth _ _ _ _ Exited R) as [Q _]. rewrite Q in P.
        destruct P as [_ [P _]]. exact P.
      * eapply IHsched; eauto.
Qed.

Section Run.
  Variable g : graph.
  Variable n : nat.
  Variable sched : list label.
  Hypothesis W : wf g.
  Hypothesis PO : phases_ordered g.
  Hypothesis Hn : 1 <= n.
  Let s := exec g (init g n) sched.

  (* a task touching x does not start before every earlier-phase task touching x has stopped *)
  Lemma phases_in_run_aux : forall d l1 l2 t1 t2 x, rk g t2 = S d + rk g t1 ->
    log s = l1 ++ EStart t2 :: l2 -> t1 < length g -> t2 < length g ->
    In x (touches (tk g t1)) -> In x (touches (tk g t2)) -> In (EStop t1) l2.
  Proof.
    induction d; intros l1 l2 t1 t2 x R L H1 H2 T1 T2.
    - apply (parents_first g n sched W Hn l1 l2 t2 t1 L H1).
      apply (po_next g PO x t1 t2); auto.
    - assert (K : rk g t2 - 1 <= 5).
      { unfold rk. destruct (kind (tk g t2)); simpl; lia. }
      destruct (po_chain g PO x t2 (rk g t2 - 1) H2 T2 K) as [t' [H' [T' R']]].
      assert (C : In t2 (children (tk g t'))) by (apply (po_next g PO x t' t2); auto; lia).
      pose proof (parents_first g n sched W Hn l1 l2 t2 t' L H' C) as S'.
      apply in_split in S'. destruct S' as [l3 [l4 E3]].
      assert (ST : In (EStart t') l4).
      { apply (stop_after_start g n sched W Hn (l1 ++ EStart t2 :: l3) l4 t').
        fold s. rewrite L, E3. rewrite <- app_assoc. reflexivity. }
      apply in_split in ST. destruct ST as [l5 [l6 E5]].
      assert (I6 : In (EStop t1) l6).
      { apply (IHd (l1 ++ EStart t2 :: l3 ++ EStop t' :: l5) l6 t1 t' x); auto. lia.
        rewrite L, E3, E5. rewrite <- !app_assoc. simpl. rewrite <- !app_assoc. reflexivity. }
      rewrite E3, E5. apply in_or_app. right. right. apply in_or_app. right. right. exact I6.
  Qed.

  Theorem phases_in_every_run : forall l1 l2 t1 t2 x,
    log s = l1 ++ EStart t2 :: l2 -> t1 < length g -> t2 < length g ->
    In x (touches (tk g t1)) -> In x (touches (tk g t2)) -> rk g t1 < rk g t2 -> In (EStop t1) l2.
  Proof.
    intros l1 l2 t1 t2 x L H1 H2 T1 T2 R.
    apply (phases_in_run_aux (rk g t2 - rk g t1 - 1) l1 l2 t1 t2 x); auto. lia.
  Qed.
End Run.
