(* C08: the quiescent pool operations (clear, clear_after, get_free_elements) of Cxx/C08_Defs.v:
   the pool invariants of Cxx/C08_Proofs.v are invariants of the extended reachability relation
   [reachq], the pool theorems hold for it, and what clear_after / clear / get_free_elements
   establish is stated exactly. *)
From Coq Require Import NArith ZArith List Bool Arith Lia Permutation.
From CMI Require Import Cxx.C08_Defs Cxx.C08_Proofs.
Import ListNotations.

(* ------------------------------------------------------------------------------------------ *)
(* generic: sums *)
Local Open Scope Z_scope.

Lemma sumf_add : forall f g n, sumf (fun i => f i + g i) n = sumf f n + sumf g n.
Proof. induction n; simpl; auto. rewrite IHn. lia. Qed.

Lemma sumf_swap : forall (f : nat -> nat -> Z) n m,
  sumf (fun t => sumf (fun i => f t i) n) m = sumf (fun i => sumf (fun t => f t i) m) n.
Proof.
  induction m; simpl.
  - symmetry. apply sumf_zero. auto.
  - rewrite IHm. symmetry. apply sumf_add.
Qed.

Lemma sumf_single : forall f n k, (k < n)%nat -> (forall i, (i < n)%nat -> i <> k -> f i = 0) -> sumf f n = f k.
Proof.
  induction n; intros k Hk H. lia.
  simpl. destruct (Nat.eq_dec k n) as [->|Hn].
  - rewrite sumf_zero. lia. intros i Hi. apply H; lia.
  - rewrite (IHn k) by (try lia; intros; apply H; lia). rewrite (H n) by lia. lia.
Qed.

Lemma sumf_ltb : forall off n, (off <= n)%nat -> sumf (fun i => b2z (i <? off)%nat) n = Z.of_nat off.
Proof.
  induction n; intros H.
  - simpl. lia.
  - simpl sumf. destruct (Nat.eq_dec off (S n)) as [->|Hn].
    + replace (n <? S n)%nat with true by (symmetry; apply Nat.ltb_lt; lia).
      rewrite (sumf_ext _ (fun _ => 1)).
      * assert (G : forall m, sumf (fun _ => 1) m = Z.of_nat m) by (induction m; simpl; lia).
        rewrite G. simpl b2z. lia.
      * intros i Hi. replace (i <? S n)%nat with true by (symmetry; apply Nat.ltb_lt; lia). reflexivity.
    + rewrite IHn by lia. replace (n <? off)%nat with false by (symmetry; apply Nat.ltb_ge; lia). simpl. lia.
Qed.

Lemma sumf_eqb : forall a n, (a < n)%nat -> sumf (fun i => b2z (Nat.eqb i a)) n = 1.
Proof.
  intros a n Ha. rewrite (sumf_single _ n a Ha).
  - now rewrite Nat.eqb_refl.
  - intros i _ Hi. apply Nat.eqb_neq in Hi. now rewrite Hi.
Qed.

(* the length of a duplicate-free list of numbers below n, as a sum of indicators *)
Lemma length_sumf : forall (l : list nat) n, NoDup l -> (forall i, In i l -> (i < n)%nat) ->
  Z.of_nat (length l) = sumf (fun i => b2z (memb i l)) n.
Proof.
  induction l as [|a r IH]; intros n Hnd Hr.
  - simpl. symmetry. apply sumf_zero. auto.
  - inversion Hnd; subst.
    rewrite (sumf_ext _ (fun i => b2z (Nat.eqb i a) + b2z (memb i r))).
    + rewrite sumf_add, sumf_eqb by (apply Hr; now left).
      rewrite <- IH; auto. simpl length. lia. intros. apply Hr. now right.
    + intros i _. unfold memb. simpl existsb. fold (memb i r).
      destruct (Nat.eqb i a) eqn:E; simpl.
      * apply Nat.eqb_eq in E. subst.
        destruct (memb a r) eqn:M; auto. apply memb_In in M. contradiction.
      * destruct (memb i r); reflexivity.
Qed.

Lemma memb_filter : forall (P : nat -> bool) i l, memb i (filter P l) = P i && memb i l.
Proof.
  intros P i l. destruct (memb i (filter P l)) eqn:A; symmetry.
  - apply memb_In in A. apply filter_In in A. destruct A as [A B]. rewrite B. simpl. now apply memb_In.
  - destruct (P i) eqn:B; auto. simpl. destruct (memb i l) eqn:C; auto.
    apply memb_In in C. assert (In i (filter P l)) by (apply filter_In; auto).
    apply memb_In in H. congruence.
Qed.

Local Close Scope Z_scope.

(* ------------------------------------------------------------------------------------------ *)
(* threads beyond the configured number never move *)
Definition beyond (cfg : config) (s : sys) : Prop := forall t, nthr cfg <= t -> thr s t = idle0.

Lemma beyond_exec : forall cfg s t c, beyond cfg s -> beyond cfg (fst (exec cfg s t c)).
Proof.
  intros cfg s t c B t' Ht'. destruct (Nat.eq_dec t' t) as [->|Hn].
  - rewrite exec_skip. apply B; auto. apply Nat.ltb_ge. lia.
  - rewrite exec_thr_other by auto. apply B; auto.
Qed.

Lemma pool_pc_false : forall p, pool_pc p = false ->
  pc_slot p = None /\ contrib p = 0%Z /\ (forall i, p <> F_cas i) /\ (forall i, p <> G_cas i).
Proof. intros p H. destruct p; simpl in *; try discriminate; repeat split; intros; discriminate. Qed.

Lemma all_quiet : forall cfg s, beyond cfg s -> pool_quiet cfg s -> forall t, pool_pc (tpc (thr s t)) = false.
Proof.
  intros cfg s B Q t. destruct (Nat.lt_ge_cases t (nthr cfg)) as [H|H]; auto.
  rewrite (B t H). reflexivity.
Qed.

Lemma quiescent_pool_quiet : forall cfg s, quiescent cfg s -> pool_quiet cfg s.
Proof. intros cfg s Q t Ht. now rewrite (Q t Ht). Qed.

(* ------------------------------------------------------------------------------------------ *)
(* the combined invariant *)
Record qinv (cfg : config) (s : sys) : Prop := mkQinv {
  qi_pool : pool_inv s;
  qi_occ : occ_inv cfg s;
  qi_beyond : beyond cfg s }.

Lemma wofnat_lt : forall n, (wofnat n < WORD)%N.
Proof. intros. unfold wofnat. apply N.mod_lt. apply WORD_nz. Qed.

Lemma wofnat_Z : forall n, Z.of_N (wofnat n) = (Z.of_nat n mod WZ)%Z.
Proof. intros. unfold wofnat, WZ. rewrite N2Z.inj_mod, nat_N_Z. reflexivity. Qed.

Lemma wofnat_small : forall n, (N.of_nat n < WORD)%N -> wofnat n = N.of_nat n.
Proof. intros. unfold wofnat. now apply N.mod_small. Qed.

Lemma cursor_exec : forall cfg s t c, (cursor s < WORD)%N -> (cursor (fst (exec cfg s t c)) < WORD)%N.
Proof.
  intros cfg s t c I. exec_leaves; auto. cbn. apply N.mod_lt. apply WORD_nz.
Qed.

Lemma qinv_init : forall cfg, qinv cfg (init cfg).
Proof.
  intros cfg. constructor.
  - apply pool_inv_init.
  - apply occ_inv_init.
  - intros t _. reflexivity.
Qed.

Lemma qinv_step : forall cfg s t c, (0 < psize cfg) -> qinv cfg s -> wf_choice s t c = true ->
  qinv cfg (fst (step cfg s t c)).
Proof.
  intros cfg s t c Hp [P O B] W. rewrite step_fst. constructor.
  - apply pool_inv_hist. now apply pool_inv_exec.
  - apply occ_inv_hist. now apply occ_inv_exec.
  - intros t' Ht'. cbn. now apply beyond_exec.
Qed.

(* ------------------------------------------------------------------------------------------ *)
(* counting: with no pool operation in flight, the flags that are set and satisfy P are as many
   as the slots satisfying P in the views of the threads *)
Local Open Scope Z_scope.

Lemma count_owned : forall cfg s (P : nat -> bool),
  pool_inv s -> occ_inv cfg s -> beyond cfg s -> pool_quiet cfg s ->
  sumf (fun i => b2z (P i && is_some (flags s i))) (psize cfg)
  = sumf (fun t => Z.of_nat (length (filter P (held (thr s t))))) (nthr cfg).
Proof.
  intros cfg s P [I1 I2 I3 I4] [O1 O2 O3 O4] B Q.
  pose proof (all_quiet cfg s B Q) as AQ.
  assert (Hown : forall t i, flags s i = Some t <-> In i (held (thr s t))).
  { intros t i. rewrite I1. unfold ownsT. destruct (pool_pc_false _ (AQ t)) as [-> _]. split; [intros [H|H]|]; auto. discriminate. }
  rewrite (sumf_ext (fun t => Z.of_nat (length (filter P (held (thr s t)))))
                    (fun t => sumf (fun i => b2z (memb i (filter P (held (thr s t))))) (psize cfg))).
  2:{ intros t _. apply length_sumf.
      - apply NoDup_filter. apply I2.
      - intros i Hi. apply filter_In in Hi. destruct Hi as [Hi _]. apply O3. apply Hown in Hi. congruence. }
  rewrite sumf_swap. apply sumf_ext. intros i Hi.
  destruct (flags s i) as [t0|] eqn:F.
  - assert (Ht0 : (t0 < nthr cfg)%nat).
    { destruct (Nat.lt_ge_cases t0 (nthr cfg)) as [H|H]; auto. exfalso.
      apply Hown in F. rewrite (B t0 H) in F. contradiction. }
    rewrite (sumf_single _ (nthr cfg) t0 Ht0).
    + rewrite memb_filter. apply Hown in F. apply memb_In in F. rewrite F. reflexivity.
    + intros t _ Hne. rewrite memb_filter. destruct (memb i (held (thr s t))) eqn:M.
      * apply memb_In in M. apply Hown in M. congruence.
      * now rewrite andb_false_r.
  - rewrite andb_false_r. simpl. symmetry. apply sumf_zero. intros t _.
    rewrite memb_filter. destruct (memb i (held (thr s t))) eqn:M.
    + apply memb_In in M. apply Hown in M. congruence.
    + now rewrite andb_false_r.
Qed.

Local Close Scope Z_scope.

(* ------------------------------------------------------------------------------------------ *)
(* clear / clear_after preserve the invariants (under the contract of the callers) *)
Lemma reset_flags_below : forall cfg s off i, i < off -> flags (pool_reset cfg s off) i = flags s i.
Proof.
  intros. unfold pool_reset. cbn [flags]. replace (off <=? i) with false by (symmetry; apply Nat.leb_gt; lia). reflexivity.
Qed.

Lemma reset_flags_above : forall cfg s off i, occ_inv cfg s -> off <= i -> flags (pool_reset cfg s off) i = None.
Proof.
  intros cfg s off i O H. unfold pool_reset. cbn [flags]. replace (off <=? i) with true by (symmetry; apply Nat.leb_le; lia).
  destruct (i <? psize cfg) eqn:E; simpl; auto. apply Nat.ltb_ge in E.
  destruct (flags s i) eqn:F; auto. exfalso. assert (i < psize cfg) by (apply (oi_range _ _ O); congruence). lia.
Qed.

Lemma reset_held : forall cfg s off t, held (thr (pool_reset cfg s off) t) = filter (fun i => i <? off) (held (thr s t)).
Proof. reflexivity. Qed.

Lemma reset_tpc : forall cfg s off t, tpc (thr (pool_reset cfg s off) t) = tpc (thr s t).
Proof. reflexivity. Qed.

Lemma pool_inv_reset : forall cfg s off, qinv cfg s -> pool_quiet cfg s -> pool_inv (pool_reset cfg s off).
Proof.
  intros cfg s off [P O B] Q. pose proof (all_quiet cfg s B Q) as AQ. destruct P as [I1 I2 I3 I4].
  constructor.
  - intros i t. unfold ownsT. rewrite reset_held, reset_tpc. destruct (pool_pc_false _ (AQ t)) as [-> _].
    rewrite filter_In. destruct (Nat.lt_ge_cases i off) as [H|H].
    + rewrite reset_flags_below by auto. rewrite I1. unfold ownsT. destruct (pool_pc_false _ (AQ t)) as [-> _].
      assert ((i <? off) = true) by (apply Nat.ltb_lt; auto). intuition discriminate.
    + rewrite reset_flags_above by auto.
      assert ((i <? off) = false) by (apply Nat.ltb_ge; auto). intuition congruence.
  - intros t. rewrite reset_held. apply NoDup_filter. apply I2.
  - intros t i. rewrite reset_tpc. destruct (pool_pc_false _ (AQ t)) as [-> _]. discriminate.
  - intros t i. rewrite reset_tpc. intros E. destruct (pool_pc_false _ (AQ t)) as [_ [_ [H _]]]. elim (H i E).
Qed.

Local Open Scope Z_scope.

Lemma nset_reset : forall cfg s off, qinv cfg s -> pool_quiet cfg s ->
  nset cfg (pool_reset cfg s off)
  = sumf (fun t => Z.of_nat (length (held (thr (pool_reset cfg s off) t)))) (nthr cfg).
Proof.
  intros cfg s off [P O B] Q. unfold nset.
  rewrite (sumf_ext _ (fun i => b2z ((i <? off)%nat && is_some (flags s i)))).
  - rewrite (count_owned cfg s (fun i => (i <? off)%nat)); auto.
  - intros i Hi. destruct (Nat.lt_ge_cases i off) as [H|H].
    + rewrite reset_flags_below by auto. replace (i <? off)%nat with true by (symmetry; apply Nat.ltb_lt; auto). reflexivity.
    + rewrite reset_flags_above by auto. replace (i <? off)%nat with false by (symmetry; apply Nat.ltb_ge; auto). reflexivity.
Qed.

Lemma nset_reset_pre : forall cfg s off, qinv cfg s ->
  (off <= psize cfg)%nat -> (forall i, (i < off)%nat -> flags s i <> None) ->
  nset cfg (pool_reset cfg s off) = Z.of_nat off.
Proof.
  intros cfg s off [P O B] Hoff Hpre. unfold nset.
  rewrite (sumf_ext _ (fun i => b2z (i <? off)%nat)).
  - now apply sumf_ltb.
  - intros i Hi. destruct (Nat.lt_ge_cases i off) as [H|H].
    + rewrite reset_flags_below by auto. replace (i <? off)%nat with true by (symmetry; apply Nat.ltb_lt; auto).
      destruct (flags s i) eqn:F; auto. elim (Hpre i H F).
    + rewrite reset_flags_above by auto. replace (i <? off)%nat with false by (symmetry; apply Nat.ltb_ge; auto). reflexivity.
Qed.

Lemma occ_inv_reset : forall cfg s off, qinv cfg s -> pool_quiet cfg s ->
  (off <= psize cfg)%nat -> (forall i, (i < off)%nat -> flags s i <> None) ->
  occ_inv cfg (pool_reset cfg s off).
Proof.
  intros cfg s off I Q Hoff Hpre. pose proof I as [P O B]. pose proof (all_quiet cfg s B Q) as AQ.
  constructor.
  - rewrite (nset_reset_pre cfg s off I Hoff Hpre).
    rewrite (sumf_zero (fun t => contrib (tpc (thr (pool_reset cfg s off) t)))).
    + rewrite Z.add_0_r. apply wofnat_Z.
    + intros t _. rewrite reset_tpc. now destruct (pool_pc_false _ (AQ t)) as [_ [-> _]].
  - rewrite (nset_reset cfg s off I Q). apply sumf_ext. intros t _. unfold ownc.
    rewrite reset_tpc. destruct (pool_pc_false _ (AQ t)) as [-> _]. simpl. lia.
  - intros i Hi. apply (oi_range _ _ O). intro E. apply Hi.
    destruct (Nat.lt_ge_cases i off) as [H|H].
    + now rewrite reset_flags_below.
    + now rewrite reset_flags_above.
  - intros t i. rewrite reset_tpc. apply (oi_cas _ _ O).
Qed.

Local Close Scope Z_scope.

Lemma beyond_reset : forall cfg s off, beyond cfg s -> beyond cfg (pool_reset cfg s off).
Proof. intros cfg s off B t Ht. cbn. rewrite (B t Ht). reflexivity. Qed.

Lemma qinv_reset : forall cfg s off, qinv cfg s -> pool_quiet cfg s ->
  off <= psize cfg -> (forall i, i < off -> flags s i <> None) ->
  qinv cfg (pool_reset cfg s off).
Proof.
  intros cfg s off I Q Hoff Hpre. constructor.
  - now apply pool_inv_reset with (cfg := cfg).
  - now apply occ_inv_reset.
  - apply beyond_reset. apply I.
Qed.

(* ------------------------------------------------------------------------------------------ *)
(* get_free_elements on an empty pool *)
Lemma empty_pool_views : forall cfg s, qinv cfg s -> pool_quiet cfg s ->
  (forall i, i < psize cfg -> flags s i = None) ->
  (forall i, flags s i = None) /\ (forall t, held (thr s t) = []).
Proof.
  intros cfg s [P O B] Q E.
  assert (A : forall i, flags s i = None).
  { intros i. destruct (flags s i) eqn:F; auto. assert (L : i < psize cfg) by (apply (oi_range _ _ O); congruence).
    specialize (E i L). congruence. }
  split; auto. intros t. destruct (held (thr s t)) as [|i r] eqn:H; auto. exfalso.
  assert (F : flags s i = Some t) by (apply (pi_flag _ P); left; rewrite H; now left).
  rewrite A in F. discriminate.
Qed.

Lemma take_flags : forall cfg s t n i, (forall j, flags s j = None) ->
  flags (pool_take_block cfg s t n) i = if i <? n then Some t else None.
Proof. intros. unfold pool_take_block. cbn [flags]. rewrite H. destruct (i <? n); reflexivity. Qed.

Lemma take_thr_same : forall cfg s t n, held (thr s t) = [] ->
  held (thr (pool_take_block cfg s t n) t) = rev (seq 0 n) /\ tpc (thr (pool_take_block cfg s t n) t) = tpc (thr s t).
Proof. intros. unfold pool_take_block. cbn [thr]. rewrite Nat.eqb_refl. cbn. rewrite H, app_nil_r. auto. Qed.

Lemma take_thr_other : forall cfg s t n t', t' <> t -> thr (pool_take_block cfg s t n) t' = thr s t'.
Proof. intros. unfold pool_take_block. cbn [thr]. apply Nat.eqb_neq in H. now rewrite H. Qed.

Lemma in_rev_seq : forall n i, In i (rev (seq 0 n)) <-> i < n.
Proof. intros. rewrite <- in_rev, in_seq. lia. Qed.

Lemma qinv_take : forall cfg s t n, qinv cfg s -> pool_quiet cfg s ->
  t < nthr cfg -> n <= psize cfg -> (forall i, i < psize cfg -> flags s i = None) ->
  qinv cfg (pool_take_block cfg s t n).
Proof.
  intros cfg s t n I Q Ht Hn E. destruct (empty_pool_views cfg s I Q E) as [FN HN].
  pose proof I as [P O B]. pose proof (all_quiet cfg s B Q) as AQ.
  destruct (take_thr_same cfg s t n (HN t)) as [Hh Hp].
  assert (Hslot : forall t', pc_slot (tpc (thr (pool_take_block cfg s t n) t')) = None).
  { intros t'. destruct (Nat.eq_dec t' t) as [->|Hne]. rewrite Hp. apply (pool_pc_false _ (AQ t)).
    rewrite take_thr_other by auto. apply (pool_pc_false _ (AQ t')). }
  constructor.
  - constructor.
    + intros i t'. rewrite take_flags by auto. unfold ownsT. rewrite Hslot.
      destruct (Nat.eq_dec t' t) as [->|Hne].
      * rewrite Hh, in_rev_seq. destruct (i <? n) eqn:L.
        -- apply Nat.ltb_lt in L. intuition.
        -- apply Nat.ltb_ge in L. split. discriminate. intros [H|H]. lia. discriminate.
      * rewrite take_thr_other by auto. rewrite HN. destruct (i <? n); split; try congruence; intros [[]|H]; discriminate.
    + intros t'. destruct (Nat.eq_dec t' t) as [->|Hne].
      * rewrite Hh. apply NoDup_rev. apply seq_NoDup.
      * rewrite take_thr_other by auto. apply (pi_nodup _ P).
    + intros t' i. rewrite Hslot. discriminate.
    + intros t' i. destruct (Nat.eq_dec t' t) as [->|Hne].
      * rewrite Hp. intros H. destruct (pool_pc_false _ (AQ t)) as [_ [_ [G _]]]. elim (G i H).
      * rewrite take_thr_other by auto. intros H. destruct (pool_pc_false _ (AQ t')) as [_ [_ [G _]]]. elim (G i H).
  - assert (NS : nset cfg (pool_take_block cfg s t n) = Z.of_nat n).
    { unfold nset. rewrite (sumf_ext _ (fun i => b2z (i <? n))).
      - now apply sumf_ltb.
      - intros i _. rewrite take_flags by auto. destruct (i <? n); reflexivity. }
    constructor.
    + rewrite NS. rewrite (sumf_zero (fun t' => contrib (tpc (thr (pool_take_block cfg s t n) t')))).
      * rewrite Z.add_0_r. apply wofnat_Z.
      * intros t' _. destruct (Nat.eq_dec t' t) as [->|Hne]. rewrite Hp. apply (pool_pc_false _ (AQ t)).
        rewrite take_thr_other by auto. apply (pool_pc_false _ (AQ t')).
    + rewrite NS. rewrite (sumf_single _ (nthr cfg) t Ht).
      * unfold ownc. rewrite Hslot, Hh, rev_length, seq_length. simpl. lia.
      * intros t' _ Hne. unfold ownc. rewrite Hslot. rewrite take_thr_other by auto. rewrite HN. reflexivity.
    + intros i. rewrite take_flags by auto. destruct (i <? n) eqn:L. apply Nat.ltb_lt in L. lia. congruence.
    + intros t' i. destruct (Nat.eq_dec t' t) as [->|Hne].
      * rewrite Hp. apply (oi_cas _ _ O).
      * rewrite take_thr_other by auto. apply (oi_cas _ _ O).
  - intros t' Ht'. rewrite take_thr_other by lia. now apply B.
Qed.

(* ------------------------------------------------------------------------------------------ *)
(* the invariants hold in every state reachable with the quiescent operations *)
Lemma qinv_qexec : forall cfg s q, qinv cfg s -> qpre cfg s q -> qinv cfg (qexec cfg s q).
Proof.
  intros cfg s q I [Q H]. destruct q as [|off|t n]; simpl.
  - apply qinv_reset; auto. lia. intros i Hi. lia.
  - destruct H. now apply qinv_reset.
  - destruct H as [A [B C]]. now apply qinv_take.
Qed.

Lemma qinv_reachq : forall cfg s, 0 < psize cfg -> reachq cfg s -> qinv cfg s.
Proof.
  intros cfg s Hp Hr. induction Hr.
  - apply qinv_init.
  - now apply qinv_step.
  - now apply qinv_qexec.
Qed.

Lemma reach_reachq : forall cfg s, reach cfg s -> reachq cfg s.
Proof. intros cfg s Hr. induction Hr. constructor. now constructor. Qed.

Lemma cursor_reachq : forall cfg s, (cur0 cfg < WORD)%N -> reachq cfg s -> (cursor s < WORD)%N.
Proof.
  intros cfg s H0 Hr. induction Hr; auto.
  - rewrite step_fst. cbn. now apply cursor_exec.
  - destruct q; apply wofnat_lt.
Qed.

(* ------------------------------------------------------------------------------------------ *)
(* the pool theorems for [reachq] *)
Lemma q_slot_exclusive : forall cfg s, 0 < psize cfg -> reachq cfg s ->
  forall t1 t2 i, t1 <> t2 -> holds s t1 i -> ~ holds s t2 i.
Proof.
  intros cfg s Hp Hr t1 t2 i Hn H1 H2. destruct (qinv_reachq cfg s Hp Hr) as [[I1 _ _ _] _ _].
  assert (A : flags s i = Some t1) by (apply I1; now left).
  assert (B : flags s i = Some t2) by (apply I1; now left).
  congruence.
Qed.

Lemma q_slot_exclusive_inflight : forall cfg s, 0 < psize cfg -> reachq cfg s ->
  forall t1 t2 i, t1 <> t2 -> ownsT (thr s t1) i -> ~ ownsT (thr s t2) i.
Proof.
  intros cfg s Hp Hr t1 t2 i Hn H1 H2. destruct (qinv_reachq cfg s Hp Hr) as [[I1 _ _ _] _ _].
  apply I1 in H1. apply I1 in H2. congruence.
Qed.

Lemma q_held_once : forall cfg s, 0 < psize cfg -> reachq cfg s -> forall t, NoDup (held (thr s t)).
Proof. intros cfg s Hp Hr. destruct (qinv_reachq cfg s Hp Hr) as [P _ _]. apply P. Qed.

Lemma q_flag_iff_owned : forall cfg s, 0 < psize cfg -> reachq cfg s ->
  forall i, is_some (flags s i) = true <-> exists t, ownsT (thr s t) i.
Proof.
  intros cfg s Hp Hr i. destruct (qinv_reachq cfg s Hp Hr) as [[I1 _ _ _] _ _]. split.
  - destruct (flags s i) as [t|] eqn:E; simpl; try discriminate. intros _. exists t. now apply I1.
  - intros [t Ho]. apply I1 in Ho. now rewrite Ho.
Qed.

Local Open Scope Z_scope.

(* occupancy counter = slots held = flags set whenever no POOL operation is in flight *)
Lemma occupancy_exact_inv : forall cfg s,
  (N.of_nat (psize cfg) < WORD)%N -> occ_inv cfg s -> pool_quiet cfg s ->
  N.to_nat (taken s) = count_held cfg s /\ count_held cfg s = count_flags cfg s.
Proof.
  intros cfg s Hw [O1 O2 _ _] Hq.
  assert (C0 : sumf (fun t => contrib (tpc (thr s t))) (nthr cfg) = 0).
  { apply sumf_zero. intros t Ht. apply (pool_pc_false _ (Hq t Ht)). }
  assert (H1 : nset cfg s = Z.of_nat (count_held cfg s)).
  { rewrite O2, count_held_sumf. apply sumf_ext. intros t Ht. unfold ownc.
    destruct (pool_pc_false _ (Hq t Ht)) as [-> _]. simpl. lia. }
  rewrite C0, Z.add_0_r in O1.
  pose proof (nset_le_psize cfg s) as B.
  rewrite Z.mod_small in O1 by (unfold WZ; lia).
  split.
  - apply Nat2Z.inj. rewrite <- H1, <- O1. now rewrite N_nat_Z.
  - apply Nat2Z.inj. now rewrite <- H1, count_flags_nset.
Qed.

Lemma q_occupancy_exact_when_pool_quiet : forall cfg s,
  (0 < psize cfg)%nat -> (N.of_nat (psize cfg) < WORD)%N -> reachq cfg s -> pool_quiet cfg s ->
  N.to_nat (taken s) = count_held cfg s /\ count_held cfg s = count_flags cfg s.
Proof. intros cfg s Hp Hw Hr Hq. apply occupancy_exact_inv; auto. apply (qinv_reachq cfg s Hp Hr). Qed.

Lemma q_occupancy_exact_when_quiescent : forall cfg s,
  (0 < psize cfg)%nat -> (N.of_nat (psize cfg) < WORD)%N -> reachq cfg s -> quiescent cfg s ->
  N.to_nat (taken s) = count_held cfg s /\ count_held cfg s = count_flags cfg s.
Proof. intros. apply q_occupancy_exact_when_pool_quiet; auto. now apply quiescent_pool_quiet. Qed.

Lemma q_occupancy_inflight_bound : forall cfg s,
  (0 < psize cfg)%nat -> reachq cfg s ->
  exists d, 0 <= d <= Z.of_nat (inflight cfg s) /\ Z.of_N (taken s) = (Z.of_nat (count_held cfg s) + d) mod WZ.
Proof.
  intros cfg s Hp Hr. destruct (qinv_reachq cfg s Hp Hr) as [_ [O1 O2 _ _] _].
  set (f := fun t => b2z (is_some (pc_slot (tpc (thr s t)))) + contrib (tpc (thr s t))).
  exists (sumf f (nthr cfg)). split.
  - unfold inflight. rewrite filter_count_sumf. apply sumf_bounds. intros t _. unfold f.
    destruct (tpc (thr s t)); simpl; lia.
  - rewrite O1, O2, count_held_sumf. f_equal.
    assert (G : forall n, sumf (fun t => ownc (thr s t)) n + sumf (fun t => contrib (tpc (thr s t))) n
                = sumf (fun t => Z.of_nat (length (held (thr s t)))) n + sumf f n).
    { induction n; simpl. reflexivity. unfold f at 2, ownc at 2. lia. }
    apply G.
Qed.

Local Close Scope Z_scope.

(* a whole get_free_element_safe on a quiescent pool: succeeds if a slot is free ... *)
Lemma get_succeeds_inv : forall cfg s t i,
  occ_inv cfg s -> (cursor s < WORD)%N -> quiescent cfg s -> t < nthr cfg ->
  0 < psize cfg -> (N.of_nat (psize cfg) < WORD)%N ->
  i < psize cfg -> flags s i = None ->
  exists k, acquired (solo cfg t k s) t.
Proof.
  intros cfg s t i O Hc Hq Ht Hp Hpw Hi Hf.
  destruct (occupancy_exact_inv cfg s Hpw O (quiescent_pool_quiet _ _ Hq)) as [O1 O2].
  assert (Htk : (taken s < N.of_nat (psize cfg))%N).
  { pose proof (nset_lt_psize cfg s i Hi Hf) as L. rewrite <- count_flags_nset, <- O2, <- O1 in L. lia. }
  pose proof (Hq t Ht) as Hidle.
  assert (S1 : tpc (thr (solo_step cfg t s) t) = G_readTaken /\ taken (solo_step cfg t s) = taken s
               /\ flags (solo_step cfg t s) = flags s /\ cursor (solo_step cfg t s) = cursor s).
  { unfold solo_step. rewrite step_fst. unfold exec. rewrite (lt_nthr _ _ Ht), Hidle. cbn. rewrite !upd_same. auto. }
  destruct S1 as [P1 [T1 [F1 C1]]]. set (s1 := solo_step cfg t s) in *.
  assert (S2 : tpc (thr (solo_step cfg t s1) t) = G_fetchCur /\ flags (solo_step cfg t s1) = flags s1 /\ cursor (solo_step cfg t s1) = cursor s1).
  { unfold solo_step. rewrite step_fst. unfold exec. rewrite (lt_nthr _ _ Ht), P1, T1.
    apply N.ltb_lt in Htk. rewrite Htk. cbn. rewrite upd_same. auto. }
  destruct S2 as [P2 [F2 C2]]. set (s2 := solo_step cfg t s1) in *.
  destruct (released_becomes_available cfg s2 t i) as [k Hk]; auto; try lia.
  - rewrite F2, F1. exact Hf.
  - exists (S (S k)). exact Hk.
Qed.

Lemma q_get_succeeds_when_quiescent : forall cfg s t i,
  reachq cfg s -> quiescent cfg s -> t < nthr cfg ->
  0 < psize cfg -> (N.of_nat (psize cfg) < WORD)%N -> (cur0 cfg < WORD)%N ->
  i < psize cfg -> flags s i = None ->
  exists k, acquired (solo cfg t k s) t.
Proof.
  intros cfg s t i Hr Hq Ht Hp Hpw Hc0 Hi Hf.
  apply get_succeeds_inv with (i := i); auto.
  - apply (qinv_reachq cfg s Hp Hr).
  - now apply cursor_reachq with (cfg := cfg).
Qed.

(* ... and is refused (returns _size, again and again) if none is: it never spins *)
Lemma get_refused_when_full : forall cfg s t,
  occ_inv cfg s -> quiescent cfg s -> t < nthr cfg -> (N.of_nat (psize cfg) < WORD)%N ->
  (forall i, i < psize cfg -> flags s i <> None) ->
  forall k, ~ acquired (solo cfg t k s) t.
Proof.
  intros cfg s t O Hq Ht Hpw Hfull.
  destruct (occupancy_exact_inv cfg s Hpw O (quiescent_pool_quiet _ _ Hq)) as [O1 O2].
  assert (Hfulln : Z.of_nat (count_flags cfg s) = Z.of_nat (psize cfg)).
  { rewrite count_flags_nset. unfold nset. rewrite (sumf_ext _ (fun i => b2z (i <? psize cfg))).
    - apply sumf_ltb. lia.
    - intros i Hi. replace (i <? psize cfg) with true by (symmetry; now apply Nat.ltb_lt).
      destruct (flags s i) eqn:F; auto. elim (Hfull i Hi F). }
  assert (Htk : (N.of_nat (psize cfg) <= taken s)%N) by lia.
  assert (J : forall k s0, (tpc (thr s0 t) = Idle \/ tpc (thr s0 t) = G_readTaken) -> (N.of_nat (psize cfg) <= taken s0)%N ->
              ~ acquired (solo cfg t k s0) t).
  { induction k; intros s0 Hpc Hk0; cbn [solo].
    - intros [j Hj]. destruct Hpc; congruence.
    - apply IHk.
      + destruct Hpc as [Hpc|Hpc].
        * right. unfold solo_step. rewrite step_fst. unfold exec. rewrite (lt_nthr _ _ Ht), Hpc. cbn. now rewrite !upd_same.
        * left. unfold solo_step. rewrite step_fst. unfold exec. rewrite (lt_nthr _ _ Ht), Hpc.
          apply N.ltb_ge in Hk0. rewrite Hk0. cbn. now rewrite !upd_same.
      + destruct Hpc as [Hpc|Hpc].
        * unfold solo_step. rewrite step_fst. unfold exec. rewrite (lt_nthr _ _ Ht), Hpc. cbn. exact Hk0.
        * unfold solo_step. rewrite step_fst. unfold exec. rewrite (lt_nthr _ _ Ht), Hpc.
          pose proof Hk0 as Hk1. apply N.ltb_ge in Hk1. rewrite Hk1. cbn. exact Hk0. }
  intros k. apply J; auto.
Qed.

Lemma get_succeeds_iff_free_inv : forall cfg s t,
  occ_inv cfg s -> (cursor s < WORD)%N -> quiescent cfg s -> t < nthr cfg ->
  0 < psize cfg -> (N.of_nat (psize cfg) < WORD)%N ->
  ((exists i, i < psize cfg /\ flags s i = None) <-> exists k, acquired (solo cfg t k s) t).
Proof.
  intros cfg s t O Hc Hq Ht Hp Hpw. split.
  - intros [i [Hi Hf]]. now apply get_succeeds_inv with (i := i).
  - intros [k Hk].
    destruct (existsb (fun i => negb (is_some (flags s i))) (seq 0 (psize cfg))) eqn:E.
    + apply existsb_exists in E. destruct E as [i [Hi Hf]]. apply in_seq in Hi. exists i. split. lia.
      destruct (flags s i); auto. discriminate.
    + exfalso. apply (get_refused_when_full cfg s t O Hq Ht Hpw) with (k := k); auto.
      intros i Hi F. assert (X : existsb (fun i => negb (is_some (flags s i))) (seq 0 (psize cfg)) = true).
      { apply existsb_exists. exists i. split. apply in_seq. lia. now rewrite F. }
      congruence.
Qed.

Lemma q_get_succeeds_iff_free : forall cfg s t,
  reachq cfg s -> quiescent cfg s -> t < nthr cfg ->
  0 < psize cfg -> (N.of_nat (psize cfg) < WORD)%N -> (cur0 cfg < WORD)%N ->
  ((exists i, i < psize cfg /\ flags s i = None) <-> exists k, acquired (solo cfg t k s) t).
Proof.
  intros cfg s t Hr Hq Ht Hp Hpw Hc0. apply get_succeeds_iff_free_inv; auto.
  - apply (qinv_reachq cfg s Hp Hr).
  - now apply cursor_reachq with (cfg := cfg).
Qed.

(* ------------------------------------------------------------------------------------------ *)
(* what clear_after establishes.  From ANY reachable state without a pool operation in flight -
   wherever the cursor stands: after the pool was filled to its last slot (cursor = _size), after
   the cursor went around the pool or wrapped at 2^64 - a call that respects the contract leaves:
   the flags set = exactly the slots below off that were held (by the same holders), every slot
   from off onwards free and in nobody's view, occupancy counter = number of slots held = number of
   flags set = off, cursor = off, program counters untouched; and if the state was quiescent a
   following get_free_element_safe obtains a slot iff a slot is free (it is refused, not spinning,
   iff off = _size) *)
Lemma clear_after_establishes : forall cfg s off,
  0 < psize cfg -> (N.of_nat (psize cfg) < WORD)%N -> reachq cfg s -> qpre cfg s (QClearAfter off) ->
  let s' := qexec cfg s (QClearAfter off) in
  (forall i t, flags s' i = Some t <-> i < off /\ holds s t i) /\
  (forall i, is_some (flags s' i) = true <-> i < off) /\
  (forall i, off <= i -> flags s' i = None /\ forall t, ~ holds s' t i) /\
  (forall t i, holds s' t i <-> holds s t i /\ i < off) /\
  (N.to_nat (taken s') = off /\ count_held cfg s' = off /\ count_flags cfg s' = off) /\
  cursor s' = N.of_nat off /\
  (forall t, tpc (thr s' t) = tpc (thr s t)) /\
  (quiescent cfg s -> quiescent cfg s' /\ forall t, t < nthr cfg ->
     ((exists i, i < psize cfg /\ flags s' i = None) <-> exists k, acquired (solo cfg t k s') t)) /\
  reachq cfg s'.
Proof.
  intros cfg s off Hp Hpw Hr Hpre s'.
  pose proof (qinv_reachq cfg s Hp Hr) as I. pose proof Hpre as [Q [Hoff Hbelow]].
  pose proof I as [P O B]. pose proof (all_quiet cfg s B Q) as AQ.
  assert (Hr' : reachq cfg s') by (now apply rq_quiet).
  pose proof (qinv_reachq cfg s' Hp Hr') as [P' O' B'].
  assert (Q' : pool_quiet cfg s') by (intros t Ht; apply (Q t Ht)).
  assert (Hown : forall t i, flags s i = Some t <-> In i (held (thr s t))).
  { intros t i. rewrite (pi_flag _ P). unfold ownsT. destruct (pool_pc_false _ (AQ t)) as [-> _]. split; [intros [H|H]|]; auto. discriminate. }
  assert (Hsmall : wofnat off = N.of_nat off) by (apply wofnat_small; lia).
  assert (Hholds : forall t i, holds s' t i <-> holds s t i /\ i < off).
  { intros t i. unfold holds, s'. simpl qexec. rewrite reset_held, filter_In, Nat.ltb_lt. tauto. }
  assert (Fb : forall i, i < off -> flags s' i = flags s i) by (intros; unfold s'; simpl qexec; now apply reset_flags_below).
  assert (Fa : forall i, off <= i -> flags s' i = None) by (intros; unfold s'; simpl qexec; now apply reset_flags_above).
  assert (C1 : forall i t, flags s' i = Some t <-> i < off /\ holds s t i).
  { intros i t. destruct (Nat.lt_ge_cases i off) as [L|L].
    - rewrite Fb by auto. rewrite Hown. unfold holds. tauto.
    - rewrite Fa by auto. split. discriminate. lia. }
  assert (C2 : forall i, is_some (flags s' i) = true <-> i < off).
  { intros i. destruct (Nat.lt_ge_cases i off) as [L|L].
    - rewrite Fb by auto. destruct (flags s i) eqn:F. simpl. tauto. elim (Hbelow i L F).
    - rewrite Fa by auto. simpl. split. discriminate. lia. }
  assert (C3 : forall i, off <= i -> flags s' i = None /\ forall t, ~ holds s' t i).
  { intros i L. split. now apply Fa. intros t H0. apply Hholds in H0. lia. }
  assert (T : N.to_nat (taken s') = off).
  { unfold s'. simpl qexec. cbn [pool_reset taken]. rewrite Hsmall. apply Nat2N.id. }
  destruct (occupancy_exact_inv cfg s' Hpw O' Q') as [E1 E2].
  assert (C5 : N.to_nat (taken s') = off /\ count_held cfg s' = off /\ count_flags cfg s' = off).
  { repeat split. exact T. now rewrite <- E1. now rewrite <- E2, <- E1. }
  assert (C6 : cursor s' = N.of_nat off) by (unfold s'; simpl qexec; cbn [pool_reset cursor]; exact Hsmall).
  assert (C7 : forall t, tpc (thr s' t) = tpc (thr s t)) by (intros; unfold s'; simpl qexec; apply reset_tpc).
  assert (C8 : quiescent cfg s -> quiescent cfg s' /\ forall t, t < nthr cfg ->
     ((exists i, i < psize cfg /\ flags s' i = None) <-> exists k, acquired (solo cfg t k s') t)).
  { intros Hq. assert (Hq' : quiescent cfg s') by (intros t Ht; rewrite C7; auto). split; auto.
    intros t Ht. apply get_succeeds_iff_free_inv; auto. rewrite C6. lia. }
  exact (conj C1 (conj C2 (conj C3 (conj Hholds (conj C5 (conj C6 (conj C7 (conj C8 Hr')))))))).
Qed.

(* clear(): the pool is as new *)
Lemma clear_establishes : forall cfg s,
  0 < psize cfg -> reachq cfg s -> pool_quiet cfg s ->
  let s' := qexec cfg s QClear in
  (forall i, flags s' i = None) /\ (forall t, held (thr s' t) = []) /\
  taken s' = 0%N /\ cursor s' = 0%N /\ maxtaken s' = 0%N /\ total s' = 0%N /\
  count_held cfg s' = 0 /\ count_flags cfg s' = 0 /\
  (forall t, tpc (thr s' t) = tpc (thr s t)) /\ reachq cfg s'.
Proof.
  intros cfg s Hp Hr Q s'. pose proof (qinv_reachq cfg s Hp Hr) as [P O B].
  assert (Hh : forall t, held (thr s' t) = []).
  { intros t. unfold s'. simpl qexec. rewrite reset_held. induction (held (thr s t)); auto. }
  assert (Hf : forall i, flags s' i = None).
  { intros i. unfold s'. simpl qexec. apply reset_flags_above; auto. lia. }
  assert (Hr' : reachq cfg s') by (apply rq_quiet; auto; split; auto).
  assert (V : taken s' = 0%N /\ cursor s' = 0%N /\ maxtaken s' = 0%N /\ total s' = 0%N) by (repeat split; reflexivity).
  assert (Hp' : forall t, tpc (thr s' t) = tpc (thr s t)) by reflexivity.
  clearbody s'.
  assert (CH : count_held cfg s' = 0).
  { unfold count_held. induction (seq 0 (nthr cfg)) as [|a l IH]; cbn [fold_right]; auto. now rewrite Hh, IH. }
  assert (CF : count_flags cfg s' = 0).
  { unfold count_flags. induction (seq 0 (psize cfg)) as [|a l IH]; cbn [filter]; auto. now rewrite Hf. }
  destruct V as [V1 [V2 [V3 V4]]]. repeat split; auto.
Qed.

(* get_free_elements(n) on an empty pool: the caller holds the block 0 .. n-1 *)
Lemma get_free_elements_establishes : forall cfg s t n,
  0 < psize cfg -> (N.of_nat (psize cfg) < WORD)%N -> reachq cfg s -> qpre cfg s (QGetN t n) ->
  let s' := qexec cfg s (QGetN t n) in
  (forall i t', flags s' i = Some t' <-> i < n /\ t' = t) /\
  (forall i, holds s' t i <-> i < n) /\ (forall t' i, t' <> t -> ~ holds s' t' i) /\
  (N.to_nat (taken s') = n /\ count_held cfg s' = n /\ count_flags cfg s' = n) /\
  cursor s' = N.of_nat n /\ reachq cfg s'.
Proof.
  intros cfg s t n Hp Hpw Hr Hpre s'.
  pose proof (qinv_reachq cfg s Hp Hr) as I. pose proof Hpre as [Q [Ht [Hn E]]].
  destruct (empty_pool_views cfg s I Q E) as [FN HN].
  assert (Hr' : reachq cfg s') by (now apply rq_quiet).
  pose proof (qinv_reachq cfg s' Hp Hr') as [P' O' B'].
  assert (Q' : pool_quiet cfg s').
  { intros t0 Ht0. unfold s'. simpl qexec. destruct (Nat.eq_dec t0 t) as [->|Hne].
    - rewrite (proj2 (take_thr_same cfg s t n (HN t))). auto.
    - rewrite take_thr_other by auto. auto. }
  assert (Hsmall : wofnat n = N.of_nat n) by (apply wofnat_small; lia).
  destruct (occupancy_exact_inv cfg s' Hpw O' Q') as [E1 E2].
  assert (T : N.to_nat (taken s') = n).
  { unfold s'. simpl qexec. cbn [pool_take_block taken]. rewrite Hsmall. apply Nat2N.id. }
  repeat split.
  - unfold s' in H. simpl qexec in H. rewrite take_flags in H by auto. destruct (i <? n) eqn:L; try discriminate. now apply Nat.ltb_lt.
  - unfold s' in H. simpl qexec in H. rewrite take_flags in H by auto. destruct (i <? n); congruence.
  - intros [L ->]. unfold s'. simpl qexec. rewrite take_flags by auto. apply Nat.ltb_lt in L. now rewrite L.
  - unfold holds, s'. simpl qexec. rewrite (proj1 (take_thr_same cfg s t n (HN t))). apply in_rev_seq.
  - unfold holds, s'. simpl qexec. rewrite (proj1 (take_thr_same cfg s t n (HN t))). apply in_rev_seq.
  - intros t' i Hne. unfold holds, s'. simpl qexec. rewrite take_thr_other by auto. rewrite HN. auto.
  - exact T.
  - now rewrite <- E1.
  - now rewrite <- E2, <- E1.
  - unfold s'. simpl qexec. cbn [pool_take_block cursor]. exact Hsmall.
  - exact Hr'.
Qed.

(* ------------------------------------------------------------------------------------------ *)
(* the contract of clear_after at its call site: the block below [off] stays held as long as
   nobody frees one of its slots (the hydro tasks are never freed) and no clear / clear_after with
   a smaller offset is called *)
Lemma flags_exec : forall cfg s t c j,
  flags (fst (exec cfg s t c)) j <> flags s j ->
  (tpc (thr s t) = G_cas j /\ flags s j = None) \/ tpc (thr s t) = F_cas j.
Proof.
  intros cfg s t c j. exec_leaves; try (intros H; exfalso; apply H; reflexivity).
  - cbn. destruct (Nat.eq_dec j i) as [->|Hn]. auto. rewrite upd_other by auto. congruence.
  - cbn. destruct (Nat.eq_dec j i) as [->|Hn]. auto. rewrite upd_other by auto. congruence.
Qed.

Lemma permanent_block_step : forall cfg s t c off,
  (forall i, i < off -> flags s i <> None) ->
  (forall i, i < off -> tpc (thr s t) <> F_cas i) ->
  forall i, i < off -> flags (fst (step cfg s t c)) i <> None.
Proof.
  intros cfg s t c off Hb Hnf i Hi. rewrite step_fst. cbn [set_hist flags].
  destruct (flags (fst (exec cfg s t c)) i) eqn:F; try discriminate.
  destruct (flags_exec cfg s t c i) as [[_ H]|H].
  - rewrite F. intro E. symmetry in E. now apply (Hb i Hi).
  - elim (Hb i Hi H).
  - elim (Hnf i Hi H).
Qed.

Lemma permanent_block_qexec : forall cfg s off off',
  (forall i, i < off -> flags s i <> None) -> off <= off' ->
  forall i, i < off -> flags (qexec cfg s (QClearAfter off')) i <> None.
Proof. intros cfg s off off' Hb Hle i Hi. simpl qexec. rewrite reset_flags_below by lia. auto. Qed.

(* ------------------------------------------------------------------------------------------ *)
(* [reachq] = reachable by a schedule of thread steps and quiescent calls that respects the contracts *)
Lemma forallb_seq : forall (f : nat -> bool) n, forallb f (seq 0 n) = true <-> forall i, i < n -> f i = true.
Proof.
  intros. rewrite forallb_forall. split; intros H i Hi. apply H. apply in_seq. lia. apply H. apply in_seq in Hi. lia.
Qed.

Lemma qpre_b_spec : forall cfg s q, qpre_b cfg s q = true <-> qpre cfg s q.
Proof.
  intros cfg s q. unfold qpre_b, qpre. rewrite andb_true_iff, forallb_seq.
  assert (A : (forall i, i < nthr cfg -> negb (pool_pc (tpc (thr s i))) = true) <-> pool_quiet cfg s).
  { unfold pool_quiet. split; intros H t Ht; specialize (H t Ht). now apply negb_true_iff. now apply negb_true_iff. }
  rewrite A. destruct q as [|off|t n].
  - tauto.
  - rewrite andb_true_iff, Nat.leb_le, forallb_seq.
    assert (B : (forall i, i < off -> is_some (flags s i) = true) <-> (forall i, i < off -> flags s i <> None)).
    { split; intros H i Hi; specialize (H i Hi); destruct (flags s i); simpl in *; congruence. }
    rewrite B. tauto.
  - rewrite !andb_true_iff, Nat.ltb_lt, Nat.leb_le, forallb_seq.
    assert (B : (forall i, i < psize cfg -> negb (is_some (flags s i)) = true) <-> (forall i, i < psize cfg -> flags s i = None)).
    { split; intros H i Hi; specialize (H i Hi); destruct (flags s i); simpl in *; congruence. }
    rewrite B. tauto.
Qed.

Lemma reachable_q_reachq : forall cfg s, reachable_q cfg s <-> reachq cfg s.
Proof.
  intros cfg s. split.
  - intros [l0 [Hwf Hs]]. subst s.
    assert (G : forall l s0, reachq cfg s0 -> wf_acts cfg l s0 = true -> reachq cfg (runq cfg l s0)).
    { induction l as [|a r IH]; simpl; intros s0 Hr Hw; auto.
      apply andb_true_iff in Hw. destruct Hw as [Hw1 Hw2]. apply IH; auto.
      destruct a as [t c|q]; simpl in *. now apply rq_step. apply rq_quiet; auto. now apply qpre_b_spec. }
    apply G; auto. constructor.
  - assert (G : forall a l s0, wf_acts cfg l s0 = true -> act_ok cfg (runq cfg l s0) a = true ->
                wf_acts cfg (l ++ [a]) s0 = true /\ runq cfg (l ++ [a]) s0 = qstep cfg (runq cfg l s0) a).
    { intros a. induction l as [|a1 r IH]; simpl; intros s0 Hw0 Hc.
      - rewrite Hc. auto.
      - apply andb_true_iff in Hw0. destruct Hw0 as [Ha Hb]. rewrite Ha. simpl. apply IH; auto. }
    intros Hr. induction Hr.
    + exists []. split; reflexivity.
    + destruct IHHr as [l [Hw Hs]]. exists (l ++ [AStep t c]). subst s.
      destruct (G (AStep t c) l (init cfg) Hw H) as [G1 G2]. split; auto.
    + destruct IHHr as [l [Hw Hs]]. exists (l ++ [AQuiet q]). subst s.
      destruct (G (AQuiet q) l (init cfg) Hw (proj2 (qpre_b_spec _ _ _) H)) as [G1 G2]. split; auto.
Qed.

(* ------------------------------------------------------------------------------------------ *)
(* Examples: the contract is satisfiable in exactly the situations of interest, and it is needed *)
Definition ex_ca_cfg : config := mkConfig 2 3 ex_none ex_none true 0%N ex_zero ex_zero ex_zero.
(* thread 0 takes slot 0 (the permanent block), thread 1 fills the pool to its last slot: cursor = _size *)
Definition ex_ca_fill : list act := repeat (AStep 0 OGetU) 7 ++ repeat (AStep 1 OGetU) 14.
(* ... then releases slot 1 and takes it again: the cursor goes around the pool (5 > _size) *)
Definition ex_ca_wrap : list act := ex_ca_fill ++ repeat (AStep 1 (OFree 1)) 3 ++ repeat (AStep 1 OGetU) 9.
Definition ex_view (s : sys) :=
  (map (fun i => is_some (flags s i)) [0; 1; 2], cursor s, taken s, held (thr s 0), held (thr s 1)).

Example ex_clear_after_full_pool :
  wf_acts ex_ca_cfg (ex_ca_fill ++ [AQuiet (QClearAfter 1)]) (init ex_ca_cfg) = true /\
  ex_view (runq ex_ca_cfg ex_ca_fill (init ex_ca_cfg)) = ([true; true; true], 3%N, 3%N, [0], [2; 1]) /\
  ex_view (runq ex_ca_cfg (ex_ca_fill ++ [AQuiet (QClearAfter 1)]) (init ex_ca_cfg)) = ([true; false; false], 1%N, 1%N, [0], []).
Proof. vm_compute. auto. Qed.

Example ex_clear_after_wrapped :
  let l := ex_ca_wrap ++ [AQuiet (QClearAfter 1)] ++ repeat (AStep 1 OGet) 8 in
  wf_acts ex_ca_cfg l (init ex_ca_cfg) = true /\
  ex_view (runq ex_ca_cfg ex_ca_wrap (init ex_ca_cfg)) = ([true; true; true], 5%N, 3%N, [0], [1; 2]) /\
  ex_view (runq ex_ca_cfg l (init ex_ca_cfg)) = ([true; true; false], 2%N, 2%N, [0], [1]).
Proof. vm_compute. auto. Qed.

Example ex_get_free_elements_then_clear :
  let l := [AQuiet (QGetN 0 2)] ++ repeat (AStep 1 OGet) 8 in
  wf_acts ex_ca_cfg (l ++ [AQuiet QClear]) (init ex_ca_cfg) = true /\
  ex_view (runq ex_ca_cfg l (init ex_ca_cfg)) = ([true; true; true], 3%N, 3%N, [1; 0], [2]) /\
  ex_view (runq ex_ca_cfg (l ++ [AQuiet QClear]) (init ex_ca_cfg)) = ([false; false; false], 0%N, 0%N, [], []).
Proof. vm_compute. auto. Qed.

(* the contract is necessary: clear_after(off) with a FREE slot below off (here: the empty pool)
   leaves the occupancy counter above the number of slots held, in a quiescent reachable state *)
Lemma clear_after_needs_block_held : exists cfg s off,
  reach cfg s /\ quiescent cfg s /\ off <= psize cfg /\
  N.to_nat (taken (qexec cfg s (QClearAfter off))) <> count_held cfg (qexec cfg s (QClearAfter off)).
Proof.
  exists ex_ca_cfg, (init ex_ca_cfg), 1. split. constructor. split. intros t _. reflexivity.
  split. simpl. lia. vm_compute. discriminate.
Qed.
