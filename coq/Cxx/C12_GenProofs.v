(* C12: obligations on the regenerated programs *)
From Coq Require Import List String Bool.
From CMI Require Import Cxx.C12_Defs Cxx.C12_Proofs Cxx.C12_Gen.
Import ListNotations.

Definition all_safe : bool := forallb (fun x => let '(n, np, st) := x in prog_safe np st) gen_programs.

Lemma all_safe_true : all_safe = true.
Proof. vm_compute. reflexivity. Qed.

Lemma all_lifecycles_safe :
  forall n np st, In (n, np, st) gen_programs -> forall o, exec st cinit o -> o <> Err.
Proof.
  intros n np st Hin. apply (prog_safe_sound np).
  pose proof all_safe_true as H. unfold all_safe in H. rewrite forallb_forall in H.
  exact (H _ Hin).
Qed.

(* the pinned commit's LiveOutputManager: constructor ; destructor as extracted from it (kept for the record) *)
Definition pinned_live_output_manager : stmt :=
  (SSeq (SDeclUninit 1) (SSeq (SAssign 0 PNull) (SSeq (SAssign 2 PNull) (SSeq (SAssign 3 PNull)
   (SSeq (SIf (SSeq (SIf (SAssign 0 PNew) SSkip) (SSeq (SIf (SAssign 1 PNew) SSkip) (SSeq (SIf (SAssign 2 PNew) SSkip) (SIf (SAssign 3 PNew) SSkip)))) SSkip)
   (SSeq (SIfPtr 0 (SDelete 0) SSkip) (SSeq (SIfPtr 1 (SDelete 1) SSkip) (SSeq (SIfPtr 2 (SDelete 2) SSkip) (SIfPtr 3 (SDelete 3) SSkip))))))))).

Lemma pinned_lom_refuted :
  prog_safe 4 pinned_live_output_manager = false /\ exec pinned_live_output_manager cinit Err.
Proof.
  split; [vm_compute; reflexivity|].
  unfold pinned_live_output_manager.
  (* live output disabled: pointer 1 stays uninitialised and the destructor tests it *)
  eapply ex_seq_ok; [apply ex_decl|].
  eapply ex_seq_ok; [apply ex_assign; apply ev_null|].
  eapply ex_seq_ok; [apply ex_assign; apply ev_null|].
  eapply ex_seq_ok; [apply ex_assign; apply ev_null|].
  eapply ex_seq_ok; [apply ex_if_else; apply ex_skip|].
  eapply ex_seq_ok; [apply ex_ifptr_null; [reflexivity|apply ex_skip]|].
  apply ex_seq_err. apply ex_ifptr_err. reflexivity.
Qed.

(* names of the programs the checker rejects (used by the search after a break) *)
Definition rejected : list string :=
  map (fun x => let '(n, np, st) := x in n) (filter (fun x => let '(n, np, st) := x in negb (prog_safe np st)) gen_programs).
