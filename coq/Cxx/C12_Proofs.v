(* C12: soundness of the abstract life-cycle analysis w.r.t. the nondeterministic concrete
   semantics: if the abstract run reports no possible error, then for EVERY resolution of the
   uninterpreted conditions (i.e. every combination of configuration flags) and every number of
   loop iterations no uninitialised or freed pointer is read, tested or deleted. *)
From Coq Require Import List Bool Arith Lia.
From CMI Require Import Cxx.C12_Defs.
Import ListNotations.

Definition gamma (a : astate) (s : cstate) : Prop := forall p, vmem (s p) (aget a p) = true.

Lemma aget_nil p : aget [] p = vU.
Proof. unfold aget. destruct p; reflexivity. Qed.
Lemma aget_cons0 x r : aget (x :: r) 0 = x. Proof. reflexivity. Qed.
Lemma aget_consS x r p : aget (x :: r) (S p) = aget r p. Proof. reflexivity. Qed.

Lemma aget_aset_same s p v : aget (aset s p v) p = v.
Proof.
  revert s. induction p as [|p IH]; intros s; destruct s as [|x r]; cbn [aset]; try reflexivity;
    rewrite aget_consS; apply IH.
Qed.

Lemma aget_aset_other s p q v : q <> p -> aget (aset s p v) q = aget s q.
Proof.
  revert s q. induction p as [|p IH]; intros s q H; destruct s as [|x r]; destruct q as [|q]; cbn [aset];
    try lia; rewrite ?aget_consS, ?aget_cons0, ?aget_nil; try reflexivity.
  - rewrite IH by lia. apply aget_nil.
  - apply IH. lia.
Qed.

Lemma vmem_join_l v a b : vmem v a = true -> vmem v (vjoin a b) = true.
Proof. destruct v; cbn; intros ->; reflexivity. Qed.
Lemma vmem_join_r v a b : vmem v b = true -> vmem v (vjoin a b) = true.
Proof. destruct v; cbn; intros ->; apply orb_true_r. Qed.

Lemma aget_map f (Hf : f vU = vU) a : forall p, aget (map f a) p = f (aget a p).
Proof.
  induction a as [|x r IH]; intros p; cbn [map].
  - rewrite aget_nil. symmetry. exact Hf.
  - destruct p; [reflexivity|]. rewrite !aget_consS. apply IH.
Qed.

Lemma aget_ajoin a : forall b p, aget (ajoin a b) p = vjoin (aget a p) (aget b p).
Proof.
  induction a as [|x r IH]; intros b p.
  - cbn [ajoin]. rewrite aget_map by reflexivity. rewrite aget_nil. reflexivity.
  - destruct b as [|y t].
    + cbn [ajoin]. rewrite (aget_map (fun x => vjoin x vU)) by reflexivity. rewrite aget_nil. reflexivity.
    + cbn [ajoin]. destruct p; [reflexivity|]. rewrite !aget_consS. apply IH.
Qed.

Lemma gamma_join_l a b s : gamma a s -> gamma (ajoin a b) s.
Proof. intros H p. rewrite aget_ajoin. apply vmem_join_l. apply H. Qed.
Lemma gamma_join_r a b s : gamma b s -> gamma (ajoin a b) s.
Proof. intros H p. rewrite aget_ajoin. apply vmem_join_r. apply H. Qed.

Lemma vleb_sound a b v : vleb a b = true -> vmem v a = true -> vmem v b = true.
Proof.
  unfold vleb. intros H. apply andb_prop in H as [H H4]. apply andb_prop in H as [H H3]. apply andb_prop in H as [H1 H2].
  destruct v; cbn; intros E; rewrite E in *; cbn in *; assumption.
Qed.

Lemma aleb_get a : forall b p, aleb a b = true -> vleb (aget a p) (aget b p) = true.
Proof.
  induction a as [|x r IH]; intros b p H.
  - rewrite aget_nil. cbn [aleb] in H. rewrite forallb_forall in H.
    unfold aget. destruct (nth_in_or_default p b vU) as [Hin|Hd].
    + apply H. exact Hin.
    + rewrite Hd. reflexivity.
  - destruct b as [|y t]; cbn [aleb] in H; apply andb_prop in H as [H1 H2].
    + rewrite aget_nil. destruct p; [exact H1|]. rewrite aget_consS.
      specialize (IH [] p H2). rewrite aget_nil in IH. exact IH.
    + destruct p; [exact H1|]. rewrite !aget_consS. apply IH. exact H2.
Qed.

Lemma aleb_sound a b s : aleb a b = true -> gamma a s -> gamma b s.
Proof. intros H G p. eapply vleb_sound; [apply aleb_get; exact H|apply G]. Qed.

Lemma gamma_aset a s p v x : gamma a s -> vmem x v = true -> gamma (aset a p v) (cupd s p x).
Proof.
  intros G H q. unfold cupd. destruct (Nat.eqb_spec q p) as [->|Hne].
  - rewrite aget_aset_same. exact H.
  - rewrite aget_aset_other by exact Hne. apply G.
Qed.

(* refining the abstract value of p to something that still contains the concrete value *)
Lemma gamma_refine a s p v : gamma a s -> vmem (s p) v = true -> gamma (aset a p v) s.
Proof.
  intros G H q. destruct (Nat.eq_dec q p) as [->|Hne].
  - rewrite aget_aset_same. exact H.
  - rewrite aget_aset_other by exact Hne. apply G.
Qed.

Lemma vbad_false_readable a v : vbad a = false -> vmem v a = true -> readable v = true.
Proof. unfold vbad. intros H. apply orb_false_elim in H as [H1 H2]. destruct v; cbn; intros E; congruence. Qed.

Lemma aeval_sound a s e : gamma a s -> snd (aeval a e) = false ->
  (forall r, eval_exp s e r -> exists x, r = Some x /\ vmem x (fst (aeval a e)) = true).
Proof.
  intros G He r Hr. destruct Hr; cbn in *.
  - eexists; split; reflexivity.
  - eexists; split; reflexivity.
  - eexists; split; reflexivity.
  - eexists; split; reflexivity.
  - eexists; split; [reflexivity|]. specialize (G q). destruct (s q); cbn in *; try discriminate; exact G.
  - exfalso. pose proof (vbad_false_readable _ _ He (G q)). congruence.
Qed.

(* the loop iteration returns a post-fixpoint above its argument *)
Section Loop.
  Variable fuel : nat.
  Variable body : astate -> astate * bool.
  Definition iter :=
    fix iter (n : nat) (inv : astate) : astate * bool :=
      match n with
      | O => (inv, true)
      | S n' =>
        let '(s1, e1) := body inv in
        if e1 then (inv, true)
        else if aleb s1 inv then (inv, false)
        else iter n' (ajoin inv s1)
      end.

  Lemma iter_post n : forall a inv, iter n a = (inv, false) ->
    (forall s, gamma a s -> gamma inv s) /\ exists s1, body inv = (s1, false) /\ aleb s1 inv = true.
  Proof.
    induction n as [|n IH]; intros a inv H; cbn [iter] in H; [discriminate|].
    destruct (body a) as [s1 e1] eqn:Eb. destruct e1; [discriminate|].
    destruct (aleb s1 a) eqn:El.
    - injection H as <-. split; [auto|]. exists s1. auto.
    - destruct (IH _ _ H) as [G P]. split; [|exact P].
      intros s Gs. apply G. apply gamma_join_l. exact Gs.
  Qed.
End Loop.

Definition post (a' : astate) (o : outcome) : Prop :=
  match o with Err => False | Ok s' => gamma a' s' end.

Theorem aexec_sound fuel : forall st s o, exec st s o ->
  forall A A', aexec fuel st A = (A', false) -> gamma A s -> post A' o.
Proof.
  induction 1; intros A A' HA G; cbn [aexec] in HA; cbn [post].
  - injection HA as <-. exact G.
  - injection HA as <-. apply gamma_aset; [exact G|reflexivity].
  - destruct (aeval A e) as [av err] eqn:Ee. injection HA as <- ->.
    destruct (aeval_sound A s e G ltac:(rewrite Ee; reflexivity) _ H) as [x [Hx Hm]].
    injection Hx as <-. rewrite Ee in Hm. apply gamma_aset; assumption.
  - destruct (aeval A e) as [av err] eqn:Ee. injection HA as <- ->.
    destruct (aeval_sound A s e G ltac:(rewrite Ee; reflexivity) _ H) as [x [Hx _]]. discriminate.
  - injection HA as <- Hb. apply gamma_aset; [exact G|].
    specialize (G p). rewrite H in G. cbn in *. exact G.
  - injection HA as <- Hb. apply gamma_refine; [exact G|].
    specialize (G p). rewrite H in *. cbn in *. exact G.
  - injection HA as _ Hb. pose proof (vbad_false_readable _ _ Hb (G p)). congruence.
  - injection HA as <- Hb. apply gamma_refine; [exact G|].
    specialize (G p). destruct (s p); cbn in *; try discriminate; exact G.
  - injection HA as _ Hb. pose proof (vbad_false_readable _ _ Hb (G p)). congruence.
  - destruct (aexec fuel a A) as [s1a e1] eqn:E1. destruct (aexec fuel b s1a) as [s2a e2] eqn:E2.
    injection HA as <- He. apply orb_false_elim in He as [-> ->].
    apply (IHexec2 s1a s2a E2). apply (IHexec1 A s1a E1 G).
  - destruct (aexec fuel a A) as [s1a e1] eqn:E1. destruct (aexec fuel b s1a) as [s2a e2] eqn:E2.
    injection HA as <- He. apply orb_false_elim in He as [-> ->].
    apply (IHexec A s1a E1 G).
  - (* if (p): p is live *)
    pose proof (G p) as Gp. rewrite H in Gp. cbn in Gp. rewrite Gp in HA.
    destruct (aexec fuel a (aset A p (vsingle Live))) as [sa ea] eqn:Ea.
    destruct (if hasN (aget A p) then aexec fuel b (aset A p (vsingle Null)) else (A, false)) as [sb eb] eqn:Eb.
    injection HA as Hres He.
    apply orb_false_elim in He as [He ->]. apply orb_false_elim in He as [_ ->].
    assert (P : post sa o).
    { apply (IHexec _ _ Ea). apply gamma_refine; [exact G|]. rewrite H. reflexivity. }
    destruct (hasN (aget A p)); subst A'; destruct o; cbn [post] in *; try exact P; try contradiction.
    apply gamma_join_l. exact P.
  - pose proof (G p) as Gp. rewrite H in Gp. cbn in Gp. rewrite Gp in HA.
    destruct (if hasL (aget A p) then aexec fuel a (aset A p (vsingle Live)) else (A, false)) as [sa ea] eqn:Ea.
    destruct (aexec fuel b (aset A p (vsingle Null))) as [sb eb] eqn:Eb.
    injection HA as Hres He.
    apply orb_false_elim in He as [He ->]. apply orb_false_elim in He as [_ Hea].
    assert (P : post sb o).
    { apply (IHexec _ _ Eb). apply gamma_refine; [exact G|]. rewrite H. reflexivity. }
    destruct (hasL (aget A p)); subst A'; destruct o; cbn [post] in *; try exact P; try contradiction.
    apply gamma_join_r. exact P.
  - destruct (if hasL (aget A p) then _ else _) as [sa ea]. destruct (if hasN (aget A p) then _ else _) as [sb eb].
    injection HA as _ He. apply orb_false_elim in He as [He _]. apply orb_false_elim in He as [Hb _].
    pose proof (vbad_false_readable _ _ Hb (G p)). congruence.
  - destruct (aexec fuel a A) as [sa ea] eqn:Ea. destruct (aexec fuel b A) as [sb eb] eqn:Eb.
    injection HA as <- He. apply orb_false_elim in He as [-> ->].
    pose proof (IHexec _ _ Ea G) as P. destruct o; cbn [post] in *; [apply gamma_join_l; exact P|exact P].
  - destruct (aexec fuel a A) as [sa ea] eqn:Ea. destruct (aexec fuel b A) as [sb eb] eqn:Eb.
    injection HA as <- He. apply orb_false_elim in He as [-> ->].
    pose proof (IHexec _ _ Eb G) as P. destruct o; cbn [post] in *; [apply gamma_join_r; exact P|exact P].
  - (* loop, zero iterations *)
    change (iter (aexec fuel a) fuel A = (A', false)) in HA.
    destruct (iter_post _ _ _ _ HA) as [Gi _]. apply Gi. exact G.
  - (* loop, one more iteration *)
    change (iter (aexec fuel a) fuel A = (A', false)) in HA.
    destruct (iter_post _ _ _ _ HA) as [Gi [s1a [Eb El]]].
    assert (G1 : gamma A' s1).
    { eapply aleb_sound; [exact El|]. apply (IHexec1 _ _ Eb). apply Gi. exact G. }
    (* the abstract loop started from its own result is stable (needs at least one unit of fuel, which HA implies) *)
    apply (IHexec2 A' A'); [|exact G1].
    cbn [aexec]. destruct fuel as [|f]; [cbn in HA; discriminate|].
    change (iter (aexec (S f) a) (S f) A' = (A', false)). cbn [iter]. rewrite Eb, El. reflexivity.
  - change (iter (aexec fuel a) fuel A = (A', false)) in HA.
    destruct (iter_post _ _ _ _ HA) as [Gi [s1a [Eb El]]].
    apply (IHexec _ _ Eb). apply Gi. exact G.
Qed.

Lemma gamma_init np : gamma (init_state np) cinit.
Proof. intros p. unfold init_state. rewrite aget_nil. reflexivity. Qed.

(* the statement used by the property file: a program the checker accepts cannot go wrong *)
Theorem prog_safe_sound np st : prog_safe np st = true ->
  forall o, exec st cinit o -> o <> Err.
Proof.
  unfold prog_safe. intros H o Hex ->.
  destruct (aexec 64 st (init_state np)) as [a' e] eqn:E. cbn in H. destruct e; [discriminate|].
  exact (aexec_sound 64 st cinit Err Hex _ _ E (gamma_init np)).
Qed.

Fixpoint max_ptr (st : stmt) : nat :=
  match st with
  | SSkip => 0
  | SDeclUninit p | SDelete p | SRead p => S p
  | SAssign p e => Nat.max (S p) (match e with PCopy q => S q | _ => 0 end)
  | SSeq a b | SIf a b => Nat.max (max_ptr a) (max_ptr b)
  | SIfPtr p a b => Nat.max (S p) (Nat.max (max_ptr a) (max_ptr b))
  | SLoop a => max_ptr a
  end.
