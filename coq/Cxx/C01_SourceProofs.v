(* C01, source side: proofs about C01_SourceDefs.v *)
From Coq Require Import List Arith Bool Lia.
From CMI Require Import Cxx.C01_SourceDefs.
Import ListNotations.

Lemma sum_app a b : sum (a ++ b) = sum a + sum b.
Proof. induction a as [|x a IH]; cbn [app sum fold_right]; [reflexivity|]. unfold sum in *. rewrite IH. lia. Qed.

Lemma sum_cons x l : sum (x :: l) = x + sum l.
Proof. reflexivity. Qed.

Lemma sum_ind_map a m c :
  sum (map (fun i => a + (if i <? m then 1 else 0)) (seq 0 c)) = c * a + Nat.min m c.
Proof.
  induction c as [|c IH]; [cbn; lia|].
  rewrite seq_S, map_app, sum_app, IH. cbn [map plus]. rewrite sum_cons. cbn [sum fold_right].
  destruct (Nat.ltb_spec c m); lia.
Qed.

Lemma sum_expand n c : 1 <= c -> sum (expand n c) = n.
Proof.
  intros Hc. unfold expand, per_copy. rewrite sum_ind_map.
  pose proof (Nat.mod_upper_bound n c ltac:(lia)) as Hm.
  pose proof (Nat.div_mod n c ltac:(lia)) as Hd.
  rewrite Nat.min_l by lia. lia.
Qed.

Lemma length_expand n c : length (expand n c) = c.
Proof. unfold expand. rewrite map_length, seq_length. reflexivity. Qed.

Lemma build_spec ss : forall tot ovh,
  Forall (fun s => 1 <= snd s) ss ->
  Forall (fun i => i < length tot) ovh ->
  let r := build ss tot ovh in
  sum (fst r) = sum tot + sum (map fst ss)
  /\ length (fst r) = length tot + sum (map snd ss)
  /\ length (snd r) = length ovh + length ss
  /\ Forall (fun i => i < length (fst r)) (snd r).
Proof.
  induction ss as [|[n c] r IH]; intros tot ovh Hc Ho; cbn [build map fst snd length].
  - repeat split; try (cbn; lia). exact Ho.
  - inversion Hc as [|? ? H1 H2]; subst. cbn [snd] in H1.
    assert (Ho' : Forall (fun i => i < length (tot ++ expand n c)) (ovh ++ [length tot + n mod c])).
    { apply Forall_app. split.
      - eapply Forall_impl; [|exact Ho]. cbn beta. intros a Ha. rewrite app_length. lia.
      - constructor; [|constructor]. rewrite app_length, length_expand.
        pose proof (Nat.mod_upper_bound n c ltac:(lia)). lia. }
    destruct (IH (tot ++ expand n c) (ovh ++ [length tot + n mod c]) H2 Ho') as [A [B [C D]]].
    rewrite sum_app, sum_expand in A by exact H1. rewrite app_length, length_expand in B. rewrite app_length in C. cbn [length] in C.
    rewrite !sum_cons. repeat split; try lia. exact D.
Qed.

Lemma incr_spec l : forall i, i < length l -> sum (incr l i) = S (sum l) /\ length (incr l i) = length l.
Proof.
  induction l as [|x l IH]; intros i Hi; [cbn in Hi; lia|].
  destruct i as [|j]; cbn [incr].
  - rewrite !sum_cons. cbn [length]. lia.
  - cbn [length] in Hi. destruct (IH j ltac:(lia)) as [A B]. rewrite !sum_cons, A. cbn [length]. lia.
Qed.

Lemma add_overhead_spec ovh draws : forall tot,
  Forall (fun i => i < length tot) ovh -> Forall (fun d => d < length ovh) draws ->
  sum (add_overhead tot ovh draws) = sum tot + length draws /\ length (add_overhead tot ovh draws) = length tot.
Proof.
  unfold add_overhead. induction draws as [|d r IH]; intros tot Ho Hd; cbn [fold_left length]; [lia|].
  inversion Hd as [|? ? H1 H2]; subst.
  assert (Hs : nth d ovh 0 < length tot).
  { rewrite Forall_forall in Ho. apply Ho. apply nth_In. exact H1. }
  destruct (incr_spec tot _ Hs) as [A B].
  destruct (IH (incr tot (nth d ovh 0))) as [C D].
  - rewrite B. exact Ho.
  - exact H2.
  - rewrite C, D, A, B. lia.
Qed.

(* the constructor: the per-copy totals add up to the floors plus the remainder packets, one entry per source copy *)
Theorem totals_sum ss draws :
  Forall (fun s => 1 <= snd s) ss -> Forall (fun d => d < length ss) draws ->
  sum (totals ss draws) = sum (map fst ss) + length draws /\ length (totals ss draws) = sum (map snd ss).
Proof.
  intros Hc Hd. unfold totals.
  pose proof (build_spec ss [] [] Hc (Forall_nil _)) as H. cbv zeta in H.
  destruct (build ss [] []) as [t o]. cbn [fst snd length sum fold_right] in H. destruct H as [A [B [C D]]].
  destruct (add_overhead_spec o draws t D) as [E F].
  - rewrite C. exact Hd.
  - rewrite E, F. unfold sum in *. lia.
Qed.

Theorem totals_exact N ss draws k :
  Forall (fun s => 1 <= snd s) ss -> Forall (fun d => d < length ss) draws ->
  num_overhead N ss = Some k -> length draws = k -> sum (totals ss draws) = N.
Proof.
  intros Hc Hd Hn Hl. destruct (totals_sum ss draws Hc Hd) as [A _]. unfold num_overhead in Hn.
  destruct (Nat.leb_spec (sum (map fst ss)) N); [|discriminate]. injection Hn as <-. lia.
Qed.

(* the floors exceed the request (weights add up to more than one): the code's size_t subtraction wraps *)
Theorem num_overhead_wraps N ss : N < sum (map fst ss) -> num_overhead N ss = None.
Proof. intros H. unfold num_overhead. destruct (Nat.leb_spec (sum (map fst ss)) N); [lia|reflexivity]. Qed.

(* ---------- batches ---------- *)
Lemma get_batch_spec d t cap : 1 <= cap -> d <= t ->
  let '(k, d') := get_batch d t cap in
  d' = d + k /\ d' <= t /\ k <= cap /\ (k = 0 <-> d = t).
Proof.
  intros Hc Hd. unfold get_batch. destruct (Nat.eqb_spec d t) as [->|Hne]; [lia|].
  repeat split; try lia.
Qed.

Definition sizes_ok (cap : nat) (ts : list (nat * nat)) := Forall (fun e => 1 <= snd e <= cap) ts.

Lemma rr_pass_spec cap : 1 <= cap -> forall dn tot i, Forall2 le dn tot ->
  let '(ts, dn', s) := rr_pass cap i dn tot in
  Forall2 le dn' tot /\ sum dn' = sum dn + s /\ sum (map snd ts) = s /\ sizes_ok cap ts
  /\ (sum dn < sum tot -> 1 <= s).
Proof.
  intros Hc dn tot i H. revert i. induction H as [|d t dr tr Hdt Hr IH]; intros i; cbn [rr_pass].
  - repeat split; try constructor; cbn; lia.
  - pose proof (get_batch_spec d t cap Hc Hdt) as G. destruct (get_batch d t cap) as [k d'].
    specialize (IH (S i)). destruct (rr_pass cap (S i) dr tr) as [[ts dn'] s].
    destruct G as [G1 [G2 [G3 G4]]]. destruct IH as [I1 [I2 [I3 [I4 I5]]]].
    repeat split.
    + constructor; assumption.
    + rewrite !sum_cons. lia.
    + rewrite map_app, sum_app. destruct (Nat.ltb_spec 0 k); cbn [map snd sum fold_right]; unfold sum in *; lia.
    + unfold sizes_ok. apply Forall_app. split; [|exact I4].
      destruct (Nat.ltb_spec 0 k); [|constructor]. constructor; [cbn [snd]; lia|constructor].
    + rewrite !sum_cons. intros Hlt. destruct (Nat.eq_dec d t) as [->|Hne]; [|lia].
      assert (sum dr < sum tr) by lia. specialize (I5 H). lia.
Qed.

Lemma Forall2_le_sum dn tot : Forall2 le dn tot -> sum dn <= sum tot /\ (sum dn = sum tot -> dn = tot).
Proof.
  induction 1 as [|d t dr tr H1 H2 [IH1 IH2]]; [split; auto|].
  rewrite !sum_cons. split; [lia|]. intros E. assert (d = t) by lia. assert (sum dr = sum tr) by lia.
  subst. f_equal. auto.
Qed.

(* the while loop over passes: terminates, hands out every packet of every source copy exactly once *)
Theorem rr_loop_spec cap : 1 <= cap -> forall fuel dn tot done_sum,
  Forall2 le dn tot -> done_sum = sum dn -> sum tot - sum dn < fuel ->
  exists ts, rr_loop fuel cap (sum tot) done_sum dn tot = Some (ts, tot, sum tot)
    /\ sum (map snd ts) = sum tot - sum dn /\ sizes_ok cap ts.
Proof.
  intros Hc. induction fuel as [|f IH]; intros dn tot ds H2 Hds Hf; [lia|].
  cbn [rr_loop]. destruct (Forall2_le_sum dn tot H2) as [Hle Heq].
  destruct (Nat.ltb_spec ds (sum tot)) as [Hlt|Hge].
  - pose proof (rr_pass_spec cap Hc dn tot 0 H2) as P.
    destruct (rr_pass cap 0 dn tot) as [[ts dn'] s]. destruct P as [P1 [P2 [P3 [P4 P5]]]].
    specialize (P5 ltac:(lia)).
    destruct (Forall2_le_sum dn' tot P1) as [Hle' _].
    destruct (IH dn' tot (ds + s) P1 ltac:(lia) ltac:(lia)) as [ts2 [E [S1 S2]]].
    rewrite E. exists (ts ++ ts2). repeat split.
    + rewrite map_app, sum_app. lia.
    + apply Forall_app. split; assumption.
  - assert (sum dn = sum tot) by lia. rewrite (Heq H) in *. exists []. repeat split; [f_equal; f_equal; lia|cbn; lia|constructor].
Qed.

(* ---------- continuous source ---------- *)
Lemma sum_map_const {A} (l : list A) b : sum (map (fun _ => b) l) = length l * b.
Proof. induction l as [|x l IH]; [reflexivity|]. cbn [map length]. rewrite sum_cons, IH. lia. Qed.

Theorem cont_tasks_spec n b nblocks : 1 <= b -> 1 <= nblocks ->
  sum (map snd (cont_tasks n b nblocks)) = n /\ sizes_ok b (cont_tasks n b nblocks)
  /\ Forall (fun e => fst e < nblocks) (cont_tasks n b nblocks).
Proof.
  intros Hb Hn. unfold cont_tasks.
  pose proof (Nat.div_mod n b ltac:(lia)) as Hd. pose proof (Nat.mod_upper_bound n b ltac:(lia)) as Hm.
  repeat split.
  - rewrite map_app, sum_app, map_map. cbn [snd]. rewrite sum_map_const, seq_length.
    destruct (Nat.ltb_spec 0 (n mod b)); cbn [map snd sum fold_right]; lia.
  - apply Forall_app. split.
    + apply Forall_forall. intros e He. apply in_map_iff in He as [k [<- _]]. cbn [snd]. lia.
    + destruct (Nat.ltb_spec 0 (n mod b)); [|constructor]. constructor; [cbn [snd]; lia|constructor].
  - apply Forall_app. split.
    + apply Forall_forall. intros e He. apply in_map_iff in He as [k [<- _]]. cbn [fst]. apply Nat.mod_upper_bound. lia.
    + destruct (Nat.ltb_spec 0 (n mod b)); [|constructor]. constructor; [cbn [fst]; apply Nat.mod_upper_bound; lia|constructor].
Qed.

Lemma Forall2_zero_le tot : Forall2 le (map (fun _ => 0) tot) tot.
Proof. induction tot; constructor; [lia|assumption]. Qed.

Lemma sum_zero (tot : list nat) : sum (map (fun _ => 0) tot) = 0.
Proof. rewrite sum_map_const. lia. Qed.

(* the source tasks of one iteration carry exactly the requested number of packets, in batches of 1..cap packets *)
Theorem all_source_sizes_spec cap ndiscrete ncont nblocks tot :
  1 <= cap -> 1 <= nblocks -> sum tot = ndiscrete ->
  exists l, all_source_sizes cap ndiscrete ncont nblocks tot = Some l
    /\ sum l = ndiscrete + ncont /\ Forall (fun k => 1 <= k <= cap) l.
Proof.
  intros Hc Hn Hs. unfold all_source_sizes. subst ndiscrete.
  destruct (rr_loop_spec cap Hc (S (sum tot)) (map (fun _ => 0) tot) tot 0 (Forall2_zero_le tot))
    as [ts [E [S1 S2]]]; [rewrite sum_zero; reflexivity|rewrite sum_zero; lia|].
  rewrite E. destruct (cont_tasks_spec ncont cap nblocks Hc Hn) as [C1 [C2 _]].
  eexists. split; [reflexivity|]. rewrite sum_zero in S1. split.
  - rewrite sum_app. lia.
  - apply Forall_app. split; apply Forall_forall; intros k Hk; apply in_map_iff in Hk as [e [<- He]].
    + unfold sizes_ok in S2. rewrite Forall_forall in S2. apply S2. exact He.
    + unfold sizes_ok in C2. rewrite Forall_forall in C2. apply C2. exact He.
Qed.

(* premises are satisfiable: 2 sources (the second with 2 copies), 1001 packets, floors 333 + 667, one remainder packet *)
Example totals_example : totals [(333, 1); (667, 3)] [1] = [333; 223; 223; 222] /\ num_overhead 1001 [(333, 1); (667, 3)] = Some 1.
Proof. split; reflexivity. Qed.
Example sizes_example : all_source_sizes 200 1001 450 4 [333; 223; 223; 222]
  = Some [200; 200; 200; 200; 133; 23; 23; 22; 200; 200; 50].
Proof. reflexivity. Qed.
