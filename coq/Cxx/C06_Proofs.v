(* C06: lemmas about the models of Cxx/C06_Defs.v.
   Part 1: the real-number instance [OR] and the theorems over R
           (hydrogen-only balance, coolant normalisations, one H/He iteration).
   Part 2: facts that hold for EVERY scalar type / operations / oracle (fuel, loop shape of the
           temperature iteration, abort only from the pre-check).
   Part 3: corollaries for R and for binary64 (PrimFloat; FloatAxioms specs), and the vm_compute
           witnesses for the defects D6 (weak field -> NaN coolant fractions) and D9 (cancellation). *)
From Coq Require Import Reals Lra Lia Psatz Bool List.
From Coq Require Floats.
From CMI Require Import Cxx.C06_Defs.
Local Open Scope R_scope.

Definition Rltb (x y : R) : bool := if Rlt_dec x y then true else false.
Definition Rleb (x y : R) : bool := if Rle_dec x y then true else false.
Definition Reqb (x y : R) : bool := if Req_EM_T x y then true else false.

Definition rcst (k : cname) : R :=
  match k with
  | K0 => 0 | K1 => 1 | K2 => 2 | K4 => 4 | Khalf => 0.5 | Kquarter => 0.25
  | K1em10 => 1e-10 | K1em14 => 1e-14
  | K1em20 => 1e-20 | K417em20 => 4.17e-20 | K1em4 => 1e-4 | Km0861 => -0.861 | K099 => 0.99
  | Kmhalf => -0.5 | K09 => 0.9 | K77 => 77 | K1em3 => 1e-3
  | K500 => 500 | K4000 => 4000 | K8000 => 8000 | K11 => 1.1 | Km99 => -99 | K99 => 99
  | K1e10 => 1e10 | K30000 => 30000
  end.

Definition OR : ops R :=
  mkOps R Rplus Rminus Rmult Rdiv sqrt Rabs Rltb Rleb Reqb Rpower exp ln rcst.

Lemma Rltb_true x y : Rltb x y = true <-> x < y.
Proof. unfold Rltb; destruct (Rlt_dec x y); split; intros; auto; try lra; try discriminate. Qed.
Lemma Rltb_false x y : Rltb x y = false <-> y <= x.
Proof. unfold Rltb; destruct (Rlt_dec x y); split; intros; auto; try lra; try discriminate. Qed.
Lemma Rleb_true x y : Rleb x y = true <-> x <= y.
Proof. unfold Rleb; destruct (Rle_dec x y); split; intros; auto; try lra; try discriminate. Qed.
Lemma Rleb_false x y : Rleb x y = false <-> y < x.
Proof. unfold Rleb; destruct (Rle_dec x y); split; intros; auto; try lra; try discriminate. Qed.
Lemma Reqb_true x y : Reqb x y = true <-> x = y.
Proof. unfold Reqb; destruct (Req_EM_T x y); split; intros; auto; try lra; try discriminate. Qed.
Lemma Reqb_false x y : Reqb x y = false <-> x <> y.
Proof. unfold Reqb; destruct (Req_EM_T x y); split; intros; auto; try lra; try discriminate; try contradiction. Qed.

Ltac dec2 := try (replace 0.5 with (/2) in * by lra); try (replace 0.25 with (/4) in * by lra).
Ltac fld := dec2; field.
Ltac rb := cbn [OR add sub mul div sqrtF absF ltb leb eqb powF expF logF cst rcst].

(* ---------- hydrogen ---------- *)
Definition xroot (aa : R) : R := 1 / (1 + aa * (1 + sqrt (2 / aa + 1))).

Lemma s_sq aa : 0 < aa -> aa * (sqrt (2 / aa + 1) * sqrt (2 / aa + 1)) = 2 + aa.
Proof.
  intros H. rewrite sqrt_sqrt.
  - field. lra.
  - assert (0 < 2 / aa) by (apply Rdiv_lt_0_compat; lra). lra.
Qed.

Lemma s_gt1 aa : 0 < aa -> 1 < sqrt (2 / aa + 1).
Proof.
  intros H. assert (0 < 2 / aa) by (apply Rdiv_lt_0_compat; lra).
  rewrite <- sqrt_1 at 1. apply sqrt_lt_1; lra.
Qed.

Lemma exact_variants aa : 0 < aa -> 1 + aa * (1 - sqrt (2 / aa + 1)) = xroot aa.
Proof.
  intros H. unfold xroot. pose proof (s_sq aa H) as Hs. pose proof (s_gt1 aa H) as Hg.
  set (s := sqrt (2 / aa + 1)) in *.
  assert (Hd : 0 < 1 + aa * (1 + s)) by nra.
  apply Rmult_eq_reg_r with (1 + aa * (1 + s)); [| lra].
  unfold Rdiv. rewrite Rmult_assoc, Rinv_l by lra. nra.
Qed.
Lemma xroot_pos aa : 0 < aa -> 0 < xroot aa < 1.
Proof.
  intros H. unfold xroot. pose proof (s_gt1 aa H) as Hg.
  set (s := sqrt (2 / aa + 1)) in *.
  assert (Hd : 1 < 1 + aa * (1 + s)) by nra.
  split.
  - apply Rdiv_lt_0_compat; lra.
  - apply Rmult_lt_reg_r with (1 + aa * (1 + s)); [lra|].
    unfold Rdiv. rewrite Rmult_assoc, Rinv_l by lra. lra.
Qed.

(* x solves x^2 - (2 + 2 aa) x + 1 = 0 *)
Lemma xroot_quadratic aa : 0 < aa -> (1 - xroot aa) * (1 - xroot aa) = 2 * aa * xroot aa.
Proof.
  intros H. rewrite <- (exact_variants aa H).
  pose proof (s_sq aa H) as Hs. set (s := sqrt (2 / aa + 1)) in *. nra.
Qed.

Lemma xroot_lower aa : 0 < aa -> 1 / (3 + 2 * aa) <= xroot aa.
Proof.
  intros H. unfold xroot. pose proof (s_sq aa H) as Hs. pose proof (s_gt1 aa H) as Hg.
  set (s := sqrt (2 / aa + 1)) in *.
  assert (aa * s <= 2 + aa) by nra.
  assert (0 < 1 + aa * (1 + s)) by nra.
  unfold Rdiv. rewrite !Rmult_1_l. apply Rinv_le_contravar; nra.
Qed.

Lemma xroot_decreasing a1 a2 : 0 < a1 -> a1 < a2 -> xroot a2 < xroot a1.
Proof.
  intros H1 H12. assert (H2 : 0 < a2) by lra.
  unfold xroot.
  pose proof (s_sq a1 H1) as Hs1. pose proof (s_gt1 a1 H1) as Hg1.
  pose proof (s_sq a2 H2) as Hs2. pose proof (s_gt1 a2 H2) as Hg2.
  set (s1 := sqrt (2 / a1 + 1)) in *. set (s2 := sqrt (2 / a2 + 1)) in *.
  assert (Hp1 : 0 < a1 * s1) by nra. assert (Hp2 : 0 < a2 * s2) by nra.
  assert (Hsq : (a1 * s1) * (a1 * s1) < (a2 * s2) * (a2 * s2)) by nra.
  assert (Hlt : a1 * s1 < a2 * s2) by nra.
  unfold Rdiv. rewrite !Rmult_1_l. apply Rinv_lt_contravar; nra.
Qed.
Definition aa_of (a j n : R) : R := 0.5 * j / (n * a).

Lemma aa_pos a j n : 0 < a -> 0 < j -> 0 < n -> 0 < aa_of a j n.
Proof. intros. unfold aa_of. apply Rdiv_lt_0_compat; nra. Qed.

Lemma hyd_unfold d9 a j n : 0 < j -> 0 < n ->
  hyd R OR d9 a j n =
    let aa := aa_of a j n in
    let bb := 2 / aa in
    if Rltb bb 1e-10 then maxF R OR 1e-14 (0.25 * bb)
    else maxF R OR 1e-14 (if d9 then 1 + aa * (1 - sqrt (bb + 1)) else 1 / (1 + aa * (1 + sqrt (bb + 1)))).
Proof.
  intros Hj Hn. unfold hyd, hyd_aa, aa_of. rb.
  assert (E1 : Rltb 0 j = true) by (apply Rltb_true; lra).
  assert (E2 : Rltb 0 n = true) by (apply Rltb_true; lra).
  rewrite E1, E2. reflexivity.
Qed.

Lemma maxF_R x y : maxF R OR x y = Rmax x y.
Proof.
  unfold maxF. rb. unfold Rltb, Rmax. destruct (Rlt_dec x y), (Rle_dec x y); try reflexivity; lra.
Qed.

Lemma hyd_exact_eq d9 a j n : 0 < a -> 0 < j -> 0 < n -> 1e-10 <= 2 / aa_of a j n ->
  hyd R OR d9 a j n = xroot (aa_of a j n).
Proof.
  intros Ha Hj Hn Hb. rewrite hyd_unfold by assumption. cbv zeta.
  pose proof (aa_pos a j n Ha Hj Hn) as Hp. set (aa := aa_of a j n) in *.
  assert (E : Rltb (2 / aa) 1e-10 = false) by (apply Rltb_false; lra).
  rewrite E, maxF_R.
  assert (Hx : (if d9 then 1 + aa * (1 - sqrt (2 / aa + 1)) else 1 / (1 + aa * (1 + sqrt (2 / aa + 1)))) = xroot aa).
  { destruct d9; [apply exact_variants; assumption | reflexivity]. }
  rewrite Hx. apply Rmax_right.
  pose proof (xroot_lower aa Hp) as Hl.
  assert (Hub : aa <= 2e10).
  { apply Rmult_le_reg_r with (1e-10); [lra|].
    apply Rmult_le_compat_r with (r := aa) in Hb; [|lra].
    assert (E2 : 2 / aa * aa = 2) by (field; lra). lra. }
  assert (1e-14 <= 1 / (3 + 2 * aa)).
  { assert (E3 : 1 / (3 + 2 * aa) * (3 + 2 * aa) = 1) by (field; lra).
    apply Rmult_le_reg_r with (3 + 2 * aa); [lra|]. rewrite E3. nra. }
  lra.
Qed.
Lemma aa_C a j n : 0 < a -> 0 < n -> aa_of a j n = 0.5 * (j / (n * a)).
Proof. intros. unfold aa_of. fld. nra. Qed.

Lemma h_only_solves_balance_lem : forall d9 a j n, 0 < a -> 0 < j -> 0 < n -> 1e-10 <= 2 / aa_of a j n ->
  let x := hyd R OR d9 a j n in
  n * a * ((1 - x) * (1 - x)) = j * x /\ 0 < x < 1 /\ x = xroot (aa_of a j n).
Proof.
  intros d9 a j n Ha Hj Hn Hb x. subst x. rewrite hyd_exact_eq by assumption.
  pose proof (aa_pos a j n Ha Hj Hn) as Hp.
  pose proof (xroot_quadratic _ Hp) as Hq. pose proof (xroot_pos _ Hp) as Hx.
  split; [|split; [assumption|reflexivity]].
  rewrite Hq. assert (E : n * a * (2 * aa_of a j n) = j) by (unfold aa_of; fld; nra).
  transitivity ((n * a * (2 * aa_of a j n)) * xroot (aa_of a j n)); [ring | rewrite E; reflexivity].
Qed.

Lemma h_only_monotone_exact_lem : forall d9 a1 j1 n1 a2 j2 n2,
  0 < a1 -> 0 < j1 -> 0 < n1 -> 0 < a2 -> 0 < j2 -> 0 < n2 ->
  1e-10 <= 2 / aa_of a1 j1 n1 -> 1e-10 <= 2 / aa_of a2 j2 n2 ->
  j1 / (n1 * a1) < j2 / (n2 * a2) ->
  hyd R OR d9 a2 j2 n2 < hyd R OR d9 a1 j1 n1.
Proof.
  intros. rewrite !hyd_exact_eq by assumption.
  apply xroot_decreasing; [apply aa_pos; assumption|].
  rewrite !aa_C by assumption. lra.
Qed.

Lemma hyd_series_eq d9 a j n : 0 < a -> 0 < j -> 0 < n -> 2 / aa_of a j n < 1e-10 ->
  hyd R OR d9 a j n = Rmax 1e-14 (n * a / j).
Proof.
  intros Ha Hj Hn Hb. rewrite hyd_unfold by assumption. cbv zeta.
  assert (E : Rltb (2 / aa_of a j n) 1e-10 = true) by (apply Rltb_true; lra).
  rewrite E, maxF_R. f_equal. unfold aa_of. fld. repeat split; lra.
Qed.

Lemma h_only_monotone_series_lem : forall d9 a1 j1 n1 a2 j2 n2,
  0 < a1 -> 0 < j1 -> 0 < n1 -> 0 < a2 -> 0 < j2 -> 0 < n2 ->
  2 / aa_of a1 j1 n1 < 1e-10 -> 2 / aa_of a2 j2 n2 < 1e-10 ->
  j1 / (n1 * a1) <= j2 / (n2 * a2) ->
  hyd R OR d9 a2 j2 n2 <= hyd R OR d9 a1 j1 n1.
Proof.
  intros d9 a1 j1 n1 a2 j2 n2 ? ? ? ? ? ? ? ? Hc. rewrite !hyd_series_eq by assumption.
  apply Rle_max_compat_l.
  assert (E1 : n1 * a1 / j1 = / (j1 / (n1 * a1))) by (field; repeat split; nra).
  assert (E2 : n2 * a2 / j2 = / (j2 / (n2 * a2))) by (field; repeat split; nra).
  rewrite E1, E2. apply Rinv_le_contravar; [|assumption].
  apply Rdiv_lt_0_compat; nra.
Qed.

(* series branch, result above the floor: the relative defect of the balance equation is <= 2 x = 2 n alpha / J *)
Lemma h_only_series_defect_lem : forall d9 a j n, 0 < a -> 0 < j -> 0 < n -> 2 / aa_of a j n < 1e-10 ->
  1e-14 <= n * a / j ->
  let x := hyd R OR d9 a j n in
  x = n * a / j /\ Rabs (n * a * ((1 - x) * (1 - x)) - j * x) <= (2 * x) * (j * x).
Proof.
  intros d9 a j n Ha Hj Hn Hb Hf x. subst x. rewrite hyd_series_eq by assumption.
  rewrite Rmax_right by assumption. split; [reflexivity|].
  set (x := n * a / j).
  assert (Hx : j * x = n * a) by (unfold x; field; lra).
  assert (Hx0 : 0 < x) by (unfold x; apply Rdiv_lt_0_compat; nra).
  assert (Hx1 : x < 1).
  { assert (Haa : aa_of a j n = 0.5 / x) by (unfold aa_of, x; fld; repeat split; lra).
    rewrite Haa in Hb. assert (E : 2 / (0.5 / x) = 4 * x) by (fld; lra). rewrite E in Hb. lra. }
  rewrite Hx. replace (n * a * ((1 - x) * (1 - x)) - n * a) with (- (n * a * (x * (2 - x)))) by ring.
  assert (Hnn : 0 <= n * a * (x * (2 - x))).
  { apply Rmult_le_pos; [apply Rmult_le_pos; lra | apply Rmult_le_pos; lra]. }
  rewrite Rabs_Ropp, Rabs_pos_eq by exact Hnn.
  assert (Hna : 0 < n * a) by (apply Rmult_lt_0_compat; lra).
  clear Hb Hf Hx. nra.
Qed.

Lemma h_only_range_lem : forall d9 a j n, 0 < a -> 1e-14 <= hyd R OR d9 a j n <= 1.
Proof.
  intros d9 a j n Ha.
  destruct (Rlt_dec 0 j) as [Hj|Hj]; [destruct (Rlt_dec 0 n) as [Hn|Hn]|].
  - destruct (Rlt_dec (2 / aa_of a j n) 1e-10) as [Hb|Hb].
    + rewrite hyd_series_eq by assumption.
      assert (n * a / j < 1).
      { pose proof (aa_pos a j n Ha Hj Hn).
        assert (E : n * a / j = 0.25 * (2 / aa_of a j n)) by (unfold aa_of; fld; repeat split; lra).
        rewrite E. lra. }
      split; [apply Rmax_l | apply Rmax_lub; lra].
    + destruct (h_only_solves_balance_lem d9 a j n Ha Hj Hn) as (_ & Hx & He); [lra|].
      cbv zeta in *. split; [|lra].
      rewrite hyd_unfold by assumption. cbv zeta.
      assert (E : Rltb (2 / aa_of a j n) 1e-10 = false) by (apply Rltb_false; lra).
      rewrite E, maxF_R. apply Rmax_l.
  - unfold hyd. rb. assert (E : Rltb 0 n = false) by (apply Rltb_false; lra). rewrite E, andb_false_r. lra.
  - unfold hyd. rb. assert (E : Rltb 0 j = false) by (apply Rltb_false; lra). rewrite E. cbn [andb]. lra.
Qed.

(* the seam between the two branches: J1 < J2 but x(J1) < x(J2)  (relative size 1e-11) *)
Lemma h_only_seam_lem : forall d9,
  exists j1 j2, 0 < j1 < j2 /\ hyd R OR d9 1 j1 1 < hyd R OR d9 1 j2 1.
Proof.
  intros d9. exists (4e10 - 1), (4e10 + 0.5). split; [lra|].
  assert (A1 : aa_of 1 (4e10 - 1) 1 = 2e10 - 0.5) by (unfold aa_of; lra).
  assert (A2 : aa_of 1 (4e10 + 0.5) 1 = 2e10 + 0.25) by (unfold aa_of; lra).
  rewrite hyd_exact_eq; try lra.
  2:{ rewrite A1. apply Rmult_le_reg_r with (2e10 - 0.5); [lra|].
      assert (E : 2 / (2e10 - 0.5) * (2e10 - 0.5) = 2) by (field; lra). rewrite E. lra. }
  rewrite hyd_series_eq; try lra.
  2:{ rewrite A2. apply Rmult_lt_reg_r with (2e10 + 0.25); [lra|].
      assert (E : 2 / (2e10 + 0.25) * (2e10 + 0.25) = 2) by (field; lra). rewrite E. lra. }
  rewrite A1. eapply Rlt_le_trans; [|apply Rmax_r].
  unfold xroot. set (aa := 2e10 - 0.5). assert (Hp : 0 < aa) by (unfold aa; lra).
  pose proof (s_sq aa Hp) as Hs. pose proof (s_gt1 aa Hp) as Hg. set (s := sqrt (2 / aa + 1)) in *.
  assert (Hlt : 2e10 < aa * s).
  { assert (0 < aa * s) by nra. assert (2e10 * 2e10 < (aa * s) * (aa * s)) by (unfold aa in *; nra). nra. }
  replace (1 * 1 / (4e10 + 0.5)) with (1 / (4e10 + 0.5)) by (field; lra).
  unfold Rdiv. rewrite !Rmult_1_l. apply Rinv_lt_contravar; unfold aa in *; nra.
Qed.
(* D9: both variants of the exact branch are the same real function *)
Lemma d9_variants_equal_lem : forall a j n, 0 < a -> hyd R OR true a j n = hyd R OR false a j n.
Proof.
  intros a j n Ha.
  destruct (Rlt_dec 0 j) as [Hj|Hj]; [destruct (Rlt_dec 0 n) as [Hn|Hn]|].
  - rewrite !hyd_unfold by assumption. cbv zeta.
    destruct (Rltb (2 / aa_of a j n) 1e-10); [reflexivity|].
    f_equal. rewrite exact_variants by (apply aa_pos; assumption). reflexivity.
  - unfold hyd. rb. assert (E : Rltb 0 n = false) by (apply Rltb_false; lra). rewrite E, andb_false_r. reflexivity.
  - unfold hyd. rb. assert (E : Rltb 0 j = false) by (apply Rltb_false; lra). rewrite E. reflexivity.
Qed.

(* the hypotheses of the theorems are satisfiable *)
Example ex_exact_branch : 0 < 4e-19 /\ 0 < 1e-8 /\ 0 < 1e8 /\ 1e-10 <= 2 / aa_of 4e-19 1e-8 1e8.
Proof.
  unfold aa_of. repeat split; lra.
Qed.
Example ex_step_hyp : 0 < hhe_ch R OR 1 0 0.1 8000 0.5 (if Rltb 0 0.5 then 0.5 else 0).
Proof. unfold hhe_ch. rb. unfold Rdiv. rewrite !Rmult_0_l. lra. Qed.
(* ---------- coolants ---------- *)
Lemma inv_one_plus D : 1 <= D -> 0 < 1 / D /\ (1 / D) * D = 1.
Proof. intros. split; [apply Rdiv_lt_0_compat; lra | field; lra]. Qed.

Lemma frac2_bounded_lem r21 r32 : 0 <= r21 -> 0 <= r32 ->
  let f := frac2 R OR r21 r32 in
  0 <= fst f <= 1 /\ 0 <= snd f <= 1 /\ fst f + snd f <= 1.
Proof.
  intros H1 H2. unfold frac2. rb. cbn [fst snd].
  assert (H31 : 0 <= r32 * r21) by (apply Rmult_le_pos; lra).
  set (r31 := r32 * r21) in *.
  destruct (inv_one_plus (1 + r21 + r31)) as [Hi He]; [lra|].
  set (s := 1 / (1 + r21 + r31)) in *. nra.
Qed.

Lemma frac3_bounded_lem r21 r32 r43 : 0 <= r21 -> 0 <= r32 -> 0 <= r43 ->
  let f := frac3 R OR r21 r32 r43 in
  0 <= fst (fst f) <= 1 /\ 0 <= snd (fst f) <= 1 /\ 0 <= snd f <= 1
  /\ fst (fst f) + snd (fst f) + snd f <= 1.
Proof.
  intros H1 H2 H3. unfold frac3. rb. cbn [fst snd].
  assert (H31 : 0 <= r32 * r21) by (apply Rmult_le_pos; lra).
  set (r31 := r32 * r21) in *.
  assert (H41 : 0 <= r43 * r31) by (apply Rmult_le_pos; lra).
  set (r41 := r43 * r31) in *.
  destruct (inv_one_plus (1 + r21 + r31 + r41)) as [Hi He]; [lra|].
  set (s := 1 / (1 + r21 + r31 + r41)) in *. nra.
Qed.

Definition rates_ok (Rt : rates R) : Prop :=
  (forall i, 0 < alpha Rt i) /\ (forall i, 0 <= ctrH Rt i) /\ (forall i, 0 <= ctrHe Rt i) /\ (forall i, 0 <= ctiH Rt i).

Lemma ratio_nonneg num d1 d2 d3 : 0 <= num -> 0 < d1 -> 0 <= d2 -> 0 <= d3 -> 0 <= num / (d1 + d2 + d3).
Proof. intros. apply Rmult_le_pos; [assumption|]. apply Rlt_le, Rinv_0_lt_compat. lra. Qed.

Section MetalsR.
Variable Rt : rates R.
Variable j : ion -> R.
Variables ne nh0 nhe0 nhp : R.
Hypothesis Hr : rates_ok Rt.
Hypothesis Hj : forall i, 0 <= j i.
Hypothesis Hne : 0 < ne.
Hypothesis Hnh0 : 0 <= nh0.
Hypothesis Hnhe0 : 0 <= nhe0.
Hypothesis Hnhp : 0 <= nhp.

Let Ha i : 0 < ne * alpha Rt i.
Proof. destruct Hr as (A & _). apply Rmult_lt_0_compat; auto. Qed.
Let Hh i : 0 <= nh0 * ctrH Rt i.
Proof. destruct Hr as (_ & A & _). apply Rmult_le_pos; auto. Qed.
Let Hhe i : 0 <= nhe0 * ctrHe Rt i.
Proof. destruct Hr as (_ & _ & A & _). apply Rmult_le_pos; auto. Qed.
Let Hi i : 0 <= nhp * ctiH Rt i.
Proof. destruct Hr as (_ & _ & _ & A). apply Rmult_le_pos; auto. Qed.

Ltac rat := rb; first
  [ apply ratio_nonneg; auto; fail
  | match goal with |- 0 <= ?n / (?a + ?b) => replace (a + b) with (a + b + 0) by ring; apply ratio_nonneg; auto; try lra end
  | match goal with |- 0 <= ?n / ?a => replace a with (a + 0 + 0) by ring; apply ratio_nonneg; auto; try lra end ].

Lemma ratios_nonneg :
  0 <= C21 R OR Rt j ne /\ 0 <= C32 R OR Rt j ne nh0 nhe0 /\
  0 <= N21 R OR Rt j ne nh0 nhp /\ 0 <= N32 R OR Rt j ne nh0 nhe0 /\ 0 <= N43 R OR Rt j ne nh0 nhe0 /\
  0 <= O21 R OR Rt j ne nh0 nhp /\ 0 <= O32 R OR Rt j ne nh0 nhe0 /\
  0 <= Ne21 R OR Rt j ne /\ 0 <= Ne32 R OR Rt j ne nh0 nhe0 /\
  0 <= S21 R OR Rt j ne nh0 /\ 0 <= S32 R OR Rt j ne nh0 nhe0 /\ 0 <= S43 R OR Rt j ne nh0 nhe0.
Proof.
  unfold C21, C32, N21, N32, N43, O21, O32, Ne21, Ne32, S21, S32, S43.
  assert (HN : 0 <= j N_n + nhp * ctiH Rt N_n) by (pose proof (Hj N_n); pose proof (Hi N_n); lra).
  assert (HO : 0 <= j O_n + nhp * ctiH Rt O_n) by (pose proof (Hj O_n); pose proof (Hi O_n); lra).
  repeat split; rat.
Qed.

Lemma metal_fractions_bounded_lem : forall old,
  let f := metals R OR Rt j ne nh0 nhe0 nhp old in
  (forall i, In i metal_ions -> 0 <= f i <= 1) /\
  f C_p1 + f C_p2 <= 1 /\ f N_n + f N_p1 + f N_p2 <= 1 /\ f O_n + f O_p1 <= 1 /\
  f Ne_n + f Ne_p1 <= 1 /\ f S_p1 + f S_p2 + f S_p3 <= 1.
Proof.
  intros old f.
  destruct ratios_nonneg as (c1 & c2 & n1 & n2 & n3 & o1 & o2 & e1 & e2 & s1 & s2 & s3).
  pose proof (frac2_bounded_lem _ _ c1 c2) as FC.
  pose proof (frac3_bounded_lem _ _ _ n1 n2 n3) as FN.
  pose proof (frac2_bounded_lem _ _ o1 o2) as FO.
  pose proof (frac2_bounded_lem _ _ e1 e2) as FE.
  pose proof (frac3_bounded_lem _ _ _ s1 s2 s3) as FS.
  cbv zeta in FC, FN, FO, FE, FS.
  subst f. unfold metals.
  split; [| repeat split; tauto].
  intros i Hin. cbn [metal_ions In] in Hin.
  repeat (destruct Hin as [<- | Hin]; [tauto|]). contradiction.
Qed.
End MetalsR.
(* ---------- one iteration of the H/He loop ---------- *)
(* both quadratic solves have the shape  p x^2 - (p + q + 1) x + q = 0  *)
Lemma root_bounds p q : 0 < p -> 0 < q ->
  let b := p + q + 1 in
  0 < (b - sqrt (b * b - 4 * p * q)) / (2 * p) < 1.
Proof.
  intros Hp Hq b.
  assert (Hd : 0 < b * b - 4 * p * q).
  { pose proof (Rle_0_sqr (p - q)) as Hsq. unfold Rsqr in Hsq. unfold b. nra. }
  pose proof (sqrt_sqrt _ (Rlt_le _ _ Hd)) as Hs.
  pose proof (sqrt_lt_R0 _ Hd) as Hs0.
  set (s := sqrt (b * b - 4 * p * q)) in *.
  assert (Hb : 0 < b) by (unfold b; lra).
  assert (Hsb : s < b) by nra.
  assert (Hlow : b - 2 * p < s).
  { destruct (Rle_dec (b - 2 * p) 0); [lra|]. unfold b in *. nra. }
  split.
  - apply Rdiv_lt_0_compat; lra.
  - apply Rmult_lt_reg_r with (2 * p); [lra|].
    assert (E : (b - s) / (2 * p) * (2 * p) = b - s) by (field; lra). rewrite E. lra.
Qed.

Lemma series_bounds p q : 0 <= p -> 0 < q -> 0 < q / (p + q + 1) < 1.
Proof.
  intros. split; [apply Rdiv_lt_0_compat; lra|].
  apply Rmult_lt_reg_r with (p + q + 1); [lra|].
  assert (E : q / (p + q + 1) * (p + q + 1) = q) by (field; lra). rewrite E. lra.
Qed.

Lemma hhe_he0_bounds che AHe h0 : 0 <= che -> 0 < AHe -> h0 <= 1 ->
  0 < hhe_he0 R OR che AHe h0 <= 1.
Proof.
  intros Hc HA Hh. unfold hhe_he0. rb.
  destruct (Req_EM_T che 0) as [E|E].
  - assert (E' : Reqb che 0 = true) by (apply Reqb_true; assumption). rewrite E'. cbn [negb]. lra.
  - assert (E' : Reqb che 0 = false) by (apply Reqb_false; assumption). rewrite E'. cbn [negb].
    assert (Hc' : 0 < che) by lra.
    set (op := 1 + AHe - h0). assert (Hop : 0 < op) by (unfold op; lra).
    set (p := AHe * che). set (q := op * che).
    assert (Hp : 0 < p) by (unfold p; nra). assert (Hq : 0 < q) by (unfold q; nra).
    assert (Eb : (1 + 2 * AHe - h0) * che + 1 = p + q + 1) by (unfold p, q, op; ring).
    rewrite Eb.
    match goal with |- context [if ?c then _ else _] => destruct c end.
    + replace (op * (che / (p + q + 1))) with (q / (p + q + 1)) by (unfold p, q in *; field; lra).
      pose proof (series_bounds p q (Rlt_le _ _ Hp) Hq). lra.
    + replace (4 * AHe * op * che * che) with (4 * p * q) by (unfold p, q; ring).
      replace (2 * AHe * che) with (2 * p) by (unfold p; ring).
      pose proof (root_bounds p q Hp Hq) as Hr. cbv zeta in Hr. lra.
Qed.

Lemma hhe_h0_bounds ch AHe he0 : 0 < ch -> 0 <= AHe -> he0 <= 1 ->
  0 < hhe_h0 R OR ch AHe he0 < 1.
Proof.
  intros Hc HA Hh. unfold hhe_h0. rb.
  set (op := 1 + AHe - he0 * AHe).
  assert (Hop : 1 <= op) by (unfold op; nra).
  assert (Hq : 0 < ch * op) by nra.
  assert (Eb : ch * (2 + AHe - he0 * AHe) + 1 = ch + ch * op + 1) by (unfold op; ring).
  rewrite Eb.
  match goal with |- context [if ?c then _ else _] => destruct c end.
  - replace (ch / (ch + ch * op + 1) * op) with (ch * op / (ch + ch * op + 1)) by (field; lra).
    apply series_bounds; lra.
  - replace (4 * ch * ch * op) with (4 * ch * (ch * op)) by ring.
    pose proof (root_bounds ch (ch * op) Hc Hq) as Hr. cbv zeta in Hr. exact Hr.
Qed.

Lemma hhe_step_bounded_lem : forall ch1 ch2 che AHe T niter h0 he0,
  0 <= che -> 0 < AHe -> 0 < h0 <= 1 -> he0 <= 1 ->
  0 < hhe_ch R OR ch1 ch2 AHe T h0 (if Rltb 0 he0 then he0 else 0) ->
  let '(h0', h0old', he0', he0old') := hhe_step R OR ch1 ch2 che AHe T niter h0 he0 in
  0 < h0' < 1 /\ 0 < he0' <= 1 /\ h0old' = h0 /\ 0 <= he0old' <= 1.
Proof.
  intros ch1 ch2 che AHe T niter h0 he0 Hche HA Hh0 Hhe0 Hch.
  unfold hhe_step. rb.
  set (he0old := if Rltb 0 he0 then he0 else 0) in *.
  assert (Hold : 0 <= he0old <= 1).
  { unfold he0old, Rltb. destruct (Rlt_dec 0 he0); lra. }
  pose proof (hhe_he0_bounds che AHe h0 Hche HA (proj2 Hh0)) as Hhe.
  set (he := hhe_he0 R OR che AHe h0) in *.
  pose proof (hhe_h0_bounds _ AHe he Hch (Rlt_le _ _ HA) (proj2 Hhe)) as Hh.
  set (h := hhe_h0 R OR _ AHe he) in *.
  destruct (Nat.ltb 10 niter); repeat split; try lra.
Qed.
(* ---------- generic facts (any scalar type, any operations, any oracle) ---------- *)
Section Generic.
Variable F : Type.
Variable OPS : ops F.
Local Notation c k := (cst OPS k).

(* fuel artefact of the H/He loop: more fuel than 21 - niter changes nothing *)
Lemma hhe_loop_fuel : forall extra fuel ch1 ch2 che AHe T niter h0 h0old he0 he0old,
  (niter + fuel = 21)%nat ->
  hhe_loop F OPS (fuel + extra) ch1 ch2 che AHe T niter h0 h0old he0 he0old =
  hhe_loop F OPS fuel ch1 ch2 che AHe T niter h0 h0old he0 he0old.
Proof.
  intros extra fuel. induction fuel as [|f IH]; intros ch1 ch2 che AHe T niter h0 h0old he0 he0old Hn.
  - cbn [Nat.add hhe_loop]. destruct extra as [|e]; [reflexivity|].
    cbn [hhe_loop]. destruct (hhe_cond F OPS h0 h0old he0 he0old); [|reflexivity].
    destruct (hhe_step F OPS ch1 ch2 che AHe T (S niter) h0 he0) as [[[a b] c0] d].
    assert (E : Nat.ltb 20 (S niter) = true) by (apply Nat.ltb_lt; lia). rewrite E. reflexivity.
  - cbn [Nat.add hhe_loop]. destruct (hhe_cond F OPS h0 h0old he0 he0old); [|reflexivity].
    destruct (hhe_step F OPS ch1 ch2 che AHe T (S niter) h0 he0) as [[[a b] c0] d].
    destruct (Nat.ltb 20 (S niter)); [reflexivity|]. apply IH. lia.
Qed.

(* an Ok result reports at most 20 iterations *)
Lemma hhe_loop_niter : forall fuel ch1 ch2 che AHe T niter h0 h0old he0 he0old a b k,
  (niter <= 20)%nat ->
  hhe_loop F OPS fuel ch1 ch2 che AHe T niter h0 h0old he0 he0old = HheOk a b k -> (k <= 20)%nat.
Proof.
  induction fuel as [|f IH]; intros ch1 ch2 che AHe T niter h0 h0old he0 he0old a b k Hn; cbn [hhe_loop].
  - destruct (hhe_cond F OPS h0 h0old he0 he0old); [discriminate|]. intros E; inversion E; subst; assumption.
  - destruct (hhe_cond F OPS h0 h0old he0 he0old); [|intros E; inversion E; subst; assumption].
    destruct (hhe_step F OPS ch1 ch2 che AHe T (S niter) h0 he0) as [[[a' b'] c0] d].
    destruct (Nat.ltb 20 (S niter)) eqn:E20; [discriminate|].
    apply Nat.ltb_ge in E20. apply IH. assumption.
Qed.

Lemma hhe_weak alphaH alphaHe jH jHe nH AHe T :
  ltb OPS jH (c K1em20) = true -> hhe F OPS alphaH alphaHe jH jHe nH AHe T = HheOk (c K1) (c K1) 0.
Proof. intros E. unfold hhe. rewrite E. reflexivity. Qed.

(* temperature loop *)
Variable M : Type.
Variable bal : M -> F -> F -> (F * F * F * F) * M.

Definition T_shape (tmin T : F) : Prop :=
  T = c K1e10 \/ (ltb OPS (c K1e10) T = false /\ (T = c K500 \/ ltb OPS T tmin = false)).

Lemma t_body_shape crfac tmin s :
  T_shape tmin (tT0 (t_body F OPS M bal crfac tmin s)) /\ tniter (t_body F OPS M bal crfac tmin s) = S (tniter s).
Proof.
  unfold t_body.
  destruct (bal (tm s) crfac (mul OPS (c K11) (tT0 s))) as [[[[? ?] g1] l1] m1].
  destruct (bal m1 crfac (mul OPS (c K09) (tT0 s))) as [[[[? ?] g2] l2] m2].
  destruct (bal m2 crfac (tT0 s)) as [[[[h0 he0] g0] l0] m3].
  set (T0a := if (ltb OPS (c K0) g0 && negb _)%bool then _ else _).
  destruct (ltb OPS T0a tmin) eqn:E1; cbn [tT0 tniter].
  - destruct (ltb OPS (c K1e10) (c K500)) eqn:E2; cbn [tT0 tniter]; unfold T_shape; auto.
  - destruct (ltb OPS (c K1e10) T0a) eqn:E2; cbn [tT0 tniter]; unfold T_shape; auto.
Qed.

Lemma t_loop_shape : forall left eps crfac tmin s,
  let r := t_loop F OPS M bal left eps crfac tmin s in
  ((r = s /\ (left = 0%nat \/ t_cond F OPS M eps s = false)) \/ (T_shape tmin (tT0 r) /\ (tniter s < tniter r)%nat))
  /\ (tniter r <= tniter s + left)%nat.
Proof.
  induction left as [|l IH]; intros eps crfac tmin s; cbn [t_loop].
  - split; [left; split; [reflexivity | left; reflexivity] | lia].
  - destruct (t_cond F OPS M eps s) eqn:Ec; [|split; [left; split; [reflexivity | right; reflexivity] | lia]].
    specialize (IH eps crfac tmin (t_body F OPS M bal crfac tmin s)). cbv zeta in IH.
    destruct (t_body_shape crfac tmin s) as [Hs Hn].
    destruct IH as [[[E _] | [Hsh Hlt]] Hle].
    + rewrite E. split; [right; split; [assumption | lia] | lia].
    + split; [right; split; [assumption | lia] | lia].
Qed.

(* the only abort of calculate_temperature is the abort of the H/He loop of the cosmic-ray pre-check *)
Lemma calc_temperature_abort d6t eps tmin maxit crfac_cfg crlim aH8 aHe8 AHe jfac hfac mH mHe hH hHe n Ti crf m0 :
  calc_temperature F OPS d6t M bal eps tmin maxit crfac_cfg crlim aH8 aHe8 AHe jfac hfac mH mHe hH hHe n Ti crf m0 = TAbort ->
  hhe F OPS aH8 aHe8 (mul OPS jfac mH) (mul OPS jfac mHe) n AHe (c K8000) = HheAbort.
Proof.
  unfold calc_temperature, t_neutral.
  destruct (_ || _)%bool; [discriminate|].
  destruct (ltb OPS (c K0) _); [|discriminate].
  destruct (hhe F OPS aH8 aHe8 _ _ n AHe (c K8000)) as [h0 he0 k|]; [|reflexivity].
  destruct (ltb OPS crlim h0); discriminate.
Qed.

(* shape of every non-abort result *)
Lemma calc_temperature_shape d6t eps tmin maxit crfac_cfg crlim aH8 aHe8 AHe jfac hfac mH mHe hH hHe n Ti crf m0
      T h0 he0 zm early gH gHe m k :
  calc_temperature F OPS d6t M bal eps tmin maxit crfac_cfg crlim aH8 aHe8 AHe jfac hfac mH mHe hH hHe n Ti crf m0
    = TOk T h0 he0 zm early gH gHe m k ->
  (k <= maxit)%nat /\
  ((early = true /\ T = c K500 /\ k = 0%nat) \/
   (early = false /\ exists Tl, T = minF F OPS (c K30000) Tl /\
      ((k = 0%nat /\ Tl = (if leb OPS Ti (c K4000) then c K8000 else Ti) /\
         (maxit = 0%nat \/ t_cond F OPS M eps (mkT Tl (c K0) (c K0) (c K1) (c K0) m0 0) = false))
       \/ ((1 <= k)%nat /\ T_shape tmin Tl)))).
Proof.
  unfold calc_temperature, t_neutral.
  set (T0 := if leb OPS Ti (c K4000) then c K8000 else Ti).
  assert (Hgo : forall crfac,
    TOk (minF F OPS (c K30000) (tT0 (t_loop F OPS M bal maxit eps crfac tmin (mkT T0 (c K0) (c K0) (c K1) (c K0) m0 0))))
        (if eqb OPS mH (c K0) then c K1 else th0 (t_loop F OPS M bal maxit eps crfac tmin (mkT T0 (c K0) (c K0) (c K1) (c K0) m0 0)))
        (if eqb OPS mHe (c K0) then c K1 else the0 (t_loop F OPS M bal maxit eps crfac tmin (mkT T0 (c K0) (c K0) (c K1) (c K0) m0 0)))
        ((eqb OPS (if eqb OPS mH (c K0) then c K1 else th0 (t_loop F OPS M bal maxit eps crfac tmin (mkT T0 (c K0) (c K0) (c K1) (c K0) m0 0))) (c K1))
         || (leb OPS (if eqb OPS mH (c K0) then c K1 else th0 (t_loop F OPS M bal maxit eps crfac tmin (mkT T0 (c K0) (c K0) (c K1) (c K0) m0 0))) (c K1em10)))%bool
        false (mul OPS hfac hH) (mul OPS hfac hHe)
        (tm (t_loop F OPS M bal maxit eps crfac tmin (mkT T0 (c K0) (c K0) (c K1) (c K0) m0 0)))
        (tniter (t_loop F OPS M bal maxit eps crfac tmin (mkT T0 (c K0) (c K0) (c K1) (c K0) m0 0)))
      = TOk T h0 he0 zm early gH gHe m k ->
    (k <= maxit)%nat /\
    ((early = true /\ T = c K500 /\ k = 0%nat) \/
     (early = false /\ exists Tl, T = minF F OPS (c K30000) Tl /\
        ((k = 0%nat /\ Tl = T0 /\ (maxit = 0%nat \/ t_cond F OPS M eps (mkT Tl (c K0) (c K0) (c K1) (c K0) m0 0) = false))
          \/ ((1 <= k)%nat /\ T_shape tmin Tl))))).
  { intros crfac E. inversion E; subst; clear E.
    destruct (t_loop_shape maxit eps crfac tmin (mkT T0 (c K0) (c K0) (c K1) (c K0) m0 0)) as [Hsh Hle].
    cbv zeta in Hsh, Hle. cbn [tniter] in Hsh, Hle.
    split; [lia|]. right. split; [reflexivity|]. eexists; split; [reflexivity|].
    destruct Hsh as [[E Hc] | [Hs Hlt]].
    - left. rewrite E. cbn [tniter tT0]. repeat split; assumption.
    - right. split; [lia | assumption]. }
  assert (Hneu : TOk (c K500) (c K1) (c K1) true true (c K0) (c K0) m0 0 = TOk T h0 he0 zm early gH gHe m k ->
    (k <= maxit)%nat /\
    ((early = true /\ T = c K500 /\ k = 0%nat) \/
     (early = false /\ exists Tl, T = minF F OPS (c K30000) Tl /\
        ((k = 0%nat /\ Tl = T0 /\ (maxit = 0%nat \/ t_cond F OPS M eps (mkT Tl (c K0) (c K0) (c K1) (c K0) m0 0) = false))
          \/ ((1 <= k)%nat /\ T_shape tmin Tl))))).
  { intros E; inversion E; subst. split; [lia|]. left. repeat split. }
  destruct (_ || _)%bool; [exact Hneu|].
  destruct (ltb OPS (c K0) _); [|apply Hgo].
  destruct (hhe F OPS aH8 aHe8 _ _ n AHe (c K8000)) as [h0' he0' k'|]; [|discriminate].
  destruct (ltb OPS crlim h0'); [exact Hneu | apply Hgo].
Qed.
End Generic.
(* ---------- temperature over R ---------- *)
Lemma minF_R x y : minF R OR x y = Rmin x y.
Proof.
  unfold minF. rb. unfold Rltb, Rmin. destruct (Rlt_dec y x), (Rle_dec x y); try reflexivity; lra.
Qed.

Lemma temperature_in_bounds_lem : forall (M : Type) (bal : M -> R -> R -> (R * R * R * R) * M)
    d6t eps tmin maxit crfac_cfg crlim aH8 aHe8 AHe jfac hfac mH mHe hH hHe n Ti crf m0 T h0 he0 zm early gH gHe m k,
  calc_temperature R OR d6t M bal eps tmin maxit crfac_cfg crlim aH8 aHe8 AHe jfac hfac mH mHe hH hHe n Ti crf m0
    = TOk T h0 he0 zm early gH gHe m k ->
  tmin <= 30000 -> (tmin <= 4000 \/ (eps < 1 /\ (1 <= maxit)%nat)) ->
  (k <= maxit)%nat /\ (T = 500 \/ tmin <= T <= 30000).
Proof.
  intros M bal d6t eps tmin maxit crfac_cfg crlim aH8 aHe8 AHe jfac hfac mH mHe hH hHe n Ti crf m0 T h0 he0 zm early gH gHe m k E Ht Hh.
  apply calc_temperature_shape in E. destruct E as [Hk E]. split; [assumption|].
  destruct E as [(_ & E & _) | (_ & Tl & ET & E)]; [left; exact E|].
  rewrite minF_R in ET. revert ET E. rb. intros ET E.
  destruct E as [(Hk0 & ETl & Hc) | (Hk1 & Hs)].
  - right. destruct Hh as [Hh | [He Hm]].
    + assert (4000 < Tl).
      { rewrite ETl. unfold Rleb. destruct (Rle_dec Ti 4000); lra. }
      subst T. unfold Rmin. destruct (Rle_dec 30000 Tl); lra.
    + exfalso. destruct Hc as [Hc | Hc]; [lia|].
      unfold t_cond in Hc. revert Hc. rb. cbn [tgain0 tloss0]. intros Hc.
      apply Rltb_false in Hc. replace (1 - 0) with 1 in Hc by ring. rewrite Rabs_R1 in Hc. lra.
  - unfold T_shape in Hs. revert Hs. rb. intros Hs.
    destruct Hs as [Hs | [Hs1 [Hs2 | Hs2]]].
    + right. subst. rewrite Rmin_left by lra. lra.
    + left. subst. rewrite Rmin_right by lra. reflexivity.
    + right. apply Rltb_false in Hs2. subst T. unfold Rmin. destruct (Rle_dec 30000 Tl); lra.
Qed.

(* why the hypothesis ne > 0 of the coolant theorem fails in the pinned code: weak field *)
Lemma weak_field_ne_zero_lem : forall alphaH alphaHe jH jHe nH AHe T,
  jH < 1e-20 ->
  hhe R OR alphaH alphaHe jH jHe nH AHe T = HheOk 1 1 0 /\ cell_ne R OR nH AHe 1 1 = 0.
Proof.
  intros. split.
  - apply (hhe_weak R OR). rb. apply Rltb_true. assumption.
  - unfold cell_ne. rb. ring.
Qed.

(* ---------- binary64 ---------- *)
Import Floats.
Local Open Scope float_scope.
Set Warnings "-inexact-float".

Lemma f_ltb_leb x y : PrimFloat.ltb x y = true -> PrimFloat.leb x y = true.
Proof.
  rewrite FloatAxioms.ltb_spec, FloatAxioms.leb_spec. unfold SpecFloat.SFltb, SpecFloat.SFleb.
  destruct (SpecFloat.SFcompare (Prim2SF x) (Prim2SF y)) as [[]|]; auto; discriminate.
Qed.

Lemma f_leb_not_nan x y : PrimFloat.leb x y = true -> PrimFloat.eqb x x = true.
Proof.
  rewrite FloatAxioms.leb_spec, FloatAxioms.eqb_spec. unfold SpecFloat.SFleb, SpecFloat.SFeqb.
  destruct (Prim2SF x) as [[]|[]| |[] m e]; destruct (Prim2SF y) as [[]|[]| |[] m' e']; cbn; try discriminate; auto;
    intros _; rewrite ?Z.compare_refl, ?Pos.compare_refl; reflexivity.
Qed.

Lemma f_maxF_floor pw ex lg v : PrimFloat.leb 1e-14 (maxF float (OF pw ex lg) 1e-14 v) = true.
Proof.
  unfold maxF. cbn [OF C06_Defs.ltb]. destruct (PrimFloat.ltb 1e-14 v) eqn:E.
  - apply f_ltb_leb. exact E.
  - reflexivity.
Qed.

(* for ALL doubles (NaN, infinities, negative values included) the result is a number >= 1e-14 *)
Lemma h_only_floor_lem : forall pw ex lg d9 a j n,
  let r := hyd float (OF pw ex lg) d9 a j n in
  PrimFloat.leb 1e-14 r = true /\ PrimFloat.eqb r r = true.
Proof.
  intros pw ex lg d9 a j n r.
  assert (H : PrimFloat.leb 1e-14 r = true).
  { subst r. unfold hyd.
    destruct (_ && _)%bool.
    - destruct (C06_Defs.ltb _ _ _); apply f_maxF_floor.
    - reflexivity. }
  split; [exact H|]. 
  rewrite FloatAxioms.leb_spec in H. rewrite FloatAxioms.eqb_spec.
  unfold SpecFloat.SFleb in H. unfold SpecFloat.SFeqb.
  destruct (Prim2SF r) as [[]|[]| |[] m e]; cbn in H |- *; try discriminate; auto;
    rewrite ?Z.compare_refl, ?Pos.compare_refl; reflexivity.
Qed.
(* temperature, binary64: for every oracle the result is a number <= 30000; it is 500, 30000, or not below tmin,
   or no iteration was executed *)
Lemma temperature_float_lem : forall pw ex lg (M : Type) (bal : M -> float -> float -> (float * float * float * float) * M)
    d6t eps tmin maxit crfac_cfg crlim aH8 aHe8 AHe jfac hfac mH mHe hH hHe n Ti crf m0 T h0 he0 zm early gH gHe m k,
  calc_temperature float (OF pw ex lg) d6t M bal eps tmin maxit crfac_cfg crlim aH8 aHe8 AHe jfac hfac mH mHe hH hHe n Ti crf m0
    = TOk T h0 he0 zm early gH gHe m k ->
  (k <= maxit)%nat /\ PrimFloat.leb T 30000 = true /\ PrimFloat.eqb T T = true /\
  (T = 500 \/ T = 30000 \/ PrimFloat.ltb T tmin = false \/ k = 0%nat).
Proof.
  intros pw ex lg M bal d6t eps tmin maxit crfac_cfg crlim aH8 aHe8 AHe jfac hfac mH mHe hH hHe n Ti crf m0 T h0 he0 zm early gH gHe m k E.
  apply calc_temperature_shape in E. destruct E as [Hk E]. split; [assumption|].
  assert (Hmain : PrimFloat.leb T 30000 = true /\ (T = 500 \/ T = 30000 \/ PrimFloat.ltb T tmin = false \/ k = 0%nat)).
  { destruct E as [(_ & E & _) | (_ & Tl & ET & E)].
    - cbn [OF cst fcst] in E. subst T. split; [reflexivity | left; reflexivity].
    - unfold minF in ET. cbn [OF cst fcst C06_Defs.ltb] in ET.
      destruct E as [(Hk0 & _) | (Hk1 & Hs)].
      + split; [|right; right; right; assumption].
        destruct (PrimFloat.ltb Tl 30000) eqn:El; subst T; [apply f_ltb_leb; assumption | reflexivity].
      + unfold T_shape in Hs. cbn [OF cst fcst C06_Defs.ltb] in Hs.
        destruct Hs as [Hs | [Hs1 [Hs2 | Hs2]]].
        * subst Tl. assert (El : PrimFloat.ltb 1e10 30000 = false) by reflexivity. rewrite El in ET. subst T.
          split; [reflexivity | right; left; reflexivity].
        * subst Tl. assert (El : PrimFloat.ltb 500 30000 = true) by reflexivity. rewrite El in ET. subst T.
          split; [reflexivity | left; reflexivity].
        * destruct (PrimFloat.ltb Tl 30000) eqn:El; subst T.
          -- split; [apply f_ltb_leb; assumption | right; right; left; assumption].
          -- split; [reflexivity | right; left; reflexivity]. }
  destruct Hmain as [H1 H2]. split; [assumption|]. split; [|assumption].
  eapply f_leb_not_nan. eassumption.
Qed.

(* ---------- D6: the faithful model refutes `coolant fractions are numbers in [0,1]' for the pinned code ---------- *)
Definition is_nan (x : float) : bool := negb (PrimFloat.eqb x x).
Definition w_rates : rates float :=
  mkRates (fun _ => 4e-19) (fun _ => 1e-15) (fun _ => 1e-16) (fun _ => 1e-17).
Definition w_mean : ion -> float := fun i => match i with H_n => 1e-22 | He_n => 3e-23 | _ => 1e-23 end.

Lemma weak_field_nan_lem : forall pw ex lg,
  PrimFloat.ltb 0 (1 * w_mean H_n) = true /\ PrimFloat.ltb (1 * w_mean H_n) 1e-20 = true /\
  match cell float (OF pw ex lg) true true w_rates 1 1 w_mean 0 0 1e8 8000 0.1 with
  | CellOk fr _ _ => PrimFloat.eqb (fr H_n) 1 = true /\ PrimFloat.eqb (fr He_n) 1 = true /\
                     is_nan (fr C_p1) = true /\ is_nan (fr C_p2) = true /\ is_nan (fr Ne_n) = true /\ is_nan (fr Ne_p1) = true
  | CellAbort => False
  end.
Proof. intros. vm_compute. repeat split. Qed.

(* the repaired variant on the same cell: the neutral answer *)
Lemma weak_field_fixed_lem : forall pw ex lg,
  match cell float (OF pw ex lg) false true w_rates 1 1 w_mean 0 0 1e8 8000 0.1 with
  | CellOk fr _ _ => forall i, PrimFloat.leb 0 (fr i) = true /\ PrimFloat.leb (fr i) 1 = true
  | CellAbort => False
  end.
Proof. intros. vm_compute. intros i; destruct i; split; reflexivity. Qed.
(* D9 witnesses on the binary64 model: pinned expression vs. repaired expression *)
Lemma h_only_cancellation_lem : forall pw ex lg,
  let f := fun j => hyd float (OF pw ex lg) true 1 j 1 in
  PrimFloat.ltb (f 1e8) (f 1e9) = true            (* larger J, larger neutral fraction *)
  /\ PrimFloat.ltb (f 1e8) 7e-9 = true            (* root of the balance equation: 1.0e-8 *)
  /\ PrimFloat.ltb 2e-8 (f 1e9) = true            (* root: 1.0e-9 *)
  /\ PrimFloat.eqb (f 1e10) 1e-14 = true.         (* root: 1.0e-10 *)
Proof. intros. vm_compute. repeat split. Qed.

Lemma h_only_repaired_lem : forall pw ex lg,
  let f := fun j => hyd float (OF pw ex lg) false 1 j 1 in
  PrimFloat.ltb (f 1e9) (f 1e8) = true
  /\ PrimFloat.ltb 0.99999997e-8 (f 1e8) = true /\ PrimFloat.ltb (f 1e8) 0.99999999e-8 = true
  /\ PrimFloat.ltb 0.999999997e-9 (f 1e9) = true /\ PrimFloat.ltb (f 1e9) 0.999999999e-9 = true
  /\ PrimFloat.ltb 0.9999999997e-10 (f 1e10) = true /\ PrimFloat.ltb (f 1e10) 0.9999999999e-10 = true.
Proof. intros. vm_compute. repeat split. Qed.
