(* C15  Voronoi tessellation: executable definitions (specification predicates are in C15_Proofs.v).
   Everything is over exact rationals Q.  binary64 numbers are dyadic rationals, so the positions the C++ code
   works with are represented exactly.

   A point x is "closer to g_i than to g_k" when |x-g_i|^2 <= |x-g_k|^2.  The checker works in coordinates
   relative to the generator of the cell under test (y = x - g_i): there the bisector constraint reads
   2 r.y <= |r|^2 with r = g_k - g_i, and the walls read  +-y_c <= const. *)
From Coq Require Import QArith List Bool ZArith NArith.
Import ListNotations.
Open Scope Q_scope.

Record pt := mkpt { px : Q; py : Q; pz : Q }.
Definition origin := mkpt 0 0 0.
Definition padd a b := mkpt (px a + px b) (py a + py b) (pz a + pz b).
Definition psub a b := mkpt (px a - px b) (py a - py b) (pz a - pz b).
Definition pscale k a := mkpt (k * px a) (k * py a) (k * pz a).
Definition dot a b := px a * px b + py a * py b + pz a * pz b.
Definition n2 a := dot a a.
Definition dist2 x g := n2 (psub x g).
Definition peqb a b := Qeq_bool (px a) (px b) && Qeq_bool (py a) (py b) && Qeq_bool (pz a) (pz b).

Definition gen (gens : list pt) (i : nat) := nth i gens origin.

(* --- nearest generator ----------------------------------------------------------------------------------- *)
Definition closerb gi gk x := Qle_bool (dist2 x gi) (dist2 x gk).
Definition nearest_check (gens : list pt) (i : nat) (x : pt) : bool :=
  forallb (fun gk => closerb (gen gens i) gk x) gens.
(* nearest up to a relative slack er and an absolute slack ea on squared distances (er = ea = 0: exact) *)
Definition nearest_check_slack (er ea : Q) (gens : list pt) (i : nat) (x : pt) : bool :=
  forallb (fun gk => Qle_bool (dist2 x (gen gens i)) ((1 + er) * dist2 x gk + ea)) gens.

(* --- boxes ----------------------------------------------------------------------------------------------- *)
Record box := mkbox { blo : pt; bhi : pt }.
Definition in_boxb (B : box) (x : pt) : bool :=
  Qle_bool (px (blo B)) (px x) && Qle_bool (px x) (px (bhi B)) &&
  Qle_bool (py (blo B)) (py x) && Qle_bool (py x) (py (bhi B)) &&
  Qle_bool (pz (blo B)) (pz x) && Qle_bool (pz x) (pz (bhi B)).

Fixpoint all2 {S T : Type} (f : S -> T -> bool) (l1 : list S) (l2 : list T) : bool :=
  match l1, l2 with
  | [], [] => true
  | a :: r1, b :: r2 => f a b && all2 f r1 r2
  | _, _ => false
  end.

(* --- linear constraints a.y <= b and Farkas certificates --------------------------------------------------- *)
Definition cons := (pt * Q)%type.
(* certificate: a positive common denominator D and (index of a constraint, multiplier l >= 0) pairs, standing for the
   multipliers l/D.  (The finder emits integers so that all arithmetic below is on denominators 1; soundness does not
   depend on that.) *)
Definition cert := (Q * list (nat * Q))%type.
Definition cons0 : cons := (origin, 0).

Fixpoint comb (cs : list cons) (ct : list (nat * Q)) : cons :=
  match ct with
  | [] => cons0
  | (i, l) :: r =>
      let c := nth i cs cons0 in
      let s := comb cs r in
      (padd (pscale l (fst c)) (fst s), l * snd c + snd s)
  end.
Definition cert_nonneg (ct : list (nat * Q)) : bool := forallb (fun p => Qle_bool 0 (snd p)) ct.
(* the non-negative combination of the constraints has exactly D times the target's normal and at most D times its bound *)
Definition farkas_check (cs : list cons) (ct : cert) (t : cons) : bool :=
  let D := fst ct in
  let s := comb cs (snd ct) in
  negb (Qle_bool D 0) && cert_nonneg (snd ct) && peqb (fst s) (pscale D (fst t)) && Qle_bool (snd s) (D * snd t).

(* --- the polytope P_i claimed by a neighbour list, in coordinates relative to g_i ---------------------------- *)
Definition wall_cons (B : box) (gi : pt) : list cons :=
  [ (mkpt 1 0 0, px (bhi B) - px gi); (mkpt (-1) 0 0, px gi - px (blo B));
    (mkpt 0 1 0, py (bhi B) - py gi); (mkpt 0 (-1) 0, py gi - py (blo B));
    (mkpt 0 0 1, pz (bhi B) - pz gi); (mkpt 0 0 (-1), pz gi - pz (blo B)) ].
Definition rel_cons (gi gk : pt) : cons := let r := psub gk gi in (pscale 2 r, n2 r).
(* relaxed by eps |r|^2 (eps = 0: the exact bisector constraint) *)
Definition rel_cons_eps (eps : Q) (gi gk : pt) : cons := let r := psub gk gi in (pscale 2 r, (1 + eps) * n2 r).
Definition cell_cons (gens : list pt) (B : box) (i : nat) (Ni : list nat) : list cons :=
  wall_cons B (gen gens i) ++ map (fun j => rel_cons (gen gens i) (gen gens j)) Ni.

(* certificate for one cell: an axis-parallel bounding box of P_i (relative coordinates) with its six Farkas
   certificates, and per generator k (in list order) an optional Farkas certificate over the constraints of P_i
   followed by the six bounding-box constraints; generators whose bisector half-space contains the whole bounding box
   need none *)
Record cellcert := mkcc { cc_lo : pt; cc_hi : pt; cc_bb : list cert; cc_k : list (option cert) }.

Definition bb_cons (cc : cellcert) : list cons :=
  [ (mkpt 1 0 0, px (cc_hi cc)); (mkpt (-1) 0 0, - px (cc_lo cc));
    (mkpt 0 1 0, py (cc_hi cc)); (mkpt 0 (-1) 0, - py (cc_lo cc));
    (mkpt 0 0 1, pz (cc_hi cc)); (mkpt 0 0 (-1), - pz (cc_lo cc)) ].
Definition bb_ok (cs : list cons) (cc : cellcert) : bool := all2 (farkas_check cs) (cc_bb cc) (bb_cons cc).
(* upper bound of a*y for lo <= y <= hi *)
Definition sel (a lo hi : Q) : Q := if Qle_bool 0 a then a * hi else a * lo.
(* max of a.y over the bounding box is <= b *)
Definition bb_implies (lo hi : pt) (t : cons) : bool :=
  let a := fst t in
  Qle_bool (sel (px a) (px lo) (px hi) + sel (py a) (py lo) (py hi) + sel (pz a) (pz lo) (pz hi)) (snd t).
Definition k_ok (eps : Q) (cs2 : list cons) (cc : cellcert) (gi gk : pt) (oc : option cert) : bool :=
  let t := rel_cons_eps eps gi gk in
  bb_implies (cc_lo cc) (cc_hi cc) t || match oc with Some ct => farkas_check cs2 ct t | None => false end.

(* eps >= 0 relaxes every target half-space to |y|^2 <= |y-r|^2 + eps |r|^2 ("closer up to eps"); the polytope P_i itself
   (the constraints of the REPORTED neighbours) is never relaxed *)
Definition check_cell_eps (eps : Q) (gens : list pt) (B : box) (i : nat) (Ni : list nat) (cc : cellcert) : bool :=
  let gi := gen gens i in
  let cs := cell_cons gens B i Ni in
  Qle_bool 0 eps && bb_ok cs cc && all2 (k_ok eps (cs ++ bb_cons cc) cc gi) gens (cc_k cc).
Definition check_cell := check_cell_eps 0.

(* a point of P_i that is strictly closer to g_k: the neighbour list Ni does NOT define the Voronoi cell *)
Definition witness_check (gens : list pt) (B : box) (i : nat) (Ni : list nat) (k : nat) (x : pt) : bool :=
  in_boxb B x && forallb (fun j => closerb (gen gens i) (gen gens j) x) Ni && negb (closerb (gen gens i) (gen gens k) x).

(* --- neighbour symmetry on reported face lists --------------------------------------------------------------
   F = per cell the list of (neighbour index, flag); flag = true marks a face that must be matched (a genuine
   two-dimensional facet); faces flagged false (degenerate contacts) need no partner *)
Definition flist := list (N * bool).
Definition faces_of (F : list flist) (i : N) : flist := nth (N.to_nat i) F [].
Definition has_ngb (l : flist) (i : N) : bool := existsb (fun p : N * bool => N.eqb (fst p) i) l.
Fixpoint sym_from (F : list flist) (i : N) (rest : list flist) : bool :=
  match rest with
  | [] => true
  | l :: r => forallb (fun p : N * bool => if snd p then has_ngb (faces_of F (fst p)) i else true) l && sym_from F (N.succ i) r
  end.
Definition neighbour_symmetric_check (F : list flist) : bool := sym_from F 0%N F.
