(* C03, layers 2 (hand-over lemma) and 4 (layout independence): proofs over the real-number instance of the trace model
   of Cxx/C03_TraceDefs.v.  Built on C02's theorems about one call of interact (Cxx/C02_Proofs.v), on the regenerated
   output->input table (layer 1, Cxx/C03_Gen.v + C03_Proofs.out_to_in_thm) and on the wiring model (layer 3,
   C03_Proofs.wiring_lattice_thm).

   Plan.  The REFERENCE is the ray march through the unfolded, undivided cell lattice: one loop over global cell indices
   I in Z^3 (periodic axes are unfolded: cell I carries the contents of cell I mod N; non-periodic axes end the march when
   I leaves [0,N)), with the loop body of DensitySubGrid::interact.  A trace through ANY layout of subgrids is shown to be
   a chunking of the reference march: every loop iteration of every interact call is one reference step with the same
   length credited to the same global cell, except for zero-length iterations that occur after a hand-over through an
   edge/corner-like tie (see [axrel]); every hand-over is zero reference steps.  Since the reference is deterministic, two
   layouts of the same global grid give the same end decision, the same end position, the same remaining optical depth
   and the same length credited to every global cell. *)
From Coq Require Import ZArith List Bool Reals Lra Lia Psatz.
From CMI Require Import Cxx.C03_Defs Cxx.C03_Gen Cxx.C03_Proofs Cxx.C02_Defs Cxx.C02_Proofs Cxx.C03_TraceDefs.
Import ListNotations.
Local Open Scope R_scope.

(* ---------------------------------------------------------------------------
   A. one coordinate *)

Lemma wall_shift d i lo hi p t : wall ROps d i (lo + t) (hi + t) (p + t) = wall ROps d i lo hi p.
Proof. unfold wall; rsimp. destruct (Rltb 0 d); [f_equal; ring|]. destruct (Rltb d 0); [f_equal; ring|reflexivity]. Qed.

Lemma newpos1_shift l len d lo hi p t :
  newpos1 ROps l len d (lo + t) (hi + t) (p + t) = newpos1 ROps l len d lo hi p + t.
Proof. unfold newpos1; rsimp. destruct (Reqb l len); [destruct (Rltb 0 d); reflexivity | ring]. Qed.

Lemma vec_ext (u v : vec R) : (forall a, vg a u = vg a v) -> u = v.
Proof.
  intros H. destruct u as [u1 u2 u3], v as [v1 v2 v3].
  pose proof (H AX) as X; pose proof (H AY) as Y; pose proof (H AZ) as Z. cbn [vg vx vy vz] in *. subst. reflexivity.
Qed.

Lemma ivec_ext (u v : ivec) : (forall a, ig a u = ig a v) -> u = v.
Proof.
  intros H. destruct u as [u1 u2 u3], v as [v1 v2 v3].
  pose proof (H AX) as X; pose proof (H AY) as Y; pose proof (H AZ) as Z. cbn [ig ix iy iz] in *. subst. reflexivity.
Qed.

(* floor *)
Lemma int_part_unique x k : IZR k <= x < IZR k + 1 -> Int_part x = k.
Proof.
  intros [H1 H2]. destruct (base_Int_part x) as [B1 B2].
  assert (A : IZR (Int_part x) < IZR k + 1) by lra. assert (B : IZR k < IZR (Int_part x) + 1) by lra.
  rewrite <- plus_IZR in A, B. apply lt_IZR in A. apply lt_IZR in B. lia.
Qed.

Lemma int_part_bounds x : IZR (Int_part x) <= x < IZR (Int_part x) + 1.
Proof. destruct (base_Int_part x). lra. Qed.

Lemma RtruncZ_nonneg x : 0 <= x -> RtruncZ x = Int_part x.
Proof. intros H. unfold RtruncZ. destruct (Rle_dec 0 x); [reflexivity|contradiction]. Qed.

Lemma floorZ_nonneg x : 0 <= x -> floorZ ROps x = Int_part x.
Proof.
  intros H. unfold floorZ; rsimp. rewrite RtruncZ_nonneg by exact H.
  assert (E : Rltb x (IZR (Int_part x)) = false) by (apply Rltb_false; apply int_part_bounds). rewrite E. reflexivity.
Qed.

Lemma int_part_shift x (k : Z) : Int_part (x + IZR k) = (Int_part x + k)%Z.
Proof. apply int_part_unique. rewrite plus_IZR. pose proof (int_part_bounds x). lra. Qed.

(* floor of p / cs characterised by the cell that contains p *)
Lemma floor_cell cs p k : 0 < cs -> IZR k * cs <= p < (IZR k + 1) * cs -> Int_part (p / cs) = k.
Proof.
  intros Hc [H1 H2]. apply int_part_unique. split.
  - apply (Rmult_le_reg_r cs). exact Hc. unfold Rdiv. rewrite Rmult_assoc, Rinv_l by lra. lra.
  - apply (Rmult_lt_reg_r cs). exact Hc. unfold Rdiv. rewrite Rmult_assoc, Rinv_l by lra. lra.
Qed.

Lemma floor_cell_inv cs p : 0 < cs -> IZR (Int_part (p / cs)) * cs <= p < (IZR (Int_part (p / cs)) + 1) * cs.
Proof.
  intros Hc. pose proof (int_part_bounds (p / cs)) as [B1 B2].
  assert (E : p = p / cs * cs) by (field; lra). split.
  - rewrite E at 2. apply Rmult_le_compat_r; lra.
  - rewrite E at 1. apply Rmult_lt_compat_r; lra.
Qed.

(* cell size of a subgrid = cell size of the global grid *)
Lemma cell_size_eq S (m c : Z) : (1 <= m)%Z -> (1 <= c)%Z ->
  S / IZR m / IZR c = S / IZR (m * c) /\ IZR c * (S / IZR (m * c)) = S / IZR m /\ IZR (m * c) * (S / IZR (m * c)) = S.
Proof.
  intros Hm Hc. assert (0 < IZR m) by (apply (IZR_lt 0); lia). assert (0 < IZR c) by (apply (IZR_lt 0); lia).
  rewrite mult_IZR. repeat split; field; lra.
Qed.

(* ---------------------------------------------------------------------------
   B. the reference: the march through the unfolded, undivided lattice *)

Record rstate := mkRS { rs_pos : vec R; rs_idx : ivec; rs_tau : R; rs_vis : list (ivec * R) }.

Section Reference.
Variable csv : vec R.            (* cell sizes *)
Variable d : vec R.              (* direction *)
Variable target : R.             (* target optical depth of the packet *)
Variable kapg : ivec -> R.       (* opacity of the (unfolded) cell *)
Variable insideg : ivec -> bool. (* the march is still inside the box (only non-periodic axes can end it) *)

(* walls and move of C02 only read the cell sizes of the block, the index and the position of the state *)
Definition bref : block R := mkB (mkV 0 0 0) csv (mkV 0 0 0) (mkI 0 0 0).
Definition as_m (G : rstate) : mstate R := mkM (rs_pos G) (rs_idx G) 0%Z (rs_tau G) [].

Definition rwalls (G : rstate) : vec R := walls ROps bref d (invdR d) (as_m G).

Definition rcond (G : rstate) : bool := Rltb (rs_tau G) target && insideg (rs_idx G).

(* the loop body of interact, on the unfolded lattice *)
Definition rstep (G : rstate) : rstate :=
  let l := rwalls G in
  let lmin := lmin_of ROps l in
  let tau := kapg (rs_idx G) * lmin in
  let tau_done := rs_tau G + tau in
  if Rleb target tau_done then
    let correction := (tau_done - target) / tau in
    let lmin' := lmin * (1 - correction) in
    mkRS (move ROps bref d (as_m G) l lmin') (rs_idx G) tau_done ((rs_idx G, lmin') :: rs_vis G)
  else
    let i := rs_idx G in
    let i' := mkI (newidx1 ROps (vx l) lmin (vx d) (ix i)) (newidx1 ROps (vy l) lmin (vy d) (iy i))
                  (newidx1 ROps (vz l) lmin (vz d) (iz i)) in
    mkRS (move ROps bref d (as_m G) l lmin) i' tau_done ((rs_idx G, lmin) :: rs_vis G).

Inductive rreach (s : rstate) : rstate -> Prop :=
| rreach_refl : rreach s s
| rreach_step x : rreach s x -> rcond x = true -> rreach s (rstep x).

Lemma rreach_trans s x y : rreach s x -> rreach x y -> rreach s y.
Proof. intros A B. induction B. exact A. apply rreach_step; assumption. Qed.

Lemma rreach_head s x : rcond s = true -> rreach (rstep s) x -> rreach s x.
Proof. intros C H. induction H. apply rreach_step. apply rreach_refl. exact C. apply rreach_step; assumption. Qed.

(* the same reachability, peeled from the front *)
Inductive rreachH : rstate -> rstate -> Prop :=
| rreachH_refl s : rreachH s s
| rreachH_head s x : rcond s = true -> rreachH (rstep s) x -> rreachH s x.

Lemma rreachH_snoc s x : rreachH s x -> rcond x = true -> rreachH s (rstep x).
Proof. intros H C. induction H. apply rreachH_head. exact C. apply rreachH_refl. apply rreachH_head. assumption. apply IHrreachH. exact C. Qed.

Lemma rreach_H s x : rreach s x -> rreachH s x.
Proof. intros H. induction H. apply rreachH_refl. apply rreachH_snoc; assumption. Qed.

(* the march is deterministic: from a given state there is at most one final state *)
Lemma rreach_final_unique s x y : rreach s x -> rcond x = false -> rreach s y -> rcond y = false -> x = y.
Proof.
  intros Hx Cx Hy Cy. apply rreach_H in Hx. apply rreach_H in Hy. revert y Hy Cy.
  induction Hx as [s|s x C Hx IH]; intros y Hy Cy.
  - inversion Hy; subst. reflexivity. congruence.
  - inversion Hy; subst. congruence. apply IH; assumption.
Qed.

(* counted version, and "at least one step" *)
Inductive rreachN : nat -> rstate -> rstate -> Prop :=
| rreachN_0 s : rreachN 0 s s
| rreachN_S n s x : rcond s = true -> rreachN n (rstep s) x -> rreachN (Datatypes.S n) s x.

Definition rreachP (s x : rstate) : Prop := exists y, rreach s y /\ rcond y = true /\ x = rstep y.

Lemma rreachH_N s x : rreachH s x -> exists n, rreachN n s x.
Proof. induction 1 as [s|s x C _ [n IH]]. exists O; constructor. exists (Datatypes.S n); constructor; assumption. Qed.

Lemma rreachN_suffix s y : rreachH s y -> forall n f, rreachN n s f -> rcond f = false ->
  exists n', (n' <= n)%nat /\ rreachN n' y f.
Proof.
  induction 1 as [s|s y C _ IH]; intros n f Hn Cf.
  - exists n. split. lia. exact Hn.
  - inversion Hn; subst. congruence. destruct (IH _ _ H0 Cf) as [n' [Le R]]. exists n'. split. lia. exact R.
Qed.

Lemma rreachP_suffix s y n f : rreachP s y -> rreachN n s f -> rcond f = false ->
  exists n', (n' < n)%nat /\ rreachN n' y f.
Proof.
  intros [z [Rz [Cz Ey]]] Hn Cf. destruct (rreachN_suffix s z (rreach_H s z Rz) n f Hn Cf) as [n1 [Le R1]].
  inversion R1; subst. congruence. exists n0. split. lia. assumption.
Qed.

Lemma rreachP_reach s x : rreachP s x -> rreach s x.
Proof. intros [y [R [C E]]]. subst x. apply rreach_step; assumption. Qed.

End Reference.

(* ---------------------------------------------------------------------------
   C. the grid: a box, a layout of subgrids, the global cell contents *)

Definition C3 := C03_Defs.vec.
Definition tg (a : axis) (v : C3) : Z := let '(x, y, z) := v in match a with AX => x | AY => y | AZ => z end.
Definition Lm (L : layout) (a : axis) : Z := match a with AX => nx L | AY => ny L | AZ => nz L end.   (* subgrids per axis *)
Definition Lc (L : layout) (a : axis) : Z := match a with AX => cx L | AY => cy L | AZ => cz L end.   (* cells per subgrid *)
Definition Lp (L : layout) (a : axis) : bool := match a with AX => px L | AY => py L | AZ => pz L end.
Definition NN (L : layout) (a : axis) : Z := (Lm L a * Lc L a)%Z.                                      (* cells of the whole grid *)
Definition cvec (L : layout) : ivec := mkI (cx L) (cy L) (cz L).

Lemma C3_ext (u v : C3) : (forall a, tg a u = tg a v) -> u = v.
Proof.
  destruct u as [[u1 u2] u3], v as [[v1 v2] v3]. intros H.
  pose proof (H AX) as X; pose proof (H AY) as Y; pose proof (H AZ) as Z. cbn [tg] in *. subst. reflexivity.
Qed.

Lemma coords_ok_ax L (j : C3) : coords_ok L j <-> forall a, (0 <= tg a j < Lm L a)%Z.
Proof.
  destruct j as [[x y] z]. unfold coords_ok. split.
  - intros [H1 [H2 H3]] a; destruct a; cbn [tg Lm]; assumption.
  - intros H. pose proof (H AX); pose proof (H AY); pose proof (H AZ). cbn [tg Lm] in *. auto.
Qed.

Lemma wfL_ax L : wfL L -> forall a, (1 <= Lm L a /\ 1 <= Lc L a)%Z.
Proof. unfold wfL. intros H a. destruct a; cbn [Lm Lc]; lia. Qed.

(* inverse of get_one_index on the cells of a block *)
Definition unindex (n : ivec) (c : Z) : ivec :=
  mkI (c / (iy n * iz n)) ((c mod (iy n * iz n)) / iz n) (c mod iz n).

Lemma unindex_one_index n i : (forall a, (1 <= ig a n)%Z) -> (forall a, (0 <= ig a i < ig a n)%Z) -> unindex n (one_index n i) = i.
Proof.
  intros Hn Hi. pose proof (Hn AY); pose proof (Hn AZ); pose proof (Hi AX); pose proof (Hi AY); pose proof (Hi AZ).
  destruct n as [n1 n2 n3], i as [i1 i2 i3]. cbn [ig ix iy iz] in *. unfold unindex, one_index. cbn [ix iy iz].
  assert (Hm : (0 < n2 * n3)%Z) by nia.
  assert (R : (0 <= i2 * n3 + i3 < n2 * n3)%Z) by nia.
  assert (E1 : ((i1 * (n2 * n3) + i2 * n3 + i3) / (n2 * n3) = i1)%Z).
  { symmetry. apply (Z.div_unique _ _ i1 (i2 * n3 + i3)). left; exact R. ring. }
  assert (E2 : ((i1 * (n2 * n3) + i2 * n3 + i3) mod (n2 * n3) = i2 * n3 + i3)%Z).
  { symmetry. apply (Z.mod_unique _ _ i1 (i2 * n3 + i3)). left; exact R. ring. }
  rewrite E1, E2.
  assert (E3 : ((i2 * n3 + i3) / n3 = i2)%Z) by (symmetry; apply (Z.div_unique _ _ i2 i3); [left; lia | ring]).
  assert (E4 : ((i1 * (n2 * n3) + i2 * n3 + i3) mod n3 = i3)%Z).
  { symmetry. apply (Z.mod_unique _ _ (i1 * n2 + i2) i3). left; lia. ring. }
  rewrite E3, E4. reflexivity.
Qed.

Section Grid.
Variable L : layout.
Hypothesis HL : wfL L.
Variables A S : vec R.
Hypothesis HS : forall a, 0 < vg a S.

Definition csg (a : axis) : R := vg a S / IZR (NN L a).
Definition csvec : vec R := mkV (csg AX) (csg AY) (csg AZ).
Definition ssv : vec R := subgrid_sides ROps L S.
Definition anchor_at (j : C3) : vec R :=
  mkV (vx A + IZR (tg AX j) * vx ssv) (vy A + IZR (tg AY j) * vy ssv) (vz A + IZR (tg AZ j) * vz ssv).

Lemma block_at_eq j : block_at ROps L A S j = make_block ROps (anchor_at j) ssv (cvec L).
Proof. destruct j as [[x y] z]. reflexivity. Qed.

Lemma vg_ssv a : vg a ssv = vg a S / IZR (Lm L a).
Proof. destruct a; reflexivity. Qed.
Lemma vg_csvec a : vg a csvec = csg a.
Proof. destruct a; reflexivity. Qed.
Lemma ig_cvec a : ig a (cvec L) = Lc L a.
Proof. destruct a; reflexivity. Qed.
Lemma vg_anchor_at a j : vg a (anchor_at j) = vg a A + IZR (tg a j) * vg a ssv.
Proof. destruct a; reflexivity. Qed.

Lemma csg_pos a : 0 < csg a.
Proof.
  unfold csg. destruct (wfL_ax L HL a) as [Hm Hc]. apply Rdiv_lt_0_compat. apply HS.
  apply (IZR_lt 0). unfold NN. nia.
Qed.

(* cell size, side and number of cells of every subgrid, in terms of the global cell size *)
Lemma block_cs j a : vg a (b_cs (block_at ROps L A S j)) = csg a.
Proof.
  rewrite block_at_eq, top_cs, vg_ssv, ig_cvec. destruct (wfL_ax L HL a) as [Hm Hc].
  apply (cell_size_eq (vg a S) (Lm L a) (Lc L a) Hm Hc).
Qed.
Lemma ssv_cs a : vg a ssv = IZR (Lc L a) * csg a.
Proof. rewrite vg_ssv. destruct (wfL_ax L HL a) as [Hm Hc]. symmetry. apply (cell_size_eq (vg a S) (Lm L a) (Lc L a) Hm Hc). Qed.
Lemma S_cs a : vg a S = IZR (NN L a) * csg a.
Proof. destruct (wfL_ax L HL a) as [Hm Hc]. symmetry. apply (cell_size_eq (vg a S) (Lm L a) (Lc L a) Hm Hc). Qed.
Lemma ssv_pos a : 0 < vg a ssv.
Proof. rewrite ssv_cs. destruct (wfL_ax L HL a) as [Hm Hc]. apply Rmult_lt_0_compat. apply (IZR_lt 0); lia. apply csg_pos. Qed.
Lemma block_n j : b_n (block_at ROps L A S j) = cvec L.
Proof. rewrite block_at_eq. reflexivity. Qed.

(* the global cell a cell of a subgrid is *)
Definition gcell_of (sub cell : Z) : ivec :=
  let j := pos_of_index L sub in let i := unindex (cvec L) cell in
  mkI (tg AX j * cx L + ix i) (tg AY j * cy L + iy i) (tg AZ j * cz L + iz i).

Lemma ig_gcell_of a sub cell : ig a (gcell_of sub cell) = (tg a (pos_of_index L sub) * Lc L a + ig a (unindex (cvec L) cell))%Z.
Proof. destruct a; reflexivity. Qed.

(* the same global cell contents, distributed over the layout *)
Variable gc : ivec -> cellc R.
Definition lcells (sub cell : Z) : cellc R := gc (gcell_of sub cell).

Definition wrapI (I : ivec) : ivec := mkI (ix I mod NN L AX) (iy I mod NN L AY) (iz I mod NN L AZ).
Lemma ig_wrapI a I : ig a (wrapI I) = (ig a I mod NN L a)%Z.
Proof. destruct a; reflexivity. Qed.

Definition kap1 (sg : list R) (c : cellc R) : R := c_n c * (nth 0 sg 0 * c_xH c + nth 1 sg 0 * c_xHe c).
Definition kapG (sg : list R) (I : ivec) : R := kap1 sg (gc (wrapI I)).
Definition insideG (I : ivec) : bool :=
  (px L || in_rng (NN L AX) (ix I)) && (py L || in_rng (NN L AY) (iy I)) && (pz L || in_rng (NN L AZ) (iz I)).

Lemma insideG_spec I : insideG I = true <-> forall a, Lp L a = false -> (0 <= ig a I < NN L a)%Z.
Proof.
  unfold insideG. rewrite !andb_true_iff, !orb_true_iff, !in_rng_iff. split.
  - intros [[H1 H2] H3] a Ha. destruct a; cbn [Lp ig] in *; [destruct H1|destruct H2|destruct H3]; congruence || assumption.
  - intros H. repeat split.
    + destruct (px L) eqn:E; [left; reflexivity | right; apply (H AX); exact E].
    + destruct (py L) eqn:E; [left; reflexivity | right; apply (H AY); exact E].
    + destruct (pz L) eqn:E; [left; reflexivity | right; apply (H AZ); exact E].
Qed.

Lemma kappa_lcells ph sub cell : kappa (lcells sub) ph cell = kap1 (p_sigma ph) (gc (gcell_of sub cell)).
Proof. reflexivity. Qed.

End Grid.

(* ---------------------------------------------------------------------------
   lengths credited to a cell of the global grid *)
Definition ivec_eqb (u v : ivec) : bool := (ix u =? ix v)%Z && (iy u =? iy v)%Z && (iz u =? iz v)%Z.

Lemma ivec_eqb_eq u v : ivec_eqb u v = true <-> u = v.
Proof.
  unfold ivec_eqb. rewrite !andb_true_iff, !Z.eqb_eq. destruct u, v; cbn. split.
  - intros [[-> ->] ->]. reflexivity.
  - intros H. inversion H. auto.
Qed.

(* by the reference march (unfolded indices are wrapped into the box) *)
Definition rcred (L : layout) (rv : list (ivec * R)) (C : ivec) : R :=
  fold_right (fun v s => if ivec_eqb (wrapI L (fst v)) C then snd v + s else s) 0 rv.
(* by one interact call in subgrid sub: update_intensity_counters calls (cell, length) *)
Definition lcred (L : layout) (sub : Z) (vis : list (Z * R)) (C : ivec) : R :=
  fold_right (fun v s => if ivec_eqb (gcell_of L sub (fst v)) C then snd v + s else s) 0 vis.
(* by a whole trace *)
Definition tcred (L : layout) (steps : list (tstep R)) (C : ivec) : R :=
  fold_right (fun s acc => lcred L (ts_sub s) (r_vis (ts_res s)) C + acc) 0 steps.

Lemma rcred_cons L v a C : rcred L (v :: a) C = if ivec_eqb (wrapI L (fst v)) C then snd v + rcred L a C else rcred L a C.
Proof. reflexivity. Qed.
Lemma lcred_cons L sub v a C :
  lcred L sub (v :: a) C = if ivec_eqb (gcell_of L sub (fst v)) C then snd v + lcred L sub a C else lcred L sub a C.
Proof. reflexivity. Qed.
Lemma tcred_cons L s steps C : tcred L (s :: steps) C = lcred L (ts_sub s) (r_vis (ts_res s)) C + tcred L steps C.
Proof. reflexivity. Qed.

Lemma rcred_app L a b C : rcred L (a ++ b) C = rcred L a C + rcred L b C.
Proof.
  induction a as [|v a IH]. change (rcred L b C = 0 + rcred L b C). ring.
  rewrite <- app_comm_cons, !rcred_cons, IH. destruct (ivec_eqb (wrapI L (fst v)) C); ring.
Qed.
Lemma lcred_app L sub a b C : lcred L sub (a ++ b) C = lcred L sub a C + lcred L sub b C.
Proof.
  induction a as [|v a IH]. change (lcred L sub b C = 0 + lcred L sub b C). ring.
  rewrite <- app_comm_cons, !lcred_cons, IH. destruct (ivec_eqb (gcell_of L sub (fst v)) C); ring.
Qed.
Lemma lcred_rev L sub a C : lcred L sub (rev a) C = lcred L sub a C.
Proof.
  induction a as [|v a IH]. reflexivity. cbn [rev]. rewrite lcred_app, IH, !lcred_cons. change (lcred L sub [] C) with 0.
  destruct (ivec_eqb (gcell_of L sub (fst v)) C); ring.
Qed.

(* ---------------------------------------------------------------------------
   D. the simulation relation between the reference and the march inside one subgrid *)

(* One axis.  cs: cell size, c: cells per subgrid, dd: direction component, J: unfolded lattice coordinate of the subgrid;
   reference position P (relative to the box anchor) and cell index I; local position p (relative to the subgrid
   anchor) and local cell index i.
   Either the two are in step (I = i + J c, position in the closed cell, half-open in the direction of travel), or the
   local index LAGS one cell behind a reference index that already moved down: this happens when the packet enters a
   subgrid on a cell wall of an axis it does not cross, travelling in the negative direction (get_start_index recomputes
   the index by truncation, which gives the cell above the wall); the next local iteration has length zero and repairs it.
   Flags: post = at least one reference step was made (strict lower bound for negative directions);
          lagok = lagging allowed (only in the start state of a subgrid after a hand-over);
          real = the last local iteration was a non-zero-length ("real") one (or no hand-over happened yet). *)
Definition axrel (post lagok real : bool) (cs : R) (c : Z) (dd : R) (J : Z) (P : R) (I : Z) (p : R) (i : Z) : Prop :=
  P = p + IZR (J * c) * cs /\
  ((I = (i + J * c)%Z /\ IZR i * cs <= p <= (IZR i + 1) * cs /\
    (0 <= dd -> p < (IZR i + 1) * cs) /\
    (post = true -> dd < 0 -> IZR i * cs < p) /\
    (post = false -> p < (IZR i + 1) * cs) /\
    (real = true -> dd < 0 -> p < IZR c * cs))
   \/
   (lagok = true /\ dd < 0 /\ p = IZR i * cs /\ I = (i + J * c - 1)%Z /\ (1 <= i < c)%Z)).

Definition axlag (cs : R) (c : Z) (dd : R) (J : Z) (I : Z) (p : R) (i : Z) : Prop :=
  dd < 0 /\ p = IZR i * cs /\ I = (i + J * c - 1)%Z /\ (1 <= i < c)%Z.

(* ---------------------------------------------------------------------------
   tables: C02's decode is C03's offset_of_dir; entry kind per axis from the offset of the input direction *)
Lemma decode_offset o : (0 <= o < 27)%Z -> decode o = Some (offset_of_dir o).
Proof.
  intros H.
  assert (C : (o = 0 \/ o = 1 \/ o = 2 \/ o = 3 \/ o = 4 \/ o = 5 \/ o = 6 \/ o = 7 \/ o = 8 \/ o = 9 \/ o = 10 \/ o = 11 \/
              o = 12 \/ o = 13 \/ o = 14 \/ o = 15 \/ o = 16 \/ o = 17 \/ o = 18 \/ o = 19 \/ o = 20 \/ o = 21 \/ o = 22 \/
              o = 23 \/ o = 24 \/ o = 25 \/ o = 26)%Z) by lia.
  repeat (destruct C as [C|C]; [subst o; reflexivity|]). subst o; reflexivity.
Qed.

Lemma kg_tuple a (x y z : akind) : kg a (x, y, z) = match a with AX => x | AY => y | AZ => z end.
Proof. reflexivity. Qed.

(* the entry kind of an axis is determined by the offset of the input direction: -1 lower plane, 1 upper plane, 0 free *)
Lemma kind_of_offset input a : (0 <= input < 27)%Z ->
  side (kg a (kinds_of input)) = tg a (offset_of_dir input).
Proof.
  intros H. destruct (entry_tables input H) as [kx [ky [kz [E1 [_ [_ [_ [_ D]]]]]]]].
  rewrite (decode_offset input H) in D. inversion D as [D']. unfold kinds_of. rewrite E1, D'.
  destruct a; reflexivity.
Qed.

Lemma side_cases k : (side k = 0%Z -> k = KCompute) /\ (side k = (-1)%Z -> k = KLow) /\ (side k = 1%Z -> k = KHigh).
Proof. destruct k; cbn; repeat split; intros; try reflexivity; try discriminate. Qed.

Lemma exit_sign_cases n i : (1 <= n)%Z -> (-1 <= i <= n)%Z ->
  (exit_sign n i = 1%Z /\ i = n) \/ (exit_sign n i = (-1)%Z /\ i = (-1)%Z) \/ (exit_sign n i = 0%Z /\ (0 <= i < n)%Z).
Proof.
  intros Hn Hi. unfold exit_sign. destruct (i <? 0)%Z eqn:E1.
  - apply Z.ltb_lt in E1. right; left. split. reflexivity. lia.
  - apply Z.ltb_ge in E1. destruct (n <=? i)%Z eqn:E2.
    + apply Z.leb_le in E2. left. split. reflexivity. lia.
    + apply Z.leb_gt in E2. right; right. split. reflexivity. lia.
Qed.

(* per axis view of C02's start state *)
Lemma start_state_ax anchor sides n ph input a :
  let k := kg a (kinds_of input) in
  let p1 := repos1 ROps k (ig a n) (vg a sides / IZR (ig a n)) (vg a (p_pos ph) - vg a anchor) in
  vg a (m_pos (start_state anchor sides n ph input)) = p1 /\
  ig a (m_idx (start_state anchor sides n ph input)) = start1 ROps k (ig a n) (IZR (ig a n) / vg a sides) p1.
Proof. destruct a; split; reflexivity. Qed.

Lemma entry_start_state anchor sides n ph input : (0 <= input < 27)%Z ->
  entry ROps (make_block ROps anchor sides n) ph input =
  Some (m_pos (start_state anchor sides n ph input), m_idx (start_state anchor sides n ph input)).
Proof.
  intros H. destruct (entry_tables input H) as [kx [ky [kz [E1 [E2 [E3 [E4 _]]]]]]].
  unfold entry. rewrite E1, E2, E3, E4. unfold start_state, kinds_of. rewrite E1. reflexivity.
Qed.

(* lattice arithmetic: cell i of subgrid J, unfolded and wrapped *)
Lemma mod_block (m c J i : Z) : (1 <= m)%Z -> (1 <= c)%Z -> (0 <= i < c)%Z ->
  ((i + J * c) mod (m * c) = (J mod m) * c + i /\ (i + J * c) / (m * c) = J / m)%Z.
Proof.
  intros Hm Hc Hi. pose proof (Z.div_mod J m ltac:(lia)) as E. pose proof (Z.mod_pos_bound J m ltac:(lia)) as B.
  set (q := (J / m)%Z) in *. set (r := (J mod m)%Z) in *.
  assert (R : (0 <= r * c + i < m * c)%Z) by nia.
  split.
  - symmetry. apply (Z.mod_unique _ _ q). left; exact R. rewrite E. ring.
  - symmetry. apply (Z.div_unique _ _ q (r * c + i)). left; exact R. rewrite E. ring.
Qed.


Section Sim.
Variable L : layout.
Hypothesis HL : wfL L.
Variables A S : vec R.
Hypothesis HS : forall a, 0 < vg a S.
Variable gc : ivec -> cellc R.
Hypothesis Hgc : forall I, 0 <= c_n (gc I) /\ 0 <= c_xH (gc I) /\ 0 <= c_xHe (gc I).
Variable d : vec R.
Variable sg : list R.
Variable target : R.

Notation cs := (csg L S).
Notation rstepG := (rstep (csvec L S) d target (kapG L gc sg)).
Notation rcondG := (rcond target (insideG L)).
Notation rreachG := (rreach (csvec L S) d target (kapG L gc sg) (insideG L)).
Notation rreachPG := (rreachP (csvec L S) d target (kapG L gc sg) (insideG L)).
Notation rreachNG := (rreachN (csvec L S) d target (kapG L gc sg) (insideG L)).

Definition Rel (post lagok real : bool) (J : C3) (G : rstate) (st : mstate R) (tl : R) : Prop :=
  (forall a, axrel post lagok real (cs a) (Lc L a) (vg a d) (tg a J)
                   (vg a (rs_pos G)) (ig a (rs_idx G)) (vg a (m_pos st)) (ig a (m_idx st))) /\
  target - rs_tau G = tl - m_tau st.

(* relation at the end of a march that stopped inside *)
Definition FRel (J : C3) (G : rstate) (st : mstate R) (tl : R) : Prop :=
  (forall a, vg a (rs_pos G) = vg a (m_pos st) + IZR (tg a J * Lc L a) * cs a /\
             ig a (rs_idx G) = (ig a (m_idx st) + tg a J * Lc L a)%Z) /\
  target - rs_tau G = tl - m_tau st.

(* unfolded global index of the local cell i of the subgrid at unfolded lattice position J *)
Definition shiftI (J : C3) (i : ivec) : ivec :=
  mkI (ix i + tg AX J * cx L) (iy i + tg AY J * cy L) (iz i + tg AZ J * cz L).
Lemma ig_shiftI a J i : ig a (shiftI J i) = (ig a i + tg a J * Lc L a)%Z.
Proof. destruct a; reflexivity. Qed.

Definition in_block (i : ivec) : Prop := forall a, (0 <= ig a i < Lc L a)%Z.

(* visits of a subgrid (cell one-index, length) against visits of the reference (unfolded index, length), most recent
   first: the same, except that the subgrid may have extra zero-length visits *)
Inductive visrel (J : C3) : list (Z * R) -> list (ivec * R) -> Prop :=
| vr_nil : visrel J [] []
| vr_real i len lv rv : in_block i -> visrel J lv rv -> visrel J ((one_index (cvec L) i, len) :: lv) ((shiftI J i, len) :: rv)
| vr_stut i lv rv : in_block i -> visrel J lv rv -> visrel J ((one_index (cvec L) i, 0) :: lv) rv.

Lemma rel_lag_dec post lagok real J G st tl : Rel post lagok real J G st tl ->
  Rel post false real J G st tl \/
  (lagok = true /\ exists a, axlag (cs a) (Lc L a) (vg a d) (tg a J) (ig a (rs_idx G)) (vg a (m_pos st)) (ig a (m_idx st))).
Proof.
  intros [R RT].
  assert (X : forall a, axrel post false real (cs a) (Lc L a) (vg a d) (tg a J) (vg a (rs_pos G)) (ig a (rs_idx G))
                              (vg a (m_pos st)) (ig a (m_idx st)) \/
                        (lagok = true /\ axlag (cs a) (Lc L a) (vg a d) (tg a J) (ig a (rs_idx G)) (vg a (m_pos st)) (ig a (m_idx st)))).
  { intros a. destruct (R a) as [HP [Sy|[Lk Lg]]]. left. split. exact HP. left. exact Sy. right. split. exact Lk. exact Lg. }
  destruct (X AX) as [X1|[Lk X1]]; [|right; split; [exact Lk | exists AX; exact X1]].
  destruct (X AY) as [X2|[Lk X2]]; [|right; split; [exact Lk | exists AY; exact X2]].
  destruct (X AZ) as [X3|[Lk X3]]; [|right; split; [exact Lk | exists AZ; exact X3]].
  left. split; [|exact RT]. intros a; destruct a; assumption.
Qed.


Section Block.
Variable b : block R.
Hypothesis Hbcs : forall a, vg a (b_cs b) = cs a.
Hypothesis Hbn : b_n b = cvec L.
Variable tl : R.
Variable od : Z -> R -> R.
Variable kapl : Z -> R.
Variable p0 : vec R.
Hypothesis Hod : forall c l, od c l = kapl c * l.
Hypothesis Hkapl : forall c, 0 <= kapl c.
Hypothesis Hbig : exists j, vg j d <> 0 /\ vg j (b_cs b) < RDBLMAX * Rabs (vg j d).

Notation stepL := (step ROps b d (invdR d) tl od).
Notation wallsL := (walls ROps b d (invdR d)).

Lemma Hcs_pos : forall a, 0 < vg a (b_cs b).
Proof. intros a. rewrite Hbcs. apply csg_pos; assumption. Qed.

Lemma lo_cs a st : lo b a st = IZR (ig a (m_idx st)) * cs a.
Proof. unfold lo. rewrite Hbcs. reflexivity. Qed.
Lemma hi_cs a st : hi b a st = (IZR (ig a (m_idx st)) + 1) * cs a.
Proof. unfold hi. rewrite Hbcs. reflexivity. Qed.

(* the wall distances of the reference and of the subgrid agree when every axis is in step *)
Lemma walls_agree J G st :
  (forall a, vg a (rs_pos G) = vg a (m_pos st) + IZR (tg a J * Lc L a) * cs a /\
             ig a (rs_idx G) = (ig a (m_idx st) + tg a J * Lc L a)%Z) ->
  rwalls (csvec L S) d G = wallsL st.
Proof.
  intros H. apply vec_ext. intros a. unfold rwalls. rewrite !vg_walls. destruct (H a) as [HP HI].
  unfold lo, hi. cbn [m_idx m_pos as_m b_cs bref]. rewrite vg_csvec, Hbcs, HP, HI, plus_IZR.
  set (t := IZR (tg a J * Lc L a) * cs a).
  replace ((IZR (ig a (m_idx st)) + IZR (tg a J * Lc L a)) * cs a) with (IZR (ig a (m_idx st)) * cs a + t) by (unfold t; ring).
  replace ((IZR (ig a (m_idx st)) + IZR (tg a J * Lc L a) + 1) * cs a) with ((IZR (ig a (m_idx st)) + 1) * cs a + t) by (unfold t; ring).
  apply wall_shift.
Qed.

Lemma move_agree J G st l len a :
  (forall a, vg a (rs_pos G) = vg a (m_pos st) + IZR (tg a J * Lc L a) * cs a /\
             ig a (rs_idx G) = (ig a (m_idx st) + tg a J * Lc L a)%Z) ->
  vg a (move ROps (bref (csvec L S)) d (as_m G) l len) = vg a (move ROps b d st l len) + IZR (tg a J * Lc L a) * cs a.
Proof.
  intros H. rewrite !vg_move. destruct (H a) as [HP HI].
  unfold lo, hi. cbn [m_idx m_pos as_m b_cs bref]. rewrite vg_csvec, Hbcs, HP, HI, plus_IZR.
  set (t := IZR (tg a J * Lc L a) * cs a).
  replace ((IZR (ig a (m_idx st)) + IZR (tg a J * Lc L a)) * cs a) with (IZR (ig a (m_idx st)) * cs a + t) by (unfold t; ring).
  replace ((IZR (ig a (m_idx st)) + IZR (tg a J * Lc L a) + 1) * cs a) with ((IZR (ig a (m_idx st)) + 1) * cs a + t) by (unfold t; ring).
  apply newpos1_shift.
Qed.

(* every wall distance is positive in a state related with post = true in which no axis lags *)
Lemma walls_positive J G st real : Inv b d tl kapl p0 st -> Rel true false real J G st tl ->
  forall a, 0 < vg a (wallsL st).
Proof.
  intros I [R _] a. destruct (Req_dec (vg a d) 0) as [Z|NZ].
  - rewrite walls_zero by exact Z. apply RDBLMAX_pos.
  - destruct (walls_nonzero b d tl kapl p0 st a I NZ) as [W0 [W _]].
    destruct (R a) as [_ [[_ [_ [Hp [Hn _]]]]|[F _]]]; [|discriminate].
    rewrite lo_cs, hi_cs in W. destruct (Rltb 0 (vg a d)) eqn:E.
    + apply Rltb_true in E. assert (vg a (m_pos st) < (IZR (ig a (m_idx st)) + 1) * cs a) by (apply Hp; lra). nra.
    + apply Rltb_false in E. assert (D : vg a d < 0) by lra. specialize (Hn eq_refl D). nra.
Qed.

Lemma lmin_positive J G st real : Inv b d tl kapl p0 st -> Rel true false real J G st tl ->
  0 < lmin_of ROps (wallsL st).
Proof. intros I R. destruct (lmin_attained (wallsL st)) as [a E]. rewrite E. apply (walls_positive J G st real I R). Qed.

(* explicit form of the two branches of the loop body, subgrid and reference *)
Lemma stepL_absorbing_eq st : tl <= m_tau st + kapl (m_cell st) * lmin_of ROps (wallsL st) ->
  let lmin := lmin_of ROps (wallsL st) in let k := kapl (m_cell st) in
  let len := lmin * (1 - (m_tau st + k * lmin - tl) / (k * lmin)) in
  stepL st = mkM (move ROps b d st (wallsL st) len) (m_idx st) (one_index (b_n b) (m_idx st))
                 (m_tau st + k * lmin) ((m_cell st, len) :: m_vis st).
Proof.
  intros H lmin k len. unfold step. fold lmin. rewrite Hod. fold k. rsimp.
  assert (R : Rleb tl (m_tau st + k * lmin) = true) by (apply Rleb_true; exact H). rewrite R. reflexivity.
Qed.

Lemma stepL_moving_eq st : m_tau st + kapl (m_cell st) * lmin_of ROps (wallsL st) < tl ->
  let l := wallsL st in let lmin := lmin_of ROps l in let k := kapl (m_cell st) in
  let i' := mkI (newidx1 ROps (vx l) lmin (vx d) (ix (m_idx st))) (newidx1 ROps (vy l) lmin (vy d) (iy (m_idx st)))
                (newidx1 ROps (vz l) lmin (vz d) (iz (m_idx st))) in
  stepL st = mkM (move ROps b d st l lmin) i' (one_index (b_n b) i') (m_tau st + k * lmin) ((m_cell st, lmin) :: m_vis st).
Proof.
  intros H l lmin k i'. unfold step. fold l. fold lmin. rewrite Hod. fold k. rsimp.
  assert (R : Rleb tl (m_tau st + k * lmin) = false) by (apply Rleb_false; exact H). rewrite R. reflexivity.
Qed.

Lemma rstep_absorbing_eq G l k : rwalls (csvec L S) d G = l -> kapG L gc sg (rs_idx G) = k ->
  target <= rs_tau G + k * lmin_of ROps l ->
  let lmin := lmin_of ROps l in
  let len := lmin * (1 - (rs_tau G + k * lmin - target) / (k * lmin)) in
  rstepG G = mkRS (move ROps (bref (csvec L S)) d (as_m G) l len) (rs_idx G) (rs_tau G + k * lmin) ((rs_idx G, len) :: rs_vis G).
Proof.
  intros Hw Hk H lmin len. unfold rstep. rewrite Hw, Hk. fold lmin.
  assert (R : Rleb target (rs_tau G + k * lmin) = true) by (apply Rleb_true; exact H). rewrite R. reflexivity.
Qed.

Lemma rstep_moving_eq G l k : rwalls (csvec L S) d G = l -> kapG L gc sg (rs_idx G) = k ->
  rs_tau G + k * lmin_of ROps l < target ->
  let lmin := lmin_of ROps l in
  let i' := mkI (newidx1 ROps (vx l) lmin (vx d) (ix (rs_idx G))) (newidx1 ROps (vy l) lmin (vy d) (iy (rs_idx G)))
                (newidx1 ROps (vz l) lmin (vz d) (iz (rs_idx G))) in
  rstepG G = mkRS (move ROps (bref (csvec L S)) d (as_m G) l lmin) i' (rs_tau G + k * lmin) ((rs_idx G, lmin) :: rs_vis G).
Proof.
  intros Hw Hk H lmin i'. unfold rstep. rewrite Hw, Hk. fold lmin.
  assert (R : Rleb target (rs_tau G + k * lmin) = false) by (apply Rleb_false; exact H). rewrite R. reflexivity.
Qed.

(* a non-zero-length ("real") iteration: no axis lags; it is exactly one reference step *)
Lemma sim_real J G st post real :
  Inv b d tl kapl p0 st -> cond ROps b tl st = true ->
  Rel post false real J G st tl ->
  kapl (m_cell st) = kapG L gc sg (rs_idx G) ->
  insideG L (rs_idx G) = true ->
  rcondG G = true /\
  let st' := stepL st in let G' := rstepG G in
  ((m_tau st' < tl /\ Rel true false true J G' st' tl) \/ (tl <= m_tau st' /\ FRel J G' st' tl)) /\
  exists len, m_vis st' = (m_cell st, len) :: m_vis st /\ rs_vis G' = (rs_idx G, len) :: rs_vis G.
Proof.
  intros I C [R RT] Hk Hin.
  assert (Sy : forall a, vg a (rs_pos G) = vg a (m_pos st) + IZR (tg a J * Lc L a) * cs a /\
                         ig a (rs_idx G) = (ig a (m_idx st) + tg a J * Lc L a)%Z).
  { intros a. destruct (R a) as [HP [[HI _]|[F _]]]; [|discriminate]. split; assumption. }
  pose proof (walls_agree J G st Sy) as Hw.
  pose proof C as C'. apply cond_spec in C'. destruct C' as [Ct Cin].
  split.
  { unfold rcond. rewrite Hin, andb_true_r. apply Rltb_true. lra. }
  intros st' G'. set (l := wallsL st) in *. set (lmin := lmin_of ROps l). set (k := kapl (m_cell st)) in *.
  symmetry in Hk.
  destruct (Rle_dec tl (m_tau st + k * lmin)) as [Ab|NAb].
  - (* the target is reached in this cell *)
    pose proof (stepL_absorbing_eq st Ab) as E. cbv zeta in E. fold l lmin k in E. fold st' in E.
    assert (AbG : target <= rs_tau G + k * lmin_of ROps l) by (fold lmin; lra).
    pose proof (rstep_absorbing_eq G l k Hw Hk AbG) as EG. cbv zeta in EG. fold lmin in EG. fold G' in EG.
    replace (rs_tau G + k * lmin - target) with (m_tau st + k * lmin - tl) in EG by lra.
    set (len := lmin * (1 - (m_tau st + k * lmin - tl) / (k * lmin))) in *.
    split.
    + right. split. rewrite E; cbn [m_tau]. exact Ab.
      split.
      * intros a. rewrite EG, E. cbn [rs_pos rs_idx m_pos m_idx]. split. apply (move_agree J G st l len a Sy). apply Sy.
      * rewrite EG, E. cbn [rs_tau m_tau]. lra.
    + exists len. rewrite E, EG. split; reflexivity.
  - (* the packet moves on to the next cell *)
    assert (Mv : m_tau st + k * lmin < tl) by lra.
    pose proof (stepL_moving_eq st Mv) as E. cbv zeta in E. fold l lmin k in E. fold st' in E.
    assert (MvG : rs_tau G + k * lmin_of ROps l < target) by (fold lmin; lra).
    pose proof (rstep_moving_eq G l k Hw Hk MvG) as EG. cbv zeta in EG. fold lmin in EG. fold G' in EG.
    assert (NA : ~ absorbing b d tl od st) by (unfold absorbing; rewrite Hod; fold l lmin k; lra).
    destruct (step_moving b d tl od kapl p0 Hcs_pos Hod Hbig st I C NA) as [I' [T' [V' [_ F]]]]. fold st' in I', T', V', F.
    assert (L0 : 0 <= lmin) by (apply (lmin_bounds b d tl kapl p0 Hbig st I)).
    assert (Lpos : post = true -> 0 < lmin).
    { intros Ep. subst post. apply (lmin_positive J G st real I). split; assumption. }
    split.
    + left. split. exact T'. split.
      * intros a. destruct (R a) as [HP [[HI [Hc [Hp [Hn [Hq Hr]]]]]|[Fl _]]]; [|discriminate].
        destruct (F a) as [FM FN].
        assert (Pos : vg a (rs_pos G') = vg a (m_pos st') + IZR (tg a J * Lc L a) * cs a).
        { rewrite EG, E. cbn [rs_pos m_pos]. apply (move_agree J G st l lmin a Sy). }
        assert (Idx : ig a (rs_idx G') = (ig a (m_idx st') + tg a J * Lc L a)%Z).
        { rewrite EG, E. cbn [rs_idx m_idx]. rewrite !ig_newidx. unfold newidx1. destruct (o_eqb ROps (vg a l) lmin).
          destruct (o_ltb ROps (o_zero ROps) (vg a d)); lia. exact HI. }
        pose proof (inv_cell _ _ _ _ _ _ I' a) as Cell. rewrite lo_cs, hi_cs in Cell.
        pose proof (csg_pos L HL S HS a) as Hcsp. specialize (Cin a). rewrite Hbn, ig_cvec in Cin.
        split. exact Pos. left. split. exact Idx. split. exact Cell.
        destruct (Req_EM_T (vg a l) lmin) as [M|NM].
        -- (* this axis moves to the next cell *)
           destruct (FM M) as [NZ [Ei Ep]]. rewrite lo_cs, hi_cs in Ep. rewrite Ei, Ep.
           destruct (Rltb 0 (vg a d)) eqn:Sg.
           ++ apply Rltb_true in Sg. rewrite plus_IZR. repeat split; intros; try lra.
           ++ apply Rltb_false in Sg. rewrite plus_IZR. replace (IZR (-1)) with (-1) by reflexivity.
              assert (IZR (ig a (m_idx st)) <= IZR (Lc L a) - 1) by (rewrite <- minus_IZR; apply IZR_le; lia).
              repeat split; intros; try lra; try nra.
        -- (* this axis stays in its cell *)
           destruct (FN NM) as [Ei [Fp [Fn Fz]]]. rewrite lo_cs in Fn. rewrite hi_cs in Fp. rewrite Ei.
           assert (Pq : vg a (m_pos st') = vg a (m_pos st) + lmin * vg a d).
           { pose proof (inv_pos _ _ _ _ _ _ I a) as Q1. pose proof (inv_pos _ _ _ _ _ _ I' a) as Q2.
             rewrite V', sumlen_cons in Q2. cbn [snd] in Q2. fold l lmin in Q2. lra. }
           assert (IZR (ig a (m_idx st)) + 1 <= IZR (Lc L a)) by (rewrite <- (plus_IZR _ 1); apply IZR_le; lia).
           split; [|split; [|split]].
           ++ intros D0. destruct (Req_dec (vg a d) 0) as [Z|NZ]. rewrite (Fz Z). apply Hp; lra. apply Fp; lra.
           ++ intros _ Dn. apply Fn; exact Dn.
           ++ intros X; discriminate X.
           ++ intros _ Dn. destruct post.
              ** specialize (Lpos eq_refl). nra.
              ** specialize (Hq eq_refl). nra.
      * rewrite EG, E. cbn [rs_tau m_tau]. lra.
    + exists lmin. rewrite E, EG. split; reflexivity.
Qed.

(* a zero-length iteration: some axis lags (only possible in the start state of a subgrid after a hand-over).
   Exactly the lagging axes move (one cell down, position unchanged), nothing is credited but a zero length to the
   current cell, the optical depth done does not change, the loop condition still holds: zero reference steps. *)
Lemma sim_stutter J G st real :
  Inv b d tl kapl p0 st -> cond ROps b tl st = true ->
  Rel true true real J G st tl ->
  (exists a, axlag (cs a) (Lc L a) (vg a d) (tg a J) (ig a (rs_idx G)) (vg a (m_pos st)) (ig a (m_idx st))) ->
  let st' := stepL st in
  Rel true false false J G st' tl /\ cond ROps b tl st' = true /\ m_vis st' = (m_cell st, 0) :: m_vis st.
Proof.
  intros I C [R RT] [a0 [D0 [P0 [I0 R0]]]] st'.
  pose proof C as C'. apply cond_spec in C'. destruct C' as [Ct Cin].
  set (l := wallsL st) in *. set (lmin := lmin_of ROps l).
  (* the wall distance of the lagging axis is 0, hence the minimum is 0 *)
  assert (W0 : vg a0 l = 0).
  { assert (NZ : vg a0 d <> 0) by lra. destruct (walls_nonzero b d tl kapl p0 st a0 I NZ) as [_ [W _]].
    assert (E : Rltb 0 (vg a0 d) = false) by (apply Rltb_false; lra). rewrite E, lo_cs in W. fold l in W. nra. }
  assert (Lz : lmin = 0).
  { pose proof (lmin_bounds b d tl kapl p0 Hbig st I) as [B _]. pose proof (lmin_le l a0) as B2. fold l lmin in B. fold lmin in B2. lra. }
  assert (NA : ~ absorbing b d tl od st) by (unfold absorbing; rewrite Hod; fold l lmin; rewrite Lz; lra).
  destruct (step_moving b d tl od kapl p0 Hcs_pos Hod Hbig st I C NA) as [I' [T' [V' [_ F]]]]. fold st' l lmin in I', T', V', F.
  rewrite Lz in V'.
  assert (Pq : forall a, vg a (m_pos st') = vg a (m_pos st)).
  { intros a. pose proof (inv_pos _ _ _ _ _ _ I a) as Q1. pose proof (inv_pos _ _ _ _ _ _ I' a) as Q2.
    rewrite V', sumlen_cons in Q2. cbn [snd] in Q2. lra. }
  assert (Tq : m_tau st' = m_tau st).
  { destruct (inv_tau _ _ _ _ _ _ I) as [Q1 _]. destruct (inv_tau _ _ _ _ _ _ I') as [Q2 _].
    rewrite (Q2 T'), (Q1 Ct), V', sumtau_cons. cbn [fst snd]. ring. }
  (* per axis: which axes move *)
  assert (Ax : forall a,
    axrel true false false (cs a) (Lc L a) (vg a d) (tg a J) (vg a (rs_pos G)) (ig a (rs_idx G))
          (vg a (m_pos st')) (ig a (m_idx st')) /\ (0 <= ig a (m_idx st') < Lc L a)%Z).
  { intros a. pose proof (csg_pos L HL S HS a) as Hcsp. specialize (Cin a). rewrite Hbn, ig_cvec in Cin.
    destruct (F a) as [FM FN]. rewrite Pq.
    destruct (R a) as [HP [[HI [Hc [Hp [Hn [Hq Hr]]]]]|[_ [Dn [Pl [Il Rl]]]]]].
    - (* in step: the wall distance is positive, the axis does not move *)
      assert (NM : ~ moved b d st a).
      { unfold moved. fold l lmin. rewrite Lz. intros M.
        destruct (Req_dec (vg a d) 0) as [Z|NZ].
        - pose proof (walls_zero b d st a Z) as WZ. fold l in WZ. rewrite WZ in M. pose proof RDBLMAX_pos. lra.
        - destruct (walls_nonzero b d tl kapl p0 st a I NZ) as [_ [W _]]. fold l in W. rewrite M, lo_cs, hi_cs in W.
          destruct (Rltb 0 (vg a d)) eqn:E.
          + apply Rltb_true in E. assert (vg a (m_pos st) < (IZR (ig a (m_idx st)) + 1) * cs a) by (apply Hp; lra). lra.
          + apply Rltb_false in E. assert (Dn : vg a d < 0) by lra. specialize (Hn eq_refl Dn). lra. }
      destruct (FN NM) as [Ei _]. rewrite Ei. split; [|exact Cin].
      split. exact HP. left. split. exact HI. split. exact Hc. split. exact Hp. split. exact Hn.
      split. intros X; discriminate X. intros X; discriminate X.
    - (* lagging: the axis moves one cell down *)
      assert (M : moved b d st a).
      { unfold moved. fold l lmin. rewrite Lz. assert (NZ : vg a d <> 0) by lra.
        destruct (walls_nonzero b d tl kapl p0 st a I NZ) as [_ [W _]].
        assert (E : Rltb 0 (vg a d) = false) by (apply Rltb_false; lra). rewrite E, lo_cs in W. fold l in W. nra. }
      destruct (FM M) as [_ [Ei _]]. assert (E : Rltb 0 (vg a d) = false) by (apply Rltb_false; lra). rewrite E in Ei.
      rewrite Ei. split; [|lia].
      split. exact HP. left. rewrite plus_IZR. replace (IZR (-1)) with (-1) by reflexivity.
      split. lia. split. lra. split. intros; lra. split. intros; lra. split. intros X; discriminate X. intros X; discriminate X. }
  split; [|split].
  - split. intros a. apply Ax. rewrite Tq. exact RT.
  - apply cond_spec. split. exact T'. intros a. rewrite Hbn, ig_cvec. apply Ax.
  - exact V'.
Qed.

(* ---- the whole march inside one subgrid ---- *)
Variable J : C3.
Hypothesis HJok : forall a, Lp L a = false -> (0 <= tg a J < Lm L a)%Z.
Hypothesis HkJ : forall i, in_block i -> kapl (one_index (cvec L) i) = kapG L gc sg (shiftI J i).

Definition lastvis (G : rstate) : Prop :=
  exists i len rest, rs_vis G = (shiftI J i, len) :: rest /\ in_block i.

Definition BInv (G0 : rstate) (s0 : mstate R) (x : mstate R) : Prop :=
  exists G rv, rreachG G0 G /\ rs_vis G = rv ++ rs_vis G0 /\ visrel J (m_vis x) rv /\
    ((x = s0 /\ G = G0) \/
     (m_tau x < tl /\ Rel true false true J G x tl /\ lastvis G /\ rreachPG G0 G) \/
     (m_tau x < tl /\ Rel true false false J G x tl /\ cond ROps b tl x = true) \/
     (tl <= m_tau x /\ FRel J G x tl /\ lastvis G /\ rreachPG G0 G)).

Lemma in_block_cond st : cond ROps b tl st = true -> in_block (m_idx st).
Proof. intros C a. apply cond_spec in C. destruct C as [_ C]. specialize (C a). rewrite Hbn, ig_cvec in C. exact C. Qed.

Lemma sync_facts post real G st : Rel post false real J G st tl -> cond ROps b tl st = true -> Inv b d tl kapl p0 st ->
  rs_idx G = shiftI J (m_idx st) /\ kapl (m_cell st) = kapG L gc sg (rs_idx G) /\ insideG L (rs_idx G) = true.
Proof.
  intros [R _] C I. pose proof (in_block_cond st C) as IB.
  assert (E : rs_idx G = shiftI J (m_idx st)).
  { apply ivec_ext. intros a. rewrite ig_shiftI. destruct (R a) as [_ [[HI _]|[F _]]]; [exact HI | discriminate]. }
  split. exact E. split.
  - rewrite (inv_active _ _ _ _ _ _ I), Hbn, E. apply HkJ. exact IB.
  - apply insideG_spec. intros a Ha. rewrite E, ig_shiftI. specialize (IB a). specialize (HJok a Ha).
    destruct (wfL_ax L HL a) as [Hm Hc]. unfold NN. nia.
Qed.

Lemma block_reach G0 s0 post0 lagok0 real0 :
  (lagok0 = true -> post0 = true) ->
  Inv b d tl kapl p0 s0 -> m_vis s0 = [] ->
  Rel post0 lagok0 real0 J G0 s0 tl ->
  forall x, reach b d tl od s0 x -> BInv G0 s0 x.
Proof.
  intros Hfl I0 V0 R0 x Hx. induction Hx as [|x Hx IH C].
  - exists G0, []. split. apply rreach_refl. split. reflexivity. split. rewrite V0. constructor. left. split; reflexivity.
  - pose proof (reach_inv b d tl od kapl p0 Hcs_pos Hod Hkapl Hbig s0 x I0 Hx) as Ix.
    destruct IH as [G [rv [RG [VG [VR Cases]]]]].
    pose proof C as C'. apply cond_spec in C'. destruct C' as [Ct _].
    (* a real step from a state in which no axis lags *)
    assert (Real : forall post real, Rel post false real J G x tl -> BInv G0 s0 (stepL x)).
    { intros post real Rx. destruct (sync_facts post real G x Rx C Ix) as [EI [Hk Hin]].
      destruct (sim_real J G x post real Ix C Rx Hk Hin) as [CG [Out [len [V1 V2]]]]. cbv zeta in Out, V1, V2.
      exists (rstepG G), ((shiftI J (m_idx x), len) :: rv).
      split. apply rreach_step; assumption.
      split. rewrite V2, VG, EI. reflexivity.
      split. rewrite V1, (inv_active _ _ _ _ _ _ Ix), Hbn. apply vr_real. apply in_block_cond; exact C. exact VR.
      assert (LV : lastvis (rstepG G)).
      { exists (m_idx x), len, (rs_vis G). split. rewrite V2, EI. reflexivity. apply in_block_cond; exact C. }
      assert (RP : rreachPG G0 (rstepG G)) by (exists G; split; [exact RG | split; [exact CG | reflexivity]]).
      destruct Out as [[T R']|[T R']].
      - right; left. split. exact T. split. exact R'. split. exact LV. exact RP.
      - right; right; right. split. exact T. split. exact R'. split. exact LV. exact RP. }
    destruct Cases as [[Ex EG]|[[T [Rx _]]|[[T [Rx _]]|[T _]]]].
    + subst x G. destruct (rel_lag_dec _ _ _ _ _ _ _ R0) as [Rn|[Lk Lg]].
      * apply (Real post0 real0 Rn).
      * specialize (Hfl Lk). subst post0 lagok0.
        destruct (sim_stutter J G0 s0 real0 Ix C R0 Lg) as [R' [C' V']]. cbv zeta in R', C', V'.
        exists G0, rv. split. exact RG. split. exact VG. split.
        -- rewrite V', (inv_active _ _ _ _ _ _ Ix), Hbn. apply vr_stut. apply in_block_cond; exact C. exact VR.
        -- right; right; left. split. apply cond_spec in C'. apply C'. split. exact R'. exact C'.
    + apply (Real true true Rx).
    + apply (Real true false Rx).
    + lra.
Qed.

(* the state in which the loop ends, when the start state satisfies the loop condition *)
Lemma block_final G0 s0 post0 lagok0 real0 x :
  (lagok0 = true -> post0 = true) ->
  Inv b d tl kapl p0 s0 -> m_vis s0 = [] ->
  Rel post0 lagok0 real0 J G0 s0 tl ->
  cond ROps b tl s0 = true ->
  reach b d tl od s0 x -> cond ROps b tl x = false ->
  exists G rv, rreachPG G0 G /\ rs_vis G = rv ++ rs_vis G0 /\ visrel J (m_vis x) rv /\ lastvis G /\
    ((m_tau x < tl /\ Rel true false true J G x tl) \/ (tl <= m_tau x /\ FRel J G x tl)).
Proof.
  intros Hfl I0 V0 R0 C0 Hx Cx.
  destruct (block_reach G0 s0 post0 lagok0 real0 Hfl I0 V0 R0 x Hx) as [G [rv [RG [VG [VR Cases]]]]].
  exists G, rv.
  destruct Cases as [[Ex _]|[[T [Rx [LV RP]]]|[[_ [_ C]]|[T [Rx [LV RP]]]]]].
  - subst x. congruence.
  - split. exact RP. split. exact VG. split. exact VR. split. exact LV. left. split; assumption.
  - congruence.
  - split. exact RP. split. exact VG. split. exact VR. split. exact LV. right. split; assumption.
Qed.

End Block.
(* ---------------------------------------------------------------------------
   E. the lattice of subgrids: unfolded coordinates J, wrapped coordinates jw J, index subJ J *)
Definition jw (J : C3) : C3 := ((tg AX J mod nx L)%Z, (tg AY J mod ny L)%Z, (tg AZ J mod nz L)%Z).
Definition Jok (J : C3) : Prop := forall a, Lp L a = false -> (0 <= tg a J < Lm L a)%Z.
Definition subJ (J : C3) : Z := lin L (jw J).
Definition addJ (J o : C3) : C3 := ((tg AX J + tg AX o)%Z, (tg AY J + tg AY o)%Z, (tg AZ J + tg AZ o)%Z).

Lemma tg_jw a J : tg a (jw J) = (tg a J mod Lm L a)%Z.
Proof. destruct a; reflexivity. Qed.
Lemma tg_addJ a J o : tg a (addJ J o) = (tg a J + tg a o)%Z.
Proof. destruct a; reflexivity. Qed.

Lemma coords_jw J : coords_ok L (jw J).
Proof. apply coords_ok_ax. intros a. rewrite tg_jw. destruct (wfL_ax L HL a). apply Z.mod_pos_bound. lia. Qed.

Lemma pos_subJ J : pos_of_index L (subJ J) = jw J.
Proof. apply pos_lin. exact HL. apply coords_jw. Qed.

Lemma subJ_range J : (0 <= subJ J < nsub L)%Z.
Proof. apply lin_range. exact HL. apply coords_jw. Qed.

Lemma sub_block_eq J : sub_block ROps L A S (subJ J) = make_block ROps (anchor_at L A S (jw J)) (ssv L S) (cvec L).
Proof. unfold sub_block. rewrite pos_subJ. apply block_at_eq. Qed.

Lemma gcell_wrap J i : in_block i -> gcell_of L (subJ J) (one_index (cvec L) i) = wrapI L (shiftI J i).
Proof.
  intros IB. apply ivec_ext. intros a. rewrite ig_gcell_of, ig_wrapI, ig_shiftI, pos_subJ, tg_jw.
  rewrite unindex_one_index.
  - destruct (wfL_ax L HL a) as [Hm Hc]. unfold NN. destruct (mod_block (Lm L a) (Lc L a) (tg a J) (ig a i) Hm Hc (IB a)) as [E _].
    rewrite E. ring.
  - intros a'. rewrite ig_cvec. apply (wfL_ax L HL a').
  - intros a'. rewrite ig_cvec. apply IB.
Qed.

Lemma kapJ J ph i : p_sigma ph = sg -> in_block i ->
  kappa (lcells L gc (subJ J)) ph (one_index (cvec L) i) = kapG L gc sg (shiftI J i).
Proof. intros Es IB. rewrite kappa_lcells, Es. unfold kapG. rewrite gcell_wrap by exact IB. reflexivity. Qed.

Lemma wrapm_jw a J o : Jok J -> ends1 (Lp L a) (Lm L a) (tg a (jw J) + o) = false ->
  wrapm (Lp L a) (Lm L a) (tg a (jw J) + o) = tg a (jw (addJ J (match a with AX => (o, 0, 0) | AY => (0, o, 0) | AZ => (0, 0, o) end)%Z)) /\
  (Lp L a = false -> (0 <= tg a J + o < Lm L a)%Z).
Proof.
  intros HJ He. destruct (wfL_ax L HL a) as [Hm _]. rewrite tg_jw in He. rewrite !tg_jw, tg_addJ.
  assert (E : tg a (match a with AX => (o, 0, 0) | AY => (0, o, 0) | AZ => (0, 0, o) end)%Z = o) by (destruct a; reflexivity).
  rewrite E. unfold wrapm, ends1 in *. destruct (Lp L a) eqn:P.
  - split. apply Zplus_mod_idemp_l. intros X; discriminate X.
  - cbn [negb andb] in He. apply negb_false_iff in He. apply in_rng_iff in He.
    specialize (HJ a P). rewrite (Z.mod_small (tg a J)) in * by lia. split. symmetry. apply Z.mod_small. lia. intros _. lia.
Qed.

(* the neighbour table of layer 3, in unfolded coordinates: OUTSIDE exactly when the box ends on a non-periodic axis,
   otherwise the subgrid at J + offset *)
Lemma ngb_unfolded J o : Jok J -> (0 <= o < 27)%Z ->
  let off := offset_of_dir o in
  (subgrid_ngb L (subJ J) o = OUTSIDE /\
   exists a, Lp L a = false /\ ~ (0 <= tg a J + tg a off < Lm L a)%Z) \/
  (subgrid_ngb L (subJ J) o <> OUTSIDE /\ subgrid_ngb L (subJ J) o = subJ (addJ J off) /\ Jok (addJ J off)).
Proof.
  intros HJ Ho off.
  destruct (wiring_lattice_thm L (subJ J) o HL (subJ_range J) Ho) as [_ [_ [E _]]]. cbv zeta in E. rewrite pos_subJ in E. fold off in E.
  assert (Tri : forall a, is_trit (tg a off)).
  { pose proof (offset_of_dir_is_offset o) as T. fold off in T. destruct off as [[x y] z]. destruct T as [T1 [T2 T3]].
    intros a; destruct a; assumption. }
  destruct (ngb_spec_cases L (jw J) off HL) as [[BE EO]|[BE X]].
  - left. split. rewrite E. exact EO.
    remember (jw J) as j eqn:Ej. destruct j as [[j1 j2] j3]. destruct off as [[o1 o2] o3]. unfold box_ends in BE.
    assert (Hj : forall a, tg a (j1, j2, j3) = (tg a J mod Lm L a)%Z) by (intros a; rewrite Ej; apply tg_jw).
    apply orb_true_iff in BE. destruct BE as [BE|BE]; [apply orb_true_iff in BE; destruct BE as [BE|BE]|].
    + exists AX. unfold ends1 in BE. apply andb_true_iff in BE. destruct BE as [P R]. apply negb_true_iff in P, R.
      split. exact P. cbn [tg]. intros X. pose proof (Hj AX) as H1. cbn [tg Lm] in H1. pose proof (HJ AX P) as H2. cbn [tg Lm] in H2.
      rewrite Z.mod_small in H1 by lia. subst j1. assert (in_rng (nx L) (tg AX J + o1) = true) by (apply in_rng_iff; exact X). congruence.
    + exists AY. unfold ends1 in BE. apply andb_true_iff in BE. destruct BE as [P R]. apply negb_true_iff in P, R.
      split. exact P. cbn [tg]. intros X. pose proof (Hj AY) as H1. cbn [tg Lm] in H1. pose proof (HJ AY P) as H2. cbn [tg Lm] in H2.
      rewrite Z.mod_small in H1 by lia. subst j2. assert (in_rng (ny L) (tg AY J + o2) = true) by (apply in_rng_iff; exact X). congruence.
    + exists AZ. unfold ends1 in BE. apply andb_true_iff in BE. destruct BE as [P R]. apply negb_true_iff in P, R.
      split. exact P. cbn [tg]. intros X. pose proof (Hj AZ) as H1. cbn [tg Lm] in H1. pose proof (HJ AZ P) as H2. cbn [tg Lm] in H2.
      rewrite Z.mod_small in H1 by lia. subst j3. assert (in_rng (nz L) (tg AZ J + o3) = true) by (apply in_rng_iff; exact X). congruence.
  - right.
    assert (Ends : forall a, ends1 (Lp L a) (Lm L a) (tg a (jw J) + tg a off) = false).
    { remember (jw J) as j eqn:Ej. destruct j as [[j1 j2] j3]. destruct off as [[o1 o2] o3]. unfold box_ends in BE.
      apply orb_false_iff in BE. destruct BE as [BE B3]. apply orb_false_iff in BE. destruct BE as [B1 B2].
      intros a; destruct a; cbn [tg Lp Lm]; assumption. }
    assert (W : forall a, wrapm (Lp L a) (Lm L a) (tg a (jw J) + tg a off) = tg a (jw (addJ J off)) /\
                          (Lp L a = false -> (0 <= tg a J + tg a off < Lm L a)%Z)).
    { intros a. destruct (wrapm_jw a J (tg a off) HJ (Ends a)) as [W1 W2]. split; [|exact W2].
      rewrite W1, !tg_jw, !tg_addJ. destruct a; reflexivity. }
    assert (EQ : subgrid_ngb L (subJ J) o = subJ (addJ J off)).
    { rewrite E. remember (jw J) as j eqn:Ej. destruct j as [[j1 j2] j3]. remember off as off' eqn:Eo. destruct off' as [[o1 o2] o3].
      destruct X as [_ [X _]]. rewrite X. unfold subJ. f_equal.
      pose proof (W AX) as [W1 _]. pose proof (W AY) as [W2 _]. pose proof (W AZ) as [W3 _]. cbn [tg Lp Lm] in W1, W2, W3.
      rewrite W1, W2, W3. apply C3_ext. intros a; destruct a; reflexivity. }
    split; [|split; [exact EQ|]].
    + rewrite EQ. pose proof (subJ_range (addJ J off)). unfold wfL in HL. unfold OUTSIDE. intros Q. rewrite Q in H. unfold OUTSIDE in HL. lia.
    + intros a Pa. rewrite tg_addJ. apply (W a). exact Pa.
Qed.


(* ---------------------------------------------------------------------------
   F. the hand-over *)
Lemma zlookup_In {X : Type} k (l : list (Z * X)) v : zlookup k l = Some v -> In (k, v) l.
Proof.
  induction l as [|[k' v'] l IH]; cbn [zlookup]; intros H. discriminate.
  destruct (k =? k')%Z eqn:E. apply Z.eqb_eq in E. inversion H; subst. left; reflexivity. right; apply IH; exact H.
Qed.

Lemma decode_range o x : decode o = Some x -> (0 <= o < 27)%Z.
Proof.
  intros H. apply zlookup_In in H. unfold decode_table in H. cbn [In] in H.
  repeat (destruct H as [H|H]; [inversion H; subst; vm_compute; split; congruence|]). contradiction.
Qed.

(* premises under which a subgrid is entered; they are re-established by every hand-over *)
Record entryOK (J : C3) (input : Z) (ph : photon R) : Prop := mkEO {
  eo_J : Jok J;
  eo_dir : p_dir ph = d;
  eo_sg : p_sigma ph = sg;
  eo_good : good (anchor_at L A S (jw J)) (ssv L S) (cvec L) (lcells L gc (subJ J)) ph input;
  eo_strict : forall a, kg a (kinds_of input) = KCompute ->
                        vg a (p_pos ph) - vg a (anchor_at L A S (jw J)) < vg a (ssv L S)
}.

(* one axis of the hand-over: (p,i) local position and index at the end of the march in the subgrid that is left,
   (p',i') after update_photon_position / get_start_index in the subgrid that is entered, off the exit offset.
   The physical point is the same (p = p' + off * side of a subgrid); the start cell contains it; the start cell is
   the cell the march was heading for (i = i' + off * c: adjacent across the face when off <> 0, the same cell when the
   axis is not crossed) and the ray continues inside it -- or the axis is not crossed, the packet moves in the negative
   direction and sits exactly on a cell wall, in which case truncation selects the cell above the wall (i' = i + 1) and
   the first iteration in the new subgrid has length zero. *)
Definition ho_axis (a : axis) (off : Z) (p : R) (i : Z) (p' : R) (i' : Z) : Prop :=
  (0 <= i' < Lc L a)%Z /\ IZR i' * cs a <= p' <= (IZR i' + 1) * cs a /\
  p = p' + IZR (off * Lc L a) * cs a /\
  ((i = (i' + off * Lc L a)%Z /\ (0 <= vg a d -> p' < (IZR i' + 1) * cs a) /\ (vg a d < 0 -> IZR i' * cs a < p'))
   \/ (off = 0%Z /\ vg a d < 0 /\ p' = IZR i' * cs a /\ i' = (i + 1)%Z)).

Lemma vg_after_pos (ph : photon R) (r : result R) a : vg a (p_pos (after ph r)) = vg a (r_pos r).
Proof. reflexivity. Qed.

Lemma handover_rel J input ph G r :
  entryOK J input ph ->
  interact ROps (make_block ROps (anchor_at L A S (jw J)) (ssv L S) (cvec L)) (lcells L gc (subJ J)) ph input = Ok r ->
  r_out r <> INSIDE ->
  Rel true false true J G (r_fin r) (p_tau ph) ->
  subgrid_ngb L (subJ J) (r_out r) <> OUTSIDE ->
  let o := r_out r in let off := offset_of_dir o in let J' := addJ J off in
  let input' := tnth gen_out_to_in o in let ph' := after ph r in
  let st0' := start_state (anchor_at L A S (jw J')) (ssv L S) (cvec L) ph' input' in
  (0 <= o < 27)%Z /\ subgrid_ngb L (subJ J) o = subJ J' /\ entryOK J' input' ph' /\
  Rel true true false J' G st0' (r_tau r) /\
  forall a, tg a off = exit_sign (Lc L a) (ig a (m_idx (r_fin r))) /\
            ho_axis a (tg a off) (vg a (m_pos (r_fin r))) (ig a (m_idx (r_fin r))) (vg a (m_pos st0')) (ig a (m_idx st0')).
Proof.
  intros EO Hr Hleft [R RT] Hngb o off J' input' ph' st0'.
  destruct EO as [HJ Ed Es G0 Hstrict].
  set (anc := anchor_at L A S (jw J)) in *. set (st := r_fin r) in *.
  destruct (res_facts anc (ssv L S) (cvec L) (lcells L gc (subJ J)) ph input G0 r Hr) as [F2 [F3 [_ [_ [_ [I X]]]]]].
  fold st in F2, F3, I, X. rewrite Ed in I.
  pose proof (left_tau anc (ssv L S) (cvec L) (lcells L gc (subJ J)) ph input G0 r Hr Hleft) as LT. fold st in LT.
  destruct X as [[X1 _]|[_ [_ D]]]; [lra|]. change (r_out r) with o in D.
  assert (Ho : (0 <= o < 27)%Z) by (apply (decode_range _ _ D)).
  rewrite (decode_offset o Ho) in D. inversion D as [Doff]. fold off in Doff.
  assert (Offa : forall a, tg a off = exit_sign (Lc L a) (ig a (m_idx st))).
  { intros a. rewrite Doff. destruct a; reflexivity. }
  destruct (ngb_unfolded J o HJ Ho) as [[EO _]|[_ [EN HJ']]]; [contradiction|]. fold off J' in EN, HJ'.
  destruct (out_to_in_thm o Ho) as [Hi' [Oi' _]]. fold input' off in Hi', Oi'.
  pose proof (exit_axis anc (ssv L S) (cvec L) (lcells L gc (subJ J)) ph input G0 Hstrict r Hr Hleft) as EA. fold st in EA. rewrite Ed in EA.
  (* per axis analysis *)
  assert (AX : forall a,
    axrel true true false (cs a) (Lc L a) (vg a d) (tg a J') (vg a (rs_pos G)) (ig a (rs_idx G)) (vg a (m_pos st0')) (ig a (m_idx st0')) /\
    ho_axis a (tg a off) (vg a (m_pos st)) (ig a (m_idx st)) (vg a (m_pos st0')) (ig a (m_idx st0')) /\
    (kg a (kinds_of input') = KCompute ->
       0 <= vg a (p_pos ph') - vg a (anchor_at L A S (jw J')) < vg a (ssv L S))).
  { intros a. pose proof (csg_pos L HL S HS a) as Hcsp. destruct (wfL_ax L HL a) as [Hm Hc].
    assert (Hcr : 1 <= IZR (Lc L a)) by (apply (IZR_le 1); exact Hc).
    pose proof (ssv_cs L HL S a) as Ess.
    destruct (start_state_ax (anchor_at L A S (jw J')) (ssv L S) (cvec L) ph' input' a) as [Sp Si]. fold st0' in Sp, Si.
    cbv zeta in Sp, Si. rewrite ig_cvec in Sp, Si.
    pose proof (kind_of_offset input' a Hi') as Kd. rewrite Oi' in Kd.
    assert (Kd' : side (kg a (kinds_of input')) = (- tg a off)%Z) by (rewrite Kd; destruct off as [[x y] z]; destruct a; reflexivity).
    clear Kd. set (k' := kg a (kinds_of input')) in *.
    destruct (R a) as [HP [[HI [Hcell [Hp [Hn [_ Hr']]]]]|[F _]]]; [|discriminate]. specialize (Hn eq_refl). specialize (Hr' eq_refl).
    assert (EJ' : tg a J' = (tg a J + tg a off)%Z) by (unfold J'; apply tg_addJ). rewrite EJ'. clear EJ'. rewrite (Offa a) in *.
    pose proof (inv_range _ _ _ _ _ _ I a) as Rg. cbn [b_n make_block] in Rg. rewrite ig_cvec in Rg.
    pose proof (EA a) as EAa. rewrite !ig_cvec in EAa.
    destruct (exit_sign_cases (Lc L a) (ig a (m_idx st)) Hc Rg) as [[Es1 Ei]|[[Es1 Ei]|[Es1 Ei]]]; rewrite Es1 in *.
    - (* left through the upper side: enters on the lower plane, first cell *)
      destruct (side_cases k') as [_ [K _]]. specialize (K Kd'). rewrite K in Sp, Si. cbn [repos1 start1] in Sp, Si. rsimp.
      destruct EAa as [[_ [Dp Ep]]|[[Q _]|[Q _]]]; [|lia|lia]. rewrite Ess in Ep.
      rewrite Sp, Si. split; [|split].
      + split. rewrite HP, Ep, !mult_IZR, plus_IZR. ring. left. split. lia.
        split. lra. split. intros; lra. split. intros; lra. split; intros X; discriminate X.
      + split. lia. split. lra. split. rewrite Ep, mult_IZR. ring. left. split. lia. split; intros; lra.
      + intros X. rewrite K in X. discriminate X.
    - (* left through the lower side: enters on the upper plane, last cell *)
      destruct (side_cases k') as [_ [_ K]]. specialize (K Kd'). rewrite K in Sp, Si. cbn [repos1 start1] in Sp, Si. rsimp.
      destruct EAa as [[Q _]|[[_ [Dn Ep]]|[Q _]]]; [lia| |lia].
      assert (Sp' : vg a (m_pos st0') = IZR (Lc L a) * cs a).
      { rewrite Sp, vg_ssv, <- (vg_ssv L S a), Ess. field. lra. }
      assert (Eiz : IZR (Lc L a - 1) = IZR (Lc L a) - 1) by apply minus_IZR.
      rewrite Sp', Si. unfold axrel, ho_axis. rewrite !Eiz. split; [|split].
      + split. rewrite HP, Ep, !mult_IZR, plus_IZR. replace (IZR (-1)) with (-1) by reflexivity. ring. left. split. lia.
        split. lra. split. intros; lra. split. intros; lra. split; intros X; discriminate X.
      + split. lia. split. lra. split. rewrite Ep, mult_IZR. replace (IZR (-1)) with (-1) by reflexivity. ring.
        left. split. lia. split; intros; lra.
      + intros X. rewrite K in X. discriminate X.
    - (* not crossed: same anchor, the index is recomputed by truncation *)
      destruct (side_cases k') as [K _]. specialize (K Kd'). rewrite K in Sp, Si. cbn [repos1 start1] in Sp, Si. rsimp.
      destruct EAa as [[Q _]|[[Q _]|[_ [Ep [En Eb]]]]]; [lia|lia|]. rewrite Ess in Ep, Eb.
      assert (Ean : vg a (anchor_at L A S (jw J')) = vg a anc).
      { unfold anc. rewrite !vg_anchor_at, !tg_jw. unfold J'. rewrite tg_addJ, (Offa a), Es1, Z.add_0_r. reflexivity. }
      assert (Ep0 : vg a (p_pos ph') - vg a (anchor_at L A S (jw J')) = vg a (m_pos st)).
      { rewrite Ean. unfold ph'. rewrite vg_after_pos, F2, vg_vadd. ring. }
      rewrite Ep0 in Sp, Si. set (p := vg a (m_pos st)) in *. set (i := ig a (m_idx st)) in *.
      assert (Strict : p < IZR (Lc L a) * cs a).
      { assert (IZR i + 1 <= IZR (Lc L a)) by (rewrite <- (plus_IZR _ 1); apply IZR_le; lia).
        destruct (Rlt_dec (vg a d) 0) as [Dn|Dp]. apply Hr'; exact Dn. assert (p < (IZR i + 1) * cs a) by (apply Hp; lra). nra. }
      assert (Efl : RtruncZ (p * (IZR (Lc L a) / vg a (ssv L S))) = Int_part (p / cs a)).
      { replace (p * (IZR (Lc L a) / vg a (ssv L S))) with (p / cs a) by (rewrite Ess; field; lra).
        apply RtruncZ_nonneg. apply Rmult_le_pos. lra. left. apply Rinv_0_lt_compat. exact Hcsp. }
      rewrite Efl in Si. rewrite Sp.
      split; [|split; [|intros _; rewrite Ep0, Ess; lra]].
      + (* relation *)
        split. rewrite HP. rewrite Z.add_0_r. reflexivity.
        destruct (Rlt_dec p ((IZR i + 1) * cs a)) as [Lt|Ge].
        * assert (Ei' : ig a (m_idx st0') = i) by (rewrite Si; apply floor_cell; [exact Hcsp | lra]).
          rewrite Ei'. left. split. lia. split. lra. split. intros; lra. split. intros _ Dn. apply Hn; exact Dn.
          split; intros X; discriminate X.
        * assert (Eq : p = (IZR i + 1) * cs a) by lra.
          assert (Dn : vg a d < 0). { destruct (Rlt_dec (vg a d) 0) as [Dn|Dp]. exact Dn. exfalso. apply Ge. apply Hp. lra. }
          assert (Ei' : ig a (m_idx st0') = (i + 1)%Z).
          { rewrite Si. apply floor_cell. exact Hcsp. rewrite plus_IZR. lra. }
          rewrite Ei'. right. split. reflexivity. split. exact Dn. split. rewrite plus_IZR. exact Eq. split. lia.
          assert (IZR (i + 1) < IZR (Lc L a)) by (rewrite plus_IZR; nra). apply lt_IZR in H. lia.
      + (* physical statement *)
        destruct (Rlt_dec p ((IZR i + 1) * cs a)) as [Lt|Ge].
        * assert (Ei' : ig a (m_idx st0') = i) by (rewrite Si; apply floor_cell; [exact Hcsp | lra]).
          rewrite Ei'. split. lia. split. lra. split. rewrite Z.mul_0_l. lra.
          left. split. lia. split. intros; lra. intros Dn. apply Hn; exact Dn.
        * assert (Eq : p = (IZR i + 1) * cs a) by lra.
          assert (Dn : vg a d < 0). { destruct (Rlt_dec (vg a d) 0) as [Dn|Dp]. exact Dn. exfalso. apply Ge. apply Hp. lra. }
          assert (Ei' : ig a (m_idx st0') = (i + 1)%Z).
          { rewrite Si. apply floor_cell. exact Hcsp. rewrite plus_IZR. lra. }
          assert (IZR (i + 1) < IZR (Lc L a)) by (rewrite plus_IZR; nra). apply lt_IZR in H.
          rewrite Ei'. unfold ho_axis. rewrite !plus_IZR. split. lia. split. lra. split. rewrite Z.mul_0_l. lra.
          right. split. reflexivity. split. exact Dn. split. lra. reflexivity. }
  split. exact Ho. split. exact EN. split; [|split].
  - (* the premises hold again *)
    constructor.
    + exact HJ'.
    + unfold ph'. cbn [after p_dir]. exact Ed.
    + unfold ph'. cbn [after p_sigma]. exact Es.
    + constructor.
      * intros a. rewrite ig_cvec. apply (wfL_ax L HL a).
      * intros a. apply (ssv_pos L HL S HS).
      * exact Hi'.
      * intros a K. destruct (AX a) as [_ [_ B]]. specialize (B K). lra.
      * intros c. apply Hgc.
      * unfold ph'. cbn [after p_sigma]. apply (g_sigma _ _ _ _ _ _ G0).
      * unfold ph'. cbn [after p_tau]. rewrite F3. lra.
      * unfold ph'. cbn [after p_dir]. apply (g_big _ _ _ _ _ _ G0).
    + intros a K. destruct (AX a) as [_ [_ B]]. specialize (B K). lra.
  - split. intros a. apply AX. rewrite F3. change (m_tau st0') with 0. lra.
  - intros a. split. apply Offa. apply AX.
Qed.

(* ---------------------------------------------------------------------------
   G. the whole trace *)
Lemma visrel_cred J lv rv C : visrel J lv rv -> lcred L (subJ J) lv C = rcred L rv C.
Proof.
  induction 1 as [|i len lv rv IB _ IH|i lv rv IB _ IH].
  - reflexivity.
  - rewrite lcred_cons, rcred_cons. cbn [fst snd]. rewrite (gcell_wrap J i IB), IH. reflexivity.
  - rewrite lcred_cons. cbn [fst snd]. rewrite IH. destruct (ivec_eqb _ C); ring.
Qed.

(* position of a subgrid in the box from its unfolded coordinate: J c cs = (J / m) S + (J mod m) side *)
Lemma unfold_pos a J :
  IZR (tg a J * Lc L a) * cs a = IZR (tg a J / Lm L a) * vg a S + IZR (tg a (jw J)) * vg a (ssv L S).
Proof.
  destruct (wfL_ax L HL a) as [Hm Hc]. rewrite tg_jw, (ssv_cs L HL S a), (S_cs L HL S a). unfold NN.
  pose proof (Z.div_mod (tg a J) (Lm L a) ltac:(lia)) as E.
  rewrite E at 1. rewrite !mult_IZR, plus_IZR, mult_IZR. ring.
Qed.

Lemma lastvis_div a J i : in_block i -> (ig a (shiftI J i) / NN L a = tg a J / Lm L a)%Z.
Proof.
  intros IB. rewrite ig_shiftI. destruct (wfL_ax L HL a) as [Hm Hc]. unfold NN.
  apply (mod_block (Lm L a) (Lc L a) (tg a J) (ig a i) Hm Hc (IB a)).
Qed.

(* what two consecutive interact calls of a trace have to do with each other (layer 2, the hand-over lemma) *)
Definition handover_ok (s1 s2 : tstep R) : Prop :=
  let r := ts_res s1 in let o := r_out r in let off := offset_of_dir o in
  let j1 := pos_of_index L (ts_sub s1) in let j2 := pos_of_index L (ts_sub s2) in
  (0 < o < 27)%Z /\ ts_sub s2 = subgrid_ngb L (ts_sub s1) o /\ ts_in s2 = tnth gen_out_to_in o /\
  ts_ppos s2 = r_pos r /\ ts_ptau s2 = r_tau r /\ 0 < r_tau r /\
  exists p' i', ts_start s2 = Some (p', i') /\ forall a,
    tg a off = exit_sign (Lc L a) (ig a (m_idx (r_fin r))) /\
    tg a j2 = ((tg a j1 + tg a off) mod Lm L a)%Z /\ (Lp L a = false -> tg a j2 = (tg a j1 + tg a off)%Z) /\
    vg a p' + vg a (anchor_at L A S j2) = vg a (r_pos r) - IZR ((tg a j1 + tg a off) / Lm L a) * vg a S /\
    ho_axis a (tg a off) (vg a (m_pos (r_fin r))) (ig a (m_idx (r_fin r))) (vg a p') (ig a i').

Fixpoint chain {X : Type} (P : X -> X -> Prop) (l : list X) : Prop :=
  match l with
  | x :: ((y :: _) as t) => P x y /\ chain P t
  | _ => True
  end.

Lemma chain_cons {X : Type} (P : X -> X -> Prop) x y t : chain P (x :: y :: t) = (P x y /\ chain P (y :: t)).
Proof. reflexivity. Qed.

Notation traceL := (trace ROps L A S (fun s => s) (subgrid_ngb L) gen_out_to_in (lcells L gc)).

Lemma trace_S f sub input ph : traceL (Datatypes.S f) sub input ph =
  let b := sub_block ROps L A S sub in
  match interact ROps b (lcells L gc sub) ph input with
  | Ok r =>
    let s := mkTS sub input (p_pos ph) (p_tau ph) (entry ROps b ph input) r in
    if (r_out r =? INSIDE)%Z then mkTR EAbsorbed [s] (r_pos r) (r_tau r)
    else
      let nb := subgrid_ngb L sub (r_out r) in
      if (nb =? OUTSIDE)%Z then mkTR EEscaped [s] (r_pos r) (r_tau r)
      else
        let t := traceL f nb (tnth gen_out_to_in (r_out r)) (after ph r) in
        mkTR (tr_end t) (s :: tr_steps t) (tr_pos t) (tr_tau t)
  | _ => mkTR EErr [] (p_pos ph) (p_tau ph)
  end.
Proof. reflexivity. Qed.

(* the end of a trace that started in reference state G, against the final reference state Gf *)
Definition tr_matches (sub input : Z) (ph : photon R) (st0 : mstate R) (G Gf : rstate) (tr : tresult R) : Prop :=
  rreachG G Gf /\ rcondG Gf = false /\
  ((tr_end tr = EAbsorbed /\ target <= rs_tau Gf) \/ (tr_end tr = EEscaped /\ rs_tau Gf < target)) /\
  tr_tau tr = target - rs_tau Gf /\
  (exists Il len rest, rs_vis Gf = (Il, len) :: rest /\
     forall a, vg a (tr_pos tr) - vg a A = vg a (rs_pos Gf) - IZR (ig a Il / NN L a) * vg a S) /\
  (forall C, rcred L (rs_vis Gf) C = rcred L (rs_vis G) C + tcred L (tr_steps tr) C) /\
  chain handover_ok (tr_steps tr) /\
  (exists s rest, tr_steps tr = s :: rest /\ ts_sub s = sub /\ ts_in s = input /\ ts_ppos s = p_pos ph /\
     ts_ptau s = p_tau ph /\ ts_start s = Some (m_pos st0, m_idx st0)).

Lemma final_position J G (p : vec R) (r : result R) i len rest :
  (forall a, vg a (rs_pos G) = vg a p + IZR (tg a J * Lc L a) * cs a) ->
  r_pos r = vadd ROps p (anchor_at L A S (jw J)) ->
  rs_vis G = (shiftI J i, len) :: rest -> in_block i ->
  exists Il len rest, rs_vis G = (Il, len) :: rest /\
     forall a, vg a (r_pos r) - vg a A = vg a (rs_pos G) - IZR (ig a Il / NN L a) * vg a S.
Proof.
  intros HP Er Ev IB. exists (shiftI J i), len, rest. split. exact Ev.
  intros a. rewrite (lastvis_div a J i IB), Er, vg_vadd, vg_anchor_at, (HP a), (unfold_pos a J). ring.
Qed.

Lemma trace_sim : forall fuel J input ph G post lagok real,
  (lagok = true -> post = true) ->
  entryOK J input ph ->
  Rel post lagok real J G (start_state (anchor_at L A S (jw J)) (ssv L S) (cvec L) ph input) (p_tau ph) ->
  tr_end (traceL fuel (subJ J) input ph) <> EFuel ->
  exists Gf, tr_matches (subJ J) input ph (start_state (anchor_at L A S (jw J)) (ssv L S) (cvec L) ph input) G Gf
                        (traceL fuel (subJ J) input ph).
Proof.
  induction fuel as [|f IH]; intros J input ph G post lagok real Hfl EO R0 NF.
  { exfalso. apply NF. reflexivity. }
  pose proof EO as EO'. destruct EO' as [HJ Ed Es G0 Hstrict].
  set (anc := anchor_at L A S (jw J)) in *. set (st0 := start_state anc (ssv L S) (cvec L) ph input) in *.
  destruct (fuel_suffices_thm anc (ssv L S) (cvec L) (lcells L gc (subJ J)) ph input G0) as [r Hr].
  destruct (res_facts anc (ssv L S) (cvec L) (lcells L gc (subJ J)) ph input G0 r Hr) as [F2 [F3 [F4 [Rch [Cf [I _]]]]]].
  fold st0 in Rch, I. set (st := r_fin r) in *.
  pose proof (start_inv anc (ssv L S) (cvec L) (lcells L gc (subJ J)) ph input G0) as I0. fold st0 in I0.
  pose proof (start_cond anc (ssv L S) (cvec L) (lcells L gc (subJ J)) ph input G0 Hstrict) as C0. fold st0 in C0.
  pose proof (top_Hbig anc (ssv L S) (cvec L) (lcells L gc (subJ J)) ph input G0) as Hbg.
  rewrite Ed in Rch, I, I0, Hbg.
  set (b := make_block ROps anc (ssv L S) (cvec L)) in *.
  assert (Hbcs : forall a, vg a (b_cs b) = cs a).
  { intros a. unfold b, anc. rewrite <- block_at_eq. apply (block_cs L HL A S). }
  destruct (block_final b Hbcs eq_refl (p_tau ph) (optical_depth_of ROps (lcells L gc (subJ J)) ph)
              (kappa (lcells L gc (subJ J)) ph) (m_pos st0) (top_Hod (lcells L gc (subJ J)) ph)
              (top_Hkap anc (ssv L S) (cvec L) (lcells L gc (subJ J)) ph input G0) Hbg J HJ
              (fun i IB => kapJ J ph i Es IB) G st0 post lagok real st Hfl I0 eq_refl R0 C0 Rch Cf)
    as [Gb [rv [RGP [VG [VR [[il [ll [rest [LV IBl]]]] Fin]]]]]].
  pose proof (rreachP_reach _ _ _ _ _ _ _ RGP) as RG.
  assert (Hin : (0 <= input < 27)%Z) by apply (g_input _ _ _ _ _ _ G0).
  assert (Cred : forall C, rcred L (rs_vis Gb) C = rcred L (rs_vis G) C + lcred L (subJ J) (r_vis r) C).
  { intros C. rewrite VG, rcred_app, F4, lcred_rev, (visrel_cred J _ _ C VR). ring. }
  assert (Head : forall rest', exists s rest0, mkTS (subJ J) input (p_pos ph) (p_tau ph) (entry ROps b ph input) r :: rest' = s :: rest0 /\
             ts_sub s = subJ J /\ ts_in s = input /\ ts_ppos s = p_pos ph /\ ts_ptau s = p_tau ph /\
             ts_start s = Some (m_pos st0, m_idx st0)).
  { intros rest'. eexists _, _. split. reflexivity. cbn [ts_sub ts_in ts_ppos ts_ptau ts_start]. repeat split.
    unfold b, st0. apply entry_start_state. exact Hin. }
  rewrite trace_S in NF |- *. cbv zeta in NF |- *. rewrite sub_block_eq in NF |- *. fold anc b in NF |- *. rewrite Hr in NF |- *.
  destruct (r_out r =? INSIDE)%Z eqn:Eo.
  - (* absorbed in this subgrid *)
    apply Z.eqb_eq in Eo. pose proof (proj1 (absorbed_iff anc (ssv L S) (cvec L) (lcells L gc (subJ J)) ph input G0 r Hr) Eo) as Ab.
    fold st in Ab. destruct Fin as [[T _]|[_ [FR FT]]]; [lra|].
    exists Gb. unfold tr_matches. cbn [tr_end tr_steps tr_pos tr_tau].
    split. exact RG. split. unfold rcond. assert (E : Rltb (rs_tau Gb) target = false) by (apply Rltb_false; lra). rewrite E. reflexivity.
    split. left. split. reflexivity. lra.
    split. rewrite F3. fold st. lra.
    split. apply (final_position J Gb (m_pos st) r il ll rest). intros a. apply FR. exact F2. exact LV. exact IBl.
    split. intros C. rewrite tcred_cons. cbn [ts_sub ts_res]. change (tcred L [] C) with 0. rewrite Cred. ring.
    split. exact Logic.I. apply Head.
  - apply Z.eqb_neq in Eo.
    pose proof (left_tau anc (ssv L S) (cvec L) (lcells L gc (subJ J)) ph input G0 r Hr Eo) as LT. fold st in LT.
    destruct Fin as [[_ Rb]|[T _]]; [|lra].
    assert (Sy : forall a, vg a (rs_pos Gb) = vg a (m_pos st) + IZR (tg a J * Lc L a) * cs a /\
                           ig a (rs_idx Gb) = (ig a (m_idx st) + tg a J * Lc L a)%Z).
    { intros a. destruct Rb as [Rb _]. destruct (Rb a) as [HP [[HI _]|[F _]]]; [|discriminate]. split; assumption. }
    destruct (subgrid_ngb L (subJ J) (r_out r) =? OUTSIDE)%Z eqn:En.
    + (* escaped *)
      apply Z.eqb_eq in En.
      destruct (res_facts anc (ssv L S) (cvec L) (lcells L gc (subJ J)) ph input G0 r Hr) as [_ [_ [_ [_ [_ [_ X]]]]]].
      fold st in X. destruct X as [[X1 _]|[_ [_ D]]]; [lra|].
      assert (Ho : (0 <= r_out r < 27)%Z) by (apply (decode_range _ _ D)).
      rewrite (decode_offset _ Ho) in D. inversion D as [Doff].
      destruct (ngb_unfolded J (r_out r) HJ Ho) as [[_ [a [Pa Out]]]|[NE _]]; [|contradiction].
      assert (Ins : insideG L (rs_idx Gb) = false).
      { destruct (insideG L (rs_idx Gb)) eqn:E; [|reflexivity]. exfalso. apply Out.
        pose proof (proj1 (insideG_spec L (rs_idx Gb)) E a Pa) as B. destruct (Sy a) as [_ HI]. rewrite HI in B.
        assert (Ea : tg a (offset_of_dir (r_out r)) = exit_sign (Lc L a) (ig a (m_idx st))) by (rewrite Doff; destruct a; reflexivity).
        pose proof (inv_range _ _ _ _ _ _ I a) as Rg. cbn [b_n b make_block] in Rg. rewrite ig_cvec in Rg.
        destruct (wfL_ax L HL a) as [Hm Hc]. specialize (HJ a Pa). unfold NN in B. rewrite Ea.
        destruct (exit_sign_cases (Lc L a) (ig a (m_idx st)) Hc Rg) as [[Es1 Ei]|[[Es1 Ei]|[Es1 Ei]]]; rewrite Es1; nia. }
      exists Gb. unfold tr_matches. cbn [tr_end tr_steps tr_pos tr_tau].
      split. exact RG. split. unfold rcond. rewrite Ins. apply andb_false_r.
      destruct Rb as [_ RT].
      split. right. split. reflexivity. lra.
      split. rewrite F3. fold st. lra.
      split. apply (final_position J Gb (m_pos st) r il ll rest). intros a'. apply Sy. exact F2. exact LV. exact IBl.
      split. intros C. rewrite tcred_cons. cbn [ts_sub ts_res]. change (tcred L [] C) with 0. rewrite Cred. ring.
      split. exact Logic.I. apply Head.
    + (* handed over to the neighbour *)
      apply Z.eqb_neq in En.
      destruct (handover_rel J input ph Gb r EO Hr Eo Rb En) as [Ho [EN [EO2 [R2 HO]]]]. cbv zeta in Ho, EN, EO2, R2, HO.
      set (o := r_out r) in *. set (off := offset_of_dir o) in *. set (J2 := addJ J off) in *.
      set (input2 := tnth gen_out_to_in o) in *. set (ph2 := after ph r) in *.
      rewrite EN in NF |- *. cbn [tr_end] in NF.
      destruct (IH J2 input2 ph2 Gb true true false (fun _ => eq_refl) EO2 R2 NF) as [Gf M].
      set (t := traceL f (subJ J2) input2 ph2) in *.
      destruct M as [M1 [M2 [M3 [M4 [M5 [M6 [M7 [s2 [rest2 [E2 [Q1 [Q2 [Q3 [Q4 Q5]]]]]]]]]]]]]].
      exists Gf. unfold tr_matches. cbn [tr_end tr_steps tr_pos tr_tau].
      split. apply (rreach_trans _ _ _ _ _ G Gb Gf RG M1). split. exact M2. split. exact M3. split. exact M4. split. exact M5.
      split. intros C. rewrite tcred_cons. cbn [ts_sub ts_res]. rewrite M6, Cred. ring.
      split; [|apply Head].
      (* the hand-over statement for this call and the next *)
      rewrite E2, chain_cons. split; [|rewrite <- E2; exact M7].
      unfold handover_ok. cbn [ts_res ts_sub]. fold o off. rewrite Q1, Q2, Q3, Q4, Q5, pos_subJ, pos_subJ.
      assert (T2 : 0 < r_tau r) by (rewrite F3; fold st; lra).
      split. unfold o, INSIDE in *. lia. split. symmetry; exact EN. split. reflexivity. split. reflexivity. split. reflexivity. split. exact T2.
      eexists _, _. split. reflexivity. intros a. destruct (HO a) as [Ea Ha].
      destruct (wfL_ax L HL a) as [Hm Hc].
      split. exact Ea. split. unfold J2. rewrite !tg_jw, tg_addJ. symmetry. apply Zplus_mod_idemp_l.
      split. intros Pa. unfold J2. rewrite !tg_jw, tg_addJ. pose proof (HJ a Pa) as B1. pose proof (eo_J _ _ _ EO2 a Pa) as B2.
      unfold J2 in B2. rewrite tg_addJ in B2. rewrite (Z.mod_small (tg a J)) by lia. apply Z.mod_small. lia.
      split; [|exact Ha].
      (* same physical point *)
      destruct Ha as [_ [_ [Ep _]]]. change (r_fin r) with st in Ep. rewrite F2, vg_vadd. rewrite Ep. unfold anc. rewrite !vg_anchor_at.
      unfold J2. rewrite !tg_jw, tg_addJ.
      pose proof (Z.div_mod (tg a J mod Lm L a + tg a off) (Lm L a) ltac:(lia)) as E.
      rewrite (Zplus_mod_idemp_l (tg a J) (tg a off) (Lm L a)) in E.
      set (w := ((tg a J mod Lm L a + tg a off) / Lm L a)%Z) in *. set (j2 := ((tg a J + tg a off) mod Lm L a)%Z) in *.
      assert (ER : IZR (tg a J mod Lm L a) + IZR (tg a off) = IZR (Lm L a) * IZR w + IZR j2).
      { rewrite <- plus_IZR, E, plus_IZR, mult_IZR. reflexivity. }
      rewrite mult_IZR, (ssv_cs L HL S a), (S_cs L HL S a). unfold NN. rewrite mult_IZR.
      assert (X : IZR (tg a off) = IZR (Lm L a) * IZR w + IZR j2 - IZR (tg a J mod Lm L a)) by lra. rewrite X. ring.
Qed.


(* termination: every interact call consumes at least one reference step, so a trace needs at most as many calls as
   the reference march needs steps, plus one *)
Lemma block_run J input ph G post lagok real :
  (lagok = true -> post = true) -> entryOK J input ph ->
  Rel post lagok real J G (start_state (anchor_at L A S (jw J)) (ssv L S) (cvec L) ph input) (p_tau ph) ->
  exists r Gb,
    interact ROps (make_block ROps (anchor_at L A S (jw J)) (ssv L S) (cvec L)) (lcells L gc (subJ J)) ph input = Ok r /\
    rreachPG G Gb /\
    (r_out r = INSIDE \/ (r_out r <> INSIDE /\ Rel true false true J Gb (r_fin r) (p_tau ph))).
Proof.
  intros Hfl EO R0. pose proof EO as EO'. destruct EO' as [HJ Ed Es G0 Hstrict].
  set (anc := anchor_at L A S (jw J)) in *. set (st0 := start_state anc (ssv L S) (cvec L) ph input) in *.
  destruct (fuel_suffices_thm anc (ssv L S) (cvec L) (lcells L gc (subJ J)) ph input G0) as [r Hr].
  destruct (res_facts anc (ssv L S) (cvec L) (lcells L gc (subJ J)) ph input G0 r Hr) as [F2 [F3 [F4 [Rch [Cf [I _]]]]]].
  fold st0 in Rch, I. set (st := r_fin r) in *.
  pose proof (start_inv anc (ssv L S) (cvec L) (lcells L gc (subJ J)) ph input G0) as I0. fold st0 in I0.
  pose proof (start_cond anc (ssv L S) (cvec L) (lcells L gc (subJ J)) ph input G0 Hstrict) as C0. fold st0 in C0.
  pose proof (top_Hbig anc (ssv L S) (cvec L) (lcells L gc (subJ J)) ph input G0) as Hbg.
  rewrite Ed in Rch, I, I0, Hbg.
  set (b := make_block ROps anc (ssv L S) (cvec L)) in *.
  assert (Hbcs : forall a, vg a (b_cs b) = cs a).
  { intros a. unfold b, anc. rewrite <- block_at_eq. apply (block_cs L HL A S). }
  destruct (block_final b Hbcs eq_refl (p_tau ph) (optical_depth_of ROps (lcells L gc (subJ J)) ph)
              (kappa (lcells L gc (subJ J)) ph) (m_pos st0) (top_Hod (lcells L gc (subJ J)) ph)
              (top_Hkap anc (ssv L S) (cvec L) (lcells L gc (subJ J)) ph input G0) Hbg J HJ
              (fun i IB => kapJ J ph i Es IB) G st0 post lagok real st Hfl I0 eq_refl R0 C0 Rch Cf)
    as [Gb [rv [RGP [_ [_ [_ Fin]]]]]].
  exists r, Gb. split. exact Hr. split. exact RGP.
  destruct (Z.eq_dec (r_out r) INSIDE) as [Eo|Eo]. left; exact Eo. right. split. exact Eo.
  pose proof (left_tau anc (ssv L S) (cvec L) (lcells L gc (subJ J)) ph input G0 r Hr Eo) as LT. fold st in LT.
  destruct Fin as [[_ Rb]|[T _]]; [exact Rb|lra].
Qed.

Lemma trace_terminates : forall fuel n J input ph G Gf post lagok real,
  (lagok = true -> post = true) -> entryOK J input ph ->
  Rel post lagok real J G (start_state (anchor_at L A S (jw J)) (ssv L S) (cvec L) ph input) (p_tau ph) ->
  rreachNG n G Gf -> rcondG Gf = false -> (n < fuel)%nat ->
  tr_end (traceL fuel (subJ J) input ph) <> EFuel.
Proof.
  induction fuel as [|f IH]; intros n J input ph G Gf post lagok real Hfl EO R0 RN CF Hn. lia.
  destruct (block_run J input ph G post lagok real Hfl EO R0) as [r [Gb [Hr [RGP Cases]]]].
  rewrite trace_S. cbv zeta. rewrite sub_block_eq, Hr.
  destruct Cases as [Eo|[Eo Rb]].
  - rewrite Eo. cbn. discriminate.
  - assert (E : (r_out r =? INSIDE)%Z = false) by (apply Z.eqb_neq; exact Eo). rewrite E.
    destruct (subgrid_ngb L (subJ J) (r_out r) =? OUTSIDE)%Z eqn:En. cbn. discriminate.
    apply Z.eqb_neq in En.
    destruct (handover_rel J input ph Gb r EO Hr Eo Rb En) as [_ [EN [EO2 [R2 _]]]]. cbv zeta in EN, EO2, R2.
    rewrite EN. cbn [tr_end].
    destruct (rreachP_suffix _ _ _ _ _ G Gb n Gf RGP RN CF) as [n' [Lt RN']].
    apply (IH n' _ _ _ Gb Gf true true false (fun _ => eq_refl) EO2 R2 RN' CF). lia.
Qed.


(* ---------------------------------------------------------------------------
   H. a source packet: get_subgrid(position) and the first start state *)
Definition J_of (pos : vec R) : C3 :=
  (Int_part ((vx pos - vx A) / vx (ssv L S)), Int_part ((vy pos - vy A) / vy (ssv L S)), Int_part ((vz pos - vz A) / vz (ssv L S))).
Lemma tg_J_of a pos : tg a (J_of pos) = Int_part ((vg a pos - vg a A) / vg a (ssv L S)).
Proof. destruct a; reflexivity. Qed.

(* start of the reference march: position relative to the box anchor, cell by truncation *)
Definition ref_start (pos : vec R) : rstate :=
  mkRS (mkV (vx pos - vx A) (vy pos - vy A) (vz pos - vz A))
       (mkI (Int_part ((vx pos - vx A) / cs AX)) (Int_part ((vy pos - vy A) / cs AY)) (Int_part ((vz pos - vz A) / cs AZ)))
       0 [].
Lemma ref_start_ax a pos : vg a (rs_pos (ref_start pos)) = vg a pos - vg a A /\
                           ig a (rs_idx (ref_start pos)) = Int_part ((vg a pos - vg a A) / cs a).
Proof. destruct a; split; reflexivity. Qed.

Section Source.
Variable ph : photon R.
Hypothesis Hd : p_dir ph = d.
Hypothesis Hsg : p_sigma ph = sg.
Hypothesis Htau : p_tau ph = target.
Hypothesis Htpos : 0 < target.
Hypothesis Hsgpos : 0 <= nth 0 sg 0 /\ 0 <= nth 1 sg 0.
Hypothesis Hbig : exists j, vg j d <> 0 /\ cs j < RDBLMAX * Rabs (vg j d).
Hypothesis Hpos : forall a, vg a A <= vg a (p_pos ph) < vg a A + vg a S.

Lemma J_of_range a : (0 <= tg a (J_of (p_pos ph)) < Lm L a)%Z /\
  IZR (tg a (J_of (p_pos ph))) * vg a (ssv L S) <= vg a (p_pos ph) - vg a A < (IZR (tg a (J_of (p_pos ph))) + 1) * vg a (ssv L S).
Proof.
  rewrite tg_J_of. pose proof (ssv_pos L HL S HS a) as Hss. destruct (wfL_ax L HL a) as [Hm Hc].
  pose proof (floor_cell_inv (vg a (ssv L S)) (vg a (p_pos ph) - vg a A) Hss) as B. split; [|exact B].
  set (j := Int_part ((vg a (p_pos ph) - vg a A) / vg a (ssv L S))) in *. specialize (Hpos a).
  assert (ES : vg a S = IZR (Lm L a) * vg a (ssv L S)).
  { rewrite vg_ssv. field. apply not_0_IZR. lia. }
  split.
  - assert (IZR (-1) < IZR j). { replace (IZR (-1)) with (-1) by reflexivity. nra. } apply lt_IZR in H. lia.
  - assert (IZR j < IZR (Lm L a)) by nra. apply lt_IZR in H. exact H.
Qed.

Lemma jw_J_of : jw (J_of (p_pos ph)) = J_of (p_pos ph).
Proof. apply C3_ext. intros a. rewrite tg_jw. apply Z.mod_small. apply J_of_range. Qed.

Lemma locate_eq : locate ROps L A S (p_pos ph) = subJ (J_of (p_pos ph)).
Proof.
  unfold subJ. rewrite jw_J_of. unfold locate, J_of, lin. rsimp.
  assert (F : forall a, floorZ ROps ((vg a (p_pos ph) - vg a A) / vg a (ssv L S)) = Int_part ((vg a (p_pos ph) - vg a A) / vg a (ssv L S))).
  { intros a. apply floorZ_nonneg. pose proof (ssv_pos L HL S HS a). specialize (Hpos a). apply Rmult_le_pos. lra.
    left. apply Rinv_0_lt_compat. assumption. }
  pose proof (F AX) as F1. pose proof (F AY) as F2. pose proof (F AZ) as F3. cbn [vg] in F1, F2, F3.
  fold (ssv L S). rewrite F1, F2, F3. reflexivity.
Qed.

Lemma kinds_INSIDE a : kg a (kinds_of INSIDE) = KCompute.
Proof. destruct a; reflexivity. Qed.

Lemma source_entry :
  let J := J_of (p_pos ph) in
  entryOK J INSIDE ph /\
  Rel false false true J (ref_start (p_pos ph)) (start_state (anchor_at L A S (jw J)) (ssv L S) (cvec L) ph INSIDE) (p_tau ph).
Proof.
  intros J.
  assert (AXF : forall a,
    let p1 := vg a (p_pos ph) - vg a (anchor_at L A S (jw J)) in
    0 <= p1 < vg a (ssv L S) /\
    vg a (m_pos (start_state (anchor_at L A S (jw J)) (ssv L S) (cvec L) ph INSIDE)) = p1 /\
    axrel false false true (cs a) (Lc L a) (vg a d) (tg a J) (vg a (rs_pos (ref_start (p_pos ph)))) (ig a (rs_idx (ref_start (p_pos ph))))
          p1 (ig a (m_idx (start_state (anchor_at L A S (jw J)) (ssv L S) (cvec L) ph INSIDE)))).
  { intros a. unfold J. rewrite jw_J_of. cbv zeta. set (p1 := vg a (p_pos ph) - vg a (anchor_at L A S (J_of (p_pos ph)))).
    destruct (J_of_range a) as [Jr Jb].
    pose proof (csg_pos L HL S HS a) as Hcsp. destruct (wfL_ax L HL a) as [Hm Hc].
    pose proof (ssv_cs L HL S a) as Ess. assert (Hcr : 1 <= IZR (Lc L a)) by (apply (IZR_le 1); exact Hc).
    set (j := tg a (J_of (p_pos ph))) in *.
    assert (Ep1 : p1 = vg a (p_pos ph) - vg a A - IZR j * vg a (ssv L S)) by (unfold p1; rewrite vg_anchor_at; fold j; ring).
    assert (B1 : 0 <= p1 < vg a (ssv L S)) by lra.
    destruct (start_state_ax (anchor_at L A S (J_of (p_pos ph))) (ssv L S) (cvec L) ph INSIDE a) as [Sp Si].
    cbv zeta in Sp, Si. rewrite kinds_INSIDE, ig_cvec in Sp, Si. cbn [repos1 start1] in Sp, Si. rsimp. fold p1 in Sp, Si.
    assert (Efl : RtruncZ (p1 * (IZR (Lc L a) / vg a (ssv L S))) = Int_part (p1 / cs a)).
    { replace (p1 * (IZR (Lc L a) / vg a (ssv L S))) with (p1 / cs a) by (rewrite Ess; field; lra).
      apply RtruncZ_nonneg. apply Rmult_le_pos. lra. left. apply Rinv_0_lt_compat. exact Hcsp. }
    rewrite Efl in Si. pose proof (floor_cell_inv (cs a) p1 Hcsp) as Bi. rewrite <- Si in Bi.
    set (i := ig a (m_idx (start_state (anchor_at L A S (J_of (p_pos ph))) (ssv L S) (cvec L) ph INSIDE))) in *.
    destruct (ref_start_ax a (p_pos ph)) as [RP RI]. rewrite RP, RI.
    split. exact B1. split. exact Sp.
    split. rewrite mult_IZR. rewrite Ep1, Ess. ring.
    left. split.
    - apply floor_cell. exact Hcsp. rewrite plus_IZR, mult_IZR. rewrite Ess in Ep1. split; nra.
    - split. lra. split. intros; lra. split. intros X; discriminate X. split. intros; lra. intros _ _. rewrite <- Ess. lra. }
  split.
  - constructor.
    + intros a _. apply J_of_range.
    + exact Hd.
    + exact Hsg.
    + constructor.
      * intros a. rewrite ig_cvec. apply (wfL_ax L HL a).
      * intros a. apply (ssv_pos L HL S HS).
      * unfold INSIDE. lia.
      * intros a _. destruct (AXF a) as [B _]. lra.
      * intros c. apply Hgc.
      * rewrite Hsg. exact Hsgpos.
      * rewrite Htau. exact Htpos.
      * destruct Hbig as [j [H1 H2]]. exists j. rewrite Hd. split. exact H1. rewrite ig_cvec.
        destruct (wfL_ax L HL j) as [Hm Hc]. rewrite vg_ssv.
        replace (vg j S / IZR (Lm L j) / IZR (Lc L j)) with (cs j). exact H2.
        symmetry. apply (cell_size_eq (vg j S) (Lm L j) (Lc L j) Hm Hc).
    + intros a _. destruct (AXF a) as [B _]. lra.
  - split.
    + intros a. destruct (AXF a) as [_ [Sp R]]. rewrite Sp. exact R.
    + rewrite Htau. cbn [rs_tau ref_start m_tau start_state]. ring.
Qed.

(* every trace of a source packet is a chunking of the reference march *)
Theorem trace_refines_reference_thm fuel :
  let tr := trace_packet ROps L A S (fun s => s) (subgrid_ngb L) gen_out_to_in (lcells L gc) fuel ph in
  tr_end tr <> EFuel ->
  exists Gf, rreachG (ref_start (p_pos ph)) Gf /\ rcondG Gf = false /\
    ((tr_end tr = EAbsorbed /\ target <= rs_tau Gf) \/ (tr_end tr = EEscaped /\ rs_tau Gf < target)) /\
    tr_tau tr = target - rs_tau Gf /\
    (exists Il len rest, rs_vis Gf = (Il, len) :: rest /\
       forall a, vg a (tr_pos tr) - vg a A = vg a (rs_pos Gf) - IZR (ig a Il / NN L a) * vg a S) /\
    (forall C, tcred L (tr_steps tr) C = rcred L (rs_vis Gf) C) /\
    chain handover_ok (tr_steps tr).
Proof.
  intros tr NF. unfold tr, trace_packet in *. rewrite locate_eq in *.
  destruct source_entry as [EO R0]. cbv zeta in EO, R0.
  destruct (trace_sim fuel (J_of (p_pos ph)) INSIDE ph (ref_start (p_pos ph)) false false true
              (fun X => match Bool.diff_false_true X with end) EO R0 NF) as [Gf M].
  destruct M as [M1 [M2 [M3 [M4 [M5 [M6 [M7 _]]]]]]].
  exists Gf. repeat (split; [assumption|]). split; [|exact M7].
  intros C. rewrite M6. change (rcred L (rs_vis (ref_start (p_pos ph))) C) with 0. ring.
Qed.

Theorem trace_terminates_thm n Gf : rreachNG n (ref_start (p_pos ph)) Gf -> rcondG Gf = false ->
  forall fuel, (n < fuel)%nat ->
  tr_end (trace_packet ROps L A S (fun s => s) (subgrid_ngb L) gen_out_to_in (lcells L gc) fuel ph) <> EFuel.
Proof.
  intros RN CF fuel Hn. unfold trace_packet. rewrite locate_eq.
  destruct source_entry as [EO R0]. cbv zeta in EO, R0.
  apply (trace_terminates fuel n (J_of (p_pos ph)) INSIDE ph (ref_start (p_pos ph)) Gf false false true
           (fun X => match Bool.diff_false_true X with end) EO R0 RN CF Hn).
Qed.


End Source.

End Sim.

(* ---------------------------------------------------------------------------
   I. layout independence *)
(* two layouts of the same global grid: same number of cells per axis, same periodicity *)
Definition same_grid (L1 L2 : layout) : Prop := forall a, NN L1 a = NN L2 a /\ Lp L1 a = Lp L2 a.

Lemma same_grid_params L1 L2 S gc sg : same_grid L1 L2 ->
  csvec L1 S = csvec L2 S /\ kapG L1 gc sg = kapG L2 gc sg /\ insideG L1 = insideG L2 /\ wrapI L1 = wrapI L2.
Proof.
  intros H. destruct (H AX) as [N1 P1]. destruct (H AY) as [N2 P2]. destruct (H AZ) as [N3 P3]. cbn [Lp] in P1, P2, P3.
  assert (W : wrapI L1 = wrapI L2) by (unfold wrapI; rewrite N1, N2, N3; reflexivity).
  split. unfold csvec, csg. rewrite N1, N2, N3. reflexivity.
  split. unfold kapG. rewrite W. reflexivity.
  split. unfold insideG. rewrite N1, N2, N3, P1, P2, P3. reflexivity. exact W.
Qed.

Lemma same_grid_start L1 L2 A S pos : same_grid L1 L2 -> ref_start L1 A S pos = ref_start L2 A S pos.
Proof.
  intros H. destruct (H AX) as [N1 _]. destruct (H AY) as [N2 _]. destruct (H AZ) as [N3 _].
  unfold ref_start, csg. rewrite N1, N2, N3. reflexivity.
Qed.

Lemma same_grid_rcred L1 L2 rv C : same_grid L1 L2 -> rcred L1 rv C = rcred L2 rv C.
Proof. intros H. destruct (same_grid_params L1 L2 (mkV 0 0 0) (fun _ => mkC 0 0 0) [] H) as [_ [_ [_ W]]]. unfold rcred. rewrite W. reflexivity. Qed.

(* the premises on the grid and on a source packet *)
Record source_ok (L : layout) (A S : vec R) (gc : ivec -> cellc R) (ph : photon R) : Prop := mkSO {
  so_L : wfL L;
  so_S : forall a, 0 < vg a S;
  so_gc : forall I, 0 <= c_n (gc I) /\ 0 <= c_xH (gc I) /\ 0 <= c_xHe (gc I);
  so_tau : 0 < p_tau ph;
  so_sg : 0 <= nth 0 (p_sigma ph) 0 /\ 0 <= nth 1 (p_sigma ph) 0;
  so_big : exists j, vg j (p_dir ph) <> 0 /\ csg L S j < RDBLMAX * Rabs (vg j (p_dir ph));
  so_pos : forall a, vg a A <= vg a (p_pos ph) < vg a A + vg a S
}.

Lemma source_ok_same L1 L2 A S gc ph : same_grid L1 L2 -> wfL L2 -> source_ok L1 A S gc ph -> source_ok L2 A S gc ph.
Proof.
  intros H HL2 [H1 H2 H3 H4 H5 H6 H7]. constructor; try assumption.
  destruct H6 as [j [X Y]]. exists j. split. exact X. unfold csg in *. rewrite <- (proj1 (H j)). exact Y.
Qed.

(* the trace through the layout, without copies, with the real output->input table *)
Definition traceR (L : layout) (A S : vec R) (gc : ivec -> cellc R) (fuel : nat) (ph : photon R) : tresult R :=
  trace_packet ROps L A S (fun s => s) (subgrid_ngb L) gen_out_to_in (lcells L gc) fuel ph.

(* the reference march of a packet through the undivided, unfolded lattice of a grid *)
Definition ref_reach (L : layout) (A S : vec R) (gc : ivec -> cellc R) (ph : photon R) (Gf : rstate) : Prop :=
  rreach (csvec L S) (p_dir ph) (p_tau ph) (kapG L gc (p_sigma ph)) (insideG L) (ref_start L A S (p_pos ph)) Gf /\
  rcond (p_tau ph) (insideG L) Gf = false.

Theorem trace_refines_reference L A S gc ph fuel : source_ok L A S gc ph ->
  let tr := traceR L A S gc fuel ph in
  tr_end tr <> EFuel ->
  exists Gf, ref_reach L A S gc ph Gf /\
    ((tr_end tr = EAbsorbed /\ p_tau ph <= rs_tau Gf) \/ (tr_end tr = EEscaped /\ rs_tau Gf < p_tau ph)) /\
    tr_tau tr = p_tau ph - rs_tau Gf /\
    (exists Il len rest, rs_vis Gf = (Il, len) :: rest /\
       forall a, vg a (tr_pos tr) - vg a A = vg a (rs_pos Gf) - IZR (ig a Il / NN L a) * vg a S) /\
    (forall C, tcred L (tr_steps tr) C = rcred L (rs_vis Gf) C).
Proof.
  intros [H1 H2 H3 H4 H5 H6 H7] tr NF.
  destruct (trace_refines_reference_thm L H1 A S H2 gc H3 (p_dir ph) (p_sigma ph) (p_tau ph) ph eq_refl eq_refl eq_refl H4 H5 H6 H7 fuel NF)
    as [Gf [M1 [M2 [M3 [M4 [M5 [M6 _]]]]]]].
  exists Gf. split. split; assumption. repeat (split; [assumption|]). exact M6.
Qed.

(* layer 2: every pair of consecutive interact calls of a trace satisfies the hand-over statement *)
Theorem trace_handover L A S gc ph fuel : source_ok L A S gc ph ->
  let tr := traceR L A S gc fuel ph in
  tr_end tr <> EFuel -> chain (handover_ok L A S (p_dir ph)) (tr_steps tr).
Proof.
  intros [H1 H2 H3 H4 H5 H6 H7] tr NF.
  destruct (trace_refines_reference_thm L H1 A S H2 gc H3 (p_dir ph) (p_sigma ph) (p_tau ph) ph eq_refl eq_refl eq_refl H4 H5 H6 H7 fuel NF)
    as [Gf [_ [_ [_ [_ [_ [_ M7]]]]]]]. exact M7.
Qed.

Lemma vec_eq_from_diff (u v w : vec R) : (forall a, vg a u - vg a w = vg a v - vg a w) -> u = v.
Proof. intros H. apply vec_ext. intros a. specialize (H a). lra. Qed.

(* layer 4: two layouts of the same global grid *)
Theorem layout_independence L1 L2 A S gc ph fuel1 fuel2 :
  source_ok L1 A S gc ph -> wfL L2 -> same_grid L1 L2 ->
  let tr1 := traceR L1 A S gc fuel1 ph in let tr2 := traceR L2 A S gc fuel2 ph in
  tr_end tr1 <> EFuel -> tr_end tr2 <> EFuel ->
  tr_end tr1 = tr_end tr2 /\ tr_pos tr1 = tr_pos tr2 /\ tr_tau tr1 = tr_tau tr2 /\
  forall C, tcred L1 (tr_steps tr1) C = tcred L2 (tr_steps tr2) C.
Proof.
  intros SO1 HL2 SG tr1 tr2 NF1 NF2. pose proof (source_ok_same L1 L2 A S gc ph SG HL2 SO1) as SO2.
  destruct (trace_refines_reference L1 A S gc ph fuel1 SO1 NF1) as [G1 [[R1 C1] [E1 [T1 [P1 K1]]]]].
  destruct (trace_refines_reference L2 A S gc ph fuel2 SO2 NF2) as [G2 [[R2 C2] [E2 [T2 [P2 K2]]]]].
  fold tr1 in E1, T1, P1, K1. fold tr2 in E2, T2, P2, K2.
  destruct (same_grid_params L1 L2 S gc (p_sigma ph) SG) as [Q1 [Q2 [Q3 Q4]]].
  rewrite Q1, Q2, Q3, (same_grid_start L1 L2 A S (p_pos ph) SG) in R1. rewrite Q3 in C1.
  pose proof (rreach_final_unique _ _ _ _ _ _ _ _ R1 C1 R2 C2) as EG. subst G2.
  split; [|split; [|split]].
  - destruct E1 as [[A1 B1]|[A1 B1]]; destruct E2 as [[A2 B2]|[A2 B2]]; try congruence; lra.
  - destruct P1 as [Il1 [l1 [r1 [V1 X1]]]]. destruct P2 as [Il2 [l2 [r2 [V2 X2]]]]. rewrite V1 in V2. inversion V2; subst.
    apply (vec_eq_from_diff _ _ A). intros a. rewrite X1, X2. rewrite (proj1 (SG a)). reflexivity.
  - lra.
  - intros C. rewrite K1, K2. apply same_grid_rcred. exact SG.
Qed.

(* the undivided grid with the same cells and periodicity *)
Definition undivided (L : layout) : layout :=
  mkL 1 1 1 (px L) (py L) (pz L) (nx L * cx L) (ny L * cy L) (nz L * cz L).

Lemma undivided_same L : same_grid L (undivided L).
Proof. intros a. unfold NN, undivided. destruct a; cbn [Lm Lc Lp nx ny nz cx cy cz px py pz]; split; try reflexivity; lia. Qed.

Lemma undivided_wf L : wfL L -> wfL (undivided L).
Proof.
  unfold wfL, undivided, nsub, OUTSIDE. cbn [nx ny nz cx cy cz]. intros H. repeat split; try lia; nia.
Qed.

Theorem split_equals_undivided L A S gc ph fuel1 fuel2 : source_ok L A S gc ph ->
  let tr1 := traceR L A S gc fuel1 ph in let tr2 := traceR (undivided L) A S gc fuel2 ph in
  tr_end tr1 <> EFuel -> tr_end tr2 <> EFuel ->
  tr_end tr1 = tr_end tr2 /\ tr_pos tr1 = tr_pos tr2 /\ tr_tau tr1 = tr_tau tr2 /\
  forall C, tcred L (tr_steps tr1) C = tcred (undivided L) (tr_steps tr2) C.
Proof.
  intros SO. apply layout_independence. exact SO. apply undivided_wf. apply (so_L _ _ _ _ _ SO). apply undivided_same.
Qed.

(* a trace ends within its fuel in one layout iff it does in every other layout of the same grid (with enough fuel):
   n reference steps need at most n + 1 interact calls *)
Theorem termination_transfer L1 L2 A S gc ph fuel1 :
  source_ok L1 A S gc ph -> wfL L2 -> same_grid L1 L2 ->
  tr_end (traceR L1 A S gc fuel1 ph) <> EFuel ->
  exists n, forall fuel2, (n < fuel2)%nat -> tr_end (traceR L2 A S gc fuel2 ph) <> EFuel.
Proof.
  intros SO1 HL2 SG NF1. pose proof (source_ok_same L1 L2 A S gc ph SG HL2 SO1) as SO2.
  destruct (trace_refines_reference L1 A S gc ph fuel1 SO1 NF1) as [G1 [[R1 C1] _]].
  destruct (same_grid_params L1 L2 S gc (p_sigma ph) SG) as [Q1 [Q2 [Q3 Q4]]].
  rewrite Q1, Q2, Q3, (same_grid_start L1 L2 A S (p_pos ph) SG) in R1. rewrite Q3 in C1.
  destruct (rreachH_N _ _ _ _ _ _ _ (rreach_H _ _ _ _ _ _ _ R1)) as [n RN].
  exists n. intros fuel2 Hn. destruct SO2 as [H1 H2 H3 H4 H5 H6 H7].
  apply (trace_terminates_thm L2 H1 A S H2 gc H3 (p_dir ph) (p_sigma ph) (p_tau ph) ph eq_refl eq_refl eq_refl H4 H5 H6 H7 n G1 RN C1 fuel2 Hn).
Qed.

(* ---------------------------------------------------------------------------
   duplicated subgrids (layer 3 -> layer 4): a trace that runs through copies makes the same interact calls, with the
   same results, as the trace through the originals; only the subgrid that receives the estimators differs (a copy of
   the original).  Holds for every scalar instance, binary64 included: it only uses the neighbour tables. *)
Lemma output_direction_range n i o : output_direction n i = Some o -> (0 <= o < 27)%Z.
Proof.
  unfold output_direction. intros H. apply zlookup_In in H. unfold output_table in H. cbn [In] in H.
  repeat (destruct H as [H|H]; [inversion H; subst; vm_compute; split; congruence|]). contradiction.
Qed.

Lemma interact_out_range {T : Type} (Op : Ops T) b cells ph input r :
  interact Op b cells ph input = Ok r -> r_out r = INSIDE \/ (0 <= r_out r < 27)%Z.
Proof.
  unfold interact, interact_with. intros H.
  destruct (zlookup input reposition_table) as [[[kx ky] kz]|]; [|discriminate].
  destruct (x_index_kind input); [|discriminate]. destruct (y_index_kind input); [|discriminate].
  destruct (z_index_kind input); [|discriminate].
  destruct (march Op b (p_dir ph) _ (p_tau ph) _ _ _) as [st|]; [|discriminate].
  destruct (o_leb Op (p_tau ph) (m_tau st)).
  - inversion H; subst. left; reflexivity.
  - destruct (output_direction (b_n b) (m_idx st)) as [o|] eqn:E; [|discriminate]. inversion H; subst. cbn [r_out].
    right. apply (output_direction_range _ _ _ E).
Qed.

Definition step_to_original (L : layout) (lv : list Z) {T : Type} (s : tstep T) : tstep T :=
  mkTS (original_of L lv (ts_sub s)) (ts_in s) (ts_ppos s) (ts_ptau s) (ts_start s) (ts_res s).

Lemma trace_copies {T : Type} (Op : Ops T) L lv (A S : vec T) o2i cells : wf L lv ->
  forall fuel sub input ph, (0 <= sub < total L lv)%Z ->
  let t1 := trace Op L A S (original_of L lv) (ngb_at L lv) o2i cells fuel sub input ph in
  let t2 := trace Op L A S (fun s => s) (subgrid_ngb L) o2i cells fuel (original_of L lv sub) input ph in
  tr_end t1 = tr_end t2 /\ tr_pos t1 = tr_pos t2 /\ tr_tau t1 = tr_tau t2 /\
  map (step_to_original L lv) (tr_steps t1) = tr_steps t2.
Proof.
  intros W. induction fuel as [|f IH]; intros sub input ph Hs; cbn [trace].
  - repeat split.
  - destruct (interact Op (sub_block Op L A S (original_of L lv sub)) (cells (original_of L lv sub)) ph input) as [r| | |] eqn:E;
      try (repeat split; reflexivity).
    destruct (r_out r =? INSIDE)%Z eqn:Eo. repeat split.
    apply Z.eqb_neq in Eo. destruct (interact_out_range Op _ _ _ _ _ E) as [X|Rg]; [contradiction|].
    assert (Rg' : (1 <= r_out r < 27)%Z) by (unfold INSIDE in Eo; lia).
    destruct (copy_neighbour_thm L lv sub (r_out r) W Hs Rg') as [_ [N1 N2]]. cbv zeta in N1, N2.
    destruct (subgrid_ngb L (original_of L lv sub) (r_out r) =? OUTSIDE)%Z eqn:En.
    + apply Z.eqb_eq in En. rewrite (N1 En), Z.eqb_refl. repeat split.
    + apply Z.eqb_neq in En. destruct (N2 En) as [B Eor].
      assert (NO : (ngb_at L lv sub (r_out r) =? OUTSIDE)%Z = false).
      { apply Z.eqb_neq. destruct W as [_ [_ [_ Wt]]]. lia. }
      rewrite NO. destruct (IH (ngb_at L lv sub (r_out r)) (tnth o2i (r_out r)) (after ph r) B) as [I1 [I2 [I3 I4]]].
      rewrite Eor in I1, I2, I3, I4. cbn [tr_end tr_pos tr_tau tr_steps map]. rewrite I4.
      repeat split; assumption.
Qed.


(* ---------------------------------------------------------------------------
   J. the premises are satisfiable; executable examples *)
Definition ex_L : layout := mkL 2 1 1 false false false 2 2 1.      (* 4 x 2 x 1 cells as two subgrids of 2 x 2 x 1 *)
Definition ex_A : vec R := mkV 0 0 0.
Definition ex_S : vec R := mkV 4 2 1.
Definition ex_gc (I : ivec) : cellc R := mkC 1 (1 / 2) 0.
(* from the middle of cell (1,1,0) along (1,-1,0): reaches the subgrid face x = 2 and the cell wall y = 1 together *)
Definition ex_ph : photon R := mkP (mkV (3 / 2) (3 / 2) (1 / 2)) (mkV 1 (-1) 0) 100 [1; 1] (IZR 4000000000000000) 1.

Example ex_source_ok : source_ok ex_L ex_A ex_S ex_gc ex_ph.
Proof.
  constructor.
  - unfold wfL, ex_L, nsub, OUTSIDE. cbn. lia.
  - intros a; destruct a; cbn; lra.
  - intros I; cbn; lra.
  - cbn; lra.
  - cbn; lra.
  - exists AX. cbn [vg ex_ph p_dir vx]. unfold csg, NN. cbn [Lm Lc ex_L nx cx vg ex_S vx]. rewrite Rabs_R1.
    pose proof RDBLMAX_gt2. split. lra. replace (IZR (2 * 2)) with 4 by (cbn; lra). lra.
  - intros a; destruct a; cbn; lra.
Qed.

Example ex_same_grid : same_grid ex_L (undivided ex_L) /\ wfL (undivided ex_L).
Proof. split. apply undivided_same. apply undivided_wf. unfold wfL, ex_L, nsub, OUTSIDE. cbn. lia. Qed.

From Coq Require Import Floats.
Local Open Scope float_scope.
Definition fx_L : layout := ex_L.
Definition fx_cells (s c : Z) : cellc float := mkC 1 0.5 0.
Definition fx_ph : photon float := mkP (mkV 1.5 1.5 0.5) (mkV 1 (-1) 0) 100 [1; 1] 4e15 1.
Definition fx_view (t : tresult float) :=
  map (fun s => (ts_sub s, ts_in s, r_out (ts_res s), r_vis (ts_res s))) (tr_steps t).

(* the binary64 instance on the same input (all values exactly representable): the split grid hands the packet over
   through FACE_X_P -> FACE_X_N; get_start_index puts it into the cell ABOVE the wall y = 1 it sits on (cell 1), the
   first iteration there has length (-)0, then it continues in cell 0; end, position, remaining depth equal those of
   the undivided grid, and the lengths per global cell are 0.5 and 1 in both *)
Example f_tie_handover :
  let t1 := f_trace_packet fx_L (mkV 0 0 0) (mkV 4 2 1) gen_out_to_in fx_cells 10 fx_ph in
  let t2 := f_trace_packet (undivided fx_L) (mkV 0 0 0) (mkV 4 2 1) gen_out_to_in fx_cells 10 fx_ph in
  tr_end t1 = EEscaped /\ tr_end t2 = EEscaped /\ tr_pos t1 = tr_pos t2 /\ tr_tau t1 = tr_tau t2 /\
  fx_view t1 = [(0%Z, INSIDE, FACE_X_P, [(3%Z, 0.5)]); (1%Z, FACE_X_N, FACE_Y_N, [(1%Z, -0); (0%Z, 1)])] /\
  fx_view t2 = [(0%Z, INSIDE, FACE_Y_N, [(3%Z, 0.5); (4%Z, 1)])].
Proof. vm_compute. repeat split; reflexivity. Qed.
