(* C20: executable models (hand models; tie = correspondence with the real classes)
     1. src/YAMLDictionary.hpp : parser constructor, print_contents (plain and used-values form)
     2. src/Unit.hpp, src/UnitConverter.hpp : unit algebra, compound unit strings, conversions
     3. src/CMacIonizeSnapshotDensityFunction.cpp : index arithmetic of the Cartesian reader
   Strings are [list ascii] (bytes); std::string comparison is byte-wise unsigned
   (char_traits<char>::lt), modelled by [N_of_ascii]. std::map<std::string,std::string> is a
   list of (key, value) kept strictly sorted by that order. *)
From Coq Require String.
From Coq Require Import List Ascii Bool Arith ZArith NArith QArith Qround Floats.
Import String.StringSyntax.
Delimit Scope string_scope with string.
Bind Scope string_scope with String.string.
Notation string := String.string.
Notation list_ascii_of_string := String.list_ascii_of_string.
Import ListNotations.
Local Open Scope nat_scope.
Set Warnings "-inexact-float".   (* decimal literals of the unit table round like the C++ literals *)

Definition str := list ascii.

Definition cSP : ascii := " "%char.
Definition cTAB : ascii := "009"%char.
Definition cNL : ascii := "010"%char.
Definition cCOLON : ascii := ":"%char.
Definition cHASH : ascii := "#"%char.

Definition ceq (a b : ascii) : bool := Ascii.eqb a b.
Definition clt (a b : ascii) : bool := (N_of_ascii a <? N_of_ascii b)%N.

Fixpoint str_eqb (a b : str) : bool :=
  match a, b with
  | [], [] => true
  | x :: a', y :: b' => ceq x y && str_eqb a' b'
  | _, _ => false
  end.

(* std::string::compare < 0 *)
Fixpoint str_ltb (a b : str) : bool :=
  match a, b with
  | _, [] => false
  | [], _ :: _ => true
  | x :: a', y :: b' => if clt x y then true else if clt y x then false else str_ltb a' b'
  end.

Definition dict := list (str * str).

(* _dictionary[key] = value *)
Fixpoint dict_set (k v : str) (d : dict) : dict :=
  match d with
  | [] => [(k, v)]
  | (k', v') :: r =>
    if str_ltb k k' then (k, v) :: d
    else if str_ltb k' k then (k', v') :: dict_set k v r
    else (k, v) :: r
  end.

Fixpoint dict_get (k : str) (d : dict) : option str :=
  match d with
  | [] => None
  | (k', v') :: r => if str_eqb k k' then Some v' else dict_get k r
  end.

(* ------------------------------------------------------------------------
   1a. parser: YAMLDictionary(std::istream &) *)

Definition is_blank (c : ascii) : bool := ceq c cSP || ceq c cTAB.

(* i after  while (i < size && (line[i]==' ' || line[i]=='\t')) ++i; *)
Fixpoint count_blank (l : str) : nat :=
  match l with
  | c :: r => if is_blank c then S (count_blank r) else 0
  | [] => 0
  end.

Definition is_empty_line (l : str) : bool := count_blank l =? length l.

Definition is_comment_line (l : str) : bool :=
  match skipn (count_blank l) l with
  | c :: _ => ceq c cHASH
  | [] => false
  end.

(* line = line.substr(0, line.find('#')) *)
Fixpoint strip_comments (l : str) : str :=
  match l with
  | [] => []
  | c :: r => if ceq c cHASH then [] else c :: strip_comments r
  end.

Definition is_indented_line (l : str) : nat :=
  if count_blank l =? length l then 0 else count_blank l.

Fixpoint drop_blank (l : str) : str :=
  match l with
  | c :: r => if is_blank c then drop_blank r else l
  | [] => []
  end.

(* strip_whitespace_line: leading and trailing ' ' / '\t' removed, all-blank -> "" *)
Definition strip_ws (l : str) : str := rev (drop_blank (rev (drop_blank l))).

(* (line.substr(0,p), line.substr(p+1)) with p = line.find(':') *)
Fixpoint split_colon (l : str) : option (str * str) :=
  match l with
  | [] => None
  | c :: r => if ceq c cCOLON then Some ([], r)
              else match split_colon r with
                   | None => None
                   | Some (a, b) => Some (c :: a, b)
                   end
  end.

(* None = cmac_error("no ':' found") *)
Definition read_keyvaluepair (l : str) : option (str * str) :=
  match split_colon l with
  | None => None
  | Some (k, v) => Some (strip_ws k, strip_ws v)
  end.

Record pstate := mkP { p_groups : list str; p_levels : list nat; p_dict : dict }.

(* while (indentation < levels.back()) { levels.erase(end-1); groupname.erase(end-1); }
   None = back()/erase on an empty vector (undefined behaviour in C++) *)
Fixpoint pop_while (fuel ind : nat) (lv : list nat) (g : list str) : option (list nat * list str) :=
  match fuel with
  | O => None
  | S f =>
    match lv with
    | [] => None
    | _ => if ind <? last lv 0 then
             match g with
             | [] => None
             | _ => pop_while f ind (removelast lv) (removelast g)
             end
           else Some (lv, g)
    end
  end.

(* key = ""; for (g : groupname) key += g + ":"; key += name *)
Definition join_key (g : list str) (k : str) : str := concat (map (fun x => x ++ [cCOLON]) g) ++ k.

Definition is_nil {A} (l : list A) : bool := match l with [] => true | _ => false end.

(* one iteration of the getline loop; None = cmac_error / undefined behaviour *)
Definition parse_line (st : pstate) (line0 : str) : option pstate :=
  if is_comment_line line0 || is_empty_line line0 then Some st else
  let line := strip_comments line0 in
  match read_keyvaluepair line with
  | None => None
  | Some (k, v) =>
    let ind := is_indented_line line in
    if 0 <? ind then
      let olg :=
        match p_levels st with
        | [] => Some ([ind], p_groups st)
        | _ => if last (p_levels st) 0 <? ind then Some (p_levels st ++ [ind], p_groups st)
               else pop_while (S (length (p_levels st))) ind (p_levels st) (p_groups st)
        end in
      match olg with
      | None => None
      | Some (lv, g) =>
        if negb (length lv =? length g) then None   (* "Line has a different indentation than expected" *)
        else if is_nil v then Some (mkP (g ++ [k]) lv (p_dict st))
        else Some (mkP g lv (dict_set (join_key g k) v (p_dict st)))
      end
    else
      if negb (length (p_groups st) =? length (p_levels st)) then None   (* "Wrong formatting!" *)
      else if is_nil v then Some (mkP [k] [] (p_dict st))
      else Some (mkP [] [] (dict_set k v (p_dict st)))
  end.

Fixpoint parse_lines (st : pstate) (ls : list str) : option pstate :=
  match ls with
  | [] => Some st
  | l :: r => match parse_line st l with
              | None => None
              | Some st' => parse_lines st' r
              end
  end.

(* std::getline on the whole stream: "a\nb\n" and "a\nb" both give [a;b] *)
Fixpoint getlines (s : str) : list str :=
  match s with
  | [] => []
  | c :: r => if ceq c cNL then [] :: getlines r
              else match getlines r with
                   | [] => [[c]]
                   | l :: ls => (c :: l) :: ls
                   end
  end.

Definition parse (ls : list str) : option dict :=
  match parse_lines (mkP [] [] []) ls with
  | None => None
  | Some st => Some (p_dict st)
  end.

Definition parse_text (s : str) : option dict := parse (getlines s).

(* ------------------------------------------------------------------------
   1b. printer: YAMLDictionary::print_contents *)

(* keygroups (components before each ':') and the rest keyname.substr(spos) *)
Fixpoint split_key (k : str) : list str * str :=
  match k with
  | [] => ([], [])
  | c :: r =>
    let (g, n) := split_key r in
    if ceq c cCOLON then ([] :: g, n)
    else match g with
         | [] => ([], c :: n)
         | h :: t => ((c :: h) :: t, n)
         end
  end.

(* i after  while (i < bound && groupname[i] == keygroups[i]) ++i;  *)
Fixpoint common (bound : nat) (g k : list str) : nat :=
  match bound, g, k with
  | S b, x :: g', y :: k' => if str_eqb x y then S (common b g' k') else 0
  | _, _, _ => 0
  end.

(* for (size_t j = i; j < groupname.size(); ++j) groupname.pop_back();
   -- the bound shrinks while j grows (DESIGN O3) *)
Fixpoint pop_loop_shrinking (fuel j : nat) (g : list str) : list str :=
  match fuel with
  | O => g
  | S f => if j <? length g then pop_loop_shrinking f (S j) (removelast g) else g
  end.

(* for (size_t j = i; j < n; ++j) groupname.pop_back();   with n fixed *)
Fixpoint pop_loop_fixed (fuel j n : nat) (g : list str) : list str :=
  match fuel with
  | O => g
  | S f => if j <? n then pop_loop_fixed f (S j) n (removelast g) else g
  end.

(* while (n < groupname.size()) groupname.erase(end-1) *)
Fixpoint erase_to (fuel n : nat) (g : list str) : list str :=
  match fuel with
  | O => g
  | S f => if n <? length g then erase_to f n (removelast g) else g
  end.

Fixpoint indent (n : nat) : str :=
  match n with O => [] | S k => cSP :: cSP :: indent k end.

(* for (j = i; j < keygroups.size(); ++j) { stream << indent << keygroups[j] << ":\n"; indent += "  "; } *)
Fixpoint headers (lvl : nat) (names : list str) : list str :=
  match names with
  | [] => []
  | n :: r => (indent lvl ++ n ++ [cCOLON]) :: headers (S lvl) r
  end.

Definition not_used : str := list_ascii_of_string "value not used"%string.

(* text after "indent keyname: " *)
Definition value_text (used : option dict) (key value : str) : str :=
  match used with
  | None => value
  | Some u =>
    (match dict_get key u with Some x => x | None => not_used end)
      ++ list_ascii_of_string " # ("%string ++ value ++ list_ascii_of_string ")"%string
  end.

(* one iteration of the loop over _dictionary: new groupname, printed lines *)
Definition print_entry (used : option dict) (g : list str) (kv : str * str) : list str * list str :=
  let (key, value) := kv in
  let (kg, name) := split_key key in
  let vline := indent (length kg) ++ name ++ [cCOLON; cSP] ++ value_text used key value in
  if length g <? length kg then
    let i := common (length g) g kg in
    let g1 := pop_loop_shrinking (length g) i g in
    (g1 ++ skipn i kg, headers i (skipn i kg) ++ [vline])
  else
    let g0 := erase_to (length g) (length kg) g in
    let i := common (length kg) g0 kg in
    let g1 := pop_loop_fixed (length kg) i (length kg) g0 in
    (g1 ++ skipn i kg, headers i (skipn i kg) ++ [vline]).

Fixpoint print_from (used : option dict) (g : list str) (d : dict) : list str :=
  match d with
  | [] => []
  | kv :: r => let (g', ls) := print_entry used g kv in ls ++ print_from used g' r
  end.

Definition print (d : dict) : list str := print_from None [] d.
Definition print_used (u d : dict) : list str := print_from (Some u) [] d.

Definition unlines (ls : list str) : str := concat (map (fun l => l ++ [cNL]) ls).
Definition print_text (d : dict) : str := unlines (print d).

(* the dictionary the used-values dump is expected to re-parse to *)
Definition used_dict (u d : dict) : dict :=
  map (fun kv => (fst kv, match dict_get (fst kv) u with Some x => x | None => not_used end)) d.

(* ------------------------------------------------------------------------
   2. Unit.hpp / UnitConverter.hpp, generic in the number type F *)

Record unit_ (F : Type) := mkUnit { uval : F; uexp : list Z }.   (* length,time,mass,temperature,current,angle *)
Arguments mkUnit {F}. Arguments uval {F}. Arguments uexp {F}.

Fixpoint zip_with (f : Z -> Z -> Z) (a b : list Z) : list Z :=
  match a, b with
  | x :: a', y :: b' => f x y :: zip_with f a' b'
  | _, _ => []
  end.

Fixpoint zlist_eqb (a b : list Z) : bool :=
  match a, b with
  | [], [] => true
  | x :: a', y :: b' => Z.eqb x y && zlist_eqb a' b'
  | _, _ => false
  end.

Definition isalpha (c : ascii) : bool :=
  let n := N_of_ascii c in ((65 <=? n) && (n <=? 90) || (97 <=? n) && (n <=? 122))%N.
Definition isdigit (c : ascii) : bool :=
  let n := N_of_ascii c in ((48 <=? n) && (n <=? 57))%N.
Definition isspace (c : ascii) : bool :=
  let n := N_of_ascii c in ((n =? 32) || (9 <=? n) && (n <=? 13))%N.

Fixpoint skip_nonalpha (s : str) : str :=
  match s with
  | c :: r => if isalpha c then s else skip_nonalpha r
  | [] => []
  end.

(* pos2 loop: up to ' ' or '^' or the end *)
Fixpoint span_name (s : str) : str * str :=
  match s with
  | c :: r => if ceq c cSP || ceq c "^"%char then ([], s)
              else let (a, b) := span_name r in (c :: a, b)
  | [] => ([], [])
  end.

Fixpoint span_pow (s : str) : str * str :=
  match s with
  | c :: r => if isdigit c || ceq c "+"%char || ceq c "-"%char
              then let (a, b) := span_pow r in (c :: a, b) else ([], s)
  | [] => ([], [])
  end.

Fixpoint digits_val (acc : Z) (s : str) : Z * nat :=
  match s with
  | c :: r => if isdigit c then
                let (v, n) := digits_val (acc * 10 + (Z.of_N (N_of_ascii c) - 48)) r in (v, S n)
              else (acc, O)
  | [] => (acc, O)
  end.

(* std::stoi: leading isspace skipped, optional sign, at least one digit, int range;
   None = std::invalid_argument / std::out_of_range (uncaught -> terminate) *)
Fixpoint skip_space (s : str) : str :=
  match s with c :: r => if isspace c then skip_space r else s | [] => [] end.

Definition stoi (s : str) : option Z :=
  let s1 := skip_space s in
  let '(neg, s2) := match s1 with
                    | c :: r => if ceq c "-"%char then (true, r) else if ceq c "+"%char then (false, r) else (false, s1)
                    | [] => (false, [])
                    end in
  let (v, n) := digits_val 0 s2 in
  match n with
  | O => None
  | _ => let z := if neg then Z.opp v else v in
         if (Z.leb (-2147483648) z && Z.leb z 2147483647)%bool then Some z else None
  end.

(* unit tokens of get_unit(): (name, optional power string) in order of appearance *)
Fixpoint tokenize (fuel : nat) (s : str) : list (str * option str) :=
  match fuel with
  | O => []
  | S f =>
    match skip_nonalpha s with
    | [] => []
    | c :: r =>
      let (n, rest) := span_name r in
      match rest with
      | [] => [(c :: n, None)]
      | d :: rest' =>
        if ceq d "^"%char then
          match rest' with
          | [] => [(c :: n, Some [])]
          | p0 :: r2 => let (ds, r3) := span_pow r2 in (c :: n, Some (p0 :: ds)) :: tokenize f r3
          end
        else (c :: n, None) :: tokenize f rest
      end
    end
  end.

Section UnitAlgebra.
  Variable F : Type.
  Variables fmul fdiv : F -> F -> F.
  Variable fone : F.
  Variable single : str -> option (unit_ F).       (* get_single_unit; None = cmac_error *)
  Variables c_planck c_light : F.
  (* pow_zero_pinned: [true] = Unit::operator^= of the pinned commit, whose branch "power >= 0" leaves the
     scale factor untouched for power = 0 (DESIGN O2); [false] = repaired code ("power > 0": exponent 0 takes
     the other branch, which starts from 1 and divides zero times) *)
  Variable pow_zero_pinned : bool.

  Definition umul (u v : unit_ F) : unit_ F := mkUnit (fmul (uval u) (uval v)) (zip_with Z.add (uexp u) (uexp v)).
  Definition udiv (u v : unit_ F) : unit_ F := mkUnit (fdiv (uval u) (uval v)) (zip_with Z.sub (uexp u) (uexp v)).

  (* n times  acc = acc op v *)
  Fixpoint rep (op : F -> F -> F) (n : nat) (acc v : F) : F :=
    match n with O => acc | S k => rep op k (op acc v) v end.

  (* Unit::operator^= : first branch (power >= 0, repaired: power > 0): i = 1; while (i < power) _value *= value;
                        otherwise: _value = 1; i = 0; while (i < -power) _value /= value *)
  Definition upow (u : unit_ F) (p : Z) : unit_ F :=
    mkUnit (if (if pow_zero_pinned then (0 <=? p)%Z else (0 <? p)%Z) then rep fmul (Z.to_nat (p - 1)) (uval u) (uval u)
            else rep fdiv (Z.to_nat (- p)) fone (uval u))
           (map (fun e => (e * p)%Z) (uexp u)).

  Definition same_quantity (u v : unit_ F) : bool := zlist_eqb (uexp u) (uexp v).

  Definition eval_token (t : str * option str) : option (unit_ F) :=
    match single (fst t) with
    | None => None
    | Some u => match snd t with
                | None => Some u
                | Some ps => match stoi ps with None => None | Some p => Some (upow u p) end
                end
    end.

  Fixpoint eval_rest (acc : unit_ F) (ts : list (str * option str)) : option (unit_ F) :=
    match ts with
    | [] => Some acc
    | t :: r => match eval_token t with
                | None => None
                | Some u2 => eval_rest (umul acc u2) r
                end
    end.

  Definition eval_tokens (ts : list (str * option str)) : option (unit_ F) :=
    match ts with
    | [] => None                                  (* "Empty unit provided!" *)
    | t :: r => match eval_token t with None => None | Some u => eval_rest u r end
    end.

  Definition get_unit (name : str) : option (unit_ F) := eval_tokens (tokenize (S (length name)) name).

  (* Unit * double  and  double / Unit *)
  Definition to_si_val (u : unit_ F) (x : F) : F := fmul x (uval u).
  Definition from_si_val (u : unit_ F) (x : F) : F := fdiv x (uval u).

  (* try_conversion: energy <-> frequency (factor 1/h, power 1), length <-> frequency (factor c, power -1);
     ea/eb are the exponent vectors of the SI units of the A and B quantities *)
  Definition exps_energy : list Z := [2; -2; 1; 0; 0; 0]%Z.
  Definition exps_frequency : list Z := [0; -1; 0; 0; 0; 0]%Z.
  Definition exps_length : list Z := [1; 0; 0; 0; 0; 0]%Z.

  Definition try_conversion (x : F) (ufrom uto : unit_ F) : option F :=
    let fval := fmul fone (uval ufrom) in
    let tval := fmul fone (uval uto) in
    let is q (u : unit_ F) := zlist_eqb (uexp u) q in
    if is exps_energy ufrom && is exps_frequency uto then
      Some (fdiv (fmul (fmul x fval) (fdiv fone c_planck)) tval)
    else if is exps_frequency ufrom && is exps_energy uto then
      Some (fdiv (fdiv (fmul x fval) (fdiv fone c_planck)) tval)
    else if is exps_length ufrom && is exps_frequency uto then
      Some (fdiv (fmul (fdiv fone (fmul x fval)) c_light) tval)
    else if is exps_frequency ufrom && is exps_length uto then
      Some (fdiv (fdiv fone (fdiv (fmul x fval) c_light)) tval)
    else None.

  (* to_SI<q>(value, unit) / to_unit<q>(value, unit); si_name = get_SI_unit_name(q) *)
  Definition to_SI (si_name : str) (x : F) (unit : str) : option F :=
    match get_unit si_name, get_unit unit with
    | Some si, Some u => if same_quantity si u then Some (to_si_val u x) else try_conversion x u si
    | _, _ => None
    end.

  Definition to_unit (si_name : str) (x : F) (unit : str) : option F :=
    match get_unit si_name, get_unit unit with
    | Some si, Some u => if same_quantity si u then Some (from_si_val u x) else try_conversion x si u
    | _, _ => None
    end.

  (* UnitConverter::convert(value, from, to) *)
  Definition convert (x : F) (ufrom uto : str) : option F :=
    match get_unit ufrom, get_unit uto with
    | Some a, Some b => if same_quantity b a then Some (fmul x (uval (udiv a b))) else try_conversion x a b
    | _, _ => None
    end.
End UnitAlgebra.

(* get_SI_unit_name in enum order *)
Definition si_names : list string :=
  ["m s^-2"; "radians"; "kg m^-3"; "J"; "J m^-3 s^-1"; "J s^-1"; "m^-2 s^-1"; "m^2 s^-3"; "Hz"; "Hz kg^-1";
   "m^-1"; "m^-2"; "m"; "kg"; "kg s^-1"; "kg m s^-1"; "m^-3"; "m^-1"; "Pa"; "m^3 s^-1"; "m^2"; "kg m^-2";
   "K"; "s"; "m s^-1"; "m^3"]%string.

Definition si_name (q : nat) : str := list_ascii_of_string (nth q si_names ""%string).

(* binary64 instance: the table of get_single_unit *)
Definition f_pi : float := 0x1.921fb54442d18p+1%float.     (* M_PI *)
Definition f_planck : float := 6.626070040e-34%float.
Definition f_light : float := 299792458%float.
Definition f_ev : float := 1.6021766208e-19%float.

Definition E (a b c d e f : Z) : list Z := [a; b; c; d; e; f].
Definition ent (s : string) (v : float) (e : list Z) : string * (float * list Z) := (s, (v, e)).
Definition unit_table : list (string * (float * list Z)) :=
  [ent "m" (1) (E 1 0 0 0 0 0); ent "cm" (0.01) (E 1 0 0 0 0 0); ent "pc" (3.086e16) (E 1 0 0 0 0 0);
   ent "kpc" (3.086e19) (E 1 0 0 0 0 0); ent "angstrom" (1e-10) (E 1 0 0 0 0 0); ent "km" (1000) (E 1 0 0 0 0 0);
   ent "au" (149597870700) (E 1 0 0 0 0 0);
   ent "s" (1) (E 0 1 0 0 0 0); ent "Gyr" (3.154e16) (E 0 1 0 0 0 0); ent "Myr" (3.154e13) (E 0 1 0 0 0 0);
   ent "yr" (3.154e7) (E 0 1 0 0 0 0); ent "h" (3600) (E 0 1 0 0 0 0);
   ent "kg" (1) (E 0 0 1 0 0 0); ent "g" (0.001) (E 0 0 1 0 0 0); ent "Msol" (1.98855e30) (E 0 0 1 0 0 0);
   ent "K" (1) (E 0 0 0 1 0 0);
   ent "radians" (1) (E 0 0 0 0 0 1); ent "degrees" (PrimFloat.div f_pi 180) (E 0 0 0 0 0 1);
   ent "Hz" (1) (E 0 (-1) 0 0 0 0);
   ent "J" (1) (E 2 (-2) 1 0 0 0); ent "erg" (1e-7) (E 2 (-2) 1 0 0 0); ent "eV" (f_ev) (E 2 (-2) 1 0 0 0);
   ent "Pa" (1) (E (-1) (-2) 1 0 0 0); ent "bar" (1e5) (E (-1) (-2) 1 0 0 0)].

Fixpoint lookup_unit (n : str) (t : list (string * (float * list Z))) : option (unit_ float) :=
  match t with
  | [] => None
  | (s, (v, e)) :: r => if str_eqb n (list_ascii_of_string s) then Some (mkUnit v e) else lookup_unit n r
  end.

Definition f_single (n : str) : option (unit_ float) := lookup_unit n unit_table.

(* first argument: pow_zero_pinned *)
Definition f_get_unit (pz : bool) := get_unit float PrimFloat.mul PrimFloat.div 1%float f_single pz.
Definition f_to_SI (pz : bool) (q : nat) := to_SI float PrimFloat.mul PrimFloat.div 1%float f_single f_planck f_light pz (si_name q).
Definition f_to_unit (pz : bool) (q : nat) := to_unit float PrimFloat.mul PrimFloat.div 1%float f_single f_planck f_light pz (si_name q).
Definition f_convert (pz : bool) := convert float PrimFloat.mul PrimFloat.div 1%float f_single f_planck f_light pz.

(* a and b differ by at most one unit in the last place *)
Definition within_1ulp (a b : float) : bool :=
  PrimFloat.eqb a b || PrimFloat.eqb (next_up a) b || PrimFloat.eqb (next_down a) b.

Definition f_unit_val (n : string) : float :=
  match f_single (list_ascii_of_string n) with Some u => uval u | None => nan end.

(* internal consistency of the table (prefixes and derived units) *)
Definition rel (a : string) (k : float) (b : string) : string * float * string := (a, k, b).
Definition table_relations : list (string * float * string) :=
  [rel "kpc" 1000 "pc"; rel "Gyr" 1000 "Myr"; rel "Myr" 1e6 "yr"; rel "Gyr" 1e9 "yr"; rel "km" 1000 "m";
   rel "m" 100 "cm"; rel "kg" 1000 "g"; rel "J" 1e7 "erg"; rel "bar" 1e5 "Pa"; rel "m" 1e10 "angstrom"].

Definition table_consistent : bool :=
  forallb (fun r => match r with (a, k, b) => within_1ulp (PrimFloat.mul k (f_unit_val b)) (f_unit_val a) end) table_relations.

(* ------------------------------------------------------------------------
   3. CMacIonizeSnapshotDensityFunction (Cartesian): index arithmetic over Q.
      (uint_fast32_t)(double) truncates; the argument is >= 0 here *)
Local Open Scope Q_scope.
Definition Qtrunc (q : Q) : Z := if Qle_bool 0 q then Qfloor q else Qceiling q.

(* operator():  ix = ncell * (position - anchor) / sides *)
Definition snap_lookup_index (n : Z) (anchor side pos : Q) : Z :=
  Qtrunc (inject_Z n * (pos - anchor) / side).

(* initialize(): ix = ncell * p / sides   (stored coordinates have the anchor subtracted) *)
Definition snap_fill_index (n : Z) (side p : Q) : Z := Qtrunc (inject_Z n * p / side).

(* midpoint of cell i of n along one axis of the box *)
Definition cell_mid (n i : Z) (anchor side : Q) : Q := anchor + (inject_Z i + (1 # 2)) * (side / inject_Z n).
