(* C07: list and sum lemmas, well-formed graphs, soundness of wf_check *)
From Coq Require Import Arith List Bool PeanoNat Lia.
From CMI Require Import Cxx.C07_Defs.
Import ListNotations.

(* ================================================================== lists *)
Lemma length_upd : forall A (l : list A) i v, length (upd l i v) = length l.
Proof. induction l; destruct i; simpl; intros; auto. Qed.

Lemma nth_upd : forall A (l : list A) i j v d, i < length l ->
  nth j (upd l i v) d = if j =? i then v else nth j l d.
Proof.
  induction l; simpl; intros; [lia|].
  destruct i, j; simpl; auto.
  rewrite IHl by lia. reflexivity.
Qed.

Lemma nth_upd_out : forall A (l : list A) i v, length l <= i -> upd l i v = l.
Proof. induction l; destruct i; simpl; intros; auto; try lia. f_equal. apply IHl. lia. Qed.

Lemma nth_error_nth : forall A (l : list A) i x d, nth_error l i = Some x -> nth i l d = x /\ i < length l.
Proof.
  intros. split. apply nth_error_nth; auto. apply nth_error_Some. congruence.
Qed.

Lemma nth_error_None_len : forall A (l : list A) i, nth_error l i = None -> length l <= i.
Proof. intros. apply nth_error_None; auto. Qed.

Lemma memb_In : forall t l, memb t l = true <-> In t l.
Proof.
  unfold memb. intros. rewrite existsb_exists. split.
  - intros [x [H1 H2]]. apply Nat.eqb_eq in H2. subst; auto.
  - intros. exists t. split; auto. apply Nat.eqb_refl.
Qed.

Lemma memb_false : forall t l, memb t l = false <-> ~ In t l.
Proof. intros. rewrite <- memb_In. destruct (memb t l); split; intros; congruence. Qed.

Lemma In_remove1 : forall t x l, NoDup l -> (In x (remove1 t l) <-> In x l /\ x <> t).
Proof.
  induction l; simpl; intros. tauto.
  inversion H; subst.
  destruct (Nat.eqb_spec a t).
  - subst. split; intros.
    + split; auto. intro; subst; auto.
    + destruct H0 as [[?|?] ?]; [congruence|auto].
  - simpl. rewrite IHl by auto. split; intros.
    + destruct H0 as [?|[? ?]]; subst; auto.
    + destruct H0 as [[?|?] ?]; auto.
Qed.

Lemma NoDup_remove1 : forall t l, NoDup l -> NoDup (remove1 t l).
Proof.
  induction l; simpl; intros; auto.
  inversion H; subst. destruct (a =? t); auto.
  constructor; auto. rewrite In_remove1 by auto. tauto.
Qed.

Lemma length_remove1 : forall t l, In t l -> S (length (remove1 t l)) = length l.
Proof.
  induction l; simpl; intros. tauto.
  destruct (Nat.eqb_spec a t); auto.
  simpl. rewrite IHl; auto. destruct H; congruence.
Qed.

Lemma In_unlock : forall a x h, In x (unlock a h) <-> In x h /\ x <> a.
Proof.
  unfold unlock. intros. rewrite filter_In. rewrite negb_true_iff, Nat.eqb_neq. tauto.
Qed.

(* ================================================================== sums *)
Lemma sumn_ext : forall f g n, (forall i, i < n -> f i = g i) -> sumn f n = sumn g n.
Proof. induction n; simpl; intros; auto. rewrite IHn, H; auto. Qed.

Lemma sumn_le : forall f g n, (forall i, i < n -> f i <= g i) -> sumn f n <= sumn g n.
Proof. induction n; simpl; intros; auto. specialize (H n (Nat.lt_succ_diag_r n)) as H1. assert (sumn f n <= sumn g n) by auto. lia. Qed.

Lemma sumn_change : forall f g n p, p < n -> (forall i, i < n -> i <> p -> f i = g i) ->
  sumn f n + g p = sumn g n + f p.
Proof.
  induction n; simpl; intros. lia.
  destruct (Nat.eq_dec p n).
  - subst. rewrite (sumn_ext f g n). lia. intros; apply H0; lia.
  - rewrite (H0 n) by lia. assert (sumn f n + g p = sumn g n + f p). apply IHn. lia. intros; apply H0; lia. lia.
Qed.

Lemma sumn_eq_pointwise : forall f g n, (forall i, i < n -> f i <= g i) -> sumn f n = sumn g n ->
  forall i, i < n -> f i = g i.
Proof.
  induction n; simpl; intros. lia.
  assert (sumn f n <= sumn g n) by (apply sumn_le; auto).
  assert (f n <= g n) by auto.
  destruct (Nat.eq_dec i n). subst; lia.
  apply IHn; auto. lia. lia.
Qed.

Lemma sumn_zero : forall n, sumn (fun _ => 0) n = 0.
Proof. induction n; simpl; auto. lia. Qed.

(* occurrences of c in a list *)
Fixpoint cnt_in (c : nat) (l : list nat) : nat :=
  match l with
  | [] => 0
  | x :: r => (if x =? c then 1 else 0) + cnt_in c r
  end.

Lemma cnt_in_pos : forall c l, In c l <-> 1 <= cnt_in c l.
Proof.
  induction l; simpl. split; [tauto|lia].
  destruct (Nat.eqb_spec a c); split; intros; auto; try lia.
  - destruct H; [congruence|]. apply IHl in H. lia.
  - right. apply IHl. lia.
Qed.

Lemma cnt_in_firstn_le : forall c l k, cnt_in c (firstn k l) <= cnt_in c l.
Proof. induction l; destruct k; simpl; try lia. specialize (IHl k). lia. Qed.

Lemma cnt_in_firstn_S : forall c l k x, nth_error l k = Some x ->
  cnt_in c (firstn (S k) l) = cnt_in c (firstn k l) + (if x =? c then 1 else 0).
Proof.
  induction l; destruct k; simpl; intros; try discriminate.
  - inversion H; subst. lia.
  - specialize (IHl k x H). simpl in IHl. lia.
Qed.

Lemma cnt_in_firstn_0 : forall c l k, 1 <= cnt_in c (firstn k l) -> 1 <= k.
Proof. destruct k; simpl; intros; lia. Qed.

(* ================================================================== well-formed graphs *)
(* number of child edges into c, counted with multiplicity *)
Definition indeg (g : graph) (c : nat) : nat := sumn (fun p => cnt_in c (children (tk g p))) (length g).

Record wf (g : graph) : Prop := {
  wf_range : forall p c, p < length g -> In c (children (tk g p)) -> c < length g;
  wf_counts : forall c, c < length g -> parents0 (tk g c) = indeg g c;
  wf_small : forall c, c < length g -> parents0 (tk g c) < 256;
  wf_ranked : exists rk : nat -> nat, forall p c, p < length g -> In c (children (tk g p)) -> rk p < rk c;
  wf_locks_distinct : forall t a b, t < length g -> dep0 (tk g t) = Some a -> dep1 (tk g t) = Some b -> a <> b;
  wf_locks_cover : forall t x, t < length g -> In x (touches (tk g t)) -> In x (locks (tk g t));
  wf_children_fit : forall t, t < length g -> length (children (tk g t)) <= 7
}.

(* ------------------------------------------------------------------ wf_check is sound *)
Lemma nth_incr : forall l i c, c < length l -> nth c (incr l i) 0 = nth c l 0 + (if i =? c then 1 else 0).
Proof.
  intros. unfold incr. destruct (Nat.lt_ge_cases i (length l)).
  - rewrite nth_upd by auto. destruct (Nat.eqb_spec c i); destruct (Nat.eqb_spec i c); subst; try lia.
  - rewrite nth_upd_out by auto. destruct (Nat.eqb_spec i c); lia.
Qed.

Lemma length_incr : forall l i, length (incr l i) = length l.
Proof. intros. apply length_upd. Qed.

Lemma fold_incr : forall cs acc c, c < length acc ->
  length (fold_left incr cs acc) = length acc /\
  nth c (fold_left incr cs acc) 0 = nth c acc 0 + cnt_in c cs.
Proof.
  induction cs; simpl; intros. split; auto.
  destruct (IHcs (incr acc a) c) as [H1 H2]. rewrite length_incr; auto.
  rewrite length_incr in H1. split; auto.
  rewrite H2, nth_incr by auto. lia.
Qed.

Lemma fold_incr_len : forall cs acc, length (fold_left incr cs acc) = length acc.
Proof. induction cs; simpl; intros; auto. rewrite IHcs. apply length_incr. Qed.

Fixpoint suml (f : task -> nat) (l : list task) : nat :=
  match l with [] => 0 | t :: r => f t + suml f r end.

Lemma fold_tasks : forall (l : list task) acc c, c < length acc ->
  nth c (fold_left (fun acc t => fold_left incr (children t) acc) l acc) 0
  = nth c acc 0 + suml (fun t => cnt_in c (children t)) l.
Proof.
  induction l; simpl; intros. lia.
  rewrite IHl by (rewrite fold_incr_len; auto).
  destruct (fold_incr (children a) acc c H) as [_ H2]. rewrite H2. lia.
Qed.

Lemma suml_app : forall f (l : list task) x, suml f (l ++ [x]) = suml f l + f x.
Proof. induction l; simpl; intros. lia. rewrite IHl. lia. Qed.

Lemma sumn_suml : forall f (l : list task) d,
  sumn (fun p => f (nth p l d)) (length l) = suml f l.
Proof.
  intros f l d. induction l using rev_ind; simpl; auto.
  rewrite app_length. simpl. rewrite Nat.add_1_r. simpl.
  rewrite app_nth2, Nat.sub_diag by lia. simpl.
  rewrite (sumn_ext _ (fun p => f (nth p l d))).
  - rewrite IHl, suml_app. reflexivity.
  - intros. rewrite app_nth1; auto.
Qed.

Lemma nth_repeat0 : forall n c, nth c (repeat 0 n) 0 = 0.
Proof. induction n; destruct c; simpl; auto. Qed.

Lemma indeg_list_spec : forall g c, c < length g -> nth c (indeg_list g) 0 = indeg g c.
Proof.
  intros. unfold indeg_list, indeg. rewrite fold_tasks by (rewrite repeat_length; auto).
  rewrite nth_repeat0. unfold tk. rewrite (sumn_suml (fun t => cnt_in c (children t))). lia.
Qed.

Lemma list_eqb_nth : forall a b, list_eqb a b = true -> forall c, nth c a 0 = nth c b 0.
Proof.
  induction a; destruct b; simpl; intros; try discriminate; auto.
  apply andb_true_iff in H. destruct H. apply Nat.eqb_eq in H. subst.
  destruct c; auto.
Qed.

Lemma tk_In : forall g t, t < length g -> In (tk g t) g.
Proof. intros. apply nth_In; auto. Qed.

Theorem wf_check_sound : forall g, wf_check g = true -> wf g.
Proof.
  intros g H. unfold wf_check in H. apply andb_true_iff in H. destruct H as [Ht Hc].
  rewrite forallb_forall in Ht.
  assert (T : forall t, t < length g -> task_ok g (tk g t) = true) by (intros; apply Ht, tk_In; auto).
  assert (E : forall t, t < length g ->
     (forall c, In c (children (tk g t)) -> c < length g /\ rank_of (kind (tk g t)) < rank_of (kind (tk g c)))
     /\ length (children (tk g t)) <= 7 /\ parents0 (tk g t) < 256
     /\ locks_distinctb (tk g t) = true
     /\ (forall x, In x (touches (tk g t)) -> In x (locks (tk g t)))).
  { intros t Hl. specialize (T t Hl). unfold task_ok in T.
    repeat (apply andb_true_iff in T; destruct T as [T ?]).
    rewrite forallb_forall in T. repeat split; auto.
    - apply T in H3. apply andb_true_iff in H3. destruct H3. apply Nat.ltb_lt; auto.
    - apply T in H3. apply andb_true_iff in H3. destruct H3. apply Nat.ltb_lt; auto.
    - apply Nat.leb_le; auto.
    - apply Nat.ltb_lt; auto.
    - intros. rewrite forallb_forall in H. apply memb_In. auto. }
  constructor.
  - intros p c Hp Hi. destruct (E p Hp) as [E1 _]. apply E1; auto.
  - intros. rewrite <- indeg_list_spec by auto. rewrite (list_eqb_nth _ _ Hc).
    unfold tk. rewrite <- (map_nth parents0 g dtask c). reflexivity.
  - intros c Hc'. destruct (E c Hc') as [_ [_ [E3 _]]]; auto.
  - exists (fun t => rank_of (kind (tk g t))). intros p c Hp Hi. destruct (E p Hp) as [E1 _]. apply E1; auto.
  - intros. destruct (E t H) as [_ [_ [_ [D _]]]]. unfold locks_distinctb in D.
    rewrite H0, H1 in D. apply negb_true_iff in D. apply Nat.eqb_neq; auto.
  - intros t x Ht' Hx. destruct (E t Ht') as [_ [_ [_ [_ E5]]]]; auto.
  - intros t Ht'. destruct (E t Ht') as [_ [E2 _]]; auto.
Qed.

(* ================================================================== phase ordering *)
(* per subgrid: the tasks of consecutive phases that touch it are linked by DIRECT child edges (what set_dependencies
   does), and every phase 0..5 has a task touching it (so the direct edges chain up to an order between any two phases) *)
Record phases_ordered (g : graph) : Prop := {
  po_next : forall s t1 t2, t1 < length g -> t2 < length g ->
            In s (touches (tk g t1)) -> In s (touches (tk g t2)) -> rk g t2 = S (rk g t1) ->
            In t2 (children (tk g t1));
  po_chain : forall s t k, t < length g -> In s (touches (tk g t)) -> k <= 5 ->
             exists t', t' < length g /\ In s (touches (tk g t')) /\ rk g t' = k
}.

Lemma first_some_None : forall A B (f : A -> option B) l, first_some f l = None -> forall x, In x l -> f x = None.
Proof.
  induction l; simpl; intros H x Hx. tauto.
  destruct (f a) eqn:E; try discriminate. destruct Hx; subst; auto.
Qed.

Lemma In_itasks_gen : forall (g : graph) a t, t < length g -> In (a + t, nth t g dtask) (combine (seq a (length g)) g).
Proof.
  induction g; simpl; intros. lia.
  destruct t. left. f_equal. lia.
  right. replace (a0 + S t) with (S a0 + t) by lia. apply IHg. lia.
Qed.

Lemma In_itasks : forall g t, t < length g -> In (t, tk g t) (itasks g).
Proof. intros. unfold itasks, tk. apply (In_itasks_gen g 0 t H). Qed.

Lemma In_touching : forall g s t, t < length g -> In s (touches (tk g t)) -> In (t, tk g t) (touching g s).
Proof.
  intros. unfold touching. apply filter_In. split. apply In_itasks; auto. cbn [snd]. apply memb_In; auto.
Qed.

Lemma touching_inv : forall g s p, In p (touching g s) ->
  fst p < length g /\ snd p = tk g (fst p) /\ In s (touches (snd p)).
Proof.
  unfold touching, itasks. intros g s [t x] H. apply filter_In in H. destruct H as [H1 H2]. cbn [fst snd] in *.
  apply memb_In in H2.
  assert (G : forall (l : list task) a, In (t, x) (combine (seq a (length l)) l) -> a <= t < a + length l /\ x = nth (t - a) l dtask).
  { induction l; simpl; intros. tauto. destruct H as [H|H].
    - inversion H; subst. split. lia. rewrite Nat.sub_diag. reflexivity.
    - apply IHl in H. destruct H as [A B]. split. lia. rewrite B.
      replace (t - a0) with (S (t - S a0)) by lia. reflexivity. }
  apply G in H1. destruct H1 as [A B]. rewrite Nat.sub_0_r in B. unfold tk. repeat split; auto. lia.
Qed.

Lemma le_smax : forall g t s, t < length g -> In s (touches (tk g t)) -> s <= smax g.
Proof.
  intros. unfold smax.
  assert (F : Forall (fun k => k <= list_max (flat_map touches g)) (flat_map touches g)) by (apply list_max_le; lia).
  rewrite Forall_forall in F. apply F. apply in_flat_map. exists (tk g t). split; auto. apply tk_In; auto.
Qed.

Theorem phases_ordered_check_sound : forall g, phases_ordered_check g = true -> phases_ordered g.
Proof.
  intros g H. unfold phases_ordered_check in H. destruct (phases_ordered_find g) eqn:E; [discriminate|].
  unfold phases_ordered_find in E.
  assert (P : forall s, s <= smax g -> bad_next (touching g s) = None /\ bad_chain (touching g s) = None).
  { intros s Hs. pose proof (first_some_None _ _ _ _ E s) as Q. cbv beta zeta in Q.
    assert (I : In s (seq 0 (S (smax g)))) by (apply in_seq; lia). specialize (Q I).
    destruct (bad_next (touching g s)) as [[a b]|]; [discriminate|].
    destruct (bad_chain (touching g s)) as [[a b]|]; [discriminate|]. auto. }
  constructor.
  - intros s t1 t2 H1 H2 T1 T2 R.
    destruct (P s (le_smax g t1 s H1 T1)) as [B _]. unfold bad_next in B.
    pose proof (first_some_None _ _ _ _ B _ (In_touching g s t1 H1 T1)) as B1. cbv beta in B1.
    pose proof (first_some_None _ _ _ _ B1 _ (In_touching g s t2 H2 T2)) as B2. cbv beta in B2.
    unfold trank in B2. cbn [fst snd] in B2. unfold rk in R. rewrite R, Nat.eqb_refl in B2.
    destruct (memb t2 (children (tk g t1))) eqn:M; [|discriminate]. apply memb_In; auto.
  - intros s t k Ht T Hk.
    destruct (P s (le_smax g t s Ht T)) as [_ C]. unfold bad_chain in C.
    pose proof (In_touching g s t Ht T) as I.
    destruct (touching g s) as [|p L] eqn:EL. destruct I.
    assert (Ik : In k (seq 0 6)) by (apply in_seq; lia).
    pose proof (first_some_None _ _ _ _ C k Ik) as C1. cbv beta in C1.
    destruct (existsb (fun q => trank q =? k) (p :: L)) eqn:X; [|discriminate].
    apply existsb_exists in X. destruct X as [q [Q1 Q2]]. rewrite <- EL in Q1.
    apply touching_inv in Q1. destruct Q1 as [A [B D]]. apply Nat.eqb_eq in Q2.
    exists (fst q). unfold trank in Q2. rewrite B in Q2, D. auto.
Qed.
