(* C04 / C10 shared model, proofs about the discrete part (Cxx/C04_Defs.v): every face of the global cell grid is
   visited exactly once by the hydro sweeps.

   Main results (all for arbitrary sizes and all 8 periodicity combinations):
     faces_once_check_sound          the executable checker faces_once_check implies Permutation with canonical_faces
     faces_once                      wf_layout L -> Permutation (global_faces L) (canonical_faces L)
     canonical_faces_NoDup           the canonical face list has no duplicates
     canonical_faces_spec_interior   In (Interior a l r) (canonical_faces L) <-> coordinates description
     canonical_faces_spec_boundary   In (Boundary a sgn c) (canonical_faces L) <-> coordinates description
     canonical_faces_cells_in_range  all cell ids in canonical faces lie in [0, NX*NY*NZ)
     canonical_periodic_no_boundary  a fully periodic box has no boundary faces
     gid_range / gid_inj / gid_surj  gid is a bijection from valid (subgrid, cell index) pairs onto [0, NX*NY*NZ)
     check_*                         faces_once_check evaluated on concrete layouts

   Proof structure for faces_once: faces are lifted to coordinate level (cface: axis/side + global coordinates of
   the cell, toface maps back through gid3).  sweep_c mirrors global_visits loop for loop and
   global_faces L = map (toface L) (sweep_c L) as a list equality (sweep_eq; the arithmetic is gid_enc: div/mod
   decoding of subgrid and cell indices).  canonical_faces L = map (toface L) (canon_c L) likewise (canonical_eq).
   Both coordinate lists are duplicate free and have the same members (each is "the cell faces cell_c of every
   cell of the box", in_sub_c_fwd/in_sub_c_bwd, in_canon_c), hence are permutations of each other
   (NoDup_Permutation), and Permutation_map transports this to faces. *)
From Coq Require Import ZArith List Lia Permutation Bool Sorting.Mergesort.
From CMI Require Import Cxx.C04_Defs.
Import ListNotations.
Local Open Scope Z_scope.

(* ---------- generic list lemmas ---------- *)
Lemma in_range : forall n x, In x (range n) <-> 0 <= x < n.
Proof.
  intros n x. unfold range. rewrite in_map_iff. split.
  - intros (k & Hk & Hin). apply in_seq in Hin. lia.
  - intros H. exists (Z.to_nat x). split; [lia|]. apply in_seq. lia.
Qed.

Lemma NoDup_map_in : forall (A B : Type) (f : A -> B) (l : list A),
  (forall x y, In x l -> In y l -> f x = f y -> x = y) -> NoDup l -> NoDup (map f l).
Proof.
  intros A B f l. induction l as [|a l IH]; intros Hinj Hnd; simpl.
  - constructor.
  - inversion Hnd as [|? ? Hnin Hnd']; subst. constructor.
    + rewrite in_map_iff. intros (y & Hy & Hin).
      assert (y = a) by (apply Hinj; [right; exact Hin|left; reflexivity|exact Hy]).
      subst. contradiction.
    + apply IH; [|exact Hnd']. intros x y Hx Hy. apply Hinj; right; assumption.
Qed.

Lemma NoDup_range : forall n, NoDup (range n).
Proof.
  intros n. unfold range. apply NoDup_map_in; [|apply seq_NoDup].
  intros x y _ _ H. lia.
Qed.

Lemma NoDup_app_intro : forall (A : Type) (l1 l2 : list A),
  NoDup l1 -> NoDup l2 -> (forall x, In x l1 -> In x l2 -> False) -> NoDup (l1 ++ l2).
Proof.
  intros A l1 l2 H1 H2 Hd. induction l1 as [|a l1 IH]; simpl; [exact H2|].
  inversion H1 as [|? ? Hnin H1']; subst. constructor.
  - rewrite in_app_iff. intros [H|H]; [contradiction|]. apply (Hd a); [left; reflexivity|exact H].
  - apply IH; [exact H1'|]. intros x Hx. apply Hd. right; exact Hx.
Qed.

Lemma NoDup_flat_map_in : forall (A B : Type) (f : A -> list B) (l : list A),
  NoDup l -> (forall a, In a l -> NoDup (f a)) ->
  (forall a b x, In a l -> In b l -> In x (f a) -> In x (f b) -> a = b) ->
  NoDup (flat_map f l).
Proof.
  intros A B f l. induction l as [|a l IH]; intros Hnd Hf Hd; simpl.
  - constructor.
  - inversion Hnd as [|? ? Hnin Hnd']; subst. apply NoDup_app_intro.
    + apply Hf. left; reflexivity.
    + apply IH; [exact Hnd'| |].
      * intros b Hb. apply Hf. right; exact Hb.
      * intros b c x Hb Hc. apply Hd; right; assumption.
    + intros x Hx Hx'. apply in_flat_map in Hx'. destruct Hx' as (b & Hb & Hxb).
      assert (a = b) by (apply (Hd a b x); [left; reflexivity|right; exact Hb|exact Hx|exact Hxb]).
      subst. contradiction.
Qed.

Lemma flat_map_ext_in : forall (A B : Type) (f g : A -> list B) (l : list A),
  (forall a, In a l -> f a = g a) -> flat_map f l = flat_map g l.
Proof.
  intros A B f g l. induction l as [|a l IH]; intros H; simpl; [reflexivity|].
  rewrite (H a (or_introl eq_refl)). rewrite IH; [reflexivity|].
  intros b Hb. apply H. right; exact Hb.
Qed.

Lemma map_flat_map' : forall (A B C : Type) (g : B -> C) (f : A -> list B) (l : list A),
  map g (flat_map f l) = flat_map (fun a => map g (f a)) l.
Proof.
  intros A B C g f l. induction l as [|a l IH]; simpl; [reflexivity|].
  rewrite map_app, IH. reflexivity.
Qed.

Lemma concat_flat_map : forall (A B : Type) (f : A -> list (list B)) (l : list A),
  concat (flat_map f l) = flat_map (fun a => concat (f a)) l.
Proof.
  intros A B f l. induction l as [|a l IH]; simpl; [reflexivity|].
  rewrite concat_app, IH. reflexivity.
Qed.

(* ---------- the loop combinators ---------- *)
Definition floop3 {A} (n1 n2 n3 : Z) (f : Z -> Z -> Z -> list A) : list A :=
  flat_map (fun a => flat_map (fun b => flat_map (fun c => f a b c) (range n3)) (range n2)) (range n1).

Lemma in_floop3 : forall (A : Type) n1 n2 n3 (f : Z -> Z -> Z -> list A) x,
  In x (floop3 n1 n2 n3 f) <->
  exists a b c, 0 <= a < n1 /\ 0 <= b < n2 /\ 0 <= c < n3 /\ In x (f a b c).
Proof.
  intros A n1 n2 n3 f x. unfold floop3. split.
  - intros H. apply in_flat_map in H. destruct H as (a & Ha & H).
    apply in_flat_map in H. destruct H as (b & Hb & H).
    apply in_flat_map in H. destruct H as (c & Hc & H).
    apply in_range in Ha, Hb, Hc. exists a, b, c. auto.
  - intros (a & b & c & Ha & Hb & Hc & H).
    apply in_flat_map. exists a. split; [apply in_range; exact Ha|].
    apply in_flat_map. exists b. split; [apply in_range; exact Hb|].
    apply in_flat_map. exists c. split; [apply in_range; exact Hc|exact H].
Qed.

Lemma NoDup_floop3 : forall (A : Type) n1 n2 n3 (f : Z -> Z -> Z -> list A),
  (forall a b c, 0 <= a < n1 -> 0 <= b < n2 -> 0 <= c < n3 -> NoDup (f a b c)) ->
  (forall a b c a' b' c' x, 0 <= a < n1 -> 0 <= b < n2 -> 0 <= c < n3 ->
     0 <= a' < n1 -> 0 <= b' < n2 -> 0 <= c' < n3 ->
     In x (f a b c) -> In x (f a' b' c') -> a = a' /\ b = b' /\ c = c') ->
  NoDup (floop3 n1 n2 n3 f).
Proof.
  intros A n1 n2 n3 f Hnd Hd. unfold floop3.
  apply NoDup_flat_map_in; [apply NoDup_range| |].
  - intros a Ha. apply in_range in Ha.
    apply NoDup_flat_map_in; [apply NoDup_range| |].
    + intros b Hb. apply in_range in Hb.
      apply NoDup_flat_map_in; [apply NoDup_range| |].
      * intros c Hc. apply in_range in Hc. apply Hnd; assumption.
      * intros c c' x Hc Hc' Hx Hx'. apply in_range in Hc, Hc'.
        destruct (Hd a b c a b c' x) as (_ & _ & ?); assumption.
    + intros b b' x Hb Hb' Hx Hx'. apply in_range in Hb, Hb'.
      apply in_flat_map in Hx, Hx'. destruct Hx as (c & Hc & Hx). destruct Hx' as (c' & Hc' & Hx').
      apply in_range in Hc, Hc'.
      destruct (Hd a b c a b' c' x) as (_ & ? & _); assumption.
  - intros a a' x Ha Ha' Hx Hx'. apply in_range in Ha, Ha'.
    apply in_flat_map in Hx, Hx'. destruct Hx as (b & Hb & Hx). destruct Hx' as (b' & Hb' & Hx').
    apply in_flat_map in Hx, Hx'. destruct Hx as (c & Hc & Hx). destruct Hx' as (c' & Hc' & Hx').
    apply in_range in Hb, Hb', Hc, Hc'.
    destruct (Hd a b c a' b' c' x) as (? & _ & _); assumption.
Qed.

Lemma flat_map_single : forall (A B : Type) (g : A -> B) (l : list A),
  flat_map (fun c => [g c]) l = map g l.
Proof. intros A B g l. induction l as [|a l IH]; simpl; [reflexivity|]. rewrite IH. reflexivity. Qed.

Lemma loop3_floop3 : forall (A : Type) n1 n2 n3 (g : Z -> Z -> Z -> A),
  loop3 n1 n2 n3 g = floop3 n1 n2 n3 (fun a b c => [g a b c]).
Proof.
  intros A n1 n2 n3 g. unfold loop3, floop3.
  apply flat_map_ext. intros a. apply flat_map_ext. intros b.
  symmetry. apply flat_map_single.
Qed.

Lemma concat_loop3 : forall (A : Type) n1 n2 n3 (g : Z -> Z -> Z -> list A),
  concat (loop3 n1 n2 n3 g) = floop3 n1 n2 n3 g.
Proof.
  intros A n1 n2 n3 g. unfold loop3, floop3. rewrite concat_flat_map.
  apply flat_map_ext. intros a. rewrite concat_flat_map.
  apply flat_map_ext. intros b. symmetry. apply flat_map_concat_map.
Qed.

Lemma in_loop3 : forall (A : Type) n1 n2 n3 (g : Z -> Z -> Z -> A) x,
  In x (loop3 n1 n2 n3 g) <->
  exists a b c, 0 <= a < n1 /\ 0 <= b < n2 /\ 0 <= c < n3 /\ x = g a b c.
Proof.
  intros A n1 n2 n3 g x. rewrite loop3_floop3, in_floop3. split.
  - intros (a & b & c & Ha & Hb & Hc & [H|[]]). exists a, b, c. auto.
  - intros (a & b & c & Ha & Hb & Hc & H). exists a, b, c. subst. simpl. auto.
Qed.

Lemma NoDup_loop3 : forall (A : Type) n1 n2 n3 (g : Z -> Z -> Z -> A),
  (forall a b c a' b' c', 0 <= a < n1 -> 0 <= b < n2 -> 0 <= c < n3 ->
     0 <= a' < n1 -> 0 <= b' < n2 -> 0 <= c' < n3 ->
     g a b c = g a' b' c' -> a = a' /\ b = b' /\ c = c') ->
  NoDup (loop3 n1 n2 n3 g).
Proof.
  intros A n1 n2 n3 g H. rewrite loop3_floop3. apply NoDup_floop3.
  - intros. constructor; [intros []|constructor].
  - intros a b c a' b' c' x Ha Hb Hc Ha' Hb' Hc' [Hx|[]] [Hx'|[]]. apply H; congruence.
Qed.

Lemma in_loop2 : forall (A : Type) n1 n2 (g : Z -> Z -> A) x,
  In x (loop2 n1 n2 g) <-> exists a b, 0 <= a < n1 /\ 0 <= b < n2 /\ x = g a b.
Proof.
  intros A n1 n2 g x. unfold loop2. rewrite in_flat_map. split.
  - intros (a & Ha & H). apply in_map_iff in H. destruct H as (b & Hb & Hin).
    apply in_range in Ha, Hin. exists a, b. auto.
  - intros (a & b & Ha & Hb & H). exists a. split; [apply in_range; exact Ha|].
    apply in_map_iff. exists b. split; [auto|apply in_range; exact Hb].
Qed.

Lemma NoDup_loop2 : forall (A : Type) n1 n2 (g : Z -> Z -> A),
  (forall a b a' b', 0 <= a < n1 -> 0 <= b < n2 -> 0 <= a' < n1 -> 0 <= b' < n2 ->
     g a b = g a' b' -> a = a' /\ b = b') ->
  NoDup (loop2 n1 n2 g).
Proof.
  intros A n1 n2 g H. unfold loop2. apply NoDup_flat_map_in; [apply NoDup_range| |].
  - intros a Ha. apply in_range in Ha. apply NoDup_map_in; [|apply NoDup_range].
    intros b b' Hb Hb' E. apply in_range in Hb, Hb'. destruct (H a b a b') as (_ & ?); assumption.
  - intros a a' x Ha Ha' Hx Hx'. apply in_range in Ha, Ha'.
    apply in_map_iff in Hx, Hx'. destruct Hx as (b & Hb & Hin). destruct Hx' as (b' & Hb' & Hin').
    apply in_range in Hin, Hin'. destruct (H a b a' b') as (? & _); congruence.
Qed.

Lemma map_loop2 : forall (A B : Type) (h : A -> B) n1 n2 (g : Z -> Z -> A),
  map h (loop2 n1 n2 g) = loop2 n1 n2 (fun a b => h (g a b)).
Proof.
  intros A B h n1 n2 g. unfold loop2. rewrite map_flat_map'.
  apply flat_map_ext. intros a. apply map_map.
Qed.

Lemma map_loop3 : forall (A B : Type) (h : A -> B) n1 n2 n3 (g : Z -> Z -> Z -> A),
  map h (loop3 n1 n2 n3 g) = loop3 n1 n2 n3 (fun a b c => h (g a b c)).
Proof.
  intros A B h n1 n2 n3 g. unfold loop3. rewrite map_flat_map'.
  apply flat_map_ext. intros a. rewrite map_flat_map'.
  apply flat_map_ext. intros b. apply map_map.
Qed.

Lemma loop2_ext_in : forall (A : Type) n1 n2 (f g : Z -> Z -> A),
  (forall a b, 0 <= a < n1 -> 0 <= b < n2 -> f a b = g a b) -> loop2 n1 n2 f = loop2 n1 n2 g.
Proof.
  intros A n1 n2 f g H. unfold loop2. apply flat_map_ext_in. intros a Ha. apply in_range in Ha.
  apply map_ext_in. intros b Hb. apply in_range in Hb. apply H; assumption.
Qed.

Lemma loop3_ext_in : forall (A : Type) n1 n2 n3 (f g : Z -> Z -> Z -> A),
  (forall a b c, 0 <= a < n1 -> 0 <= b < n2 -> 0 <= c < n3 -> f a b c = g a b c) ->
  loop3 n1 n2 n3 f = loop3 n1 n2 n3 g.
Proof.
  intros A n1 n2 n3 f g H. unfold loop3. apply flat_map_ext_in. intros a Ha. apply in_range in Ha.
  apply flat_map_ext_in. intros b Hb. apply in_range in Hb.
  apply map_ext_in. intros c Hc. apply in_range in Hc. apply H; assumption.
Qed.

(* ---------- block arithmetic ---------- *)
Lemma blk_range : forall s n g i, 0 <= g < s -> 0 <= i < n -> 0 <= g * n + i < s * n.
Proof.
  intros s n g i Hg Hi.
  assert (0 <= g * n) by (apply Z.mul_nonneg_nonneg; lia).
  assert (g * n <= (s - 1) * n) by (apply Z.mul_le_mono_nonneg_r; lia).
  lia.
Qed.

Lemma blk_unique : forall n a b i j, 0 <= i < n -> 0 <= j < n -> a * n + i = b * n + j -> a = b /\ i = j.
Proof.
  intros n a b i j Hi Hj E.
  destruct (Z.lt_trichotomy a b) as [H|[H|H]].
  - assert ((a + 1) * n <= b * n) by (apply Z.mul_le_mono_nonneg_r; lia). lia.
  - subst. lia.
  - assert ((b + 1) * n <= a * n) by (apply Z.mul_le_mono_nonneg_r; lia). lia.
Qed.

Lemma blk_decomp : forall s n X, 0 < n -> 0 <= X < s * n ->
  exists g i, 0 <= g < s /\ 0 <= i < n /\ X = g * n + i.
Proof.
  intros s n X Hn HX. exists (X / n), (X mod n).
  pose proof (Z.div_mod X n ltac:(lia)). pose proof (Z.mod_pos_bound X n Hn).
  assert (0 <= X / n) by (apply Z.div_pos; lia).
  assert (X / n < s) by (apply Z.div_lt_upper_bound; lia).
  lia.
Qed.

Lemma dec3 : forall A B a b c, 0 <= b < A -> 0 <= c < B ->
  (a * (A * B) + b * B + c) / (A * B) = a /\
  ((a * (A * B) + b * B + c) / B) mod A = b /\
  (a * (A * B) + b * B + c) mod B = c.
Proof.
  intros A B a b c Hb Hc.
  assert (Hr : 0 <= b * B + c < A * B) by nia.
  split; [|split].
  - symmetry. apply Z.div_unique with (r := b * B + c); [left; exact Hr|ring].
  - assert (E : (a * (A * B) + b * B + c) / B = a * A + b).
    { symmetry. apply Z.div_unique with (r := c); [left; exact Hc|ring]. }
    rewrite E. symmetry. apply Z.mod_unique with (q := a); [left; exact Hb|ring].
  - symmetry. apply Z.mod_unique with (q := a * A + b); [left; exact Hc|ring].
Qed.

(* ---------- coordinate-level faces ---------- *)
Inductive cface := CI (a X Y W : Z) | CB (a s X Y W : Z).

Definition wrap (n u : Z) : Z := if u <? n then u else 0.

Definition toface (L : layout) (q : cface) : face :=
  match q with
  | CI a X Y W =>
      Interior a (gid3 L X Y W)
        (if a =? 0 then gid3 L (wrap (NX L) (X + 1)) Y W
         else if a =? 1 then gid3 L X (wrap (NY L) (Y + 1)) W
         else gid3 L X Y (wrap (NZ L) (W + 1)))
  | CB a s X Y W => Boundary a s (gid3 L X Y W)
  end.

Definition cfaces_of_cell (a : Z) (per : bool) (n u X Y W : Z) : list cface :=
  (if u + 1 <? n then [CI a X Y W] else if per then [CI a X Y W] else [CB a 1 X Y W])
  ++ (if (u =? 0) && negb per then [CB a (-1) X Y W] else []).

Definition canon_c (L : layout) : list cface :=
  floop3 (NX L) (NY L) (NZ L) (fun X Y W => cfaces_of_cell 0 (px L) (NX L) X X Y W)
  ++ floop3 (NX L) (NY L) (NZ L) (fun X Y W => cfaces_of_cell 1 (py L) (NY L) Y X Y W)
  ++ floop3 (NX L) (NY L) (NZ L) (fun X Y W => cfaces_of_cell 2 (pz L) (NZ L) W X Y W).

Lemma wrap_lt : forall n u, u < n -> wrap n u = u.
Proof. intros n u H. unfold wrap. destruct (Z.ltb_spec u n); [reflexivity|lia]. Qed.
Lemma wrap_ge : forall n u, n <= u -> wrap n u = 0.
Proof. intros n u H. unfold wrap. destruct (Z.ltb_spec u n); [lia|reflexivity]. Qed.

Lemma faces_of_cell_0 : forall L per X Y W,
  faces_of_cell 0 per (NX L) X (gid3 L X Y W) (gid3 L (X + 1) Y W) (gid3 L 0 Y W)
  = map (toface L) (cfaces_of_cell 0 per (NX L) X X Y W).
Proof.
  intros. unfold faces_of_cell, cfaces_of_cell. rewrite map_app.
  destruct (X + 1 <? NX L) eqn:E; destruct per; destruct (X =? 0);
    cbn [map app toface Z.eqb Pos.eqb andb negb]; unfold wrap; rewrite ?E; reflexivity.
Qed.
Lemma faces_of_cell_1 : forall L per X Y W,
  faces_of_cell 1 per (NY L) Y (gid3 L X Y W) (gid3 L X (Y + 1) W) (gid3 L X 0 W)
  = map (toface L) (cfaces_of_cell 1 per (NY L) Y X Y W).
Proof.
  intros. unfold faces_of_cell, cfaces_of_cell. rewrite map_app.
  destruct (Y + 1 <? NY L) eqn:E; destruct per; destruct (Y =? 0);
    cbn [map app toface Z.eqb Pos.eqb andb negb]; unfold wrap; rewrite ?E; reflexivity.
Qed.
Lemma faces_of_cell_2 : forall L per X Y W,
  faces_of_cell 2 per (NZ L) W (gid3 L X Y W) (gid3 L X Y (W + 1)) (gid3 L X Y 0)
  = map (toface L) (cfaces_of_cell 2 per (NZ L) W X Y W).
Proof.
  intros. unfold faces_of_cell, cfaces_of_cell. rewrite map_app.
  destruct (W + 1 <? NZ L) eqn:E; destruct per; destruct (W =? 0);
    cbn [map app toface Z.eqb Pos.eqb andb negb]; unfold wrap; rewrite ?E; reflexivity.
Qed.

Lemma map_floop3 : forall (A B : Type) (h : A -> B) n1 n2 n3 (f : Z -> Z -> Z -> list A),
  map h (floop3 n1 n2 n3 f) = floop3 n1 n2 n3 (fun a b c => map h (f a b c)).
Proof.
  intros. unfold floop3. rewrite map_flat_map'.
  apply flat_map_ext. intros a. rewrite map_flat_map'.
  apply flat_map_ext. intros b. apply map_flat_map'.
Qed.

Lemma floop3_ext_in : forall (A : Type) n1 n2 n3 (f g : Z -> Z -> Z -> list A),
  (forall a b c, 0 <= a < n1 -> 0 <= b < n2 -> 0 <= c < n3 -> f a b c = g a b c) ->
  floop3 n1 n2 n3 f = floop3 n1 n2 n3 g.
Proof.
  intros A n1 n2 n3 f g H. unfold floop3. apply flat_map_ext_in. intros a Ha. apply in_range in Ha.
  apply flat_map_ext_in. intros b Hb. apply in_range in Hb.
  apply flat_map_ext_in. intros c Hc. apply in_range in Hc. apply H; assumption.
Qed.

Lemma canonical_eq : forall L, canonical_faces L = map (toface L) (canon_c L).
Proof.
  intros L. unfold canonical_faces, canon_c.
  rewrite !map_app, !concat_loop3, !map_floop3.
  f_equal; [|f_equal]; apply floop3_ext_in; intros X Y W _ _ _.
  - apply faces_of_cell_0.
  - apply faces_of_cell_1.
  - apply faces_of_cell_2.
Qed.

(* ---------- the sweeps at coordinate level ---------- *)
Definition cx (L : layout) (g i : Z) : Z := g * nx L + i.
Definition cy (L : layout) (g i : Z) : Z := g * ny L + i.
Definition cz (L : layout) (g i : Z) : Z := g * nz L + i.

Definition axis_gen (s : Z) (per : bool) (g m1 m2 : Z) (fI fP fN : Z -> Z -> cface) : list cface :=
  (match ngb_p s per g with Some _ => loop2 m1 m2 fI | None => loop2 m1 m2 fP end)
  ++ (if has_ngb_n per g then [] else loop2 m1 m2 fN).

Definition inner_c (L : layout) (gx gy gz : Z) : list cface :=
  loop3 (nx L - 1) (ny L) (nz L) (fun ix iy iz => CI 0 (cx L gx ix) (cy L gy iy) (cz L gz iz))
  ++ loop3 (nx L) (ny L - 1) (nz L) (fun ix iy iz => CI 1 (cx L gx ix) (cy L gy iy) (cz L gz iz))
  ++ loop3 (nx L) (ny L) (nz L - 1) (fun ix iy iz => CI 2 (cx L gx ix) (cy L gy iy) (cz L gz iz)).

Definition axis0_c (L : layout) (gx gy gz : Z) : list cface :=
  axis_gen (sx L) (px L) gx (ny L) (nz L)
    (fun ic ir => CI 0 (cx L gx (nx L - 1)) (cy L gy ic) (cz L gz ir))
    (fun ic ir => CB 0 1 (cx L gx (nx L - 1)) (cy L gy ic) (cz L gz ir))
    (fun ic ir => CB 0 (-1) (cx L gx 0) (cy L gy ic) (cz L gz ir)).
Definition axis1_c (L : layout) (gx gy gz : Z) : list cface :=
  axis_gen (sy L) (py L) gy (nx L) (nz L)
    (fun ic ir => CI 1 (cx L gx ic) (cy L gy (ny L - 1)) (cz L gz ir))
    (fun ic ir => CB 1 1 (cx L gx ic) (cy L gy (ny L - 1)) (cz L gz ir))
    (fun ic ir => CB 1 (-1) (cx L gx ic) (cy L gy 0) (cz L gz ir)).
Definition axis2_c (L : layout) (gx gy gz : Z) : list cface :=
  axis_gen (sz L) (pz L) gz (nx L) (ny L)
    (fun ic ir => CI 2 (cx L gx ic) (cy L gy ir) (cz L gz (nz L - 1)))
    (fun ic ir => CB 2 1 (cx L gx ic) (cy L gy ir) (cz L gz (nz L - 1)))
    (fun ic ir => CB 2 (-1) (cx L gx ic) (cy L gy ir) (cz L gz 0)).

Definition sub_c (L : layout) (gx gy gz : Z) : list cface :=
  inner_c L gx gy gz ++ axis0_c L gx gy gz ++ axis1_c L gx gy gz ++ axis2_c L gx gy gz.

Definition sweep_c (L : layout) : list cface := floop3 (sx L) (sy L) (sz L) (sub_c L).

(* ---------- correspondence global_faces = map toface sweep_c ---------- *)
Lemma gid_enc : forall L gx gy gz ix iy iz s idx,
  0 <= gy < sy L -> 0 <= gz < sz L -> 0 <= iy < ny L -> 0 <= iz < nz L ->
  s = senc L gx gy gz -> idx = ix * (ny L * nz L) + iy * nz L + iz ->
  gid L s idx = gid3 L (cx L gx ix) (cy L gy iy) (cz L gz iz).
Proof.
  intros L gx gy gz ix iy iz s idx Hgy Hgz Hiy Hiz Hs Hidx. subst s idx.
  unfold gid, senc. cbv zeta.
  replace (gx * sy L * sz L + gy * sz L + gz) with (gx * (sy L * sz L) + gy * sz L + gz) by ring.
  destruct (dec3 (sy L) (sz L) gx gy gz Hgy Hgz) as (E1 & E2 & E3).
  destruct (dec3 (ny L) (nz L) ix iy iz Hiy Hiz) as (F1 & F2 & F3).
  rewrite E1, E2, E3, F1, F2, F3. reflexivity.
Qed.

Lemma ngb_wrap : forall s n per g t, 0 < n -> 0 <= g < s -> ngb_p s per g = Some t ->
  wrap (s * n) (g * n + (n - 1) + 1) = t * n + 0.
Proof.
  intros s n per g t Hn Hg. unfold ngb_p.
  destruct (Z.ltb_spec (g + 1) s) as [H|H].
  - intros E. injection E as <-. rewrite wrap_lt; [ring|].
    assert ((g + 1) * n <= (s - 1) * n) by (apply Z.mul_le_mono_nonneg_r; lia). lia.
  - destruct per; [|discriminate]. intros E. injection E as <-.
    assert (s = g + 1) by lia. subst s. rewrite wrap_ge; lia.
Qed.

Lemma outer_sweep_0 : forall nx ny nz, outer_sweep nx ny nz 0 =
  loop2 ny nz (fun ic ir => (0, (nx - 1) * (ny * nz) + ic * nz + ir * 1, 0 + ic * nz + ir * 1)).
Proof. reflexivity. Qed.
Lemma outer_sweep_1 : forall nx ny nz, outer_sweep nx ny nz 1 =
  loop2 nx nz (fun ic ir => (1, (ny - 1) * nz + ic * (ny * nz) + ir * 1, 0 + ic * (ny * nz) + ir * 1)).
Proof. reflexivity. Qed.
Lemma outer_sweep_2 : forall nx ny nz, outer_sweep nx ny nz 2 =
  loop2 nx ny (fun ic ir => (2, (nz - 1) + ic * (ny * nz) + ir * nz, 0 + ic * (ny * nz) + ir * nz)).
Proof. reflexivity. Qed.
Lemma ghost_sweep_0 : forall nx ny nz b, ghost_sweep nx ny nz 0 b =
  loop2 ny nz (fun ic ir => (0, (if b then (nx - 1) * (ny * nz) else 0) + ic * nz + ir * 1)).
Proof. reflexivity. Qed.
Lemma ghost_sweep_1 : forall nx ny nz b, ghost_sweep nx ny nz 1 b =
  loop2 nx nz (fun ic ir => (1, (if b then (ny - 1) * nz else 0) + ic * (ny * nz) + ir * 1)).
Proof. reflexivity. Qed.
Lemma ghost_sweep_2 : forall nx ny nz b, ghost_sweep nx ny nz 2 b =
  loop2 nx ny (fun ic ir => (2, (if b then nz - 1 else 0) + ic * (ny * nz) + ir * nz)).
Proof. reflexivity. Qed.

Lemma axis_corr : forall L a s S per g (enc : Z -> Z) m1 m2 (fl fr fl0 : Z -> Z -> Z) fI fP fN,
  outer_sweep (nx L) (ny L) (nz L) a = loop2 m1 m2 (fun ic ir => (a, fl ic ir, fr ic ir)) ->
  ghost_sweep (nx L) (ny L) (nz L) a true = loop2 m1 m2 (fun ic ir => (a, fl ic ir)) ->
  ghost_sweep (nx L) (ny L) (nz L) a false = loop2 m1 m2 (fun ic ir => (a, fl0 ic ir)) ->
  (forall t i j, ngb_p S per g = Some t -> 0 <= i < m1 -> 0 <= j < m2 ->
     Interior a (gid L s (fl i j)) (gid L (enc t) (fr i j)) = toface L (fI i j)) ->
  (forall i j, 0 <= i < m1 -> 0 <= j < m2 -> Boundary a 1 (gid L s (fl i j)) = toface L (fP i j)) ->
  (forall i j, 0 <= i < m1 -> 0 <= j < m2 -> Boundary a (-1) (gid L s (fl0 i j)) = toface L (fN i j)) ->
  map (gface L) (axis_visits L a s (option_map enc (ngb_p S per g)) (has_ngb_n per g))
  = map (toface L) (axis_gen S per g m1 m2 fI fP fN).
Proof.
  intros L a s S per g enc m1 m2 fl fr fl0 fI fP fN Ho Hgp Hgn HI HP HN.
  unfold axis_visits, axis_gen. rewrite Ho, Hgp, Hgn, !map_app. f_equal.
  - destruct (ngb_p S per g) as [t|] eqn:E; cbn [option_map]; rewrite map_map, !map_loop2;
      apply loop2_ext_in; intros i j Hi Hj; cbn [gface].
    + apply HI with (t := t); auto.
    + apply HP; auto.
  - destruct (has_ngb_n per g); [reflexivity|]. rewrite map_map, !map_loop2.
    apply loop2_ext_in; intros i j Hi Hj; cbn [gface]. apply HN; auto.
Qed.

Section Corr.
Variable L : layout.
Hypothesis WF : wf_layout L.
Variables gx gy gz : Z.
Hypothesis Hgx : 0 <= gx < sx L.
Hypothesis Hgy : 0 <= gy < sy L.
Hypothesis Hgz : 0 <= gz < sz L.

Lemma inner_corr :
  map (gface L) (map (fun '(a, l, r) => VPair a (senc L gx gy gz) l (senc L gx gy gz) r)
                     (inner_sweep (nx L) (ny L) (nz L)))
  = map (toface L) (inner_c L gx gy gz).
Proof.
  destruct WF as (Hnx & Hny & Hnz & Hsx & Hsy & Hsz).
  unfold inner_sweep, inner_c. cbv zeta. rewrite map_map, !map_app, !map_loop3.
  f_equal; [|f_equal]; apply loop3_ext_in; intros ix iy iz Hix Hiy Hiz; cbn [gface toface Z.eqb Pos.eqb]; f_equal.
  - apply gid_enc; auto; lia.
  - rewrite wrap_lt.
    + rewrite (gid_enc L gx gy gz (ix + 1) iy iz); auto; try lia. f_equal. unfold cx. ring.
    + pose proof (blk_range (sx L) (nx L) gx (ix + 1) Hgx ltac:(lia)). unfold NX, cx. lia.
  - apply gid_enc; auto; lia.
  - rewrite wrap_lt.
    + rewrite (gid_enc L gx gy gz ix (iy + 1) iz); auto; try lia. f_equal. unfold cy. ring.
    + pose proof (blk_range (sy L) (ny L) gy (iy + 1) Hgy ltac:(lia)). unfold NY, cy. lia.
  - apply gid_enc; auto; lia.
  - rewrite wrap_lt.
    + rewrite (gid_enc L gx gy gz ix iy (iz + 1)); auto; try lia. f_equal. unfold cz. ring.
    + pose proof (blk_range (sz L) (nz L) gz (iz + 1) Hgz ltac:(lia)). unfold NZ, cz. lia.
Qed.

Lemma axis0_corr :
  map (gface L) (axis_visits L 0 (senc L gx gy gz)
       (option_map (fun g => senc L g gy gz) (ngb_p (sx L) (px L) gx)) (has_ngb_n (px L) gx))
  = map (toface L) (axis0_c L gx gy gz).
Proof.
  destruct WF as (Hnx & Hny & Hnz & Hsx & Hsy & Hsz).
  unfold axis0_c.
  apply axis_corr with
    (fl := fun ic ir => (nx L - 1) * (ny L * nz L) + ic * nz L + ir * 1)
    (fr := fun ic ir => 0 + ic * nz L + ir * 1)
    (fl0 := fun ic ir => 0 + ic * nz L + ir * 1).
  - apply outer_sweep_0.
  - apply ghost_sweep_0.
  - apply ghost_sweep_0.
  - intros t i j Ht Hi Hj. cbn [toface Z.eqb]. f_equal.
    + apply gid_enc; auto; lia.
    + rewrite (gid_enc L t gy gz 0 i j); auto; try lia. f_equal.
      unfold cx, NX. symmetry. apply ngb_wrap with (per := px L); auto.
  - intros i j Hi Hj. cbn [toface]. f_equal. apply gid_enc; auto; lia.
  - intros i j Hi Hj. cbn [toface]. f_equal. apply gid_enc; auto; lia.
Qed.

Lemma axis1_corr :
  map (gface L) (axis_visits L 1 (senc L gx gy gz)
       (option_map (fun g => senc L gx g gz) (ngb_p (sy L) (py L) gy)) (has_ngb_n (py L) gy))
  = map (toface L) (axis1_c L gx gy gz).
Proof.
  destruct WF as (Hnx & Hny & Hnz & Hsx & Hsy & Hsz).
  unfold axis1_c.
  apply axis_corr with
    (fl := fun ic ir => (ny L - 1) * nz L + ic * (ny L * nz L) + ir * 1)
    (fr := fun ic ir => 0 + ic * (ny L * nz L) + ir * 1)
    (fl0 := fun ic ir => 0 + ic * (ny L * nz L) + ir * 1).
  - apply outer_sweep_1.
  - apply ghost_sweep_1.
  - apply ghost_sweep_1.
  - intros t i j Ht Hi Hj. cbn [toface Z.eqb Pos.eqb]. f_equal.
    + apply gid_enc; auto; lia.
    + assert (Ht' : 0 <= t < sy L).
      { revert Ht. unfold ngb_p. destruct (Z.ltb_spec (gy + 1) (sy L)); [|destruct (py L)]; intros E; inversion E; lia. }
      rewrite (gid_enc L gx t gz i 0 j); auto; try lia. f_equal.
      unfold cy, NY. symmetry. apply ngb_wrap with (per := py L); auto.
  - intros i j Hi Hj. cbn [toface]. f_equal. apply gid_enc; auto; lia.
  - intros i j Hi Hj. cbn [toface]. f_equal. apply gid_enc; auto; lia.
Qed.

Lemma axis2_corr :
  map (gface L) (axis_visits L 2 (senc L gx gy gz)
       (option_map (fun g => senc L gx gy g) (ngb_p (sz L) (pz L) gz)) (has_ngb_n (pz L) gz))
  = map (toface L) (axis2_c L gx gy gz).
Proof.
  destruct WF as (Hnx & Hny & Hnz & Hsx & Hsy & Hsz).
  unfold axis2_c.
  apply axis_corr with
    (fl := fun ic ir => (nz L - 1) + ic * (ny L * nz L) + ir * nz L)
    (fr := fun ic ir => 0 + ic * (ny L * nz L) + ir * nz L)
    (fl0 := fun ic ir => 0 + ic * (ny L * nz L) + ir * nz L).
  - apply outer_sweep_2.
  - apply ghost_sweep_2.
  - apply ghost_sweep_2.
  - intros t i j Ht Hi Hj. cbn [toface Z.eqb Pos.eqb]. f_equal.
    + apply gid_enc; auto; lia.
    + assert (Ht' : 0 <= t < sz L).
      { revert Ht. unfold ngb_p. destruct (Z.ltb_spec (gz + 1) (sz L)); [|destruct (pz L)]; intros E; inversion E; lia. }
      rewrite (gid_enc L gx gy t i j 0); auto; try lia. f_equal.
      unfold cz, NZ. symmetry. apply ngb_wrap with (per := pz L); auto.
  - intros i j Hi Hj. cbn [toface]. f_equal. apply gid_enc; auto; lia.
  - intros i j Hi Hj. cbn [toface]. f_equal. apply gid_enc; auto; lia.
Qed.

Lemma sub_corr : map (gface L) (subgrid_visits L gx gy gz) = map (toface L) (sub_c L gx gy gz).
Proof.
  unfold subgrid_visits, sub_c. cbv zeta. rewrite !map_app.
  rewrite inner_corr, axis0_corr, axis1_corr, axis2_corr. reflexivity.
Qed.
End Corr.

Lemma sweep_eq : forall L, wf_layout L -> global_faces L = map (toface L) (sweep_c L).
Proof.
  intros L WF. unfold global_faces, sweep_c.
  change (global_visits L) with (floop3 (sx L) (sy L) (sz L) (subgrid_visits L)).
  rewrite !map_floop3. apply floop3_ext_in. intros gx gy gz Hx Hy Hz. apply sub_corr; assumption.
Qed.

(* ---------- membership ---------- *)
Definition qA (q : cface) : Z := match q with CI a _ _ _ => a | CB a _ _ _ _ => a end.
Definition qX (q : cface) : Z := match q with CI _ X _ _ => X | CB _ _ X _ _ => X end.
Definition qY (q : cface) : Z := match q with CI _ _ Y _ => Y | CB _ _ _ Y _ => Y end.
Definition qW (q : cface) : Z := match q with CI _ _ _ W => W | CB _ _ _ _ W => W end.

Lemma in_cfaces_iff : forall a per n u X Y W q,
  In q (cfaces_of_cell a per n u X Y W) <->
  (q = CI a X Y W /\ (u + 1 < n \/ per = true))
  \/ (q = CB a 1 X Y W /\ ~ u + 1 < n /\ per = false)
  \/ (q = CB a (-1) X Y W /\ u = 0 /\ per = false).
Proof.
  intros a per n u X Y W q. unfold cfaces_of_cell. rewrite in_app_iff.
  destruct (Z.ltb_spec (u + 1) n) as [H|H]; destruct per; destruct (Z.eqb_spec u 0) as [H0|H0];
    cbn [andb negb In]; split.
  all: try (intros [[E|[]]|[E|[]]]; subst q).
  all: try (intros [[E|[]]|[]]; subst q).
  all: try solve [left; split; [reflexivity|first [left; lia|right; reflexivity]]].
  all: try solve [right; left; split; [reflexivity|split; [lia|reflexivity]]].
  all: try solve [right; right; split; [reflexivity|split; [lia|reflexivity]]].
  all: intros [(E & C)|[(E & C1 & C2)|(E & C1 & C2)]]; subst q; try discriminate; try lia; auto.
  all: try (destruct C as [C|C]; [lia|discriminate]).
Qed.

Lemma in_cfaces_proj : forall a per n u X Y W q,
  In q (cfaces_of_cell a per n u X Y W) -> qA q = a /\ qX q = X /\ qY q = Y /\ qW q = W.
Proof.
  intros a per n u X Y W q H. apply in_cfaces_iff in H.
  destruct H as [(E & _)|[(E & _)|(E & _)]]; subst q; cbn; auto.
Qed.

Lemma NoDup_cfaces : forall a per n u X Y W, NoDup (cfaces_of_cell a per n u X Y W).
Proof.
  intros. unfold cfaces_of_cell.
  destruct (u + 1 <? n); destruct per; destruct (u =? 0); cbn [andb negb app];
    repeat constructor; cbn [In]; intuition discriminate.
Qed.

Lemma in_axis_gen : forall s per g m1 m2 fI fP fN q, 0 <= g < s ->
  (In q (axis_gen s per g m1 m2 fI fP fN) <->
   exists i j, 0 <= i < m1 /\ 0 <= j < m2 /\
     ((q = fI i j /\ (g + 1 < s \/ per = true))
      \/ (q = fP i j /\ ~ g + 1 < s /\ per = false)
      \/ (q = fN i j /\ g = 0 /\ per = false))).
Proof.
  intros s per g m1 m2 fI fP fN q Hg. unfold axis_gen, ngb_p, has_ngb_n. rewrite in_app_iff.
  destruct (Z.ltb_spec (g + 1) s) as [H|H]; destruct (Z.ltb_spec 0 g) as [H0|H0]; destruct per;
    cbn [orb In]; rewrite ?in_loop2.
  all: split;
    [ intros HH;
      first [ destruct HH as [(i & j & Hi & Hj & E)|(i & j & Hi & Hj & E)]
            | destruct HH as [(i & j & Hi & Hj & E)|[]] ];
      exists i, j; (split; [exact Hi|split; [exact Hj|]]);
      first [ solve [left; split; [exact E|first [left; lia|right; reflexivity]]]
            | solve [right; left; split; [exact E|split; [lia|reflexivity]]]
            | solve [right; right; split; [exact E|split; [lia|reflexivity]]] ]
    | intros (i & j & Hi & Hj & [(E & C)|[(E & C1 & C2)|(E & C1 & C2)]]);
      try discriminate; try lia;
      try (destruct C as [C|C]; [lia|discriminate]);
      first [ solve [left; exists i, j; auto] | solve [right; exists i, j; auto] ] ].
Qed.

Lemma NoDup_axis_gen : forall s per g m1 m2 (fI fP fN : Z -> Z -> cface),
  (forall i j i' j', fI i j = fI i' j' -> i = i' /\ j = j') ->
  (forall i j i' j', fP i j = fP i' j' -> i = i' /\ j = j') ->
  (forall i j i' j', fN i j = fN i' j' -> i = i' /\ j = j') ->
  (forall i j i' j', fI i j <> fN i' j') ->
  (forall i j i' j', fP i j <> fN i' j') ->
  NoDup (axis_gen s per g m1 m2 fI fP fN).
Proof.
  intros s per g m1 m2 fI fP fN HI HP HN HIN HPN. unfold axis_gen.
  apply NoDup_app_intro.
  - destruct (ngb_p s per g); apply NoDup_loop2; intros; auto.
  - destruct (has_ngb_n per g); [constructor|]. apply NoDup_loop2; intros; auto.
  - intros x H1 H2. destruct (has_ngb_n per g); [destruct H2|].
    apply in_loop2 in H2. destruct H2 as (i' & j' & _ & _ & E2).
    destruct (ngb_p s per g); apply in_loop2 in H1; destruct H1 as (i & j & _ & _ & E1); subst x.
    + exact (HIN _ _ _ _ E2).
    + exact (HPN _ _ _ _ E2).
Qed.

Definition cell_c (L : layout) (X Y W : Z) : list cface :=
  cfaces_of_cell 0 (px L) (NX L) X X Y W
  ++ cfaces_of_cell 1 (py L) (NY L) Y X Y W
  ++ cfaces_of_cell 2 (pz L) (NZ L) W X Y W.

Lemma in_cell_c_proj : forall L X Y W q, In q (cell_c L X Y W) -> qX q = X /\ qY q = Y /\ qW q = W.
Proof.
  intros L X Y W q H. unfold cell_c in H. rewrite !in_app_iff in H.
  destruct H as [H|[H|H]]; apply in_cfaces_proj in H; tauto.
Qed.

Lemma in_canon_c : forall L q,
  In q (canon_c L) <->
  exists X Y W, 0 <= X < NX L /\ 0 <= Y < NY L /\ 0 <= W < NZ L /\ In q (cell_c L X Y W).
Proof.
  intros L q. unfold canon_c, cell_c. rewrite !in_app_iff, !in_floop3. split.
  - intros [H|[H|H]]; destruct H as (X & Y & W & HX & HY & HW & H); exists X, Y, W;
      rewrite !in_app_iff; auto 6.
  - intros (X & Y & W & HX & HY & HW & H). rewrite !in_app_iff in H.
    destruct H as [H|[H|H]]; [left|right; left|right; right]; exists X, Y, W; auto.
Qed.

(* u = g*n+i inside a line of s blocks of n cells *)
Lemma ax_lt : forall s n g i, 0 <= g < s -> 0 <= i < n ->
  (g * n + i + 1 < s * n <-> i + 1 < n \/ g + 1 < s).
Proof.
  intros s n g i Hg Hi. split.
  - intros H. destruct (Z.lt_ge_cases (i + 1) n) as [|Hi']; [left; assumption|right].
    destruct (Z.lt_ge_cases (g + 1) s) as [|Hg']; [assumption|].
    assert (s = g + 1) by lia. subst s. lia.
  - intros [H|H].
    + pose proof (blk_range s n g (i + 1) Hg ltac:(lia)). lia.
    + pose proof (blk_range s n (g + 1) 0 ltac:(lia) ltac:(lia)). lia.
Qed.

Lemma ax_zero : forall n g i, 0 <= g -> 0 <= i < n -> (g * n + i = 0 <-> g = 0 /\ i = 0).
Proof.
  intros n g i Hg Hi. split; [|intros (-> & ->); ring].
  intros H. assert (0 <= g * n) by (apply Z.mul_nonneg_nonneg; lia).
  assert (i = 0) by lia. subst i. split; [|reflexivity]. nia.
Qed.

Lemma ax_cell_iff : forall s n per g a X Y W q i, 0 <= g < s -> 0 <= i < n ->
  (In q (cfaces_of_cell a per (s * n) (g * n + i) X Y W) <->
   (q = CI a X Y W /\ (i + 1 < n \/ g + 1 < s \/ per = true))
   \/ (q = CB a 1 X Y W /\ i + 1 = n /\ g + 1 = s /\ per = false)
   \/ (q = CB a (-1) X Y W /\ i = 0 /\ g = 0 /\ per = false)).
Proof.
  intros s n per g a X Y W q i Hg Hi. rewrite in_cfaces_iff.
  pose proof (ax_lt s n g i Hg Hi) as Hlt.
  pose proof (ax_zero n g i ltac:(lia) Hi) as Hz.
  split.
  - intros [(E & C)|[(E & C1 & C2)|(E & C1 & C2)]].
    + left. split; [exact E|]. destruct C as [C|C]; [apply Hlt in C; tauto|tauto].
    + right; left. split; [exact E|]. assert (~ (i + 1 < n \/ g + 1 < s)) by tauto. repeat split; [lia|lia|exact C2].
    + right; right. split; [exact E|]. apply Hz in C1. tauto.
  - intros [(E & C)|[(E & C1 & C2 & C3)|(E & C1 & C2 & C3)]].
    + left. split; [exact E|]. destruct C as [C|[C|C]]; [left; apply Hlt; tauto|left; apply Hlt; tauto|right; exact C].
    + right; left. split; [exact E|]. split; [|exact C3]. intros C. apply Hlt in C. lia.
    + right; right. split; [exact E|]. split; [apply Hz; tauto|exact C3].
Qed.

Section SubC.
Variable L : layout.
Hypothesis WF : wf_layout L.
Variables gx gy gz : Z.
Hypothesis Hgx : 0 <= gx < sx L.
Hypothesis Hgy : 0 <= gy < sy L.
Hypothesis Hgz : 0 <= gz < sz L.

Lemma in_sub_c_fwd : forall q, In q (sub_c L gx gy gz) ->
  exists ix iy iz, 0 <= ix < nx L /\ 0 <= iy < ny L /\ 0 <= iz < nz L /\
    In q (cell_c L (cx L gx ix) (cy L gy iy) (cz L gz iz)).
Proof.
  destruct WF as (Hnx & Hny & Hnz & Hsx & Hsy & Hsz).
  intros q H. unfold sub_c in H. rewrite !in_app_iff in H. destruct H as [H|[H|[H|H]]].
  - unfold inner_c in H. rewrite !in_app_iff in H.
    destruct H as [H|[H|H]]; apply in_loop3 in H; destruct H as (ix & iy & iz & Hix & Hiy & Hiz & E);
      exists ix, iy, iz; (split; [lia|split; [lia|split; [lia|]]]); unfold cell_c; rewrite !in_app_iff.
    + left. apply (proj2 (ax_cell_iff (sx L) (nx L) (px L) gx 0 _ _ _ q ix Hgx ltac:(lia))).
      left. split; [exact E|left; lia].
    + right; left. apply (proj2 (ax_cell_iff (sy L) (ny L) (py L) gy 1 _ _ _ q iy Hgy ltac:(lia))).
      left. split; [exact E|left; lia].
    + right; right. apply (proj2 (ax_cell_iff (sz L) (nz L) (pz L) gz 2 _ _ _ q iz Hgz ltac:(lia))).
      left. split; [exact E|left; lia].
  - unfold axis0_c in H. apply in_axis_gen in H; [|assumption].
    destruct H as (i & j & Hi & Hj & H).
    assert (exists ix, 0 <= ix < nx L /\ In q (cfaces_of_cell 0 (px L) (NX L) (cx L gx ix) (cx L gx ix) (cy L gy i) (cz L gz j))) as (ix & Hix & Hin).
    { destruct H as [(E & C)|[(E & C1 & C2)|(E & C1 & C2)]].
      - exists (nx L - 1). split; [lia|].
        apply (proj2 (ax_cell_iff (sx L) (nx L) (px L) gx 0 _ _ _ q (nx L - 1) Hgx ltac:(lia))).
        left. split; [exact E|tauto].
      - exists (nx L - 1). split; [lia|].
        apply (proj2 (ax_cell_iff (sx L) (nx L) (px L) gx 0 _ _ _ q (nx L - 1) Hgx ltac:(lia))).
        right; left. split; [exact E|]. repeat split; [lia|lia|exact C2].
      - exists 0. split; [lia|].
        apply (proj2 (ax_cell_iff (sx L) (nx L) (px L) gx 0 _ _ _ q 0 Hgx ltac:(lia))).
        right; right. split; [exact E|]. repeat split; [exact C1|exact C2]. }
    exists ix, i, j. repeat split; try lia. unfold cell_c. rewrite !in_app_iff. left. exact Hin.
  - unfold axis1_c in H. apply in_axis_gen in H; [|assumption].
    destruct H as (i & j & Hi & Hj & H).
    assert (exists iy, 0 <= iy < ny L /\ In q (cfaces_of_cell 1 (py L) (NY L) (cy L gy iy) (cx L gx i) (cy L gy iy) (cz L gz j))) as (iy & Hiy & Hin).
    { destruct H as [(E & C)|[(E & C1 & C2)|(E & C1 & C2)]].
      - exists (ny L - 1). split; [lia|].
        apply (proj2 (ax_cell_iff (sy L) (ny L) (py L) gy 1 _ _ _ q (ny L - 1) Hgy ltac:(lia))).
        left. split; [exact E|tauto].
      - exists (ny L - 1). split; [lia|].
        apply (proj2 (ax_cell_iff (sy L) (ny L) (py L) gy 1 _ _ _ q (ny L - 1) Hgy ltac:(lia))).
        right; left. split; [exact E|]. repeat split; [lia|lia|exact C2].
      - exists 0. split; [lia|].
        apply (proj2 (ax_cell_iff (sy L) (ny L) (py L) gy 1 _ _ _ q 0 Hgy ltac:(lia))).
        right; right. split; [exact E|]. repeat split; [exact C1|exact C2]. }
    exists i, iy, j. repeat split; try lia. unfold cell_c. rewrite !in_app_iff. right; left. exact Hin.
  - unfold axis2_c in H. apply in_axis_gen in H; [|assumption].
    destruct H as (i & j & Hi & Hj & H).
    assert (exists iz, 0 <= iz < nz L /\ In q (cfaces_of_cell 2 (pz L) (NZ L) (cz L gz iz) (cx L gx i) (cy L gy j) (cz L gz iz))) as (iz & Hiz & Hin).
    { destruct H as [(E & C)|[(E & C1 & C2)|(E & C1 & C2)]].
      - exists (nz L - 1). split; [lia|].
        apply (proj2 (ax_cell_iff (sz L) (nz L) (pz L) gz 2 _ _ _ q (nz L - 1) Hgz ltac:(lia))).
        left. split; [exact E|tauto].
      - exists (nz L - 1). split; [lia|].
        apply (proj2 (ax_cell_iff (sz L) (nz L) (pz L) gz 2 _ _ _ q (nz L - 1) Hgz ltac:(lia))).
        right; left. split; [exact E|]. repeat split; [lia|lia|exact C2].
      - exists 0. split; [lia|].
        apply (proj2 (ax_cell_iff (sz L) (nz L) (pz L) gz 2 _ _ _ q 0 Hgz ltac:(lia))).
        right; right. split; [exact E|]. repeat split; [exact C1|exact C2]. }
    exists i, j, iz. repeat split; try lia. unfold cell_c. rewrite !in_app_iff. right; right. exact Hin.
Qed.

Lemma in_sub_c_bwd : forall q ix iy iz, 0 <= ix < nx L -> 0 <= iy < ny L -> 0 <= iz < nz L ->
  In q (cell_c L (cx L gx ix) (cy L gy iy) (cz L gz iz)) -> In q (sub_c L gx gy gz).
Proof.
  intros q ix iy iz Hix Hiy Hiz H. unfold cell_c in H. rewrite !in_app_iff in H.
  unfold sub_c. rewrite !in_app_iff.
  destruct H as [H|[H|H]].
  - apply (proj1 (ax_cell_iff (sx L) (nx L) (px L) gx 0 _ _ _ q ix Hgx Hix)) in H.
    destruct H as [(E & C)|[(E & C1 & C2 & C3)|(E & C1 & C2 & C3)]].
    + destruct (Z.lt_ge_cases (ix + 1) (nx L)) as [Hlt|Hge].
      * left. unfold inner_c. rewrite !in_app_iff. left. apply in_loop3.
        exists ix, iy, iz. repeat split; try lia. exact E.
      * right; left. unfold axis0_c. apply in_axis_gen; [assumption|]. exists iy, iz.
        split; [exact Hiy|split; [exact Hiz|]]. left. split.
        -- rewrite E. replace ix with (nx L - 1) by lia. reflexivity.
        -- destruct C as [C|[C|C]]; [lia|left; exact C|right; exact C].
    + right; left. unfold axis0_c. apply in_axis_gen; [assumption|]. exists iy, iz.
      split; [exact Hiy|split; [exact Hiz|]]. right; left. split.
      * rewrite E. replace ix with (nx L - 1) by lia. reflexivity.
      * split; [lia|exact C3].
    + right; left. unfold axis0_c. apply in_axis_gen; [assumption|]. exists iy, iz.
      split; [exact Hiy|split; [exact Hiz|]]. right; right. split.
      * rewrite E. subst ix. reflexivity.
      * split; [exact C2|exact C3].
  - apply (proj1 (ax_cell_iff (sy L) (ny L) (py L) gy 1 _ _ _ q iy Hgy Hiy)) in H.
    destruct H as [(E & C)|[(E & C1 & C2 & C3)|(E & C1 & C2 & C3)]].
    + destruct (Z.lt_ge_cases (iy + 1) (ny L)) as [Hlt|Hge].
      * left. unfold inner_c. rewrite !in_app_iff. right; left. apply in_loop3.
        exists ix, iy, iz. repeat split; try lia. exact E.
      * right; right; left. unfold axis1_c. apply in_axis_gen; [assumption|]. exists ix, iz.
        split; [exact Hix|split; [exact Hiz|]]. left. split.
        -- rewrite E. replace iy with (ny L - 1) by lia. reflexivity.
        -- destruct C as [C|[C|C]]; [lia|left; exact C|right; exact C].
    + right; right; left. unfold axis1_c. apply in_axis_gen; [assumption|]. exists ix, iz.
      split; [exact Hix|split; [exact Hiz|]]. right; left. split.
      * rewrite E. replace iy with (ny L - 1) by lia. reflexivity.
      * split; [lia|exact C3].
    + right; right; left. unfold axis1_c. apply in_axis_gen; [assumption|]. exists ix, iz.
      split; [exact Hix|split; [exact Hiz|]]. right; right. split.
      * rewrite E. subst iy. reflexivity.
      * split; [exact C2|exact C3].
  - apply (proj1 (ax_cell_iff (sz L) (nz L) (pz L) gz 2 _ _ _ q iz Hgz Hiz)) in H.
    destruct H as [(E & C)|[(E & C1 & C2 & C3)|(E & C1 & C2 & C3)]].
    + destruct (Z.lt_ge_cases (iz + 1) (nz L)) as [Hlt|Hge].
      * left. unfold inner_c. rewrite !in_app_iff. right; right. apply in_loop3.
        exists ix, iy, iz. repeat split; try lia. exact E.
      * right; right; right. unfold axis2_c. apply in_axis_gen; [assumption|]. exists ix, iy.
        split; [exact Hix|split; [exact Hiy|]]. left. split.
        -- rewrite E. replace iz with (nz L - 1) by lia. reflexivity.
        -- destruct C as [C|[C|C]]; [lia|left; exact C|right; exact C].
    + right; right; right. unfold axis2_c. apply in_axis_gen; [assumption|]. exists ix, iy.
      split; [exact Hix|split; [exact Hiy|]]. right; left. split.
      * rewrite E. replace iz with (nz L - 1) by lia. reflexivity.
      * split; [lia|exact C3].
    + right; right; right. unfold axis2_c. apply in_axis_gen; [assumption|]. exists ix, iy.
      split; [exact Hix|split; [exact Hiy|]]. right; right. split.
      * rewrite E. subst iz. reflexivity.
      * split; [exact C2|exact C3].
Qed.
End SubC.

(* ---------- NoDup of the coordinate-level sweeps ---------- *)
Ltac inv_in :=
  repeat match goal with
  | H : In _ (_ ++ _) |- _ => apply in_app_or in H; destruct H as [H|H]
  | H : In _ (loop3 _ _ _ _) |- _ => apply in_loop3 in H; destruct H as (? & ? & ? & ? & ? & ? & H)
  | H : In _ (axis_gen _ _ _ _ _ _ _ _) |- _ =>
      apply in_axis_gen in H; [destruct H as (? & ? & ? & ? & [(H & ?)|[(H & ? & ?)|(H & ? & ?)]])|assumption]
  end.

Ltac cface_eq :=
  match goal with
  | H : CI _ _ _ _ = CI _ _ _ _ |- _ => injection H; intros; unfold cx, cy, cz in *; try lia
  | H : CB _ _ _ _ _ = CB _ _ _ _ _ |- _ => injection H; intros; unfold cx, cy, cz in *; try lia
  end.

Section NoDupSub.
Variable L : layout.
Hypothesis WF : wf_layout L.
Variables gx gy gz : Z.
Hypothesis Hgx : 0 <= gx < sx L.
Hypothesis Hgy : 0 <= gy < sy L.
Hypothesis Hgz : 0 <= gz < sz L.

Lemma NoDup_inner_c : NoDup (inner_c L gx gy gz).
Proof.
  unfold inner_c.
  apply NoDup_app_intro; [|apply NoDup_app_intro|].
  1-3: apply NoDup_loop3; intros; cface_eq.
  all: intros q H1 H2; inv_in; subst q; discriminate.
Qed.

Lemma NoDup_axis0_c : NoDup (axis0_c L gx gy gz).
Proof. unfold axis0_c. apply NoDup_axis_gen; intros; try discriminate; cface_eq. Qed.
Lemma NoDup_axis1_c : NoDup (axis1_c L gx gy gz).
Proof. unfold axis1_c. apply NoDup_axis_gen; intros; try discriminate; cface_eq. Qed.
Lemma NoDup_axis2_c : NoDup (axis2_c L gx gy gz).
Proof. unfold axis2_c. apply NoDup_axis_gen; intros; try discriminate; cface_eq. Qed.

Lemma NoDup_sub_c : NoDup (sub_c L gx gy gz).
Proof.
  unfold sub_c.
  apply NoDup_app_intro; [|apply NoDup_app_intro; [|apply NoDup_app_intro|]|].
  - apply NoDup_inner_c.
  - apply NoDup_axis0_c.
  - apply NoDup_axis1_c.
  - apply NoDup_axis2_c.
  - intros q H1 H2. unfold axis1_c, axis2_c in *. inv_in; subst q; discriminate.
  - intros q H1 H2. unfold axis0_c, axis1_c, axis2_c in *. inv_in; subst q; discriminate.
  - intros q H1 H2. unfold inner_c, axis0_c, axis1_c, axis2_c in *. inv_in; subst q; try discriminate; cface_eq.
Qed.
End NoDupSub.

Lemma NoDup_sweep_c : forall L, wf_layout L -> NoDup (sweep_c L).
Proof.
  intros L WF. unfold sweep_c. apply NoDup_floop3.
  - intros. apply NoDup_sub_c; assumption.
  - intros a b c a' b' c' q Ha Hb Hc Ha' Hb' Hc' H1 H2.
    pose proof WF as (Hnx & Hny & Hnz & _).
    apply in_sub_c_fwd in H1; try assumption. apply in_sub_c_fwd in H2; try assumption.
    destruct H1 as (ix & iy & iz & Hix & Hiy & Hiz & H1).
    destruct H2 as (ix' & iy' & iz' & Hix' & Hiy' & Hiz' & H2).
    apply in_cell_c_proj in H1, H2. destruct H1 as (X1 & Y1 & W1). destruct H2 as (X2 & Y2 & W2).
    unfold cx, cy, cz in *.
    destruct (blk_unique (nx L) a a' ix ix' Hix Hix' ltac:(congruence)).
    destruct (blk_unique (ny L) b b' iy iy' Hiy Hiy' ltac:(congruence)).
    destruct (blk_unique (nz L) c c' iz iz' Hiz Hiz' ltac:(congruence)).
    auto.
Qed.

Lemma NoDup_canon_c : forall L, NoDup (canon_c L).
Proof.
  intros L. unfold canon_c.
  assert (ND : forall a per n (u : Z -> Z -> Z -> Z),
    NoDup (floop3 (NX L) (NY L) (NZ L) (fun X Y W => cfaces_of_cell a per n (u X Y W) X Y W))).
  { intros a per n u. apply NoDup_floop3.
    - intros. apply NoDup_cfaces.
    - intros X Y W X' Y' W' q _ _ _ _ _ _ H1 H2. apply in_cfaces_proj in H1, H2.
      destruct H1 as (_ & <- & <- & <-). destruct H2 as (_ & <- & <- & <-). auto. }
  assert (AX : forall a per n (u : Z -> Z -> Z -> Z) q,
    In q (floop3 (NX L) (NY L) (NZ L) (fun X Y W => cfaces_of_cell a per n (u X Y W) X Y W)) -> qA q = a).
  { intros a per n u q H. apply in_floop3 in H. destruct H as (X & Y & W & _ & _ & _ & H).
    apply in_cfaces_proj in H. tauto. }
  apply NoDup_app_intro; [|apply NoDup_app_intro|].
  - apply (ND 0 (px L) (NX L) (fun X _ _ => X)).
  - apply (ND 1 (py L) (NY L) (fun _ Y _ => Y)).
  - apply (ND 2 (pz L) (NZ L) (fun _ _ W => W)).
  - intros q H1 H2.
    apply (AX 1 (py L) (NY L) (fun _ Y _ => Y)) in H1.
    apply (AX 2 (pz L) (NZ L) (fun _ _ W => W)) in H2. congruence.
  - intros q H1 H2.
    apply (AX 0 (px L) (NX L) (fun X _ _ => X)) in H1.
    apply in_app_or in H2. destruct H2 as [H2|H2].
    + apply (AX 1 (py L) (NY L) (fun _ Y _ => Y)) in H2. congruence.
    + apply (AX 2 (pz L) (NZ L) (fun _ _ W => W)) in H2. congruence.
Qed.

Lemma in_sweep_canon : forall L, wf_layout L -> forall q, In q (sweep_c L) <-> In q (canon_c L).
Proof.
  intros L WF q. rewrite in_canon_c. unfold sweep_c. rewrite in_floop3.
  pose proof WF as (Hnx & Hny & Hnz & _). split.
  - intros (gx & gy & gz & Hgx & Hgy & Hgz & H).
    apply in_sub_c_fwd in H; try assumption.
    destruct H as (ix & iy & iz & Hix & Hiy & Hiz & H).
    exists (cx L gx ix), (cy L gy iy), (cz L gz iz).
    split; [apply blk_range; assumption|]. split; [apply blk_range; assumption|].
    split; [apply blk_range; assumption|exact H].
  - intros (X & Y & W & HX & HY & HW & H).
    destruct (blk_decomp (sx L) (nx L) X Hnx HX) as (gx & ix & Hgx & Hix & ->).
    destruct (blk_decomp (sy L) (ny L) Y Hny HY) as (gy & iy & Hgy & Hiy & ->).
    destruct (blk_decomp (sz L) (nz L) W Hnz HW) as (gz & iz & Hgz & Hiz & ->).
    exists gx, gy, gz. split; [exact Hgx|split; [exact Hgy|split; [exact Hgz|]]].
    apply in_sub_c_bwd with (ix := ix) (iy := iy) (iz := iz); assumption.
Qed.

Lemma sweep_canon_perm : forall L, wf_layout L -> Permutation (sweep_c L) (canon_c L).
Proof.
  intros L WF. apply NoDup_Permutation.
  - apply NoDup_sweep_c; exact WF.
  - apply NoDup_canon_c.
  - apply in_sweep_canon; exact WF.
Qed.

Theorem faces_once : forall L, wf_layout L -> Permutation (global_faces L) (canonical_faces L).
Proof.
  intros L WF. rewrite (sweep_eq L WF), canonical_eq.
  apply Permutation_map. apply sweep_canon_perm; exact WF.
Qed.

(* ---------- the executable checker is sound ---------- *)
Lemma face_eqb_eq : forall f g, face_eqb f g = true -> f = g.
Proof.
  intros [a l r|a s c] [a' l' r'|a' s' c']; cbn [face_eqb]; try discriminate;
    rewrite !andb_true_iff, !Z.eqb_eq; intros [[? ?] ?]; subst; reflexivity.
Qed.

Lemma face_list_eqb_eq : forall l l', face_list_eqb l l' = true -> l = l'.
Proof.
  induction l as [|f l IH]; intros [|f' l']; cbn [face_list_eqb]; try discriminate; [reflexivity|].
  rewrite andb_true_iff. intros [H1 H2]. apply face_eqb_eq in H1. apply IH in H2. subst. reflexivity.
Qed.

Lemma faces_once_check_sound : forall L fs,
  faces_once_check L fs = true -> Permutation fs (canonical_faces L).
Proof.
  intros L fs H. unfold faces_once_check in H. apply face_list_eqb_eq in H.
  eapply perm_trans; [apply FaceSort.Permuted_sort|]. rewrite H.
  apply Permutation_sym, FaceSort.Permuted_sort.
Qed.

(* ---------- gid3 ---------- *)
Lemma gid3_inj : forall L X Y W X' Y' W',
  0 <= Y < NY L -> 0 <= Y' < NY L -> 0 <= W < NZ L -> 0 <= W' < NZ L ->
  gid3 L X Y W = gid3 L X' Y' W' -> X = X' /\ Y = Y' /\ W = W'.
Proof.
  intros L X Y W X' Y' W' HY HY' HW HW' E. unfold gid3 in E.
  destruct (blk_unique (NZ L) _ _ W W' HW HW' E) as (E1 & E2).
  destruct (blk_unique (NY L) _ _ Y Y' HY HY' E1) as (E3 & E4). auto.
Qed.

Lemma gid3_range : forall L X Y W, 0 <= X < NX L -> 0 <= Y < NY L -> 0 <= W < NZ L ->
  0 <= gid3 L X Y W < NX L * NY L * NZ L.
Proof.
  intros L X Y W HX HY HW. unfold gid3.
  apply blk_range; [|exact HW]. apply blk_range; assumption.
Qed.

(* ---------- membership in canon_c by constructor ---------- *)
Lemma in_canon_CI : forall L a X Y W,
  In (CI a X Y W) (canon_c L) <->
  (0 <= X < NX L /\ 0 <= Y < NY L /\ 0 <= W < NZ L) /\
  ((a = 0 /\ (X + 1 < NX L \/ px L = true))
   \/ (a = 1 /\ (Y + 1 < NY L \/ py L = true))
   \/ (a = 2 /\ (W + 1 < NZ L \/ pz L = true))).
Proof.
  intros L a X Y W. rewrite in_canon_c. split.
  - intros (X0 & Y0 & W0 & HX & HY & HW & H). unfold cell_c in H.
    rewrite !in_app_iff, !in_cfaces_iff in H.
    destruct H as [[(E & C)|[(E & _)|(E & _)]]|[[(E & C)|[(E & _)|(E & _)]]|[(E & C)|[(E & _)|(E & _)]]]];
      try discriminate; injection E; intros; subst; (split; [auto|]); auto.
  - intros ((HX & HY & HW) & H). exists X, Y, W. split; [exact HX|split; [exact HY|split; [exact HW|]]].
    unfold cell_c. rewrite !in_app_iff, !in_cfaces_iff.
    destruct H as [(-> & C)|[(-> & C)|(-> & C)]]; [left|right; left|right; right]; left; auto.
Qed.

Lemma in_canon_CB : forall L a s X Y W,
  In (CB a s X Y W) (canon_c L) <->
  (0 <= X < NX L /\ 0 <= Y < NY L /\ 0 <= W < NZ L) /\
  ((a = 0 /\ px L = false /\ (s = 1 /\ ~ X + 1 < NX L \/ s = -1 /\ X = 0))
   \/ (a = 1 /\ py L = false /\ (s = 1 /\ ~ Y + 1 < NY L \/ s = -1 /\ Y = 0))
   \/ (a = 2 /\ pz L = false /\ (s = 1 /\ ~ W + 1 < NZ L \/ s = -1 /\ W = 0))).
Proof.
  intros L a s X Y W. rewrite in_canon_c. split.
  - intros (X0 & Y0 & W0 & HX & HY & HW & H). unfold cell_c in H.
    rewrite !in_app_iff, !in_cfaces_iff in H.
    destruct H as [[(E & _)|[(E & C1 & C2)|(E & C1 & C2)]]|[[(E & _)|[(E & C1 & C2)|(E & C1 & C2)]]|[(E & _)|[(E & C1 & C2)|(E & C1 & C2)]]]];
      try discriminate; injection E; intros; subst; (split; [auto|]).
    1-2: left; auto.
    1-2: right; left; auto.
    1-2: right; right; auto.
  - intros ((HX & HY & HW) & H). exists X, Y, W. split; [exact HX|split; [exact HY|split; [exact HW|]]].
    unfold cell_c. rewrite !in_app_iff, !in_cfaces_iff.
    destruct H as [(-> & P & [(-> & C)|(-> & C)])|[(-> & P & [(-> & C)|(-> & C)])|(-> & P & [(-> & C)|(-> & C)])]].
    1-2: left; auto.
    1-2: right; left; auto.
    1-2: right; right; auto.
Qed.

Lemma in_canon_range : forall L q, In q (canon_c L) ->
  0 <= qX q < NX L /\ 0 <= qY q < NY L /\ 0 <= qW q < NZ L.
Proof.
  intros L [a X Y W|a s X Y W] H; [apply in_canon_CI in H|apply in_canon_CB in H]; cbn; tauto.
Qed.

Lemma toface_inj : forall L q q',
  0 <= qY q < NY L -> 0 <= qW q < NZ L -> 0 <= qY q' < NY L -> 0 <= qW q' < NZ L ->
  toface L q = toface L q' -> q = q'.
Proof.
  intros L [a X Y W|a s X Y W] [a' X' Y' W'|a' s' X' Y' W']; cbn [qY qW toface];
    intros HY HW HY' HW' E; try discriminate; injection E; intros.
  - destruct (gid3_inj L X Y W X' Y' W') as (-> & -> & ->); auto. subst. reflexivity.
  - destruct (gid3_inj L X Y W X' Y' W') as (-> & -> & ->); auto. subst. reflexivity.
Qed.

Lemma canonical_faces_NoDup : forall L, wf_layout L -> NoDup (canonical_faces L).
Proof.
  intros L _. rewrite canonical_eq. apply NoDup_map_in; [|apply NoDup_canon_c].
  intros q q' H H' E. apply in_canon_range in H, H'. apply (toface_inj L); tauto.
Qed.

(* ---------- specification of canonical_faces ---------- *)
Lemma canonical_faces_spec_interior : forall L, wf_layout L -> forall a l r,
  In (Interior a l r) (canonical_faces L) <->
  exists X Y W, 0 <= X < NX L /\ 0 <= Y < NY L /\ 0 <= W < NZ L /\ l = gid3 L X Y W /\
    ((a = 0 /\ (X + 1 < NX L /\ r = gid3 L (X + 1) Y W \/ X + 1 = NX L /\ px L = true /\ r = gid3 L 0 Y W))
     \/ (a = 1 /\ (Y + 1 < NY L /\ r = gid3 L X (Y + 1) W \/ Y + 1 = NY L /\ py L = true /\ r = gid3 L X 0 W))
     \/ (a = 2 /\ (W + 1 < NZ L /\ r = gid3 L X Y (W + 1) \/ W + 1 = NZ L /\ pz L = true /\ r = gid3 L X Y 0))).
Proof.
  intros L _ a l r. rewrite canonical_eq, in_map_iff. split.
  - intros ([a' X Y W|a' s X Y W] & E & H); [|discriminate].
    apply in_canon_CI in H. destruct H as ((HX & HY & HW) & H).
    cbn [toface] in E. injection E as Ea El Er. subst a'.
    exists X, Y, W. split; [exact HX|split; [exact HY|split; [exact HW|split; [auto|]]]].
    destruct H as [(-> & C)|[(-> & C)|(-> & C)]]; cbn [Z.eqb Pos.eqb] in Er.
    + left. split; [reflexivity|]. destruct (Z.lt_ge_cases (X + 1) (NX L)) as [Hlt|Hge].
      * left. rewrite wrap_lt in Er by exact Hlt. auto.
      * right. rewrite wrap_ge in Er by exact Hge. destruct C as [C|C]; [lia|].
        split; [lia|auto].
    + right; left. split; [reflexivity|]. destruct (Z.lt_ge_cases (Y + 1) (NY L)) as [Hlt|Hge].
      * left. rewrite wrap_lt in Er by exact Hlt. auto.
      * right. rewrite wrap_ge in Er by exact Hge. destruct C as [C|C]; [lia|].
        split; [lia|auto].
    + right; right. split; [reflexivity|]. destruct (Z.lt_ge_cases (W + 1) (NZ L)) as [Hlt|Hge].
      * left. rewrite wrap_lt in Er by exact Hlt. auto.
      * right. rewrite wrap_ge in Er by exact Hge. destruct C as [C|C]; [lia|].
        split; [lia|auto].
  - intros (X & Y & W & HX & HY & HW & -> & H). exists (CI a X Y W). split.
    + cbn [toface]. f_equal.
      destruct H as [(-> & [(C & ->)|(C & _ & ->)])|[(-> & [(C & ->)|(C & _ & ->)])|(-> & [(C & ->)|(C & _ & ->)])]];
        cbn [Z.eqb Pos.eqb]; rewrite ?wrap_lt by lia; rewrite ?wrap_ge by lia; reflexivity.
    + apply in_canon_CI. split; [auto|].
      destruct H as [(-> & [(C & _)|(_ & C & _)])|[(-> & [(C & _)|(_ & C & _)])|(-> & [(C & _)|(_ & C & _)])]]; auto 6.
Qed.

Lemma canonical_faces_spec_boundary : forall L, wf_layout L -> forall a sgn c,
  In (Boundary a sgn c) (canonical_faces L) <->
  exists X Y W, 0 <= X < NX L /\ 0 <= Y < NY L /\ 0 <= W < NZ L /\ c = gid3 L X Y W /\
    ((a = 0 /\ px L = false /\ (sgn = 1 /\ X + 1 = NX L \/ sgn = -1 /\ X = 0))
     \/ (a = 1 /\ py L = false /\ (sgn = 1 /\ Y + 1 = NY L \/ sgn = -1 /\ Y = 0))
     \/ (a = 2 /\ pz L = false /\ (sgn = 1 /\ W + 1 = NZ L \/ sgn = -1 /\ W = 0))).
Proof.
  intros L _ a sgn c. rewrite canonical_eq, in_map_iff. split.
  - intros ([a' X Y W|a' s X Y W] & E & H); [discriminate|].
    apply in_canon_CB in H. destruct H as ((HX & HY & HW) & H).
    cbn [toface] in E. injection E as Ea Es Ec. subst a' s.
    exists X, Y, W. split; [exact HX|split; [exact HY|split; [exact HW|split; [auto|]]]].
    destruct H as [(-> & P & [(-> & C)|(-> & C)])|[(-> & P & [(-> & C)|(-> & C)])|(-> & P & [(-> & C)|(-> & C)])]].
    1-2: left; split; [reflexivity|split; [exact P|lia]].
    1-2: right; left; split; [reflexivity|split; [exact P|lia]].
    1-2: right; right; split; [reflexivity|split; [exact P|lia]].
  - intros (X & Y & W & HX & HY & HW & -> & H). exists (CB a sgn X Y W). split; [reflexivity|].
    apply in_canon_CB. split; [auto|].
    destruct H as [(-> & P & [(-> & C)|(-> & C)])|[(-> & P & [(-> & C)|(-> & C)])|(-> & P & [(-> & C)|(-> & C)])]].
    1-2: left; split; [reflexivity|split; [exact P|lia]].
    1-2: right; left; split; [reflexivity|split; [exact P|lia]].
    1-2: right; right; split; [reflexivity|split; [exact P|lia]].
Qed.

Lemma canonical_faces_cells_in_range : forall L, wf_layout L -> forall f, In f (canonical_faces L) ->
  match f with
  | Interior _ l r => 0 <= l < NX L * NY L * NZ L /\ 0 <= r < NX L * NY L * NZ L
  | Boundary _ _ c => 0 <= c < NX L * NY L * NZ L
  end.
Proof.
  intros L WF [a l r|a s c] H.
  - apply (canonical_faces_spec_interior L WF) in H.
    destruct H as (X & Y & W & HX & HY & HW & -> & H). split; [apply gid3_range; assumption|].
    destruct H as [(_ & [(C & ->)|(_ & _ & ->)])|[(_ & [(C & ->)|(_ & _ & ->)])|(_ & [(C & ->)|(_ & _ & ->)])]];
      apply gid3_range; lia.
  - apply (canonical_faces_spec_boundary L WF) in H.
    destruct H as (X & Y & W & HX & HY & HW & -> & _). apply gid3_range; assumption.
Qed.

Lemma canonical_periodic_no_boundary : forall L, px L = true -> py L = true -> pz L = true ->
  forall a s c, ~ In (Boundary a s c) (canonical_faces L).
Proof.
  intros L Hx Hy Hz a s c H. rewrite canonical_eq, in_map_iff in H.
  destruct H as ([a' X Y W|a' s' X Y W] & E & H); [discriminate|].
  apply in_canon_CB in H. destruct H as (_ & [(_ & P & _)|[(_ & P & _)|(_ & P & _)]]); congruence.
Qed.

(* ---------- gid is a bijection onto [0, NX*NY*NZ) ---------- *)
Lemma idx_decomp : forall A B C s, 0 < B -> 0 < C -> 0 <= s < A * B * C ->
  exists a b c, 0 <= a < A /\ 0 <= b < B /\ 0 <= c < C /\ s = a * (B * C) + b * C + c.
Proof.
  intros A B C s HB HC Hs.
  destruct (blk_decomp (A * B) C s HC Hs) as (g & c & Hg & Hc & ->).
  destruct (blk_decomp A B g HB Hg) as (a & b & Ha & Hb & ->).
  exists a, b, c. repeat split; try lia; ring.
Qed.

Lemma gid_decomp : forall L s idx, wf_layout L ->
  0 <= s < sx L * sy L * sz L -> 0 <= idx < nx L * ny L * nz L ->
  exists gx gy gz ix iy iz,
    0 <= gx < sx L /\ 0 <= gy < sy L /\ 0 <= gz < sz L /\
    0 <= ix < nx L /\ 0 <= iy < ny L /\ 0 <= iz < nz L /\
    s = senc L gx gy gz /\ idx = ix * (ny L * nz L) + iy * nz L + iz.
Proof.
  intros L s idx (Hnx & Hny & Hnz & Hsx & Hsy & Hsz) Hs Hidx.
  destruct (idx_decomp _ _ _ s Hsy Hsz Hs) as (gx & gy & gz & Hgx & Hgy & Hgz & Es).
  destruct (idx_decomp _ _ _ idx Hny Hnz Hidx) as (ix & iy & iz & Hix & Hiy & Hiz & Ei).
  exists gx, gy, gz, ix, iy, iz. repeat split; try lia. unfold senc. rewrite Es. ring.
Qed.

Lemma gid_range : forall L, wf_layout L -> forall s idx,
  0 <= s < sx L * sy L * sz L -> 0 <= idx < nx L * ny L * nz L ->
  0 <= gid L s idx < NX L * NY L * NZ L.
Proof.
  intros L WF s idx Hs Hidx.
  destruct (gid_decomp L s idx WF Hs Hidx) as (gx & gy & gz & ix & iy & iz & Hgx & Hgy & Hgz & Hix & Hiy & Hiz & Es & Ei).
  rewrite (gid_enc L gx gy gz ix iy iz s idx); auto.
  apply gid3_range; apply blk_range; assumption.
Qed.

Lemma gid_inj : forall L, wf_layout L -> forall s idx s' idx',
  0 <= s < sx L * sy L * sz L -> 0 <= idx < nx L * ny L * nz L ->
  0 <= s' < sx L * sy L * sz L -> 0 <= idx' < nx L * ny L * nz L ->
  gid L s idx = gid L s' idx' -> s = s' /\ idx = idx'.
Proof.
  intros L WF s idx s' idx' Hs Hidx Hs' Hidx' E.
  destruct (gid_decomp L s idx WF Hs Hidx) as (gx & gy & gz & ix & iy & iz & Hgx & Hgy & Hgz & Hix & Hiy & Hiz & Es & Ei).
  destruct (gid_decomp L s' idx' WF Hs' Hidx') as (gx' & gy' & gz' & ix' & iy' & iz' & Hgx' & Hgy' & Hgz' & Hix' & Hiy' & Hiz' & Es' & Ei').
  rewrite (gid_enc L gx gy gz ix iy iz s idx) in E; auto.
  rewrite (gid_enc L gx' gy' gz' ix' iy' iz' s' idx') in E; auto.
  apply gid3_inj in E; try (apply blk_range; assumption).
  destruct E as (EX & EY & EW). unfold cx, cy, cz in *.
  destruct (blk_unique _ _ _ _ _ Hix Hix' EX). destruct (blk_unique _ _ _ _ _ Hiy Hiy' EY).
  destruct (blk_unique _ _ _ _ _ Hiz Hiz' EW). subst. auto.
Qed.

Lemma gid_surj : forall L, wf_layout L -> forall c, 0 <= c < NX L * NY L * NZ L ->
  exists s idx, 0 <= s < sx L * sy L * sz L /\ 0 <= idx < nx L * ny L * nz L /\ gid L s idx = c.
Proof.
  intros L WF c Hc. pose proof WF as (Hnx & Hny & Hnz & Hsx & Hsy & Hsz).
  destruct (blk_decomp (NX L * NY L) (NZ L) c ltac:(unfold NZ; nia) Hc) as (XY & W & HXY & HW & ->).
  destruct (blk_decomp (NX L) (NY L) XY ltac:(unfold NY; nia) HXY) as (X & Y & HX & HY & ->).
  destruct (blk_decomp (sx L) (nx L) X Hnx HX) as (gx & ix & Hgx & Hix & ->).
  destruct (blk_decomp (sy L) (ny L) Y Hny HY) as (gy & iy & Hgy & Hiy & ->).
  destruct (blk_decomp (sz L) (nz L) W Hnz HW) as (gz & iz & Hgz & Hiz & ->).
  exists (senc L gx gy gz), (ix * (ny L * nz L) + iy * nz L + iz). split; [|split].
  - unfold senc. replace (gx * sy L * sz L + gy * sz L + gz) with ((gx * sy L + gy) * sz L + gz) by ring.
    apply blk_range; [|exact Hgz]. apply blk_range; assumption.
  - replace (ix * (ny L * nz L) + iy * nz L + iz) with ((ix * ny L + iy) * nz L + iz) by ring.
    apply blk_range; [|exact Hiz]. apply blk_range; assumption.
  - rewrite (gid_enc L gx gy gz ix iy iz); auto.
Qed.

(* ---------- concrete layouts through the executable checker ---------- *)
Example check_3x2x2_open : let L := mkLayout 3 2 2 1 1 1 false false false in
  faces_once_check L (global_faces L) = true.
Proof. vm_compute. reflexivity. Qed.
Example check_mixed : let L := mkLayout 2 3 1 2 1 3 true false true in
  faces_once_check L (global_faces L) = true.
Proof. vm_compute. reflexivity. Qed.
Example check_single_cell_periodic : let L := mkLayout 1 1 1 1 1 1 true true true in
  faces_once_check L (global_faces L) = true.
Proof. vm_compute. reflexivity. Qed.
Example check_2x2x2_of_2x2x2_periodic : let L := mkLayout 2 2 2 2 2 2 true true true in
  faces_once_check L (global_faces L) = true.
Proof. vm_compute. reflexivity. Qed.
