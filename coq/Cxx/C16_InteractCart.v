(* C16 (traversal clauses): proofs about the real-number instance of the model of
   CartesianDensityGrid::interact in Cxx/C16_InteractDefs.v.  Reuses the one-coordinate lemmas of Cxx/C02_Proofs.v
   (the wall distance of get_wall_intersection is the same expression as in DensitySubGrid::interact). *)
From Coq Require Import ZArith List Bool Reals Lra Lia Psatz.
From CMI Require Import Cxx.C02_Defs Cxx.C02_Proofs Cxx.C16_InteractDefs.
Import ListNotations.
Local Open Scope R_scope.

Lemma ivec_ext (i j : ivec) : (forall a, ig a i = ig a j) -> i = j.
Proof.
  intros H. destruct i as [a1 a2 a3], j as [b1 b2 b3]. pose proof (H AX) as A; pose proof (H AY) as B; pose proof (H AZ) as C.
  cbn [ig ix iy iz] in *. subst. reflexivity.
Qed.
Lemma vec_ext (u v : vec R) : (forall a, vg a u = vg a v) -> u = v.
Proof.
  intros H. destruct u as [a1 a2 a3], v as [b1 b2 b3]. pose proof (H AX) as A; pose proof (H AY) as B; pose proof (H AZ) as C.
  cbn [vg vx vy vz] in *. subst. reflexivity.
Qed.

Definition bg (a : axis) (b : bvec) : bool := match a with AX => bx b | AY => by_ b | AZ => bz b end.

(* integer shifts (numbers of box periods), one per axis *)
Definition shift := axis -> Z.

(* ---------------------------------------------------------------------------
   is_inside, one coordinate *)
Lemma wrap1_nonper n side i p : wrap1 ROps false n side i p = ((0 <=? i)%Z && (i <? n)%Z, i, p).
Proof. reflexivity. Qed.

Lemma wrap1_per n side i p : (1 <= n)%Z -> (-1 <= i <= n)%Z ->
  exists w : Z,
    ((w = 1 /\ i = -1) \/ (w = -1 /\ i = n) \/ (w = 0 /\ 0 <= i < n))%Z /\
    wrap1 ROps true n side i p = (true, (i + w * n)%Z, p + IZR w * side).
Proof.
  intros Hn Hi. unfold wrap1; rsimp.
  destruct (i <? 0)%Z eqn:E1.
  - apply Z.ltb_lt in E1. assert (i = -1)%Z by lia. subst i.
    assert (E2 : (n <=? n - 1)%Z = false) by (apply Z.leb_gt; lia). rewrite E2.
    exists 1%Z. split. left; split; reflexivity. f_equal. f_equal. lia. ring.
  - apply Z.ltb_ge in E1. destruct (n <=? i)%Z eqn:E2.
    + apply Z.leb_le in E2. assert (i = n) by lia. subst i.
      exists (-1)%Z. split. right; left; split; reflexivity. f_equal. f_equal. lia. replace (IZR (-1)) with (-1) by reflexivity. ring.
    + apply Z.leb_gt in E2. exists 0%Z. split. right; right; split; [reflexivity|lia]. f_equal. f_equal. lia. ring.
Qed.

Lemma cwrap_axes (g : cgrid R) i p :
  let r a := wrap1 ROps (bg a (cg_per g)) (ig a (cg_n g)) (vg a (cg_sides g)) (ig a i) (vg a p) in
  cwrap ROps g i p =
    (fst (fst (r AX)) && fst (fst (r AY)) && fst (fst (r AZ)),
     mkI (snd (fst (r AX))) (snd (fst (r AY))) (snd (fst (r AZ))),
     mkV (snd (r AX)) (snd (r AY)) (snd (r AZ))).
Proof.
  cbv zeta. unfold cwrap. cbn [bg ig vg].
  destruct (wrap1 ROps (bx (cg_per g)) (ix (cg_n g)) (vx (cg_sides g)) (ix i) (vx p)) as [[? ?] ?].
  destruct (wrap1 ROps (by_ (cg_per g)) (iy (cg_n g)) (vy (cg_sides g)) (iy i) (vy p)) as [[? ?] ?].
  destruct (wrap1 ROps (bz (cg_per g)) (iz (cg_n g)) (vz (cg_sides g)) (iz i) (vz p)) as [[? ?] ?].
  reflexivity.
Qed.

(* ---------------------------------------------------------------------------
   the march *)
Section CartR.
Variables (anchor sides : vec R) (n : ivec) (per : bvec).
Variable d : vec R.
Variable target : R.
Variable od : Z -> R -> R.
Variable kap : Z -> R.
Variable p0 : vec R.

Let g := make_cgrid ROps anchor sides n per.
Definition cinvd : vec R := mkV (1 / vx d) (1 / vy d) (1 / vz d).
Notation bodyR := (cbody ROps g d cinvd od).
Notation marchR := (cmarch ROps g d cinvd od).
Notation wallsR := (cwalls ROps g d cinvd).

Hypothesis Hsides : forall a, 0 < vg a sides.
Hypothesis Hn : forall a, (1 <= ig a n)%Z.
Hypothesis Hod : forall c l, od c l = kap c * l.
Hypothesis Hkap : forall c, 0 <= kap c.
Hypothesis Htarget : 0 < target.
Hypothesis Hbig : exists j, vg j d <> 0 /\ vg j sides / IZR (ig j n) < RDBLMAX * Rabs (vg j d).

Definition csz (a : axis) : R := vg a sides / IZR (ig a n).
Definition clo (a : axis) (i : Z) : R := vg a anchor + csz a * IZR i.
Definition chi (a : axis) (i : Z) : R := clo a i + csz a.

Lemma csz_pos a : 0 < csz a.
Proof. unfold csz. apply block_axis. apply Hsides. apply Hn. Qed.
Lemma csz_n a : csz a * IZR (ig a n) = vg a sides.
Proof. unfold csz. destruct (block_axis (vg a sides) (ig a n) (Hsides a) (Hn a)) as [_ [_ H]]. lra. Qed.
Lemma vg_cs a : vg a (cg_cs g) = csz a.
Proof. destruct a; reflexivity. Qed.
Lemma vg_ganchor a : vg a (cg_anchor g) = vg a anchor.
Proof. destruct a; reflexivity. Qed.
Lemma vg_gsides a : vg a (cg_sides g) = vg a sides.
Proof. destruct a; reflexivity. Qed.
Lemma ig_gn a : ig a (cg_n g) = ig a n.
Proof. destruct a; reflexivity. Qed.
Lemma bg_gper a : bg a (cg_per g) = bg a per.
Proof. destruct a; reflexivity. Qed.
Lemma vg_low a i : vg a (ccell_low ROps g i) = clo a (ig a i).
Proof. destruct a; reflexivity. Qed.
Lemma vg_high a i : vg a (ccell_high ROps g i) = chi a (ig a i).
Proof. destruct a; reflexivity. Qed.
Lemma vg_cinvd a : vg a cinvd = 1 / vg a d.
Proof. destruct a; reflexivity. Qed.
Lemma vg_cwalls a st : vg a (wallsR st) =
  wall ROps (vg a d) (1 / vg a d) (clo a (ig a (cs_idx st))) (chi a (ig a (cs_idx st))) (vg a (cs_pos st)).
Proof. destruct a; reflexivity. Qed.
Lemma clo_lt_chi a i : clo a i < chi a i.
Proof. unfold chi. pose proof (csz_pos a). lra. Qed.
Lemma clo_succ a i : clo a (i + 1) = chi a i.
Proof. unfold chi, clo. rewrite plus_IZR. ring. Qed.
Lemma clo_pred a i : chi a (i - 1) = clo a i.
Proof. unfold chi, clo. rewrite minus_IZR. ring. Qed.
Lemma clo_shift a i w : clo a (i + w * ig a n) = clo a i + IZR w * vg a sides.
Proof. unfold clo. rewrite plus_IZR, mult_IZR. rewrite <- (csz_n a). ring. Qed.
Lemma chi_shift a i w : chi a (i + w * ig a n) = chi a i + IZR w * vg a sides.
Proof. unfold chi. rewrite clo_shift. ring. Qed.

(* a cell of the grid, and a point in its closed box *)
Definition in_range (i : ivec) : Prop := forall a, (0 <= ig a i < ig a n)%Z.
Definition in_cell (i : ivec) (p : vec R) : Prop := forall a, clo a (ig a i) <= vg a p <= chi a (ig a i).
Definition shift_ok (w : shift) : Prop := forall a, bg a per = false -> w a = 0%Z.
Definition shifted (p : vec R) (w : shift) : vec R :=
  mkV (vx p + IZR (w AX) * vx sides) (vy p + IZR (w AY) * vy sides) (vz p + IZR (w AZ) * vz sides).
Lemma vg_shifted a p w : vg a (shifted p w) = vg a p + IZR (w a) * vg a sides.
Proof. destruct a; reflexivity. Qed.

(* the point of the straight line at parameter s *)
Definition ray (s : R) : vec R := mkV (vx p0 + s * vx d) (vy p0 + s * vy d) (vz p0 + s * vz d).
Lemma vg_ray a s : vg a (ray s) = vg a p0 + s * vg a d.
Proof. destruct a; reflexivity. Qed.

(* invariant of the loop, for the state at the loop head BEFORE is_inside acts on it.  The index may be one step
   outside the grid (a virtual cell beyond the face just reached); W counts the box periods added so far. *)
Record CInv (st : cstate R) (W : shift) : Prop := mkCInv {
  ci_range : forall a, (-1 <= ig a (cs_idx st) <= ig a n)%Z;
  ci_cell : in_cell (cs_idx st) (cs_pos st);
  ci_pos : forall a, vg a (cs_pos st) = vg a p0 + sumlen (cs_vis st) * vg a d + IZR (W a) * vg a sides;
  ci_W : shift_ok W;
  ci_out : forall a, (ig a (cs_idx st) = (-1)%Z -> vg a (cs_pos st) = clo a 0 /\ vg a d < 0) /\
                     (ig a (cs_idx st) = ig a n -> vg a (cs_pos st) = clo a (ig a n) /\ 0 < vg a d);
  ci_len : Forall (fun v => 0 <= snd v) (cs_vis st);
  ci_tau : (0 <= cs_tau st -> cs_tau st = target - sumtau kap (cs_vis st)) /\
           (cs_tau st < 0 -> sumtau kap (cs_vis st) = target);
  ci_ncell : cs_ncell st = Z.of_nat (length (cs_vis st));
  ci_last : match cs_vis st with
            | [] => cs_last st = None
            | v :: _ => cs_last st = Some (fst v) /\
                        exists j wl, in_range j /\ clong g j = fst v /\ shift_ok wl /\
                                  in_cell j (shifted (cs_pos st) wl) /\
                                  (cs_tau st < 0 -> cs_idx st = j /\ forall a, wl a = 0%Z)
            end;
  (* every visit is a cell of the grid, and the two end points of the piece of the line credited to it (taken
     modulo box periods) lie in the closed box of that cell *)
  ci_seg : forall k c len, nth_error (rev (cs_vis st)) k = Some (c, len) ->
             exists j w, in_range j /\ clong g j = c /\ shift_ok w /\
               let s0 := sumlen (firstn k (rev (cs_vis st))) in
               in_cell j (shifted (ray s0) w) /\ in_cell j (shifted (ray (s0 + len)) w)
}.

(* the state after is_inside, when it answered true *)
Definition wrapped (st : cstate R) : cstate R :=
  let '(_, i, p) := cwrap ROps g (cs_idx st) (cs_pos st) in
  mkCS p i (cs_tau st) (cs_vis st) (cs_last st) (cs_ncell st).
Definition inside_flag (st : cstate R) : bool := fst (fst (cwrap ROps g (cs_idx st) (cs_pos st))).

(* the number of box periods is_inside adds along axis a *)
Definition wshift (st : cstate R) (a : axis) : Z :=
  if bg a per then (if (ig a (cs_idx st) <? 0)%Z then 1 else if (ig a n <=? ig a (cs_idx st))%Z then -1 else 0)%Z else 0%Z.

Lemma wrap_axis_facts st W a : CInv st W ->
  let r := wrap1 ROps (bg a per) (ig a n) (vg a sides) (ig a (cs_idx st)) (vg a (cs_pos st)) in
  let w := wshift st a in
    (bg a per = false -> w = 0%Z) /\
    snd (fst r) = (ig a (cs_idx st) + w * ig a n)%Z /\
    snd r = vg a (cs_pos st) + IZR w * vg a sides /\
    (fst (fst r) = true -> (0 <= snd (fst r) < ig a n)%Z) /\
    (bg a per = true -> fst (fst r) = true) /\
    (bg a per = false -> fst (fst r) = true <-> (0 <= ig a (cs_idx st) < ig a n)%Z) /\
    (w = 1 -> ig a (cs_idx st) = -1)%Z /\ (w = -1 -> ig a (cs_idx st) = ig a n)%Z /\ (-1 <= w <= 1)%Z /\
    (0 <= ig a (cs_idx st) < ig a n -> w = 0)%Z.
Proof.
  intros I r w. pose proof (ci_range st W I a) as Hr. pose proof (Hn a) as Hna.
  unfold w, wshift. destruct (bg a per) eqn:P.
  - destruct (wrap1_per (ig a n) (vg a sides) (ig a (cs_idx st)) (vg a (cs_pos st)) Hna Hr) as [w0 [Hw E]].
    assert (W0 : w0 = (if (ig a (cs_idx st) <? 0)%Z then 1 else if (ig a n <=? ig a (cs_idx st))%Z then -1 else 0)%Z).
    { destruct Hw as [[-> Hi]|[[-> Hi]|[-> Hi]]].
      - rewrite Hi. reflexivity.
      - rewrite Hi. assert (E1 : (ig a n <? 0)%Z = false) by (apply Z.ltb_ge; lia). rewrite E1, Z.leb_refl. reflexivity.
      - assert (E1 : (ig a (cs_idx st) <? 0)%Z = false) by (apply Z.ltb_ge; lia).
        assert (E2 : (ig a n <=? ig a (cs_idx st))%Z = false) by (apply Z.leb_gt; lia). rewrite E1, E2. reflexivity. }
    rewrite <- W0. unfold r. rewrite E. cbn [fst snd].
    split. intros; discriminate. split. reflexivity. split. reflexivity.
    split. intros _. destruct Hw as [[-> ->]|[[-> ->]|[-> Hi]]]; lia.
    split. reflexivity. split. intros; discriminate.
    destruct Hw as [[-> ->]|[[-> ->]|[-> Hi]]]; repeat split; intros; try lia.
  - unfold r. rewrite wrap1_nonper. cbn [fst snd].
    split. reflexivity. split. lia. split. simpl; ring.
    split. intros H. apply andb_true_iff in H. destruct H as [H1 H2]. apply Z.leb_le in H1. apply Z.ltb_lt in H2. lia.
    split. intros; discriminate.
    split. intros _. rewrite andb_true_iff, Z.leb_le, Z.ltb_lt. lia.
    repeat split; intros; lia.
Qed.

Lemma vg_wrapped_pos st a :
  vg a (cs_pos (wrapped st)) = snd (wrap1 ROps (bg a per) (ig a n) (vg a sides) (ig a (cs_idx st)) (vg a (cs_pos st))).
Proof.
  unfold wrapped. pose proof (cwrap_axes g (cs_idx st) (cs_pos st)) as E. cbv zeta in E. rewrite E. cbn [cs_pos].
  destruct a; cbn [vg bg ig]; reflexivity.
Qed.
Lemma ig_wrapped_idx st a :
  ig a (cs_idx (wrapped st)) = snd (fst (wrap1 ROps (bg a per) (ig a n) (vg a sides) (ig a (cs_idx st)) (vg a (cs_pos st)))).
Proof.
  unfold wrapped. pose proof (cwrap_axes g (cs_idx st) (cs_pos st)) as E. cbv zeta in E. rewrite E. cbn [cs_idx].
  destruct a; cbn [vg bg ig]; reflexivity.
Qed.
Lemma inside_flag_spec st :
  inside_flag st = true <->
  forall a, fst (fst (wrap1 ROps (bg a per) (ig a n) (vg a sides) (ig a (cs_idx st)) (vg a (cs_pos st)))) = true.
Proof.
  unfold inside_flag. pose proof (cwrap_axes g (cs_idx st) (cs_pos st)) as E. cbv zeta in E. rewrite E. cbn [fst].
  rewrite !andb_true_iff. split.
  - intros [[A B] C] a. destruct a; assumption.
  - intros H. repeat split; [apply (H AX)|apply (H AY)|apply (H AZ)].
Qed.
Lemma wrapped_fields st : cs_tau (wrapped st) = cs_tau st /\ cs_vis (wrapped st) = cs_vis st /\
  cs_last (wrapped st) = cs_last st /\ cs_ncell (wrapped st) = cs_ncell st.
Proof. unfold wrapped. destruct (cwrap ROps g (cs_idx st) (cs_pos st)) as [[? ?] ?]. repeat split. Qed.


Lemma wrapped_inv st W : CInv st W ->
  CInv (wrapped st) (fun a => (W a + wshift st a)%Z) /\
  (forall a, bg a per = true -> (0 <= ig a (cs_idx (wrapped st)) < ig a n)%Z) /\
  (forall a, bg a per = false -> ig a (cs_idx (wrapped st)) = ig a (cs_idx st)) /\
  (inside_flag st = true -> in_range (cs_idx (wrapped st))) /\
  (inside_flag st = false -> exists a, bg a per = false /\ ~ (0 <= ig a (cs_idx st) < ig a n)%Z) /\
  (forall a, vg a (cs_pos (wrapped st)) = vg a (cs_pos st) + IZR (wshift st a) * vg a sides).
Proof.
  intros I. destruct (wrapped_fields st) as [Et [Ev [El En]]].
  assert (F : forall a, _) by (intros a; exact (wrap_axis_facts st W a I)). cbv zeta in F.
  split; [|split; [|split; [|split; [|split]]]].
  - constructor.
    + intros a. destruct (F a) as [_ [Ei _]]. rewrite ig_wrapped_idx, Ei.
      destruct (F a) as [_ [_ [_ [_ [_ [_ [W1 [W2 [W3 _]]]]]]]]]. pose proof (ci_range st W I a). pose proof (Hn a).
      assert (wshift st a = 1 \/ wshift st a = -1 \/ wshift st a = 0)%Z as [Q|[Q|Q]] by lia; rewrite Q in *; [rewrite (W1 eq_refl)|rewrite (W2 eq_refl)|]; lia.
    + intros a. destruct (F a) as [_ [Ei [Ep _]]]. rewrite ig_wrapped_idx, vg_wrapped_pos, Ei, Ep, clo_shift, chi_shift.
      pose proof (ci_cell st W I a). lra.
    + intros a. destruct (F a) as [_ [_ [Ep _]]]. rewrite vg_wrapped_pos, Ep, Ev, (ci_pos st W I a), plus_IZR. ring.
    + intros a P. destruct (F a) as [Z0 _]. rewrite (Z0 P), (ci_W st W I a P). reflexivity.
    + intros a. destruct (F a) as [Z0 [Ei [Ep [Q [T _]]]]]. rewrite ig_wrapped_idx, vg_wrapped_pos.
      destruct (bg a per) eqn:P.
      * specialize (Q (T eq_refl)). split; intros X; rewrite X in Q; lia.
      * rewrite Ei, Ep, (Z0 eq_refl). replace (ig a (cs_idx st) + 0 * ig a n)%Z with (ig a (cs_idx st)) by lia.
        replace (vg a (cs_pos st) + 0 * vg a sides) with (vg a (cs_pos st)) by ring. apply (ci_out st W I a).
    + rewrite Ev. apply (ci_len st W I).
    + rewrite Et, Ev. apply (ci_tau st W I).
    + rewrite En, Ev. apply (ci_ncell st W I).
    + rewrite Ev, El, Et. pose proof (ci_last st W I) as L. destruct (cs_vis st) as [|v vis]. exact L.
      destruct L as [L1 [j [wl [J1 [J2 [J3 [J4 J5]]]]]]]. split. exact L1.
      exists j, (fun a => (wl a - wshift st a)%Z). split. exact J1. split. exact J2.
      split. intros a P. destruct (F a) as [Z0 _]. rewrite (Z0 P), (J3 a P). reflexivity.
      split. intros a. specialize (J4 a). rewrite vg_shifted in *. destruct (F a) as [_ [_ [Ep _]]].
      rewrite vg_wrapped_pos, Ep, minus_IZR. replace (vg a (cs_pos st) + IZR (wshift st a) * vg a sides + (IZR (wl a) - IZR (wshift st a)) * vg a sides)
        with (vg a (cs_pos st) + IZR (wl a) * vg a sides) by ring. exact J4.
      intros T. destruct (J5 T) as [K1 K2]. subst j.
      assert (Z0 : forall a, wshift st a = 0%Z) by (intros a; destruct (F a) as [_ [_ [_ [_ [_ [_ [_ [_ [_ Q]]]]]]]]]; apply Q; apply J1).
      split.
      * apply ivec_ext. intros a. destruct (F a) as [_ [B1 _]]. rewrite ig_wrapped_idx, B1, (Z0 a). lia.
      * intros a. rewrite (K2 a), (Z0 a). reflexivity.
    + rewrite Ev. apply (ci_seg st W I).
  - intros a P. destruct (F a) as [_ [_ [_ [Q [T _]]]]]. rewrite ig_wrapped_idx. apply Q. apply T. exact P.
  - intros a P. destruct (F a) as [Z0 [Ei _]]. rewrite ig_wrapped_idx, Ei, (Z0 P). lia.
  - intros Fl a. apply inside_flag_spec with (a := a) in Fl. destruct (F a) as [_ [_ [_ [Q _]]]]. rewrite ig_wrapped_idx. apply Q. exact Fl.
  - intros Fl. destruct (bg AX per) eqn:PX; destruct (bg AY per) eqn:PY; destruct (bg AZ per) eqn:PZ.
    all: try (exfalso; assert (T : inside_flag st = true);
              [apply inside_flag_spec; intros a; destruct (F a) as [_ [_ [_ [_ [Q _]]]]]; apply Q; destruct a; assumption | congruence]).
    all: assert (NF : ~ forall a, fst (fst (wrap1 ROps (bg a per) (ig a n) (vg a sides) (ig a (cs_idx st)) (vg a (cs_pos st)))) = true)
           by (intros Q; apply inside_flag_spec in Q; congruence).
    all: destruct (Z_lt_dec (ig AX (cs_idx st)) 0); destruct (Z_lt_dec (ig AX (cs_idx st)) (ig AX n));
         destruct (Z_lt_dec (ig AY (cs_idx st)) 0); destruct (Z_lt_dec (ig AY (cs_idx st)) (ig AY n));
         destruct (Z_lt_dec (ig AZ (cs_idx st)) 0); destruct (Z_lt_dec (ig AZ (cs_idx st)) (ig AZ n)).
    all: try (exists AX; split; [assumption|lia]); try (exists AY; split; [assumption|lia]); try (exists AZ; split; [assumption|lia]).
    all: exfalso; apply NF; intros a; destruct (F a) as [_ [_ [_ [_ [Q1 [Q2 _]]]]]];
         destruct a; first [apply Q1; assumption | apply Q2; [assumption|lia]].
  - intros a. destruct (F a) as [_ [_ [Ep _]]]. rewrite vg_wrapped_pos. exact Ep.
Qed.


(* ---- one pass through the loop body, from a state inside the grid with optical depth left ---- *)
Lemma vg_vplus a (u v : vec R) : vg a (vplus ROps u v) = vg a u + vg a v.
Proof. destruct a; reflexivity. Qed.
Lemma vg_vminus a (u v : vec R) : vg a (vminus ROps u v) = vg a u - vg a v.
Proof. destruct a; reflexivity. Qed.
Lemma vg_vscale a (v : vec R) s : vg a (vscale ROps v s) = vg a v * s.
Proof. destruct a; reflexivity. Qed.
Lemma vg_vdivs a (v : vec R) s : vg a (vdivs ROps v s) = vg a v / s.
Proof. destruct a; reflexivity. Qed.

Lemma cw_nonzero u W a : CInv u W -> vg a d <> 0 ->
  0 <= vg a (wallsR u) /\
  vg a (cs_pos u) + vg a (wallsR u) * vg a d = (if Rltb 0 (vg a d) then chi a (ig a (cs_idx u)) else clo a (ig a (cs_idx u))) /\
  vg a (wallsR u) * Rabs (vg a d) <= csz a.
Proof.
  intros I Hd. rewrite vg_cwalls. pose proof (ci_cell u W I a) as Hc.
  pose proof (wall_reach (vg a d) (clo a (ig a (cs_idx u))) (chi a (ig a (cs_idx u))) (vg a (cs_pos u)) Hd Hc) as [W0 W1]. cbv zeta in W0, W1.
  split. exact W0. split. exact W1.
  assert (chi a (ig a (cs_idx u)) - clo a (ig a (cs_idx u)) = csz a) by (unfold chi; ring).
  destruct (Rltb 0 (vg a d)) eqn:S.
  - apply Rltb_true in S. rewrite Rabs_right by lra. nra.
  - apply Rltb_false in S. rewrite Rabs_left by lra. nra.
Qed.
Lemma cw_zero u a : vg a d = 0 -> vg a (wallsR u) = RDBLMAX.
Proof. intros. rewrite vg_cwalls. apply wall_zero. assumption. Qed.

Lemma cds_bounds u W : CInv u W -> 0 <= lmin_of ROps (wallsR u) < RDBLMAX.
Proof.
  intros I. split.
  - destruct (lmin_attained (wallsR u)) as [a E]. rewrite E.
    destruct (Req_dec (vg a d) 0) as [Z|NZ].
    + rewrite cw_zero by exact Z. left; exact RDBLMAX_pos.
    + apply (cw_nonzero u W a I NZ).
  - destruct Hbig as [j [Hj Hb]]. pose proof (lmin_le (wallsR u) j) as Hle.
    pose proof (cw_nonzero u W j I Hj) as [W0 [_ W2]]. unfold csz in W2.
    assert (0 < Rabs (vg j d)) by (apply Rabs_pos_lt; exact Hj).
    assert (vg j (wallsR u) < RDBLMAX) by nra. lra.
Qed.

Definition cmoved (u : cstate R) (a : axis) : Prop := vg a (wallsR u) = lmin_of ROps (wallsR u).
Lemma cmoved_nonzero u W a : CInv u W -> cmoved u a -> vg a d <> 0.
Proof. intros I M Z. unfold cmoved in M. rewrite (cw_zero u a Z) in M. pose proof (cds_bounds u W I). lra. Qed.

(* a point reached by moving 0 <= len <= ds from the position stays in the closed cell *)
Lemma stays_in_cell u W len : CInv u W -> 0 <= len <= lmin_of ROps (wallsR u) ->
  forall a, clo a (ig a (cs_idx u)) <= vg a (cs_pos u) + len * vg a d <= chi a (ig a (cs_idx u)).
Proof.
  intros I Hl a. pose proof (ci_cell u W I a) as Hc. destruct (Req_dec (vg a d) 0) as [Z|NZ].
  - rewrite Z. lra.
  - destruct (cw_nonzero u W a I NZ) as [W0 [W1 _]]. pose proof (lmin_le (wallsR u) a) as Hle.
    destruct (Rltb 0 (vg a d)) eqn:S; [apply Rltb_true in S | apply Rltb_false in S]; split; nra.
Qed.

Definition absorbing (u : cstate R) : Prop := cs_tau u < kap (clong g (cs_idx u)) * lmin_of ROps (wallsR u).
Lemma absorbing_dec u : absorbing u \/ ~ absorbing u.
Proof. unfold absorbing. destruct (Rlt_dec (cs_tau u) (kap (clong g (cs_idx u)) * lmin_of ROps (wallsR u))); auto. Qed.

(* properties of the visit list that do not depend on where the new visit ends *)
Lemma seg_old {A} (l : list A) (v : A) k : (k < length l)%nat ->
  nth_error (l ++ [v]) k = nth_error l k /\ firstn k (l ++ [v]) = firstn k l.
Proof.
  intros H. split. apply nth_error_app1. exact H.
  rewrite firstn_app. replace (k - length l)%nat with 0%nat by lia. cbn [firstn]. apply app_nil_r.
Qed.
Lemma seg_new {A} (l : list A) (v : A) k : nth_error (l ++ [v]) k = Some v -> (length l <= k)%nat -> k = length l /\ firstn k (l ++ [v]) = l.
Proof.
  intros H L. assert (K : (k < length (l ++ [v]))%nat) by (apply nth_error_Some; congruence).
  rewrite app_length in K. cbn [length] in K. assert (k = length l) by lia. subst k. split. reflexivity.
  rewrite firstn_app, Nat.sub_diag. cbn [firstn]. rewrite app_nil_r. apply firstn_all.
Qed.

Lemma body_inv u W len tau' i' p' :
  CInv u W -> in_range (cs_idx u) -> 0 < cs_tau u ->
  0 <= len <= lmin_of ROps (wallsR u) ->
  (forall a, vg a p' = vg a (cs_pos u) + len * vg a d) ->
  (* the new index: same cell, or one step through the walls reached *)
  (forall a, ig a i' = ig a (cs_idx u) \/
             (ig a i' = (ig a (cs_idx u) + 1)%Z /\ vg a p' = chi a (ig a (cs_idx u)) /\ 0 < vg a d) \/
             (ig a i' = (ig a (cs_idx u) - 1)%Z /\ vg a p' = clo a (ig a (cs_idx u)) /\ vg a d < 0)) ->
  ((0 <= tau' /\ tau' = cs_tau u - kap (clong g (cs_idx u)) * len) \/
   (tau' < 0 /\ kap (clong g (cs_idx u)) * len = cs_tau u /\ i' = cs_idx u)) ->
  CInv (mkCS p' i' tau' ((clong g (cs_idx u), len) :: cs_vis u) (Some (clong g (cs_idx u))) (cs_ncell u + 1)) W.
Proof.
  intros I Rg T Hl Hp Hi Ht. set (c := clong g (cs_idx u)) in *.
  pose proof (stays_in_cell u W len I Hl) as Hin.
  constructor; cbn [cs_pos cs_idx cs_tau cs_vis cs_last cs_ncell].
  - intros a. specialize (Rg a). destruct (Hi a) as [E|[[E _]|[E _]]]; rewrite E; lia.
  - intros a. specialize (Hin a). rewrite <- Hp in Hin. destruct (Hi a) as [E|[[E [P _]]|[E [P _]]]]; rewrite E.
    + exact Hin.
    + rewrite clo_succ, P. pose proof (clo_lt_chi a (ig a (cs_idx u) + 1)). rewrite clo_succ in H. lra.
    + rewrite P. replace (chi a (ig a (cs_idx u) - 1)) with (clo a (ig a (cs_idx u))) by (symmetry; apply clo_pred).
      pose proof (clo_lt_chi a (ig a (cs_idx u) - 1)). rewrite clo_pred in H. lra.
  - intros a. rewrite Hp, (ci_pos u W I a), sumlen_cons. cbn [snd]. ring.
  - apply (ci_W u W I).
  - intros a. specialize (Rg a). destruct (Hi a) as [E|[[E [P Dp]]|[E [P Dn]]]]; rewrite E.
    + split; intros X; lia.
    + split; intros X. lia. assert (ig a (cs_idx u) = ig a n - 1)%Z by lia. rewrite P, H. split. unfold chi, clo. rewrite minus_IZR. ring. exact Dp.
    + split; intros X. assert (ig a (cs_idx u) = 0)%Z by lia. rewrite P, H. split. reflexivity. exact Dn. lia.
  - constructor. cbn [snd]. lra. apply (ci_len u W I).
  - rewrite sumtau_cons. cbn [fst snd]. destruct (ci_tau u W I) as [T1 _]. specialize (T1 (Rlt_le _ _ T)). fold c.
    destruct Ht as [[A B]|[A [B _]]].
    + split. intros _. rewrite B, T1. ring. intros; lra.
    + split. intros; lra. intros _. rewrite B, T1. ring.
  - cbn [length]. rewrite (ci_ncell u W I). lia.
  - cbn [fst]. split. reflexivity. exists (cs_idx u), (fun _ => 0%Z). split. exact Rg. split. reflexivity.
    split. intros a _. reflexivity.
    split. intros a. rewrite vg_shifted, Hp. specialize (Hin a). replace (IZR 0) with 0 by reflexivity. lra.
    intros X. destruct Ht as [[A _]|[_ [_ E]]]. lra. split. exact E. reflexivity.
  - intros k c0 len0 Hk. cbn [rev] in Hk |- *.
    destruct (Nat.lt_ge_cases k (length (rev (cs_vis u)))) as [L|L].
    + destruct (seg_old (rev (cs_vis u)) (c, len) k L) as [E1 E2]. rewrite E1 in Hk. rewrite E2. apply (ci_seg u W I k c0 len0 Hk).
    + assert (V : nth_error (rev (cs_vis u) ++ [(c, len)]) k = Some (c, len)).
      { assert (k = length (rev (cs_vis u))).
        { assert (K : (k < length (rev (cs_vis u) ++ [(c, len)]))%nat) by (apply nth_error_Some; congruence).
          rewrite app_length in K. cbn [length] in K. lia. }
        subst k. rewrite nth_error_app2 by lia. rewrite Nat.sub_diag. reflexivity. }
      rewrite V in Hk. inversion Hk; subst c0 len0.
      destruct (seg_new (rev (cs_vis u)) (c, len) k V L) as [_ E2]. rewrite E2.
      exists (cs_idx u), W. split. exact Rg. split. reflexivity. split. apply (ci_W u W I).
      rewrite sumlen_rev. cbv zeta. split; intros a; rewrite vg_shifted, vg_ray.
      * pose proof (ci_cell u W I a) as Q. rewrite (ci_pos u W I a) in Q. lra.
      * specialize (Hin a). rewrite (ci_pos u W I a) in Hin. lra.
Qed.


Lemma body_eq u :
  let l := wallsR u in let ds := lmin_of ROps l in let c := clong g (cs_idx u) in let p := cs_pos u in
  let odp := cs_tau u - od c ds in
  bodyR u =
  if Rltb odp 0 then
    mkCS (vplus ROps p (vdivs ROps (vscale ROps (vminus ROps (vplus ROps p (vscale ROps d ds)) p) (ds + ds * odp / od c ds)) ds))
         (cs_idx u) odp ((c, ds + ds * odp / od c ds) :: cs_vis u) (Some c) (cs_ncell u + 1)
  else
    mkCS (vplus ROps p (vscale ROps d ds))
         (mkI (ix (cs_idx u) + nidx1 ROps (vx l) ds (vx d)) (iy (cs_idx u) + nidx1 ROps (vy l) ds (vy d))
              (iz (cs_idx u) + nidx1 ROps (vz l) ds (vz d)))
         odp ((c, ds) :: cs_vis u) (Some c) (cs_ncell u + 1).
Proof. reflexivity. Qed.

Lemma ig_newidx (i : ivec) (l : vec R) ds a :
  ig a (mkI (ix i + nidx1 ROps (vx l) ds (vx d)) (iy i + nidx1 ROps (vy l) ds (vy d)) (iz i + nidx1 ROps (vz l) ds (vz d)))
  = (ig a i + nidx1 ROps (vg a l) ds (vg a d))%Z.
Proof. destruct a; reflexivity. Qed.

Lemma body_absorbing u W : CInv u W -> in_range (cs_idx u) -> 0 < cs_tau u -> absorbing u ->
  CInv (bodyR u) W /\ cs_tau (bodyR u) < 0 /\ cs_idx (bodyR u) = cs_idx u /\
  exists len, 0 < len <= lmin_of ROps (wallsR u) /\ cs_vis (bodyR u) = (clong g (cs_idx u), len) :: cs_vis u.
Proof.
  intros I Rg T A. pose proof (cds_bounds u W I) as [L0 L1]. pose proof (body_eq u) as E. cbv zeta in E.
  set (ds := lmin_of ROps (wallsR u)) in *.
  unfold absorbing in A. fold ds in A. set (c := clong g (cs_idx u)) in *. pose proof (Hkap c) as K0.
  rewrite Hod in E. set (k := kap c) in *.
  assert (Kpos : 0 < k) by nra. assert (Lpos : 0 < ds) by nra.
  set (odp := cs_tau u - k * ds) in *. assert (On : odp < 0) by (unfold odp; lra).
  assert (Rt : Rltb odp 0 = true) by (apply Rltb_true; exact On). rewrite Rt in E.
  set (len := ds + ds * odp / (k * ds)) in *.
  assert (ES : len = cs_tau u / k) by (unfold len, odp; field; lra).
  assert (Hlen : 0 < len <= ds).
  { rewrite ES. split. apply Rdiv_lt_0_compat; lra. apply (Rmult_le_reg_r k). lra. unfold Rdiv. rewrite Rmult_assoc, Rinv_l by lra. lra. }
  rewrite E. split; [|split; [|split]].
  - apply body_inv; try assumption.
    + fold ds. lra.
    + intros a. rewrite vg_vplus, vg_vdivs, vg_vscale, vg_vminus, vg_vplus, vg_vscale. field. lra.
    + intros a. left. reflexivity.
    + right. split. exact On. split. rewrite ES. fold c. fold k. field. lra. reflexivity.
  - exact On.
  - reflexivity.
  - exists len. split. exact Hlen. reflexivity.
Qed.

Lemma body_moving u W : CInv u W -> in_range (cs_idx u) -> 0 < cs_tau u -> ~ absorbing u ->
  CInv (bodyR u) W /\ 0 <= cs_tau (bodyR u) /\
  cs_vis (bodyR u) = (clong g (cs_idx u), lmin_of ROps (wallsR u)) :: cs_vis u /\
  (exists a, cmoved u a) /\
  forall a, (cmoved u a -> vg a d <> 0 /\ ig a (cs_idx (bodyR u)) = (ig a (cs_idx u) + (if Rltb 0 (vg a d) then 1 else -1))%Z) /\
            (~ cmoved u a -> ig a (cs_idx (bodyR u)) = ig a (cs_idx u)).
Proof.
  intros I Rg T A. pose proof (cds_bounds u W I) as [L0 L1]. pose proof (body_eq u) as E. cbv zeta in E.
  set (ds := lmin_of ROps (wallsR u)) in *.
  unfold absorbing in A. fold ds in A. set (c := clong g (cs_idx u)) in *.
  rewrite Hod in E. set (k := kap c) in *.
  set (odp := cs_tau u - k * ds) in *. assert (On : 0 <= odp) by (unfold odp; lra).
  assert (Rt : Rltb odp 0 = false) by (apply Rltb_false; exact On). rewrite Rt in E.
  assert (X : forall a, (cmoved u a -> vg a d <> 0 /\ nidx1 ROps (vg a (wallsR u)) ds (vg a d) = (if Rltb 0 (vg a d) then 1 else -1)%Z) /\
                        (~ cmoved u a -> nidx1 ROps (vg a (wallsR u)) ds (vg a d) = 0%Z)).
  { intros a. unfold nidx1; rsimp. split.
    - intros M. split. apply (cmoved_nonzero u W a I M). unfold cmoved in M. fold ds in M.
      assert (Q : Reqb (vg a (wallsR u)) ds = true) by (apply Reqb_true; exact M). rewrite Q. reflexivity.
    - intros M. unfold cmoved in M. fold ds in M.
      assert (Q : Reqb (vg a (wallsR u)) ds = false) by (apply Reqb_false; exact M). rewrite Q. reflexivity. }
  rewrite E. split; [|split; [|split; [|split]]].
  - apply body_inv; try assumption.
    + fold ds. lra.
    + intros a. rewrite vg_vplus, vg_vscale. ring.
    + intros a. rewrite ig_newidx, vg_vplus, vg_vscale. destruct (X a) as [X1 X2].
      destruct (Req_EM_T (vg a (wallsR u)) ds) as [M|M].
      * destruct (X1 M) as [NZ Q]. rewrite Q. destruct (cw_nonzero u W a I NZ) as [_ [W1 _]]. rewrite M in W1.
        destruct (Rltb 0 (vg a d)) eqn:S.
        -- right; left. apply Rltb_true in S. split. reflexivity. split. rewrite <- W1. ring. exact S.
        -- right; right. apply Rltb_false in S. split. lia. split. rewrite <- W1. ring. lra.
      * rewrite (X2 M). left. lia.
    + left. split. exact On. reflexivity.
  - exact On.
  - reflexivity.
  - destruct (lmin_attained (wallsR u)) as [a Ea]. exists a. unfold cmoved. symmetry; exact Ea.
  - intros a. cbn [cs_idx]. rewrite ig_newidx. destruct (X a) as [X1 X2]. split.
    + intros M. destruct (X1 M) as [NZ Q]. split. exact NZ. rewrite Q. reflexivity.
    + intros M. rewrite (X2 M). lia.
Qed.

Lemma body_vis_cons u : exists v, cs_vis (bodyR u) = v :: cs_vis u.
Proof. pose proof (body_eq u) as E. cbv zeta in E. rewrite E. destruct (Rltb _ 0); eexists; reflexivity. Qed.

Lemma body_preserves u W : CInv u W -> in_range (cs_idx u) -> 0 < cs_tau u -> CInv (bodyR u) W.
Proof.
  intros I Rg T. destruct (absorbing_dec u) as [A|A].
  - apply (body_absorbing u W I Rg T A).
  - apply (body_moving u W I Rg T A).
Qed.


(* ---- the loop ---- *)
Definition ccond (st : cstate R) : bool := inside_flag st && Rltb 0 (cs_tau st).
Definition cstep (st : cstate R) : cstate R := bodyR (wrapped st).
Definition CI (st : cstate R) : Prop := exists W, CInv st W.

Lemma cmarch_unfold fuel st :
  marchR fuel st = if ccond st then match fuel with O => None | S f => marchR f (cstep st) end
                   else Some (wrapped st, inside_flag st).
Proof.
  destruct fuel; cbn [cmarch]; unfold ccond, inside_flag, cstep, wrapped;
    destruct (cwrap ROps g (cs_idx st) (cs_pos st)) as [[ins i] p]; cbn [fst]; rsimp; reflexivity.
Qed.

Lemma ccond_spec st : ccond st = true <-> inside_flag st = true /\ 0 < cs_tau st.
Proof. unfold ccond. rewrite andb_true_iff, Rltb_true. tauto. Qed.

Lemma cstep_inv st : CI st -> ccond st = true -> CI (cstep st).
Proof.
  intros [W I] C. apply ccond_spec in C. destruct C as [Fl T].
  destruct (wrapped_inv st W I) as [I' [_ [_ [Rg _]]]]. destruct (wrapped_fields st) as [Et _].
  eexists. apply body_preserves. exact I'. apply Rg; exact Fl. rewrite Et; exact T.
Qed.

Inductive creach (s : cstate R) : cstate R -> Prop :=
| creach_refl : creach s s
| creach_step x : creach s x -> ccond x = true -> creach s (cstep x).

Lemma creach_inv s x : CI s -> creach s x -> CI x.
Proof. intros I H. induction H. exact I. apply cstep_inv; assumption. Qed.
Lemma creach_head s x : ccond s = true -> creach (cstep s) x -> creach s x.
Proof.
  intros C H. induction H.
  - apply creach_step. apply creach_refl. exact C.
  - apply creach_step; assumption.
Qed.
Lemma cmarch_reach fuel : forall s r, marchR fuel s = Some r ->
  exists x, creach s x /\ ccond x = false /\ r = (wrapped x, inside_flag x).
Proof.
  induction fuel; intros s r H; rewrite cmarch_unfold in H; destruct (ccond s) eqn:C.
  - discriminate.
  - inversion H; subst. exists s. split. apply creach_refl. split. exact C. reflexivity.
  - destruct (IHfuel _ _ H) as [x [Rx [Cx Ex]]]. exists x. split. apply creach_head; assumption. split; assumption.
  - inversion H; subst. exists s. split. apply creach_refl. split. exact C. reflexivity.
Qed.

(* termination when no axis is periodic: the number of cells still ahead, summed over the axes *)
Definition cmz (a : axis) (st : cstate R) : Z :=
  if Rltb 0 (vg a d) then (ig a n - ig a (cs_idx st))%Z
  else if Rltb (vg a d) 0 then (ig a (cs_idx st) + 1)%Z else 0%Z.
Definition cmeasure (st : cstate R) : Z := (cmz AX st + cmz AY st + cmz AZ st)%Z.

Lemma cmz_nonneg st a : CI st -> (0 <= cmz a st)%Z.
Proof. intros [W I]. pose proof (ci_range st W I a). unfold cmz. destruct (Rltb 0 (vg a d)); [lia|]. destruct (Rltb (vg a d) 0); lia. Qed.

Hypothesis Hopen : forall a, bg a per = false.

Lemma open_wrapped_idx st : CI st -> cs_idx (wrapped st) = cs_idx st.
Proof. intros [W I]. apply ivec_ext. intros a. destruct (wrapped_inv st W I) as [_ [_ [E _]]]. apply E. apply Hopen. Qed.

Lemma cmeasure_pos st : CI st -> ccond st = true -> (1 <= cmeasure st)%Z.
Proof.
  intros I C. apply ccond_spec in C. destruct C as [Fl _]. destruct I as [W I].
  destruct (wrapped_inv st W I) as [_ [_ [_ [Rg _]]]]. specialize (Rg Fl). rewrite (open_wrapped_idx st (ex_intro _ W I)) in Rg.
  destruct Hbig as [j [Hj _]].
  assert (J : (1 <= cmz j st)%Z).
  { specialize (Rg j). unfold cmz. destruct (Rltb 0 (vg j d)) eqn:S. lia.
    apply Rltb_false in S. assert (T : Rltb (vg j d) 0 = true) by (apply Rltb_true; lra). rewrite T. lia. }
  pose proof (cmz_nonneg st AX (ex_intro _ W I)). pose proof (cmz_nonneg st AY (ex_intro _ W I)). pose proof (cmz_nonneg st AZ (ex_intro _ W I)).
  unfold cmeasure. destruct j; lia.
Qed.

Lemma cmarch_terminates fuel : forall st, CI st -> (cmeasure st <= Z.of_nat fuel)%Z -> exists r, marchR fuel st = Some r.
Proof.
  induction fuel; intros st I Hm; rewrite cmarch_unfold; destruct (ccond st) eqn:C.
  - pose proof (cmeasure_pos st I C). lia.
  - eexists; reflexivity.
  - pose proof C as C'. apply ccond_spec in C'. destruct C' as [Fl T]. destruct I as [W I].
    destruct (wrapped_inv st W I) as [I' [_ [_ [Rg _]]]]. specialize (Rg Fl). destruct (wrapped_fields st) as [Et _].
    assert (T' : 0 < cs_tau (wrapped st)) by (rewrite Et; exact T).
    destruct (absorbing_dec (wrapped st)) as [A|A].
    + destruct (body_absorbing _ _ I' Rg T' A) as [I2 [Tn _]]. fold (cstep st) in *.
      rewrite cmarch_unfold. assert (C2 : ccond (cstep st) = false).
      { unfold ccond. assert (Q : Rltb 0 (cs_tau (cstep st)) = false) by (apply Rltb_false; lra). rewrite Q. apply andb_false_r. }
      rewrite C2. eexists; reflexivity.
    + destruct (body_moving _ _ I' Rg T' A) as [I2 [_ [_ [[a0 M0] F]]]]. fold (cstep st) in *.
      apply IHfuel. exists (fun a => (W a + wshift st a)%Z). exact I2.
      assert (Gm : forall a, (cmz a (cstep st) <= cmz a st)%Z /\ (cmoved (wrapped st) a -> (cmz a (cstep st) <= cmz a st - 1)%Z)).
      { intros a. destruct (F a) as [FM FN]. pose proof (open_wrapped_idx st (ex_intro _ W I)) as Ew.
        destruct (Req_EM_T (vg a (wallsR (wrapped st))) (lmin_of ROps (wallsR (wrapped st)))) as [M|M].
        - destruct (FM M) as [NZ Ei]. unfold cmz. rewrite Ei, Ew. destruct (Rltb 0 (vg a d)) eqn:S. split; intros; lia.
          apply Rltb_false in S. assert (Q : Rltb (vg a d) 0 = true) by (apply Rltb_true; lra). rewrite Q. split; intros; lia.
        - specialize (FN M). unfold cmz. rewrite FN, Ew. split. lia. intros M2; exfalso; apply M; exact M2. }
      pose proof (Gm AX) as [X1 X2]. pose proof (Gm AY) as [Y1 Y2]. pose proof (Gm AZ) as [Z1 Z2].
      unfold cmeasure in *. destruct a0; [specialize (X2 M0)|specialize (Y2 M0)|specialize (Z2 M0)]; lia.
  - eexists; reflexivity.
Qed.


Lemma clo_mono a i j : (i <= j)%Z -> clo a i <= clo a j.
Proof. intros H. unfold clo. pose proof (csz_pos a). apply IZR_le in H. nra. Qed.
Lemma clo_n a : clo a (ig a n) = vg a anchor + vg a sides.
Proof. unfold clo. rewrite csz_n. reflexivity. Qed.
Lemma clo_0 a : clo a 0 = vg a anchor.
Proof. unfold clo. ring. Qed.

Lemma inside_flag_wrapped st : CI st -> inside_flag (wrapped st) = inside_flag st.
Proof.
  intros [W I]. destruct (wrapped_inv st W I) as [I' [Pin [Pout [Rg [Out _]]]]].
  destruct (inside_flag st) eqn:Fl.
  - apply inside_flag_spec. intros a. destruct (wrap_axis_facts (wrapped st) _ a I') as [_ [_ [_ [_ [Q1 [Q2 _]]]]]].
    destruct (bg a per) eqn:P. apply Q1; reflexivity. apply Q2. reflexivity. apply (Rg eq_refl a).
  - destruct (Out eq_refl) as [a [P NR]]. destruct (inside_flag (wrapped st)) eqn:Fl2; [|reflexivity].
    exfalso. apply NR. apply inside_flag_spec with (a := a) in Fl2.
    destruct (wrap_axis_facts (wrapped st) _ a I') as [_ [_ [_ [_ [_ [Q2 _]]]]]]. rewrite P in Q2, Fl2.
    apply (Q2 eq_refl) in Fl2. rewrite (Pout a P) in Fl2. exact Fl2.
Qed.

(* facts about a state at which the loop stops *)
Lemma final_facts x : CI x -> ccond x = false ->
  let f := wrapped x in
  (forall a, vg a anchor <= vg a (cs_pos f) <= vg a anchor + vg a sides) /\
  (inside_flag x = true -> cs_tau x <= 0 /\ sumtau kap (cs_vis x) = target) /\
  (inside_flag x = false ->
     0 <= cs_tau x /\ sumtau kap (cs_vis x) = target - cs_tau x /\
     exists a, bg a per = false /\
       ((ig a (cs_idx f) = (-1)%Z /\ vg a (cs_pos f) = vg a anchor /\ vg a d < 0) \/
        (ig a (cs_idx f) = ig a n /\ vg a (cs_pos f) = vg a anchor + vg a sides /\ 0 < vg a d))).
Proof.
  intros [W I] C f. destruct (wrapped_inv x W I) as [I' [Pin [Pout [Rg [Out Ep]]]]]. fold f in I', Pin, Pout, Rg, Ep.
  split; [|split].
  - intros a. pose proof (ci_cell f _ I' a) as Hc. pose proof (ci_range f _ I' a) as Hr. destruct (ci_out f _ I' a) as [O1 O2].
    destruct (Z.eq_dec (ig a (cs_idx f)) (-1)) as [E|NE].
    + destruct (O1 E) as [Q _]. rewrite Q, clo_0. pose proof (Hsides a). lra.
    + destruct (Z.eq_dec (ig a (cs_idx f)) (ig a n)) as [E|NE2].
      * destruct (O2 E) as [Q _]. rewrite Q, clo_n. pose proof (Hsides a). lra.
      * assert (A1 : clo a 0 <= clo a (ig a (cs_idx f))) by (apply clo_mono; lia).
        assert (A2 : chi a (ig a (cs_idx f)) <= clo a (ig a n)) by (rewrite <- clo_succ; apply clo_mono; lia).
        rewrite clo_0 in A1. rewrite clo_n in A2. lra.
  - intros Fl. unfold ccond in C. rewrite Fl in C. cbn [andb] in C. apply Rltb_false in C. split. exact C.
    destruct (ci_tau x W I) as [T1 T2]. destruct (Rle_lt_or_eq_dec _ _ C) as [Lt|Eq].
    + apply T2; exact Lt.
    + assert (Q : 0 <= cs_tau x) by lra. specialize (T1 Q). lra.
  - intros Fl. destruct (Out Fl) as [a [P NR]].
    assert (Tn : 0 <= cs_tau x).
    { destruct (Rle_dec 0 (cs_tau x)) as [Q|Q]; [exact Q|]. exfalso. assert (Lt : cs_tau x < 0) by lra.
      pose proof (ci_last x W I) as L. destruct (cs_vis x) as [|v vis] eqn:Ev.
      - destruct (ci_tau x W I) as [_ T2]. specialize (T2 Lt). rewrite Ev in T2. cbn [sumtau fold_right] in T2. lra.
      - destruct L as [_ [j [wl [J1 [_ [_ [_ J5]]]]]]]. destruct (J5 Lt) as [K _]. apply NR. rewrite K. apply J1. }
    split. exact Tn. split. destruct (ci_tau x W I) as [T1 _]. rewrite (T1 Tn). ring.
    exists a. split. exact P. pose proof (ci_range x W I a) as Hr. destruct (ci_out f _ I' a) as [O1 O2].
    rewrite (Pout a P) in *.
    assert (ig a (cs_idx x) = -1 \/ ig a (cs_idx x) = ig a n)%Z as [E|E] by lia.
    + left. destruct (O1 E) as [Q1 Q2]. rewrite clo_0 in Q1. auto.
    + right. destruct (O2 E) as [Q1 Q2]. rewrite clo_n in Q1. auto.
Qed.

End CartR.

(* ---------------------------------------------------------------------------
   the whole call *)
Definition lkappa (cells : Z -> cellc R) (ph : lphoton R) (c : Z) : R :=
  c_n (cells c) * (lp_sH ph * c_xH (cells c) + lp_sHe ph * c_xHe (cells c)).

Record cgood (anchor sides : vec R) (n : ivec) (cells : Z -> cellc R) (ph : lphoton R) (target : R) : Prop := mkCGood {
  cgd_n : forall a, (1 <= ig a n)%Z;
  cgd_sides : forall a, 0 < vg a sides;
  cgd_start : forall a, vg a anchor <= vg a (lp_pos ph) < vg a anchor + vg a sides;
  cgd_cells : forall c, 0 <= c_n (cells c) /\ 0 <= c_xH (cells c) /\ 0 <= c_xHe (cells c);
  cgd_sigma : 0 <= lp_sH ph /\ 0 <= lp_sHe ph;
  cgd_tau : 0 < target;
  cgd_big : exists j, vg j (lp_dir ph) <> 0 /\ vg j sides / IZR (ig j n) < RDBLMAX * Rabs (vg j (lp_dir ph))
}.

Definition cstart (anchor sides : vec R) (n : ivec) (per : bvec) (ph : lphoton R) (target : R) : cstate R :=
  mkCS (lp_pos ph) (cell_indices ROps (make_cgrid ROps anchor sides n per) (lp_pos ph)) target [] None 0.

Section CartTop.
Variables (anchor sides : vec R) (n : ivec) (per : bvec) (cells : Z -> cellc R) (ph : lphoton R) (target : R).
Hypothesis G : cgood anchor sides n cells ph target.

Let g := make_cgrid ROps anchor sides n per.
Let d := lp_dir ph.
Let p0 := lp_pos ph.
Let od := fun c ds => lod ROps ph (cells c) ds.
Let kap := lkappa cells ph.
Let st0 := cstart anchor sides n per ph target.

Lemma ctop_Hod : forall c l, od c l = kap c * l.
Proof. intros. unfold od, kap, lod, lkappa. rsimp. ring. Qed.
Lemma ctop_Hkap : forall c, 0 <= kap c.
Proof.
  intros c. unfold kap, lkappa. destruct (cgd_cells _ _ _ _ _ _ G c) as [A [B C]]. destruct (cgd_sigma _ _ _ _ _ _ G) as [S1 S2].
  apply Rmult_le_pos. exact A. apply Rplus_le_le_0_compat; apply Rmult_le_pos; assumption.
Qed.

Lemma start_index a :
  let i := ig a (cs_idx st0) in
  (0 <= i < ig a n)%Z /\ clo anchor sides n a i <= vg a p0 <= chi anchor sides n a i.
Proof.
  pose proof (cgd_sides _ _ _ _ _ _ G a) as Hs. pose proof (cgd_n _ _ _ _ _ _ G a) as Hna. pose proof (cgd_start _ _ _ _ _ _ G a) as Hp.
  assert (Hp1 : KCompute = KCompute -> 0 <= vg a p0 - vg a anchor <= vg a sides) by (intros _; unfold p0; lra).
  pose proof (start_axis KCompute (ig a n) (vg a sides) (vg a p0 - vg a anchor) Hs Hna Hp1) as F. cbv zeta in F.
  destruct F as [_ [F2 [F3 F4]]]. cbn [repos1] in F2, F3, F4.
  set (i0 := start1 ROps KCompute (ig a n) (IZR (ig a n) / vg a sides) (vg a p0 - vg a anchor)) in *.
  assert (F5 : (i0 <= ig a n - 1)%Z) by (apply F4; intros _; unfold p0; lra).
  assert (E : ig a (cs_idx st0) = i0).
  { assert (Hnr : 0 < IZR (ig a n)) by (apply (IZR_lt 0); lia).
    assert (Einv : 1 / (vg a sides / IZR (ig a n)) = IZR (ig a n) / vg a sides) by (field; lra).
    assert (Ei : RtruncZ ((vg a p0 - vg a anchor) * (1 / (vg a sides / IZR (ig a n)))) = i0) by (rewrite Einv; reflexivity).
    assert (NE : (i0 =? ig a n)%Z = false) by (apply Z.eqb_neq; lia).
    destruct a; cbn [ig vg] in *; unfold st0, cstart, cell_indices, cell_index1; cbn [cs_idx ix iy iz make_cgrid cg_anchor cg_inv cg_sides cg_n cg_cs vx vy vz]; rsimp;
      unfold p0 in Ei; rewrite Ei, NE; reflexivity. }
  cbv zeta. rewrite E. split. lia. unfold clo, chi, clo, csz. lra.
Qed.

Lemma start_CInv : CInv anchor sides n per d target kap p0 st0 (fun _ => 0%Z).
Proof.
  constructor.
  - intros a. destruct (start_index a) as [H _]. cbv zeta in H. lia.
  - intros a. destruct (start_index a) as [_ H]. exact H.
  - intros a. unfold st0, cstart. cbn [cs_pos cs_vis sumlen fold_right]. fold p0. simpl. ring.
  - intros a _. reflexivity.
  - intros a. destruct (start_index a) as [H _]. cbv zeta in H. split; intros X; lia.
  - constructor.
  - unfold st0, cstart. cbn [cs_tau cs_vis sumtau fold_right]. split. intros; ring. pose proof (cgd_tau _ _ _ _ _ _ G). intros; lra.
  - reflexivity.
  - reflexivity.
  - intros k c len H. unfold st0, cstart in H. cbn [cs_vis rev] in H. destruct k; discriminate.
Qed.

Lemma start_ccond : ccond anchor sides n per st0 = true.
Proof.
  apply ccond_spec. split.
  - apply inside_flag_spec. intros a.
    destruct (wrap_axis_facts anchor sides n per d target kap p0 (cgd_n _ _ _ _ _ _ G) st0 _ a start_CInv) as [_ [_ [_ [_ [Q1 [Q2 _]]]]]].
    destruct (bg a per) eqn:P. apply Q1; reflexivity. apply Q2. reflexivity. apply (start_index a).
  - apply (cgd_tau _ _ _ _ _ _ G).
Qed.

Let Hs := cgd_sides _ _ _ _ _ _ G.
Let Hn' := cgd_n _ _ _ _ _ _ G.
Let Ht := cgd_tau _ _ _ _ _ _ G.
Let Hb := cgd_big _ _ _ _ _ _ G.
Notation CInv' := (CInv anchor sides n per d target kap p0).
Notation CI' := (CI anchor sides n per d target kap p0).
Notation wrapped' := (wrapped anchor sides n per).
Notation flag' := (inside_flag anchor sides n per).
Notation creach' := (creach anchor sides n per d od).
Notation ccond' := (ccond anchor sides n per).

Lemma t_reach_inv x : creach' st0 x -> CI' x.
Proof.
  intros Rx. apply (creach_inv anchor sides n per d target od kap p0 Hs Hn' ctop_Hod ctop_Hkap Hb st0 x).
  exists (fun _ => 0%Z). exact start_CInv. exact Rx.
Qed.

(* what interact returns, in terms of the state x at which the loop stopped *)
Lemma cart_result fuel r : cart_interact ROps fuel g cells ph target = COk r ->
  exists x W, creach' st0 x /\ ccond' x = false /\ CInv' x W /\ cs_vis x <> [] /\
    cr_fin r = wrapped' x /\ cr_pos r = cs_pos (wrapped' x) /\ cr_vis r = rev (cs_vis x) /\
    cr_cell r = (if flag' x then cs_last x else None).
Proof.
  intros H.
  assert (U : cart_interact ROps fuel g cells ph target =
    match cmarch ROps g d (cinvd d) od fuel st0 with
    | None => CErrFuel
    | Some (st, _) =>
      if (cs_ncell st =? 0)%Z && Rltb 0 (cs_tau st) then CErrLeaves
      else let '(ins, _, _) := cwrap ROps g (cs_idx st) (cs_pos st) in
           COk (mkCR (if ins then cs_last st else None) (cs_pos st) (rev (cs_vis st)) st)
    end) by reflexivity.
  rewrite U in H. clear U. destruct (cmarch ROps g d (cinvd d) od fuel st0) as [[st fl]|] eqn:M; [|discriminate].
  destruct (cmarch_reach anchor sides n per d od fuel st0 _ M) as [x [Rx [Cx Ex]]]. inversion Ex; subst st fl. clear Ex.
  pose proof (t_reach_inv x Rx) as [W I].
  assert (NV : cs_vis x <> []).
  { destruct Rx as [|y Ry Cy].
    - rewrite start_ccond in Cx. discriminate.
    - unfold cstep. destruct (body_vis_cons anchor sides n per d od (wrapped' y)) as [v Ev]. rewrite Ev. discriminate. }
  destruct (wrapped_fields anchor sides n per x) as [Et [Ev [El En]]].
  assert (NC : (cs_ncell (wrapped' x) =? 0)%Z = false).
  { rewrite En, (ci_ncell _ _ _ _ _ _ _ _ _ _ I). apply Z.eqb_neq. destruct (cs_vis x). contradiction. cbn [length]. lia. }
  rewrite NC in H. cbn [andb] in H.
  pose proof (inside_flag_wrapped anchor sides n per d target kap p0 Hs Hn' x (ex_intro _ W I)) as Fw.
  unfold inside_flag in Fw at 1. fold g in Fw.
  destruct (cwrap ROps g (cs_idx (wrapped' x)) (cs_pos (wrapped' x))) as [[ins i2] p2]. cbn [fst] in Fw. subst ins.
  inversion H; subst r. clear H. cbn [cr_fin cr_pos cr_vis cr_cell].
  exists x, W. split. exact Rx. split. exact Cx. split. exact I. split. exact NV.
  split. reflexivity. split. reflexivity. split. rewrite Ev. reflexivity. rewrite El. reflexivity.
Qed.

Lemma Forall_rev_iff {A} (P : A -> Prop) l : Forall P l -> Forall P (rev l).
Proof. intros H. apply Forall_forall. intros x Hx. apply in_rev in Hx. rewrite Forall_forall in H. apply H; exact Hx. Qed.

(* (a) the credited lengths are non-negative and sum to the distance travelled: the photon ends at
   start + S * direction, up to whole box periods along periodic axes *)
Lemma cart_path_thm fuel r : cart_interact ROps fuel g cells ph target = COk r ->
  Forall (fun v => 0 <= snd v) (cr_vis r) /\
  exists W, shift_ok per W /\
    forall a, vg a (cr_pos r) = vg a p0 + sumlen (cr_vis r) * vg a d + IZR (W a) * vg a sides.
Proof.
  intros H. destruct (cart_result fuel r H) as [x [W [Rx [Cx [I [NV [Ef [Ep [Ev Ec]]]]]]]]].
  destruct (wrapped_inv anchor sides n per d target kap p0 Hs Hn' x W I) as [I' _].
  split. rewrite Ev. apply Forall_rev_iff. apply (ci_len _ _ _ _ _ _ _ _ _ _ I).
  eexists. split. apply (ci_W _ _ _ _ _ _ _ _ _ _ I').
  intros a. rewrite Ep, Ev, sumlen_rev. rewrite (ci_pos _ _ _ _ _ _ _ _ _ _ I' a).
  destruct (wrapped_fields anchor sides n per x) as [_ [E _]]. rewrite E. reflexivity.
Qed.

(* (a) every cell is credited the piece of the straight line that lies in it: visit k covers the parameter
   interval [s0, s0 + len] with s0 the sum of the earlier lengths, and that whole piece (taken modulo box periods)
   lies in the closed box of the credited cell, which is a cell of the grid *)
Lemma cart_segments_thm fuel r k c len : cart_interact ROps fuel g cells ph target = COk r ->
  nth_error (cr_vis r) k = Some (c, len) ->
  exists j w, in_range n j /\ clong g j = c /\ shift_ok per w /\
    forall s, sumlen (firstn k (cr_vis r)) <= s <= sumlen (firstn k (cr_vis r)) + len ->
              in_cell anchor sides n j (shifted sides (ray d p0 s) w).
Proof.
  intros H Hk. destruct (cart_result fuel r H) as [x [W [Rx [Cx [I [NV [Ef [Ep [Ev Ec]]]]]]]]].
  rewrite Ev in Hk |- *. destruct (ci_seg _ _ _ _ _ _ _ _ _ _ I k c len Hk) as [j [w [J1 [J2 [J3 J4]]]]]. cbv zeta in J4.
  destruct J4 as [A B]. exists j, w. split. exact J1. split. exact J2. split. exact J3.
  intros s Hs0 a. specialize (A a). specialize (B a). rewrite vg_shifted, vg_ray in *.
  set (s0 := sumlen (firstn k (rev (cs_vis x)))) in *.
  destruct (Rle_dec 0 (vg a d)); split; nra.
Qed.

(* (b) optical depth accounting *)
Lemma cart_tau_thm fuel r : cart_interact ROps fuel g cells ph target = COk r ->
  sumtau kap (cr_vis r) <= target /\
  (cr_cell r <> None -> sumtau kap (cr_vis r) = target) /\
  (cr_cell r = None -> 0 <= cs_tau (cr_fin r) /\ sumtau kap (cr_vis r) = target - cs_tau (cr_fin r)).
Proof.
  intros H. destruct (cart_result fuel r H) as [x [W [Rx [Cx [I [NV [Ef [Ep [Ev Ec]]]]]]]]].
  destruct (final_facts anchor sides n per d target kap p0 Hs Hn' Ht x (ex_intro _ W I) Cx) as [_ [F1 F2]].
  destruct (wrapped_fields anchor sides n per x) as [Et _].
  rewrite Ev, sumtau_rev, Ef, Et. destruct (flag' x) eqn:Fl.
  - destruct (F1 eq_refl) as [T1 T2]. split. lra. split. intros _; exact T2.
    intros N. rewrite Ec in N. pose proof (ci_last _ _ _ _ _ _ _ _ _ _ I) as L. destruct (cs_vis x). contradiction.
    destruct L as [L _]. rewrite L in N. discriminate.
  - destruct (F2 eq_refl) as [T1 [T2 _]]. split. lra. split. intros N. rewrite Ec in N. contradiction. intros _. split; assumption.
Qed.

(* (c) absorbed: the target is reached, and the returned cell is a cell of the grid whose closed box contains
   the final position -- exactly when the target was reached before the wall of the cell (optical depth
   overshoot, cs_tau < 0), up to one box period when it was reached exactly on a periodic face *)
Lemma cart_absorbed_thm fuel r c : cart_interact ROps fuel g cells ph target = COk r -> cr_cell r = Some c ->
  sumtau kap (cr_vis r) = target /\ cs_tau (cr_fin r) <= 0 /\
  (exists pre len, cr_vis r = pre ++ [(c, len)]) /\
  exists j wl, in_range n j /\ clong g j = c /\ shift_ok per wl /\
    in_cell anchor sides n j (shifted sides (cr_pos r) wl) /\
    (cs_tau (cr_fin r) < 0 -> forall a, wl a = 0%Z).
Proof.
  intros H Hc. destruct (cart_result fuel r H) as [x [W [Rx [Cx [I [NV [Ef [Ep [Ev Ec]]]]]]]]].
  destruct (final_facts anchor sides n per d target kap p0 Hs Hn' Ht x (ex_intro _ W I) Cx) as [_ [F1 _]].
  destruct (wrapped_fields anchor sides n per x) as [Et [Evv _]].
  rewrite Hc in Ec. destruct (flag' x) eqn:Fl; [|discriminate].
  destruct (F1 eq_refl) as [T1 T2].
  destruct (wrapped_inv anchor sides n per d target kap p0 Hs Hn' x W I) as [I' _].
  pose proof (ci_last _ _ _ _ _ _ _ _ _ _ I') as L. rewrite Evv in L.
  destruct (cs_vis x) as [|v vis] eqn:Evis. contradiction.
  destruct L as [L1 [j [wl [J1 [J2 [J3 [J4 J5]]]]]]].
  destruct (wrapped_fields anchor sides n per x) as [_ [_ [El _]]]. rewrite El in L1. rewrite L1 in Ec. inversion Ec; subst c.
  split. rewrite Ev, sumtau_rev. exact T2. split. rewrite Ef, Et. exact T1.
  split. exists (rev vis), (snd v). rewrite Ev. cbn [rev]. destruct v; reflexivity.
  exists j, wl. split. exact J1. split. exact J2. split. exact J3. split. rewrite Ep. exact J4.
  intros Tn. rewrite Ef in Tn. apply J5. exact Tn.
Qed.

(* (c) escaped: the photon is on an open (non-periodic) face of the box, moving outward, the index has left the
   grid through that face, and the target has not been exceeded: what is left is target - (optical depth used) *)
Lemma cart_escaped_thm fuel r : cart_interact ROps fuel g cells ph target = COk r -> cr_cell r = None ->
  0 <= cs_tau (cr_fin r) /\ sumtau kap (cr_vis r) = target - cs_tau (cr_fin r) /\
  exists a, bg a per = false /\
    ((ig a (cs_idx (cr_fin r)) = (-1)%Z /\ vg a (cr_pos r) = vg a anchor /\ vg a d < 0) \/
     (ig a (cs_idx (cr_fin r)) = ig a n /\ vg a (cr_pos r) = vg a anchor + vg a sides /\ 0 < vg a d)).
Proof.
  intros H Hc. destruct (cart_result fuel r H) as [x [W [Rx [Cx [I [NV [Ef [Ep [Ev Ec]]]]]]]]].
  destruct (final_facts anchor sides n per d target kap p0 Hs Hn' Ht x (ex_intro _ W I) Cx) as [_ [_ F2]].
  destruct (wrapped_fields anchor sides n per x) as [Et _].
  rewrite Hc in Ec. destruct (flag' x) eqn:Fl.
  - pose proof (ci_last _ _ _ _ _ _ _ _ _ _ I) as L. destruct (cs_vis x). contradiction. destruct L as [L _]. rewrite L in Ec. discriminate.
  - destruct (F2 eq_refl) as [T1 [T2 T3]]. rewrite Ef, Et, Ev, sumtau_rev, Ep. split. exact T1. split. exact T2. exact T3.
Qed.

(* (d) the final position lies in the closed box: along a periodic axis the position has been moved by whole box
   sides exactly as often as needed (cart_path_thm gives position = start + S d + W sides) *)
Lemma cart_in_box_thm fuel r : cart_interact ROps fuel g cells ph target = COk r ->
  forall a, vg a anchor <= vg a (cr_pos r) <= vg a anchor + vg a sides.
Proof.
  intros H. destruct (cart_result fuel r H) as [x [W [Rx [Cx [I [NV [Ef [Ep [Ev Ec]]]]]]]]].
  destruct (final_facts anchor sides n per d target kap p0 Hs Hn' Ht x (ex_intro _ W I) Cx) as [F0 _]. rewrite Ep. exact F0.
Qed.

(* the position is not moved along an axis whose faces the straight line does not reach *)
Lemma cart_no_spurious_wrap_thm fuel r a : cart_interact ROps fuel g cells ph target = COk r ->
  (forall s, 0 <= s <= sumlen (cr_vis r) -> vg a anchor < vg a p0 + s * vg a d < vg a anchor + vg a sides) ->
  vg a (cr_pos r) = vg a p0 + sumlen (cr_vis r) * vg a d.
Proof.
  intros H Hin. destruct (cart_path_thm fuel r H) as [Hl [W [_ Hp]]]. pose proof (cart_in_box_thm fuel r H a) as Hb'.
  rewrite (Hp a) in Hb' |- *. pose proof (sumlen_nonneg _ Hl) as S0. specialize (Hin (sumlen (cr_vis r)) (conj S0 (Rle_refl _))).
  pose proof (Hs a) as Hsa.
  assert (W a = 0%Z).
  { destruct (Z_lt_dec (W a) 0). assert (IZR (W a) <= -1) by (apply (IZR_le _ (-1)); lia). nra.
    destruct (Z_lt_dec 0 (W a)). assert (1 <= IZR (W a)) by (apply (IZR_le 1); lia). nra. lia. }
  rewrite H0. simpl. ring.
Qed.

(* the call never runs into "Photon leaves the system immediately" for a start inside the box *)
Lemma cart_no_leave_error_thm fuel : cart_interact ROps fuel g cells ph target <> CErrLeaves.
Proof.
  intros H.
  assert (U : cart_interact ROps fuel g cells ph target =
    match cmarch ROps g d (cinvd d) od fuel st0 with
    | None => CErrFuel
    | Some (st, _) =>
      if (cs_ncell st =? 0)%Z && Rltb 0 (cs_tau st) then CErrLeaves
      else let '(ins, _, _) := cwrap ROps g (cs_idx st) (cs_pos st) in
           COk (mkCR (if ins then cs_last st else None) (cs_pos st) (rev (cs_vis st)) st)
    end) by reflexivity.
  rewrite U in H. clear U. destruct (cmarch ROps g d (cinvd d) od fuel st0) as [[st fl]|] eqn:M; [|discriminate].
  destruct (cmarch_reach anchor sides n per d od fuel st0 _ M) as [x [Rx [Cx Ex]]]. inversion Ex; subst st fl. clear Ex.
  pose proof (t_reach_inv x Rx) as [W I].
  assert (NV : cs_vis x <> []).
  { destruct Rx as [|y Ry Cy].
    - rewrite start_ccond in Cx. discriminate.
    - unfold cstep. destruct (body_vis_cons anchor sides n per d od (wrapped' y)) as [v Ev]. rewrite Ev. discriminate. }
  destruct (wrapped_fields anchor sides n per x) as [Et [Ev [El En]]].
  assert (NC : (cs_ncell (wrapped' x) =? 0)%Z = false).
  { rewrite En, (ci_ncell _ _ _ _ _ _ _ _ _ _ I). apply Z.eqb_neq. destruct (cs_vis x). contradiction. cbn [length]. lia. }
  rewrite NC in H. cbn [andb] in H.
  destruct (cwrap ROps g (cs_idx (wrapped' x)) (cs_pos (wrapped' x))) as [[ins i2] p2]. discriminate.
Qed.

(* without periodic boundaries nx + ny + nz + 1 passes through the loop are enough *)
Lemma cart_fuel_suffices_thm fuel : (forall a, bg a per = false) ->
  (Z.to_nat (ix n + iy n + iz n + 1) <= fuel)%nat ->
  exists r, cart_interact ROps fuel g cells ph target = COk r.
Proof.
  intros Hopen Hf.
  assert (M0 : (cmeasure n d st0 <= Z.of_nat fuel)%Z).
  { assert (Mz : forall a, (cmz n d a st0 <= ig a n)%Z).
    { intros a. destruct (start_index a) as [Hi _]. cbv zeta in Hi. unfold cmz. destruct (Rltb 0 (vg a d)). lia. destruct (Rltb (vg a d) 0); lia. }
    pose proof (Mz AX). pose proof (Mz AY). pose proof (Mz AZ). cbn [ig] in *.
    pose proof (Hn' AX). pose proof (Hn' AY). pose proof (Hn' AZ). cbn [ig] in *. unfold cmeasure. lia. }
  destruct (cmarch_terminates anchor sides n per d target od kap p0 Hs Hn' ctop_Hod ctop_Hkap Hb Hopen fuel st0
              (ex_intro _ (fun _ => 0%Z) start_CInv) M0) as [[st fl] M].
  destruct (cart_interact ROps fuel g cells ph target) as [r| |] eqn:E.
  - exists r. reflexivity.
  - exfalso. apply (cart_no_leave_error_thm fuel). exact E.
  - exfalso.
    assert (U : cart_interact ROps fuel g cells ph target =
      match cmarch ROps g d (cinvd d) od fuel st0 with
      | None => CErrFuel
      | Some (st, _) =>
        if (cs_ncell st =? 0)%Z && Rltb 0 (cs_tau st) then CErrLeaves
        else let '(ins, _, _) := cwrap ROps g (cs_idx st) (cs_pos st) in
             COk (mkCR (if ins then cs_last st else None) (cs_pos st) (rev (cs_vis st)) st)
      end) by reflexivity.
    rewrite U in E. clear U. fold g in M. rewrite M in E. destruct ((cs_ncell st =? 0)%Z && Rltb 0 (cs_tau st)); [discriminate|].
    destruct (cwrap ROps g (cs_idx st) (cs_pos st)) as [[? ?] ?]. discriminate.
Qed.

End CartTop.

(* update_integrals replayed on the hydrogen mean intensity: every cell of non-zero density grows by
   weight * sigma_H * (sum of the lengths credited to it); a cell of zero density is left alone *)
Lemma cart_J_exact_thm (cells : Z -> cellc R) (ph : lphoton R) : forall (vis : list (Z * R)) (j0 : R) (c : Z),
  cart_J ROps cells ph j0 vis c =
  if Rltb 0 (c_n (cells c)) then j0 + len_in c vis * lp_w ph * lp_sH ph else j0.
Proof.
  induction vis as [|v vis IH]; intros j0 c.
  - unfold cart_J, len_in. cbn [fold_left fold_right]. destruct (Rltb 0 (c_n (cells c))); ring.
  - unfold cart_J in *. cbn [fold_left]. rewrite IH. rewrite len_in_cons. unfold deposit_J. rsimp.
    destruct (Z.eqb_spec (fst v) c) as [E|NE].
    + assert (Q : (c =? fst v)%Z = true) by (apply Z.eqb_eq; symmetry; exact E). rewrite Q.
      destruct (Rltb 0 (c_n (cells c))); ring.
    + assert (Q : (c =? fst v)%Z = false) by (apply Z.eqb_neq; intros X; apply NE; symmetry; exact X). rewrite Q. reflexivity.
Qed.

(* the premises are satisfiable: unit box, 8x8x8 cells, opacity 1, photon at the centre moving along +x *)
Example cgood_example :
  cgood (mkV 0 0 0) (mkV 1 1 1) (mkI 8 8 8) (fun _ => mkC 1 1 0) (mkLP (mkV (1 / 2) (1 / 2) (1 / 2)) (mkV 1 0 0) 1 0 1) (1 / 4).
Proof.
  constructor.
  - intros a; destruct a; cbn [ig ix iy iz]; lia.
  - intros a; destruct a; cbn [vg vx vy vz]; lra.
  - intros a; destruct a; cbn [vg vx vy vz lp_pos]; lra.
  - intros c. cbn [c_n c_xH c_xHe]. lra.
  - cbn [lp_sH lp_sHe]. lra.
  - lra.
  - exists AX. cbn [vg vx lp_dir ig ix]. split. lra. rewrite Rabs_R1. pose proof RDBLMAX_gt2. simpl. lra.
Qed.
